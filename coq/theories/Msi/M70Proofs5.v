(* C06 about the faithful model of MVP-7.0, part 5: clause 2 (a line Shared in a core is byte-identical to main
   memory) on flush-free runs, and the full invariant C06Inv70.

   On top of F3 (part 4: K1' + GI + Sn + Sh): the DATA invariant DIc of one controller,
     D1  a Shared line has a non-negative aligned base and its L1 copy (if the L1 has one: clause 3 says it has)
         equals memory;
     D3  after the fill of a read miss (REvict / RL1 with post = PShareRUnlock a) the L1 copy of a equals memory;
     D2  during the memory latency of a read miss (RFetch) the fetched bytes equal memory and the line is not
         in L1;
     D4  a write transaction ends with PModUnlock / PUnlock;  D5  a read hit does not end with PShareRUnlock.
   Memory changes only in the write-back closure of a core that holds the line Modified (GI.g1), so no other core
   holds it Shared (clause 1) nor is filling it (others_notM of K1'); the L1 data of a line changes only in
   coWriteToL1, in the same call that makes the line Modified.

   RESULT: mvp70_inv_reachable - C06Inv70 (clauses 1-5) in every state of the flush-free prefix of every run.
   WHAT IS STILL MISSING (precisely):
     - runs WITH pipeline flushes (cacheController.flush): outside reach7nf; the four defects of flush recorded in
       known_findings.json make clauses 1, 3 and 5 false there (only clauses 4, 5-as-ranges hold: part 1);
     - the supporting conjuncts of the boolean judge c06full70_b (shapes_b, cmds_b, just_b, snoop_b) are NOT proved
       to imply the inductive invariant F5 proved here (K1' + GI + Sn + Sh + DI): the proof uses a different,
       semaphore-based justification of commands (GI.g3) instead of just_b, which is not inductive without a
       timing argument (an Evict command could be "justified" by a reader that waits on the line);
       only c06inv70_b -> C06Inv70 (part 6) and hence c06full70_b -> C06Inv70 are proved;
     - the victim command of a fill is not shown to target another line (victim_b of the judge): not needed. *)
From Coq Require Import ZArith List Bool Lia.
From Maj Require Import Base.Outcome Base.GoInt Base.GoTypes Isa.Spec Isa.Seq.
From Maj Require Import Gen.Latency Gen.RiscTables Gen.Opcodes Comp.Cache Comp.Rat Comp.RatProofs Mvp.Mvp12 Mvp.Mvp3 Mvp.Mvp3Proofs Mvp.Mvp5 Mvp.Mvp60 Mvp.Mvp63 Mvp.Mvp63Proofs Mvp.Mvp70 Mvp.Mvp70Proofs.
From Maj Require Import Msi.M70Inv Msi.M70Frame Msi.M70Proofs Msi.M70Proofs2 Msi.M70Proofs3 Msi.M70Proofs4.
Import ListNotations.
Open Scope Z_scope.

(* ------------------------------------------------------------------ *)
(* A. main memory and the data of the L1 lines                          *)
(* ------------------------------------------------------------------ *)

Lemma mem_line_write : forall mem a d mem1 b, write_to_memory mem a d = Ok mem1 -> zlen d = l1LineSize ->
  a mod l1LineSize = 0 -> b mod l1LineSize = 0 -> 0 <= b -> b <> a -> mem_line mem1 b = mem_line mem b.
Proof.
  intros mem a d mem1 b H LD AA AB B0 NE. unfold l1LineSize in *.
  destruct (Z_lt_ge_dec a 0) as [NEG|POS].
  - destruct d as [|v t]; [inv H; reflexivity|]. cbn [write_to_memory] in H.
    destruct (Z.leb_spec (Z.of_nat (length mem)) a); [inv H; reflexivity|]. destruct (Z.ltb_spec a 0); [discriminate|lia].
  - destruct (write_to_memory_ok d mem a ltac:(lia)) as (m' & E & L & V). rewrite E in H. inv H.
    unfold mem_line. apply map_ext_in. intros k Hk. apply in_seq in Hk. rewrite L.
    destruct (Z.ltb_spec (b + Z.of_nat k) (Z.of_nat (length mem))); [|reflexivity].
    unfold l1LineSize in Hk. change (Z.to_nat 64) with 64%nat in Hk.
    specialize (V (b + Z.of_nat k)). unfold mget, zlen in V. rewrite V by lia.
    destruct (Z.leb_spec a (b + Z.of_nat k)), (Z.ltb_spec (b + Z.of_nat k) (a + Z.of_nat (length d))); cbn [andb]; try reflexivity.
    exfalso. unfold zlen in LD. lia.
Qed.

Lemma find_skip {A} (f : A -> bool) pre l post : f l = false -> find f (pre ++ l :: post) = find f (pre ++ post).
Proof. intros F. induction pre as [|x t IH]; cbn [app find]; [rewrite F; reflexivity|]. destruct (f x); [reflexivity|exact IH]. Qed.

Lemma wf_unique_pre : forall pre l post b, lines_wf (pre ++ l :: post) -> covers_b l b = true ->
  (forall x, In x pre -> covers_b x b = false) /\ (forall x, In x post -> covers_b x b = false).
Proof.
  intros pre l post b [W _] C. specialize (W b). rewrite cnt_mid, C in W.
  pose proof (cnt_nonneg (fun l0 => covers_b l0 b) pre). pose proof (cnt_nonneg (fun l0 => covers_b l0 b) post).
  split; apply cnt_zero_inv; lia.
Qed.

Lemma line_get_same : forall c x c' r b, l1_wf c -> get c x = Ok (c', r) -> l1_line c' b = l1_line c b.
Proof.
  intros c x c' r b W H. unfold get in H. apply bind_ok in H as (f & E & H).
  destruct f as [[[v l] rest]|]; inv H; [|reflexivity].
  destruct (find_line_some _ _ _ _ _ E) as (pre & post & E1 & -> & _). apply l1_wf_lines in W as [_ W]. rewrite E1 in W.
  unfold l1_line. cbn [set_lines lines]. rewrite E1. cbn [find]. destruct (covers_b l b) eqn:C.
  - destruct (wf_unique_pre _ _ _ _ W C) as [P _]. symmetry. apply l1_line_app; assumption.
  - symmetry. apply find_skip. exact C.
Qed.

Lemma line_get_all_same : forall addrs c acc c' r b, l1_wf c -> get_all c addrs acc = Ok (c', r) -> l1_line c' b = l1_line c b.
Proof.
  induction addrs as [|a t IH]; intros c acc c' r b W H; cbn [get_all] in H.
  - inv H. reflexivity.
  - apply bind_ok in H as ([c1 [v|]] & E & H).
    + rewrite (IH _ _ _ _ _ (get_wf _ _ _ _ E W) H). eapply line_get_same; eauto.
    + inv H. eapply line_get_same; eauto.
Qed.

Lemma line_evict_sub : forall c a c' r b l, l1_wf c -> evict_cache_line c a = Ok (c', r) -> l1_line c' b = Some l -> l1_line c b = Some l.
Proof.
  intros c a c' r b l W H F. unfold evict_cache_line in H. apply bind_ok in H as (f & E & H).
  destruct f as [[[v l0] rest]|]; inv H; [|exact F].
  destruct (find_line_some _ _ _ _ _ E) as (pre & post & E1 & -> & _). apply l1_wf_lines in W as [_ W]. rewrite E1 in W.
  unfold l1_line in *. cbn [set_lines lines] in F. rewrite E1. destruct (covers_b l0 b) eqn:C.
  - exfalso. destruct (wf_unique_pre _ _ _ _ W C) as [P Q]. apply find_some in F as [I CL].
    apply in_app_or in I as [I|I]; [rewrite (P _ I) in CL|rewrite (Q _ I) in CL]; discriminate.
  - rewrite find_skip by exact C. exact F.
Qed.

Lemma line_write_other : forall c a0 vs c' b l, write c a0 vs = Ok c' -> l1_line c' b = Some l -> covers_b l a0 = false -> l1_line c b = Some l.
Proof.
  intros c a0 vs c' b l H. unfold write in H. apply bind_ok in H as (ls & E & H). inv H. unfold l1_line. cbn [set_lines lines].
  revert ls E. induction (lines c) as [|x t IH]; intros ls E F NC; cbn [write_lines] in E; [discriminate|].
  apply bind_ok in E as (r & G & E). pose proof (line_get_covers _ _ _ G) as CV. destruct r.
  - apply bind_ok in E as (d & _ & E). inv E. cbn [find] in *. unfold covers_b at 1 in F. cbn [lo hi] in F.
    unfold covers_b at 1. destruct ((lo x <=? b) && (b <? hi x)); [|exact F]. inv F. exfalso.
    unfold covers_b in NC. cbn [lo hi] in NC. assert (covers_b x a0 = true) by (apply CV; discriminate). unfold covers_b in H. congruence.
  - apply bind_ok in E as (t' & E & E'). inv E'. cbn [find] in *. destruct (covers_b x b); [exact F|]. eapply IH; eauto.
Qed.

Definition clean (l1 : cache) (mem : list Z) (a : Z) : Prop := forall l, l1_line l1 a = Some l -> data l = mem_line mem a.

Lemma clean_sub : forall l1 l1' mem a, (forall l, l1_line l1' a = Some l -> l1_line l1 a = Some l) -> clean l1 mem a -> clean l1' mem a.
Proof. intros l1 l1' mem a S C l F. apply C. apply S. exact F. Qed.

Lemma push_line_view : forall c la d c' v, push_line_to_l1 c la d = Ok (c', v) -> l1_holds c la = false ->
  lines c' = new_line c la d :: lines c.
Proof.
  intros c la d c' v H NH. unfold push_line_to_l1 in H. apply bind_ok in H as ([c1 r] & E & H). destruct r.
  - apply get_hit in E. congruence.
  - assert (c1 = c) as ->.
    { unfold get in E. apply bind_ok in E as (f & E1 & E). destruct f as [[[v0 l0] r0]|]; [discriminate|]. inv E. reflexivity. }
    unfold push_line_warn in H. destruct (_ >? _); inv H; reflexivity.
Qed.

Lemma push_line_other : forall c la d c' v b, push_line_to_l1 c la d = Ok (c', v) -> l1_wf c -> fetch_ok la d ->
  al b -> b <> la -> l1_line c' b = l1_line c b.
Proof.
  intros c la d c' v b H W (A0 & A1 & _) AB NE. unfold push_line_to_l1 in H. apply bind_ok in H as ([c1 r] & E & H). destruct r.
  - inv H. eapply line_get_same; eauto.
  - assert (c1 = c) as ->.
    { unfold get in E. apply bind_ok in E as (f & E1 & E). destruct f as [[[v0 l0] r0]|]; [discriminate|]. inv E. reflexivity. }
    assert (EL : lines c' = new_line c la d :: lines c) by (unfold push_line_warn in H; destruct (_ >? _); inv H; reflexivity).
    unfold l1_line. rewrite EL. cbn [find]. destruct (covers_b (new_line c la d) b) eqn:C; [|reflexivity].
    exfalso. apply NE. eapply new_line_covers; eauto. apply (proj1 W).
Qed.

(* ------------------------------------------------------------------ *)
(* B. the data invariant of one controller                              *)
(* ------------------------------------------------------------------ *)

Definition wr_type (p : post7) : Prop := match p with PModUnlock _ | PUnlock _ => True | _ => False end.
Definition pre_fill (c : cc7) : bool := match c_rd c with RPend _ _ _ | RFetch _ _ _ _ => true | _ => false end.
Definition D1 (mem : list Z) (st : Z -> Z) (l1 : cache) : Prop := forall a, st a = stShared -> al a /\ 0 <= a /\ clean l1 mem a.
Definition Dpost (mem : list Z) (l1 : cache) (p : post7) : Prop := forall a, p = PShareRUnlock a -> 0 <= a /\ clean l1 mem a.

Definition DIc (mem : list Z) (st : Z -> Z) (c : cc7) : Prop :=
  D1 mem st (c_l1d c) /\
  (forall p, cur_post c = Some p -> pre_fill c = false -> Dpost mem (c_l1d c) p) /\
  match c_rd c with
  | RFetch _ la d _ => d = mem_line mem la /\ l1_holds (c_l1d c) la = false
  | RPend _ false p => forall a, p <> PShareRUnlock a
  | _ => True
  end /\
  (c_rd c = RStart -> forall p, cur_post c = Some p -> wr_type p).

Lemma D1_ext : forall mem st st' l1, (forall a, st' a = st a) -> D1 mem st l1 -> D1 mem st' l1.
Proof. intros mem st st' l1 E D a H. rewrite E in H. auto. Qed.
Lemma DIc_ext : forall mem st st' c, (forall a, st' a = st a) -> DIc mem st c -> DIc mem st' c.
Proof. intros mem st st' c E (A & B). split; [eapply D1_ext; eauto|exact B]. Qed.
Lemma D1_lines : forall mem st l1 l1', (forall a, al a -> st a = stShared -> forall l, l1_line l1' a = Some l -> l1_line l1 a = Some l) ->
  D1 mem st l1 -> D1 mem st l1'.
Proof. intros mem st l1 l1' S D a H. destruct (D a H) as (A & B & C). split; [exact A|split; [exact B|]]. intros l F. apply C. eapply S; eauto. Qed.

Section CoreD.
Variables (mem : list Z) (id : Z).
Notation DRes i' c' := (DIc mem (state_get i' id) c').

Ltac dcc := unfold DIc, pre_fill, cur_post; cbn [set_rd set_wr set_l1d set_post set_rsems set_wsems set_snoop c_l1d c_rd c_wr c_post c_snoop].

Lemma rd_l1_D : forall i c addrs cyc data i' c' r, D1 mem (state_get i id) (c_l1d c) -> Dpost mem (c_l1d c) (c_post c) ->
  (forall a, post_line (c_post c) = Some a -> al a) -> c_wr c = WStart ->
  rd_l1 i id c addrs cyc data = Ok (i', c', r) -> DRes i' c'.
Proof.
  intros i c addrs cyc data i' c' r D P AL W H. unfold rd_l1 in H. destruct (0 <? cyc).
  - inv H. dcc. split; [exact D|]. split; [intros p E _; inv E; exact P|]. split; [exact I|discriminate].
  - apply bind_ok in H as (i1 & E1 & H). apply bind_ok in H as (a & E2 & H). inv H.
    destruct (run_post_states _ _ _ _ E1) as (_ & ST & _). dcc. rewrite W.
    split; [|split; [discriminate|split; [exact I|discriminate]]].
    eapply D1_ext; [exact ST|]. intros b SB. destruct (c_post c) eqn:EP; cbn [st_after] in SB; try (apply D; exact SB).
    + destruct (b =? a0) eqn:Q; [|apply D; exact SB]. apply Z.eqb_eq in Q. subst b.
      destruct (P a0 eq_refl) as [P0 PC]. split; [apply AL; reflexivity|split; assumption].
    + destruct (b =? a0) eqn:Q; [discriminate|apply D; exact SB].
Qed.

Lemma rd_from_l1_D : forall i c addrs i' c' r, D1 mem (state_get i id) (c_l1d c) -> Dpost mem (c_l1d c) (c_post c) ->
  (forall a, post_line (c_post c) = Some a -> al a) -> l1_wf (c_l1d c) -> c_wr c = WStart ->
  rd_from_l1 i id c addrs = Ok (i', c', r) -> DRes i' c'.
Proof.
  intros i c addrs i' c' r D P AL WF W H. unfold rd_from_l1 in H. apply bind_ok in H as ([l1 g] & E & H).
  destruct g as [data|]; [|discriminate].
  assert (LE : forall b, l1_line l1 b = l1_line (c_l1d c) b) by (intros; eapply line_get_all_same; eauto).
  eapply rd_l1_D; [| | | |exact H]; cbn [set_l1d c_l1d c_post c_wr]; [| |exact AL|exact W].
  - eapply D1_lines; [|exact D]. intros a _ _ l F. rewrite <- LE. exact F.
  - intros a PA. destruct (P a PA) as [P0 PC]. split; [exact P0|]. eapply clean_sub; [|exact PC]. intros l F. rewrite <- LE. exact F.
Qed.

Lemma rd_evict_D : forall i c addrs pending post i' c' r, D1 mem (state_get i id) (c_l1d c) -> Dpost mem (c_l1d c) post ->
  (forall a, post_line post = Some a -> al a) -> l1_wf (c_l1d c) -> c_wr c = WStart ->
  rd_evict i id c addrs pending post = Ok (i', c', r) -> DRes i' c'.
Proof.
  intros i c addrs pending post i' c' r D P AL WF W H. unfold rd_evict in H.
  assert (STAY : DRes i (set_rd c (REvict pending post))).
  { dcc. split; [exact D|]. split; [intros p E _; inv E; exact P|]. split; [exact I|discriminate]. }
  assert (GO : rd_from_l1 i id (set_post c post) addrs = Ok (i', c', r) -> DRes i' c').
  { intros H'. eapply rd_from_l1_D; [| | | | |exact H']; cbn [set_post c_l1d c_post c_wr]; assumption. }
  destruct pending as [p|]; [destruct (negb (cmd_isdone i p))|]; [inv H; exact STAY|apply GO; exact H|apply GO; exact H].
Qed.

Lemma rd_fetch_D : forall i c addrs cyc la dt post i' c' r, D1 mem (state_get i id) (c_l1d c) -> post = PShareRUnlock la ->
  dt = mem_line mem la -> l1_holds (c_l1d c) la = false -> state_get i id la = stInvalid -> fetch_ok la dt ->
  l1_wf (c_l1d c) -> c_wr c = WStart -> rd_fetch i id c addrs cyc la dt post = Ok (i', c', r) -> DRes i' c'.
Proof.
  intros i c addrs cyc la dt post i' c' r D PP DT NH SI FO WF W H. unfold rd_fetch in H. destruct (0 <? cyc).
  - inv H. dcc. split; [exact D|]. split; [discriminate|]. split; [split; [reflexivity|exact NH]|discriminate].
  - apply bind_ok in H as ([l1 v] & E & H). cbn [fst snd] in H.
    assert (D' : D1 mem (state_get i id) l1).
    { eapply D1_lines; [|exact D]. intros a AA SA l F. rewrite <- (push_line_other _ _ _ _ _ a E WF FO AA); [exact F|].
      intros ->. rewrite SI in SA. discriminate. }
    assert (P' : Dpost mem l1 post).
    { intros a PA. subst post. inv PA. split; [apply FO|]. intros l F. pose proof (push_line_view _ _ _ _ _ E NH) as EL.
      unfold l1_line in F. rewrite EL in F. cbn [find] in F. destruct (covers_b (new_line (c_l1d c) a (mem_line mem a)) a).
      - inv F. reflexivity.
      - exfalso. unfold l1_holds, l1_line in NH. rewrite F in NH. discriminate. }
    assert (AL : forall a, post_line post = Some a -> al a) by (intros a PA; subst post; inv PA; apply FO).
    assert (WF1 : l1_wf l1) by (eapply push_line_to_l1_wf; eauto).
    destruct v as [victim|].
    + destruct (msi_evict_extra i id (lo victim)) as [i1 pe] eqn:EE. inv H. apply msi_evict_extra_spec in EE as [S _].
      eapply DIc_ext; [intros; apply (same_ss_state _ _ _ _ S)|]. dcc.
      split; [exact D'|]. split; [intros p E0 _; inv E0; exact P'|]. split; [exact I|discriminate].
    + eapply rd_from_l1_D; [| | | | |exact H]; cbn [set_post set_l1d c_l1d c_post c_wr]; assumption.
Qed.

Lemma rd_pend_D : forall i c addrs ps fetch post i' c' r, D1 mem (state_get i id) (c_l1d c) ->
  (fetch = true -> exists a, post = PShareRUnlock a /\ state_get i id a = stInvalid) ->
  (fetch = false -> forall a, post <> PShareRUnlock a) -> (forall a, post_line post = Some a -> aligned7 addrs = Ok a) ->
  l1_wf (c_l1d c) -> c_wr c = WStart -> rd_pend mem i id c addrs ps fetch post = Ok (i', c', r) -> DRes i' c'.
Proof.
  intros i c addrs ps fetch post i' c' r D FT FF TIE WF W H. unfold rd_pend in H. destruct (negb (all_done i ps)).
  - inv H. dcc. split; [exact D|]. split; [discriminate|]. split; [destruct fetch; [exact I|apply FF; reflexivity]|discriminate].
  - destruct fetch; cbn [negb] in H.
    + apply bind_ok in H as (a & E1 & H). apply bind_ok in H as (g & E2 & H). destruct g; [discriminate|].
      destruct addrs as [|a0 tl]; [discriminate|]. apply bind_ok in H as (ln & E3 & H).
      destruct (FT eq_refl) as (a' & PP & SI). subst post. rewrite (TIE a' eq_refl) in E1. inv E1.
      pose proof (TIE a eq_refl) as AL. cbn [aligned7] in AL. inv AL. apply fetch_cache_line_ok in E3 as [FO EQ].
      eapply rd_fetch_D; [| | | | | | | |exact H]; try assumption; try reflexivity.
      unfold get_cache_line in E2. apply bind_ok in E2 as (f & E2 & E2'). destruct f as [[[? ?] ?]|]; [discriminate|].
      apply find_line_none_view in E2. unfold l1_holds. rewrite E2. reflexivity.
    + eapply rd_from_l1_D; [| | | | |exact H]; cbn [set_post c_l1d c_post c_wr]; try assumption.
      * intros a PA. exfalso. eapply FF; eauto.
      * intros a PA. eapply aligned7_al. apply TIE. exact PA.
Qed.

Lemma rd_start_D : forall i c addrs i' c' r, DIc mem (state_get i id) c -> l1_wf (c_l1d c) -> c_rd c = RStart -> c_wr c = WStart ->
  rd_start mem i id c addrs = Ok (i', c', r) -> DRes i' c'.
Proof.
  intros i c addrs i' c' r (D & _) WF R W H. unfold rd_start in H. apply bind_ok in H as (a & E1 & H).
  apply bind_ok in H as ([i1 lr] & E2 & H). cbn [fst snd] in H. destruct lr as [|fetch ps post].
  - inv H. apply msi_rlock_wait in E2. subst i'. dcc. rewrite R, W. split; [exact D|]. split; [discriminate|]. split; [exact I|discriminate].
  - destruct (msi_rlock_shape _ _ _ _ _ _ _ E2) as [ST SH].
    eapply rd_pend_D; [| | | | | |exact H]; cbn [set_rsems c_l1d c_wr]; try assumption.
    + eapply D1_ext; [intros; apply ST|exact D].
    + intros F. destruct SH as [(_ & -> & SI)|(F' & _)]; [|congruence]. exists a. split; [reflexivity|]. rewrite ST. exact SI.
    + intros F b. destruct SH as [(F' & _)|(_ & _ & [(-> & _)|(-> & _)])]; [congruence|discriminate|discriminate].
    + intros b PB. destruct SH as [(_ & -> & _)|(_ & _ & [(-> & _)|(-> & _)])]; cbn in PB; inv PB; exact E1.
Qed.

(* ---- write ---- *)

Lemma wr_l1_D : forall i c addrs data cyc i' c' r, D1 mem (state_get i id) (c_l1d c) -> wr_type (c_post c) -> own_ok i id (c_post c) ->
  (forall a, post_line (c_post c) = Some a -> aligned7 addrs = Ok a) -> l1_wf (c_l1d c) -> c_rd c = RStart ->
  wr_l1 i id c addrs data cyc = Ok (i', c', r) -> DRes i' c'.
Proof.
  intros i c addrs data cyc i' c' r D WT OW TIE WF R H. unfold wr_l1 in H. destruct (0 <? cyc).
  - inv H. dcc. rewrite R. split; [exact D|]. split; [intros p E _; inv E; intros a PA; rewrite PA in WT; destruct WT|].
    split; [exact I|]. intros _ p E. inv E. exact WT.
  - destruct addrs as [|a0 tl]; [discriminate|].
    apply bind_ok in H as (l1 & E0 & H). apply bind_ok in H as (i1 & E1 & H). apply bind_ok in H as (a & E2 & H). inv H.
    destruct (run_post_states _ _ _ _ E1) as (_ & ST & _). dcc. rewrite R.
    split; [|split; [discriminate|split; [exact I|discriminate]]].
    eapply D1_ext; [exact ST|]. 
    assert (PL : post_line (c_post c) = Some a).
    { destruct (c_post c) as [|b|b|b|b]; cbn in WT; try destruct WT; cbn [post_line]; f_equal;
        pose proof (TIE b eq_refl) as X; rewrite X in E2; inv E2; reflexivity. }
    assert (KEEP : forall b, st_after (c_post c) (state_get i id) b = stShared -> state_get i id b = stShared /\ b <> a).
    { intros b SB. destruct (c_post c) eqn:EP; cbn in WT; try destruct WT; cbn [st_after post_line own_ok] in *; inv PL.
      - destruct (b =? a) eqn:Q; [discriminate|]. split; [exact SB|]. intros ->. rewrite Z.eqb_refl in Q. discriminate.
      - split; [exact SB|]. intros ->. rewrite OW in SB. discriminate. }
    intros b SB. destruct (KEEP b SB) as [SB' NE]. destruct (D b SB') as (AB & B0 & CB). split; [exact AB|split; [exact B0|]].
    intros l' F. apply CB. eapply line_write_other; [exact E0|exact F|].
    destruct (covers_b l' a0) eqn:CV; [exfalso|reflexivity].
    pose proof (write_wf _ _ _ _ E0 WF) as (_ & _ & WL). unfold l1_line in F. apply find_some in F as [IN CB'].
    specialize (WL l' IN). destruct (aligned_in_line l' a0 WL CV) as [EA _]. cbn [aligned7] in E2. inv E2.
    destruct (line_wf_covers _ _ WL CB') as [RB _]. destruct WL as (_ & ML & _). unfold al, l1LineSize in *. rewrite EA in NE. lia.
Qed.

Lemma wr_evict_D : forall i c addrs data pending cyc post i' c' r, D1 mem (state_get i id) (c_l1d c) -> wr_type post -> own_ok i id post ->
  (forall a, post_line post = Some a -> aligned7 addrs = Ok a) -> l1_wf (c_l1d c) -> c_rd c = RStart ->
  wr_evict i id c addrs data pending cyc post = Ok (i', c', r) -> DRes i' c'.
Proof.
  intros i c addrs data pending cyc post i' c' r D WT OW TIE WF R H. unfold wr_evict in H.
  assert (STAY : forall k, DRes i (set_wr c (WEvict pending k post))).
  { intros k. dcc. rewrite R. split; [exact D|]. split; [intros p E _; inv E; intros a PA; rewrite PA in WT; destruct WT|].
    split; [exact I|]. intros _ p E. inv E. exact WT. }
  destruct (match pending with Some p => negb (cmd_isdone i p) | None => false end); [inv H; apply STAY|].
  destruct (0 <? cyc); [inv H; apply STAY|].
  eapply wr_l1_D; [| | | | | |exact H]; cbn [set_post c_l1d c_post c_rd]; assumption.
Qed.

Lemma wr_fetch_D : forall i c addrs data cyc la dt post i' c' r, D1 mem (state_get i id) (c_l1d c) -> post = PModUnlock la ->
  state_get i id la = stInvalid -> fetch_ok la dt -> (forall a, post_line post = Some a -> aligned7 addrs = Ok a) ->
  l1_wf (c_l1d c) -> c_rd c = RStart -> wr_fetch i id c addrs data cyc la dt post = Ok (i', c', r) -> DRes i' c'.
Proof.
  intros i c addrs data cyc la dt post i' c' r D PP SI FO TIE WF R H. unfold wr_fetch in H.
  assert (WT : wr_type post) by (subst post; exact I).
  assert (OW : own_ok i id post) by (subst post; cbn [own_ok]; rewrite SI; discriminate).
  destruct (0 <? cyc).
  - inv H. dcc. rewrite R. split; [exact D|]. split; [intros p E _; inv E; discriminate|]. split; [exact I|]. intros _ p E. inv E. exact I.
  - apply bind_ok in H as ([l1 v] & E & H). cbn [fst snd] in H.
    assert (D' : D1 mem (state_get i id) l1).
    { eapply D1_lines; [|exact D]. intros a AA SA l F. rewrite <- (push_line_other _ _ _ _ _ a E WF FO AA); [exact F|].
      intros ->. rewrite SI in SA. discriminate. }
    assert (WF1 : l1_wf l1) by (eapply push_line_to_l1_wf; eauto).
    destruct v as [victim|].
    + destruct (msi_evict_extra i id (lo victim)) as [i1 pe] eqn:EE. inv H. apply msi_evict_extra_spec in EE as [S _].
      eapply DIc_ext; [intros; apply (same_ss_state _ _ _ _ S)|]. dcc. rewrite R.
      split; [exact D'|]. split; [intros p E0 _; inv E0; discriminate|]. split; [exact I|]. intros _ p E0. inv E0. exact I.
    + eapply wr_l1_D; [| | | | | |exact H]; cbn [set_post set_l1d c_l1d c_post c_rd]; assumption.
Qed.

Lemma wr_pend_D : forall i c addrs data ps fetch post i' c' r, D1 mem (state_get i id) (c_l1d c) -> wr_type post -> own_ok i id post ->
  (fetch = true -> exists a, post = PModUnlock a /\ state_get i id a = stInvalid) ->
  (forall a, post_line post = Some a -> aligned7 addrs = Ok a) -> l1_wf (c_l1d c) -> c_rd c = RStart ->
  wr_pend mem i id c addrs data ps fetch post = Ok (i', c', r) -> DRes i' c'.
Proof.
  intros i c addrs data ps fetch post i' c' r D WT OW FT TIE WF R H. unfold wr_pend in H. destruct (negb (all_done i ps)).
  - inv H. dcc. rewrite R. split; [exact D|]. split; [intros p E _; inv E; intros a PA; rewrite PA in WT; destruct WT|].
    split; [exact I|]. intros _ p E. inv E. exact WT.
  - destruct fetch.
    + destruct addrs as [|a0 tl]; [discriminate|]. apply bind_ok in H as (a & E1 & H). apply bind_ok in H as (ln & E3 & H).
      destruct (FT eq_refl) as (a' & PP & SI). subst post. rewrite (TIE a' eq_refl) in E1. inv E1.
      pose proof (TIE a eq_refl) as AL. cbn [aligned7] in AL. inv AL. apply fetch_cache_line_ok in E3 as [FO _].
      eapply wr_fetch_D; [| | | | | | |exact H]; try assumption; reflexivity.
    + eapply wr_l1_D; [| | | | | |exact H]; cbn [set_post c_l1d c_post c_rd]; assumption.
Qed.

Lemma wr_start_D : forall i c addrs data i' c' r, DIc mem (state_get i id) c -> l1_wf (c_l1d c) -> c_rd c = RStart -> c_wr c = WStart ->
  wr_start mem i id c addrs data = Ok (i', c', r) -> DRes i' c'.
Proof.
  intros i c addrs data i' c' r (D & _) WF R W H. unfold wr_start in H. apply bind_ok in H as (a & E1 & H).
  apply bind_ok in H as ([i1 lr] & E2 & H). cbn [fst snd] in H. destruct lr as [|fetch ps post].
  - inv H. apply msi_lock_wait in E2. subst i'. dcc. rewrite R, W. split; [exact D|]. split; [discriminate|]. split; [exact I|discriminate].
  - destruct (msi_lock_shape _ _ _ _ _ _ _ E2) as [ST SH].
    eapply wr_pend_D; [| | | | | | |exact H]; cbn [set_wsems c_l1d c_rd]; try assumption.
    + eapply D1_ext; [intros; apply ST|exact D].
    + destruct SH as [(_ & -> & _)|(_ & [(-> & _)|(-> & _)])]; exact I.
    + destruct SH as [(_ & -> & SI)|(_ & [(-> & _ & SM)|(-> & SS)])]; cbn [own_ok]; rewrite ST; [rewrite SI; discriminate|exact SM|rewrite SS; discriminate].
    + intros F. destruct SH as [(_ & -> & SI)|(F' & _)]; [|congruence]. exists a. split; [reflexivity|]. rewrite ST. exact SI.
    + intros b PB. destruct SH as [(_ & -> & _)|(_ & [(-> & _)|(-> & _)])]; cbn in PB; inv PB; exact E1.
Qed.

End CoreD.

Lemma Sh_tie : forall st c addrs p, Sh st c addrs -> cur_post c = Some p -> forall a, post_line p = Some a -> aligned7 addrs = Ok a.
Proof. intros st c addrs p (_ & _ & T) CP a PA. destruct (T p CP) as (a' & PA' & AL). congruence. Qed.

Lemma cc_read_cycle_D : forall mem id i c addrs i' c' r, DIc mem (state_get i id) c -> Sh (state_get i id) c addrs ->
  FetchI i id c -> CS c -> c_wr c = WStart -> cc_read_cycle mem i id c addrs = Ok (i', c', r) -> DIc mem (state_get i' id) c'.
Proof.
  intros mem id i c addrs i' c' r DI SH [FI _] (WF & RO & _) W H. unfold cc_read_cycle in H.
  pose proof DI as (D & DP & D3 & _). pose proof SH as (_ & [PH _] & _).
  destruct (c_rd c) eqn:E.
  - eapply rd_start_D; eauto.
  - assert (CP : cur_post c = Some post) by (unfold cur_post; rewrite E; reflexivity).
    eapply rd_pend_D; [exact D| | |eapply Sh_tie; eauto|exact WF|exact W|exact H].
    + intros ->. destruct (PH eq_refl) as [a ->]. exists a. split; [reflexivity|]. apply FI. reflexivity.
    + intros ->. exact D3.
  - assert (CP : cur_post c = Some post) by (unfold cur_post; rewrite E; reflexivity). destruct D3 as [DT NH].
    eapply rd_fetch_D; [exact D|exact PH|exact DT|exact NH| |exact RO|exact WF|exact W|exact H].
    apply FI. rewrite PH. reflexivity.
  - assert (CP : cur_post c = Some post) by (unfold cur_post; rewrite E; reflexivity).
    eapply rd_evict_D; [exact D| | |exact WF|exact W|exact H].
    + apply DP; [exact CP|unfold pre_fill; rewrite E; reflexivity].
    + intros a PA. eapply aligned7_al. eapply Sh_tie; eauto.
  - assert (CP : cur_post c = Some (c_post c)) by (unfold cur_post; rewrite E; reflexivity).
    eapply rd_l1_D; [exact D| | |exact W|exact H].
    + apply DP; [exact CP|unfold pre_fill; rewrite E; reflexivity].
    + intros a PA. eapply aligned7_al. eapply Sh_tie; eauto.
Qed.

Lemma cc_write_cycle_D : forall mem id i c addrs data i' c' r, DIc mem (state_get i id) c -> Sh (state_get i id) c addrs ->
  (forall p, cur_post c = Some p -> own_ok i id p) -> CS c -> c_rd c = RStart ->
  cc_write_cycle mem i id c addrs data = Ok (i', c', r) -> DIc mem (state_get i' id) c'.
Proof.
  intros mem id i c addrs data i' c' r DI SH OW (WF & _ & WO) R H. unfold cc_write_cycle in H.
  pose proof DI as (D & _ & _ & D4). pose proof SH as (_ & [_ PH] & _).
  destruct (c_wr c) eqn:E.
  - eapply wr_start_D; eauto.
  - assert (CP : cur_post c = Some post) by (unfold cur_post; rewrite R, E; reflexivity).
    eapply (wr_pend_D mem id i c addrs data _ _ post); [exact D|apply D4; assumption|apply OW; exact CP| |eapply Sh_tie; eauto|exact WF|exact R|exact H].
    intros ->. exact (PH eq_refl).
  - assert (CP : cur_post c = Some post) by (unfold cur_post; rewrite R, E; reflexivity). destruct PH as [PP SI].
    eapply wr_fetch_D; [exact D|exact PP|exact SI|exact WO|eapply Sh_tie; eauto|exact WF|exact R|exact H].
  - assert (CP : cur_post c = Some post) by (unfold cur_post; rewrite R, E; reflexivity).
    eapply (wr_evict_D mem id i c addrs data _ _ post); [exact D|apply D4; assumption|apply OW; exact CP|eapply Sh_tie; eauto|exact WF|exact R|exact H].
  - assert (CP : cur_post c = Some (c_post c)) by (unfold cur_post; rewrite R, E; reflexivity).
    eapply wr_l1_D; [exact D|apply D4; assumption|apply OW; exact CP|eapply Sh_tie; eauto|exact WF|exact R|exact H].
Qed.

(* ------------------------------------------------------------------ *)
(* C. coSnoop: memory is written only at write-backs                    *)
(* ------------------------------------------------------------------ *)

Lemma get_cache_line_len : forall l1 a d, l1_wf l1 -> get_cache_line l1 a = Ok (Some d) -> zlen d = l1LineSize.
Proof.
  intros l1 a d (_ & _ & W) H. unfold get_cache_line in H. apply bind_ok in H as (f & E & H).
  destruct f as [[[v l] rest]|]; inv H. destruct (find_line_some _ _ _ _ _ E) as (pre & post & E1 & _).
  assert (I : In l (lines l1)) by (rewrite E1; apply in_or_app; right; left; reflexivity). destruct (W l I) as (_ & _ & L & _). exact L.
Qed.

Lemma snoop_items_data : forall items mem i id l1 mem' i' l1' items', snoop_items mem i id l1 items = Ok (mem', i', l1', items') ->
  l1_wf l1 -> (forall it, In it items -> al (it_line it)) ->
  (forall b l, l1_line l1' b = Some l -> l1_line l1 b = Some l) /\
  (forall b, al b -> 0 <= b -> (forall it, In it items -> it_rq it = rqWriteBack -> it_line it <> b) -> mem_line mem' b = mem_line mem b).
Proof.
  induction items as [|it tl IH]; intros mem i id l1 mem' i' l1' items' H W AL; cbn [snoop_items] in H.
  - inv H. split; auto.
  - assert (AL' : forall it0, In it0 tl -> al (it_line it0)) by (intros; apply AL; right; assumption).
    destruct it as [a|a cyc].
    + apply bind_ok in H as ([l1a r] & E & H). cbn [fst] in H.
      destruct (IH _ _ _ _ _ _ _ _ H (evict_wf _ _ _ _ E W) AL') as [S M]. split.
      * intros b l0 F. eapply line_evict_sub; eauto.
      * intros b AB B0 N. apply M; auto. intros it I. apply N. right. exact I.
    + destruct (0 <? cyc).
      * apply bind_ok in H as ([[[m1 i1] l2] t'] & E & H). inv H. destruct (IH _ _ _ _ _ _ _ _ E W AL') as [S M]. split; [exact S|].
        intros b AB B0 N. apply M; auto. intros it I. apply N. right. exact I.
      * apply bind_ok in H as (g & E0 & H). destruct g as [dd|]; [|discriminate].
        apply bind_ok in H as (m1 & E1 & H). apply bind_ok in H as ([l1a r] & E & H). cbn [fst snd] in H.
        destruct r; [|discriminate].
        destruct (IH _ _ _ _ _ _ _ _ H (evict_wf _ _ _ _ E W) AL') as [S M]. split.
        -- intros b l0 F. eapply line_evict_sub; eauto.
        -- intros b AB B0 N. rewrite M; auto; [|intros it I; apply N; right; exact I].
           eapply mem_line_write; [exact E1|eapply get_cache_line_len; eauto|apply (AL (SWriteBack a cyc)); left; reflexivity|exact AB|exact B0|].
           intros ->. eapply (N (SWriteBack a cyc)); try reflexivity. left; reflexivity.
Qed.

Definition pre_pend (c : cc7) : bool := match c_rd c with RPend _ _ _ => true | _ => false end.

Lemma DIc_snoop : forall mem mem' st st' c c' addrs, DIc mem st c -> Sh st c addrs -> CS c ->
  c_rd c' = c_rd c -> c_wr c' = c_wr c -> c_post c' = c_post c ->
  (forall b, st' b = stShared -> st b = stShared) ->
  (forall b l, l1_line (c_l1d c') b = Some l -> l1_line (c_l1d c) b = Some l) ->
  (forall b, al b -> 0 <= b -> (st b = stShared \/ (cur_post c = Some (PShareRUnlock b) /\ pre_pend c = false)) -> mem_line mem' b = mem_line mem b) ->
  DIc mem' st' c'.
Proof.
  intros mem mem' st st' c c' addrs (D & DP & D3 & D4) SH (_ & RO & _) R W P SS LS MF.
  pose proof (cur_post_same _ _ R W P) as CP.
  assert (CL : forall b, al b -> 0 <= b -> (st b = stShared \/ (cur_post c = Some (PShareRUnlock b) /\ pre_pend c = false)) -> clean (c_l1d c) mem b -> clean (c_l1d c') mem' b).
  { intros b AB B0 REL C l F. rewrite (MF b AB B0 REL). apply C. apply LS. exact F. }
  split; [|split; [|split]].
  - intros b SB. apply SS in SB. destruct (D b SB) as (AB & B0 & C). split; [exact AB|split; [exact B0|]]. apply CL; auto.
  - intros p CP' PF a PA. rewrite CP in CP'. unfold pre_fill in PF. rewrite R in PF. subst p.
    destruct (DP _ CP' PF a eq_refl) as [A0 C]. split; [exact A0|]. apply CL; auto; [eapply aligned7_al; eapply Sh_tie; eauto|].
    right. split; [exact CP'|]. unfold pre_pend. destruct (c_rd c); try reflexivity; discriminate.
  - rewrite R. destruct (c_rd c) eqn:E; try exact D3.
    + pose proof SH as (_ & [PH _] & _). try rewrite E in PH. destruct D3 as [DT NH]. try rewrite E in RO. cbn [rd_ok] in RO. destruct RO as (A0 & A1 & _).
      assert (CPc : cur_post c = Some (PShareRUnlock lineAddr)) by (unfold cur_post; rewrite E, PH; reflexivity).
      split; [rewrite MF; auto; right; split; [exact CPc|unfold pre_pend; rewrite E; reflexivity]|].
      destruct (l1_holds (c_l1d c') lineAddr) eqn:HO; [|reflexivity]. unfold l1_holds in HO.
      destruct (l1_line (c_l1d c') lineAddr) eqn:F; [|discriminate]. apply LS in F. unfold l1_holds in NH. rewrite F in NH. discriminate.
  - intros R' p CP'. rewrite CP in CP'. rewrite R in R'. apply D4; assumption.
Qed.

(* ------------------------------------------------------------------ *)
(* D. the data invariant over the execute units                         *)
(* ------------------------------------------------------------------ *)

Definition DI (mem : list Z) (i : msi7) (eus : list eu7) : Prop :=
  forall n e, nth_error eus n = Some e -> DIc mem (state_get i (Z.of_nat n)) (h_cc e).

Lemma cur_pend_none : forall c b, cur_post c = Some (PShareRUnlock b) -> pre_pend c = false ->
  (c_rd c = RStart -> forall p, cur_post c = Some p -> wr_type p) -> cur_pend c = None.
Proof.
  intros c b CP PP D4. unfold cur_pend. unfold pre_pend in PP. destruct (c_rd c) eqn:E; try reflexivity; [|discriminate].
  exfalso. specialize (D4 eq_refl _ CP). exact D4.
Qed.

Section StepD.
Variable hk : hooks7.
Hypothesis HF : hooks_frame hk.

Lemma snoop_one_D : forall D e T mem i mem' i' c', F3 i (D ++ e :: T) -> DI mem i (D ++ e :: T) ->
  cc_snoop_cycle (k_evict hk) mem i (Z.of_nat (length D)) (h_cc e) = Ok (mem', i', c') -> DI mem' i' (D ++ set_hcc e c' :: T).
Proof.
  intros D e T mem i mem' i' c' F DD H. pose proof F as ([G C] & K1 & CSS & _).
  destruct (C (length D) e (nth_error_mid D e T)) as [SN SH].
  assert (CSe : CS (h_cc e)) by (unfold CSs in CSS; apply Forall_mid in CSS as (_ & X & _); exact X).
  assert (NV : nth_error (map v3_of (D ++ e :: T)) (length D) = Some (v3_cc (h_cc e))).
  { rewrite map_app. cbn [map]. rewrite <- (map_length v3_of D). apply nth_error_mid. }
  unfold cc_snoop_cycle in H. apply bind_ok in H as ([[[m1 i1] l1] items] & E & H).
  assert (SA : forall b, state_get i (Z.of_nat (length D)) b <> stInvalid -> al b) by (destruct SH as ((S0 & _) & _); exact S0).
  destruct (snoop_items_3 _ (length D) _ _ _ _ _ _ _ _ E G SN (proj1 CSe) SA) as (G1 & SN1 & W1 & P1 & P2 & Q1 & Q2 & R & FO).
  assert (ITS : forall it, In it (c_snoop (h_cc e)) -> al (it_line it) /\ (it_rq it = rqWriteBack -> state_get i (Z.of_nat (length D)) (it_line it) = stModified) /\
                 exists c0, In ((Z.of_nat (length D)), it_line it, it_rq it, c0) (i_cmds i)).
  { intros it I. destruct SN as [SNa _]. destruct (SNa it I) as [c0 IC]. pose proof (g1 _ _ G _ IC) as KO. cbn [kind_ok] in KO.
    split; [apply SA; destruct KO as [[_ K]|[_ K]]; rewrite K; discriminate|]. split; [|exists c0; exact IC].
    intros Q. destruct KO as [[K _]|[_ K]]; [rewrite Q in K; discriminate|exact K]. }
  destruct (snoop_items_data _ _ _ _ _ _ _ _ _ E (proj1 CSe) (fun it I => proj1 (ITS it I))) as [LS MF0].
  assert (RES : mem' = m1 /\ i' = i1 /\ c_l1d c' = l1 /\ c_rd c' = c_rd (h_cc e) /\ c_wr c' = c_wr (h_cc e) /\ c_post c' = c_post (h_cc e)).
  { destruct (c_snoop (h_cc e)).
    - apply bind_ok in H as ([i2 l2] & E2 & H). pose proof (co_snoop_i _ (hf_evict hk HF) _ _ _ _ E2) as EI. subst i2. inv H. repeat split.
    - inv H. repeat split. }
  destruct RES as (-> & -> & EL & R2 & W2 & P2'). clear H.
  assert (MFW : forall b, al b -> 0 <= b -> (forall it, In it (c_snoop (h_cc e)) -> it_rq it = rqWriteBack -> it_line it = b -> False) ->
            mem_line m1 b = mem_line mem b).
  { intros b AB B0 N. apply MF0; auto. }
  intros n x HX. destruct (Nat.eq_dec n (length D)) as [->|N].
  - rewrite nth_error_mid in HX. inv HX. cbn [set_hcc h_cc].
    eapply (DIc_snoop mem m1 (state_get i (Z.of_nat (length D))) (state_get i1 (Z.of_nat (length D))) (h_cc e) c' (eu_addrs e)); try assumption.
    + apply (DD (length D) e (nth_error_mid D e T)).
    + intros b SB. destruct (P1 b) as [X|(X & _)]; [rewrite <- X; exact SB|rewrite X in SB; discriminate].
    + intros b AB B0 REL. apply MFW; auto. intros it I Q EQ. destruct (ITS it I) as (_ & SM & c0 & IC). specialize (SM Q). rewrite EQ in SM, IC.
      destruct REL as [SB|[CP _]]; [rewrite SB in SM; discriminate|].
      eapply (g2 _ _ G _ _ _ _ (length D) _ IC eq_refl NV). unfold v_line, v_post, v3_cc. cbn [fst]. rewrite CP. reflexivity.
  - rewrite (nth_error_mid_other D e (set_hcc e c') T n N) in HX. destruct (C n x HX) as [_ SHn].
    assert (CSn : CS (h_cc x)) by (unfold CSs in CSS; rewrite Forall_forall in CSS; apply CSS; eapply nth_error_In; eauto).
    assert (NI : Z.of_nat n <> (Z.of_nat (length D))) by lia.
    eapply DIc_ext; [intros a; apply FO; exact NI|].
    eapply (DIc_snoop mem m1 (state_get i (Z.of_nat n)) (state_get i (Z.of_nat n)) (h_cc x) (h_cc x) (eu_addrs x)); try reflexivity; try assumption; auto.
    intros b AB B0 REL. apply MFW; auto. intros it I Q EQ. destruct (ITS it I) as (_ & SM & _). specialize (SM Q). rewrite EQ in SM.
    destruct K1 as (_ & CL1 & _ & SO). destruct REL as [SB|[CP PP]].
    + rewrite (CL1 (Z.of_nat (length D)) (Z.of_nat n) b SM NI) in SB. discriminate.
    + pose proof (DD n x HX) as (_ & _ & _ & D4). pose proof (cur_pend_none _ _ CP PP D4) as PN.
        specialize (SO n (sum_of x) (map_nth_error sum_of _ _ HX)). unfold sum_of, sum_cc in SO. rewrite CP, PN in SO. cbn [sum_ok post_ok] in SO.
        apply (SO (Z.of_nat (length D))); [intros Q'; apply NI; symmetry; exact Q'|exact SM].
Qed.

Definition F5 (mem : list Z) (i : msi7) (eus : list eu7) : Prop := F3 i eus /\ DI mem i eus.

Lemma snoops7_F5 : forall eus D w w' eus', F5 (w_mem w) (w_i w) (D ++ eus) ->
  snoops7 hk (Z.of_nat (length D)) w eus = Ok (w', eus') -> F5 (w_mem w') (w_i w') (D ++ eus').
Proof.
  induction eus as [|e tl IH]; intros D w w' eus' [F DD] H; cbn [snoops7] in H.
  - inv H. split; assumption.
  - apply bind_ok in H as ([[mem1 i1] c1] & E1 & H). apply bind_ok in H as ([w2 t'] & E2 & H). inv H. cbn [fst snd].
    pose proof (snoop_one_F hk HF _ _ _ _ _ _ _ _ F E1) as F1. pose proof (snoop_one_D _ _ _ _ _ _ _ _ F DD E1) as D1'.
    rewrite <- (snoc_len D (set_hcc e c1)) in E2.
    replace (D ++ set_hcc e c1 :: t') with ((D ++ [set_hcc e c1]) ++ t') by (rewrite <- app_assoc; reflexivity).
    eapply IH; [|exact E2]. rewrite w_i_set_wmem, w_i_set_wi, w_mem_set_wmem. rewrite <- app_assoc. split; assumption.
Qed.

Section OneCore5.
Variables (D T : list eu7).
Let id := Z.of_nat (length D).

Lemma DI_core_step : forall mem i i' e e', DI mem i (D ++ e :: T) -> DIc mem (state_get i' id) (h_cc e') ->
  (forall n b, n <> id -> state_get i' n b = state_get i n b) -> DI mem i' (D ++ e' :: T).
Proof.
  intros mem i i' e e' DD DC OT n x HX. destruct (Nat.eq_dec n (length D)) as [->|N].
  - rewrite nth_error_mid in HX. inv HX. exact DC.
  - rewrite (nth_error_mid_other D e e' T n N) in HX. eapply DIc_ext; [|apply (DD n x HX)]. intros a. apply OT. unfold id. lia.
Qed.

Lemma DI_same_cc : forall mem i e e', h_cc e' = h_cc e -> DI mem i (D ++ e :: T) -> DI mem i (D ++ e' :: T).
Proof.
  intros mem i e e' E DD. eapply DI_core_step; [exact DD| |auto]. rewrite E. apply (DD (length D) e (nth_error_mid D e T)).
Qed.

Lemma own_ok_of : forall i e, B3 D T i e -> forall p, cur_post (h_cc e) = Some p -> own_ok i id p.
Proof.
  intros i e BB p CP. destruct (B3_parts D T _ _ BB) as (G & _ & _ & NV). eapply (g7 _ _ G _ _ _ NV).
  unfold v_post, v3_cc. cbn [fst]. exact CP.
Qed.

Lemma cc_write_B3 : forall mem i e addrs data i1 c1 done, B3 D T i e -> c_rd (h_cc e) = RStart ->
  (eu_addrs e = addrs \/ cur_post (h_cc e) = None) -> cc_write_cycle mem i id (h_cc e) addrs data = Ok (i1, c1, done) ->
  (forall ex, h_cc ex = c1 -> (eu_addrs ex = addrs \/ cur_post c1 = None) -> B3 D T i1 ex) /\
  c_rd c1 = RStart /\ (done = true -> c_wr c1 = WStart) /\ ShRes id i i1 (h_cc e) c1 addrs /\ Sh (state_get i id) (h_cc e) addrs.
Proof.
  intros mem i e addrs data i1 c1 done BB R AD E. pose proof BB as (K3e & K & S). destruct (B3_parts D T _ _ BB) as (G & K1 & SH & NV).
  pose proof (cc_write_cycle_K (map sum_of D) (map sum_of T)) as XK. rewrite map_length in XK.
  destruct (XK _ _ _ _ _ _ _ _ K R E) as (K2 & R2 & W2).
  destruct (cc_write_cycle_S _ _ _ _ _ _ _ _ _ E (proj1 K) S) as [SI2 S2].
  assert (SHa : Sh (state_get i id) (h_cc e) addrs) by (destruct AD as [<-|CP]; [exact SH|eapply Sh_addrs; eauto]).
  pose proof (cc_write_cycle_G (map v3_of D) (map v3_of T)) as XG. rewrite map_length in XG.
  assert (FI : FetchI i id (h_cc e)) by (eapply FetchI_of; eauto).
  pose proof (XG _ _ _ _ _ _ _ _ G K1 R FI E) as G2. unfold G3Res in G2.
  pose proof (cc_write_cycle_Sh id _ _ _ _ _ _ _ _ SHa S R E) as SR.
  split; [|auto]. intros ex EX AX. split; [|split; [unfold sum_of; rewrite EX; exact K2|rewrite EX; exact S2]].
  eapply K3_core_step; [exact K3e| |rewrite EX; exact SR|rewrite EX; exact AX].
  rewrite map_app. cbn [map]. unfold v3_of at 2. rewrite EX. exact G2.
Qed.

Lemma cc_read_B3 : forall mem i e addrs i1 c1 resp, B3 D T i e -> c_wr (h_cc e) = WStart ->
  (eu_addrs e = addrs \/ cur_post (h_cc e) = None) -> cc_read_cycle mem i id (h_cc e) addrs = Ok (i1, c1, resp) ->
  (forall ex, h_cc ex = c1 -> (eu_addrs ex = addrs \/ cur_post c1 = None) -> B3 D T i1 ex) /\
  c_wr c1 = WStart /\ (resp <> None -> c_rd c1 = RStart) /\ ShRes id i i1 (h_cc e) c1 addrs /\ Sh (state_get i id) (h_cc e) addrs /\
  FetchI i id (h_cc e).
Proof.
  intros mem i e addrs i1 c1 resp BB W AD E. pose proof BB as (K3e & K & S). destruct (B3_parts D T _ _ BB) as (G & K1 & SH & NV).
  pose proof (cc_read_cycle_K (map sum_of D) (map sum_of T)) as XK. rewrite map_length in XK.
  destruct (XK _ _ _ _ _ _ _ K W E) as (K2 & W2 & R2).
  destruct (cc_read_cycle_S _ _ _ _ _ _ _ _ E (proj1 K) S) as [SI2 S2].
  assert (SHa : Sh (state_get i id) (h_cc e) addrs) by (destruct AD as [<-|CP]; [exact SH|eapply Sh_addrs; eauto]).
  pose proof (cc_read_cycle_G (map v3_of D) (map v3_of T)) as XG. rewrite map_length in XG.
  assert (FI : FetchI i id (h_cc e)) by (eapply FetchI_of; eauto).
  pose proof (XG _ _ _ _ _ _ _ G K1 W FI E) as G2. unfold G3Res in G2.
  pose proof (cc_read_cycle_Sh id _ _ _ _ _ _ _ SHa S W E) as SR.
  split; [|auto 6]. intros ex EX AX. split; [|split; [unfold sum_of; rewrite EX; exact K2|rewrite EX; exact S2]].
  eapply K3_core_step; [exact K3e| |rewrite EX; exact SR|rewrite EX; exact AX].
  rewrite map_app. cbn [map]. unfold v3_of at 2. rewrite EX. exact G2.
Qed.

Definition BD (mem : list Z) (i : msi7) (e : eu7) : Prop := B3 D T i e /\ DI mem i (D ++ e :: T).

Lemma eu_write7_BD : forall w e addrs data w' e' o, BD (w_mem w) (w_i w) e -> c_rd (h_cc e) = RStart ->
  (eu_addrs e = addrs \/ cur_post (h_cc e) = None) ->
  eu_write7 id w e addrs data = Ok (w', e', o) -> BD (w_mem w') (w_i w') e' /\ eu_ok e'.
Proof.
  intros w e addrs data w' e' o [BB DD] R AD H. pose proof BB as (_ & _ & S).
  apply eu_write7_split in H as (i1 & c1 & done & E & -> & E1 & E2). rewrite w_i_set_wi, w_mem_set_wi.
  destruct (cc_write_B3 _ _ _ _ _ _ _ _ BB R AD E) as (STEP & R2 & W2 & SR & SHa).
  assert (OK : eu_ok e') by (unfold eu_ok; rewrite E1, E2; destruct done; [split; [exact R2|apply W2; reflexivity]|exact R2]).
  split; [|exact OK]. split.
  - apply STEP; [exact E1|]. unfold eu_addrs. rewrite E2. destruct done; [right|left; reflexivity]. unfold cur_post. rewrite R2, (W2 eq_refl). reflexivity.
  - eapply DI_core_step; [exact DD| |apply SR]. rewrite E1.
    eapply cc_write_cycle_D; [apply (DD (length D) e (nth_error_mid D e T))|exact SHa|apply own_ok_of; exact BB|exact S|exact R|exact E].
Qed.

Lemma eu_run7_BD : forall labels ord cycle w e w' e' o, BD (w_mem w) (w_i w) e -> c_rd (h_cc e) = RStart -> c_wr (h_cc e) = WStart ->
  eu_run7 hk labels ord cycle id w e = Ok (w', e', o) -> BD (w_mem w') (w_i w') e' /\ eu_ok e'.
Proof.
  intros labels ord cycle w e w' e' o [BB DD] R W H.
  assert (CP : cur_post (h_cc e) = None) by (unfold cur_post; rewrite R, W; reflexivity).
  apply eu_run7_split in H as [([F FM] & E1 & E2)|(w0 & addrs & data & [F FM] & H)].
  - rewrite F, FM. split; [split|].
    + eapply B3_same_cc; [exact E1|right; exact CP|exact BB].
    + eapply DI_same_cc; eauto.
    + unfold eu_ok. rewrite E1, E2. split; assumption.
  - eapply eu_write7_BD; [| | |exact H]; [rewrite F, FM; split|exact R|right; exact CP].
    + eapply B3_same_cc; [| |exact BB]; [reflexivity|right; exact CP].
    + eapply DI_same_cc; [|exact DD]. reflexivity.
Qed.

Lemma eu_read7_BD : forall labels ord cycle w e addrs w' e' o, BD (w_mem w) (w_i w) e -> c_wr (h_cc e) = WStart ->
  (eu_addrs e = addrs \/ cur_post (h_cc e) = None) ->
  eu_read7 hk labels ord cycle id w e addrs = Ok (w', e', o) -> BD (w_mem w') (w_i w') e' /\ eu_ok e'.
Proof.
  intros labels ord cycle w e addrs w' e' o [BB DD] W AD H. pose proof BB as (_ & _ & S).
  apply eu_read7_split in H as (i1 & c1 & resp & E & H).
  destruct (cc_read_B3 _ _ _ _ _ _ _ BB W AD E) as (STEP & W2 & R2 & SR & SHa & FI).
  assert (DSTEP : forall ex, h_cc ex = c1 -> DI (w_mem w) i1 (D ++ ex :: T)).
  { intros ex EX. eapply DI_core_step; [exact DD| |apply SR]. rewrite EX.
    eapply cc_read_cycle_D; [apply (DD (length D) e (nth_error_mid D e T))|exact SHa|exact FI|exact S|exact W|exact E]. }
  destruct resp as [bytes|].
  - assert (R1 : c_rd c1 = RStart) by (apply R2; discriminate).
    eapply eu_run7_BD; [| | |exact H]; cbn [h_cc]; [rewrite w_i_set_wi, w_mem_set_wi; split|exact R1|exact W2].
    + apply STEP; [reflexivity|right; unfold cur_post; rewrite R1, W2; reflexivity].
    + apply DSTEP. reflexivity.
  - destruct H as (-> & E1 & E2). rewrite w_i_set_wi, w_mem_set_wi. split; [split|].
    + apply STEP; [exact E1|left; unfold eu_addrs; rewrite E2; reflexivity].
    + apply DSTEP. exact E1.
    + unfold eu_ok. rewrite E1, E2. exact W2.
Qed.

Lemma eu_prepare7_BD : forall labels ord cycle w e w' e' o, BD (w_mem w) (w_i w) e -> eu_ok e ->
  c_rd (h_cc e) = RStart -> c_wr (h_cc e) = WStart ->
  eu_prepare7 hk labels ord cycle id w e = Ok (w', e', o) -> BD (w_mem w') (w_i w') e' /\ eu_ok e'.
Proof.
  intros labels ord cycle w e w' e' o [BB DD] O R W H.
  assert (CP : cur_post (h_cc e) = None) by (unfold cur_post; rewrite R, W; reflexivity).
  apply eu_prepare7_split in H as [([F FM] & E1 & E2)|(w0 & e0 & [F FM] & E0 & E0' & [H|[addrs H]])].
  - rewrite F, FM. split; [split|].
    + eapply B3_same_cc; [exact E1|right; exact CP|exact BB].
    + eapply DI_same_cc; eauto.
    + unfold eu_ok in *. rewrite E1, E2. exact O.
  - eapply eu_run7_BD; [| | |exact H]; cbn [set_hco h_cc]; [rewrite F, FM; split|rewrite E0; exact R|rewrite E0; exact W].
    + eapply B3_same_cc; [| |exact BB]; [cbn [set_hco h_cc]; exact E0|right; exact CP].
    + eapply DI_same_cc; [|exact DD]. cbn [set_hco h_cc]. exact E0.
  - eapply eu_read7_BD; [| | |exact H]; [rewrite F, FM; split|rewrite E0; exact W|right; rewrite E0; exact CP].
    + eapply B3_same_cc; [exact E0|right; exact CP|exact BB].
    + eapply DI_same_cc; eauto.
Qed.

Lemma eu_cycle7_BD : forall labels ord cycle w e w' e' o, BD (w_mem w) (w_i w) e -> EO e ->
  eu_cycle7 hk labels ord cycle id w e = Ok (w', e', o) -> BD (w_mem w') (w_i w') e'.
Proof.
  intros labels ord cycle w e w' e' o [BB DD] [O Q] H.
  assert (PRE : eu_pre7 e = false) by (unfold eu_pre7; rewrite Q; reflexivity).
  unfold eu_cycle7 in H. rewrite PRE in H. unfold eu_ok in O. destruct (h_co e) eqn:HC.
  - destruct O as [R W]. assert (CP : cur_post (h_cc e) = None) by (unfold cur_post; rewrite R, W; reflexivity).
    pose proof (hf_take hk HF id w) as [TK TM]. destruct (k_take hk id w) as [w1 [r|]]; cbn [fst] in TK, TM.
    + eapply eu_prepare7_BD; [| | | |exact H]; cbn [h_cc]; [rewrite TK, TM; split|unfold eu_ok; cbn; split; assumption|exact R|exact W].
      * eapply B3_same_cc; [| |exact BB]; [reflexivity|right; exact CP].
      * eapply DI_same_cc; [|exact DD]. reflexivity.
    + inv H. rewrite TK, TM. split; assumption.
  - destruct O as [R W]. eapply eu_prepare7_BD; [split; eassumption| |exact R|exact W|exact H]. unfold eu_ok. rewrite HC. split; assumption.
  - eapply eu_read7_BD; [split; eassumption|exact O| |exact H]. left. unfold eu_addrs. rewrite HC. reflexivity.
  - eapply eu_write7_BD; [split; eassumption|exact O| |exact H]. left. unfold eu_addrs. rewrite HC. reflexivity.
Qed.

End OneCore5.

Lemma eu_cycle7_F5 : forall labels ord cycle D T w e w' e' o, F5 (w_mem w) (w_i w) (D ++ e :: T) ->
  eu_cycle7 hk labels ord cycle (Z.of_nat (length D)) w e = Ok (w', e', o) -> F5 (w_mem w') (w_i w') (D ++ e' :: T).
Proof.
  intros labels ord cycle D T w e w' e' o [F DD] H. pose proof (eu_cycle7_F hk HF _ _ _ _ _ _ _ _ _ _ F H) as F1.
  split; [exact F1|]. apply F3_split in F as (BB & O & _).
  exact (proj2 (eu_cycle7_BD D T _ _ _ _ _ _ _ _ (conj BB DD) O H)).
Qed.

Lemma F5_reseq : forall mem i D e T q, q = 0 -> F5 mem i (D ++ e :: T) -> F5 mem i (D ++ mk_eu7 (h_co e) (h_memory e) (h_runner e) q (h_cc e) :: T).
Proof. intros mem i D e T q Q [F DD]. split; [apply F3_reseq; assumption|]. eapply DI_same_cc; [|exact DD]. reflexivity. Qed.

Lemma eus_main7_F5 : forall labels ord cycle eus D w acc w' eus' o,
  F5 (w_mem w) (w_i w) (D ++ eus) -> y_flush acc = false -> y_seq acc = 0 ->
  eus_main7 hk labels ord cycle (Z.of_nat (length D)) w eus acc = Ok (w', eus', o) -> y_flush o = false ->
  F5 (w_mem w') (w_i w') (D ++ eus').
Proof.
  intros labels ord cycle. induction eus as [|e tl IH]; intros D w acc w' eus' o F FL Q H FO; cbn [eus_main7] in H.
  - inv H. exact F.
  - apply bind_ok in H as ([[w1 e1] o1] & E1 & H).
    pose proof (F5_reseq _ _ _ _ _ _ Q F) as F0.
    pose proof (eu_cycle7_F5 _ _ _ _ _ _ _ _ _ _ F0 E1) as F1.
    destruct (y_err o1).
    + inv H. exact F1.
    + apply bind_ok in H as ([[w2 t'] acc2] & E2 & H). inv H.
      assert (FL1 : y_flush o1 = false).
      { destruct (y_flush o1) eqn:FL1; [|reflexivity]. exfalso.
        apply (eus_main7_flush_mono hk) in E2; [congruence|]. cbn [y_flush]. apply orb_true_r. }
      rewrite <- (snoc_len D e1) in E2. replace (D ++ e1 :: t') with ((D ++ [e1]) ++ t') by (rewrite <- app_assoc; reflexivity).
      eapply IH; [| | |exact E2|exact FO].
      * rewrite <- app_assoc. exact F1.
      * cbn [y_flush]. rewrite FL, FL1. reflexivity.
      * cbn [y_seq]. rewrite FL1. cbn [andb]. exact Q.
Qed.

Lemma eus_drain7_F5 : forall labels ord cycle eus D w w' eus' o,
  F5 (w_mem w) (w_i w) (D ++ eus) -> eus_drain7 hk labels ord cycle (Z.of_nat (length D)) w eus = Ok (w', eus', o) ->
  F5 (w_mem w') (w_i w') (D ++ eus').
Proof.
  intros labels ord cycle. induction eus as [|e tl IH]; intros D w w' eus' o F H; cbn [eus_drain7] in H.
  - inv H. exact F.
  - destruct (eu_empty7 e).
    + apply bind_ok in H as ([[w2 t'] er] & E2 & H). inv H. rewrite <- (snoc_len D e) in E2.
      replace (D ++ e :: t') with ((D ++ [e]) ++ t') by (rewrite <- app_assoc; reflexivity).
      eapply IH; [|exact E2]. rewrite <- app_assoc. exact F.
    + apply bind_ok in H as ([[w1 e1] o1] & E1 & H). pose proof (eu_cycle7_F5 _ _ _ _ _ _ _ _ _ _ F E1) as F1.
      destruct (y_err o1); [inv H; exact F1|].
      apply bind_ok in H as ([[w2 t'] er] & E2 & H). inv H. rewrite <- (snoc_len D e1) in E2.
      replace (D ++ e1 :: t') with ((D ++ [e1]) ++ t') by (rewrite <- app_assoc; reflexivity).
      eapply IH; [|exact E2]. rewrite <- app_assoc. exact F1.
Qed.

Lemma eus_final7_F5 : forall labels ord cycle eus D w w' eus' o,
  F5 (w_mem w) (w_i w) (D ++ eus) -> eus_final7 hk labels ord cycle (Z.of_nat (length D)) w eus = Ok (w', eus', o) ->
  F5 (w_mem w') (w_i w') (D ++ eus').
Proof.
  intros labels ord cycle. induction eus as [|e tl IH]; intros D w w' eus' o F H; cbn [eus_final7] in H.
  - inv H. exact F.
  - destruct (_ && _).
    + apply bind_ok in H as ([[w2 t'] er] & E2 & H). inv H. rewrite <- (snoc_len D e) in E2.
      replace (D ++ e :: t') with ((D ++ [e]) ++ t') by (rewrite <- app_assoc; reflexivity).
      eapply IH; [|exact E2]. rewrite <- app_assoc. exact F.
    + apply bind_ok in H as ([[w1 e1] o1] & E1 & H). pose proof (eu_cycle7_F5 _ _ _ _ _ _ _ _ _ _ F E1) as F1.
      apply bind_ok in H as ([[w2 t'] er] & E2 & H). inv H. rewrite <- (snoc_len D e1) in E2.
      replace (D ++ e1 :: t') with ((D ++ [e1]) ++ t') by (rewrite <- app_assoc; reflexivity).
      eapply IH; [|exact E2]. rewrite <- app_assoc. exact F1.
Qed.

Definition F5St (s : st7) : Prop := F5 (st_mem s) (st_msi s) (v_eus s).

Lemma ret_check7_F5 : forall s s', ret_check7 s = UCont s' -> F5St s -> F5St s'.
Proof. intros s s' H S. unfold ret_check7 in H. destruct (_ && _); inv H; exact S. Qed.

Theorem step7_F5 : forall app labels ord s s', step_noflush7 hk app labels ord s ->
  step7 hk app labels ord s = UCont s' -> F5St s -> F5St s'.
Proof.
  intros prog labels ord s s' NF H F. unfold step7 in H. unfold step_noflush7 in NF. unfold F5St, st_msi, st_mem in *.
  destruct (v_mode s) eqn:M; try contradiction.
  - apply res_of7_cont in H as (w1 & E1 & H). pose proof (hf_front hk HF _ _ _ _ _ E1) as [FR FM].
    apply res_of7_cont in H as ([w2 eus2] & E2 & H).
    apply res_of7_cont in H as ([[w3 eus3] o] & E3 & H).
    pose proof (NF _ _ _ E1 E2 E3) as FO. cbn [snd fst] in FO.
    apply (snoops7_F5 (v_eus s) []) in E2; [|cbn [app]; rewrite FR, FM; exact F]. cbn [app] in E2. cbn [fst snd] in E3.
    pose proof (eus_main7_F5 labels ord (v_cycle s + 1) eus2 [] w2 yo_none w3 eus3 o E2 eq_refl eq_refl E3 FO) as F3'.
    cbn [app] in F3'. unfold back7 in H. destruct (y_err o); [discriminate|].
    apply res_of7_cont in H as ([x wus1] & E & H). apply wus_cycle7_mem in E.
    assert (F4 : F5 (w_mem (set_wx w3 x)) (w_i (set_wx w3 x)) eus3) by (rewrite w_mem_set_wx, w_i_set_wx, E; exact F3').
    destruct (y_ret o).
    + eapply ret_check7_F5; [exact H|]. exact F4.
    + rewrite FO in H. destruct (is_empty7 x eus3 wus1); inv H; exact F4.
  - apply res_of7_cont in H as ([w2 eus2] & E2 & H).
    apply (snoops7_F5 (v_eus s) []) in E2; [|exact F]. cbn [app] in E2.
    apply res_of7_cont in H as ([[w3 eus3] er] & E3 & H).
    pose proof (eus_drain7_F5 _ _ _ _ [] _ _ _ _ E2 E3) as F3'. cbn [app] in F3'.
    destruct er; [discriminate|]. apply res_of7_cont in H as ([x2 wus1] & E4 & H). apply wus_cycle7_mem in E4.
    assert (F4 : F5 (w_mem (set_wx w3 x2)) (w_i (set_wx w3 x2)) eus3) by (rewrite w_mem_set_wx, w_i_set_wx, E4; exact F3').
    eapply ret_check7_F5; [exact H|]. exact F4.
  - apply res_of7_cont in H as ([w2 eus2] & E2 & H).
    apply (snoops7_F5 (v_eus s) []) in E2; [|exact F]. cbn [app] in E2.
    apply res_of7_cont in H as ([[w3 eus3] sk] & E3 & H).
    pose proof (eus_final7_F5 _ _ _ _ [] _ _ _ _ E2 E3) as F3'. cbn [app] in F3'.
    destruct (_ && _); inv H. exact F3'.
Qed.

Theorem reach7nf_F5 : forall app labels ord s0 s, reach7nf hk app labels ord s0 s -> F5St s0 -> F5St s.
Proof. intros app labels ord s0 s R S0. induction R; [exact S0|]. eapply step7_F5; eauto. Qed.

End StepD.

(* ------------------------------------------------------------------ *)
(* E. the initial state; clause 2; the five clauses                     *)
(* ------------------------------------------------------------------ *)

Lemma init7_F5 : forall par ord app st s, init7 par ord app st = Ok s -> F5St s.
Proof.
  intros par ord app st s H. split; [eapply init7_F3; eauto|].
  unfold init7 in H. destruct (init3 par ord app st); try discriminate.
  destruct (new_cache l1LineSize l1Size) as [l1d| |] eqn:EC; try discriminate. inv H. unfold st_msi, st_mem. cbn [v_eus v_w w_i].
  intros n e HN. apply nth_error_In in HN. apply repeat_spec in HN. subst e. cbn [h_cc].
  split; [intros a SA; rewrite state_get_new in SA; discriminate|]. split; [intros p CP; discriminate|]. split; [exact I|]. intros _ p CP. discriminate.
Qed.

Lemma F5_clause2 : forall s, F5St s -> clause2_70 (st_mem s) (st_msi s) (v_eus s).
Proof.
  intros s [F DD] n e a HN AL SA. pose proof (F3_clause3 s F n e a HN AL) as [C3 _]. unfold core in HN.
  destruct (DD n e HN) as (D & _). destruct (D a SA) as (_ & _ & CL).
  assert (HO : l1_holds (c_l1d (h_cc e)) a = true) by (apply C3; rewrite SA; discriminate).
  unfold l1_holds in HO. destruct (l1_line (c_l1d (h_cc e)) a) as [l|] eqn:EL; [|discriminate]. exists l. split; [reflexivity|]. apply CL. exact EL.
Qed.

Lemma F5_inv : forall s, F5St s -> C06Inv70_st s.
Proof.
  intros s F. pose proof F as [F3' _]. pose proof F3' as (_ & K1 & CS' & _).
  destruct (StructSt_clauses s (conj (proj1 K1) CS')) as (C4 & C5 & _).
  split; [exact (proj1 (proj2 K1))|]. split; [apply F5_clause2; exact F|]. split; [apply F3_clause3; exact F3'|]. split; assumption.
Qed.

Theorem mvp70_inv_reachable : forall par ord app labels st s0 s, init7 par ord app st = Ok s0 ->
  reach7nf hooks70 app labels ord s0 s -> C06Inv70_st s.
Proof.
  intros par ord app labels st s0 s I R. apply F5_inv. eapply reach7nf_F5; [exact hooks70_frame|exact R|]. eapply init7_F5; eauto.
Qed.

Theorem mvp70_clause2 : forall par ord app labels st s0 s, init7 par ord app st = Ok s0 ->
  reach7nf hooks70 app labels ord s0 s -> clause2_70 (st_mem s) (st_msi s) (v_eus s).
Proof. intros par ord app labels st s0 s I R. exact (proj1 (proj2 (mvp70_inv_reachable _ _ _ _ _ _ _ I R))). Qed.

Print Assumptions mvp70_inv_reachable.
