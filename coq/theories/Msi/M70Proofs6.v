(* C06 about the faithful model of MVP-7.0, part 6: the boolean judge of the five clauses is SOUND,
       c06inv70_b mem i eus = true -> C06Inv70 mem i eus      (c06inv70_b_sound),
   for every memory, directory and list of execute units (no reachability hypothesis): the judge quantifies over
   the finitely many lines and core ids the state mentions, every other line is Invalid everywhere, in no L1 and
   has zero counters.
   FINDING (minor, about the judge, not about the model): the converse is FALSE - c06inv70_b checks every entry
   of msi.pendings, clause 5 only speaks of the entry getSem finds (the first one with that key); a directory
   with a duplicate key satisfies C06Inv70 and fails the judge (c06inv70_b_complete_refuted).  Such a directory is
   not reachable (sem_set replaces in place). *)
From Coq Require Import ZArith List Bool Lia.
From Maj Require Import Base.Outcome Base.GoInt Base.GoTypes Isa.Spec Isa.Seq.
From Maj Require Import Gen.Latency Gen.RiscTables Gen.Opcodes Comp.Cache Comp.Rat Comp.RatProofs Mvp.Mvp12 Mvp.Mvp3 Mvp.Mvp5 Mvp.Mvp60 Mvp.Mvp63 Mvp.Mvp63Proofs Mvp.Mvp70 Mvp.Mvp70Proofs.
From Maj Require Import Msi.M70Inv Msi.M70Frame Msi.M70Proofs Msi.M70Proofs2 Msi.M70Proofs3 Msi.M70Proofs4.
Import ListNotations.
Open Scope Z_scope.

Lemma list_eqb_eq : forall a b, list_eqb a b = true -> a = b.
Proof.
  induction a as [|x a IH]; intros [|y b] H; cbn [list_eqb] in H; try discriminate; [reflexivity|].
  apply andb_true_iff in H as [H1 H2]. apply Z.eqb_eq in H1. subst. f_equal. apply IH. exact H2.
Qed.

Lemma aget_in {A} : forall k (m : list (Z * A)) s, aget k m = Some s -> In (k, s) m.
Proof.
  induction m as [|[k' a] t IH]; intros s H; cbn [aget] in H; [discriminate|]. destruct (Z.eqb_spec k k').
  - inv H. left. reflexivity.
  - right. apply IH. exact H.
Qed.

Section Sound.
Variables (mem : list Z) (i : msi7) (eus : list eu7).

Lemma on_cores_spec : forall f, on_cores eus f = true -> forall n e, nth_error eus n = Some e -> f n e = true.
Proof.
  intros f H n e HN. unfold on_cores in H. rewrite forallb_forall in H.
  assert (I : In n (ids eus)). { unfold ids. apply in_seq. split; [lia|]. cbn. apply nth_error_Some. congruence. }
  specialize (H n I). rewrite HN in H. exact H.
Qed.

Lemma state_univ : forall id a, state_get i id a <> stInvalid -> In a (universe i eus) /\ In id (id_universe i eus).
Proof.
  intros id a N. unfold state_get in N. destruct (find _ _) as [e|] eqn:F; [|contradiction]. apply find_some in F as [I Q].
  apply andb_true_iff in Q as [Q1 Q2]. apply Z.eqb_eq in Q1, Q2. split.
  - unfold universe. apply nodup_In. apply in_or_app. left. apply in_map_iff. exists e. split; [exact Q2|exact I].
  - unfold id_universe. apply nodup_In. apply in_or_app. right. apply in_or_app. left. apply in_map_iff. exists e. split; [exact Q1|exact I].
Qed.

Lemma c1_sound : c1_70b i eus = true -> clause1_70 i.
Proof.
  intros H id id' a M NE. destruct (Z.eq_dec (state_get i id' a) stInvalid) as [E|N]; [exact E|exfalso].
  destruct (state_univ id a) as [UA UI]; [rewrite M; discriminate|]. destruct (state_univ id' a N) as [_ UI'].
  unfold c1_70b in H. rewrite forallb_forall in H. specialize (H a UA). rewrite forallb_forall in H. specialize (H id UI).
  rewrite forallb_forall in H. specialize (H id' UI'). rewrite M in H. cbn in H.
  apply orb_true_iff in H as [H|H]; apply Z.eqb_eq in H; contradiction.
Qed.

Lemma c5_sound : c5_70b i = true -> clause5_70 i.
Proof.
  intros H a. unfold sem_get. destruct (aget a (i_sems i)) as [s|] eqn:G; [|cbn; lia].
  apply aget_in in G. unfold c5_70b in H. rewrite forallb_forall in H. specialize (H _ G). cbn [snd] in H.
  unfold sem_ok_b in H. apply andb_true_iff in H as [H H4]. apply andb_true_iff in H as [H H3]. apply andb_true_iff in H as [H1 H2].
  apply Z.leb_le in H1, H2, H3. repeat split; try assumption. intros E. apply orb_true_iff in H4 as [H4|H4]; [|apply Z.eqb_eq in H4; exact H4].
  apply negb_true_iff in H4. apply Z.eqb_neq in H4. contradiction.
Qed.

Lemma line_wf_b_sound : forall l, line_wf_b l = true -> line_wf l.
Proof.
  intros l H. unfold line_wf_b in H. apply andb_true_iff in H as [H H4]. apply andb_true_iff in H as [H H3]. apply andb_true_iff in H as [H1 H2].
  apply Z.leb_le in H1. apply Z.eqb_eq in H2, H3, H4. repeat split; assumption.
Qed.

Lemma l1_wf_b_sound : forall c, l1_wf_b c = true -> l1_wf c.
Proof.
  intros c H. unfold l1_wf_b in H. apply andb_true_iff in H as [H H3]. apply andb_true_iff in H as [H1 H2].
  apply Z.eqb_eq in H1. rewrite forallb_forall in H2, H3.
  assert (W : forall l, In l (lines c) -> line_wf l) by (intros l I; apply line_wf_b_sound; apply H3; exact I).
  split; [exact H1|]. split; [|exact W]. intros x.
  destruct (find (fun l => covers_b l x) (lines c)) as [l0|] eqn:F.
  - apply find_some in F as [I0 C0]. specialize (H2 l0 I0). apply Z.leb_le in H2.
    eapply Z.le_trans; [|exact H2]. apply cnt_le. intros l I C.
    destruct (aligned_in_line l x (W l I) C) as [E1 C1]. destruct (aligned_in_line l0 x (W l0 I0) C0) as [E2 _]. rewrite <- E2, E1. exact C1.
  - rewrite cnt_zero; [lia|]. intros l I. eapply find_none in F; eauto.
Qed.

Lemma c4_sound : c4_70b eus = true -> clause4_70 eus.
Proof. intros H n e HN. apply l1_wf_b_sound. apply (on_cores_spec _ H n e HN). Qed.

Lemma c2_sound : c2_70b mem i eus = true -> clause2_70 mem i eus.
Proof.
  intros H n e a HN AL S. pose proof (on_cores_spec _ H n e HN) as X. cbn beta in X. rewrite forallb_forall in X.
  destruct (state_univ (Z.of_nat n) a) as [UA _]; [rewrite S; discriminate|]. specialize (X a UA). rewrite S in X. cbn in X.
  destruct (l1_line (c_l1d (h_cc e)) a) as [l|]; [|discriminate]. exists l. split; [reflexivity|]. apply list_eqb_eq. exact X.
Qed.

Lemma holds_univ : forall n e a, clause4_70 eus -> nth_error eus n = Some e -> a mod l1LineSize = 0 ->
  l1_holds (c_l1d (h_cc e)) a = true -> In a (universe i eus).
Proof.
  intros n e a C4 HN AL HO. apply holds_iff in HO as (l & I & C). destruct (C4 n e HN) as (_ & _ & W). specialize (W l I).
  destruct (line_wf_covers _ _ W C) as [R _]. destruct W as (_ & M & _). unfold l1LineSize in *.
  assert (E : a = lo l) by lia. subst a.
  unfold universe. apply nodup_In. apply in_or_app. right. apply in_or_app. right. apply in_or_app. right.
  apply in_flat_map. exists e. split; [eapply nth_error_In; eauto|]. apply in_or_app. left. apply in_map. exact I.
Qed.

Lemma c3_sound : clause4_70 eus -> c3_70b i eus = true -> clause3_70 i eus.
Proof.
  intros C4 H n e a HN AL. pose proof (on_cores_spec _ H n e HN) as X. cbn beta in X. rewrite forallb_forall in X. split.
  - intros N. destruct (state_univ (Z.of_nat n) a N) as [UA _]. specialize (X a UA). apply andb_true_iff in X as [X _].
    apply orb_true_iff in X as [X|X]; [apply Z.eqb_eq in X; contradiction|exact X].
  - intros T HO. pose proof (holds_univ n e a C4 HN AL HO) as UA. specialize (X a UA). apply andb_true_iff in X as [_ X].
    rewrite T, HO in X. cbn in X. apply negb_true_iff in X. apply Z.eqb_neq in X. exact X.
Qed.

Theorem c06inv70_b_sound : c06inv70_b mem i eus = true -> C06Inv70 mem i eus.
Proof.
  intros H. unfold c06inv70_b in H. apply andb_true_iff in H as [H H5]. apply andb_true_iff in H as [H H4].
  apply andb_true_iff in H as [H H3]. apply andb_true_iff in H as [H1 H2].
  pose proof (c4_sound H4) as C4.
  split; [apply c1_sound; exact H1|]. split; [apply c2_sound; exact H2|]. split; [apply c3_sound; assumption|].
  split; [exact C4|apply c5_sound; exact H5].
Qed.

End Sound.

(* the converse fails on a directory with a duplicate key in msi.pendings *)
Theorem c06inv70_b_complete_refuted : exists mem i eus, C06Inv70 mem i eus /\ c06inv70_b mem i eus = false.
Proof.
  exists [], (mk_msi7 [(0, (0, 0)); (0, (-1, 0))] [] [] 1 false), []. split; [|vm_compute; reflexivity].
  split; [intros id id' a M; cbv in M; discriminate|]. split; [intros [|n] e a HN; discriminate|].
  split; [intros [|n] e a HN; discriminate|]. split; [intros [|n] e HN; discriminate|].
  intros a. unfold sem_get. cbn [i_sems aget]. destruct (a =? 0); cbn; lia.
Qed.

(* an executable checker for long runs with evictions: the FULL judge c06full70_b is evaluated in every state where
   some L1 holds more than 16 lines (between the push of a fill and the eviction of the displaced line) or some
   snoop list is not empty, and in every `every`-th state; result: states visited, such "hot" states, states
   judged, whether the run ended.  (The conditionals are nested so that vm_compute does not evaluate the judge in
   the other states.) *)
Definition hot70 (s : st7) : bool :=
  existsb (fun e => (16 <? zlen (lines (c_l1d (h_cc e)))) || match c_snoop (h_cc e) with [] => false | _ => true end) (v_eus s).

Fixpoint run7_ev (every : Z) (fuel : nat) (app : list instr) (labels : Z -> option Z) (ord : Z -> Z -> list Z -> list Z) (s : st7) (n k j : Z)
  : option (Z * Z * Z * bool) :=
  let hot := hot70 s in
  let judged := hot || (n mod every =? 0) in
  if (if judged then negb (c06full70_b (st_mem s) (st_msi s) (v_eus s)) else false) then None else
  let k' := if hot then k + 1 else k in
  let j' := if judged then j + 1 else j in
  match fuel with
  | O => Some (n + 1, k', j', false)
  | S f =>
      if negb (step_noflush7_b hooks70 app labels ord s) then Some (n + 1, k', j', false)
      else match step7 hooks70 app labels ord s with
           | UDone _ _ => Some (n + 1, k', j', true)
           | UCont s' => run7_ev every f app labels ord s' (n + 1) k' j'
           end
  end.

(* the boolean form of "this tick is flush-free" is sound, so the states an executable flush-free run goes through
   are states of reach7nf: the theorems about reach7nf apply to them *)
Lemma step_noflush7_b_sound : forall hk app labels ord s, step_noflush7_b hk app labels ord s = true -> step_noflush7 hk app labels ord s.
Proof.
  intros hk app labels ord s H. unfold step_noflush7_b in H. unfold step_noflush7. destruct (v_mode s); try exact I; try discriminate.
  intros w1 r z E1 E2 E3. rewrite E1, E2, E3 in H. apply negb_true_iff in H. exact H.
Qed.

Fixpoint run7_nf (n : nat) (hk : hooks7) (app : list instr) (labels : Z -> option Z) (ord : Z -> Z -> list Z -> list Z) (s : st7) : option st7 :=
  match n with
  | O => Some s
  | S m => if step_noflush7_b hk app labels ord s
           then match step7 hk app labels ord s with UCont s' => run7_nf m hk app labels ord s' | UDone _ _ => None end
           else None
  end.

Lemma run7_nf_reach : forall n hk app labels ord s0 s s', reach7nf hk app labels ord s0 s ->
  run7_nf n hk app labels ord s = Some s' -> reach7nf hk app labels ord s0 s'.
Proof.
  induction n as [|m IH]; intros hk app labels ord s0 s s' R H; cbn [run7_nf] in H.
  - inv H. exact R.
  - destruct (step_noflush7_b hk app labels ord s) eqn:NF; [|discriminate].
    destruct (step7 hk app labels ord s) as [|s1] eqn:ST; [discriminate|].
    eapply IH; [|exact H]. eapply r7_step; [exact R|apply step_noflush7_b_sound; exact NF|exact ST].
Qed.

Print Assumptions c06inv70_b_sound.
Print Assumptions c06inv70_b_complete_refuted.
