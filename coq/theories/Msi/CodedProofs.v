(* C06 - the code as it is (no guard on the lock transitions), flush excluded:
   the supporting conjunct J (an outstanding command is justified by a core
   that holds the line's semaphore and waits for it, or by its own target
   evicting the line for capacity) is inductive, and under Inv + J a lock
   transition never finds a command outstanding for (requester, line).  So
   Inv /\ J holds in every reachable state of step N false NoFlush. *)
From Coq Require Import List ZArith Lia Bool Arith.
From Maj Require Import Msi.Protocol Msi.Invariant Msi.InvProofs Msi.StepProofs.
Import ListNotations.
Open Scope Z_scope.

Section Coded.
Variable N : nat.
Notation Inv := (Inv N).
Notation J := (J N).
Notation just := (just N).
Notation step0 := (step N false NoFlush).

Lemma just_ph s s' j l c : (forall h, ph s' h = ph s h) -> just s j l c -> just s' j l c.
Proof. intros Hp [h [Hh X]]. exists h. split; auto. now rewrite Hp. Qed.

Lemma just_upd s s' i p' j l c : (forall h, ph s' h = upd (ph s) i p' h) ->
  just s j l c -> ~ justifies (ph s i) i j l c -> just s' j l c.
Proof.
  intros Hp [h [Hh X]] Hn. destruct (Nat.eq_dec h i) as [->|Hne]; [contradiction|].
  exists h. split; auto. now rewrite Hp, upd_other.
Qed.

Lemma not_just_idle i j l c : ~ justifies Idle i j l c.
Proof. intros [[_ [X|[X|[X _]]]]|[_ [l' [X|X]]]]; discriminate. Qed.

Lemma cmd_is_kind s j l : Inv s -> (j < N)%nat -> ms s j l = M -> cm s j l <> NoCmd -> cm s j l = Wb.
Proof.
  intros I0 Hj Hm Hc. pose proof (cmd_kind _ _ _ (I0 l) j Hj) as K. unfold cmd_matches in K.
  destruct (cm s j l); congruence.
Qed.
Lemma cmd_is_kind_S s j l : Inv s -> (j < N)%nat -> ms s j l = S -> cm s j l <> NoCmd -> cm s j l = Ev.
Proof.
  intros I0 Hj Hm Hc. pose proof (cmd_kind _ _ _ (I0 l) j Hj) as K. unfold cmd_matches in K.
  destruct (cm s j l); congruence.
Qed.

(* a lock transition of the unguarded machine never meets an outstanding command *)
Lemma coded_lock_ok s lab s' i l : Inv s -> J s -> step0 s lab s' -> lock_target lab = Some (i, l) ->
  cm s i l = NoCmd.
Proof.
  intros I0 J0 Hs Hl.
  assert (Hgen : forall (Hi : (i < N)%nat) (Hp : ph s i = Idle) (Hw : wc s l = 0)
                        (HM : ms s i l = M -> rc s l = 0), cm s i l = NoCmd).
  { intros Hi Hp Hw HM. destruct (cm s i l) eqn:Ec; auto; exfalso.
    all: assert (Hne : cm s i l <> NoCmd) by congruence.
    all: destruct (J0 i l Hi Hne) as [h [Hh [[Hhi Hph]|[Heq [l' Hph]]]]].
    all: try (subst h; destruct Hph as [X|X]; congruence).
    all: pose proof (cmd_kind _ _ _ (I0 l) i Hi) as K; rewrite Ec in K; simpl in K.
    all: destruct Hph as [X|[X|[X Y]]];
      try (pose proof (no_writer N s l (I0 l) h Hw Hh) as Z; rewrite X in Z;
           unfold wr_on, on_line in Z; simpl in Z; rewrite Z.eqb_refl in Z; discriminate).
    all: rewrite Ec in Y; try discriminate.
    pose proof (no_reader N s l (I0 l) h (HM K) Hh) as Z; rewrite X in Z;
      unfold rd_on, on_line in Z; simpl in Z; rewrite Z.eqb_refl in Z; discriminate. }
  inversion Hs; subst; simpl in Hl; try discriminate; inversion Hl; subst; apply Hgen; auto; congruence.
Qed.

Lemma J_step s lab s' : Inv s -> J s -> step0 s lab s' -> J s'.
Proof.
  intros I0 J0 Hs. inversion Hs; subst; clear Hs; intros tj k Htj Hc; simpl in *.
  - (* rlock_I *)
    unfold req_read in *. destruct (Z.eqb_spec k l) as [->|Hk]; simpl in *.
    + destruct (Nat.eqb_spec tj i) as [->|Hne]; simpl in *.
      * apply (just_upd s _ i (RdWait l)); auto. rewrite H0. apply not_just_idle.
      * destruct (ms s tj l) eqn:Em.
        -- apply (just_upd s _ i (RdWait l)); auto. rewrite H0. apply not_just_idle.
        -- apply (just_upd s _ i (RdWait l)); auto. rewrite H0. apply not_just_idle.
        -- exists i. split; auto. left. split; auto. simpl. rewrite upd_same. auto.
    + apply (just_upd s _ i (RdWait l)); auto. rewrite H0. apply not_just_idle.
  - (* fetch_rd *)
    apply (just_upd s _ i (RdFetched l (mem s l))); auto. rewrite H0.
    intros [[Hne [X|[X|[X Y]]]]|[_ [l' [X|X]]]]; try discriminate. inversion X; subst.
    pose proof (cmd_kind _ _ _ (I0 k) tj Htj) as K. rewrite Y in K. simpl in K.
    exact (H1 tj Htj ltac:(congruence) K).
  - (* fill_rd *)
    unfold req_victim in *. destruct vic as [a|].
    + destruct (ms s i a) eqn:Em.
      * apply (just_upd s _ i (RdFilled l (Some a))); auto. rewrite H0.
        intros [[_ [X|[X|[X _]]]]|[_ [l' [X|X]]]]; discriminate.
      * unfold upd2 in *. destruct (Nat.eqb_spec tj i) as [->|Hne]; simpl in *;
          [destruct (Z.eqb_spec k a) as [->|Hka]|].
        -- exists i. split; auto. right. split; auto. exists l. left. simpl. now rewrite upd_same.
        -- apply (just_upd s _ i (RdFilled l (Some a))); auto. rewrite H0.
           intros [[_ [X|[X|[X _]]]]|[_ [l' [X|X]]]]; discriminate.
        -- apply (just_upd s _ i (RdFilled l (Some a))); auto. rewrite H0.
           intros [[_ [X|[X|[X _]]]]|[_ [l' [X|X]]]]; discriminate.
      * unfold upd2 in *. destruct (Nat.eqb_spec tj i) as [->|Hne]; simpl in *;
          [destruct (Z.eqb_spec k a) as [->|Hka]|].
        -- exists i. split; auto. right. split; auto. exists l. left. simpl. now rewrite upd_same.
        -- apply (just_upd s _ i (RdFilled l (Some a))); auto. rewrite H0.
           intros [[_ [X|[X|[X _]]]]|[_ [l' [X|X]]]]; discriminate.
        -- apply (just_upd s _ i (RdFilled l (Some a))); auto. rewrite H0.
           intros [[_ [X|[X|[X _]]]]|[_ [l' [X|X]]]]; discriminate.
    + apply (just_upd s _ i (RdFilled l None)); auto. rewrite H0.
      intros [[_ [X|[X|[X _]]]]|[_ [l' [X|X]]]]; discriminate.
  - (* settle_rd *)
    apply (just_upd s _ i Idle); auto. rewrite H0.
    intros [[_ [X|[X|[X _]]]]|[Heq [l' [X|X]]]]; try discriminate. inversion X; subst.
    simpl in H1. congruence.
  - (* rlock_S *) apply (just_upd s _ i (ShRd l)); auto. rewrite H0. apply not_just_idle.
  - (* done_shrd *) apply (just_upd s _ i Idle); auto. rewrite H0.
    intros [[_ [X|[X|[X _]]]]|[_ [l' [X|X]]]]; discriminate.
  - (* rlock_M *) apply (just_upd s _ i (OwnRd l)); auto. rewrite H0. apply not_just_idle.
  - (* done_ownrd *) apply (just_upd s _ i Idle); auto. rewrite H0.
    intros [[_ [X|[X|[X _]]]]|[_ [l' [X|X]]]]; discriminate.
  - (* lock_I *)
    unfold req_write in *. destruct (Z.eqb_spec k l) as [->|Hk]; simpl in *.
    + destruct (Nat.eqb_spec tj i) as [->|Hne]; simpl in *.
      * apply (just_upd s _ i (WrWait l)); auto. rewrite H0. apply not_just_idle.
      * destruct (ms s tj l) eqn:Em.
        -- apply (just_upd s _ i (WrWait l)); auto. rewrite H0. apply not_just_idle.
        -- exists i. split; auto. left. split; auto. simpl. rewrite upd_same. auto.
        -- exists i. split; auto. left. split; auto. simpl. rewrite upd_same. auto.
    + apply (just_upd s _ i (WrWait l)); auto. rewrite H0. apply not_just_idle.
  - (* fetch_wr *)
    apply (just_upd s _ i (WrFetched l (mem s l))); auto. rewrite H0.
    intros [[Hne [X|[X|[X Y]]]]|[_ [l' [X|X]]]]; try discriminate. inversion X; subst.
    apply (cmd_nonI N s k (I0 k) tj Htj Hc). apply H1; auto.
  - (* fill_wr *)
    unfold req_victim in *. destruct vic as [a|].
    + destruct (ms s i a) eqn:Em.
      * apply (just_upd s _ i (WrFilled l (Some a))); auto. rewrite H0.
        intros [[_ [X|[X|[X _]]]]|[_ [l' [X|X]]]]; discriminate.
      * unfold upd2 in *. destruct (Nat.eqb_spec tj i) as [->|Hne]; simpl in *;
          [destruct (Z.eqb_spec k a) as [->|Hka]|].
        -- exists i. split; auto. right. split; auto. exists l. right. simpl. now rewrite upd_same.
        -- apply (just_upd s _ i (WrFilled l (Some a))); auto. rewrite H0.
           intros [[_ [X|[X|[X _]]]]|[_ [l' [X|X]]]]; discriminate.
        -- apply (just_upd s _ i (WrFilled l (Some a))); auto. rewrite H0.
           intros [[_ [X|[X|[X _]]]]|[_ [l' [X|X]]]]; discriminate.
      * unfold upd2 in *. destruct (Nat.eqb_spec tj i) as [->|Hne]; simpl in *;
          [destruct (Z.eqb_spec k a) as [->|Hka]|].
        -- exists i. split; auto. right. split; auto. exists l. right. simpl. now rewrite upd_same.
        -- apply (just_upd s _ i (WrFilled l (Some a))); auto. rewrite H0.
           intros [[_ [X|[X|[X _]]]]|[_ [l' [X|X]]]]; discriminate.
        -- apply (just_upd s _ i (WrFilled l (Some a))); auto. rewrite H0.
           intros [[_ [X|[X|[X _]]]]|[_ [l' [X|X]]]]; discriminate.
    + apply (just_upd s _ i (WrFilled l None)); auto. rewrite H0.
      intros [[_ [X|[X|[X _]]]]|[_ [l' [X|X]]]]; discriminate.
  - (* settle_wr *)
    apply (just_upd s _ i Idle); auto. rewrite H0.
    intros [[_ [X|[X|[X _]]]]|[Heq [l' [X|X]]]]; try discriminate. inversion X; subst.
    simpl in H1. congruence.
  - (* lock_S *)
    unfold req_write in *. destruct (Z.eqb_spec k l) as [->|Hk]; simpl in *.
    + destruct (Nat.eqb_spec tj i) as [->|Hne]; simpl in *.
      * apply (just_upd s _ i (UpgWait l)); auto. rewrite H0. apply not_just_idle.
      * destruct (ms s tj l) eqn:Em.
        -- apply (just_upd s _ i (UpgWait l)); auto. rewrite H0. apply not_just_idle.
        -- exists i. split; auto. left. split; auto. simpl. rewrite upd_same. auto.
        -- exists i. split; auto. left. split; auto. simpl. rewrite upd_same. auto.
    + apply (just_upd s _ i (UpgWait l)); auto. rewrite H0. apply not_just_idle.
  - (* settle_upg *)
    apply (just_upd s _ i Idle); auto. rewrite H0.
    intros [[Hne [X|[X|[X Y]]]]|[_ [l' [X|X]]]]; try discriminate. inversion X; subst.
    apply (cmd_nonI N s k (I0 k) tj Htj Hc). apply H1; auto.
  - (* lock_M *) apply (just_upd s _ i (OwnWr l)); auto. rewrite H0. apply not_just_idle.
  - (* done_ownwr *) apply (just_upd s _ i Idle); auto. rewrite H0.
    intros [[_ [X|[X|[X _]]]]|[_ [l' [X|X]]]]; discriminate.
  - (* cmd_evict_done *)
    unfold upd2 in *. destruct (Nat.eqb tj j && Z.eqb k l) eqn:E; [congruence|].
    apply (just_ph s); auto.
  - (* cmd_writeback_done *)
    unfold upd2 in *. destruct (Nat.eqb tj j && Z.eqb k l) eqn:E; [congruence|].
    apply (just_ph s); auto.
  - (* export *) apply (just_ph s); auto.
  - (* flush: not a transition of this machine *) discriminate.
Qed.

Lemma J_init m0 : J (init m0).
Proof. intros j l Hj Hc. simpl in Hc. congruence. Qed.

Theorem inv_step_coded s lab s' : Inv s -> J s -> step0 s lab s' -> Inv s' /\ J s'.
Proof.
  intros I0 J0 Hs. split.
  - apply (inv_step N false NoFlush s lab s' I0 Hs). intros i l Hl. exact (coded_lock_ok s lab s' i l I0 J0 Hs Hl).
  - exact (J_step s lab s' I0 J0 Hs).
Qed.

End Coded.

(* every reachable state of the code-as-it-is machine without flush *)
Theorem inv_reachable_coded N s : reach N false NoFlush s -> Inv N s /\ J N s.
Proof.
  induction 1 as [m0|s lab s' Hr [I0 J0] Hs].
  - split; [apply inv_init|apply J_init].
  - exact (inv_step_coded N s lab s' I0 J0 Hs).
Qed.
