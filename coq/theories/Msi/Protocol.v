(* C06 - abstract machine (kind A of DESIGN.md section 1) of the MSI protocol of
   proc/mvp7-0/msi.go + cc.go (identical in proc/mvp7-1; proc/mvp8-0 adds an
   L3 level: Msi/L3Protocol.v wraps this machine, see Props/C06_l3.v).

   The machine is a labelled, nondeterministic transition system, parametric in
   the number of cores N, over arbitrarily many lines (a line = its aligned
   base address, a Z).  The contents of a line copy are abstracted to one value
   (val); that is enough to state "a Shared copy equals the next level".
   Latencies inside the coroutines are abstracted to "eventually": every
   coroutine checkpoint of coRead / coWrite / coSnoop at which another core
   can observe a different protocol state is a separate transition, named
   after the code site:

     rlock_I / rlock_S / rlock_M       msi.rLock, by the state of the requester
     lock_I / lock_S / lock_M          msi.lock
     fetch_rd / fetch_wr               "all pendings done" + mmu.fetchCacheLine
     fill_rd / fill_wr                 cc.pushLineToL1 (+ msi.evictExtraCacheLine
                                       for the LRU victim when L1 is full)
     settle_rd / settle_wr / settle_upg, done_shrd / done_ownrd / done_ownwr
                                       the `post` closure run by coReadFromL1 /
                                       coWriteToL1 (state change + unlock)
     cmd_evict_done / cmd_writeback_done   the snoop closures + msiCommandInfo.done
     export                            cacheController.export
     flush                             cacheController.flush

   What is abstracted (an over-approximation: every behaviour of the code is a
   behaviour of the machine, given the invariant):
   - the list `pendings` of a request is not stored; "every pending command
     is done" is the guard others_not_M (read) / others_I (write), which is
     what it amounts to: the commands were sent to every core that was M
     (resp. not I), and none can become M (resp. non-I) while the semaphore is
     held;
   - commands are keyed by (core, line) only: the invariant has "the kind of a
     command matches the state of its target", so two kinds never coexist;
   - L1 capacity is not counted: fill may pick any other present line of the
     core as victim, or none.

   The parameter `guarded` adds to the six lock transitions the premise that
   no snoop command is outstanding for (requester, line).  The code has no such
   test (guarded = false is the code); Msi/CodedProofs.v shows that without
   flush the premise always holds.  `flush_mode` selects what flush does. *)
From Coq Require Import List ZArith Lia Bool Arith.
Import ListNotations.
Open Scope Z_scope.

Inductive mstate := I | S | M.
Inductive cmd := NoCmd | Ev | Wb.
Definition line := Z.
Definition val := Z.

Inductive phase :=
| Idle
| RdWait (l : line)                       (* rlock_I granted, waiting for the write-back commands *)
| RdFetched (l : line) (v : val)          (* line read from the next level, memory latency running *)
| RdFilled (l : line) (vic : option line) (* in L1; waiting for the victim's eviction, then L1 latency *)
| ShRd (l : line)                         (* rlock_S granted: reading from L1 under the read lock *)
| OwnRd (l : line)                        (* rlock_M granted: reading from L1 under the WRITE lock *)
| WrWait (l : line)
| WrFetched (l : line) (v : val)
| WrFilled (l : line) (vic : option line)
| UpgWait (l : line)                      (* lock_S granted, waiting for the evictions of the other sharers *)
| OwnWr (l : line).

Definition tx_line (p : phase) : option line :=
  match p with
  | Idle => None
  | RdWait l | RdFetched l _ | RdFilled l _ | ShRd l | OwnRd l
  | WrWait l | WrFetched l _ | WrFilled l _ | UpgWait l | OwnWr l => Some l
  end.

(* holds the read counter of the line's semaphore *)
Definition is_rd (p : phase) : bool :=
  match p with RdWait _ | RdFetched _ _ | RdFilled _ _ | ShRd _ => true | _ => false end.
(* holds the write counter *)
Definition is_wr (p : phase) : bool :=
  match p with OwnRd _ | WrWait _ | WrFetched _ _ | WrFilled _ _ | UpgWait _ | OwnWr _ => true | _ => false end.

Definition on_line (p : phase) (l : line) : bool :=
  match tx_line p with Some k => Z.eqb k l | None => false end.
Definition rd_on (p : phase) (l : line) : bool := is_rd p && on_line p l.
Definition wr_on (p : phase) (l : line) : bool := is_wr p && on_line p l.

Record st := {
  ms : nat -> line -> mstate;       (* msi.states *)
  ph : nat -> phase;                (* where the core's read/write coroutine stands *)
  cm : nat -> line -> cmd;          (* msi.commands, by target *)
  l1 : nat -> line -> option val;   (* the core's L1 *)
  mem : line -> val;                (* next level *)
  rc : line -> Z;                   (* Sem.read of the line *)
  wc : line -> Z                    (* Sem.write *)
}.

Definition upd {A} (f : nat -> A) (i : nat) (x : A) : nat -> A :=
  fun j => if Nat.eqb j i then x else f j.
Definition updl {A} (f : line -> A) (l : line) (x : A) : line -> A :=
  fun k => if Z.eqb k l then x else f k.
Definition upd2 {A} (f : nat -> line -> A) (i : nat) (l : line) (x : A) : nat -> line -> A :=
  fun j k => if Nat.eqb j i && Z.eqb k l then x else f j k.

(* msi.readRequest: write-back commands to the other cores that are Modified *)
Definition req_read (s : st) (i : nat) (l : line) : nat -> line -> cmd :=
  fun j k => if Z.eqb k l && negb (Nat.eqb j i)
             then match ms s j l with M => Wb | _ => cm s j k end
             else cm s j k.
(* msi.writeRequest / invalidationRequest *)
Definition req_write (s : st) (i : nat) (l : line) : nat -> line -> cmd :=
  fun j k => if Z.eqb k l && negb (Nat.eqb j i)
             then match ms s j l with M => Wb | S => Ev | I => cm s j k end
             else cm s j k.
(* msi.evictExtraCacheLine for the LRU victim of core i *)
Definition req_victim (s : st) (i : nat) (vic : option line) : nat -> line -> cmd :=
  match vic with
  | None => cm s
  | Some a => match ms s i a with
              | S => upd2 (cm s) i a Ev
              | M => upd2 (cm s) i a Wb
              | I => cm s
              end
  end.

Definition victim_ok (s : st) (i : nat) (l : line) (vic : option line) : Prop :=
  match vic with None => True | Some a => a <> l /\ l1 s i a <> None end.
Definition victim_done (s : st) (i : nat) (vic : option line) : Prop :=
  match vic with None => True | Some a => cm s i a = NoCmd end.

Inductive flush_mode := NoFlush | FlushRepaired.

(* cacheController.flush repaired: the transaction is abandoned, its semaphore
   released once, and a line that was filled but not settled is dropped.
   Commands already sent stay outstanding (the guard of the lock transitions
   keeps their targets away from the line until they complete). *)
Definition flush_rep (s : st) (i : nat) : st :=
  match ph s i with
  | Idle => s
  | RdWait l | RdFetched l _ | ShRd l =>
      {| ms := ms s; ph := upd (ph s) i Idle; cm := cm s; l1 := l1 s; mem := mem s;
         rc := updl (rc s) l (rc s l - 1); wc := wc s |}
  | RdFilled l _ =>
      {| ms := ms s; ph := upd (ph s) i Idle; cm := cm s; l1 := upd2 (l1 s) i l None; mem := mem s;
         rc := updl (rc s) l (rc s l - 1); wc := wc s |}
  | OwnRd l | WrWait l | WrFetched l _ | UpgWait l | OwnWr l =>
      {| ms := ms s; ph := upd (ph s) i Idle; cm := cm s; l1 := l1 s; mem := mem s;
         rc := rc s; wc := updl (wc s) l (wc s l - 1) |}
  | WrFilled l _ =>
      {| ms := ms s; ph := upd (ph s) i Idle; cm := cm s; l1 := upd2 (l1 s) i l None; mem := mem s;
         rc := rc s; wc := updl (wc s) l (wc s l - 1) |}
  end.

Inductive label :=
| L_rlock_I (i : nat) (l : line) | L_fetch_rd (i : nat) (l : line)
| L_fill_rd (i : nat) (l : line) (vic : option line) | L_settle_rd (i : nat) (l : line)
| L_rlock_S (i : nat) (l : line) | L_done_shrd (i : nat) (l : line)
| L_rlock_M (i : nat) (l : line) | L_done_ownrd (i : nat) (l : line)
| L_lock_I (i : nat) (l : line) | L_fetch_wr (i : nat) (l : line)
| L_fill_wr (i : nat) (l : line) (vic : option line) | L_settle_wr (i : nat) (l : line) (v : val)
| L_lock_S (i : nat) (l : line) | L_settle_upg (i : nat) (l : line) (v : val)
| L_lock_M (i : nat) (l : line) | L_done_ownwr (i : nat) (l : line) (v : val)
| L_cmd_evict_done (j : nat) (l : line) | L_cmd_writeback_done (j : nat) (l : line)
| L_export (i : nat) (l : line)
| L_flush (i : nat).

Section Msi.
Variable N : nat.            (* number of cores *)
Variable guarded : bool.     (* lock transitions refuse while a command is outstanding for (core, line) *)
Variable fm : flush_mode.

Definition others_not_M (s : st) (i : nat) (l : line) :=
  forall j, (j < N)%nat -> j <> i -> ms s j l <> M.
Definition others_I (s : st) (i : nat) (l : line) :=
  forall j, (j < N)%nat -> j <> i -> ms s j l = I.
Definition lock_guard (s : st) (i : nat) (l : line) := guarded = true -> cm s i l = NoCmd.

Inductive step : st -> label -> st -> Prop :=
(* ---- read, requester Invalid: msi.go rLock case invalid ---- *)
| rlock_I i l s : (i < N)%nat -> ph s i = Idle -> ms s i l = I -> wc s l = 0 -> lock_guard s i l ->
    step s (L_rlock_I i l)
      {| ms := ms s; ph := upd (ph s) i (RdWait l); cm := req_read s i l; l1 := l1 s; mem := mem s;
         rc := updl (rc s) l (rc s l + 1); wc := wc s |}
| fetch_rd i l s : (i < N)%nat -> ph s i = RdWait l -> others_not_M s i l ->
    step s (L_fetch_rd i l)
      {| ms := ms s; ph := upd (ph s) i (RdFetched l (mem s l)); cm := cm s; l1 := l1 s; mem := mem s;
         rc := rc s; wc := wc s |}
| fill_rd i l v vic s : (i < N)%nat -> ph s i = RdFetched l v -> victim_ok s i l vic ->
    step s (L_fill_rd i l vic)
      {| ms := ms s; ph := upd (ph s) i (RdFilled l vic); cm := req_victim s i vic;
         l1 := upd2 (l1 s) i l (Some v); mem := mem s; rc := rc s; wc := wc s |}
| settle_rd i l vic s : (i < N)%nat -> ph s i = RdFilled l vic -> victim_done s i vic ->
    step s (L_settle_rd i l)
      {| ms := upd2 (ms s) i l S; ph := upd (ph s) i Idle; cm := cm s; l1 := l1 s; mem := mem s;
         rc := updl (rc s) l (rc s l - 1); wc := wc s |}
(* ---- read, requester Shared ---- *)
| rlock_S i l s : (i < N)%nat -> ph s i = Idle -> ms s i l = S -> wc s l = 0 -> lock_guard s i l ->
    step s (L_rlock_S i l)
      {| ms := ms s; ph := upd (ph s) i (ShRd l); cm := cm s; l1 := l1 s; mem := mem s;
         rc := updl (rc s) l (rc s l + 1); wc := wc s |}
| done_shrd i l s : (i < N)%nat -> ph s i = ShRd l ->
    step s (L_done_shrd i l)
      {| ms := ms s; ph := upd (ph s) i Idle; cm := cm s; l1 := l1 s; mem := mem s;
         rc := updl (rc s) l (rc s l - 1); wc := wc s |}
(* ---- read, requester Modified: takes the WRITE lock ---- *)
| rlock_M i l s : (i < N)%nat -> ph s i = Idle -> ms s i l = M -> wc s l = 0 -> rc s l = 0 -> lock_guard s i l ->
    step s (L_rlock_M i l)
      {| ms := ms s; ph := upd (ph s) i (OwnRd l); cm := cm s; l1 := l1 s; mem := mem s;
         rc := rc s; wc := updl (wc s) l (wc s l + 1) |}
| done_ownrd i l s : (i < N)%nat -> ph s i = OwnRd l ->
    step s (L_done_ownrd i l)
      {| ms := ms s; ph := upd (ph s) i Idle; cm := cm s; l1 := l1 s; mem := mem s;
         rc := rc s; wc := updl (wc s) l (wc s l - 1) |}
(* ---- write, requester Invalid: msi.go lock case invalid ---- *)
| lock_I i l s : (i < N)%nat -> ph s i = Idle -> ms s i l = I -> wc s l = 0 -> rc s l = 0 -> lock_guard s i l ->
    step s (L_lock_I i l)
      {| ms := ms s; ph := upd (ph s) i (WrWait l); cm := req_write s i l; l1 := l1 s; mem := mem s;
         rc := rc s; wc := updl (wc s) l (wc s l + 1) |}
| fetch_wr i l s : (i < N)%nat -> ph s i = WrWait l -> others_I s i l ->
    step s (L_fetch_wr i l)
      {| ms := ms s; ph := upd (ph s) i (WrFetched l (mem s l)); cm := cm s; l1 := l1 s; mem := mem s;
         rc := rc s; wc := wc s |}
| fill_wr i l v vic s : (i < N)%nat -> ph s i = WrFetched l v -> victim_ok s i l vic ->
    step s (L_fill_wr i l vic)
      {| ms := ms s; ph := upd (ph s) i (WrFilled l vic); cm := req_victim s i vic;
         l1 := upd2 (l1 s) i l (Some v); mem := mem s; rc := rc s; wc := wc s |}
| settle_wr i l vic v' s : (i < N)%nat -> ph s i = WrFilled l vic -> victim_done s i vic ->
    step s (L_settle_wr i l v')
      {| ms := upd2 (ms s) i l M; ph := upd (ph s) i Idle; cm := cm s; l1 := upd2 (l1 s) i l (Some v');
         mem := mem s; rc := rc s; wc := updl (wc s) l (wc s l - 1) |}
(* ---- write, requester Shared (upgrade) ---- *)
| lock_S i l s : (i < N)%nat -> ph s i = Idle -> ms s i l = S -> wc s l = 0 -> rc s l = 0 -> lock_guard s i l ->
    step s (L_lock_S i l)
      {| ms := ms s; ph := upd (ph s) i (UpgWait l); cm := req_write s i l; l1 := l1 s; mem := mem s;
         rc := rc s; wc := updl (wc s) l (wc s l + 1) |}
| settle_upg i l v' s : (i < N)%nat -> ph s i = UpgWait l -> others_I s i l ->
    step s (L_settle_upg i l v')
      {| ms := upd2 (ms s) i l M; ph := upd (ph s) i Idle; cm := cm s; l1 := upd2 (l1 s) i l (Some v');
         mem := mem s; rc := rc s; wc := updl (wc s) l (wc s l - 1) |}
(* ---- write, requester Modified ---- *)
| lock_M i l s : (i < N)%nat -> ph s i = Idle -> ms s i l = M -> wc s l = 0 -> rc s l = 0 -> lock_guard s i l ->
    step s (L_lock_M i l)
      {| ms := ms s; ph := upd (ph s) i (OwnWr l); cm := cm s; l1 := l1 s; mem := mem s;
         rc := rc s; wc := updl (wc s) l (wc s l + 1) |}
| done_ownwr i l v' s : (i < N)%nat -> ph s i = OwnWr l ->
    step s (L_done_ownwr i l v')
      {| ms := ms s; ph := upd (ph s) i Idle; cm := cm s; l1 := upd2 (l1 s) i l (Some v');
         mem := mem s; rc := rc s; wc := updl (wc s) l (wc s l - 1) |}
(* ---- snoop: cc.go coSnoop closures, msiCommandInfo.done ---- *)
| cmd_evict_done j l s : (j < N)%nat -> cm s j l = Ev ->
    step s (L_cmd_evict_done j l)
      {| ms := upd2 (ms s) j l I; ph := ph s; cm := upd2 (cm s) j l NoCmd; l1 := upd2 (l1 s) j l None;
         mem := mem s; rc := rc s; wc := wc s |}
| cmd_writeback_done j l v s : (j < N)%nat -> cm s j l = Wb -> l1 s j l = Some v ->
    step s (L_cmd_writeback_done j l)
      {| ms := upd2 (ms s) j l I; ph := ph s; cm := upd2 (cm s) j l NoCmd; l1 := upd2 (l1 s) j l None;
         mem := updl (mem s) l v; rc := rc s; wc := wc s |}
(* ---- end of run: a Modified line is written to the next level ---- *)
| export_line i l v s : (i < N)%nat -> ms s i l = M -> l1 s i l = Some v ->
    step s (L_export i l)
      {| ms := ms s; ph := ph s; cm := cm s; l1 := l1 s; mem := updl (mem s) l v; rc := rc s; wc := wc s |}
(* ---- pipeline flush ---- *)
| flush_repaired i s : (i < N)%nat -> fm = FlushRepaired ->
    step s (L_flush i) (flush_rep s i).

Definition init (m0 : line -> val) : st :=
  {| ms := fun _ _ => I; ph := fun _ => Idle; cm := fun _ _ => NoCmd; l1 := fun _ _ => None;
     mem := m0; rc := fun _ => 0; wc := fun _ => 0 |}.

Inductive reach : st -> Prop :=
| reach_init m0 : reach (init m0)
| reach_step s lab s' : reach s -> step s lab s' -> reach s'.

End Msi.

(* ------------------------------------------------------------------------- *)
(* cacheController.flush AS CODED (cc.go 275-286):
     cc.read.Reset(); cc.write.Reset()
     for k, sem := range cc.rlockSems { sem.RUnlock(); delete(cc.rlockSems, k) }
     for k, sem := range cc.lockSems  { sem.Unlock();  delete(cc.rlockSems, k) }   <- wrong map
   rlockSems holds the semaphore of the line of the read in progress - which
   for a Modified requester (rlock_M) was taken with Lock(), not RLock() -;
   lockSems holds the line of the write in progress and, because of the wrong
   delete, every line whose write was flushed before (field `stale`).
   Sem.RUnlock / Sem.Unlock decrement and THEN panic when the counter became
   negative, so the negative value stays in the state. *)
Record cst := { base : st; stale : nat -> line -> bool }.

(* the keys of cc.lockSems of core i: the line of the write in progress and
   the stale entries *)
Definition wr_line (p : phase) : option line :=
  match p with
  | WrWait l | WrFetched l _ | WrFilled l _ | UpgWait l | OwnWr l => Some l
  | _ => None
  end.
Definition lock_sems (s : cst) (i : nat) : line -> bool :=
  fun k => stale s i k || match wr_line (ph (base s) i) with Some l => Z.eqb k l | None => false end.
(* the key of cc.rlockSems: the line of the read in progress (rlock_M included) *)
Definition rlock_line (p : phase) : option line :=
  match p with
  | RdWait l | RdFetched l _ | RdFilled l _ | ShRd l | OwnRd l => Some l
  | _ => None
  end.

Definition flush_coded (s : cst) (i : nat) : cst :=
  let b := base s in
  let p := ph b i in
  {| base := {| ms := ms b; ph := upd (ph b) i Idle; cm := cm b; l1 := l1 b; mem := mem b;
                rc := match rlock_line p with Some l => updl (rc b) l (rc b l - 1) | None => rc b end;
                wc := fun k => if lock_sems s i k then wc b k - 1 else wc b k |};
     stale := upd (stale s) i (lock_sems s i) |}.

(* the code as it is: unguarded lock transitions + the coded flush.  A write
   that completes deletes its own lockSems entry (coWriteToL1). *)
Definition stale_after (lab : label) (f : nat -> line -> bool) : nat -> line -> bool :=
  match lab with
  | L_settle_wr i l _ | L_settle_upg i l _ | L_done_ownwr i l _ => upd2 f i l false
  | _ => f
  end.

Inductive cstep (N : nat) : cst -> label -> cst -> Prop :=
| c_base s lab b' : step N false NoFlush (base s) lab b' ->
    cstep N s lab {| base := b'; stale := stale_after lab (stale s) |}
| c_flush s i : (i < N)%nat -> cstep N s (L_flush i) (flush_coded s i).

Definition cinit (m0 : line -> val) : cst := {| base := init m0; stale := fun _ _ => false |}.

Inductive creach (N : nat) : cst -> Prop :=
| creach_init m0 : creach N (cinit m0)
| creach_step s lab s' : creach N s -> cstep N s lab s' -> creach N s'.
