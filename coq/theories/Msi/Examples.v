(* C06 - non-vacuity: the unguarded, flush-free machine (the code as it is)
   reaches non-trivial states: core 0 writes line 64, core 1 reads it (which
   forces the write-back of core 0's Modified copy), then core 0 reads it
   again: both end Shared with the written value in the next level. *)
From Coq Require Import List ZArith Lia Bool Arith.
From Maj Require Import Msi.Protocol Msi.Invariant.
Import ListNotations.
Open Scope Z_scope.

Inductive trace (N : nat) (g : bool) (fm : flush_mode) : st -> list label -> st -> Prop :=
| t_nil s : trace N g fm s [] s
| t_cons s lab s1 t s2 : step N g fm s lab s1 -> trace N g fm s1 t s2 -> trace N g fm s (lab :: t) s2.

Lemma trace_reach N g fm s t s' : reach N g fm s -> trace N g fm s t s' -> reach N g fm s'.
Proof. intros R T. induction T; auto. apply IHT. eapply reach_step; eauto. Qed.

Definition example_trace : list label :=
  [L_lock_I 0 64; L_fetch_wr 0 64; L_fill_wr 0 64 None; L_settle_wr 0 64 5;
   L_rlock_I 1 64; L_cmd_writeback_done 0 64; L_fetch_rd 1 64; L_fill_rd 1 64 None; L_settle_rd 1 64;
   L_rlock_I 0 64; L_fetch_rd 0 64; L_fill_rd 0 64 None; L_settle_rd 0 64].

Ltac side :=
  simpl; try reflexivity; try lia; try exact Logic.I;
  try (unfold lock_guard; discriminate);
  try (intros ? ? ?; simpl; first [discriminate | reflexivity]); auto.
Ltac tb := eapply t_cons; [econstructor; side|simpl].

Example reach_example :
  exists s, trace 2 false NoFlush (init (fun l => l)) example_trace s /\
            ms s 0%nat 64 = S /\ ms s 1%nat 64 = S /\ mem s 64 = 5 /\
            l1 s 0%nat 64 = Some 5 /\ l1 s 1%nat 64 = Some 5 /\ rc s 64 = 0 /\ wc s 64 = 0.
Proof.
  eexists. split.
  - unfold example_trace. do 5 tb.
    eapply t_cons; [eapply cmd_writeback_done with (v := 5); side|simpl].
    tb.
    { intros j Hj Hne. destruct j as [|[|j]]; simpl; try discriminate; lia. }
    do 3 tb.
    tb.
    { intros j Hj Hne. destruct j as [|[|j]]; simpl; try discriminate; lia. }
    do 2 tb. apply t_nil.
  - vm_compute. repeat split; reflexivity.
Qed.
