(* C06 - the invariants of the three-level machine (Msi/L3Protocol.v), twice:
   (1) over the machine: the two-level invariant Inv (Msi/Invariant.v) of the
       state the cores see (`view`: next level = L3 copy if present, else main
       memory), the L3 invariant L3I, and the data-value invariant DV;
   (2) over a snapshot of the implementation: the boolean l3_b (extracted,
       evaluated per cycle) and the same as a Prop, L3SInv.
   Definitions only; proofs in Msi/L3Proofs.v, L3SnapProofs.v, L3Refuted.v. *)
From Coq Require Import List ZArith Lia Bool Arith.
From Maj Require Import Msi.Protocol Msi.Invariant Msi.L3Protocol.
Import ListNotations.
Open Scope Z_scope.

(* ------------------------------------------------------------------------- *)
(* (1) the machine                                                            *)

(* two core states that agree pointwise (the fields are functions) *)
Record st_eq (a b : st) : Prop := {
  eq_ms : forall j k, ms b j k = ms a j k;
  eq_l1 : forall j k, l1 b j k = l1 a j k;
  eq_cm : forall j k, cm b j k = cm a j k;
  eq_ph : forall j, ph b j = ph a j;
  eq_mem : forall k, mem b k = mem a k;
  eq_rc : forall k, rc b k = rc a k;
  eq_wc : forall k, wc b k = wc a k
}.

(* (c) the L3 clauses: one copy per line, aligned, within capacity - and what
   makes them inductive: a line that is not marked dirty equals main memory,
   the flag of an absent line is down; the repaired machine has no deferred
   victim commands and no miss in flight between memory and L3 *)
Record L3I (w : Z) (cap : nat) (s : st3) : Prop := {
  l3_nodup : NoDup (l3q s);
  l3_aligned : forall b, In b (l3q s) -> b mod w = 0;
  l3_cap : (length (l3q s) <= cap)%nat;
  l3_clean : forall b k, In b (l3q s) -> l3w s b = false -> grp w k = b -> l3d s k = mem (core s) k;
  l3_flag : forall b, ~ In b (l3q s) -> l3w s b = false;
  l3_nocmd : l3c s = [];
  l3_noaux : forall i, ax s i = ANone
}.

(* what holds of L3 in the code as it is *)
Definition L3wf (w : Z) (s : st3) : Prop :=
  NoDup (l3q s) /\ forall b, In b (l3q s) -> b mod w = 0.
(* "settled": no L3 victim command outstanding *)
Definition l3_settled (s : st3) : Prop := l3c s = [].
Definition l3_occupancy_ok (cap : nat) (s : st3) : Prop := l3_settled s -> (length (l3q s) <= cap)%nat.
(* coSnoop's l3WriteBack finds its line (else Go panics "memory address should exist") *)
Definition l3_cmds_have_lines (s : st3) : Prop := forall i b, In (i, b, true) (l3c s) -> In b (l3q s).

(* (d) DATA VALUE: lw l is the last value written to line l.  A Modified copy
   holds it; when no core is Modified the next level holds it.  (With clause 2
   of Inv every Shared copy then holds it as well: dv_valid_copy.) *)
Definition DV (N : nat) (b : st) (lw : line -> val) : Prop := forall l,
  (forall i, (i < N)%nat -> ms b i l = M -> l1 b i l = Some (lw l)) /\
  ((forall i, (i < N)%nat -> ms b i l <> M) -> mem b l = lw l).

(* the current value of a line: the Modified L1 copy if any, else the L3 copy
   if present, else main memory *)
Definition current (N : nat) (w : Z) (s : st3) (l : line) (v : val) : Prop :=
  (exists i, (i < N)%nat /\ ms (core s) i l = M /\ l1 (core s) i l = Some v) \/
  ((forall i, (i < N)%nat -> ms (core s) i l <> M) /\
   ((in_l3 w s l = true /\ l3d s l = v) \/ (in_l3 w s l = false /\ mem (core s) l = v))).

(* the data-erased core state: what the protocol does without what it carries *)
Definition erase_ph (p : phase) : phase :=
  match p with
  | RdFetched l _ => RdFetched l 0
  | WrFetched l _ => WrFetched l 0
  | _ => p
  end.
Definition erase (b : st) : st :=
  {| ms := ms b; ph := fun i => erase_ph (ph b i); cm := cm b;
     l1 := fun i l => match l1 b i l with Some _ => Some 0 | None => None end;
     mem := fun _ => 0; rc := rc b; wc := wc b |}.
Definition erase_lab (lab : label) : label :=
  match lab with
  | L_settle_wr i l _ => L_settle_wr i l 0
  | L_settle_upg i l _ => L_settle_upg i l 0
  | L_done_ownwr i l _ => L_done_ownwr i l 0
  | _ => lab
  end.

(* ------------------------------------------------------------------------- *)
(* (2) snapshots of the implementation (Msi/Invariant.v: snap)                *)

Definition l3_cmd_count (s : snap) : Z :=
  zcount (fun c => match c with (_, _, kind, _) => is_l3_cmd kind end) (sn_cmds s).

Fixpoint nodup_lines (l : list line) : bool :=
  match l with
  | [] => true
  | x :: t => negb (mem_line x t) && nodup_lines t
  end.

(* (c) L3 never holds two copies of a line; bases are multiples of the L3 line
   size and every entry holds a full line *)
Definition l3_wf_b (s : snap) : bool :=
  nodup_lines (map fst (sn_l3 s)) &&
  forallb (fun e => match e with (a, d) =>
     Z.eqb (a mod sn_l3size s) 0 && Z.eqb (Z.of_nat (length d)) (sn_l3size s) end) (sn_l3 s).
(* (c) occupancy: at most capacity + the victim commands still outstanding
   (so: at most capacity whenever no victim command is outstanding) *)
Definition l3_cap_b (s : snap) : bool :=
  Z.leb (Z.of_nat (length (sn_l3 s))) (sn_l3cap s + l3_cmd_count s).
(* supporting: an L3 line that is not marked dirty equals main memory *)
Definition l3_clean_b (s : snap) : bool :=
  forallb (fun e => match e with (a, d) =>
     mem_line a (sn_l3dirty s) || data_eqb d (mem_under_l3 s a) end) (sn_l3 s).
(* (d) data value against the reference of completed writes *)
Definition opt_data_eqb (o : option data) (d : data) : bool :=
  match o with Some d' => data_eqb d' d | None => false end.
Definition dv_b (s : snap) : bool :=
  forallb (fun e => match e with (k, d) =>
     forallb (fun i => negb (mstate_eqb (s_ms s i k) M) || opt_data_eqb (s_l1 s i k) d) (cores_of s) &&
     (existsb (fun i => mstate_eqb (s_ms s i k) M) (cores_of s) || data_eqb (s_next s k) d) end) (sn_ref s).

Definition l3_b (s : snap) : bool := l3_wf_b s && l3_cap_b s && l3_clean_b s && dv_b s.

Inductive clause3_name := L3_wellformed | L3_within_capacity | L3_clean_matches_memory | D_current_value_is_last_write.
Definition violated3 (s : snap) : list clause3_name :=
  (if l3_wf_b s then [] else [L3_wellformed]) ++
  (if l3_cap_b s then [] else [L3_within_capacity]) ++
  (if l3_clean_b s then [] else [L3_clean_matches_memory]) ++
  (if dv_b s then [] else [D_current_value_is_last_write]).

(* ---- the same as a Prop ---- *)
Definition l3_wellformed (s : snap) : Prop :=
  NoDup (map fst (sn_l3 s)) /\
  forall a d, In (a, d) (sn_l3 s) -> a mod sn_l3size s = 0 /\ Z.of_nat (length d) = sn_l3size s.
Definition l3_within_capacity (s : snap) : Prop :=
  Z.of_nat (length (sn_l3 s)) <= sn_l3cap s + l3_cmd_count s.
Definition l3_clean_eq_memory (s : snap) : Prop :=
  forall a d, In (a, d) (sn_l3 s) -> mem_line a (sn_l3dirty s) = false -> d = mem_under_l3 s a.
Definition data_value (s : snap) : Prop :=
  forall k d, In (k, d) (sn_ref s) ->
    (forall i, (i < sn_cores s)%nat -> s_ms s i k = M -> s_l1 s i k = Some d) /\
    ((forall i, (i < sn_cores s)%nat -> s_ms s i k <> M) -> s_next s k = d).
Definition L3SInv (s : snap) : Prop :=
  l3_wellformed s /\ l3_within_capacity s /\ l3_clean_eq_memory s /\ data_value s.
