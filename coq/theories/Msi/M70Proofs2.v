(* C06 about the faithful model of MVP-7.0, part 2 (PARTIAL): clause 1 (single writer: a line Modified in one core
   is Invalid in every other core) and the exactness of the semaphore counters, in every state of the FLUSH-FREE
   prefix of every run (reach7nf: no execute unit raises `flush`, CPU.flush is not reached).

   INTENDED full statement: forall par ord app labels st s0 s, init7 par ord app st = Ok s0 ->
       reach7nf hooks70 app labels ord s0 s -> C06Inv70_st s         (clauses 1-5 of Msi/M70Inv.v).
   PROVED here: clause 1 + the counters of every line equal the numbers of cores inside a transaction that
   will release them (sem_count70) - with clauses 4 and 5 from part 1 (all runs).
   GAP: clauses 2 (Shared copy = memory) and 3 (in L1 iff not Invalid) are NOT proved about the faithful model.
   They need, on top of the invariant K1 below, the conjuncts that the boolean judge c06full70_b of
   Msi/M70Inv.v evaluates (shapes_b, cmds_b, just_b, snoop_b: the kind of a command matches the state of its
   target, the target is not inside a transaction on the line, every command is justified by a waiting
   requester or by a capacity eviction of its target, the snoop closures have their commands) and frame
   reasoning on main memory; c06full70_b holds in every state of every run tried (Props/C06_mvp70.v), no
   counterexample to any clause was found on flush-free runs.
   [LATER: the gap is closed by Msi/M70Proofs3.v .. M70Proofs6.v - clauses 2 and 3 and the whole C06Inv70 are proved
    on reach7nf (mvp70_inv_reachable), with an invariant stated over the semaphores instead of just_b.]

   Method: the part of a controller that matters for clause 1 is abstracted to a SUMMARY (cur_post, cur_pend):
   the `post` closure it will run and, while it waits for its pending commands, their identities.  K1' is an
   invariant over (directory, list of summaries); six abstract lemmas (stutter, more commands, acquire, pend
   exit, release, command done) are composed along the code of coRead / coWrite / coSnoop. *)
From Coq Require Import ZArith List Bool Lia.
From Maj Require Import Base.Outcome Base.GoInt Base.GoTypes Isa.Spec Isa.Seq.
From Maj Require Import Gen.Latency Gen.RiscTables Gen.Opcodes Comp.Cache Comp.Rat Comp.RatProofs Mvp.Mvp12 Mvp.Mvp3 Mvp.Mvp5 Mvp.Mvp60 Mvp.Mvp63 Mvp.Mvp63Proofs Mvp.Mvp70 Mvp.Mvp70Proofs.
From Maj Require Import Msi.M70Inv Msi.M70Frame Msi.M70Proofs.
Import ListNotations.
Open Scope Z_scope.

(* ------------------------------------------------------------------ *)
(* definitions                                                          *)
(* ------------------------------------------------------------------ *)

Definition summary : Type := option post7 * option (list Z).

Definition cur_pend (c : cc7) : option (list Z) :=
  match c_rd c with
  | RPend ps _ _ => Some ps
  | RStart => match c_wr c with WPend ps _ _ => Some ps | _ => None end
  | _ => None
  end.
Definition sum_cc (c : cc7) : summary := (cur_post c, cur_pend c).
Definition sum_of (e : eu7) : summary := sum_cc (h_cc e).

Definition sr (a : Z) (s : summary) : bool := match fst s with Some p => post_r p a | None => false end.
Definition sw (a : Z) (s : summary) : bool := match fst s with Some p => post_w p a | None => false end.

Definition others_I (i : msi7) (id a : Z) : Prop := forall id', id' <> id -> state_get i id' a = stInvalid.
Definition others_notM (i : msi7) (id a : Z) : Prop := forall id', id' <> id -> state_get i id' a <> stModified.
Definition cover_r (i : msi7) (id a : Z) (ps : list Z) : Prop :=
  forall id', id' <> id -> state_get i id' a = stModified -> exists c, In c ps /\ In (id', a, rqWriteBack, c) (i_cmds i).
Definition cover_s (i : msi7) (id a : Z) (ps : list Z) : Prop :=
  forall id', id' <> id -> state_get i id' a = stShared -> exists c, In c ps /\ In (id', a, rqEvict, c) (i_cmds i).

Definition post_ok (i : msi7) (id : Z) (p : post7) : Prop :=
  match p with PShareRUnlock a => others_notM i id a | PModUnlock a => others_I i id a | _ => True end.
Definition pend_ok (i : msi7) (id : Z) (ps : list Z) (p : post7) : Prop :=
  match p with
  | PShareRUnlock a => cover_r i id a ps
  | PModUnlock a => cover_r i id a ps /\ cover_s i id a ps
  | _ => True
  end.
Definition sum_ok (i : msi7) (id : Z) (s : summary) : Prop :=
  match s with
  | (None, _) => True
  | (Some p, Some ps) => pend_ok i id ps p
  | (Some p, None) => post_ok i id p
  end.

Definition K1' (i : msi7) (sums : list summary) : Prop :=
  SI i /\ clause1_70 i /\
  (forall a, fst (sem_get i a) = cnt (sr a) sums /\ snd (sem_get i a) = cnt (sw a) sums) /\
  (forall n s, nth_error sums n = Some s -> sum_ok i (Z.of_nat n) s).

Definition eu_ok (e : eu7) : Prop :=
  match h_co e with
  | HRead _ => c_wr (h_cc e) = WStart
  | HWrite _ _ => c_rd (h_cc e) = RStart
  | _ => c_rd (h_cc e) = RStart /\ c_wr (h_cc e) = WStart
  end.

Definition K1 (i : msi7) (eus : list eu7) : Prop :=
  K1' i (map sum_of eus) /\ (forall e, In e eus -> eu_ok e /\ h_seq e = 0).

(* ------------------------------------------------------------------ *)
(* lists                                                                *)
(* ------------------------------------------------------------------ *)

Lemma nth_error_mid {A} (d : list A) x t : nth_error (d ++ x :: t) (length d) = Some x.
Proof. induction d; cbn; auto. Qed.

Lemma nth_error_mid_other {A} (d : list A) x y t n : n <> length d -> nth_error (d ++ y :: t) n = nth_error (d ++ x :: t) n.
Proof.
  revert n. induction d as [|z d IH]; intros [|n] H; cbn in *; try reflexivity; try lia. apply IH. lia.
Qed.

Lemma cnt_mid {A} (f : A -> bool) d x t : cnt f (d ++ x :: t) = cnt f d + (if f x then 1 else 0) + cnt f t.
Proof. rewrite cnt_app, cnt_cons. lia. Qed.

Lemma cnt_ge1 {A} (f : A -> bool) l n x : nth_error l n = Some x -> f x = true -> 1 <= cnt f l.
Proof.
  revert n. induction l as [|y t IH]; intros [|n] H F; cbn in H; try discriminate.
  - inv H. rewrite cnt_cons, F. pose proof (cnt_nonneg f t). lia.
  - rewrite cnt_cons. specialize (IH _ H F). destruct (f y); lia.
Qed.
Lemma cnt_ge2 {A} (f : A -> bool) l n m x y : n <> m -> nth_error l n = Some x -> nth_error l m = Some y ->
  f x = true -> f y = true -> 2 <= cnt f l.
Proof.
  revert n m. induction l as [|z t IH]; intros [|n] [|m] D H1 H2 F1 F2; cbn in H1, H2; try discriminate; try lia.
  - inv H1. rewrite cnt_cons, F1. pose proof (cnt_ge1 f t m y H2 F2). lia.
  - inv H2. rewrite cnt_cons, F2. pose proof (cnt_ge1 f t n x H1 F1). lia.
  - rewrite cnt_cons. assert (2 <= cnt f t) by (eapply (IH n m); eauto). destruct (f z); lia.
Qed.

(* ------------------------------------------------------------------ *)
(* the six abstract lemmas                                              *)
(* ------------------------------------------------------------------ *)

Lemma sum_ok_st : forall i i' id s, (forall id' b, state_get i' id' b = state_get i id' b) ->
  incl (i_cmds i) (i_cmds i') -> sum_ok i id s -> sum_ok i' id s.
Proof.
  intros i i' id [[p|] [ps|]] S C H; cbn [sum_ok] in *; try exact I.
  - destruct p; cbn [pend_ok] in *; try exact I.
    + intros id' D M. rewrite S in M. destruct (H id' D M) as (c & A & B). eauto.
    + destruct H as [H1 H2]. split; intros id' D M; rewrite S in M.
      * destruct (H1 id' D M) as (c & A & B). eauto.
      * destruct (H2 id' D M) as (c & A & B). eauto.
  - destruct p; cbn [post_ok] in *; try exact I; intros id' D; rewrite S; apply H; exact D.
Qed.
Lemma sum_ok_ss : forall i i' id s, same_ss i i' -> incl (i_cmds i) (i_cmds i') -> sum_ok i id s -> sum_ok i' id s.
Proof. intros i i' id s S. apply sum_ok_st. intros. apply same_ss_state. exact S. Qed.

(* more commands, same states and semaphores *)
Lemma K1'_ss : forall i i' sums, same_ss i i' -> incl (i_cmds i) (i_cmds i') -> K1' i sums -> K1' i' sums.
Proof.
  intros i i' sums S C (A & B & D & E). split; [eapply SI_ss; eauto|]. split; [|split].
  - intros id id' a. rewrite !(same_ss_state _ _ _ _ S). apply B.
  - intros a. rewrite (same_ss_sem _ _ _ S). apply D.
  - intros n s H. eapply sum_ok_ss; eauto.
Qed.

(* the summary of one core changes, nothing else *)
Lemma K1'_local : forall i d s s' t, K1' i (d ++ s :: t) -> (forall a, sr a s' = sr a s) -> (forall a, sw a s' = sw a s) ->
  (sum_ok i (Z.of_nat (length d)) s -> sum_ok i (Z.of_nat (length d)) s') -> K1' i (d ++ s' :: t).
Proof.
  intros i d s s' t (A & B & D & E) R W O. split; [exact A|]. split; [exact B|]. split.
  - intros a. rewrite !cnt_mid, R, W. rewrite <- !cnt_mid. apply D.
  - intros n x H. destruct (Nat.eq_dec n (length d)) as [->|N].
    + rewrite nth_error_mid in H. inv H. apply O. apply E. apply nth_error_mid.
    + apply E. rewrite (nth_error_mid_other d s' s t n N). exact H.
Qed.

(* when every pending command is done *)
Lemma all_done_spec : forall i ps c id a rq, all_done i ps = true -> In c ps -> In (id, a, rq, c) (i_cmds i) -> False.
Proof.
  intros i ps c id a rq H C I. unfold all_done in H. rewrite forallb_forall in H. specialize (H c C).
  unfold cmd_isdone in H. apply negb_true_iff in H.
  assert (existsb (fun e => snd e =? c) (i_cmds i) = true); [|congruence].
  apply existsb_exists. exists (id, a, rq, c). split; [exact I|]. cbn [snd]. apply Z.eqb_refl.
Qed.

Lemma K1'_pend_exit : forall i d p ps t, K1' i (d ++ (Some p, Some ps) :: t) -> all_done i ps = true -> SI i ->
  K1' i (d ++ (Some p, None) :: t).
Proof.
  intros i d p ps t K AD S. eapply K1'_local; [exact K|reflexivity|reflexivity|].
  cbn [sum_ok]. destruct p; cbn [pend_ok post_ok]; try (intros; exact I).
  - intros H id' D M. destruct (H id' D M) as (c & A & B). eapply all_done_spec; eauto.
  - intros [H1 H2] id' D. destruct S as [_ R]. specialize (R id' a).
    destruct (Z.eq_dec (state_get i id' a) stModified) as [M|M].
    + exfalso. destruct (H1 id' D M) as (c & A & B). eapply all_done_spec; eauto.
    + destruct (Z.eq_dec (state_get i id' a) stShared) as [M'|M'].
      * exfalso. destruct (H2 id' D M') as (c & A & B). eapply all_done_spec; eauto.
      * unfold stModified, stShared, stInvalid in *. lia.
Qed.

(* two cores inside transactions on the same line both hold the read counter *)
Lemma K1'_excl_rw : forall i sums n m s1 s2 a, K1' i sums -> nth_error sums n = Some s1 -> nth_error sums m = Some s2 ->
  sr a s1 = true -> sw a s2 = true -> False.
Proof.
  intros i sums n m s1 s2 a ([S _] & _ & D & _) H1 H2 R W. destruct (D a) as [Dr Dw]. destruct (S a) as (A & B & C & E).
  pose proof (cnt_ge1 _ _ _ _ H1 R). pose proof (cnt_ge1 _ _ _ _ H2 W). lia.
Qed.
Lemma K1'_excl_ww : forall i sums n m s1 s2 a, K1' i sums -> n <> m -> nth_error sums n = Some s1 -> nth_error sums m = Some s2 ->
  sw a s1 = true -> sw a s2 = true -> False.
Proof.
  intros i sums n m s1 s2 a ([S _] & _ & D & _) N H1 H2 R W. destruct (D a) as [Dr Dw]. destruct (S a) as (A & B & C & E).
  pose proof (cnt_ge2 _ _ _ _ _ _ N H1 H2 R W). lia.
Qed.

(* acquire: Sem.RLock / Sem.Lock succeeded for a core that was idle; the commands have been sent *)
Lemma K1'_acquire_r : forall i d t a i1 i2 p ps, K1' i (d ++ (None, None) :: t) -> sem_rlock i a = (i1, true) ->
  same_ss i1 i2 -> incl (i_cmds i1) (i_cmds i2) -> (forall b, post_r p b = (b =? a)) -> (forall b, post_w p b = false) ->
  pend_ok i2 (Z.of_nat (length d)) ps p -> K1' i2 (d ++ (Some p, Some ps) :: t).
Proof.
  intros i d t a i1 i2 p ps K L S C PR PW PO. pose proof K as (A & B & D & E).
  unfold sem_rlock in L. destruct (sem_get i a) as [r w] eqn:G. destruct (0 <? w) eqn:W; inv L.
  assert (S0 : forall id b, state_get i2 id b = state_get i id b).
  { intros. rewrite (same_ss_state _ _ _ _ S). reflexivity. }
  assert (C0 : incl (i_cmds i) (i_cmds i2)) by exact C.
  split; [eapply SI_ss; [exact S|]; pose proof (sem_rlock_SI i a A) as X; unfold sem_rlock in X; rewrite G, W in X; exact X|].
  split; [intros id id' b; rewrite !S0; apply B|]. split.
  - intros b. rewrite (same_ss_sem _ _ _ S), sem_get_sem_set. specialize (D b). rewrite !cnt_mid in *.
    unfold sr, sw in *. cbn [fst] in *. rewrite PR, PW. destruct (b =? a) eqn:Eb.
    + apply Z.eqb_eq in Eb. subst b. rewrite G in D. cbn [fst snd] in *. lia.
    + exact D.
  - intros n x H. destruct (Nat.eq_dec n (length d)) as [->|N].
    + rewrite nth_error_mid in H. inv H. exact PO.
    + rewrite (nth_error_mid_other d (None, None) _ t n N) in H. apply E in H.
      eapply sum_ok_st; [exact S0|exact C0|exact H].
Qed.

Lemma K1'_acquire_w : forall i d t a i1 i2 p ps, K1' i (d ++ (None, None) :: t) -> sem_lock i a = (i1, true) ->
  same_ss i1 i2 -> incl (i_cmds i1) (i_cmds i2) -> (forall b, post_w p b = (b =? a)) -> (forall b, post_r p b = false) ->
  pend_ok i2 (Z.of_nat (length d)) ps p -> K1' i2 (d ++ (Some p, Some ps) :: t).
Proof.
  intros i d t a i1 i2 p ps K L S C PW PR PO. pose proof K as (A & B & D & E).
  unfold sem_lock in L. destruct (sem_get i a) as [r w] eqn:G. destruct ((0 <? w) || (0 <? r)) eqn:W; inv L.
  assert (S0 : forall id b, state_get i2 id b = state_get i id b).
  { intros. rewrite (same_ss_state _ _ _ _ S). reflexivity. }
  assert (C0 : incl (i_cmds i) (i_cmds i2)) by exact C.
  split; [eapply SI_ss; [exact S|]; pose proof (sem_lock_SI i a A) as X; unfold sem_lock in X; rewrite G, W in X; exact X|].
  split; [intros id id' b; rewrite !S0; apply B|]. split.
  - intros b. rewrite (same_ss_sem _ _ _ S), sem_get_sem_set. specialize (D b). rewrite !cnt_mid in *.
    unfold sr, sw in *. cbn [fst] in *. rewrite PR, PW. destruct (b =? a) eqn:Eb.
    + apply Z.eqb_eq in Eb. subst b. rewrite G in D. cbn [fst snd] in *. lia.
    + exact D.
  - intros n x H. destruct (Nat.eq_dec n (length d)) as [->|N].
    + rewrite nth_error_mid in H. inv H. exact PO.
    + rewrite (nth_error_mid_other d (None, None) _ t n N) in H. apply E in H.
      eapply sum_ok_st; [exact S0|exact C0|exact H].
Qed.

(* a failed RLock / Lock changes nothing *)
Lemma sem_rlock_fail : forall i a i1, sem_rlock i a = (i1, false) -> i1 = i.
Proof. intros i a i1 H. unfold sem_rlock in H. destruct (sem_get i a). destruct (0 <? z0); inv H. reflexivity. Qed.
Lemma sem_lock_fail : forall i a i1, sem_lock i a = (i1, false) -> i1 = i.
Proof. intros i a i1 H. unfold sem_lock in H. destruct (sem_get i a). destruct (_ || _); inv H. reflexivity. Qed.

(* a snoop command completes: the state of its target becomes Invalid, the commands with its key go *)
Lemma In_cmd_done : forall i m a rq x, In x (i_cmds i) -> cmd_key x m a rq = false -> In x (i_cmds (cmd_done i m a rq)).
Proof. intros i m a rq x H F. unfold cmd_done. cbn [i_cmds]. apply filter_In. split; [exact H|]. rewrite F. reflexivity. Qed.

Lemma state_get_cmd_done : forall i m a rq id b, state_get (cmd_done i m a rq) id b = if (id =? m) && (b =? a) then stInvalid else state_get i id b.
Proof. intros. rewrite (same_ss_state _ _ _ _ (cmd_done_ss i m a rq)). apply state_get_state_set. Qed.

Lemma cmd_key_other : forall id' b rq' c m a rq, (id' =? m) && (b =? a) = false -> cmd_key (id', b, rq', c) m a rq = false.
Proof. intros. unfold cmd_key. rewrite H. reflexivity. Qed.

Lemma K1'_cmd_done : forall i sums m a rq, K1' i sums -> K1' (cmd_done i m a rq) sums.
Proof.
  intros i sums m a rq (A & B & D & E). split; [apply cmd_done_SI; exact A|]. split; [|split].
  - intros id id' b. rewrite !state_get_cmd_done. destruct ((id =? m) && (b =? a)); [unfold stInvalid, stModified; lia|].
    intros M N. destruct ((id' =? m) && (b =? a)); [reflexivity|]. apply (B id id' b M N).
  - intros b. rewrite (same_ss_sem _ _ _ (cmd_done_ss i m a rq)), sem_get_state_set. apply D.
  - intros n s H. specialize (E n s H). destruct s as [[p|] [ps|]]; cbn [sum_ok] in *; try exact I.
    + assert (CR : forall b, cover_r i (Z.of_nat n) b ps -> cover_r (cmd_done i m a rq) (Z.of_nat n) b ps).
      { intros b X id' N M. rewrite state_get_cmd_done in M. destruct ((id' =? m) && (b =? a)) eqn:Q; [discriminate|].
        destruct (X id' N M) as (c & C1 & C2). exists c. split; [exact C1|]. apply In_cmd_done; [exact C2|].
        apply cmd_key_other. exact Q. }
      destruct p; cbn [pend_ok] in *; try exact I; [apply CR; exact E|]. destruct E as [E1 E2]. split; [apply CR; exact E1|].
      intros id' N M. rewrite state_get_cmd_done in M. destruct ((id' =? m) && (a0 =? a)) eqn:Q; [discriminate|].
      destruct (E2 id' N M) as (c & C1 & C2). exists c. split; [exact C1|]. apply In_cmd_done; [exact C2|].
      apply cmd_key_other. exact Q.
    + destruct p; cbn [post_ok] in *; try exact I; intros id' N; rewrite state_get_cmd_done; specialize (E id' N);
        destruct (_ && _); try exact E; try reflexivity. unfold stInvalid, stModified. lia.
Qed.

(* release: the `post` closure *)
Lemma sum_ok_set_S : forall i id a m s, id <> m -> sum_ok i m s -> sw a s = false ->
  sum_ok (state_set i id a stShared) m s.
Proof.
  intros i id a m [[p|] [ps|]] N H W; cbn [sum_ok] in *; try exact I; unfold sw in W; cbn [fst] in W.
  - assert (CR : forall b, cover_r i m b ps -> cover_r (state_set i id a stShared) m b ps).
    { intros b X id' N' M. rewrite state_get_state_set in M. destruct ((id' =? id) && (b =? a)); [discriminate|].
      exact (X id' N' M). }
    destruct p; cbn [pend_ok post_w] in *; try exact I; [apply CR; exact H|]. destruct H as [H1 H2]. split; [apply CR; exact H1|].
    intros id' N' M. rewrite state_get_state_set in M. destruct ((id' =? id) && (a0 =? a)) eqn:Q; [|exact (H2 id' N' M)].
    apply andb_true_iff in Q as [_ Q]. rewrite Q in W. discriminate.
  - destruct p; cbn [post_ok post_w] in *; try exact I; intros id' N'; rewrite state_get_state_set.
    + destruct (_ && _); [discriminate|apply H; exact N'].
    + destruct ((id' =? id) && (a0 =? a)) eqn:Q; [|apply H; exact N'].
      apply andb_true_iff in Q as [_ Q]. rewrite Q in W. discriminate.
Qed.

Lemma sum_ok_set_M : forall i id a m s, id <> m -> sum_ok i m s -> sw a s = false -> sr a s = false ->
  sum_ok (state_set i id a stModified) m s.
Proof.
  intros i id a m [[p|] [ps|]] N H W R; cbn [sum_ok] in *; try exact I; unfold sw, sr in *; cbn [fst] in *.
  - destruct p; cbn [pend_ok post_w post_r] in *; try exact I.
    + intros id' N' M. rewrite state_get_state_set in M. destruct ((id' =? id) && (a0 =? a)) eqn:Q; [|exact (H id' N' M)].
      apply andb_true_iff in Q as [_ Q]. rewrite Q in R. discriminate.
    + destruct H as [H1 H2]. split; intros id' N' M; rewrite state_get_state_set in M;
        (destruct ((id' =? id) && (a0 =? a)) eqn:Q; [apply andb_true_iff in Q as [_ Q]; rewrite Q in W; discriminate|]).
      * exact (H1 id' N' M).
      * exact (H2 id' N' M).
  - destruct p; cbn [post_ok post_w post_r] in *; try exact I; intros id' N'; rewrite state_get_state_set;
      (destruct ((id' =? id) && (a0 =? a)) eqn:Q; [apply andb_true_iff in Q as [_ Q]|apply H; exact N']).
    + rewrite Q in R. discriminate.
    + rewrite Q in W. discriminate.
Qed.

Lemma K1'_set_S : forall i d t a, K1' i (d ++ (Some (PShareRUnlock a), None) :: t) ->
  K1' (state_set i (Z.of_nat (length d)) a stShared) (d ++ (Some (PShareRUnlock a), None) :: t).
Proof.
  intros i d t a K. pose proof K as (A & B & D & E). set (id := Z.of_nat (length d)).
  pose proof (E _ _ (nth_error_mid d _ t)) as O. cbn [sum_ok post_ok] in O. fold id in O.
  split; [apply SI_state_set; [exact A|unfold stShared; lia]|]. split; [|split].
  - intros id1 id2 b. rewrite !state_get_state_set. destruct ((id1 =? id) && (b =? a)) eqn:Q1; [discriminate|].
    intros M N. destruct ((id2 =? id) && (b =? a)) eqn:Q2; [|apply (B id1 id2 b M N)].
    exfalso. apply andb_true_iff in Q2 as [Q2 Q3]. apply Z.eqb_eq in Q2, Q3. subst id2 b. apply (O id1); [congruence|exact M].
  - intros b. rewrite sem_get_state_set. apply D.
  - intros n s H. destruct (Nat.eq_dec n (length d)) as [->|N].
    + rewrite nth_error_mid in H. inv H. cbn [sum_ok post_ok]. intros id' N'. rewrite state_get_state_set.
      fold id. destruct (id' =? id) eqn:Q; [apply Z.eqb_eq in Q; contradiction|]. cbn [andb]. apply O. exact N'.
    + apply sum_ok_set_S; [unfold id; lia|apply E; exact H|].
      destruct (sw a s) eqn:W; [exfalso|reflexivity].
      eapply (K1'_excl_rw i _ (length d) n _ s a K); [apply nth_error_mid|exact H| |exact W].
      unfold sr. cbn [fst post_r]. apply Z.eqb_refl.
Qed.

Lemma K1'_set_M : forall i d t a, K1' i (d ++ (Some (PModUnlock a), None) :: t) ->
  K1' (state_set i (Z.of_nat (length d)) a stModified) (d ++ (Some (PModUnlock a), None) :: t).
Proof.
  intros i d t a K. pose proof K as (A & B & D & E). set (id := Z.of_nat (length d)).
  pose proof (E _ _ (nth_error_mid d _ t)) as O. cbn [sum_ok post_ok] in O. fold id in O.
  split; [apply SI_state_set; [exact A|unfold stModified; lia]|]. split; [|split].
  - intros id1 id2 b. rewrite !state_get_state_set. destruct ((id1 =? id) && (b =? a)) eqn:Q1.
    + intros _ N. apply andb_true_iff in Q1 as [Q1 Q3]. apply Z.eqb_eq in Q1, Q3. subst id1 b.
      destruct (id2 =? id) eqn:Q; [apply Z.eqb_eq in Q; contradiction|]. cbn [andb]. apply O. exact N.
    + intros M N. destruct ((id2 =? id) && (b =? a)) eqn:Q2; [|apply (B id1 id2 b M N)].
      exfalso. apply andb_true_iff in Q2 as [Q2 Q3]. apply Z.eqb_eq in Q2, Q3. subst id2 b.
      assert (X : id1 <> id) by congruence. specialize (O id1 X). unfold stModified, stInvalid in *. lia.
  - intros b. rewrite sem_get_state_set. apply D.
  - intros n s H. destruct (Nat.eq_dec n (length d)) as [->|N].
    + rewrite nth_error_mid in H. inv H. cbn [sum_ok post_ok]. intros id' N'. rewrite state_get_state_set.
      fold id. destruct (id' =? id) eqn:Q; [apply Z.eqb_eq in Q; contradiction|]. cbn [andb]. apply O. exact N'.
    + assert (WT : sw a (Some (PModUnlock a), @None (list Z)) = true) by (unfold sw; cbn [fst post_w]; apply Z.eqb_refl).
      apply sum_ok_set_M; [unfold id; lia|apply E; exact H| |].
      * destruct (sw a s) eqn:W; [exfalso|reflexivity].
        eapply (K1'_excl_ww i _ (length d) n _ s a K); [lia|apply nth_error_mid|exact H|exact WT|exact W].
      * destruct (sr a s) eqn:W; [exfalso|reflexivity].
        eapply (K1'_excl_rw i _ n (length d) s _ a K); [exact H|apply nth_error_mid|exact W|exact WT].
Qed.

Lemma K1'_runlock : forall j d p t a j', K1' j (d ++ (Some p, None) :: t) -> (forall b, post_r p b = (b =? a)) ->
  (forall b, post_w p b = false) -> sem_runlock j a = Ok j' -> K1' j' (d ++ (None, None) :: t).
Proof.
  intros j d p t a j' K PR PW L. pose proof K as (A & B & D & E).
  split; [eapply sem_runlock_SI; eauto|]. unfold sem_runlock in L. destruct (sem_get j a) as [r w] eqn:G.
  destruct (r - 1 <? 0); inv L. split; [exact B|]. split.
  - intros b. rewrite sem_get_sem_set. specialize (D b). rewrite !cnt_mid in *. unfold sr, sw in *. cbn [fst] in *.
    rewrite PR, PW in D. destruct (b =? a) eqn:Eb; [|exact D]. apply Z.eqb_eq in Eb. subst b. rewrite G in D.
    cbn [fst snd] in *. lia.
  - intros n s H. destruct (Nat.eq_dec n (length d)) as [->|N].
    + rewrite nth_error_mid in H. inv H. exact I.
    + rewrite (nth_error_mid_other d (Some p, None) _ t n N) in H. apply E in H.
      eapply sum_ok_st; [| |exact H]; [reflexivity|apply incl_refl].
Qed.

Lemma K1'_unlock : forall j d p t a j', K1' j (d ++ (Some p, None) :: t) -> (forall b, post_w p b = (b =? a)) ->
  (forall b, post_r p b = false) -> sem_unlock j a = Ok j' -> K1' j' (d ++ (None, None) :: t).
Proof.
  intros j d p t a j' K PW PR L. pose proof K as (A & B & D & E).
  split; [eapply sem_unlock_SI; eauto|]. unfold sem_unlock in L. destruct (sem_get j a) as [r w] eqn:G.
  destruct (w - 1 <? 0); inv L. split; [exact B|]. split.
  - intros b. rewrite sem_get_sem_set. specialize (D b). rewrite !cnt_mid in *. unfold sr, sw in *. cbn [fst] in *.
    rewrite PR, PW in D. destruct (b =? a) eqn:Eb; [|exact D]. apply Z.eqb_eq in Eb. subst b. rewrite G in D.
    cbn [fst snd] in *. lia.
  - intros n s H. destruct (Nat.eq_dec n (length d)) as [->|N].
    + rewrite nth_error_mid in H. inv H. exact I.
    + rewrite (nth_error_mid_other d (Some p, None) _ t n N) in H. apply E in H.
      eapply sum_ok_st; [| |exact H]; [reflexivity|apply incl_refl].
Qed.

Lemma K1'_release : forall i d p t i', K1' i (d ++ (Some p, None) :: t) -> run_post i (Z.of_nat (length d)) p = Ok i' ->
  K1' i' (d ++ (None, None) :: t).
Proof.
  intros i d p t i' K R. destruct p; cbn [run_post] in R; try discriminate.
  - eapply K1'_runlock; [apply K1'_set_S; exact K| | |exact R]; intros b; cbn [post_r post_w]; [apply Z.eqb_sym|reflexivity].
  - eapply K1'_unlock; [apply K1'_set_M; exact K| | |exact R]; intros b; cbn [post_r post_w]; [apply Z.eqb_sym|reflexivity].
  - eapply K1'_runlock; [exact K| | |exact R]; intros b; cbn [post_r post_w]; [apply Z.eqb_sym|reflexivity].
  - eapply K1'_unlock; [exact K| | |exact R]; intros b; cbn [post_r post_w]; [apply Z.eqb_sym|reflexivity].
Qed.

(* ------------------------------------------------------------------ *)
(* msi.go: the commands sent by a request cover the other holders       *)
(* ------------------------------------------------------------------ *)

Lemma msi_send_spec : forall i id a rq i' c, msi_send i id a rq = (i', c) ->
  same_ss i i' /\ incl (i_cmds i) (i_cmds i') /\ In (id, a, rq, c) (i_cmds i').
Proof.
  intros i id a rq i' c H. unfold msi_send in H. destruct (find _ _) as [e|] eqn:F; inv H.
  - split; [apply same_ss_refl|]. split; [apply incl_refl|]. apply find_some in F as [F1 F2].
    destruct e as [[[x y] z] c0]. cbn [cmd_key snd] in *. apply andb_true_iff in F2 as [F2 F3].
    apply andb_true_iff in F2 as [F2 F4]. apply Z.eqb_eq in F2, F3, F4. subst. exact F1.
  - split; [split; reflexivity|]. cbn [i_cmds]. split; [apply incl_appl, incl_refl|]. apply in_or_app. right. left. reflexivity.
Qed.

Lemma others_in : forall i id a id' s, state_get i id' a = s -> s <> stInvalid -> id' <> id -> In (id', s) (msi_others i id a).
Proof.
  intros i id a id' s G N D. unfold state_get in G. destruct (find _ _) as [e|] eqn:F; [|congruence].
  apply find_some in F as [F1 F2]. destruct e as [[x y] z]. cbn [fst snd] in *. subst z.
  apply andb_true_iff in F2 as [F2 F3]. apply Z.eqb_eq in F2, F3. subst x y.
  unfold msi_others. apply in_map_iff. exists (id', a, s). split; [reflexivity|]. apply filter_In. split; [exact F1|].
  cbn [fst snd]. rewrite Z.eqb_refl. destruct (id' =? id) eqn:Q; [apply Z.eqb_eq in Q; contradiction|reflexivity].
Qed.

Definition sent (r : msi7 * list Z) (id' a rq : Z) : Prop := exists c, In c (snd r) /\ In (id', a, rq, c) (i_cmds (fst r)).
Definition grows (acc r : msi7 * list Z) : Prop :=
  same_ss (fst acc) (fst r) /\ incl (i_cmds (fst acc)) (i_cmds (fst r)) /\ incl (snd acc) (snd r).
Lemma grows_refl : forall r, grows r r.
Proof. intros. split; [apply same_ss_refl|]. split; apply incl_refl. Qed.
Lemma grows_trans : forall a b c, grows a b -> grows b c -> grows a c.
Proof. intros a b c (A1 & A2 & A3) (B1 & B2 & B3). split; [eapply same_ss_trans; eauto|]. split; eapply incl_tran; eauto. Qed.
Lemma sent_grows : forall a b id' l rq, grows a b -> sent a id' l rq -> sent b id' l rq.
Proof. intros a b id' l rq (_ & G2 & G3) (c & C1 & C2). exists c. split; [apply G3|apply G2]; assumption. Qed.

Lemma send_step : forall (acc : msi7 * list Z) id' a rq, 
  let r := (let '(i1, c) := msi_send (fst acc) id' a rq in (i1, snd acc ++ [c])) in grows acc r /\ sent r id' a rq.
Proof.
  intros acc id' a rq. destruct (msi_send (fst acc) id' a rq) as [i1 c] eqn:E. apply msi_send_spec in E as (S & C & I).
  cbn zeta. split.
  - split; [exact S|]. split; [exact C|]. cbn [snd]. apply incl_appl, incl_refl.
  - exists c. cbn [fst snd]. split; [apply in_or_app; right; left; reflexivity|exact I].
Qed.

Lemma invalidate_fold : forall a l acc,
  let r := fold_left (fun acc e => if snd e =? stModified
                          then let '(i1, c) := msi_send (fst acc) (fst e) a rqWriteBack in (i1, snd acc ++ [c])
                          else if snd e =? stShared
                          then let '(i1, c) := msi_send (fst acc) (fst e) a rqEvict in (i1, snd acc ++ [c])
                          else acc) l acc in
  grows acc r /\ (forall id', In (id', stModified) l -> sent r id' a rqWriteBack) /\
  (forall id', In (id', stShared) l -> sent r id' a rqEvict).
Proof.
  intros a. induction l as [|e t IH]; intros acc; cbn [fold_left].
  - split; [apply grows_refl|]. split; intros id' [].
  - match goal with |- context [fold_left ?f t ?x] => specialize (IH x); set (acc1 := x) in * end.
    cbn zeta in IH. destruct IH as (G & M & S).
    assert (G0 : grows acc acc1 /\ (snd e = stModified -> sent acc1 (fst e) a rqWriteBack) /\
                 (snd e = stShared -> sent acc1 (fst e) a rqEvict)).
    { subst acc1. destruct (snd e =? stModified) eqn:Q1.
      - destruct (send_step acc (fst e) a rqWriteBack) as [X Y]. split; [exact X|]. split; [intros _; exact Y|].
        apply Z.eqb_eq in Q1. intros Q. rewrite Q in Q1. discriminate.
      - destruct (snd e =? stShared) eqn:Q2.
        + destruct (send_step acc (fst e) a rqEvict) as [X Y]. split; [exact X|]. split; [|intros _; exact Y].
          intros Q. rewrite Q in Q1. discriminate.
        + split; [apply grows_refl|]. split; intros Q; rewrite Q in *; discriminate. }
    destruct G0 as (G1 & M1 & S1). split; [eapply grows_trans; eauto|]. split.
    + intros id' [E|I]; [|apply M; exact I]. subst e. cbn [fst snd] in *. eapply sent_grows; [exact G|]. apply M1. reflexivity.
    + intros id' [E|I]; [|apply S; exact I]. subst e. cbn [fst snd] in *. eapply sent_grows; [exact G|]. apply S1. reflexivity.
Qed.

Lemma read_request_fold : forall a l acc,
  let r := fold_left (fun acc e => if snd e =? stModified
                          then let '(i1, c) := msi_send (fst acc) (fst e) a rqWriteBack in (i1, snd acc ++ [c])
                          else acc) l acc in
  grows acc r /\ (forall id', In (id', stModified) l -> sent r id' a rqWriteBack).
Proof.
  intros a. induction l as [|e t IH]; intros acc; cbn [fold_left].
  - split; [apply grows_refl|]. intros id' [].
  - match goal with |- context [fold_left ?f t ?x] => specialize (IH x); set (acc1 := x) in * end.
    cbn zeta in IH. destruct IH as (G & M).
    assert (G0 : grows acc acc1 /\ (snd e = stModified -> sent acc1 (fst e) a rqWriteBack)).
    { subst acc1. destruct (snd e =? stModified) eqn:Q1.
      - destruct (send_step acc (fst e) a rqWriteBack) as [X Y]. split; [exact X|]. intros _; exact Y.
      - split; [apply grows_refl|]. intros Q; rewrite Q in *; discriminate. }
    destruct G0 as (G1 & M1). split; [eapply grows_trans; eauto|].
    intros id' [E|I]; [|apply M; exact I]. subst e. cbn [fst snd] in *. eapply sent_grows; [exact G|]. apply M1. reflexivity.
Qed.

Lemma msi_read_request_cover : forall i id a i2 ps, msi_read_request i id a = (i2, ps) ->
  same_ss i i2 /\ incl (i_cmds i) (i_cmds i2) /\ cover_r i2 id a ps.
Proof.
  intros i id a i2 ps H. unfold msi_read_request in H.
  destruct (read_request_fold a (msi_others i id a) (i, [])) as ((G1 & G2 & _) & M). cbn zeta in *. rewrite H in *.
  cbn [fst snd] in *. split; [exact G1|]. split; [exact G2|].
  intros id' D S. rewrite (same_ss_state _ _ _ _ G1) in S. apply M. eapply others_in; eauto. unfold stModified, stInvalid. lia.
Qed.

Lemma msi_invalidate_cover : forall i id a i2 ps, msi_invalidate i id a = (i2, ps) ->
  same_ss i i2 /\ incl (i_cmds i) (i_cmds i2) /\ cover_r i2 id a ps /\ cover_s i2 id a ps.
Proof.
  intros i id a i2 ps H. unfold msi_invalidate in H.
  destruct (invalidate_fold a (msi_others i id a) (i, [])) as ((G1 & G2 & _) & M & S0). cbn zeta in *. rewrite H in *.
  cbn [fst snd] in *. split; [exact G1|]. split; [exact G2|]. split.
  - intros id' D S. rewrite (same_ss_state _ _ _ _ G1) in S. apply M. eapply others_in; eauto. unfold stModified, stInvalid. lia.
  - intros id' D S. rewrite (same_ss_state _ _ _ _ G1) in S. apply S0. eapply others_in; eauto. unfold stShared, stInvalid. lia.
Qed.

Lemma msi_evict_extra_spec : forall i id a i' pe, msi_evict_extra i id a = (i', pe) -> same_ss i i' /\ incl (i_cmds i) (i_cmds i').
Proof.
  intros i id a i' pe H. unfold msi_evict_extra in H. destruct (_ =? stShared).
  - destruct (msi_send i id a rqEvict) as [i1 c] eqn:E. inv H. apply msi_send_spec in E as (A & B & _). split; assumption.
  - destruct (_ =? stModified).
    + destruct (msi_send i id a rqWriteBack) as [i1 c] eqn:E. inv H. apply msi_send_spec in E as (A & B & _). split; assumption.
    + inv H. split; [apply same_ss_refl|apply incl_refl].
Qed.

(* ------------------------------------------------------------------ *)
(* cc.go: K1' along coRead / coWrite / coSnoop                          *)
(* ------------------------------------------------------------------ *)

Ltac sumcc := unfold sum_cc, cur_post, cur_pend;
  cbn [set_rd set_wr set_l1d set_post set_rsems set_wsems set_snoop c_l1d c_rd c_wr c_post].

Section CoreK.
Variables (d t : list summary).
Let id := Z.of_nat (length d).

Definition RdRes (i' : msi7) (c' : cc7) (r : option (list Z)) : Prop :=
  K1' i' (d ++ sum_cc c' :: t) /\ c_wr c' = WStart /\ (r <> None -> c_rd c' = RStart).

Lemma rd_l1_K : forall i c addrs cyc data i' c' r, K1' i (d ++ (Some (c_post c), None) :: t) -> c_wr c = WStart ->
  rd_l1 i id c addrs cyc data = Ok (i', c', r) -> RdRes i' c' r.
Proof.
  intros i c addrs cyc data i' c' r K W H. unfold rd_l1 in H. destruct (0 <? cyc).
  - inv H. split; [|split; [exact W|congruence]]. sumcc. exact K.
  - apply bind_ok in H as (i1 & E1 & H). apply bind_ok in H as (a & E2 & H). inv H.
    split; [|split; [exact W|reflexivity]]. sumcc. rewrite W. eapply K1'_release; eauto.
Qed.

Lemma rd_from_l1_K : forall i c addrs i' c' r, K1' i (d ++ (Some (c_post c), None) :: t) -> c_wr c = WStart ->
  rd_from_l1 i id c addrs = Ok (i', c', r) -> RdRes i' c' r.
Proof.
  intros i c addrs i' c' r K W H. unfold rd_from_l1 in H. apply bind_ok in H as ([l1 g] & E & H).
  destruct g; [|discriminate]. eapply rd_l1_K; [| |exact H]; [exact K|exact W].
Qed.

Lemma rd_evict_K : forall i c addrs pending post i' c' r, K1' i (d ++ (Some post, None) :: t) -> c_wr c = WStart ->
  rd_evict i id c addrs pending post = Ok (i', c', r) -> RdRes i' c' r.
Proof.
  intros i c addrs pending post i' c' r K W H. unfold rd_evict in H.
  destruct pending as [p|]; [destruct (negb (cmd_isdone i p))|].
  - inv H. split; [|split; [exact W|congruence]]. sumcc. exact K.
  - eapply rd_from_l1_K; [| |exact H]; [exact K|exact W].
  - eapply rd_from_l1_K; [| |exact H]; [exact K|exact W].
Qed.

Lemma rd_fetch_K : forall i c addrs cyc la dt post i' c' r, K1' i (d ++ (Some post, None) :: t) -> c_wr c = WStart ->
  rd_fetch i id c addrs cyc la dt post = Ok (i', c', r) -> RdRes i' c' r.
Proof.
  intros i c addrs cyc la dt post i' c' r K W H. unfold rd_fetch in H. destruct (0 <? cyc).
  - inv H. split; [|split; [exact W|congruence]]. sumcc. exact K.
  - apply bind_ok in H as ([c1 v] & E & H). cbn [fst snd] in H. destruct v as [victim|].
    + destruct (msi_evict_extra i id (lo victim)) as [i1 pe] eqn:EE. inv H. apply msi_evict_extra_spec in EE as [S C].
      split; [|split; [exact W|congruence]]. sumcc. eapply K1'_ss; eauto.
    + eapply rd_from_l1_K; [| |exact H]; [exact K|exact W].
Qed.

Lemma rd_pend_K : forall mem i c addrs ps fetch post i' c' r, K1' i (d ++ (Some post, Some ps) :: t) -> c_wr c = WStart ->
  rd_pend mem i id c addrs ps fetch post = Ok (i', c', r) -> RdRes i' c' r.
Proof.
  intros mem i c addrs ps fetch post i' c' r K W H. unfold rd_pend in H. destruct (all_done i ps) eqn:AD; cbn [negb] in H.
  - assert (K2 : K1' i (d ++ (Some post, None) :: t)) by (exact (K1'_pend_exit i d post ps t K AD (proj1 K))).
    destruct (negb fetch); [eapply rd_from_l1_K; [| |exact H]; [exact K2|exact W]|].
    apply bind_ok in H as (a & E1 & H). apply bind_ok in H as (g & E2 & H). destruct g; [discriminate|].
    destruct addrs as [|a0 tl]; [discriminate|]. apply bind_ok in H as (ln & E3 & H).
    eapply rd_fetch_K; [| |exact H]; [exact K2|exact W].
  - inv H. split; [|split; [exact W|congruence]]. sumcc. exact K.
Qed.

Lemma rd_start_K : forall mem i c addrs i' c' r, K1' i (d ++ (None, None) :: t) -> c_rd c = RStart -> c_wr c = WStart ->
  rd_start mem i id c addrs = Ok (i', c', r) -> RdRes i' c' r.
Proof.
  intros mem i c addrs i' c' r K R W H. unfold rd_start in H. apply bind_ok in H as (a & E1 & H).
  apply bind_ok in H as ([i1 lr] & E2 & H). cbn [fst snd] in H.
  assert (X : match lr with
              | LWait => i1 = i
              | LGo fetch ps post => K1' i1 (d ++ (Some post, Some ps) :: t)
              end).
  { unfold msi_rlock in E2. destruct (_ =? stInvalid).
    - destruct (sem_rlock i a) as [j ok] eqn:L. destruct ok; cbn [negb] in E2.
      + destruct (msi_read_request j id a) as [i2 ps] eqn:RR. inv E2. apply msi_read_request_cover in RR as (S & C & CV).
        eapply K1'_acquire_r; [exact K|exact L|exact S|exact C|intros b; cbn [post_r post_w]; apply Z.eqb_sym|intros b; reflexivity|exact CV].
      + inv E2. eapply sem_rlock_fail; eauto.
    - destruct (_ =? stModified).
      + destruct (sem_lock i a) as [j ok] eqn:L. destruct ok; cbn [negb] in E2; inv E2; [|eapply sem_lock_fail; eauto].
        eapply K1'_acquire_w; [exact K|exact L|apply same_ss_refl|apply incl_refl|intros b; cbn [post_r post_w]; apply Z.eqb_sym|intros b; reflexivity|exact I].
      + destruct (_ =? stShared); [|discriminate].
        destruct (sem_rlock i a) as [j ok] eqn:L. destruct ok; cbn [negb] in E2; inv E2; [|eapply sem_rlock_fail; eauto].
        eapply K1'_acquire_r; [exact K|exact L|apply same_ss_refl|apply incl_refl|intros b; cbn [post_r post_w]; apply Z.eqb_sym|intros b; reflexivity|exact I]. }
  destruct lr.
  - inv H. split; [|split; [exact W|congruence]]. sumcc. rewrite R, W. exact K.
  - eapply rd_pend_K; [| |exact H]; [exact X|exact W].
Qed.

Lemma cc_read_cycle_K : forall mem i c addrs i' c' r, K1' i (d ++ sum_cc c :: t) -> c_wr c = WStart ->
  cc_read_cycle mem i id c addrs = Ok (i', c', r) -> RdRes i' c' r.
Proof.
  intros mem i c addrs i' c' r K W H. unfold cc_read_cycle in H. unfold sum_cc, cur_post, cur_pend in K.
  destruct (c_rd c) eqn:E.
  - rewrite W in K. eapply rd_start_K; eauto.
  - eapply rd_pend_K; eauto.
  - eapply rd_fetch_K; eauto.
  - eapply rd_evict_K; eauto.
  - eapply rd_l1_K; eauto.
Qed.

(* ---- write ---- *)

Definition WrRes (i' : msi7) (c' : cc7) (done : bool) : Prop :=
  K1' i' (d ++ sum_cc c' :: t) /\ c_rd c' = RStart /\ (done = true -> c_wr c' = WStart).

Lemma wr_l1_K : forall i c addrs data cyc i' c' r, K1' i (d ++ (Some (c_post c), None) :: t) -> c_rd c = RStart ->
  wr_l1 i id c addrs data cyc = Ok (i', c', r) -> WrRes i' c' r.
Proof.
  intros i c addrs data cyc i' c' r K R H. unfold wr_l1 in H. destruct (0 <? cyc).
  - inv H. split; [|split; [exact R|congruence]]. sumcc. rewrite R. exact K.
  - destruct addrs as [|a0 tl]; [discriminate|].
    apply bind_ok in H as (l1 & E0 & H). apply bind_ok in H as (i1 & E1 & H). apply bind_ok in H as (a & E2 & H). inv H.
    split; [|split; [exact R|reflexivity]]. sumcc. rewrite R. eapply K1'_release; eauto.
Qed.

Lemma wr_evict_K : forall i c addrs data pending cyc post i' c' r, K1' i (d ++ (Some post, None) :: t) -> c_rd c = RStart ->
  wr_evict i id c addrs data pending cyc post = Ok (i', c', r) -> WrRes i' c' r.
Proof.
  intros i c addrs data pending cyc post i' c' r K R H. unfold wr_evict in H.
  destruct (match pending with Some p => negb (cmd_isdone i p) | None => false end).
  - inv H. split; [|split; [exact R|congruence]]. sumcc. rewrite R. exact K.
  - destruct (0 <? cyc).
    + inv H. split; [|split; [exact R|congruence]]. sumcc. rewrite R. exact K.
    + eapply wr_l1_K; [| |exact H]; [exact K|exact R].
Qed.

Lemma wr_fetch_K : forall i c addrs data cyc la dt post i' c' r, K1' i (d ++ (Some post, None) :: t) -> c_rd c = RStart ->
  wr_fetch i id c addrs data cyc la dt post = Ok (i', c', r) -> WrRes i' c' r.
Proof.
  intros i c addrs data cyc la dt post i' c' r K R H. unfold wr_fetch in H. destruct (0 <? cyc).
  - inv H. split; [|split; [exact R|congruence]]. sumcc. rewrite R. exact K.
  - apply bind_ok in H as ([c1 v] & E & H). cbn [fst snd] in H. destruct v as [victim|].
    + destruct (msi_evict_extra i id (lo victim)) as [i1 pe] eqn:EE. inv H. apply msi_evict_extra_spec in EE as [S C].
      split; [|split; [exact R|congruence]]. sumcc. rewrite R. eapply K1'_ss; eauto.
    + eapply wr_l1_K; [| |exact H]; [exact K|exact R].
Qed.

Lemma wr_pend_K : forall mem i c addrs data ps fetch post i' c' r, K1' i (d ++ (Some post, Some ps) :: t) -> c_rd c = RStart ->
  wr_pend mem i id c addrs data ps fetch post = Ok (i', c', r) -> WrRes i' c' r.
Proof.
  intros mem i c addrs data ps fetch post i' c' r K R H. unfold wr_pend in H. destruct (all_done i ps) eqn:AD; cbn [negb] in H.
  - assert (K2 : K1' i (d ++ (Some post, None) :: t)) by (exact (K1'_pend_exit i d post ps t K AD (proj1 K))).
    destruct fetch; [|eapply wr_l1_K; [| |exact H]; [exact K2|exact R]].
    destruct addrs as [|a0 tl]; [discriminate|]. apply bind_ok in H as (a & E1 & H). apply bind_ok in H as (ln & E3 & H).
    eapply wr_fetch_K; [| |exact H]; [exact K2|exact R].
  - inv H. split; [|split; [exact R|congruence]]. sumcc. rewrite R. exact K.
Qed.

Lemma wr_start_K : forall mem i c addrs data i' c' r, K1' i (d ++ (None, None) :: t) -> c_rd c = RStart -> c_wr c = WStart ->
  wr_start mem i id c addrs data = Ok (i', c', r) -> WrRes i' c' r.
Proof.
  intros mem i c addrs data i' c' r K R W H. unfold wr_start in H. apply bind_ok in H as (a & E1 & H).
  apply bind_ok in H as ([i1 lr] & E2 & H). cbn [fst snd] in H.
  assert (X : match lr with
              | LWait => i1 = i
              | LGo fetch ps post => K1' i1 (d ++ (Some post, Some ps) :: t)
              end).
  { unfold msi_lock in E2. destruct (sem_lock i a) as [j ok] eqn:L.
    destruct (msi_invalidate j id a) as [i2 ps] eqn:RR. pose proof (msi_invalidate_cover _ _ _ _ _ RR) as (S & C & CV1 & CV2).
    destruct (_ =? stInvalid).
    - destruct ok; cbn [negb] in E2; inv E2; [|eapply sem_lock_fail; eauto].
      eapply K1'_acquire_w; [exact K|exact L|exact S|exact C|intros b; cbn [post_r post_w]; apply Z.eqb_sym|intros b; reflexivity|split; assumption].
    - destruct (_ =? stModified).
      + destruct ok; cbn [negb] in E2; inv E2; [|eapply sem_lock_fail; eauto].
        eapply K1'_acquire_w; [exact K|exact L|apply same_ss_refl|apply incl_refl|intros b; cbn [post_r post_w]; apply Z.eqb_sym|intros b; reflexivity|exact I].
      + destruct (_ =? stShared); [|discriminate].
        destruct ok; cbn [negb] in E2; inv E2; [|eapply sem_lock_fail; eauto].
        eapply K1'_acquire_w; [exact K|exact L|exact S|exact C|intros b; cbn [post_r post_w]; apply Z.eqb_sym|intros b; reflexivity|split; assumption]. }
  destruct lr.
  - inv H. split; [|split; [exact R|congruence]]. sumcc. rewrite R, W. exact K.
  - eapply wr_pend_K; [| |exact H]; [exact X|exact R].
Qed.

Lemma cc_write_cycle_K : forall mem i c addrs data i' c' r, K1' i (d ++ sum_cc c :: t) -> c_rd c = RStart ->
  cc_write_cycle mem i id c addrs data = Ok (i', c', r) -> WrRes i' c' r.
Proof.
  intros mem i c addrs data i' c' r K R H. unfold cc_write_cycle in H. unfold sum_cc, cur_post, cur_pend in K. rewrite R in K.
  destruct (c_wr c) eqn:E.
  - eapply wr_start_K; eauto.
  - eapply wr_pend_K; eauto.
  - eapply wr_fetch_K; eauto.
  - eapply wr_evict_K; eauto.
  - eapply wr_l1_K; eauto.
Qed.

End CoreK.

(* ---- snoop ---- *)
Lemma snoop_items_K : forall sums items mem i id l1 mem' i' l1' items', snoop_items mem i id l1 items = Ok (mem', i', l1', items') ->
  K1' i sums -> K1' i' sums.
Proof.
  intros sums. induction items as [|it tl IH]; intros mem i id l1 mem' i' l1' items' H K; cbn [snoop_items] in H.
  - inv H. exact K.
  - destruct it as [a|a cyc].
    + apply bind_ok in H as ([c1 r] & E & H). cbn [fst] in H. eapply IH; [exact H|]. apply K1'_cmd_done. exact K.
    + destruct (0 <? cyc).
      * apply bind_ok in H as ([[[m1 i1] l2] t'] & E & H). inv H. eapply IH; eauto.
      * apply bind_ok in H as (g & E0 & H). destruct g as [dd|]; [|discriminate].
        apply bind_ok in H as (m1 & E1 & H). apply bind_ok in H as ([c1 r] & E2 & H). cbn [fst snd] in H.
        destruct r; [|discriminate]. eapply IH; [exact H|]. apply K1'_cmd_done. exact K.
Qed.

Lemma cc_snoop_cycle_K : forall kev, (forall j, kev j = j) -> forall sums mem i id c mem' i' c',
  cc_snoop_cycle kev mem i id c = Ok (mem', i', c') -> K1' i sums ->
  K1' i' sums /\ sum_cc c' = sum_cc c /\ c_rd c' = c_rd c /\ c_wr c' = c_wr c.
Proof.
  intros kev KV sums mem i id c mem' i' c' H K. unfold cc_snoop_cycle in H.
  apply bind_ok in H as ([[[m1 i1] l1] items] & E & H). pose proof (snoop_items_K _ _ _ _ _ _ _ _ _ _ E K) as K1.
  destruct (c_snoop c).
  - apply bind_ok in H as ([i2 l2] & E2 & H). apply co_snoop_i in E2; [|exact KV]. subst i2. inv H. cbn [fst].
    split; [exact K1|]. repeat split.
  - inv H. split; [exact K1|]. repeat split.
Qed.

(* ------------------------------------------------------------------ *)
(* eu.go: the sequence number of a unit is only changed by flush        *)
(* ------------------------------------------------------------------ *)

Lemma eu_write7_seq : forall id w e addrs data w' e' o, eu_write7 id w e addrs data = Ok (w', e', o) -> h_seq e' = h_seq e.
Proof.
  intros id w e addrs data w' e' o H. unfold eu_write7 in H. apply bind_ok in H as ([[i1 c1] done] & _ & H).
  inversion H; reflexivity.
Qed.

Lemma eu_run7_seq : forall hk labels ord cycle id w e w' e' o, eu_run7 hk labels ord cycle id w e = Ok (w', e', o) -> h_seq e' = h_seq e.
Proof.
  intros hk labels ord cycle id w e w' e' o H. unfold eu_run7 in H.
  destruct (h_runner e) as [r|]; [|discriminate].
  destruct (k_rr hk (w_x w) (q_pc r) (q_seq r)) as [rr sid].
  destruct (instr_Run _ _ _ _ _ _) as [exe| |]; try discriminate.
  - destruct (Return exe); [inversion H; reflexivity|].
    destruct (MemoryChange exe); [apply eu_write7_seq in H; exact H|].
    split_hyp H; simpl in *; try discriminate; inversion H; subst; simpl; auto.
  - inversion H; reflexivity.
Qed.

Lemma eu_read7_seq : forall hk labels ord cycle id w e addrs w' e' o,
  eu_read7 hk labels ord cycle id w e addrs = Ok (w', e', o) -> h_seq e' = h_seq e.
Proof.
  intros hk labels ord cycle id w e addrs w' e' o H. unfold eu_read7 in H.
  apply bind_ok in H as ([[i1 c1] resp] & _ & H).
  destruct resp; [apply eu_run7_seq in H; exact H | inversion H; reflexivity].
Qed.

Lemma eu_prepare7_seq : forall hk labels ord cycle id w e w' e' o,
  eu_prepare7 hk labels ord cycle id w e = Ok (w', e', o) -> h_seq e' = h_seq e.
Proof.
  intros hk labels ord cycle id w e w' e' o H. unfold eu_prepare7 in H.
  destruct (negb (bb_canadd _)); [inversion H; reflexivity|].
  destruct (h_runner e) as [r|]; [|discriminate].
  match type of H with context [match ?rcv with Some _ => _ | None => _ end] =>
    destruct rcv as [[x0 r1]|] eqn:ER end; [|inversion H; reflexivity].
  destruct (k_rr hk _ _ _) as [rr sid].
  destruct (instr_MemoryRead _ _ _).
  - apply eu_run7_seq in H. exact H.
  - apply eu_read7_seq in H. exact H.
Qed.

(* ------------------------------------------------------------------ *)
(* eu.go, cpu.go: K1 through a flush-free tick                          *)
(* ------------------------------------------------------------------ *)

Section StepK.
Variable hk : hooks7.
Hypothesis HF : hooks_frame hk.

Definition EO (e : eu7) : Prop := eu_ok e /\ h_seq e = 0.

Section OneCore.
Variables (d t : list summary).
Let id := Z.of_nat (length d).
Notation KK i e := (K1' i (d ++ sum_of e :: t)).

Lemma eu_write7_K : forall w e addrs data w' e' o, KK (w_i w) e -> c_rd (h_cc e) = RStart ->
  eu_write7 id w e addrs data = Ok (w', e', o) -> KK (w_i w') e' /\ eu_ok e'.
Proof.
  intros w e addrs data w' e' o K R H. apply eu_write7_split in H as (i1 & c1 & done & E & -> & E1 & E2).
  rewrite w_i_set_wi. destruct (cc_write_cycle_K d t _ _ _ _ _ _ _ _ K R E) as (K2 & R2 & W2).
  unfold sum_of, eu_ok. rewrite E1, E2. split; [exact K2|]. destruct done; [split; [exact R2|apply W2; reflexivity]|exact R2].
Qed.

Lemma eu_run7_K : forall labels ord cycle w e w' e' o, KK (w_i w) e -> c_rd (h_cc e) = RStart -> c_wr (h_cc e) = WStart ->
  eu_run7 hk labels ord cycle id w e = Ok (w', e', o) -> KK (w_i w') e' /\ eu_ok e'.
Proof.
  intros labels ord cycle w e w' e' o K R W H.
  apply eu_run7_split in H as [([F _] & E1 & E2)|(w0 & addrs & data & [F _] & H)].
  - unfold sum_of, eu_ok. rewrite E1, E2, F. split; [exact K|split; assumption].
  - eapply eu_write7_K; [| |exact H]; [rewrite F; exact K|exact R].
Qed.

Lemma eu_read7_K : forall labels ord cycle w e addrs w' e' o, KK (w_i w) e -> c_wr (h_cc e) = WStart ->
  eu_read7 hk labels ord cycle id w e addrs = Ok (w', e', o) -> KK (w_i w') e' /\ eu_ok e'.
Proof.
  intros labels ord cycle w e addrs w' e' o K W H. apply eu_read7_split in H as (i1 & c1 & resp & E & H).
  destruct (cc_read_cycle_K d t _ _ _ _ _ _ _ K W E) as (K2 & W2 & R2). destruct resp.
  - eapply eu_run7_K; [| | |exact H]; cbn [h_cc]; [rewrite w_i_set_wi; exact K2|apply R2; discriminate|exact W2].
  - destruct H as (-> & E1 & E2). rewrite w_i_set_wi. unfold sum_of, eu_ok. rewrite E1, E2. split; assumption.
Qed.

Lemma eu_prepare7_K : forall labels ord cycle w e w' e' o, KK (w_i w) e -> eu_ok e ->
  c_rd (h_cc e) = RStart -> c_wr (h_cc e) = WStart ->
  eu_prepare7 hk labels ord cycle id w e = Ok (w', e', o) -> KK (w_i w') e' /\ eu_ok e'.
Proof.
  intros labels ord cycle w e w' e' o K O R W H.
  apply eu_prepare7_split in H as [([F _] & E1 & E2)|(w0 & e0 & [F _] & E0 & E0' & [H|[addrs H]])].
  - unfold sum_of, eu_ok in *. rewrite E1, E2, F. split; assumption.
  - eapply eu_run7_K; [| | |exact H].
    + rewrite F. unfold sum_of in *. cbn [set_hco h_cc]. rewrite E0. exact K.
    + cbn [set_hco h_cc]. rewrite E0. exact R.
    + cbn [set_hco h_cc]. rewrite E0. exact W.
  - eapply eu_read7_K; [| |exact H]; [|rewrite E0; exact W]. rewrite F. unfold sum_of in *. rewrite E0. exact K.
Qed.

Lemma eu_cycle7_K : forall labels ord cycle w e w' e' o, KK (w_i w) e -> EO e ->
  eu_cycle7 hk labels ord cycle id w e = Ok (w', e', o) -> KK (w_i w') e' /\ EO e'.
Proof.
  intros labels ord cycle w e w' e' o K [O Q] H.
  assert (PRE : eu_pre7 e = false) by (unfold eu_pre7; rewrite Q; reflexivity).
  unfold eu_cycle7 in H. rewrite PRE in H.
  assert (SQ : h_seq e' = 0).
  { rewrite <- Q. destruct (h_co e).
    - destruct (k_take hk id w) as [w1 [r|]]; [apply eu_prepare7_seq in H; exact H|inv H; reflexivity].
    - eapply eu_prepare7_seq; eauto.
    - eapply eu_read7_seq; eauto.
    - eapply eu_write7_seq; eauto. }
  assert (X : KK (w_i w') e' /\ eu_ok e'); [|destruct X as [X1 X2]; split; [exact X1|split; [exact X2|exact SQ]]].
  unfold eu_ok in O. destruct (h_co e) eqn:HC.
  - destruct O as [R W]. pose proof (hf_take hk HF id w) as [T _]. destruct (k_take hk id w) as [w1 [r|]]; cbn [fst] in T.
    + eapply eu_prepare7_K; [| | | |exact H]; cbn [h_cc]; [rewrite T; exact K|unfold eu_ok; cbn; split; assumption|exact R|exact W].
    + inv H. rewrite T. split; [exact K|]. unfold eu_ok. rewrite HC. split; assumption.
  - destruct O as [R W]. eapply eu_prepare7_K; eauto. unfold eu_ok. rewrite HC. split; assumption.
  - eapply eu_read7_K; eauto.
  - eapply eu_write7_K; eauto.
Qed.

End OneCore.

Lemma sums_snoc : forall (D : list eu7) e T, map sum_of (D ++ e :: T) = map sum_of D ++ sum_of e :: map sum_of T.
Proof. intros. rewrite map_app. reflexivity. Qed.
Lemma id_len : forall (D : list eu7), Z.of_nat (length (map sum_of D)) = Z.of_nat (length D).
Proof. intros. rewrite map_length. reflexivity. Qed.

Lemma eu_cycle7_KD : forall labels ord cycle D T w e w' e' o, K1' (w_i w) (map sum_of (D ++ e :: T)) -> EO e ->
  eu_cycle7 hk labels ord cycle (Z.of_nat (length D)) w e = Ok (w', e', o) ->
  K1' (w_i w') (map sum_of ((D ++ [e']) ++ T)) /\ EO e'.
Proof.
  intros labels ord cycle D T w e w' e' o K O H. rewrite sums_snoc in K. rewrite <- id_len in H.
  destruct (eu_cycle7_K _ _ _ _ _ _ _ _ _ _ K O H) as [K2 O2]. split; [|exact O2].
  rewrite <- app_assoc. cbn [app]. rewrite sums_snoc. exact K2.
Qed.

Lemma snoc_len : forall (D : list eu7) e, Z.of_nat (length (D ++ [e])) = Z.of_nat (length D) + 1.
Proof. intros. rewrite app_length. cbn [length]. lia. Qed.

(* once a flush is raised in the main loop it stays raised *)
Lemma eus_main7_flush_mono : forall labels ord cycle eus id w acc w' eus' o,
  eus_main7 hk labels ord cycle id w eus acc = Ok (w', eus', o) -> y_flush acc = true -> y_flush o = true.
Proof.
  intros labels ord cycle. induction eus as [|e tl IH]; intros id w acc w' eus' o H F; cbn [eus_main7] in H.
  - inv H. exact F.
  - apply bind_ok in H as ([[w1 e1] o1] & E1 & H). destruct (y_err o1); [inv H; exact F|].
    apply bind_ok in H as ([[w2 t'] acc2] & E2 & H). inv H. eapply IH; [exact E2|]. cbn [y_flush]. rewrite F. reflexivity.
Qed.

Lemma eus_main7_K : forall labels ord cycle eus D w acc w' eus' o,
  K1' (w_i w) (map sum_of (D ++ eus)) -> Forall EO eus -> y_flush acc = false -> y_seq acc = 0 ->
  eus_main7 hk labels ord cycle (Z.of_nat (length D)) w eus acc = Ok (w', eus', o) -> y_flush o = false ->
  K1' (w_i w') (map sum_of (D ++ eus')) /\ Forall EO eus'.
Proof.
  intros labels ord cycle. induction eus as [|e tl IH]; intros D w acc w' eus' o K O F Q H FO; cbn [eus_main7] in H.
  - inv H. split; [exact K|constructor].
  - inversion O as [|? ? O1 O2]; subst. apply bind_ok in H as ([[w1 e1] o1] & E1 & H).
    set (e0 := mk_eu7 (h_co e) (h_memory e) (h_runner e) (y_seq acc) (h_cc e)) in *.
    assert (K0 : K1' (w_i w) (map sum_of (D ++ e0 :: tl))) by (rewrite sums_snoc in *; exact K).
    assert (O0 : EO e0) by (split; [exact (proj1 O1)|exact Q]).
    destruct (eu_cycle7_KD _ _ _ _ _ _ _ _ _ _ K0 O0 E1) as [K2 O2'].
    destruct (y_err o1).
    + inv H. split; [rewrite <- app_assoc in K2; exact K2|]. constructor; [exact O2'|exact O2].
    + apply bind_ok in H as ([[w2 t'] acc2] & E2 & H). inv H.
      assert (F1 : y_flush o1 = false).
      { destruct (y_flush o1) eqn:F1; [|reflexivity]. exfalso.
        apply eus_main7_flush_mono in E2; [congruence|]. cbn [y_flush]. apply orb_true_r. }
      rewrite <- (snoc_len D e1) in E2. eapply IH in E2; [|exact K2|exact O2| | |exact FO].
      * destruct E2 as [K3 O3]. rewrite <- app_assoc in K3. split; [exact K3|constructor; assumption].
      * cbn [y_flush]. rewrite F, F1. reflexivity.
      * cbn [y_seq]. rewrite F1. cbn [andb]. exact Q.
Qed.

Lemma eus_drain7_K : forall labels ord cycle eus D w w' eus' o,
  K1' (w_i w) (map sum_of (D ++ eus)) -> Forall EO eus ->
  eus_drain7 hk labels ord cycle (Z.of_nat (length D)) w eus = Ok (w', eus', o) ->
  K1' (w_i w') (map sum_of (D ++ eus')) /\ Forall EO eus'.
Proof.
  intros labels ord cycle. induction eus as [|e tl IH]; intros D w w' eus' o K O H; cbn [eus_drain7] in H.
  - inv H. split; [exact K|constructor].
  - inversion O as [|? ? O1 O2]; subst. destruct (eu_empty7 e).
    + apply bind_ok in H as ([[w2 t'] er] & E2 & H). inv H. rewrite <- (snoc_len D e) in E2.
      eapply IH in E2; [| |exact O2]; [|rewrite <- app_assoc; exact K].
      destruct E2 as [K3 O3]. rewrite <- app_assoc in K3. split; [exact K3|constructor; assumption].
    + apply bind_ok in H as ([[w1 e1] o1] & E1 & H).
      destruct (eu_cycle7_KD _ _ _ _ _ _ _ _ _ _ K O1 E1) as [K2 O2'].
      destruct (y_err o1).
      * inv H. split; [rewrite <- app_assoc in K2; exact K2|]. constructor; [exact O2'|exact O2].
      * apply bind_ok in H as ([[w2 t'] er] & E2 & H). inv H. rewrite <- (snoc_len D e1) in E2.
        eapply IH in E2; [|exact K2|exact O2].
        destruct E2 as [K3 O3]. rewrite <- app_assoc in K3. split; [exact K3|constructor; assumption].
Qed.

Lemma eus_final7_K : forall labels ord cycle eus D w w' eus' o,
  K1' (w_i w) (map sum_of (D ++ eus)) -> Forall EO eus ->
  eus_final7 hk labels ord cycle (Z.of_nat (length D)) w eus = Ok (w', eus', o) ->
  K1' (w_i w') (map sum_of (D ++ eus')) /\ Forall EO eus'.
Proof.
  intros labels ord cycle. induction eus as [|e tl IH]; intros D w w' eus' o K O H; cbn [eus_final7] in H.
  - inv H. split; [exact K|constructor].
  - inversion O as [|? ? O1 O2]; subst. destruct (_ && _).
    + apply bind_ok in H as ([[w2 t'] er] & E2 & H). inv H. rewrite <- (snoc_len D e) in E2.
      eapply IH in E2; [| |exact O2]; [|rewrite <- app_assoc; exact K].
      destruct E2 as [K3 O3]. rewrite <- app_assoc in K3. split; [exact K3|constructor; assumption].
    + apply bind_ok in H as ([[w1 e1] o1] & E1 & H).
      destruct (eu_cycle7_KD _ _ _ _ _ _ _ _ _ _ K O1 E1) as [K2 O2'].
      apply bind_ok in H as ([[w2 t'] er] & E2 & H). inv H. rewrite <- (snoc_len D e1) in E2.
      eapply IH in E2; [|exact K2|exact O2].
      destruct E2 as [K3 O3]. rewrite <- app_assoc in K3. split; [exact K3|constructor; assumption].
Qed.

Lemma snoops7_K : forall sums eus id w w' eus', K1' (w_i w) sums -> Forall EO eus ->
  snoops7 hk id w eus = Ok (w', eus') -> K1' (w_i w') sums /\ map sum_of eus' = map sum_of eus /\ Forall EO eus'.
Proof.
  intros sums. induction eus as [|e tl IH]; intros id w w' eus' K O H; cbn [snoops7] in H.
  - inv H. split; [exact K|split; [reflexivity|constructor]].
  - inversion O as [|? ? O1 O2]; subst. apply bind_ok in H as ([[mem1 i1] c1] & E1 & H).
    apply cc_snoop_cycle_K with (sums := sums) in E1 as (K2 & S2 & R2 & W2); [|apply (hf_evict hk HF)|exact K].
    apply bind_ok in H as ([w2 t'] & E2 & H). inv H. apply IH in E2 as (K3 & S3 & O3); [| |exact O2].
    + cbn [fst snd]. split; [exact K3|]. split.
      * cbn [map]. rewrite S3. unfold sum_of at 1 3. cbn [set_hcc h_cc]. rewrite S2. reflexivity.
      * constructor; [|exact O3]. destruct O1 as [A B]. split; [|exact B].
        unfold eu_ok in *. cbn [set_hcc h_cc h_co]. rewrite R2, W2. exact A.
    + rewrite w_i_set_wmem, w_i_set_wi. exact K2.
Qed.

Definition K1St (s : st7) : Prop := K1' (st_msi s) (map sum_of (v_eus s)) /\ Forall EO (v_eus s).

Lemma ret_check7_K : forall s s', ret_check7 s = UCont s' -> K1St s -> K1St s'.
Proof. intros s s' H S. unfold ret_check7 in H. destruct (_ && _); inv H; exact S. Qed.

Theorem step7_K1 : forall app labels ord s s', step_noflush7 hk app labels ord s ->
  step7 hk app labels ord s = UCont s' -> K1St s -> K1St s'.
Proof.
  intros prog labels ord s s' NF H [K O]. unfold step7 in H. unfold step_noflush7 in NF. unfold st_msi in K.
  destruct (v_mode s) eqn:M; try contradiction.
  - apply res_of7_cont in H as (w1 & E1 & H). pose proof (hf_front hk HF _ _ _ _ _ E1) as [F _].
    apply res_of7_cont in H as ([w2 eus2] & E2 & H).
    apply res_of7_cont in H as ([[w3 eus3] o] & E3 & H).
    pose proof (NF _ _ _ E1 E2 E3) as FO. cbn [snd fst] in FO.
    apply (snoops7_K (map sum_of (v_eus s))) in E2 as (K2 & S2 & O2); [|rewrite F; exact K|exact O].
    assert (K2' : K1' (w_i w2) (map sum_of ([] ++ eus2))) by (cbn [app]; rewrite S2; exact K2).
    cbn [fst snd] in E3.
    destruct (eus_main7_K labels ord (v_cycle s + 1) eus2 [] w2 yo_none w3 eus3 o K2' O2 eq_refl eq_refl E3 FO) as [K3 O3].
    cbn [app] in K3. unfold back7 in H. destruct (y_err o); [discriminate|].
    apply res_of7_cont in H as ([x wus1] & E & H). destruct (y_ret o).
    + eapply ret_check7_K; [exact H|]. split; assumption.
    + rewrite FO in H. destruct (is_empty7 x eus3 wus1); inv H; split; assumption.
  - apply res_of7_cont in H as ([w2 eus2] & E2 & H).
    apply (snoops7_K (map sum_of (v_eus s))) in E2 as (K2 & S2 & O2); [|exact K|exact O].
    apply res_of7_cont in H as ([[w3 eus3] er] & E3 & H).
    assert (K2' : K1' (w_i w2) (map sum_of ([] ++ eus2))) by (cbn [app]; rewrite S2; exact K2).
    destruct (eus_drain7_K _ _ _ _ [] _ _ _ _ K2' O2 E3) as [K3 O3]. cbn [app] in K3.
    destruct er; [discriminate|]. apply res_of7_cont in H as ([x2 wus1] & E4 & H).
    eapply ret_check7_K; [exact H|]. split; assumption.
  - apply res_of7_cont in H as ([w2 eus2] & E2 & H).
    apply (snoops7_K (map sum_of (v_eus s))) in E2 as (K2 & S2 & O2); [|exact K|exact O].
    apply res_of7_cont in H as ([[w3 eus3] sk] & E3 & H).
    assert (K2' : K1' (w_i w2) (map sum_of ([] ++ eus2))) by (cbn [app]; rewrite S2; exact K2).
    destruct (eus_final7_K _ _ _ _ [] _ _ _ _ K2' O2 E3) as [K3 O3]. cbn [app] in K3.
    destruct (_ && _); inv H. split; assumption.
Qed.

Theorem reach7nf_K1 : forall app labels ord s0 s, reach7nf hk app labels ord s0 s -> K1St s0 -> K1St s.
Proof. intros app labels ord s0 s R S0. induction R; [exact S0|]. eapply step7_K1; eauto. Qed.

End StepK.

Lemma init7_K1 : forall par ord app st s, init7 par ord app st = Ok s -> K1St s.
Proof.
  intros par ord app st s H. unfold init7 in H. destruct (init3 par ord app st); try discriminate.
  destruct (new_cache l1LineSize l1Size) as [l1d| |] eqn:EC; try discriminate. inv H. unfold K1St, st_msi. cbn [v_eus v_w w_i].
  split.
  - split; [exact SI_new|]. split; [intros id id' a M; cbv in M; discriminate|]. split.
    + intros a.
      split.
      * rewrite (cnt_zero (sr a)); [reflexivity|]. intros y Hy. apply in_map_iff in Hy as (e & <- & He). apply repeat_spec in He. subst e. reflexivity.
      * rewrite (cnt_zero (sw a)); [reflexivity|]. intros y Hy. apply in_map_iff in Hy as (e & <- & He). apply repeat_spec in He. subst e. reflexivity.
    + intros n s H. apply nth_error_In in H. apply in_map_iff in H as (e & <- & He). apply repeat_spec in He. subst e. exact I.
  - apply Forall_forall. intros e He. apply repeat_spec in He. subst e. split; [split; reflexivity|reflexivity].
Qed.

(* from K1 to clause 1 and the counters *)
Lemma cnt_map {A B} (f : B -> bool) (g : A -> B) l : cnt f (map g l) = cnt (fun x => f (g x)) l.
Proof. induction l as [|x t IH]; [reflexivity|]. cbn [map]. rewrite !cnt_cons, IH. reflexivity. Qed.

Lemma K1St_clauses : forall s, K1St s -> clause1_70 (st_msi s) /\ sem_count70 (st_msi s) (v_eus s) /\ clause5_70 (st_msi s).
Proof.
  intros s [([A _] & B & D & _) _]. split; [exact B|]. split; [|exact A].
  intros a. destruct (D a) as [D1 D2]. rewrite !cnt_map in *. split; [exact D1|exact D2].
Qed.

Theorem mvp70_swmr_partial : forall par ord app labels st s0 s, init7 par ord app st = Ok s0 ->
  reach7nf hooks70 app labels ord s0 s ->
  clause1_70 (st_msi s) /\ sem_count70 (st_msi s) (v_eus s) /\ clause5_70 (st_msi s).
Proof.
  intros par ord app labels st s0 s I R. apply K1St_clauses.
  eapply reach7nf_K1; [exact hooks70_frame|exact R|]. eapply init7_K1; eauto.
Qed.

(* a flush-free run never panics in Sem.RUnlock / Sem.Unlock ... is a consequence of sem_count70 not stated here *)
Lemma reach7nf_reach7 : forall hk app labels ord s0 s, reach7nf hk app labels ord s0 s -> reach7 hk app labels ord s0 s.
Proof. intros hk app labels ord s0 s R. induction R; [constructor|]. eapply r7a_step; eauto. Qed.
