(* C06 - cacheController.flush AS CODED (Protocol.v: flush_coded / cstep)
   leaves the invariant: three kernel-checked witness traces.  Each trace is
   also a rig script (tools/harness/msi.go, command msi-rig) on which the
   implementation shows the same violation - see known_findings.json. *)
From Coq Require Import List ZArith Lia Bool Arith.
From Maj Require Import Msi.Protocol Msi.Invariant.
Import ListNotations.
Open Scope Z_scope.

Definition m0 : line -> val := fun l => l.   (* any initial memory *)

Inductive ctrace (N : nat) : cst -> list label -> cst -> Prop :=
| ct_nil s : ctrace N s [] s
| ct_cons s lab s1 t s2 : cstep N s lab s1 -> ctrace N s1 t s2 -> ctrace N s (lab :: t) s2.

Lemma ctrace_reach N s t s' : creach N s -> ctrace N s t s' -> creach N s'.
Proof. intros R T. induction T; auto. apply IHT. eapply creach_step; eauto. Qed.

Ltac side :=
  simpl; try reflexivity; try lia; try exact Logic.I;
  try (unfold lock_guard; discriminate);
  try (intros ? ? ?; simpl; first [discriminate | reflexivity]); auto.
Ltac cb := eapply ct_cons; [apply c_base; econstructor; side|simpl].
Ltac cf := eapply ct_cons; [apply c_flush; lia|simpl].

(* (a) flush between fill and settle: the line stays in L1, the state stays Invalid
       rig script (2 cores): q 0 0 R 64 4;f 311 0 *)
Definition trace_a := [L_rlock_I 0 64; L_fetch_rd 0 64; L_fill_rd 0 64 None; L_flush 0].

Theorem flush_after_fill_breaks_3_refuted :
  exists s, ctrace 2 (cinit m0) trace_a s /\ creach 2 s /\ ~ clause3 (obs_of_st 2 (base s)).
Proof.
  eexists. split; [|split].
  - unfold trace_a. cb. cb. cb. cf. apply ct_nil.
  - apply (ctrace_reach 2 (cinit m0) trace_a); [apply creach_init|].
    unfold trace_a. cb. cb. cb. cf. apply ct_nil.
  - intros C3. destruct (C3 0%nat 64 ltac:(simpl; lia)) as [_ X]. simpl in X.
    apply X; [|discriminate|reflexivity].
    intros [vic [E|E]]; discriminate.
Qed.

(* (b) a flushed write stays in lockSems (the loop deletes from rlockSems): the
       next flush of the core unlocks the line's semaphore a second time
       rig script: q 0 0 W 64 5;f 100 0;f 102 0   (Go: panic "write is negative") *)
Definition trace_b := [L_lock_I 0 64; L_flush 0; L_flush 0].

Theorem flush_twice_breaks_5_refuted :
  exists s, ctrace 2 (cinit m0) trace_b s /\ creach 2 s /\ wc (base s) 64 = -1 /\ ~ clause5 (obs_of_st 2 (base s)).
Proof.
  eexists. split; [|split; [|split]].
  - unfold trace_b. cb. cf. cf. apply ct_nil.
  - apply (ctrace_reach 2 (cinit m0) trace_b); [apply creach_init|].
    unfold trace_b. cb. cf. cf. apply ct_nil.
  - vm_compute. reflexivity.
  - intros C5. destruct (C5 64) as [_ [X _]]. vm_compute in X. apply X. reflexivity.
Qed.

(* (c) a read of a Modified line takes the WRITE lock (rLock case modified) but is
       recorded in rlockSems: flushing it calls RUnlock on a semaphore that has
       no reader and leaves the write counter held for ever
       rig script: q 0 0 W 64 5;q 0 0 R 64 2;f 315 0   (Go: panic "read is negative") *)
Definition trace_c := [L_lock_I 0 64; L_fetch_wr 0 64; L_fill_wr 0 64 None; L_settle_wr 0 64 5;
                       L_rlock_M 0 64; L_flush 0].

Theorem flush_own_read_breaks_5_refuted :
  exists s, ctrace 2 (cinit m0) trace_c s /\ creach 2 s /\
            rc (base s) 64 = -1 /\ wc (base s) 64 = 1 /\ ph (base s) 0%nat = Idle /\
            ~ clause5 (obs_of_st 2 (base s)).
Proof.
  eexists. split; [|split; [|split; [|split; [|split]]]].
  - unfold trace_c. cb. cb. cb. cb. cb. cf. apply ct_nil.
  - apply (ctrace_reach 2 (cinit m0) trace_c); [apply creach_init|].
    unfold trace_c. cb. cb. cb. cb. cb. cf. apply ct_nil.
  - vm_compute. reflexivity.
  - vm_compute. reflexivity.
  - vm_compute. reflexivity.
  - intros C5. destruct (C5 64) as [X _]. vm_compute in X. apply X. reflexivity.
Qed.
