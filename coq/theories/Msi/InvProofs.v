(* C06 - Inv (Msi/Invariant.v) is an inductive invariant of the machine of
   Msi/Protocol.v: it holds initially and every transition preserves it, given
   that a lock transition finds no outstanding command for (requester, line).
   With guarded = true that is a premise of the transition (and flush may be
   the repaired one); for the code as it is (guarded = false, no flush) it is
   derived in Msi/CodedProofs.v. *)
From Coq Require Import List ZArith Lia Bool Arith.
From Maj Require Import Msi.Protocol Msi.Invariant.
Import ListNotations.
Open Scope Z_scope.

(* ---- pointwise updates ---- *)
Lemma upd_same {A} (f : nat -> A) i x : upd f i x i = x.
Proof. unfold upd. now rewrite Nat.eqb_refl. Qed.
Lemma upd_other {A} (f : nat -> A) i x j : j <> i -> upd f i x j = f j.
Proof. unfold upd. intros. destruct (Nat.eqb_spec j i); congruence. Qed.
Lemma updl_same {A} (f : line -> A) l x : updl f l x l = x.
Proof. unfold updl. now rewrite Z.eqb_refl. Qed.
Lemma updl_other {A} (f : line -> A) l x k : k <> l -> updl f l x k = f k.
Proof. unfold updl. intros. destruct (Z.eqb_spec k l); congruence. Qed.
Lemma upd2_same {A} (f : nat -> line -> A) i l x : upd2 f i l x i l = x.
Proof. unfold upd2. now rewrite Nat.eqb_refl, Z.eqb_refl. Qed.
Lemma upd2_other_core {A} (f : nat -> line -> A) i l x j k : j <> i -> upd2 f i l x j k = f j k.
Proof. unfold upd2. intros. destruct (Nat.eqb_spec j i); [congruence|reflexivity]. Qed.
Lemma upd2_other_line {A} (f : nat -> line -> A) i l x j k : k <> l -> upd2 f i l x j k = f j k.
Proof. unfold upd2. intros. destruct (Z.eqb_spec k l); [congruence|]. now rewrite andb_false_r. Qed.
Lemma upd2_line {A} (f : nat -> line -> A) i l x j : upd2 f i l x j l = upd (fun j => f j l) i x j.
Proof. unfold upd2, upd. rewrite Z.eqb_refl, andb_true_r. reflexivity. Qed.

(* ---- phases and lines ---- *)
Lemma on_line_iff p l : on_line p l = true <-> tx_line p = Some l.
Proof.
  unfold on_line. destruct (tx_line p) as [k|]; split; intros H; try discriminate.
  - apply Z.eqb_eq in H. now subst.
  - inversion H. apply Z.eqb_refl.
Qed.
Lemma on_line_false p l k : tx_line p = Some k -> k <> l -> on_line p l = false.
Proof. unfold on_line. intros -> H. now apply Z.eqb_neq. Qed.
Lemma on_line_idle l : on_line Idle l = false.
Proof. reflexivity. Qed.
Lemma rd_on_line p l : rd_on p l = true -> on_line p l = true.
Proof. unfold rd_on. intros H. now apply andb_true_iff in H. Qed.
Lemma wr_on_line p l : wr_on p l = true -> on_line p l = true.
Proof. unfold wr_on. intros H. now apply andb_true_iff in H. Qed.
Lemma on_line_rd_or_wr p l : on_line p l = true -> rd_on p l = true \/ wr_on p l = true.
Proof. unfold rd_on, wr_on. intros H. rewrite H. destruct p; simpl; auto. Qed.
Lemma rd_wr_excl p l : rd_on p l = true -> wr_on p l = true -> False.
Proof. unfold rd_on, wr_on. destruct p; simpl; intros; discriminate. Qed.
Lemma off_line_rd p l : on_line p l = false -> rd_on p l = false.
Proof. unfold rd_on. intros ->. apply andb_false_r. Qed.
Lemma off_line_wr p l : on_line p l = false -> wr_on p l = false.
Proof. unfold wr_on. intros ->. apply andb_false_r. Qed.

Section Proofs.
Variable N : nat.
Notation count := (count N).
Notation InvL := (InvL N).
Notation Inv := (Inv N).
Notation others_I := (others_I N).
Notation others_not_M := (others_not_M N).

(* ---- counting ---- *)
Lemma count_ext f g : (forall i, (i < N)%nat -> f i = g i) -> count f = count g.
Proof.
  intros H. unfold Invariant.count. do 2 f_equal. apply filter_ext_in.
  intros a Ha. apply in_seq in Ha. apply H. lia.
Qed.

Lemma filter_same (f g : nat -> bool) i l : ~ In i l -> (forall j, j <> i -> g j = f j) ->
  filter g l = filter f l.
Proof. intros Hn Hg. apply filter_ext_in. intros a Ha. apply Hg. intro; subst; auto. Qed.

Lemma filter_upd_len (f g : nat -> bool) i l : NoDup l -> In i l ->
  (forall j, j <> i -> g j = f j) ->
  (length (filter g l) + Nat.b2n (f i) = length (filter f l) + Nat.b2n (g i))%nat.
Proof.
  intros Hnd Hin Hg. induction l as [|a l IH]; [destruct Hin|].
  inversion Hnd as [|? ? Hna Hnd']; subst. simpl.
  destruct (Nat.eq_dec a i) as [->|Hne].
  - rewrite (filter_same f g i l Hna Hg).
    destruct (f i), (g i); simpl; lia.
  - destruct Hin as [Heq|Hin]; [congruence|].
    specialize (IH Hnd' Hin). rewrite (Hg a Hne).
    destruct (f a); simpl; lia.
Qed.

Lemma count_upd_gen (f g : nat -> bool) i : (i < N)%nat ->
  (forall j, j <> i -> g j = f j) ->
  count g + b2z (f i) = count f + b2z (g i).
Proof.
  intros Hi Hg. unfold Invariant.count.
  pose proof (filter_upd_len f g i (seq 0 N) (seq_NoDup N 0)) as H.
  assert (Hin : In i (seq 0 N)) by (apply in_seq; lia).
  specialize (H Hin Hg). destruct (f i), (g i); simpl in *; lia.
Qed.

Lemma count_pos f i : (i < N)%nat -> f i = true -> 1 <= count f.
Proof.
  intros Hi Hf. unfold Invariant.count.
  assert (In i (filter f (seq 0 N))). { apply filter_In. split; auto. apply in_seq. lia. }
  destruct (filter f (seq 0 N)); simpl in *; [tauto | lia].
Qed.

Lemma count_nonneg f : 0 <= count f.
Proof. unfold Invariant.count. lia. Qed.

Lemma count_false f : (forall i, (i < N)%nat -> f i = false) -> count f = 0.
Proof.
  intros H. rewrite (count_ext f (fun _ => false) H). unfold Invariant.count.
  induction (seq 0 N); simpl; auto.
Qed.

(* ---- consequences of the invariant on one line ---- *)
Section Line.
Variables (s : st) (l : line).
Hypothesis I0 : InvL s l.

Lemma rc_nonneg : 0 <= rc s l.
Proof. rewrite (sem_r _ _ _ I0). apply count_nonneg. Qed.
Lemma wc_nonneg : 0 <= wc s l.
Proof. rewrite (sem_w _ _ _ I0). apply count_nonneg. Qed.

Lemma no_writer j : wc s l = 0 -> (j < N)%nat -> wr_on (ph s j) l = false.
Proof.
  intros Hw Hj. destruct (wr_on (ph s j) l) eqn:E; auto.
  pose proof (count_pos (fun i => wr_on (ph s i) l) j Hj E) as H.
  rewrite (sem_w _ _ _ I0) in Hw. lia.
Qed.

Lemma no_reader j : rc s l = 0 -> (j < N)%nat -> rd_on (ph s j) l = false.
Proof.
  intros Hr Hj. destruct (rd_on (ph s j) l) eqn:E; auto.
  pose proof (count_pos (fun i => rd_on (ph s i) l) j Hj E) as H.
  rewrite (sem_r _ _ _ I0) in Hr. lia.
Qed.

Lemma writer_excl i : (i < N)%nat -> wr_on (ph s i) l = true -> wc s l = 1 /\ rc s l = 0.
Proof.
  intros Hi E. pose proof (count_pos (fun k => wr_on (ph s k) l) i Hi E) as H.
  destruct (sem_x _ _ _ I0) as [Hle Hx].
  assert (Hw : wc s l = 1) by (rewrite (sem_w _ _ _ I0) in *; lia).
  split; auto.
Qed.

Lemma reader_pos i : (i < N)%nat -> rd_on (ph s i) l = true -> 1 <= rc s l.
Proof. intros Hi E. rewrite (sem_r _ _ _ I0). apply (count_pos _ i Hi E). Qed.

Lemma reader_writer i k : (i < N)%nat -> (k < N)%nat ->
  rd_on (ph s i) l = true -> wr_on (ph s k) l = true -> False.
Proof.
  intros Hi Hk Ei Ek. pose proof (reader_pos i Hi Ei). destruct (writer_excl k Hk Ek). lia.
Qed.

Lemma two_writers i k : (i < N)%nat -> (k < N)%nat -> i <> k ->
  wr_on (ph s i) l = true -> wr_on (ph s k) l = true -> False.
Proof.
  intros Hi Hk Hne Ei Ek.
  pose proof (count_upd_gen (fun j => wr_on (ph s j) l)
                (fun j => if Nat.eqb j i then false else wr_on (ph s j) l) i Hi) as Hc.
  simpl in Hc. rewrite Nat.eqb_refl, Ei in Hc. simpl in Hc.
  assert (1 <= count (fun j => if Nat.eqb j i then false else wr_on (ph s j) l)).
  { apply (count_pos _ k Hk). destruct (Nat.eqb_spec k i); [congruence|exact Ek]. }
  destruct (sem_x _ _ _ I0) as [Hle _]. rewrite (sem_w _ _ _ I0) in Hle.
  specialize (Hc ltac:(intros j Hj; destruct (Nat.eqb_spec j i); [congruence|reflexivity])). lia.
Qed.

(* a core that is on the line is a reader or a writer of its semaphore *)
Lemma only_writer i j : (i < N)%nat -> (j < N)%nat -> j <> i ->
  wr_on (ph s i) l = true -> on_line (ph s j) l = false.
Proof.
  intros Hi Hj Hne Ei. destruct (on_line (ph s j) l) eqn:E; auto. exfalso.
  destruct (on_line_rd_or_wr _ _ E) as [Er|Ew].
  - exact (reader_writer j i Hj Hi Er Ei).
  - exact (two_writers i j Hi Hj ltac:(congruence) Ei Ew).
Qed.

Lemma view_on i : (i < N)%nat -> on_line (ph s i) l = true ->
  cm s i l = NoCmd /\ phase_view (ph s i) (ms s i l) (l1 s i l).
Proof. intros Hi E. pose proof (phases _ _ _ I0 i Hi) as P. unfold own_ok in P. now rewrite E in P. Qed.

Lemma view_off i : (i < N)%nat -> on_line (ph s i) l = false ->
  (l1 s i l <> None <-> ms s i l <> I).
Proof. intros Hi E. pose proof (phases _ _ _ I0 i Hi) as P. unfold own_ok in P. now rewrite E in P. Qed.

Lemma M_on_is_writer j : (j < N)%nat -> ms s j l = M -> on_line (ph s j) l = true -> wr_on (ph s j) l = true.
Proof.
  intros Hj Hm E. destruct (view_on j Hj E) as [_ V]. unfold wr_on. rewrite E, andb_true_r.
  destruct (ph s j); simpl in *; auto; destruct V; congruence.
Qed.

Lemma M_idle j : wc s l = 0 -> (j < N)%nat -> ms s j l = M -> on_line (ph s j) l = false.
Proof.
  intros Hw Hj Hm. destruct (on_line (ph s j) l) eqn:E; auto.
  pose proof (M_on_is_writer j Hj Hm E). pose proof (no_writer j Hw Hj). congruence.
Qed.

Lemma nonI_idle j : wc s l = 0 -> rc s l = 0 -> (j < N)%nat -> on_line (ph s j) l = false.
Proof.
  intros Hw Hr Hj. destruct (on_line (ph s j) l) eqn:E; auto.
  destruct (on_line_rd_or_wr _ _ E) as [X|X].
  - pose proof (no_reader j Hr Hj). congruence.
  - pose proof (no_writer j Hw Hj). congruence.
Qed.

Lemma cmd_off j : (j < N)%nat -> cm s j l <> NoCmd -> on_line (ph s j) l = false.
Proof.
  intros Hj Hc. destruct (on_line (ph s j) l) eqn:E; auto.
  destruct (view_on j Hj E). congruence.
Qed.

Lemma cmd_nonI j : (j < N)%nat -> cm s j l <> NoCmd -> ms s j l <> I.
Proof.
  intros Hj Hc. pose proof (cmd_kind _ _ _ I0 j Hj) as K. unfold cmd_matches in K.
  destruct (cm s j l); congruence.
Qed.

Lemma cmd_present j : (j < N)%nat -> cm s j l <> NoCmd -> l1 s j l <> None.
Proof. intros Hj Hc. apply (view_off j Hj (cmd_off j Hj Hc)). now apply cmd_nonI. Qed.

Lemma swmr_others_notM i : (i < N)%nat -> ms s i l <> I -> others_not_M s i l.
Proof. intros Hi Hn j Hj Hne Hm. apply Hn. apply (swmr _ _ _ I0 j i); auto. Qed.

Lemma swmr_others_I i : (i < N)%nat -> ms s i l = M -> others_I s i l.
Proof. intros Hi Hm j Hj Hne. apply (swmr _ _ _ I0 i j); auto. Qed.

End Line.

(* ---- a state that agrees with an invariant state on everything about line l ---- *)
Definition pview (p : phase) (l : line) : option phase := if on_line p l then Some p else None.

Lemma pview_eq_on p q l : pview p l = pview q l -> on_line p l = on_line q l.
Proof. unfold pview. destruct (on_line p l), (on_line q l); congruence. Qed.
Lemma pview_eq_phase p q l : pview p l = pview q l -> on_line p l = true -> p = q.
Proof. unfold pview. intros H E. rewrite E in H. destruct (on_line q l); congruence. Qed.
Lemma pview_rd p q l : pview p l = pview q l -> rd_on p l = rd_on q l.
Proof.
  intros H. pose proof (pview_eq_on _ _ _ H) as E. destruct (on_line p l) eqn:Ep.
  - now rewrite (pview_eq_phase _ _ _ H Ep).
  - rewrite (off_line_rd _ _ Ep). symmetry. apply off_line_rd. congruence.
Qed.
Lemma pview_wr p q l : pview p l = pview q l -> wr_on p l = wr_on q l.
Proof.
  intros H. pose proof (pview_eq_on _ _ _ H) as E. destruct (on_line p l) eqn:Ep.
  - now rewrite (pview_eq_phase _ _ _ H Ep).
  - rewrite (off_line_wr _ _ Ep). symmetry. apply off_line_wr. congruence.
Qed.
Lemma pview_is p q l : pview p l = pview q l -> tx_line p = Some l -> p = q.
Proof. intros H E. apply (pview_eq_phase _ _ _ H). now apply on_line_iff. Qed.

Lemma pview_upd_off (f : nat -> phase) i p' l j :
  on_line (f i) l = false -> on_line p' l = false -> pview (upd f i p' j) l = pview (f j) l.
Proof.
  intros A B. unfold upd. destruct (Nat.eqb_spec j i); subst; auto.
  unfold pview. now rewrite A, B.
Qed.

Lemma own_ok_pview p q l m b c : pview p l = pview q l -> own_ok q l m b c -> own_ok p l m b c.
Proof.
  intros H. unfold own_ok. pose proof (pview_eq_on _ _ _ H) as E. rewrite E.
  destruct (on_line q l) eqn:Eq; auto.
  assert (p = q) by (apply (pview_eq_phase _ _ _ H); congruence). now subst.
Qed.

Lemma invL_frame_cmds s s' l :
  (forall j, (j < N)%nat -> ms s' j l = ms s j l) ->
  (forall j, (j < N)%nat -> l1 s' j l = l1 s j l) ->
  (forall j, (j < N)%nat -> cm s' j l = cm s j l \/
     (on_line (ph s j) l = false /\ cmd_matches (cm s' j l) (ms s j l))) ->
  (forall j, (j < N)%nat -> pview (ph s' j) l = pview (ph s j) l) ->
  mem s' l = mem s l -> rc s' l = rc s l -> wc s' l = wc s l ->
  InvL s l -> InvL s' l.
Proof.
  intros Hm Hl Hc Hp Hmem Hr Hw [A B C D E F G H1 H2 H3 H4].
  assert (Hph : forall j q, (j < N)%nat -> ph s' j = q -> tx_line q = Some l -> ph s j = q).
  { intros j q Hj Hq Hq'. rewrite <- Hq. symmetry. apply (pview_is _ _ l (Hp j Hj)). now rewrite Hq. }
  assert (HnM : forall i, others_not_M s i l -> others_not_M s' i l).
  { intros i X j Hj Hne. rewrite Hm by auto. now apply X. }
  assert (HoI : forall i, others_I s i l -> others_I s' i l).
  { intros i X j Hj Hne. rewrite Hm by auto. now apply X. }
  constructor.
  - intros i j Hi Hj. rewrite !Hm by auto. now apply A.
  - intros i Hi. rewrite Hm, Hl, Hmem by auto. now apply B.
  - intros i Hi. rewrite Hm, Hl by auto. apply (own_ok_pview _ _ _ _ _ _ (Hp i Hi)).
    specialize (C i Hi). destruct (Hc i Hi) as [->|[Eo _]]; auto.
    unfold own_ok in *. now rewrite Eo in *.
  - rewrite Hr, D. apply count_ext. intros i Hi. symmetry. now apply pview_rd, Hp.
  - rewrite Hw, E. apply count_ext. intros i Hi. symmetry. now apply pview_wr, Hp.
  - now rewrite Hr, Hw.
  - intros j Hj. rewrite Hm by auto. destruct (Hc j Hj) as [->|[_ K]]; auto.
  - intros i v Hi Hq. apply (Hph i _ Hi) in Hq; [|reflexivity].
    destruct (H1 i v Hi Hq). rewrite Hmem. auto.
  - intros i vic Hi Hq. apply (Hph i _ Hi) in Hq; [|reflexivity].
    destruct (H2 i vic Hi Hq). rewrite Hl, Hmem by auto. auto.
  - intros i v Hi Hq. apply (Hph i _ Hi) in Hq; [|reflexivity]. eauto.
  - intros i vic Hi Hq. apply (Hph i _ Hi) in Hq; [|reflexivity]. eauto.
Qed.

Lemma invL_frame s s' l :
  (forall j, (j < N)%nat -> ms s' j l = ms s j l) ->
  (forall j, (j < N)%nat -> l1 s' j l = l1 s j l) ->
  (forall j, (j < N)%nat -> cm s' j l = cm s j l) ->
  (forall j, (j < N)%nat -> pview (ph s' j) l = pview (ph s j) l) ->
  mem s' l = mem s l -> rc s' l = rc s l -> wc s' l = wc s l ->
  InvL s l -> InvL s' l.
Proof. intros Hm Hl Hc. apply invL_frame_cmds; auto. Qed.

(* ---- class A: core i moves between phases on line l (or Idle), possibly
        changing its own state / L1 entry for l and the counters of l ---- *)
Lemma invL_local s s' i l p' m' b' :
  InvL s l -> (i < N)%nat ->
  (forall j, ms s' j l = upd (fun j => ms s j l) i m' j) ->
  (forall j, l1 s' j l = upd (fun j => l1 s j l) i b' j) ->
  (forall j, ph s' j = upd (ph s) i p' j) ->
  (forall j, cm s' j l = cm s j l) ->
  mem s' l = mem s l ->
  rc s' l + b2z (rd_on (ph s i) l) = rc s l + b2z (rd_on p' l) ->
  wc s' l + b2z (wr_on (ph s i) l) = wc s l + b2z (wr_on p' l) ->
  (wc s' l <= 1 /\ (wc s' l = 1 -> rc s' l = 0)) ->
  own_ok p' l m' b' (cm s i l) ->
  (m' = M -> others_I s i l) ->
  (m' <> I -> others_not_M s i l) ->
  (m' = S -> b' = Some (mem s l)) ->
  cmd_matches (cm s i l) m' ->
  (forall v, p' = RdFetched l v -> v = mem s l /\ others_not_M s i l) ->
  (forall vic, p' = RdFilled l vic -> b' = Some (mem s l) /\ others_not_M s i l) ->
  (forall v, p' = WrFetched l v -> others_I s i l) ->
  (forall vic, p' = WrFilled l vic -> others_I s i l) ->
  (m' = ms s i l \/
   forall k, (k < N)%nat -> k <> i -> (m' = M -> rd_on (ph s k) l = false) /\ wr_on (ph s k) l = false) ->
  InvL s' l.
Proof.
  intros I0 Hi Hms Hl1 Hph Hcm Hmem Hr Hw Hx Hown HM HnI HS Hcmd Hfr Hfl Hwr Hwl Hoth.
  pose proof I0 as [A B C D E F G H1 H2 H3 H4].
  (* what the other cores' fetched/filled phases need from the new state of i *)
  assert (HnotM : forall k, (k < N)%nat -> k <> i -> rd_on (ph s k) l = true -> others_not_M s k l -> m' <> M).
  { intros k Hk Hne Erd X. destruct Hoth as [->|Ho]; [apply X; auto|].
    intro Em. destruct (Ho k Hk Hne) as [Y _]. rewrite (Y Em) in Erd. discriminate. }
  assert (HisI : forall k, (k < N)%nat -> k <> i -> wr_on (ph s k) l = true -> others_I s k l -> m' = I).
  { intros k Hk Hne Ewr X. destruct Hoth as [->|Ho]; [apply X; auto|].
    destruct (Ho k Hk Hne) as [_ Y]. rewrite Y in Ewr. discriminate. }
  assert (HnM' : forall k, k <> i -> (m' <> M) -> others_not_M s k l -> others_not_M s' k l).
  { intros k Hne Hm X j Hj Hjk. rewrite Hms. unfold upd. destruct (Nat.eqb_spec j i); auto. }
  assert (HoI' : forall k, k <> i -> (m' = I) -> others_I s k l -> others_I s' k l).
  { intros k Hne Hm X j Hj Hjk. rewrite Hms. unfold upd. destruct (Nat.eqb_spec j i); auto. }
  assert (HnMi : others_not_M s i l -> others_not_M s' i l).
  { intros X j Hj Hne. rewrite Hms, upd_other by auto. now apply X. }
  assert (HoIi : others_I s i l -> others_I s' i l).
  { intros X j Hj Hne. rewrite Hms, upd_other by auto. now apply X. }
  constructor.
  - intros a b Ha Hb. rewrite !Hms. unfold upd.
    destruct (Nat.eqb_spec a i) as [->|Hai]; destruct (Nat.eqb_spec b i) as [->|Hbi]; intros Hma Hne;
      try congruence.
    + apply HM; auto.
    + destruct m' eqn:Em; auto; exfalso; apply (HnI ltac:(discriminate) a Ha Hai Hma).
    + apply A with a; auto.
  - intros a Ha. rewrite Hms, Hl1, Hmem. unfold upd. destruct (Nat.eqb_spec a i) as [->|Hai]; auto.
  - intros a Ha. rewrite Hms, Hl1, Hph, Hcm. unfold upd. destruct (Nat.eqb_spec a i) as [->|Hai]; auto.
  - pose proof (count_upd_gen (fun j => rd_on (ph s j) l) (fun j => rd_on (ph s' j) l) i Hi) as Hc.
    simpl in Hc. rewrite Hph, upd_same in Hc.
    specialize (Hc ltac:(intros j Hj; rewrite Hph, upd_other by auto; reflexivity)). lia.
  - pose proof (count_upd_gen (fun j => wr_on (ph s j) l) (fun j => wr_on (ph s' j) l) i Hi) as Hc.
    simpl in Hc. rewrite Hph, upd_same in Hc.
    specialize (Hc ltac:(intros j Hj; rewrite Hph, upd_other by auto; reflexivity)). lia.
  - exact Hx.
  - intros j Hj. rewrite Hcm, Hms. unfold upd. destruct (Nat.eqb_spec j i) as [->|Hne]; auto.
  - intros a v Ha. rewrite Hph. unfold upd. destruct (Nat.eqb_spec a i) as [->|Hai]; intros Hq.
    + destruct (Hfr v Hq). rewrite Hmem. auto.
    + destruct (H1 a v Ha Hq) as [X Y]. rewrite Hmem. split; auto.
      apply HnM'; auto. apply (HnotM a); auto. unfold rd_on, on_line. rewrite Hq. simpl. now rewrite Z.eqb_refl.
  - intros a vic Ha. rewrite Hph, Hl1, Hmem. unfold upd. destruct (Nat.eqb_spec a i) as [->|Hai]; intros Hq.
    + destruct (Hfl vic Hq). auto.
    + destruct (H2 a vic Ha Hq) as [X Y]. split; auto.
      apply HnM'; auto. apply (HnotM a); auto. unfold rd_on, on_line. rewrite Hq. simpl. now rewrite Z.eqb_refl.
  - intros a v Ha. rewrite Hph. unfold upd. destruct (Nat.eqb_spec a i) as [->|Hai]; intros Hq.
    + eauto.
    + pose proof (H3 a v Ha Hq) as X. apply HoI'; auto.
      apply (HisI a); auto. unfold wr_on, on_line. rewrite Hq. simpl. now rewrite Z.eqb_refl.
  - intros a vic Ha. rewrite Hph. unfold upd. destruct (Nat.eqb_spec a i) as [->|Hai]; intros Hq.
    + eauto.
    + pose proof (H4 a vic Ha Hq) as X. apply HoI'; auto.
      apply (HisI a); auto. unfold wr_on, on_line. rewrite Hq. simpl. now rewrite Z.eqb_refl.
Qed.

(* ---- a snoop command of core j for line l completes ---- *)
Lemma invL_cmd_done s s' j l :
  InvL s l -> (j < N)%nat -> cm s j l <> NoCmd ->
  (forall k, ms s' k l = upd (fun k => ms s k l) j I k) ->
  (forall k, l1 s' k l = upd (fun k => l1 s k l) j None k) ->
  (forall k, cm s' k l = upd (fun k => cm s k l) j NoCmd k) ->
  (forall k, ph s' k = ph s k) -> rc s' l = rc s l -> wc s' l = wc s l ->
  (mem s' l = mem s l \/ (ms s j l = M)) ->
  InvL s' l.
Proof.
  intros I0 Hj Hc Hm Hl Hcm Hp Hr Hw Hmem.
  pose proof I0 as [A B C D E F G H1 H2 H3 H4].
  pose proof (cmd_off s l I0 j Hj Hc) as Hoff.
  assert (HnM : forall i, others_not_M s i l -> others_not_M s' i l).
  { intros i X k Hk Hne. rewrite Hm. unfold upd. destruct (Nat.eqb_spec k j); [discriminate|now apply X]. }
  assert (HoI : forall i, others_I s i l -> others_I s' i l).
  { intros i X k Hk Hne. rewrite Hm. unfold upd. destruct (Nat.eqb_spec k j); [reflexivity|now apply X]. }
  (* when memory changes, j was Modified: nobody else holds or fetches the line *)
  assert (Hmem' : forall i, (i < N)%nat -> i <> j -> others_not_M s i l -> mem s' l = mem s l).
  { intros i Hi Hne X. destruct Hmem as [|Em]; auto. exfalso. exact (X j Hj ltac:(congruence) Em). }
  constructor.
  - intros a b Ha Hb. rewrite !Hm. unfold upd.
    destruct (Nat.eqb_spec a j); [discriminate|]. destruct (Nat.eqb_spec b j); [reflexivity|]. now apply A.
  - intros a Ha. rewrite Hm, Hl. unfold upd. destruct (Nat.eqb_spec a j) as [->|Hne]; [discriminate|].
    intros Hs. rewrite (B a Ha Hs). f_equal. symmetry. apply (Hmem' a Ha Hne).
    intros k Hk Hka Hmk. pose proof (A k a Hk Ha Hmk ltac:(congruence)). congruence.
  - intros a Ha. rewrite Hm, Hl, Hcm, Hp. unfold upd. destruct (Nat.eqb_spec a j) as [->|Hne]; [|now apply C].
    unfold own_ok. rewrite Hoff. split; congruence.
  - rewrite Hr, D. apply count_ext. intros. now rewrite Hp.
  - rewrite Hw, E. apply count_ext. intros. now rewrite Hp.
  - now rewrite Hr, Hw.
  - intros k Hk. rewrite Hcm, Hm. unfold upd. destruct (Nat.eqb_spec k j); [exact Logic.I|now apply G].
  - intros i v Hi. rewrite Hp. intros Hq. destruct (H1 i v Hi Hq) as [X Y].
    assert (Hij : i <> j).
    { intros ->. rewrite Hq in Hoff. unfold on_line in Hoff. simpl in Hoff. rewrite Z.eqb_refl in Hoff. discriminate. }
    split; auto. rewrite (Hmem' i Hi); auto.
  - intros i vic Hi. rewrite Hp. intros Hq. destruct (H2 i vic Hi Hq) as [X Y].
    assert (Hij : i <> j).
    { intros ->. rewrite Hq in Hoff. unfold on_line in Hoff. simpl in Hoff. rewrite Z.eqb_refl in Hoff. discriminate. }
    split; auto. rewrite Hl, upd_other by auto. rewrite (Hmem' i Hi); auto.
  - intros i v Hi. rewrite Hp. intros Hq. eauto.
  - intros i vic Hi. rewrite Hp. intros Hq. eauto.
Qed.

(* ---- export: a Modified line is written to the next level ---- *)
Lemma invL_export s s' i l :
  InvL s l -> (i < N)%nat -> ms s i l = M ->
  (forall k, ms s' k l = ms s k l) -> (forall k, l1 s' k l = l1 s k l) -> (forall k, cm s' k l = cm s k l) ->
  (forall k, ph s' k = ph s k) -> rc s' l = rc s l -> wc s' l = wc s l ->
  InvL s' l.
Proof.
  intros I0 Hi HM Hm Hl Hcm Hp Hr Hw.
  pose proof I0 as [A B C D E F G H1 H2 H3 H4].
  assert (HnM : forall k, others_not_M s k l -> others_not_M s' k l).
  { intros k X j Hj Hne. rewrite Hm. now apply X. }
  assert (HoI : forall k, others_I s k l -> others_I s' k l).
  { intros k X j Hj Hne. rewrite Hm. now apply X. }
  assert (Hrd : forall k, (k < N)%nat -> rd_on (ph s k) l = true -> ms s k l <> M -> others_not_M s k l -> False).
  { intros k Hk Erd Hmk X. destruct (Nat.eq_dec k i) as [->|Hne]; [congruence|]. exact (X i Hi ltac:(congruence) HM). }
  constructor.
  - intros a b Ha Hb. rewrite !Hm. now apply A.
  - intros a Ha. rewrite Hm, Hl. intros Hs. exfalso.
    destruct (Nat.eq_dec a i) as [->|Hne]; [congruence|].
    pose proof (A i a Hi Ha HM Hne). congruence.
  - intros a Ha. rewrite Hm, Hl, Hcm, Hp. now apply C.
  - rewrite Hr, D. apply count_ext. intros. now rewrite Hp.
  - rewrite Hw, E. apply count_ext. intros. now rewrite Hp.
  - now rewrite Hr, Hw.
  - intros k Hk. rewrite Hcm, Hm. now apply G.
  - intros k v Hk. rewrite Hp. intros Hq. destruct (H1 k v Hk Hq) as [X Y]. exfalso.
    apply (Hrd k Hk); auto.
    + unfold rd_on, on_line. rewrite Hq. simpl. now rewrite Z.eqb_refl.
    + destruct (view_on s l I0 k Hk) as [_ V].
      * unfold on_line. rewrite Hq. simpl. apply Z.eqb_refl.
      * rewrite Hq in V. simpl in V. destruct V. congruence.
  - intros k vic Hk. rewrite Hp. intros Hq. destruct (H2 k vic Hk Hq) as [X Y]. exfalso.
    apply (Hrd k Hk); auto.
    + unfold rd_on, on_line. rewrite Hq. simpl. now rewrite Z.eqb_refl.
    + destruct (view_on s l I0 k Hk) as [_ V].
      * unfold on_line. rewrite Hq. simpl. apply Z.eqb_refl.
      * rewrite Hq in V. simpl in V. destruct V. congruence.
  - intros k v Hk. rewrite Hp. intros Hq. eauto.
  - intros k vic Hk. rewrite Hp. intros Hq. eauto.
Qed.

End Proofs.
