(* Go fixed-width integers on Z.

   A value of a Go integer type is represented by the mathematical integer it
   denotes: int32 values are Z in [-2^31, 2^31), uint32 values Z in [0, 2^32),
   and so on.  Every Go operator the translator (tools/gotrans) emits is a
   named function of this file, so that "what Go does" is stated in one place:

     arithmetic    + - *      wrap of the exact result to the operand type
     / %                       truncated; the caller guards the zero divisor
                               (integer divide by zero is a run-time panic)
     & | ^ &^                  Z.land / Z.lor / Z.lxor / Z.ldiff (closed on
                               two's-complement ranges)
     x << n                    wrap (x * 2^n)   (n >= 0; gives 0 once n >= width)
     x >> n                    Z.shiftr x n     (n >= 0; arithmetic for signed x,
                               logical for unsigned x because x >= 0)
                               a negative signed count is a run-time panic:
                               the translator emits a guard for it
     T(x)                      wrap to T
   This file is part of the trusted base (DESIGN.md section 7); it is validated
   on every run by executing the generated models against the Go code. *)
From Coq Require Import ZArith Lia Bool.
Open Scope Z_scope.

Ltac Zify.zify_post_hook ::= Z.div_mod_to_equations.

(* signed / unsigned wrap to w bits *)
Definition wrapS (w x : Z) : Z := (x + 2^(w-1)) mod 2^w - 2^(w-1).
Definition wrapU (w x : Z) : Z := x mod 2^w.

Definition inS (w x : Z) : Prop := - 2^(w-1) <= x < 2^(w-1).
Definition inU (w x : Z) : Prop := 0 <= x < 2^w.

Definition inSb (w x : Z) : bool := (- 2^(w-1) <=? x) && (x <? 2^(w-1)).
Definition inUb (w x : Z) : bool := (0 <=? x) && (x <? 2^w).

Notation int32 := (inS 32).
Notation int16 := (inS 16).
Notation int8 := (inS 8).
Notation uint32 := (inU 32).
Notation uint8 := (inU 8).

(* conversions *)
Definition to_i32 := wrapS 32.
Definition to_i16 := wrapS 16.
Definition to_i8 := wrapS 8.
Definition to_u32 := wrapU 32.
Definition to_u8 := wrapU 8.
Definition to_u64 := wrapU 64.   (* Go uint on the 64-bit targets the repo builds for *)
Definition to_i64 := wrapS 64.   (* Go int *)

(* arithmetic at a signed width *)
Definition addS w x y := wrapS w (x + y).
Definition subS w x y := wrapS w (x - y).
Definition mulS w x y := wrapS w (x * y).
Definition quoS w x y := wrapS w (Z.quot x y).   (* INT_MIN / -1 wraps to INT_MIN, as Go specifies *)
Definition remS (w : Z) x y := Z.rem x y.
Definition shlS w x n := wrapS w (x * 2^n).
Definition shrS (w : Z) x n := Z.shiftr x n.
(* arithmetic at an unsigned width *)
Definition addU w x y := wrapU w (x + y).
Definition subU w x y := wrapU w (x - y).
Definition mulU w x y := wrapU w (x * y).
Definition shlU w x n := wrapU w (x * 2^n).
Definition shrU (w : Z) x n := Z.shiftr x n.

(* ------------------------------------------------------------------ *)
(* range facts                                                          *)

Lemma pow2_pos n : 0 <= n -> 0 < 2^n.
Proof. intros; apply Z.pow_pos_nonneg; lia. Qed.

Lemma pow2_split w : 0 < w -> 2^w = 2 * 2^(w-1).
Proof. intros. replace w with (Z.succ (w-1)) at 1 by lia. rewrite Z.pow_succ_r; lia. Qed.

Lemma wrapS_range w x : 0 < w -> inS w (wrapS w x).
Proof.
  intros Hw. unfold inS, wrapS.
  pose proof (pow2_pos (w-1) ltac:(lia)). pose proof (pow2_split w Hw).
  pose proof (Z.mod_pos_bound (x + 2^(w-1)) (2^w) ltac:(lia)). lia.
Qed.

Lemma wrapU_range w x : 0 <= w -> inU w (wrapU w x).
Proof. intros Hw. unfold inU, wrapU. apply Z.mod_pos_bound. apply pow2_pos; lia. Qed.

Lemma wrapS_id w x : 0 < w -> inS w x -> wrapS w x = x.
Proof.
  intros Hw [Hlo Hhi]. unfold wrapS.
  pose proof (pow2_split w Hw).
  rewrite Z.mod_small; lia.
Qed.

Lemma wrapU_id w x : inU w x -> wrapU w x = x.
Proof. intros [Hlo Hhi]. unfold wrapU. apply Z.mod_small; lia. Qed.

Lemma wrapS_mod w x : 0 < w -> (wrapS w x) mod 2^w = x mod 2^w.
Proof.
  intros Hw. unfold wrapS.
  pose proof (pow2_pos w ltac:(lia)). pose proof (pow2_split w Hw).
  rewrite Zminus_mod, Zmod_mod, <- Zminus_mod. f_equal. lia.
Qed.

Lemma wrapS_wrapU w x : 0 < w -> wrapS w (wrapU w x) = wrapS w x.
Proof.
  intros Hw. unfold wrapS, wrapU.
  pose proof (pow2_pos w ltac:(lia)).
  f_equal. rewrite Zplus_mod_idemp_l. reflexivity.
Qed.

Lemma wrapU_wrapS w x : 0 < w -> wrapU w (wrapS w x) = wrapU w x.
Proof. intros. unfold wrapU. apply wrapS_mod; assumption. Qed.

Lemma wrapS_eq_mod w x y : 0 < w -> x mod 2^w = y mod 2^w -> wrapS w x = wrapS w y.
Proof.
  intros Hw H. unfold wrapS. f_equal.
  rewrite (Zplus_mod x), (Zplus_mod y), H. reflexivity.
Qed.

Lemma wrapS_idem w x : 0 < w -> wrapS w (wrapS w x) = wrapS w x.
Proof. intros. apply wrapS_id; [assumption | apply wrapS_range; assumption]. Qed.

(* the unsigned reading of a signed value and back *)
Lemma wrapS_of_U w x : 0 < w -> inS w x -> wrapS w (wrapU w x) = x.
Proof. intros. rewrite wrapS_wrapU by assumption. apply wrapS_id; assumption. Qed.

Lemma wrapU_of_S_nonneg w x : inS w x -> 0 <= x -> wrapU w x = x.
Proof.
  intros [Hlo Hhi] H0. unfold wrapU. apply Z.mod_small.
  destruct (Z_lt_le_dec 0 w) as [Hw|Hw].
  - pose proof (pow2_split w Hw). pose proof (pow2_pos (w-1) ltac:(lia)). lia.
  - assert (w - 1 < 0) by lia. rewrite Z.pow_neg_r in Hhi by lia. lia.
Qed.

Lemma wrapU_of_S_neg w x : 0 < w -> inS w x -> x < 0 -> wrapU w x = x + 2^w.
Proof.
  intros Hw [Hlo Hhi] H0. unfold wrapU.
  pose proof (pow2_split w Hw). pose proof (pow2_pos (w-1) ltac:(lia)).
  symmetry. apply Z.mod_unique with (q := -1); lia.
Qed.

(* ------------------------------------------------------------------ *)
(* bit-level characterisation: wrapS copies bit w-1 upwards             *)

Lemma wrapU_testbit w x i : 0 <= w -> 0 <= i ->
  Z.testbit (wrapU w x) i = if i <? w then Z.testbit x i else false.
Proof.
  intros Hw Hi. unfold wrapU. destruct (Z.ltb_spec i w).
  - apply Z.mod_pow2_bits_low; lia.
  - apply Z.mod_pow2_bits_high; lia.
Qed.

Lemma wrapS_testbit w x i : 0 < w -> 0 <= i ->
  Z.testbit (wrapS w x) i = Z.testbit x (Z.min i (w-1)).
Proof.
  intros Hw Hi.
  pose proof (pow2_pos w ltac:(lia)) as Hp. pose proof (pow2_split w Hw) as Hs.
  pose proof (pow2_pos (w-1) ltac:(lia)) as Hp1.
  set (y := x mod 2^w).
  assert (Hy : 0 <= y < 2^w) by (apply Z.mod_pos_bound; lia).
  assert (Hbit : Z.testbit x (w-1) = negb (y <? 2^(w-1))).
  { rewrite <- (Z.mod_pow2_bits_low x w (w-1)) by lia. fold y.
    rewrite Z.testbit_eqb by lia.
    destruct (Z.ltb_spec y (2^(w-1))); simpl.
    - rewrite Z.div_small by lia. reflexivity.
    - replace (y / 2^(w-1)) with 1; [reflexivity|].
      apply Z.div_unique_pos with (r := y - 2^(w-1)); lia. }
  assert (Hlow : forall j, 0 <= j < w -> Z.testbit (wrapS w x) j = Z.testbit x j).
  { intros j Hj. rewrite <- (Z.mod_pow2_bits_low (wrapS w x) w j) by lia.
    rewrite wrapS_mod by lia. apply Z.mod_pow2_bits_low; lia. }
  destruct (Z.ltb_spec i w) as [Hiw|Hiw].
  - rewrite Z.min_l by lia. apply Hlow; lia.
  - rewrite Z.min_r by lia. rewrite Hbit.
    assert (Hw' : wrapS w x = if y <? 2^(w-1) then y else y - 2^w).
    { unfold wrapS. destruct (Z.ltb_spec y (2^(w-1))).
      - assert (E : (x + 2^(w-1)) mod 2^w = y + 2^(w-1)).
        { rewrite Zplus_mod. fold y. rewrite (Z.mod_small (2^(w-1))) by lia.
          apply Z.mod_small; lia. }
        lia.
      - assert (E : (x + 2^(w-1)) mod 2^w = y + 2^(w-1) - 2^w).
        { rewrite Zplus_mod. fold y. rewrite (Z.mod_small (2^(w-1))) by lia.
          symmetry. apply Z.mod_unique with (q := 1); lia. }
        lia. }
    rewrite Hw'. destruct (Z.ltb_spec y (2^(w-1))); simpl.
    + destruct (Z.eq_dec y 0) as [->|Hy0]; [apply Z.testbit_0_l|].
      apply Z.bits_above_log2; [lia|].
      assert (Z.log2 y < w - 1) by (apply Z.log2_lt_pow2; lia). lia.
    + apply Z.bits_above_log2_neg; [lia|].
      destruct (Z.eq_dec (Z.pred (-(y - 2^w))) 0) as [E|E]; [rewrite E; simpl; lia|].
      assert (Z.log2 (Z.pred (-(y - 2^w))) < w - 1) by (apply Z.log2_lt_pow2; lia). lia.
Qed.

Lemma inS_testbit_high w x i : 0 < w -> inS w x -> w - 1 <= i -> Z.testbit x i = Z.testbit x (w-1).
Proof.
  intros Hw Hx Hi. rewrite <- (wrapS_id w x Hw Hx) at 1.
  rewrite wrapS_testbit by lia. rewrite Z.min_r by lia. reflexivity.
Qed.

Lemma inS_of_bits w x : 0 < w ->
  (forall i, w - 1 <= i -> Z.testbit x i = Z.testbit x (w-1)) -> inS w x.
Proof.
  intros Hw H. assert (E : wrapS w x = x).
  { apply Z.bits_inj'. intros i Hi. rewrite wrapS_testbit by lia.
    destruct (Z.le_gt_cases (w-1) i).
    - rewrite Z.min_r by lia. symmetry. apply H; lia.
    - rewrite Z.min_l by lia. reflexivity. }
  rewrite <- E. apply wrapS_range; assumption.
Qed.

(* closure of the bitwise operators on signed ranges *)
Lemma land_inS w x y : 0 < w -> inS w x -> inS w y -> inS w (Z.land x y).
Proof.
  intros Hw Hx Hy. apply inS_of_bits; [assumption|]. intros i Hi.
  rewrite !Z.land_spec. rewrite (inS_testbit_high w x i), (inS_testbit_high w y i) by assumption.
  reflexivity.
Qed.
Lemma lor_inS w x y : 0 < w -> inS w x -> inS w y -> inS w (Z.lor x y).
Proof.
  intros Hw Hx Hy. apply inS_of_bits; [assumption|]. intros i Hi.
  rewrite !Z.lor_spec. rewrite (inS_testbit_high w x i), (inS_testbit_high w y i) by assumption.
  reflexivity.
Qed.
Lemma lxor_inS w x y : 0 < w -> inS w x -> inS w y -> inS w (Z.lxor x y).
Proof.
  intros Hw Hx Hy. apply inS_of_bits; [assumption|]. intros i Hi.
  rewrite !Z.lxor_spec. rewrite (inS_testbit_high w x i), (inS_testbit_high w y i) by assumption.
  reflexivity.
Qed.
Lemma ldiff_inS w x y : 0 < w -> inS w x -> inS w y -> inS w (Z.ldiff x y).
Proof.
  intros Hw Hx Hy. apply inS_of_bits; [assumption|]. intros i Hi.
  rewrite !Z.ldiff_spec. rewrite (inS_testbit_high w x i), (inS_testbit_high w y i) by assumption.
  reflexivity.
Qed.
Lemma shiftr_inS w x n : 0 < w -> 0 <= n -> inS w x -> inS w (Z.shiftr x n).
Proof.
  intros Hw Hn Hx. apply inS_of_bits; [assumption|]. intros i Hi.
  rewrite !Z.shiftr_spec by lia.
  rewrite (inS_testbit_high w x (i+n)), (inS_testbit_high w x (w-1+n)) by (assumption || lia).
  reflexivity.
Qed.

Lemma inSb_spec w x : inSb w x = true <-> inS w x.
Proof. unfold inSb, inS. rewrite andb_true_iff, Z.leb_le, Z.ltb_lt. tauto. Qed.
Lemma inUb_spec w x : inUb w x = true <-> inU w x.
Proof. unfold inUb, inU. rewrite andb_true_iff, Z.leb_le, Z.ltb_lt. tauto. Qed.

(* numerals *)
Lemma int32_bounds x : int32 x <-> -2147483648 <= x < 2147483648.
Proof. unfold inS. change (2^(32-1)) with 2147483648. tauto. Qed.
Lemma int8_bounds x : int8 x <-> -128 <= x < 128.
Proof. unfold inS. change (2^(8-1)) with 128. tauto. Qed.
Lemma int16_bounds x : int16 x <-> -32768 <= x < 32768.
Proof. unfold inS. change (2^(16-1)) with 32768. tauto. Qed.
Lemma uint32_bounds x : uint32 x <-> 0 <= x < 4294967296.
Proof. unfold inU. change (2^32) with 4294967296. tauto. Qed.
