(* Result type of every modelled Go function.
   Ok x   : the function returned normally (a nil error where it has one)
   Err e  : the function returned a non-nil error (class e)
   Panic  : the Go runtime would panic (index out of range, integer divide
            by zero, negative shift count, explicit panic()).
   Panic is never conflated with Err: C07/C11 are about exactly this
   difference. *)
From Coq Require Import ZArith List.
Import ListNotations.

Inductive err_class := EDivZero | ELabel | EBounds | EOther.

Inductive outcome (A : Type) : Type :=
| Ok (x : A)
| Err (e : err_class)
| Panic.
Arguments Ok {A} x.
Arguments Err {A} e.
Arguments Panic {A}.

Definition bind {A B} (m : outcome A) (f : A -> outcome B) : outcome B :=
  match m with Ok x => f x | Err e => Err e | Panic => Panic end.

Definition omap {A B} (f : A -> B) (m : outcome A) : outcome B :=
  match m with Ok x => Ok (f x) | Err e => Err e | Panic => Panic end.

(* guard c k : Go panics unless c holds *)
Definition guard {A} (c : bool) (k : outcome A) : outcome A :=
  if c then k else Panic.

Notation "x <- m ;; k" := (bind m (fun x => k)) (at level 61, m at next level, right associativity).
Notation "' pat <- m ;; k" := (bind m (fun x => match x with pat => k end))
  (at level 61, pat pattern, m at next level, right associativity).

(* for i := a; i < a + cnt; i++ { s = f i s } *)
Fixpoint for_loopM {S : Type} (cnt : nat) (i : Z) (f : Z -> S -> outcome S) (s : S) : outcome S :=
  match cnt with
  | O => Ok s
  | S c => bind (f i s) (fun s' => for_loopM c (i + 1)%Z f s')
  end.
Fixpoint for_loop {S : Type} (cnt : nat) (i : Z) (f : Z -> S -> S) (s : S) : S :=
  match cnt with
  | O => s
  | S c => for_loop c (i + 1)%Z f (f i s)
  end.

Definition is_panic {A} (m : outcome A) : bool :=
  match m with Panic => true | _ => false end.
Definition is_ok {A} (m : outcome A) : bool :=
  match m with Ok _ => true | _ => false end.

Lemma bind_ok {A B} (m : outcome A) (f : A -> outcome B) y :
  bind m f = Ok y -> exists x, m = Ok x /\ f x = Ok y.
Proof. destruct m; simpl; intros H; try discriminate; eauto. Qed.
