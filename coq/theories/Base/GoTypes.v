(* Data types shared by the generated models (tools/gotrans). *)
From Coq Require Import ZArith List Bool.
Import ListNotations.
Open Scope Z_scope.

(* risc.Execution, field for field *)
Record execution := mk_execution {
  RegisterChange : bool;
  Register : Z;
  RegisterValue : Z;
  MemoryChange : bool;
  MemoryChanges : list (Z * Z);   (* map literal in source order *)
  NextPc : Z;
  PcChange : bool;
  Return : bool
}.

(* [4]int8 *)
Definition a4_0 (a : Z * Z * Z * Z) : Z := let '(x, _, _, _) := a in x.
Definition a4_1 (a : Z * Z * Z * Z) : Z := let '(_, x, _, _) := a in x.
Definition a4_2 (a : Z * Z * Z * Z) : Z := let '(_, _, x, _) := a in x.
Definition a4_3 (a : Z * Z * Z * Z) : Z := let '(_, _, _, x) := a in x.
