(* Soundness of the ghost flag of the model of MVP-8.0, part 7: one tick and a run under two order functions that
   agree on the RAT value maps only.  The two runs are related by st_rel: the same pipeline, directories equal up
   to msi_equiv, controllers equal up to the order of their snoop closures.  This file is generic in the facts about
   the memory system (section hypotheses); Mvp80OrdFinal.v instantiates them. *)
From Coq Require Import ZArith List Bool Lia Permutation.
From Maj Require Import Base.Outcome Base.GoInt Base.GoTypes Isa.Spec Isa.Seq.
From Maj Require Import Gen.Latency Gen.RiscTables Gen.Opcodes Comp.Cache Comp.Rat Mvp.Mvp12 Mvp.Mvp3 Mvp.Mvp5 Mvp.Mvp60 Mvp.Mvp63 Mvp.Mvp80.
From Maj Require Import Mvp.Mvp60Proofs Mvp.Mvp63Proofs Mvp.Mvp80Proofs Mvp.Mvp80OrdIds Mvp.Mvp80OrdProofs.
From Maj Require Import Mvp.Mvp80OrdSnoop Mvp.Mvp80OrdCache Mvp.Mvp80OrdInvDefs Mvp.Mvp80OrdCommDefs Mvp.Mvp80OrdCong Mvp.Mvp80OrdCongAfter Mvp.Mvp80OrdComm.
From Maj Require Mvp.Mvp80OrdPerm.
Import ListNotations.
Open Scope Z_scope.

Module P := Mvp.Mvp80OrdPerm.

(* ------------------------------------------------------------------ *)
(* 0. the relation between the two runs                                 *)
(* ------------------------------------------------------------------ *)

Definition st_rel (s1 s2 : st8) : Prop :=
  my_rel (v_y s1) (v_y s2) /\ v_eus s1 = v_eus s2 /\ v_wus s1 = v_wus s2 /\ v_cycle s1 = v_cycle s2 /\ v_mode s1 = v_mode s2.

Definition res_rel (r1 r2 : step_res8) : Prop :=
  match r1, r2 with
  | VDone a os1, VDone b os2 => a = b /\ os1 = os2
  | VCont s1, VCont s2 => st_rel s1 s2
  | _, _ => False
  end.

(* my_rel = my_equiv ; my_perm *)
Definition mid (y1 y2 : my) : my := set_ccs y2 (y_ccs y1).

Lemma my_rel_split : forall y1 y2, my_rel y1 y2 -> my_equiv y1 (mid y1 y2) /\ P.my_perm (mid y1 y2) y2.
Proof.
  intros y1 y2 (A & B & C & D & E). unfold my_equiv, P.my_perm, mid, set_ccs. cbn [y_x y_msi y_copy y_pref y_ccs].
  split; [split; [exact A|]; split; [exact B|]; split; [exact C|]; split; [exact D | reflexivity]|].
  split; [reflexivity|]. split; [reflexivity|]. split; [reflexivity|]. split; [reflexivity | exact E].
Qed.

Lemma my_rel_join : forall y1 ym y2, my_equiv y1 ym -> P.my_perm ym y2 -> my_rel y1 y2.
Proof.
  intros y1 ym y2 (A & B & C & D & E) (A' & B' & C' & D' & E'). unfold my_rel.
  split; [congruence|]. split; [rewrite <- B'; exact B|]. split; [congruence|]. split; [congruence|].
  rewrite E. exact E'.
Qed.

Definition smid (s1 s2 : st8) : st8 := mk_st8 (mid (v_y s1) (v_y s2)) (v_eus s2) (v_wus s2) (v_cycle s2) (v_mode s2).

Lemma st_rel_split : forall s1 s2, st_rel s1 s2 -> st_equiv s1 (smid s1 s2) /\ P.st_perm (smid s1 s2) s2.
Proof.
  intros s1 s2 (A & B & C & D & E). destruct (my_rel_split _ _ A) as [A1 A2].
  unfold st_equiv, P.st_perm, smid. cbn [v_y v_eus v_wus v_cycle v_mode].
  split; [split; [exact A1|]; split; [exact B|]; split; [exact C|]; split; [exact D | exact E]|].
  split; [exact A2|]. split; [reflexivity|]. split; [reflexivity|]. split; reflexivity.
Qed.

Lemma res_rel_join : forall r1 rm r2, res_equiv r1 rm -> P.res_perm rm r2 -> res_rel r1 r2.
Proof.
  intros [a os1|s1] [b os2|sm] [c os3|s2] H1 H2; cbn [res_equiv P.res_perm res_rel] in *; try contradiction.
  - destruct H1, H2. split; congruence.
  - destruct H1 as (A & B & C & D & E), H2 as (A' & B' & C' & D' & E'). unfold st_rel.
    split; [eapply my_rel_join; eauto|]. repeat split; congruence.
Qed.

Lemma my_rel_os : forall y1 y2, my_rel y1 y2 -> y_os y1 = y_os y2.
Proof. intros y1 y2 (A & _). unfold y_os. rewrite A. reflexivity. Qed.

Lemma my_rel_refl : forall y, my_rel y y.
Proof.
  intros y. unfold my_rel. split; [reflexivity|]. split; [apply msi_equiv_refl|]. split; [reflexivity|]. split; [reflexivity|].
  induction (y_ccs y); constructor; [apply cc_perm_refl | assumption].
Qed.

Lemma st_rel_refl : forall s, st_rel s s.
Proof. intros s. unfold st_rel. split; [apply my_rel_refl|]. repeat split. Qed.

(* the flag never goes down *)
Lemma run8_flag_mono : forall fuel app labels ord s,
  final_os8 (run8_st fuel app labels ord s) = false -> y_os (v_y s) = false.
Proof.
  intros fuel app labels ord s H.
  assert (O : ords_rat ord ord) by (intros cycle keys; split; reflexivity).
  destruct (run8_st_ord_gen (fun _ => True) app ord ord O) with (fuel := fuel) (labels := labels) (s := s) as [_ F]; auto.
  clear. revert s. induction fuel as [|f IH]; intros s; cbn [run8_all]; [exact I|].
  split; [exact I|]. destruct (step8 app labels ord s); [exact I | apply IH].
Qed.

Section Step.

Variables ord1 ord2 : Z -> Z -> list Z -> list Z.
Hypothesis ORD : ords_rat ord1 ord2.

(* what the other files provide *)
Hypothesis SNOOPS : forall cycle y1 y2, my_rel y1 y2 -> my_inv y1 ->
  orel my_rel (snoops8 ord1 cycle y1) (snoops8 ord2 cycle y2).
Hypothesis FRONT_PERM : forall app ord cycle y1 y2, P.my_perm y1 y2 ->
  P.orelp P.my_perm (front8 app ord cycle y1) (front8 app ord cycle y2).
Hypothesis AFTER_PERM : forall labels ord s1 s2 y1 y2, P.st_perm s1 s2 -> P.my_perm y1 y2 ->
  P.res_perm (after_snoops8 labels ord s1 y1) (after_snoops8 labels ord s2 y2).
Hypothesis FLUSHW_PERM : forall app labels ord s1 s2 k seq pc from empty, P.st_perm s1 s2 -> v_mode s1 = PFlushW k seq pc from empty ->
  P.res_perm (step8 app labels ord s1) (step8 app labels ord s2).
Hypothesis ARG_INV : forall app ord s cycle y, snoop_arg8 app ord s = Some (cycle, y) -> my_inv (v_y s) -> my_inv y.

(* ------------------------------------------------------------------ *)
(* 1. the three parts of a tick                                         *)
(* ------------------------------------------------------------------ *)

Lemma after_rel : forall labels s1 s2 y1 y2, st_rel s1 s2 -> my_rel y1 y2 ->
  res_rel (after_snoops8 labels ord1 s1 y1) (after_snoops8 labels ord2 s2 y2).
Proof.
  intros labels s1 s2 y1 y2 Hs Hy. rewrite (after_snoops8_ord labels ord1 ord2 s1 y1 ORD).
  destruct (st_rel_split _ _ Hs) as [S1 S2]. destruct (my_rel_split _ _ Hy) as [Y1 Y2].
  eapply res_rel_join.
  - apply after_snoops8_equiv; eauto.
  - apply AFTER_PERM; eauto.
Qed.

Lemma snoops_after_rel : forall labels cycle s1 s2 y1 y2, st_rel s1 s2 -> my_rel y1 y2 -> my_inv y1 ->
  res_rel (res_of8 (y_os y1) (snoops8 ord1 cycle y1) (after_snoops8 labels ord1 s1))
          (res_of8 (y_os y2) (snoops8 ord2 cycle y2) (after_snoops8 labels ord2 s2)).
Proof.
  intros labels cycle s1 s2 y1 y2 Hs Hy I. rewrite <- (my_rel_os _ _ Hy).
  pose proof (SNOOPS cycle y1 y2 Hy I) as S.
  destruct (snoops8 ord1 cycle y1) as [ya| |], (snoops8 ord2 cycle y2) as [yb| |]; cbn [orel] in S; try contradiction;
    cbn [res_of8 res_rel]; auto; try (split; congruence).
  apply after_rel; auto.
Qed.

Lemma front_rel : forall app cycle y1 y2 y1', my_rel y1 y2 ->
  front8 app ord1 cycle y1 = Ok y1' -> y_os y1' = false ->
  exists y2', front8 app ord2 cycle y2 = Ok y2' /\ my_rel y1' y2' /\ y_os y1 = false.
Proof.
  intros app cycle y1 y2 y1' Hy F Hos.
  destruct (front8_ord app ord1 ord2 cycle y1 y1' F Hos) as [F2 H0].
  destruct (my_rel_split _ _ Hy) as [Y1 Y2].
  pose proof (front8_equiv app ord2 cycle _ _ Y1) as Q1. rewrite F2 in Q1.
  pose proof (FRONT_PERM app ord2 cycle _ _ Y2) as Q2.
  destruct (front8 app ord2 cycle (mid y1 y2)) as [ym| |]; cbn [orel] in Q1; try contradiction.
  destruct (front8 app ord2 cycle y2) as [y2'| |]; cbn [P.orelp] in Q2; try contradiction.
  exists y2'. split; [reflexivity|]. split; [eapply my_rel_join; eauto | exact H0].
Qed.

Lemma front_rel_err : forall app cycle y1 y2, my_rel y1 y2 ->
  (forall y', front8 app ord1 cycle y1 <> Ok y') ->
  match front8 app ord1 cycle y1, front8 app ord2 cycle y2 with
  | Err e1, Err e2 => e1 = e2
  | Panic, Panic => True
  | _, _ => False
  end.
Proof.
  intros app cycle y1 y2 Hy N. pose proof (front8_err app ord1 ord2 cycle y1 N) as F2.
  destruct (my_rel_split _ _ Hy) as [Y1 Y2].
  pose proof (front8_equiv app ord2 cycle _ _ Y1) as Q1. rewrite F2 in Q1.
  pose proof (FRONT_PERM app ord2 cycle _ _ Y2) as Q2.
  destruct (front8 app ord1 cycle y1) as [ya|e| ]; [exfalso; eapply N; reflexivity| |];
  destruct (front8 app ord2 cycle (mid y1 y2)) as [ym|e'| ]; cbn [orel] in Q1; try contradiction;
  destruct (front8 app ord2 cycle y2) as [y2'|e''| ]; cbn [P.orelp] in Q2; try contradiction; auto; congruence.
Qed.

(* ------------------------------------------------------------------ *)
(* 2. one tick                                                          *)
(* ------------------------------------------------------------------ *)

Theorem step8_rel : forall app labels s1 s2, st_rel s1 s2 -> my_inv (v_y s1) ->
  res_os8 (step8 app labels ord1 s1) = false ->
  res_rel (step8 app labels ord1 s1) (step8 app labels ord2 s2) /\ y_os (v_y s1) = false.
Proof.
  intros app labels s1 s2 Hs I H.
  pose proof Hs as (Hy & He & Hw & Hc & Hm).
  destruct (v_mode s1) as [| | seq pc from | k seq pc from empty |] eqn:M.
  - (* main loop *)
    rewrite !step8_eq in *. rewrite <- Hm, M in *. rewrite <- Hc.
    destruct (front8 app ord1 (v_cycle s1 + 1) (v_y s1)) as [y1'| |] eqn:EF.
    + cbn [res_of8] in H |- *.
      pose proof (snoops_then_os _ _ _ _ _ H) as K1.
      destruct (front_rel app _ _ _ _ Hy EF K1) as (y2' & EF2 & Hy' & H0). rewrite EF2. cbn [res_of8].
      split; [|exact H0].
      apply snoops_after_rel; auto.
      eapply ARG_INV; [|exact I]. unfold snoop_arg8. rewrite M, EF. reflexivity.
    + pose proof (front_rel_err app (v_cycle s1 + 1) _ _ Hy) as Q. rewrite EF in Q.
      destruct (front8 app ord2 (v_cycle s1 + 1) (v_y s2)) as [?|?|]; try (exfalso; apply Q; intros y' C; discriminate C).
      cbn [res_of8 res_rel res_os8] in *. rewrite <- (my_rel_os _ _ Hy). split; [split; [f_equal; apply Q; intros y' C; discriminate C | reflexivity] | exact H].
    + pose proof (front_rel_err app (v_cycle s1 + 1) _ _ Hy) as Q. rewrite EF in Q.
      destruct (front8 app ord2 (v_cycle s1 + 1) (v_y s2)) as [?|?|]; try (exfalso; apply Q; intros y' C; discriminate C).
      cbn [res_of8 res_rel res_os8] in *. rewrite <- (my_rel_os _ _ Hy). split; [split; reflexivity | exact H].
  - rewrite !step8_eq in *. rewrite <- Hm, M in *. rewrite <- Hc.
    split; [|eapply snoops_then_os; exact H]. apply snoops_after_rel; auto.
  - rewrite !step8_eq in *. rewrite <- Hm, M in *. rewrite <- Hc.
    split; [|eapply snoops_then_os; exact H]. apply snoops_after_rel; auto.
  - (* the write-unit loop inside the flush loop: no snoops, no order *)
    destruct (step8_ord app labels ord1 ord2 s1 ORD) as [E H0]; [|exact H|].
    { intros cycle y A. unfold snoop_arg8 in A. rewrite M in A. discriminate A. }
    split; [|exact H0]. rewrite E.
    destruct (st_rel_split _ _ Hs) as [S1 S2].
    eapply res_rel_join; [apply step8_equiv; exact S1|].
    eapply FLUSHW_PERM; [exact S2|]. unfold smid. cbn [v_mode]. rewrite <- Hm. reflexivity.
  - rewrite !step8_eq in *. rewrite <- Hm, M in *. rewrite <- Hc.
    split; [|eapply snoops_then_os; exact H]. apply snoops_after_rel; auto.
Qed.


(* ------------------------------------------------------------------ *)
(* 3. runs                                                              *)
(* ------------------------------------------------------------------ *)

Hypothesis STEP_INV8 : forall app labels ord s s', step8 app labels ord s = VCont s' -> y_os (v_y s') = false ->
  my_inv (v_y s) -> my_inv (v_y s').

Theorem run8_rel : forall fuel app labels s1 s2, st_rel s1 s2 -> my_inv (v_y s1) ->
  final_os8 (run8_st fuel app labels ord1 s1) = false ->
  match run8_st fuel app labels ord1 s1, run8_st fuel app labels ord2 s2 with
  | inl r1, inl r2 => r1 = r2
  | inr a, inr b => st_rel a b
  | _, _ => False
  end.
Proof.
  induction fuel as [|f IH]; intros app labels s1 s2 Hs I H; cbn [run8_st] in *; [exact Hs|].
  destruct (step8 app labels ord1 s1) as [r os|s1'] eqn:E.
  - cbn [final_os8] in H. subst os.
    destruct (step8_rel app labels s1 s2 Hs I) as [R _]; [rewrite E; reflexivity|].
    rewrite E in R. destruct (step8 app labels ord2 s2) as [r2 os2|s2']; cbn [res_rel] in R; [|contradiction].
    destruct R as [-> <-]. reflexivity.
  - assert (F : y_os (v_y s1') = false) by (eapply run8_flag_mono; exact H).
    destruct (step8_rel app labels s1 s2 Hs I) as [R _]; [rewrite E; exact F|].
    rewrite E in R. destruct (step8 app labels ord2 s2) as [r2 os2|s2']; cbn [res_rel] in R; [contradiction|].
    apply IH; [exact R | eapply STEP_INV8; eauto | exact H].
Qed.

End Step.
