(* MVP-5 on programs whose stores may MISS in the L1D, under the hypothesis no_stale
   (Mvp4sSkel.v) on the events of the sequential run: as Mvp4sProofs.v for MVP-4. *)
From Coq Require Import ZArith List Bool Lia.
From Maj Require Import Base.Outcome Base.GoInt Base.GoTypes Isa.Spec Isa.Embed Isa.Seq Isa.Refine.
From Maj Require Import Gen.Latency Gen.RiscTables Gen.Opcodes Comp.Cache Comp.CacheSpec Comp.CacheProofs.
From Maj Require Import Mvp.Mvp12 Mvp.Mvp12Proofs Mvp.Mvp3 Mvp.Mvp3Proofs Mvp.Mvp4 Mvp.Mvp5
     Mvp.Mvp4Skel Mvp.Mvp4Inv Mvp.Mvp4Units Mvp.Mvp4Front Mvp.Mvp4Sim Mvp.Mvp4Proofs
     Mvp.Mvp4mSkel Mvp.Mvp4mInv Mvp.Mvp4mFront Mvp.Mvp4mSim Mvp.Mvp4mProofs
     Mvp.Mvp5Skel Mvp.Mvp5Inv Mvp.Mvp5Front Mvp.Mvp5Sim Mvp.Mvp5Proofs Mvp.Mvp5mSkel Mvp.Mvp5mFront Mvp.Mvp5mSim Mvp.Mvp5mProofs
     Mvp.Mvp4sSkel Mvp.Mvp4sFront Mvp.Mvp4sSim Mvp.Mvp4sProofs Mvp.Mvp5sSkel Mvp.Mvp5sFront Mvp.Mvp5sSim.
Import ListNotations.
Open Scope Z_scope.

Lemma sks5_run_more app : forall fuel k a path cyc c,
  sks5_run fuel app a path cyc = Some c -> sks5_run (fuel + k) app a path cyc = Some c.
Proof.
  induction fuel as [|f IH]; intros k a path cyc c H; [discriminate|]. cbn [sks5_run Nat.add] in *.
  destruct (sks5_cycle app a path) as [a' path' dc|dc dt|]; auto.
Qed.

Section Top5s.
  Variables (app : list instr) (labels : Z -> option Z).
  Hypothesis Happ : wf_app app.
  Hypothesis Hlab : wf_labels labels.
  Let sp := map sinstr_of app.

  Lemma init_fs5 c0 hev : IInv c0 -> ev_pc hev = 0 -> FS5 app hev (sks5_init c0).
  Proof.
    intros HI H0. constructor.
    - exact (init_fm5 app c0 hev HI H0).
    - discriminate.
    - discriminate.
    - apply winv_empty. reflexivity.
  Qed.

  Theorem mvp5_storemiss_sim fuel st st' tr fuel' c :
    inv (regs st) (mem st) -> (length (regs st) <= 32)%nat -> mem_small st ->
    accesses_ok fuel sp labels st 0 ->
    seq_run fuel sp labels st = Done st' tr ->
    evs_below (seq_evs fuel sp labels st 0) = true ->
    no_stale [] [] false (seq_evs fuel sp labels st 0) = true ->
    mvp5_cost_sm fuel' app (seq_evs fuel sp labels st 0) = Some c ->
    mvp5_run fuel' app labels st = MDone c st'.
  Proof.
    intros [Hri Hm8] Hlen Hsm Hacc Hrun Hb Hns Hc. unfold seq_run in Hrun.
    destruct (run_sexecm app labels fuel st 0 [] st' tr Hrun Hacc) as (rest & Hp & HS & Hl & Hcnt).
    fold sp in Hp. rewrite Hp in *. pose proof (sexecm_evs_wf app labels _ _ _ HS Hb) as Hwf.
    pose proof (sexecm_stores_plain app labels _ _ _ HS) as Hsp.
    destruct init_caches as (c0 & E0 & HI0 & HD0 & Hl0).
    pose proof (init_fs5 c0 (ev_of app st 0) HI0 eq_refl) as HF0.
    assert (Hns0 : ns_inv5 (sks5_init c0) (ev_of app st 0 :: rest)).
    { apply ns_inv5_intro; [reflexivity | exact Hns]. }
    unfold mvp5_cost_sm in Hc. rewrite E0 in Hc. unfold mvp5_run. rewrite E0.
    eapply (sim_run_s5 app labels Happ Hlab); [| exact HF0 | exact Hwf | exact Hsp | exact Hns0 | exact HS | exact Hc].
    destruct st as [rg mm]. cbn [regs mem] in *.
    apply (RMs5_intro (ev_la (ev_of app (mk_arch rg mm) 0)) (sks5_init c0) rg mm c0 (s_new 64 1024) false 0 None None
                      (mk_eu false false [] None 0 None) (mk_arch rg mm)); auto; try discriminate.
    constructor; cbn [regs mem cur_regs papply sks5_init y_wp y_wc option_map]; auto; try discriminate.
    exists mm. split; [apply init_VInv; assumption | reflexivity].
  Qed.

  Theorem mvp5_run_events_s fuel st st' tr :
    inv (regs st) (mem st) -> (length (regs st) <= 32)%nat -> mem_small st ->
    accesses_ok fuel sp labels st 0 ->
    seq_run fuel sp labels st = Done st' tr ->
    evs_below (seq_evs fuel sp labels st 0) = true ->
    no_stale [] [] false (seq_evs fuel sp labels st 0) = true ->
    exists c, (forall fuel', (fuel_bound_s (length tr) <= fuel')%nat ->
                 mvp5_run fuel' app labels st = MDone c st' /\
                 mvp5_cost_sm fuel' app (seq_evs fuel sp labels st 0) = Some c) /\
              Z.of_nat (length tr) <= c.
  Proof.
    intros Hinv Hlen Hsm Hacc Hrun Hb Hns.
    pose proof Hrun as Hrun0. unfold seq_run in Hrun.
    destruct (run_sexecm app labels fuel st 0 [] st' tr Hrun Hacc) as (rest & Hp & HS & Hl & Hcnt).
    fold sp in Hp.
    assert (Hwf : evs_wf app (ev_of app st 0 :: rest)) by (rewrite Hp in Hb; exact (sexecm_evs_wf app labels _ _ _ HS Hb)).
    pose proof (sexecm_stores_plain app labels _ _ _ HS) as Hsp.
    destruct init_caches as (c0 & E0 & HI0 & HD0 & Hl0).
    pose proof (init_fs5 c0 (ev_of app st 0) HI0 eq_refl) as HF0.
    assert (Hns0 : ns_inv5 (sks5_init c0) (ev_of app st 0 :: rest)).
    { apply ns_inv5_intro; [reflexivity | rewrite Hp in Hns; exact Hns]. }
    cbn [length] in Hl, Hcnt.
    set (m := (Z.to_nat (phis5 (sks5_init c0)) + length rest * Ksteps)%nat).
    pose proof (phis5_bounds app _ _ HF0) as Hphi. fold phis_max in Hphi.
    assert (Hm : (m < fuel_bound_s (length tr))%nat).
    { unfold m, fuel_bound_s, Ksteps in *.
      assert ((length rest * S (Z.to_nat phis_max) <= length tr * S (Z.to_nat phis_max))%nat) by (apply Nat.mul_le_mono_r; lia).
      lia. }
    destruct (sks5_run_term app Happ m rest (sks5_init c0) _ 0 (fuel_bound_s (length tr)) HF0 Hwf Hsp Hns0 ltac:(lia) Hm) as (c & Hc & Hcb).
    exists c. split; [|lia].
    intros fuel' Hf'. replace fuel' with (fuel_bound_s (length tr) + (fuel' - fuel_bound_s (length tr)))%nat by lia.
    pose proof (sks5_run_more app _ (fuel' - fuel_bound_s (length tr)) _ _ _ _ Hc) as Hc'.
    assert (Hcost : mvp5_cost_sm (fuel_bound_s (length tr) + (fuel' - fuel_bound_s (length tr))) app (seq_evs fuel sp labels st 0) = Some c).
    { unfold mvp5_cost_sm. rewrite E0, Hp. exact Hc'. }
    split; [|exact Hcost].
    apply (mvp5_storemiss_sim fuel st st' tr _ c Hinv Hlen Hsm Hacc Hrun0 Hb Hns Hcost).
  Qed.

  (* C01 / C05 (MVP-5): loads and stores, stores may miss in the L1D *)
  Theorem mvp5_refines_seq_storemiss fuel st st' tr :
    inv (regs st) (mem st) -> (length (regs st) <= 32)%nat -> mem_small st ->
    accesses_ok fuel sp labels st 0 ->
    seq_run fuel sp labels st = Done st' tr ->
    evs_below (seq_evs fuel sp labels st 0) = true ->
    no_stale [] [] false (seq_evs fuel sp labels st 0) = true ->
    exists c, (forall fuel', (fuel_bound_s (length tr) <= fuel')%nat -> mvp5_run fuel' app labels st = MDone c st') /\
              Z.of_nat (length tr) <= c.
  Proof.
    intros Hinv Hlen Hsm Hacc Hrun Hb Hns.
    destruct (mvp5_run_events_s fuel st st' tr Hinv Hlen Hsm Hacc Hrun Hb Hns) as (c & Hc & Hlb).
    exists c. split; [|exact Hlb]. intros fuel' Hf. apply Hc. exact Hf.
  Qed.

  (* C07 (MVP-5): no panic, no error, no divergence *)
  Corollary mvp5_no_panic_sm fuel st st' tr fuel' :
    inv (regs st) (mem st) -> (length (regs st) <= 32)%nat -> mem_small st ->
    accesses_ok fuel sp labels st 0 ->
    seq_run fuel sp labels st = Done st' tr ->
    evs_below (seq_evs fuel sp labels st 0) = true ->
    no_stale [] [] false (seq_evs fuel sp labels st 0) = true ->
    (fuel_bound_s (length tr) <= fuel')%nat ->
    mvp5_run fuel' app labels st <> MPanic /\ mvp5_run fuel' app labels st <> MOutOfFuel /\
    (forall e, mvp5_run fuel' app labels st <> MErr e).
  Proof.
    intros Hinv Hlen Hsm Hacc Hrun Hb Hns Hf.
    destruct (mvp5_refines_seq_storemiss fuel st st' tr Hinv Hlen Hsm Hacc Hrun Hb Hns) as (c & Hc & _).
    rewrite (Hc fuel' Hf). repeat split; try discriminate.
  Qed.

  (* C12 (MVP-5): same events, same cycle count *)
  Theorem mvp5_value_independent_sm fuel st1 st2 st1' st2' tr1 tr2 :
    inv (regs st1) (mem st1) -> (length (regs st1) <= 32)%nat -> mem_small st1 -> accesses_ok fuel sp labels st1 0 ->
    inv (regs st2) (mem st2) -> (length (regs st2) <= 32)%nat -> mem_small st2 -> accesses_ok fuel sp labels st2 0 ->
    seq_run fuel sp labels st1 = Done st1' tr1 ->
    seq_run fuel sp labels st2 = Done st2' tr2 ->
    seq_evs fuel sp labels st1 0 = seq_evs fuel sp labels st2 0 ->
    evs_below (seq_evs fuel sp labels st1 0) = true ->
    no_stale [] [] false (seq_evs fuel sp labels st1 0) = true ->
    exists c, forall fuel', (fuel_bound_s (Nat.max (length tr1) (length tr2)) <= fuel')%nat ->
      mvp5_run fuel' app labels st1 = MDone c st1' /\ mvp5_run fuel' app labels st2 = MDone c st2'.
  Proof.
    intros I1 L1 S1 A1 I2 L2 S2 A2 R1 R2 Hp Hb Hns.
    destruct (mvp5_run_events_s fuel st1 st1' tr1 I1 L1 S1 A1 R1 Hb Hns) as (c1 & Hc1 & _).
    rewrite Hp in Hb, Hns. destruct (mvp5_run_events_s fuel st2 st2' tr2 I2 L2 S2 A2 R2 Hb Hns) as (c2 & Hc2 & _).
    exists c1. intros fuel' Hf.
    assert (Hf1 : (fuel_bound_s (length tr1) <= fuel')%nat).
    { unfold fuel_bound_s in *. pose proof (Nat.le_max_l (length tr1) (length tr2)).
      assert (((length tr1 + 1) * Ksteps <= (Nat.max (length tr1) (length tr2) + 1) * Ksteps)%nat) by (apply Nat.mul_le_mono_r; lia). lia. }
    assert (Hf2 : (fuel_bound_s (length tr2) <= fuel')%nat).
    { unfold fuel_bound_s in *. pose proof (Nat.le_max_r (length tr1) (length tr2)).
      assert (((length tr2 + 1) * Ksteps <= (Nat.max (length tr1) (length tr2) + 1) * Ksteps)%nat) by (apply Nat.mul_le_mono_r; lia). lia. }
    destruct (Hc1 fuel' Hf1) as [H1 K1]. destruct (Hc2 fuel' Hf2) as [H2 K2].
    rewrite Hp in K1. rewrite K1 in K2. injection K2 as <-. auto.
  Qed.
End Top5s.

(* ------------------------------------------------------------------ *)
(* sharpness                                                            *)

Theorem mvp5_three_cold_stores_one_line_refuted :
  let p := [SLi 5 7; SSb 5 0 0; SSb 5 1 0; SSb 5 2 0; SLb 6 2 0; SRet] in
  no_stale [] [] false (seq_evs 20 (map sinstr_of (map instr_of p)) no_lab st_w 0) = false /\
  exists st' tr c st4,
    seq_run 20 p no_lab st_w = Done st' tr /\
    mvp5_run 5000 (map instr_of p) no_lab st_w = MDone c st4 /\
    rget (regs st') 6 = 7 /\ mget (mem st') 2 = 7 /\
    rget (regs st4) 6 = 0 /\ mget (mem st4) 2 = 0.
Proof.
  cbv zeta. split; [vm_compute; reflexivity|].
  do 4 eexists. split; [vm_compute; reflexivity|]. split; [vm_compute; reflexivity|]. vm_compute. repeat split; reflexivity.
Qed.

Example mvp5_one_cold_store_then_load_ok :
  let p := [SLi 5 7; SSw 5 64 0; SLw 6 64 0; SRet] in
  no_stale [] [] false (seq_evs 20 (map sinstr_of (map instr_of p)) no_lab st_w 0) = true /\
  exists st' tr c,
    seq_run 20 p no_lab st_w = Done st' tr /\
    mvp5_run 5000 (map instr_of p) no_lab st_w = MDone c st' /\ rget (regs st') 6 = 7.
Proof.
  cbv zeta. split; [vm_compute; reflexivity|].
  do 3 eexists. split; [vm_compute; reflexivity|]. split; [vm_compute; reflexivity|]. reflexivity.
Qed.

Example mvp5_two_cold_stores_then_load_still_right :
  let p := [SLi 5 7; SSw 5 0 0; SSw 5 64 0; SLw 6 64 0; SRet] in
  no_stale [] [] false (seq_evs 20 (map sinstr_of (map instr_of p)) no_lab st_w 0) = false /\
  exists st' tr c,
    seq_run 20 p no_lab st_w = Done st' tr /\
    mvp5_run 5000 (map instr_of p) no_lab st_w = MDone c st' /\ rget (regs st') 6 = 7.
Proof.
  cbv zeta. split; [vm_compute; reflexivity|].
  do 3 eexists. split; [vm_compute; reflexivity|]. split; [vm_compute; reflexivity|]. reflexivity.
Qed.

Example mvp5_cold_stores_then_other_load_ok :
  let p := [SLi 5 7; SSw 5 0 0; SSw 5 128 0; SSw 5 64 0; SLw 6 192 0; SSw 5 0 0; SSw 5 128 0; SSw 5 64 0; SLw 7 128 0; SRet] in
  no_stale [] [] false (seq_evs 20 (map sinstr_of (map instr_of p)) no_lab st_w 0) = true /\
  exists st' tr c,
    seq_run 20 p no_lab st_w = Done st' tr /\
    mvp5_run 9000 (map instr_of p) no_lab st_w = MDone c st' /\ rget (regs st') 7 = 7 /\ mget (mem st') 64 = 7.
Proof.
  cbv zeta. split; [vm_compute; reflexivity|].
  do 3 eexists. split; [vm_compute; reflexivity|]. split; [vm_compute; reflexivity|]. split; reflexivity.
Qed.
