(* Transport of the MVP-6.3 forward-control-flow theorem (single-assignment register-only
   programs) to MVP-7.0 through the lock-step simulation mvp70_regonly_sim_mvp63:
   MVP-7.0 = MVP-6.3 + one cycle on every program without loads and stores. *)
From Coq Require Import ZArith List Bool Lia.
From Maj Require Import Base.Outcome Base.GoInt Base.GoTypes Isa.Spec Isa.Seq Isa.Refine Gen.Opcodes.
From Maj Require Import Mvp.Mvp12 Mvp.Mvp12Proofs Mvp.Mvp60 Mvp.Mvp63 Mvp.Mvp70 Mvp.Mvp4Skel Mvp.Mvp60RefDefs Mvp.Mvp60RefProofs
     Mvp.Mvp63RefDefs Mvp.Mvp63RefFwdDefs Mvp.Mvp63RefFwdProofs Mvp.Mvp63RefFwdThm Mvp.Mvp70Sim63Proofs.
Import ListNotations.
Open Scope Z_scope.

Definition fuel_bound70_fwd (n : nat) : nat := S (fuel_bound63_fwd n).

Section Fwd70.
  Variables (app : list instr) (labels : Z -> option Z).
  Hypothesis Happ : wf_app app.
  Hypothesis Hreg : reg_only app = true.
  Hypothesis Hssa : ssa app = true.
  Hypothesis Hrng : regs_ok app = true.
  Hypothesis Hfwd : fwd_ok app labels = true.
  Hypothesis Hfit : seq_ids_fit3 app.

  Theorem mvp70_refines_seq_ssa_forward par ord fuel st st' tr : (1 <= par)%nat ->
    Forall int32 (regs st) -> length (regs st) = 32%nat -> nth 0 (regs st) 0 = 0 ->
    seq_run fuel (map sinstr_of app) labels st = Done st' tr ->
    exists c, forall fuel', (fuel_bound70_fwd (length app) <= fuel')%nat ->
      mvp70_run_os par ord fuel' app labels st = (MDone c st', false).
  Proof.
    intros Hpar Hr32 Hlen Hx0 Hrun.
    destruct (mvp63_refines_seq_ssa_forward app labels Happ Hreg Hssa Hrng Hfwd Hfit par ord fuel st st' tr Hpar Hr32 Hlen Hx0 Hrun) as (c & H).
    exists (c + 1). intros fuel' Hf. unfold fuel_bound70_fwd in Hf. destruct fuel' as [|f]; [lia|].
    apply (mvp70_regonly_sim_mvp63 app Hreg (regs_ok_wregs_nonneg app Hrng) par ord f labels st (MDone c st') false); [discriminate|].
    apply H. lia.
  Qed.

  Corollary mvp70_no_panic_ssa_forward par ord fuel st st' tr : (1 <= par)%nat ->
    Forall int32 (regs st) -> length (regs st) = 32%nat -> nth 0 (regs st) 0 = 0 ->
    seq_run fuel (map sinstr_of app) labels st = Done st' tr ->
    forall fuel', (fuel_bound70_fwd (length app) <= fuel')%nat ->
      mvp70_run par ord fuel' app labels st <> MPanic /\ mvp70_run par ord fuel' app labels st <> MOutOfFuel /\
      (forall e, mvp70_run par ord fuel' app labels st <> MErr e) /\ snd (mvp70_run_os par ord fuel' app labels st) = false.
  Proof.
    intros Hpar Hr32 Hlen Hx0 Hrun fuel' Hf.
    destruct (mvp70_refines_seq_ssa_forward par ord fuel st st' tr Hpar Hr32 Hlen Hx0 Hrun) as (c & H).
    unfold mvp70_run. rewrite (H fuel' Hf). cbn [fst snd]. repeat split; try discriminate.
  Qed.
End Fwd70.
