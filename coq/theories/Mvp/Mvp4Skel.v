(* Auxiliary definitions for the proofs about the MVP-4 model (Mvp4.v).
   Nothing here changes the model; everything is either a predicate used in the
   statements (reg_only, seq_path, path_below) or a proof device:

   - the "skeleton" of the pipeline: the control part of an m4state (fetch unit,
     L1I, the two front-end latches, the execute unit's counter, the scoreboard,
     the shape of the write bus) without any register VALUE.  One skeleton cycle
     is driven by the path (the pcs the sequential machine visits): it is the
     only information the control needs (is the executed branch followed by
     pc+4 or not).  Mvp4Proofs.v shows that the model on a register-only
     program is, cycle for cycle, the skeleton plus the sequential values. *)
From Coq Require Import ZArith List Bool Lia.
From Maj Require Import Base.Outcome Base.GoInt Base.GoTypes Isa.Spec Isa.Seq Isa.Refine.
From Maj Require Import Gen.Latency Gen.RiscTables Gen.Opcodes Comp.Cache Mvp.Mvp12 Mvp.Mvp3 Mvp.Mvp4.
Import ListNotations.
Open Scope Z_scope.

(* ------------------------------------------------------------------ *)
(* predicates used in the statements                                    *)

(* no load and no store instruction in the program text *)
Definition nomem (i : instr) : bool :=
  negb (InstructionType_IsMemoryRead (instr_InstructionType i)) &&
  negb (InstructionType_IsMemoryWrite (instr_InstructionType i)).
Definition reg_only (app : list instr) : bool := forallb nomem app.

(* the pcs the sequential machine visits, in order, INCLUDING the one at which
   it halts (the pc of the ret, or the first pc outside the text) *)
Fixpoint seq_path (fuel : nat) (p : list sinstr) (labels : Z -> option Z) (st : arch) (pc : Z) : list Z :=
  match fuel with
  | O => []
  | S f => pc :: match Seq.step p labels st pc with
                 | Next st' pc' => seq_path f p labels st' pc'
                 | _ => []
                 end
  end.

(* every visited pc is below 2^31 - 4 (pc + 4 does not wrap).  Inside the text
   this follows from wf_app; it is a hypothesis on the pc at which the run leaves
   the text only (a jalr / label to an address in the last 4 bytes of the
   int32 range) *)
Definition path_below (path : list Z) : bool := forallb (fun pc => pc <? 2147483644) path.

(* ------------------------------------------------------------------ *)
(* the skeleton                                                         *)

Definition cyc_of (i : instr) : Z :=
  match InstructionType_Cycles (instr_InstructionType i) with Ok c => c | _ => 0 end.

Record sk := mk_sk { k_fu : fu_t; k_l1i : cache; k_dbus : sbus Z; k_ebus : sbus (instr * Z);
                     k_eu : eu_t; k_pw : list Z;
                     k_wb : option (list Z) (* declared write registers of the entry in the write bus *) }.

Inductive eu_act := ANone | AExec (i : instr) (pc : Z) | AStuck.

Definition eu_intake (e : eu_t) (ebus : sbus (instr * Z)) : eu_t * sbus (instr * Z) * bool :=
  if eu_processing e then (e, ebus, true)
  else
    let '(ebus', got) := sbus_get ebus in
    match got with
    | None => (e, ebus', false)
    | Some (i, pc) => (mk_eu true false (eu_addrs e) (eu_memory e) (cyc_of i) (Some (i, pc)), ebus', true)
    end.

Definition set_rem (e : eu_t) (r : Z) : eu_t :=
  mk_eu (eu_processing e) (eu_pending_read e) (eu_addrs e) (eu_memory e) r (eu_runner e).
Definition eu_done (e : eu_t) : eu_t :=
  mk_eu false (eu_pending_read e) (eu_addrs e) (eu_memory e) (eu_remaining e) None.

(* executeUnit.cycle without values: what the unit does this cycle *)
Definition sk_eu (e : eu_t) (ebus : sbus (instr * Z)) (pw : list Z) : eu_t * sbus (instr * Z) * eu_act :=
  let '(e1, ebus1, have) := eu_intake e ebus in
  if negb have then (e1, ebus1, ANone) else
  let rem := eu_remaining e1 - 1 in
  if negb (rem =? 0) then (set_rem e1 rem, ebus1, ANone) else
  match eu_runner e1 with
  | None => (e1, ebus1, AStuck)
  | Some (i, pc) =>
      if pw_hazard pw (instr_ReadRegisters i) then (set_rem e1 1, ebus1, ANone)
      else (eu_done (set_rem e1 rem), ebus1, AExec i pc)
  end.

Definition wdel (pw : list Z) (wb : option (list Z)) : list Z :=
  match wb with Some wr => pw_del pw wr | None => pw end.

(* does executing (i, pc), followed on the path by [next], flush the pipeline *)
Definition sk_flush (i : instr) (pc next : Z) : bool :=
  InstructionType_IsUnconditionalBranch (instr_InstructionType i) || negb (next =? addS 32 pc 4).

Definition sk_complete (a : sk) : bool :=
  fu_complete (k_fu a) && negb (eu_processing (k_eu a)) &&
  sbus_is_empty (k_dbus a) && sbus_is_empty (k_ebus a) &&
  match k_wb a with None => true | Some _ => false end.

Inductive sk_res :=
| KStep (a : sk) (path : list Z) (dc : Z)    (* dc: cycles counted by this iteration of the Run loop *)
| KDone (dc : Z)
| KStuck.

Definition sk_cycle (app : list instr) (a : sk) (path : list Z) : sk_res :=
  match fu_cycle app (k_fu a) (k_l1i a) (k_dbus a) with
  | Ok (fu1, l1i1, dbus1) =>
      match du_cycle app dbus1 (k_ebus a) with
      | Ok (dbus2, ebus1) =>
          let '(e1, ebus2, act) := sk_eu (k_eu a) ebus1 (k_pw a) in
          match act with
          | AStuck => KStuck
          | ANone =>
              let a2 := mk_sk fu1 l1i1 dbus2 ebus2 e1 (wdel (k_pw a) (k_wb a)) None in
              if sk_complete a2 then KDone 1 else KStep a2 path 1
          | AExec i pc =>
              match path with
              | [] => KStuck
              | p :: rest =>
                  if negb (p =? pc) then KStuck
                  else if is_ret i then match rest with [] => KDone 1 | _ :: _ => KStuck end
                  else match rest with
                       | [] => KStuck
                       | next :: _ =>
                           let wr := instr_WriteRegisters i in
                           if sk_flush i pc next then
                             KStep (mk_sk (mk_fu next (fu_remaining fu1) false false) l1i1 sbus_empty sbus_empty
                                          e1 zero_pw None) rest 2
                           else
                             KStep (mk_sk fu1 l1i1 dbus2 ebus2 e1 (wdel (pw_add (k_pw a) wr) (k_wb a)) (Some wr)) rest 1
                       end
              end
          end
      | _ => KStuck
      end
  | _ => KStuck
  end.

Fixpoint sk_run (fuel : nat) (app : list instr) (a : sk) (path : list Z) (cycle : Z) : option Z :=
  match fuel with
  | O => None
  | S f =>
      match sk_cycle app a path with
      | KStep a' path' dc => sk_run f app a' path' (cycle + dc)
      | KDone dc => Some (cycle + dc)
      | KStuck => None
      end
  end.

Definition sk_init (ci : cache) : sk :=
  mk_sk (mk_fu 0 0 false false) ci sbus_empty sbus_empty (mk_eu false false [] None 0 None) zero_pw None.

(* the cycle count of MVP-4 on a register-only program, as a function of the
   program and the path only *)
Definition mvp4_cost (fuel : nat) (app : list instr) (path : list Z) : option Z :=
  match new_cache l1LineSize l1Size with
  | Ok ci => sk_run fuel app (sk_init ci) path 0
  | _ => None
  end.
