(* Refinement of MVP-6.1 to the sequential machine on register-only programs - part 6:
   the execute units and the write units.
     eu_exec1   an idle unit takes the head x of the execute bus (not a branch) and runs it
                at once: a Receiver finds its value in the channel (ChI), the Forward is
                the sequential operand, the instruction computes its sequential effect
                (bf_exec), a Forwarder sends the value, the Forward of the instruction
                object is cleared again
     wu_step1   writeUnit.cycle(ctx, -1) on an entry of the write bus *)
From Coq Require Import ZArith List Bool Lia Permutation.
From Maj Require Import Base.Outcome Base.GoInt Base.GoTypes Isa.Spec Isa.Embed Isa.Seq Isa.Refine.
From Maj Require Import Gen.Latency Gen.RiscTables Gen.Opcodes Comp.Cache.
From Maj Require Import Mvp.Mvp12 Mvp.Mvp12Proofs Mvp.Mvp3 Mvp.Mvp3Proofs Mvp.Mvp4Skel Mvp.Mvp4Inv Mvp.Mvp5 Mvp.Mvp60 Mvp.Mvp61
     Mvp.Mvp60RefSem Mvp.Mvp60RefDefs Mvp.Mvp60RefFront Mvp.Mvp60RefBack Mvp.Mvp60RefStep
     Mvp.Mvp61RefSem Mvp.Mvp61RefFront Mvp.Mvp61RefBack Mvp.Mvp61RefInv.
Import ListNotations.
Open Scope Z_scope.

Definition EuNone1 (e : eu1) : Prop := e_memory (u_e e) = [] /\ e_co (u_e e) = ENone.

(* what an execute unit leaves alone *)
Record EuFrame1 (m m1 : mach1) : Prop := mkEF1 {
  e1_regs : m_regs (y_m m1) = m_regs (y_m m); e1_mem : m_mem (y_m m1) = m_mem (y_m m);
  e1_pw : m_pw (y_m m1) = m_pw (y_m m); e1_pr : m_pr (y_m m1) = m_pr (y_m m);
  e1_l1i : m_l1i (y_m m1) = m_l1i (y_m m); e1_l3 : m_l3 (y_m m1) = m_l3 (y_m m); e1_pend : m_pend (y_m m1) = m_pend (y_m m);
  e1_fu : m_fu (y_m m1) = m_fu (y_m m); e1_dret : m_dret (y_m m1) = m_dret (y_m m); e1_dpbr : m_dpbr (y_m m1) = m_dpbr (y_m m);
  e1_cu : m_cu (y_m m1) = m_cu (y_m m); e1_btb : b_btb (m_bu (y_m m1)) = b_btb (m_bu (y_m m));
  e1_dbus : m_dbus (y_m m1) = m_dbus (y_m m); e1_cbus : m_cbus (y_m m1) = m_cbus (y_m m); e1_ebus : m_ebus (y_m m1) = m_ebus (y_m m);
  e1_wq : bb_q (m_wbus (y_m m1)) = bb_q (m_wbus (y_m m)); e1_wql : bb_ql (m_wbus (y_m m1)) = bb_ql (m_wbus (y_m m));
  e1_wbl : bb_bl (m_wbus (y_m m1)) = bb_bl (m_wbus (y_m m));
  e1_seq : x_seq (y_x m1) = x_seq (y_x m); e1_fwd : x_fwd (y_x m1) = x_fwd (y_x m); e1_xcu : x_cu (y_x m1) = x_cu (y_x m);
  e1_prev : x_prev (y_x m1) = x_prev (y_x m); e1_pcb : x_pcb (y_x m1) = x_pcb (y_x m); e1_xcbus : x_cbus (y_x m1) = x_cbus (y_x m);
  e1_nch : x_nch (y_x m1) = x_nch (y_x m); e1_nid : x_nid (y_x m1) = x_nid (y_x m);
  e1_ebuf : bb_buf (x_ebus (y_x m1)) = bb_buf (x_ebus (y_x m)); e1_eql : bb_ql (x_ebus (y_x m1)) = bb_ql (x_ebus (y_x m));
  e1_ebl : bb_bl (x_ebus (y_x m1)) = bb_bl (x_ebus (y_x m)) }.

Lemma EuFrame1_refl m : EuFrame1 m m.
Proof. constructor; reflexivity. Qed.
Lemma EuFrame1_trans a b c : EuFrame1 a b -> EuFrame1 b c -> EuFrame1 a c.
Proof. intros [] []. constructor; congruence. Qed.

Lemma xs_norm1 X eb chs U R C : x_fwd X = R -> xs_ch (xs_fwd (xs_fwd (xs_ch (xs_ebus X eb) chs) U) R) C = xs_ch (xs_ebus X eb) C.
Proof. destruct X. cbn. intros ->. reflexivity. Qed.
Lemma xs_norm2 X eb R C : x_fwd X = R -> xs_ch (xs_fwd (xs_ebus X eb) R) C = xs_ch (xs_ebus X eb) C.
Proof. destruct X. cbn. intros ->. reflexivity. Qed.

Section Exec.
  Variables (app : list instr) (labels : Z -> option Z) (regs0 mem0 : list Z) (base : nat) (sq : Z).
  Hypothesis Happ : wf_app app.
  Hypothesis Hreg : reg_only app = true.
  Hypothesis Hrng : regs_in_range app = true.
  Hypothesis Hlen32 : length regs0 = 32%nat.
  Hypothesis Hbase : (base <= length app)%nat.
  Let n := length app.
  Let N := stop_from app base.
  Hypothesis Hsq : 0 <= sq /\ 1000 * sq + 4 * Z.of_nat n < 2147483648.

  Notation sreg := (sreg app labels regs0 base).
  Notation eff := (eff app labels regs0 base).
  Notation ik := (ik app).
  Notation rnq := (rnq app sq).
  Notation CoreI := (CoreI app labels regs0 mem0 base sq).
  Notation BackSemF := (BackSemF app labels regs0 base).
  Notation FL1 := (FL1 sq).
  Notation wbq := (wbq app labels regs0 base sq).
  Notation regval := (regval app labels regs0 base).

  Hypothesis Hsem : forall k, (base <= k <= N)%nat -> (k < n)%nat ->
    exec (sinstr_of (ik k)) (rget (sreg k)) labels (pcz k) [] = Ok (eff k) /\
    (forall a, etarget (eff k) = Some a -> exists t, a = pcz t /\ (k < t <= n)%nat).
  Hypothesis Hr32 : Forall int32 regs0.

  Set Default Proof Using "All".
  Notation "'IA' L" := (L app labels regs0 mem0 base sq Happ Hreg Hrng Hlen32 Hbase Hsq Hsem) (at level 10, L at level 9, only parsing).

  Definition notbr (k : nat) : Prop := InstructionType_IsBranch (instr_InstructionType (ik k)) = false.

  (* the response of the unit that executes instruction k (not a branch) *)
  Definition presp (k : nat) : resp1 := if is_ret (ik k) then mk_resp1 false 0 0 true None else resp0.

  Lemma notbr_types k : notbr k ->
    InstructionType_IsUnconditionalBranch (instr_InstructionType (ik k)) = false /\
    InstructionType_IsConditionalBranch (instr_InstructionType (ik k)) = false.
  Proof. unfold notbr, InstructionType_IsBranch. intros H. apply orb_false_iff in H. exact H. Qed.

  (* run on an instruction in flight whose Forward (if any) is the sequential operand *)
  Lemma run_val d rg pw pr F fs k f : BackSemF d rg pw pr F fs -> In k F -> (base <= k <= N)%nat -> (k < n)%nat ->
    FwdVal app labels regs0 base (fs k) k f ->
    instr_Run (ik k) (rr1 f rg) labels (pcz k) [] 0 = Ok (embed (eff k)).
  Proof.
    intros HB Hin HkN Hkn Hf.
    assert (Hf32 : int32 (snd f)).
    { unfold FwdVal in Hf. destruct (fs k); subst f; cbn [snd no_fwd]; [apply rget_int32; apply sreg_int32; exact Hr32 | apply int32_0]. }
    assert (Hrr : forall r, int32 (rr1 f rg r)) by (intros r; apply rr1_int32; [exact Hf32 | apply (bf_r32 _ _ _ _ _ _ _ _ _ _ HB)]).
    rewrite (run_refines_spec (rr1 f rg) labels (pcz k) [] 0 Hrr (ik k) (ik_imm app Happ k Hkn) (nomem_mem_ok _ (IA ik_nomem1 k))).
    rewrite (bf_exec app labels regs0 base (IA Hlen0) d rg pw pr F fs k f HB Hin Hf).
    destruct (Hsem k HkN Hkn) as [He _]. rewrite He. reflexivity.
  Qed.

  Lemma existsb_keys ch chs : ~ In ch (keys chs) -> existsb (fun c : Z * Z => fst c =? ch) chs = false.
  Proof.
    intros H. apply not_true_is_false. intros E. apply existsb_exists in E as (c & Hc & E). apply Z.eqb_eq in E.
    apply H. unfold keys. rewrite <- E. apply in_map. exact Hc.
  Qed.

  (* an idle unit takes x (not a branch) from the head of the execute bus and runs it at once *)
  Lemma eu_exec1 ord cy d P m e r qt :
    CoreI d P m -> EuNone1 e -> u_sid e = 0 -> BusOK cy (m_wbus (y_m m)) -> bb_canadd (m_wbus (y_m m)) = true ->
    bb_q (x_ebus (y_x m)) = r :: qt -> notbr (kr1 r) ->
    exists m1 e1, eu_cycle1 labels ord cy m e = (false, Ok (m1, e1, presp (kr1 r))) /\ EuNone1 e1 /\ u_sid e1 = 0 /\
      CoreI d P m1 /\ BusOK cy (m_wbus (y_m m1)) /\ EuFrame1 m m1 /\
      bb_q (x_ebus (y_x m1)) = qt /\
      bb_buf (m_wbus (y_m m1)) = bb_buf (m_wbus (y_m m)) ++ (if is_ret (ik (kr1 r)) then [] else [(cy + 1, wbq (kr1 r))]) /\
      (base <= kr1 r < d)%nat /\ (kr1 r <= N)%nat /\ (kr1 r < n)%nat /\ r_b r = rnq (kr1 r) /\
      (is_ret (ik (kr1 r)) = true -> ~ In (kr1 r) (FL1 m1)).
  Proof.
    intros HC [Hmem Hco] Hsid HW Hadd Hq Hnb.
    pose proof HC as [H1 H2 H3 (fs & HS & Hlk) H5 H6 H7 H8 H9 H10 [C1 C2 C3 C4 C5 C6] H12 H13 H14].
    assert (HEB : EB m = r :: (qt ++ map snd (bb_buf (x_ebus (y_x m))))) by (unfold EB, flat; rewrite Hq; reflexivity).
    set (E2 := qt ++ map snd (bb_buf (x_ebus (y_x m)))) in *.
    assert (Hr : RunOK1 app base sq d r) by (rewrite HEB in H1; inversion H1; assumption).
    destruct (IA RunOK1_kr d r Hr) as (Hkd & HkN & Hkn & Hrb). set (x := kr1 r) in *.
    assert (HxF : In x (FL1 m)) by (unfold Mvp61RefInv.FL1; rewrite HEB; left; reflexivity).
    destruct (notbr_types x Hnb) as [Hnu Hnc].
    (* the Receiver *)
    assert (Hrcv : exists chs f, (match r_rc r with
                                  | None => chs = x_ch (y_x m) /\ f = no_fwd
                                  | Some ch => ch_take (x_ch (y_x m)) ch = Some (snd f, chs) /\ fst f = r_freg r /\
                                               (forall c' v', In (c', v') chs <-> In (c', v') (x_ch (y_x m)) /\ c' <> ch) /\
                                               (forall c', In c' (keys chs) <-> In c' (keys (x_ch (y_x m))) /\ c' <> ch)
                                  end) /\ NoDup (keys chs) /\ FwdVal app labels regs0 base (fs x) x f).
    { pose proof (Hlk r ltac:(rewrite HEB; left; reflexivity)) as Elk. fold x in Elk. rewrite Elk. unfold rcreg. destruct (r_rc r) as [ch|] eqn:Erc.
      - rewrite HEB in C5. cbn [AvE] in C5. destruct C5 as [Ca _]. specialize (Ca ch Erc).
        destruct (ch_take_spec (x_ch (y_x m)) ch (nodup_app_r _ _ C2) Ca) as (v & chs & Et & Hv & T1 & T2 & T3).
        exists chs, (r_freg r, v). cbn [fst snd]. split; [auto|]. split; [exact T3|]. unfold FwdVal.
        destruct (C4 r ch ltac:(apply in_or_app; right; rewrite HEB; left; reflexivity) Erc) as [Cv _]. rewrite (Cv v Hv). reflexivity.
      - exists (x_ch (y_x m)), no_fwd. split; [auto|]. split; [exact (nodup_app_r _ _ C2) | reflexivity]. }
    destruct Hrcv as (chs & f & Hrc & Hndc & Hfv).
    pose proof (run_val d (m_regs (y_m m)) (m_pw (y_m m)) (m_pr (y_m m)) (FL1 m) fs x f HS HxF ltac:(lia) Hkn Hfv) as Hrun.
    destruct (IA embed_flags1 x ltac:(lia) Hkn) as (Hret & Hmc & Hpc & _).
    (* the Forwarder *)
    assert (Hfwk : forall ch, r_fw r = Some ch -> ~ In ch (keys chs)).
    { intros ch Ef Hin. rewrite HEB, fws_cons in C2. unfold fwl in C2. rewrite Ef in C2. cbn [List.app] in C2. inversion C2 as [|? ? Hno _]; subst.
      apply Hno. apply in_or_app. right. destruct (r_rc r); [apply Hrc; exact Hin | destruct Hrc as [-> _]; exact Hin]. }
    set (ebus' := mk_bb (bb_buf (x_ebus (y_x m))) qt (bb_ql (x_ebus (y_x m))) (bb_bl (x_ebus (y_x m)))).
    set (bu' := mk_bu6 false (b_expect (m_bu (y_m m))) (b_btb (m_bu (y_m m)))).
    set (chs' := match r_fw r with Some ch => chs ++ [(ch, regval x)] | None => chs end).
    set (wbus' := if is_ret (ik x) then m_wbus (y_m m) else bb_add (m_wbus (y_m m)) (wbq x) cy).
    set (m1 := mk_m1 (set_wbus (set_bu (y_m m) bu') wbus') (xs_ch (xs_ebus (y_x m) ebus') chs')).
    set (e1 := mk_eu1 (mk_eu6 ENone (e_memory (u_e e)) (Some (r_b r))) (r_fw r) None (r_freg r) (u_sid e)).
    assert (Ecyc : eu_cycle1 labels ord cy m e = (false, Ok (m1, mk_eu1 (mk_eu6 ENone (e_memory (u_e e)) (Some (r_b r))) (r_fw r)
                       (match r_rc r with Some _ => None | None => None end) (r_freg r) (u_sid e), presp x))).
    { unfold eu_cycle1, eu_pre1. rewrite Hsid. cbn [Z.eqb]. rewrite Hco. unfold bb_get. rewrite Hq. fold ebus'.
      unfold eu_prepare1. cbn [y_m set_x]. rewrite Hadd. cbn [negb u_e e_runner u_rc u_fw u_freg u_sid e_memory y_x xs_ebus x_ch].
      rewrite Hrb. cbn [Mvp61RefFront.rnq r_pc r_instr].
      assert (Hgot : forall mb (eb : eu1), y_m mb = y_m m -> x_fwd (y_x mb) = Seq.upd (repeat no_fwd n) x f \/ (f = no_fwd /\ x_fwd (y_x mb) = repeat no_fwd n) ->
                e_runner (u_e eb) = Some (rnq x) -> e_memory (u_e eb) = [] -> u_fw eb = r_fw r ->
                (forall ch, r_fw r = Some ch -> ~ In ch (keys (x_ch (y_x mb)))) ->
                eu_run1 labels ord cy (bu_assert1 mb (rnq x)) eb
                = (false, Ok (mk_m1 (set_wbus (set_bu (y_m m) bu') wbus')
                                          (xs_ch (xs_fwd (y_x mb) (repeat no_fwd n))
                                                 (match r_fw r with Some ch => x_ch (y_x mb) ++ [(ch, regval x)] | None => x_ch (y_x mb) end)),
                                    eu_co_set eb ENone, presp x))).
      { intros mb eb Ey Efw Er Em Ef Hfk.
        assert (Eb1 : bu_assert1 mb (rnq x) = set_m mb (set_bu (y_m m) bu')).
        { unfold bu_assert1. cbn [Mvp61RefFront.rnq r_instr r_pc]. rewrite Hnu. cbn [andb]. unfold bu_assert6. cbn [Mvp61RefFront.rnq r_instr r_pc].
          rewrite Hnu, Hnc, Ey. reflexivity. }
        rewrite Eb1. unfold eu_run1. rewrite Er. cbn [Mvp61RefFront.rnq r_instr r_pc r_seq]. rewrite Em.
        assert (Egf : get_fwd (set_m mb (set_bu (y_m m) bu')) (pcz x) = f).
        { unfold get_fwd. cbn [set_m y_x]. rewrite (iidx_pcz x). destruct Efw as [Efw|[-> Efw]]; rewrite Efw.
          - apply supd_nth_eq. rewrite repeat_length. exact Hkn.
          - apply nth_repeat. }
        rewrite Egf. cbn [set_m y_m set_bu m_regs]. rewrite Hrun.
        assert (Esf : set_fwd (set_m mb (set_bu (y_m m) bu')) (pcz x) no_fwd
                      = mk_m1 (set_bu (y_m m) bu') (xs_fwd (y_x mb) (repeat no_fwd n))).
        { unfold set_fwd. cbn [set_m y_x y_m set_x]. rewrite (iidx_pcz x).
          destruct Efw as [Efw|[_ Efw]]; rewrite Efw; [rewrite upd_upd|]; rewrite upd_repeat; reflexivity. }
        rewrite Esf. rewrite Hret. unfold presp, wbus'. destruct (is_ret (ik x)) eqn:Eret.
        { unfold quiet1. f_equal. f_equal. f_equal. f_equal.
          (* a ret has no Forwarder: it writes no register *)
          assert (Hfn : r_fw r = None).
          { destruct (r_fw r) as [ch|] eqn:Ef'; [|reflexivity]. exfalso.
            destruct (H14 r ch ltac:(rewrite HEB; left; reflexivity) Ef') as [Hx _]. fold x in Hx. congruence. }
          rewrite Hfn. destruct mb as [bm xm]; destruct xm; reflexivity. }
        rewrite Hmc. cbn [andb bind]. rewrite Ef. cbn [y_m set_wbus m_wbus set_bu].
        change (mk_wb6 (sid sq x) (embed (eff x)) (instr_ReadRegisters (ik x)) (instr_WriteRegisters (ik x))) with (wbq x).
        destruct (r_fw r) as [ch|] eqn:Ef'.
        - cbn [set_m y_x y_m xs_fwd x_ch]. rewrite (existsb_keys ch _ (Hfk ch eq_refl)). unfold notbr in Hnb. rewrite Hnb. reflexivity.
        - rewrite Hnu, Hnc, Hpc, (IA eff_plain x ltac:(lia) Hkn Eret Hnb). reflexivity. }
      cbn [y_x set_x xs_ebus x_ch]. destruct f as [f1 f2]. destruct (r_rc r) as [ch|] eqn:Erc.
      - destruct Hrc as (Et & Ef1 & T1 & T2). cbn [fst snd] in Et, Ef1. subst f1. rewrite Et.
        rewrite (nomem_no_read _ _ _ (IA ik_nomem1 x)).
        rewrite Hgot; [| reflexivity | left; unfold set_fwd; cbn [set_x y_x xs_ch xs_fwd x_fwd xs_ebus]; rewrite (iidx_pcz x), H8; reflexivity
                       | reflexivity | exact Hmem | reflexivity | intros ch' Ef'; cbn [set_fwd set_x y_x xs_fwd xs_ch x_ch]; apply Hfwk; exact Ef'].
        unfold m1, chs', eu_co_set, set_fwd. cbn [set_x y_x y_m xs_ch xs_fwd x_ch u_e e_memory e_runner u_fw u_rc u_freg u_sid e_co].
        rewrite (xs_norm1 _ _ _ _ _ _ H8). reflexivity.
      - destruct Hrc as [-> Ef]. injection Ef as -> ->.
        rewrite (nomem_no_read _ _ _ (IA ik_nomem1 x)).
        rewrite Hgot; [| reflexivity | right; split; [reflexivity | exact H8]
                       | reflexivity | exact Hmem | reflexivity | intros ch' Ef'; apply Hfwk; exact Ef'].
        unfold m1, chs', eu_co_set. cbn [set_x y_x y_m xs_ch xs_fwd x_ch u_e e_memory e_runner u_fw u_rc u_freg u_sid e_co xs_ebus].
        rewrite (xs_norm2 _ _ _ _ H8). reflexivity. }
    exists m1, e1. split; [rewrite Ecyc; unfold e1; destruct (r_rc r); reflexivity|].
    split; [split; [exact Hmem | reflexivity]|]. split; [exact Hsid|].
    (* the machine afterwards *)
    assert (HE1 : EB m1 = E2) by reflexivity.
    assert (HW1 : WB m1 = WB m ++ (if is_ret (ik x) then [] else [wbq x])).
    { unfold WB, m1, wbus'. cbn [y_m set_wbus m_wbus]. destruct (is_ret (ik x)); [rewrite app_nil_r; reflexivity | apply add_flat]. }
    assert (Hsub : forall r0, In r0 E2 -> In r0 (EB m)) by (intros r0 Hr0; rewrite HEB; right; exact Hr0).
    assert (Hfwret : is_ret (ik x) = true -> r_fw r = None).
    { intros Er. destruct (r_fw r) as [ch|] eqn:Ef; [|reflexivity]. destruct (H14 r ch ltac:(rewrite HEB; left; reflexivity) Ef) as [Hx _]. fold x in Hx. congruence. }
    assert (Hkeys' : keys chs' = keys chs ++ fwl r).
    { unfold chs', fwl. destruct (r_fw r); [rewrite keys_app; reflexivity | rewrite app_nil_r; reflexivity]. }
    assert (Hk : forall c, In c (keys chs) <-> In c (keys (x_ch (y_x m))) /\ r_rc r <> Some c).
    { intros c. destruct (r_rc r) as [ch|]; [destruct Hrc as (_ & _ & _ & T2); rewrite T2; split; intros [A B]; (split; [exact A | congruence])
                                           | destruct Hrc as [-> _]; split; [intros A; split; [exact A | discriminate] | tauto]]. }
    assert (Hv : forall c v, In (c, v) chs -> In (c, v) (x_ch (y_x m))).
    { intros c v Hin. destruct (r_rc r) as [ch|]; [destruct Hrc as (_ & _ & T1 & _); apply T1 in Hin; tauto | destruct Hrc as [-> _]; exact Hin]. }
    assert (Hrcne : forall c, In c (rcs (P ++ E2)) -> r_rc r <> Some c).
    { intros c Hc Er. rewrite HEB in C3. rewrite rcs_app, rcs_cons in C3. unfold rcl in C3. rewrite Er in C3. rewrite rcs_app in Hc.
      apply NoDup_remove_2 in C3. apply C3. cbn [List.app]. exact Hc. }
    assert (HC1 : CoreI d P m1).
    { constructor; rewrite ?HE1, ?HW1.
      - rewrite HEB in H1. inversion H1; assumption.
      - exact H2.
      - apply Forall_app. split; [exact H3|]. destruct (is_ret (ik x)) eqn:Eret; [constructor|]. constructor; [|constructor].
        exists x. repeat split; auto; lia.
      - exists fs. split; [|intros r0 Hr0; apply Hlk; apply Hsub; exact Hr0].
        change (m_regs (y_m m1)) with (m_regs (y_m m)). change (m_pw (y_m m1)) with (m_pw (y_m m)). change (m_pr (y_m m1)) with (m_pr (y_m m)).
        unfold Mvp61RefInv.FL1. rewrite HE1, HW1. destruct (is_ret (ik x)) eqn:Eret.
        + rewrite app_nil_r. destruct (ret_slots app x Eret) as [A B].
          eapply (bf_drop app labels regs0 base); [|exact B | exact A].
          eapply bf_perm; [|exact HS]. unfold Mvp61RefInv.FL1. rewrite HEB. cbn [map List.app]. apply Permutation_refl.
        + eapply bf_perm; [|exact HS]. unfold Mvp61RefInv.FL1. rewrite HEB, map_app. cbn [map List.app]. fold x. rewrite (IA kw1_wbq). perm_nat.
      - exact H5.
      - exact H6.
      - intros Ed Hr'. left. destruct (H7 Ed Hr') as [Hx|Hx]; rewrite HEB in Hx; [discriminate | apply (f_equal (@tl runner)) in Hx; exact Hx].
      - exact H8.
      - exact H9.
      - intros Hp. destruct (H10 Hp) as (r0 & Hin & Hc). exists r0. split; [|exact Hc]. rewrite HEB in Hin. destruct Hin as [<-|Hin]; [|exact Hin].
        exfalso. rewrite Hrb in Hc. unfold condbr in Hc. cbn [Mvp61RefFront.rnq r_instr] in Hc. congruence.
      - rewrite Forall_forall in C1.
        constructor; rewrite ?HE1; change (x_ch (y_x m1)) with chs'; change (x_nch (y_x m1)) with (x_nch (y_x m)); rewrite ?Hkeys'.
        + apply Forall_forall. intros c Hc. apply C1. rewrite HEB, fws_cons. rewrite !in_app_iff in Hc. rewrite !in_app_iff.
          destruct Hc as [[Hc|Hc]|[Hc|Hc]]; [apply Hk in Hc; tauto | tauto | tauto|].
          right. right. rewrite rcs_app in Hc |- *. rewrite rcs_cons. rewrite !in_app_iff in *. tauto.
        + rewrite HEB, fws_cons in C2.
          eapply Permutation_NoDup; [|apply (nodup_app_incl_r (fwl r ++ fws E2) (keys (x_ch (y_x m))) (keys chs)); [exact C2 | exact Hndc | intros c Hc; apply Hk in Hc; tauto]].
          rewrite <- app_assoc. rewrite (app_assoc (fws E2)). apply Permutation_app_comm.
        + rewrite HEB in C3. rewrite rcs_app, rcs_cons in C3. rewrite rcs_app. exact (nodup_remove_mid _ _ _ C3).
        + intros r0 c Hin Hc.
          assert (Hin0 : In r0 (P ++ EB m)) by (apply in_app_or in Hin as [Hin|Hin]; apply in_or_app; [left; exact Hin | right; apply Hsub; exact Hin]).
          destruct (C4 r0 c Hin0 Hc) as [A B]. split.
          * intros v Hin'. unfold chs' in Hin'. destruct (r_fw r) as [ch'|] eqn:Ef; [apply in_app_or in Hin' as [Hin'|[Hin'|[]]]|]; try (apply A, Hv; exact Hin').
            injection Hin' as <- <-. apply (B r ltac:(rewrite HEB; left; reflexivity) Ef).
          * intros p0 Hp0. apply B. apply Hsub. exact Hp0.
        + rewrite HEB in C5. cbn [AvE] in C5. destruct C5 as [_ C5]. eapply AvE_mono; [|exact C5].
          intros c Hc Hin. apply in_app_or in Hin as [Hin|Hin]; apply in_or_app; [left | right; exact Hin].
          apply Hk. split; [exact Hin|]. apply Hrcne. rewrite rcs_app. apply in_or_app. right. exact Hc.
        + intros r0 c Hr0 Hc. destruct (C6 r0 c Hr0 Hc) as [Hin|Hin].
          * left. apply in_or_app. left. apply Hk. split; [exact Hin|]. apply Hrcne. rewrite rcs_app. apply in_or_app. left. apply rcs_in. exists r0. auto.
          * rewrite HEB, fws_cons in Hin. apply in_app_or in Hin as [Hin|Hin]; [left; apply in_or_app; right; exact Hin | right; exact Hin].
      - rewrite HEB in H12. cbn [map] in H12. inversion H12; assumption.
      - rewrite HEB in H13. inversion H13; assumption.
      - intros p0 c Hp0. apply H14. apply Hsub. exact Hp0. }
    split; [exact HC1|]. split.
    { unfold m1, wbus'. cbn [y_m set_wbus m_wbus]. destruct (is_ret (ik x)); [exact HW | apply add_ok; exact HW]. }
    split.
    { unfold m1, wbus'. constructor; cbn [y_m y_x set_wbus set_bu xs_ch xs_ebus m_regs m_mem m_pw m_pr m_l1i m_l3 m_pend m_fu m_dret m_dpbr m_cu m_bu m_dbus m_cbus m_ebus m_wbus
        x_seq x_fwd x_cu x_prev x_pcb x_cbus x_nch x_nid x_ebus bb_buf bb_ql bb_bl ebus' bu' b_btb]; try reflexivity; destruct (is_ret (ik x)); reflexivity. }
    split; [reflexivity|]. split.
    { unfold m1, wbus'. cbn [y_m set_wbus m_wbus]. destruct (is_ret (ik x)); [rewrite app_nil_r; reflexivity | reflexivity]. }
    split; [exact Hkd|]. split; [exact HkN|]. split; [exact Hkn|]. split; [exact Hrb|].
    intros Eret. destruct (c_sem _ _ _ _ _ _ _ _ _ HC) as (fs' & HS' & _).
    assert (HP : Permutation (FL1 m) (x :: FL1 m1)).
    { unfold Mvp61RefInv.FL1. rewrite HE1, HW1, HEB, Eret, app_nil_r. cbn [map List.app]. apply Permutation_refl. }
    pose proof (bf_nodup _ _ _ _ _ _ _ _ _ _ (bf_perm _ _ _ _ _ _ _ _ _ _ _ HP HS')) as Hnd. inversion Hnd; assumption.
  Qed.

  (* ---------------------------------------------------------------- *)
  (* write units                                                       *)

  Lemma wb_apply1 ma k w : (base <= k <= N)%nat -> (k < n)%nat -> is_ret (ik k) = false ->
    exists m1, (if RegisterChange (embed (eff k))
                then Ok (del_pending6 (set_regs ma (rset (m_regs ma) (Register (embed (eff k))) (RegisterValue (embed (eff k)))))
                                      (instr_ReadRegisters (ik k)) (instr_WriteRegisters (ik k)), w)
                else if MemoryChange (embed (eff k)) then Ok (ma, mk_wu6 (WMem MemoryAccess) (Some (wbq k)))
                else Ok (del_pending6 ma (instr_ReadRegisters (ik k)) (instr_WriteRegisters (ik k)), w)) = Ok (m1, w) /\
      m_regs m1 = apply_eff (eff k) (m_regs ma) /\ m_pw m1 = sb_decr (m_pw ma) (instr_WriteRegisters (ik k)) /\
      m_pr m1 = sb_decr (m_pr ma) (instr_ReadRegisters (ik k)) /\
      m_mem m1 = m_mem ma /\ m_l1i m1 = m_l1i ma /\ m_l3 m1 = m_l3 ma /\ m_pend m1 = m_pend ma /\ m_fu m1 = m_fu ma /\
      m_dret m1 = m_dret ma /\ m_dpbr m1 = m_dpbr ma /\ m_cu m1 = m_cu ma /\ m_bu m1 = m_bu ma /\ m_dbus m1 = m_dbus ma /\
      m_cbus m1 = m_cbus ma /\ m_ebus m1 = m_ebus ma /\ m_wbus m1 = m_wbus ma.
  Proof.
    intros H1 H2 Hnr. pose proof (IA eff_ret1 k H1 H2) as Hr. pose proof (eff_nostore app labels regs0 base Hreg Hsem k) as Hs.
    destruct (eff k) as [rd v|bs| |a|rd v a|] eqn:Ee; cbn [embed].
    - destruct (reg_pair rd v) as [r0 x0] eqn:Erp. cbn [RegisterChange Register RegisterValue]. eexists. split; [reflexivity|].
      cbn [del_pending6 set_sb set_regs m_regs m_pw m_pr m_mem m_l1i m_l3 m_pend m_fu m_dret m_dpbr m_cu m_bu m_dbus m_cbus m_ebus m_wbus apply_eff].
      rewrite <- (rset_reg_pair (m_regs ma) rd v), Erp. repeat split.
    - exfalso. exact (Hs bs H1 H2 eq_refl).
    - cbn [RegisterChange MemoryChange]. eexists. split; [reflexivity|]. repeat split.
    - cbn [RegisterChange MemoryChange]. eexists. split; [reflexivity|]. repeat split.
    - destruct (reg_pair rd v) as [r0 x0] eqn:Erp. cbn [RegisterChange Register RegisterValue]. eexists. split; [reflexivity|].
      cbn [del_pending6 set_sb set_regs m_regs m_pw m_pr m_mem m_l1i m_l3 m_pend m_fu m_dret m_dpbr m_cu m_bu m_dbus m_cbus m_ebus m_wbus apply_eff].
      rewrite <- (rset_reg_pair (m_regs ma) rd v), Erp. repeat split.
    - rewrite (proj1 Hr eq_refl) in Hnr. discriminate.
  Qed.

  (* writeUnit.cycle(ctx, -1) of an idle write unit *)
  Lemma wu_step1 d P m w : CoreI d P m -> u_co w = WNone ->
    exists b1, wu_cycle6 (y_m m) w (-1) = Ok (b1, w) /\ CoreI d P (set_m m b1) /\ WuFrame (y_m m) b1 /\
      (forall k, In k (FL1 (set_m m b1)) -> In k (FL1 m)) /\
      (forall cy, BusOK cy (m_wbus (y_m m)) -> BusOK cy (m_wbus b1)).
  Proof.
    intros HC Hco. pose proof HC as [H1 H2 H3 (fs & HS & Hlk) H5 H6 H7 H8 H9 H10 H11 H12 H13 H14]. unfold wu_cycle6. rewrite Hco. unfold bb_get.
    destruct (bb_q (m_wbus (y_m m))) as [|x0 q'] eqn:Eq.
    { exists (y_m m). rewrite set_wbus_same. split; [reflexivity|]. split; [destruct m; exact HC|].
      split; [constructor; try reflexivity; rewrite Eq; reflexivity|]. split; [destruct m; auto | auto]. }
    set (ma := set_wbus (y_m m) (mk_bb (bb_buf (m_wbus (y_m m))) q' (bb_ql (m_wbus (y_m m))) (bb_bl (m_wbus (y_m m))))).
    assert (Hflat : WB m = x0 :: flat (m_wbus ma)).
    { unfold WB, flat, ma. cbn [set_wbus m_wbus bb_q bb_buf]. rewrite Eq. reflexivity. }
    assert (Hx : WbOK1 app labels regs0 base sq d x0) by (rewrite Hflat in H3; inversion H3; assumption).
    destruct Hx as (k & Hkd & HkN & Hkn & Hnr & ->).
    change (negb (-1 =? -1) && (-1 <? w_seq (wbq k))) with false. cbn iota.
    assert (HFL : Permutation (FL1 m) (k :: (map kr1 (EB m) ++ map (kw1 sq) (flat (m_wbus ma))))).
    { unfold Mvp61RefInv.FL1. rewrite Hflat. cbn [map]. rewrite (IA kw1_wbq). perm_nat. }
    set (F' := map kr1 (EB m) ++ map (kw1 sq) (flat (m_wbus ma))) in *.
    assert (HS0 : BackSemF d (m_regs (y_m m)) (m_pw (y_m m)) (m_pr (y_m m)) (k :: F') fs) by (eapply bf_perm; [exact HFL | exact HS]).
    pose proof (bf_pwlen _ _ _ _ _ _ _ _ _ _ HS) as Lw. pose proof (bf_prlen _ _ _ _ _ _ _ _ _ _ HS) as Lr.
    assert (HS' : BackSemF d (apply_eff (eff k) (m_regs (y_m m))) (sb_decr (m_pw (y_m m)) (instr_WriteRegisters (ik k)))
                          (sb_decr (m_pr (y_m m)) (instr_ReadRegisters (ik k))) F' fs).
    { apply (bf_writeback app labels regs0 base (IA Hlen0) d (m_regs (y_m m)) (m_pw (y_m m)) (m_pr (y_m m))); auto.
      - intros s Hs. eapply (IA eff_writes1); try eassumption. lia.
      - rewrite sb_decr_length. exact Lw.
      - rewrite sb_decr_length. exact Lr.
      - intros s Hs. apply sb_decr_nth; [lia|]. intros s' Hs'. rewrite Lw in Hs'.
        rewrite (bf_pw _ _ _ _ _ _ _ _ _ _ HS0 s' Hs'). apply (cnt_member_ge1 (wsl app)). left. reflexivity.
      - intros s Hs. apply sb_decr_nth; [lia|]. intros s' Hs'. rewrite Lr in Hs'.
        rewrite (bf_pr _ _ _ _ _ _ _ _ _ _ HS0 s' Hs'). apply (cnt_member_ge1 (rsl app)). left. reflexivity. }
    cbn [Mvp61RefInv.wbq w_exe w_reads w_writes].
    destruct (wb_apply1 ma k w ltac:(lia) Hkn Hnr) as (b1 & E & R1 & R2 & R3 & R4 & R5 & R6 & R7 & R8 & R9 & R10 & R11 & R12 & R13 & R14 & R15 & R16).
    exists b1. split; [exact E|].
    assert (HWB1 : WB (set_m m b1) = flat (m_wbus ma)) by (unfold WB; cbn [set_m y_m]; rewrite R16; reflexivity).
    assert (HFL1 : FL1 (set_m m b1) = F') by (unfold Mvp61RefInv.FL1; rewrite HWB1; reflexivity).
    split; [|split; [|split]].
    - constructor; rewrite ?HWB1, ?HFL1; change (EB (set_m m b1)) with (EB m); change (y_x (set_m m b1)) with (y_x m); cbn [set_m y_m];
        rewrite ?R1, ?R2, ?R3, ?R4, ?R6; auto.
      + rewrite Hflat in H3. inversion H3; assumption.
      + exists fs. split; [exact HS' | exact Hlk].
      + eapply (IA ChI_ext); [| | |exact H11]; reflexivity.
    - constructor; rewrite ?R4, ?R5, ?R6, ?R7, ?R8, ?R9, ?R10, ?R11, ?R12, ?R13, ?R14, ?R15, ?R16; try reflexivity.
      unfold ma. cbn [set_wbus m_wbus bb_q]. rewrite Eq. reflexivity.
    - intros k0 Hk0. rewrite HFL1 in Hk0. eapply Permutation_in; [apply Permutation_sym; exact HFL | right; exact Hk0].
    - intros cy [B1 B2 B3 B4]. rewrite R16. unfold ma. constructor; cbn [set_wbus m_wbus bb_buf bb_ql bb_bl]; auto.
      unfold qlen in *. cbn [bb_q]. rewrite Eq in B3. unfold zlen in *. cbn [length] in B3. lia.
  Qed.

  (* for _, wu := range m.writeUnits { wu.cycle(ctx, -1) } *)
  Lemma wus_ok1 d P : forall wus m, CoreI d P m -> Forall (fun w => u_co w = WNone) wus ->
    exists b1, wus_cycle (y_m m) wus (-1) = Ok (b1, wus) /\ CoreI d P (set_m m b1) /\
      m_mem b1 = m_mem (y_m m) /\ m_l1i b1 = m_l1i (y_m m) /\ m_l3 b1 = m_l3 (y_m m) /\ m_pend b1 = m_pend (y_m m) /\ m_fu b1 = m_fu (y_m m) /\
      m_dret b1 = m_dret (y_m m) /\ m_dpbr b1 = m_dpbr (y_m m) /\ m_cu b1 = m_cu (y_m m) /\ m_bu b1 = m_bu (y_m m) /\ m_dbus b1 = m_dbus (y_m m) /\
      m_cbus b1 = m_cbus (y_m m) /\ m_ebus b1 = m_ebus (y_m m) /\
      bb_buf (m_wbus b1) = bb_buf (m_wbus (y_m m)) /\ bb_ql (m_wbus b1) = bb_ql (m_wbus (y_m m)) /\ bb_bl (m_wbus b1) = bb_bl (m_wbus (y_m m)) /\
      bb_q (m_wbus b1) = skipn (length wus) (bb_q (m_wbus (y_m m))) /\
      (forall k, In k (FL1 (set_m m b1)) -> In k (FL1 m)) /\
      (forall cy, BusOK cy (m_wbus (y_m m)) -> BusOK cy (m_wbus b1)).
  Proof.
    induction wus as [|w t IH]; intros m HC Hw.
    - exists (y_m m). cbn [wus_cycle length skipn]. split; [reflexivity|]. split; [destruct m; exact HC|].
      repeat (split; [reflexivity|]). split; [destruct m; auto | auto].
    - inversion Hw as [|? ? Hw1 Hw2]; subst. cbn [wus_cycle].
      destruct (wu_step1 d P m w HC Hw1) as (b1 & E & A1 & A2 & A3 & A4). rewrite E. cbn [bind fst snd].
      destruct (IH (set_m m b1) A1 Hw2) as (b2 & E2 & B1 & B2 & B3 & B4 & B5 & B6 & B7 & B8 & B9 & B10 & B11 & B12 & B13 & B14 & B15 & B16 & B17 & B18 & B19).
      cbn [set_m y_m] in E2, B2, B3, B4, B5, B6, B7, B8, B9, B10, B11, B12, B13, B14, B15, B16, B17, B19.
      rewrite E2. cbn [bind fst snd]. destruct A2. exists b2. split; [reflexivity|]. split; [exact B1|].
      repeat (split; [congruence|]).
      split; [rewrite B17, wf_wq; cbn [length]; destruct (bb_q (m_wbus (y_m m))); [destruct (length t); reflexivity | reflexivity]|].
      split; [intros k Hk; apply A3, B18; exact Hk | intros cy Hc; apply B19, A4; exact Hc].
  Qed.
End Exec.
