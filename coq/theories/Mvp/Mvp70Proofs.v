(* Facts about the cycle-level model of MVP-7.0 / MVP-7.1 (Mvp70.v, Mvp71.v).

   1. Witnesses, closed by vm_compute on the model (the Go code gives the same lines through the harness):
        flush_loop_hang     three units finish in the cycle in which a flush is decided: the write bus holds more
                            entries than its queue takes in one Connect, and the loop
                            `for !wu.isEmpty() || !m.writeBus.IsEmpty()` before the flush never ends (Connect is
                            outside it).  Out of fuel at 3 units, fine at 2.          [bounded: 6000 ticks]
        flush_unlock_panic  a wrong-path store has taken the write lock of its line when the branch is resolved:
                            the Pre hook of its unit flushes the controller (Unlock), cacheController.flush leaves
                            the entry in lockSems (it deletes from rlockSems), CPU.flush flushes the controller
                            again: Unlock of a free semaphore, panic("write is negative").  3 units; fine at 2.
        stale_load          no ordering between a store and a younger load of the same bytes on another core:
                            the load fetches the line from memory while the store is still waiting for its own
                            fetch.  4 units: s3 = 0 instead of -1280; fine at 1.
        stale_forward_hang  MVP-7.1 only: in the cycle in which the control unit refreshes its copy of the MSI states
                            it returns before installing the deferred function, so pushedRunnersInPreviousCycle
                            still holds the runners of the cycle before; the next cycle forwards from one of them,
                            but an execute unit has already copied that runner (u.runner = *runner): the Forwarder
                            assigned through the pointer is never used, the receiver waits for ever.
                            2 units: out of fuel in 7.1, fine in 7.0.                 [bounded: 6000 ticks]
   2. run7_cycles_pos / mvp70_cycles_pos / mvp71_cycles_pos: a run that returns reports at least one cycle.
   3. run7_st_ord_irrelevant / mvp70_ord_irrelevant / mvp71_ord_irrelevant: soundness of the ghost flag - a run
      that ends with the flag clear returns the same result for all iteration orders of
      controlUnit.pushedRunnersInPreviousCycle (order functions that agree on the RAT value maps, as in
      Mvp63Proofs.v).  The memory system takes no order argument at all.
   4. mvp70_dispatch_width: the control unit is that of MVP-6.3 - at most two instructions per cycle reach the
      execute bus whatever the number of cores (cu_dispatch_bound3 of Mvp63Proofs.v through front3). *)
From Coq Require Import ZArith List Bool Lia.
From Maj Require Import Base.Outcome Base.GoInt Base.GoTypes Isa.Spec Isa.Seq Isa.Refine.
From Maj Require Import Gen.Latency Gen.RiscTables Gen.Opcodes Comp.Cache Comp.Rat Mvp.Mvp12 Mvp.Mvp3 Mvp.Mvp5 Mvp.Mvp60 Mvp.Mvp63 Mvp.Mvp70 Mvp.Mvp71.
From Maj Require Import Mvp.Mvp60Proofs Mvp.Mvp63Proofs.
Import ListNotations.
Open Scope Z_scope.

(* ------------------------------------------------------------------ *)
(* 1. witnesses                                                         *)
(* ------------------------------------------------------------------ *)

Definition st7_of (memsize : nat) (rs : list (Z * Z)) (ms : list (Z * Z)) : arch :=
  mk_arch (fold_left (fun r p => Seq.upd r (Z.to_nat (fst p)) (snd p)) rs (repeat 0 32))
          (fold_left (fun m p => Seq.upd m (Z.to_nat (fst p)) (snd p)) ms (repeat 0 memsize)).

Definition cycles_of (r : mres) : option Z := match r with MDone c _ => Some c | _ => None end.

(* li a5, 5 ; L1: lw t4, 0(a2) ; lw t5, 0(a2) ; addi a5, a5, -1 ; bnez a5, L1 *)
Definition hang_prog : list instr :=
  map instr_of [SLi 15 5; SLw 29 0 12; SLw 30 0 12; SAddi 15 15 (-1); SBnez 15 1].
Example flush_loop_hang :
  cycles_of (mvp70_run 2 ord_asc 6000 hang_prog (one_label 4) (st7_of 128 [] [])) = Some 669 /\
  mvp70_run 3 ord_asc 6000 hang_prog (one_label 4) (st7_of 128 [] []) = MOutOfFuel /\
  mvp71_run 3 ord_asc 6000 hang_prog (one_label 4) (st7_of 128 [] []) = MOutOfFuel.
Proof. vm_compute. repeat split. Qed.

(* lw s0, 0(a1) ; bne s2, s0, L1 ; li a2, 945 ; sb a2, 2(a2) ; L1:      mem[3] = -56 *)
Definition unlock_prog : list instr :=
  map instr_of [SLw 8 0 11; SBne 18 8 1; SLi 12 945; SSb 12 2 12].
Example flush_unlock_panic :
  cycles_of (mvp70_run 2 ord_asc 3000 unlock_prog (one_label 16) (st7_of 1024 [] [(3, -56)])) = Some 631 /\
  mvp70_run 3 ord_asc 3000 unlock_prog (one_label 16) (st7_of 1024 [] [(3, -56)]) = MPanic /\
  mvp71_run 3 ord_asc 3000 unlock_prog (one_label 16) (st7_of 1024 [] [(3, -56)]) = MPanic.
Proof. vm_compute. repeat split. Qed.

(* lh t4, 0(t0) ; li t2, 59 ; sb s0, 0(t2) ; li s7, 58 ; lh s3, 0(s7)      s0 = 1897636091 (low byte -5) *)
Definition stale_prog : list instr :=
  map instr_of [SLh 29 0 5; SLi 7 59; SSb 8 0 7; SLi 23 58; SLh 19 0 23].
Example stale_load :
  reg_of (mvp12_run V1 1000 stale_prog no_labels (st7_of 64 [(8, 1897636091)] [])) 19 = Some (-1280) /\
  reg_of (mvp70_run 1 ord_asc 3000 stale_prog no_labels (st7_of 64 [(8, 1897636091)] [])) 19 = Some (-1280) /\
  reg_of (mvp70_run 4 ord_asc 3000 stale_prog no_labels (st7_of 64 [(8, 1897636091)] [])) 19 = Some 0.
Proof. vm_compute. repeat split. Qed.

(* li a0, 1484 ; ori s1, t6, 1 ; lw t2, 60(a0) ; lw t2, 64(a2) ; li a0, 1540 ; sw t6, 0(a0) ; li a0, 380 ; sw s1, 0(a0) *)
Definition stalefwd_prog : list instr :=
  map instr_of [SLi 10 1484; SOri 9 31 1; SLw 7 60 10; SLw 7 64 12; SLi 10 1540; SSw 31 0 10; SLi 10 380; SSw 9 0 10].
Example stale_forward_hang :
  cycles_of (mvp70_run 2 ord_asc 6000 stalefwd_prog no_labels (st7_of 2048 [] [])) = Some 1562 /\
  cycles_of (mvp71_run 1 ord_asc 6000 stalefwd_prog no_labels (st7_of 2048 [] [])) = Some 1878 /\
  mvp71_run 2 ord_asc 6000 stalefwd_prog no_labels (st7_of 2048 [] []) = MOutOfFuel.
Proof. vm_compute. repeat split. Qed.

(* ------------------------------------------------------------------ *)
(* 2. cycles                                                            *)
(* ------------------------------------------------------------------ *)

Lemma cc_export_ge : forall i id ls mem c0 mem' c, cc_export i id ls mem c0 = Ok (mem', c) -> c0 <= c.
Proof.
  intros i id ls. induction ls as [|l t IH]; intros mem c0 mem' c H; cbn [cc_export] in H.
  - injection H as _ <-. lia.
  - destruct (negb _).
    + eapply IH; exact H.
    + apply bind_ok in H as (m1 & _ & H). apply IH in H. unfold MemoryAccess in H. lia.
Qed.

Lemma export7_ge : forall i eus id mem c0 mem' c, export7 i id eus mem c0 = Ok (mem', c) -> c0 <= c.
Proof.
  intros i eus. induction eus as [|e t IH]; intros id mem c0 mem' c H; cbn [export7] in H.
  - injection H as _ <-. lia.
  - apply bind_ok in H as ([m1 c1] & E & H). apply cc_export_ge in E. apply IH in H. simpl in H. lia.
Qed.

Lemma finish7_ge : forall ord w eus cycle c st, finish7 ord w eus cycle = MDone c st -> cycle <= c.
Proof.
  intros ord w eus cycle c st H. unfold finish7 in H.
  destruct (export7 _ _ _ _ _) as [[mem' c']| |] eqn:E; try discriminate.
  inversion H; subst. apply export7_ge in E. lia.
Qed.

Lemma ret_check7_res : forall s, exists s', ret_check7 s = UCont s' /\ v_cycle s' = v_cycle s.
Proof. intros s. unfold ret_check7. destruct (_ && _); eexists; split; reflexivity. Qed.

Lemma res_of7_inv : forall A os (o : outcome A) k r,
  res_of7 os o k = r ->
  (exists x, o = Ok x /\ k x = r) \/ (exists e, o = Err e /\ r = UDone (MErr e) os) \/ (o = Panic /\ r = UDone MPanic os).
Proof. intros A os o k r H. destruct o; simpl in H; eauto. Qed.

Ltac res_step7 H x :=
  apply res_of7_inv in H;
  destruct H as [[x [? H]] | [[? [? H]] | [? H]]]; [ | try discriminate H | try discriminate H ].

Lemma flush_advance7_done : forall s k seq pc from empty c st os,
  flush_advance7 s k seq pc from empty = UDone (MDone c st) os -> False.
Proof.
  intros s k seq pc from empty c st os H. unfold flush_advance7 in H.
  destruct (flush_next _ _ _); [discriminate|]. destruct empty; [|discriminate].
  res_step7 H r. discriminate.
Qed.

Lemma flush_advance7_cont : forall s k seq pc from empty s',
  flush_advance7 s k seq pc from empty = UCont s' -> v_cycle s <= v_cycle s'.
Proof.
  intros s k seq pc from empty s' H. unfold flush_advance7 in H.
  destruct (flush_next _ _ _); [inversion H; simpl; lia|]. destruct empty; [|inversion H; simpl; lia].
  res_step7 H r. inversion H; simpl; unfold Flush; lia.
Qed.

Lemma back7_done : forall s cycle z c st os, back7 s cycle z = UDone (MDone c st) os -> False.
Proof.
  intros s cycle [[w eus1] o] c st os H. unfold back7 in H.
  destruct (y_err o); try discriminate.
  res_step7 H r. destruct r as [x2 wus1].
  destruct (y_ret o).
  - match type of H with ret_check7 ?a = _ => destruct (ret_check7_res a) as [s' [E _]]; rewrite E in H; discriminate end.
  - destruct (y_flush o); try discriminate. destruct (is_empty7 _ _ _); discriminate.
Qed.

Lemma back7_cont : forall s cycle z s', back7 s cycle z = UCont s' -> cycle <= v_cycle s'.
Proof.
  intros s cycle [[w eus1] o] s' H. unfold back7 in H.
  destruct (y_err o); try discriminate.
  res_step7 H r. destruct r as [x2 wus1].
  destruct (y_ret o).
  - match type of H with ret_check7 ?a = _ => destruct (ret_check7_res a) as [s2 [E L]]; rewrite E in H; inversion H; subst; simpl in L; lia end.
  - destruct (y_flush o); [inversion H; simpl; lia|].
    destruct (is_empty7 _ _ _); inversion H; simpl; lia.
Qed.

Lemma step7_done : forall hk app labels ord s c st os,
  step7 hk app labels ord s = UDone (MDone c st) os -> v_cycle s + 1 <= c.
Proof.
  intros hk app labels ord s c st os H. unfold step7 in H.
  destruct (v_mode s) as [| | seq pc from | k seq pc from empty |].
  - res_step7 H w1. res_step7 H r. res_step7 H z. apply back7_done in H. contradiction.
  - res_step7 H r. res_step7 H z. destruct z as [[w1 eus1] er].
    destruct er; try discriminate.
    res_step7 H r2. destruct r2 as [x2 wus1].
    match type of H with ret_check7 ?a = _ => destruct (ret_check7_res a) as [s' [E _]]; rewrite E in H; discriminate end.
  - res_step7 H r. res_step7 H z. destruct z as [[w1 eus1] acc].
    destruct (a_err acc); try discriminate.
    apply flush_advance7_done in H. contradiction.
  - destruct (nth_error (v_wus s) k); try discriminate.
    res_step7 H r. apply flush_advance7_done in H. contradiction.
  - res_step7 H r. res_step7 H z. destruct z as [[w1 eus1] skipped].
    destruct (_ && _); try discriminate.
    inversion H as [[HF HO]]. apply finish7_ge in HF. lia.
Qed.

Lemma step7_cont : forall hk app labels ord s s',
  step7 hk app labels ord s = UCont s' -> v_cycle s <= v_cycle s'.
Proof.
  intros hk app labels ord s s' H. unfold step7 in H.
  destruct (v_mode s) as [| | seq pc from | k seq pc from empty |].
  - res_step7 H w1. res_step7 H r. res_step7 H z. apply back7_cont in H. lia.
  - res_step7 H r. res_step7 H z. destruct z as [[w1 eus1] er].
    destruct er; try discriminate.
    res_step7 H r2. destruct r2 as [x2 wus1].
    match type of H with ret_check7 ?a = _ => destruct (ret_check7_res a) as [s2 [E L]]; rewrite E in H; inversion H; subst; simpl in L; lia end.
  - res_step7 H r. res_step7 H z. destruct z as [[w1 eus1] acc].
    destruct (a_err acc); try discriminate.
    apply flush_advance7_cont in H. simpl in H. lia.
  - destruct (nth_error (v_wus s) k); try discriminate.
    res_step7 H r. apply flush_advance7_cont in H. simpl in H. lia.
  - res_step7 H r. res_step7 H z. destruct z as [[w1 eus1] skipped].
    destruct (_ && _); try discriminate. inversion H; simpl; lia.
Qed.

(* whatever the hooks: a run that returns reports at least one cycle *)
Theorem run7_cycles_pos : forall hk fuel app labels ord s c st os,
  0 <= v_cycle s ->
  run7_st hk fuel app labels ord s = inl (MDone c st, os) -> 1 <= c.
Proof.
  intros hk. induction fuel as [|f IH]; intros app labels ord s c st os Hs H; simpl in H; try discriminate.
  destruct (step7 hk app labels ord s) as [r os'|s'] eqn:E.
  - inversion H; subst. apply step7_done in E. lia.
  - apply step7_cont in E. eapply IH; [|exact H]. lia.
Qed.

Lemma init7_cycle : forall par ord app st s, init7 par ord app st = Ok s -> v_cycle s = 0.
Proof.
  intros par ord app st s H. unfold init7 in H.
  destruct (init3 par ord app st); try discriminate.
  destruct (new_cache l1LineSize l1Size); try discriminate.
  inversion H; reflexivity.
Qed.

Theorem mvp70_cycles_pos : forall par ord fuel app labels st c st',
  mvp70_run par ord fuel app labels st = MDone c st' -> 1 <= c.
Proof.
  intros par ord fuel app labels st c st' H. unfold mvp70_run, mvp70_run_os in H.
  destruct (init7 par ord app st) as [s| |] eqn:EI; try discriminate.
  destruct (run7_st hooks70 fuel app labels ord s) as [[r os]|s'] eqn:ER; simpl in H; try discriminate.
  subst r. eapply run7_cycles_pos; [|exact ER]. apply init7_cycle in EI. lia.
Qed.

Theorem mvp71_cycles_pos : forall par ord fuel app labels st c st',
  mvp71_run par ord fuel app labels st = MDone c st' -> 1 <= c.
Proof.
  intros par ord fuel app labels st c st' H. unfold mvp71_run, mvp71_run_os in H.
  destruct (init7 par ord app st) as [s| |] eqn:EI; try discriminate.
  destruct (run7_st hooks71 fuel app labels ord s) as [[r os]|s'] eqn:ER; simpl in H; try discriminate.
  subst r. eapply run7_cycles_pos; [|exact ER]. apply init7_cycle in EI. lia.
Qed.

(* ------------------------------------------------------------------ *)
(* 3. the ghost flag is sound                                           *)
(* ------------------------------------------------------------------ *)

(* what the proof needs to know about the hooks: taking a runner from the execute bus leaves the flag alone,
   the front end either fails whatever the order or, when the flag is clear afterwards, gives the same machine
   for both orders *)
Record hooks_ok (hk : hooks7) : Prop := mk_hooks_ok {
  ok_take : forall id w, v_os (fst (k_take hk id w)) = v_os w;
  ok_front : forall app ord1 ord2 cycle w w', ords_ok3 ord1 ord2 ->
    k_front hk app ord1 cycle w = Ok w' -> v_os w' = false ->
    k_front hk app ord2 cycle w = Ok w' /\ v_os w = false;
  ok_front_err : forall app ord1 ord2 cycle w,
    (forall w', k_front hk app ord1 cycle w <> Ok w') -> k_front hk app ord2 cycle w = k_front hk app ord1 cycle w }.

(* ---------- the flag is only touched by the front end ---------- *)

Lemma eu_write7_os : forall id w e addrs data w' e' o, eu_write7 id w e addrs data = Ok (w', e', o) -> v_os w' = v_os w.
Proof.
  intros id w e addrs data w' e' o H. unfold eu_write7 in H.
  apply bind_ok in H as ([[i1 c1] done] & _ & H). inversion H; reflexivity.
Qed.

Lemma eu_run7_os : forall hk labels ord cycle id w e w' e' o,
  eu_run7 hk labels ord cycle id w e = Ok (w', e', o) -> v_os w' = v_os w.
Proof.
  intros hk labels ord cycle id w e w' e' o H. unfold eu_run7 in H.
  destruct (h_runner e) as [r|]; [|discriminate].
  destruct (k_rr hk (w_x w) (q_pc r) (q_seq r)) as [rr sid].
  destruct (instr_Run _ _ _ _ _ _) as [exe| |]; try discriminate.
  - destruct (Return exe); [inversion H; reflexivity|].
    destruct (MemoryChange exe); [apply eu_write7_os in H; exact H|].
    unfold v_os in *.
    split_hyp H; simpl in *; try discriminate; inversion H; subst; simpl; auto.
  - inversion H; reflexivity.
Qed.

Lemma eu_read7_os : forall hk labels ord cycle id w e addrs w' e' o,
  eu_read7 hk labels ord cycle id w e addrs = Ok (w', e', o) -> v_os w' = v_os w.
Proof.
  intros hk labels ord cycle id w e addrs w' e' o H. unfold eu_read7 in H.
  apply bind_ok in H as ([[i1 c1] resp] & _ & H).
  destruct resp; [apply eu_run7_os in H; exact H | inversion H; reflexivity].
Qed.

Lemma eu_prepare7_os : forall hk labels ord cycle id w e w' e' o,
  eu_prepare7 hk labels ord cycle id w e = Ok (w', e', o) -> v_os w' = v_os w.
Proof.
  intros hk labels ord cycle id w e w' e' o H. unfold eu_prepare7 in H.
  destruct (negb (bb_canadd _)); [inversion H; reflexivity|].
  destruct (h_runner e) as [r|]; [|discriminate].
  match type of H with context [match ?rcv with Some _ => _ | None => _ end] =>
    destruct rcv as [[x0 r1]|] eqn:ER end; [|inversion H; reflexivity].
  assert (HX : x_os x0 = v_os w).
  { destruct (q_recv r); [|inversion ER; reflexivity].
    destruct (aget z (x_chan (w_x w))); [|discriminate]. inversion ER; reflexivity. }
  destruct (k_rr hk _ _ _) as [rr sid].
  destruct (instr_MemoryRead _ _ _).
  - apply eu_run7_os in H. rewrite H. unfold v_os; simpl. rewrite bu_assert3_os. exact HX.
  - apply eu_read7_os in H. rewrite H. unfold v_os; simpl. rewrite bu_assert3_os. exact HX.
Qed.

Lemma eu_cycle7_os : forall hk labels ord cycle id w e w' e' o, hooks_ok hk ->
  eu_cycle7 hk labels ord cycle id w e = Ok (w', e', o) -> v_os w' = v_os w.
Proof.
  intros hk labels ord cycle id w e w' e' o K H. unfold eu_cycle7 in H.
  destruct (eu_pre7 e).
  - destruct (k_pending hk w (h_seq e)); [discriminate|].
    apply bind_ok in H as (r & _ & H). inversion H; reflexivity.
  - destruct (h_co e).
    + pose proof (ok_take hk K id w) as T. destruct (k_take hk id w) as [w1 [r|]]; simpl in T.
      * apply eu_prepare7_os in H. congruence.
      * inversion H; subst; exact T.
    + apply eu_prepare7_os in H; exact H.
    + apply eu_read7_os in H; exact H.
    + apply eu_write7_os in H; exact H.
Qed.

Lemma eus_main7_os : forall hk labels ord cycle, hooks_ok hk -> forall eus id w acc w' eus' o,
  eus_main7 hk labels ord cycle id w eus acc = Ok (w', eus', o) -> v_os w' = v_os w.
Proof.
  intros hk labels ord cycle K. induction eus as [|e t IH]; intros id w acc w' eus' o H; simpl in H.
  - inversion H; reflexivity.
  - apply bind_ok in H as ([[w1 e1] o1] & E1 & H). apply eu_cycle7_os in E1; [|exact K].
    destruct (y_err o1); [inversion H; subst; exact E1|].
    apply bind_ok in H as ([[w2 t'] acc2] & E2 & H). apply IH in E2. inversion H; subst. congruence.
Qed.

Lemma eus_drain7_os : forall hk labels ord cycle, hooks_ok hk -> forall eus id w w' eus' o,
  eus_drain7 hk labels ord cycle id w eus = Ok (w', eus', o) -> v_os w' = v_os w.
Proof.
  intros hk labels ord cycle K. induction eus as [|e t IH]; intros id w w' eus' o H; simpl in H.
  - inversion H; reflexivity.
  - destruct (eu_empty7 e).
    + apply bind_ok in H as ([[w2 t'] er] & E2 & H). apply IH in E2. inversion H; subst. exact E2.
    + apply bind_ok in H as ([[w1 e1] o1] & E1 & H). apply eu_cycle7_os in E1; [|exact K].
      destruct (y_err o1); [inversion H; subst; exact E1|].
      apply bind_ok in H as ([[w2 t'] er] & E2 & H). apply IH in E2. inversion H; subst. congruence.
Qed.

Lemma eus_flush7_os : forall hk labels ord from, hooks_ok hk -> forall eus id w acc w' eus' o,
  eus_flush7 hk labels ord from id w eus acc = Ok (w', eus', o) -> v_os w' = v_os w.
Proof.
  intros hk labels ord from K. induction eus as [|e t IH]; intros id w acc w' eus' o H; simpl in H.
  - inversion H; reflexivity.
  - destruct (_ && _).
    + apply bind_ok in H as ([[w2 t'] er] & E2 & H). apply IH in E2. inversion H; subst. exact E2.
    + apply bind_ok in H as ([[w1 e1] o1] & E1 & H). apply eu_cycle7_os in E1; [|exact K].
      destruct (y_err o1); [inversion H; subst; exact E1|].
      apply bind_ok in H as ([[w2 t'] er] & E2 & H). apply IH in E2. inversion H; subst. congruence.
Qed.

Lemma eus_final7_os : forall hk labels ord cycle, hooks_ok hk -> forall eus id w w' eus' b,
  eus_final7 hk labels ord cycle id w eus = Ok (w', eus', b) -> v_os w' = v_os w.
Proof.
  intros hk labels ord cycle K. induction eus as [|e t IH]; intros id w w' eus' b H; simpl in H.
  - inversion H; reflexivity.
  - destruct (_ && _).
    + apply bind_ok in H as ([[w2 t'] er] & E2 & H). apply IH in E2. inversion H; subst. exact E2.
    + apply bind_ok in H as ([[w1 e1] o1] & E1 & H). apply eu_cycle7_os in E1; [|exact K].
      apply bind_ok in H as ([[w2 t'] er] & E2 & H). apply IH in E2. inversion H; subst. congruence.
Qed.

Lemma snoops7_os : forall hk eus id w w' eus', snoops7 hk id w eus = Ok (w', eus') -> v_os w' = v_os w.
Proof.
  intros hk. induction eus as [|e t IH]; intros id w w' eus' H; simpl in H.
  - inversion H; reflexivity.
  - apply bind_ok in H as ([[mem1 i1] c1] & _ & H).
    apply bind_ok in H as ([w2 t'] & E2 & H). apply IH in E2. inversion H; subst. exact E2.
Qed.

Lemma wu_cycle7_os : forall x u before x' u', wu_cycle7 x u before = Ok (x', u') -> x_os x' = x_os x.
Proof.
  intros x u before x' u' H. unfold wu_cycle7 in H.
  split_hyp H; simpl in *; try discriminate; inversion H; subst; simpl; auto.
Qed.

Lemma wus_cycle7_os : forall wus x before x' wus', wus_cycle7 x wus before = Ok (x', wus') -> x_os x' = x_os x.
Proof.
  induction wus as [|u t IH]; intros x before x' wus' H; simpl in H.
  - inversion H; reflexivity.
  - apply bind_ok in H as ([x1 u1] & E1 & H). apply bind_ok in H as ([x2 t'] & E2 & H).
    inversion H; subst. apply wu_cycle7_os in E1. apply IH in E2. simpl in *. congruence.
Qed.

(* ---------- the execute units use the order only through the RAT value maps ---------- *)

Lemma eu_run7_ord : forall hk labels ord1 ord2 cycle id w e, ords_ok3 ord1 ord2 ->
  eu_run7 hk labels ord1 cycle id w e = eu_run7 hk labels ord2 cycle id w e.
Proof.
  intros hk labels ord1 ord2 cycle id w e O. unfold eu_run7.
  destruct (h_runner e) as [r|]; [|reflexivity].
  destruct (k_rr hk (w_x w) (q_pc r) (q_seq r)) as [rr sid].
  destruct (instr_Run _ _ _ _ _ _) as [exe| |]; try reflexivity.
  destruct (Return exe); [reflexivity|].
  destruct (MemoryChange exe); [reflexivity|].
  cbv zeta.
  destruct (q_fwder r); [reflexivity|].
  destruct (InstructionType_IsConditionalBranch _); [|reflexivity].
  rewrite !(rat_rollback3_ord ord1 ord2 _ _ _ O), !(rat_commit3_ord ord1 ord2 _ _ O). reflexivity.
Qed.

Lemma eu_read7_ord : forall hk labels ord1 ord2 cycle id w e addrs, ords_ok3 ord1 ord2 ->
  eu_read7 hk labels ord1 cycle id w e addrs = eu_read7 hk labels ord2 cycle id w e addrs.
Proof.
  intros hk labels ord1 ord2 cycle id w e addrs O. unfold eu_read7.
  destruct (cc_read_cycle _ _ _ _ _) as [[[i1 c1] [bytes|]]| |]; simpl; try reflexivity.
  apply eu_run7_ord; exact O.
Qed.

Lemma eu_prepare7_ord : forall hk labels ord1 ord2 cycle id w e, ords_ok3 ord1 ord2 ->
  eu_prepare7 hk labels ord1 cycle id w e = eu_prepare7 hk labels ord2 cycle id w e.
Proof.
  intros hk labels ord1 ord2 cycle id w e O. unfold eu_prepare7.
  destruct (negb (bb_canadd _)); [reflexivity|].
  destruct (h_runner e) as [r|]; [|reflexivity].
  match goal with |- context [match ?rcv with Some _ => _ | None => _ end] => destruct rcv as [[x0 r1]|] end; [|reflexivity].
  destruct (k_rr hk _ _ _) as [rr sid].
  destruct (instr_MemoryRead _ _ _); [apply eu_run7_ord | apply eu_read7_ord]; exact O.
Qed.

Lemma eu_cycle7_ord : forall hk labels ord1 ord2 cycle id w e, ords_ok3 ord1 ord2 ->
  eu_cycle7 hk labels ord1 cycle id w e = eu_cycle7 hk labels ord2 cycle id w e.
Proof.
  intros hk labels ord1 ord2 cycle id w e O. unfold eu_cycle7.
  destruct (eu_pre7 e); [reflexivity|].
  destruct (h_co e); try reflexivity.
  - destruct (k_take hk id w) as [w1 [r|]]; [|reflexivity]. apply eu_prepare7_ord; exact O.
  - apply eu_prepare7_ord; exact O.
  - apply eu_read7_ord; exact O.
Qed.

Lemma eus_main7_ord : forall hk labels ord1 ord2 cycle, ords_ok3 ord1 ord2 -> forall eus id w acc,
  eus_main7 hk labels ord1 cycle id w eus acc = eus_main7 hk labels ord2 cycle id w eus acc.
Proof.
  intros hk labels ord1 ord2 cycle O. induction eus as [|e t IH]; intros id w acc; [reflexivity|]. simpl.
  rewrite (eu_cycle7_ord hk labels ord1 ord2 _ _ _ _ O).
  destruct (eu_cycle7 hk labels ord2 _ _ _ _) as [[[w1 e1] o]| |]; simpl; try reflexivity.
  destruct (y_err o); [reflexivity|]. rewrite IH. reflexivity.
Qed.

Lemma eus_drain7_ord : forall hk labels ord1 ord2 cycle, ords_ok3 ord1 ord2 -> forall eus id w,
  eus_drain7 hk labels ord1 cycle id w eus = eus_drain7 hk labels ord2 cycle id w eus.
Proof.
  intros hk labels ord1 ord2 cycle O. induction eus as [|e t IH]; intros id w; [reflexivity|]. simpl.
  destruct (eu_empty7 e); [rewrite IH; reflexivity|].
  rewrite (eu_cycle7_ord hk labels ord1 ord2 _ _ _ _ O).
  destruct (eu_cycle7 hk labels ord2 _ _ _ _) as [[[w1 e1] o]| |]; simpl; try reflexivity.
  destruct (y_err o); [reflexivity|]. rewrite IH. reflexivity.
Qed.

Lemma eus_flush7_ord : forall hk labels ord1 ord2 from, ords_ok3 ord1 ord2 -> forall eus id w acc,
  eus_flush7 hk labels ord1 from id w eus acc = eus_flush7 hk labels ord2 from id w eus acc.
Proof.
  intros hk labels ord1 ord2 from O. induction eus as [|e t IH]; intros id w acc; [reflexivity|]. simpl.
  destruct (_ && _); [rewrite IH; reflexivity|].
  rewrite (eu_cycle7_ord hk labels ord1 ord2 _ _ _ _ O).
  destruct (eu_cycle7 hk labels ord2 _ _ _ _) as [[[w1 e1] o]| |]; simpl; try reflexivity.
  destruct (y_err o); [reflexivity|]. rewrite IH. reflexivity.
Qed.

Lemma eus_final7_ord : forall hk labels ord1 ord2 cycle, ords_ok3 ord1 ord2 -> forall eus id w,
  eus_final7 hk labels ord1 cycle id w eus = eus_final7 hk labels ord2 cycle id w eus.
Proof.
  intros hk labels ord1 ord2 cycle O. induction eus as [|e t IH]; intros id w; [reflexivity|]. simpl.
  destruct (_ && _); [rewrite IH; reflexivity|].
  rewrite (eu_cycle7_ord hk labels ord1 ord2 _ _ _ _ O).
  destruct (eu_cycle7 hk labels ord2 _ _ _ _) as [[[w1 e1] o]| |]; simpl; try reflexivity.
  rewrite IH. reflexivity.
Qed.

Lemma finish7_ord : forall ord1 ord2 w eus cycle, ords_ok3 ord1 ord2 -> finish7 ord1 w eus cycle = finish7 ord2 w eus cycle.
Proof.
  intros ord1 ord2 w eus cycle O. unfold finish7.
  rewrite (rat_commit3_ord ord1 ord2 cycle _ O), (rat_flush3_ord ord1 ord2 cycle _ O). reflexivity.
Qed.

(* ---------- steps ---------- *)

(* the flag a step ends with *)
Definition res_os7 (r : step_res7) : bool := match r with UDone _ os => os | UCont s' => v_os (v_w s') end.

Lemma res_of7_os : forall A os (o : outcome A) k,
  (forall x, o = Ok x -> res_os7 (k x) = os) -> res_os7 (res_of7 os o k) = os.
Proof. intros A os o k H. destruct o; simpl; auto. Qed.

Lemma ret_check7_os : forall s, res_os7 (ret_check7 s) = v_os (v_w s).
Proof. intros. unfold ret_check7. destruct (_ && _); reflexivity. Qed.

Lemma flush_advance7_os : forall s k seq pc from empty, res_os7 (flush_advance7 s k seq pc from empty) = v_os (v_w s).
Proof.
  intros. unfold flush_advance7. destruct (flush_next _ _ _); [reflexivity|]. destruct empty; [|reflexivity].
  apply res_of7_os. intros r _. reflexivity.
Qed.

Lemma back7_os : forall s cycle w eus o, res_os7 (back7 s cycle (w, eus, o)) = v_os w.
Proof.
  intros. unfold back7. destruct (y_err o); [reflexivity|].
  apply res_of7_os. intros [x2 wus1] E. apply wus_cycle7_os in E.
  destruct (y_ret o); [rewrite ret_check7_os; exact E|].
  destruct (y_flush o); [exact E|].
  destruct (is_empty7 _ _ _); exact E.
Qed.

(* what happens in a step after the front end (main loop) or in the whole step (other loops):
   the flag does not move *)
Lemma step7_rest_os : forall hk labels s cycle w ord, hooks_ok hk ->
  res_os7 (res_of7 (v_os w) (snoops7 hk 0 w (v_eus s)) (fun r =>
           res_of7 (v_os w) (eus_main7 hk labels ord cycle 0 (fst r) (snd r) yo_none) (back7 s cycle))) = v_os w.
Proof.
  intros hk labels s cycle w ord K.
  apply res_of7_os. intros [w1 eus1] E1. apply snoops7_os in E1.
  apply res_of7_os. intros [[w2 eus2] o] E2. apply eus_main7_os in E2; [|exact K].
  rewrite back7_os. simpl in E2. congruence.
Qed.

Lemma step7_os : forall hk app labels ord s, hooks_ok hk -> v_mode s <> QNormal ->
  res_os7 (step7 hk app labels ord s) = v_os (v_w s).
Proof.
  intros hk app labels ord s K M. unfold step7.
  destruct (v_mode s) as [| | seq pc from | k seq pc from empty |]; [congruence| | | |].
  - apply res_of7_os. intros [w1 eus1] E1. apply snoops7_os in E1.
    apply res_of7_os. intros [[w2 eus2] er] E2. apply eus_drain7_os in E2; [|exact K]. simpl in E2.
    destruct er; [simpl; congruence|].
    assert (R : forall b, b = v_os w2 -> res_os7 (res_of7 b (wus_cycle7 (w_x w2) (v_wus s) (-1)) (fun r =>
              let '(x2, wus1) := r in
              ret_check7 (mk_st7 (w_connect7 (set_wx w2 x2) (v_cycle s + 1)) eus2 wus1 (v_cycle s + 1) QRet))) = b).
    { intros b Hb. apply res_of7_os. intros [x2 wus1] E3. apply wus_cycle7_os in E3. rewrite ret_check7_os. subst b. exact E3. }
    rewrite R by reflexivity. congruence.
  - apply res_of7_os. intros [w1 eus1] E1. apply snoops7_os in E1.
    apply res_of7_os. intros [[w2 eus2] acc] E2. apply eus_flush7_os in E2; [|exact K]. simpl in E2.
    destruct (a_err acc); [simpl; congruence|].
    rewrite flush_advance7_os. simpl. unfold w_connect7, v_os in *. simpl. congruence.
  - destruct (nth_error (v_wus s) k); [|reflexivity].
    apply res_of7_os. intros [x1 u1] E. apply wu_cycle7_os in E. rewrite flush_advance7_os. exact E.
  - apply res_of7_os. intros [w1 eus1] E1. apply snoops7_os in E1.
    apply res_of7_os. intros [[w2 eus2] sk] E2. apply eus_final7_os in E2; [|exact K]. simpl in E2.
    destruct (_ && _); simpl; congruence.
Qed.

Lemma step7_ord : forall hk app labels ord1 ord2 s, hooks_ok hk ->
  ords_ok3 ord1 ord2 -> res_os7 (step7 hk app labels ord1 s) = false ->
  step7 hk app labels ord1 s = step7 hk app labels ord2 s /\ v_os (v_w s) = false.
Proof.
  intros hk app labels ord1 ord2 s K O H.
  destruct (v_mode s) as [| | seq pc from | k seq pc from empty |] eqn:M.
  - (* main loop *)
    unfold step7 in *. rewrite M in *.
    destruct (k_front hk app ord1 (v_cycle s + 1) (v_w s)) as [w1| |] eqn:EF.
    + cbn [res_of7] in H |- *.
      rewrite step7_rest_os in H by exact K.
      destruct (ok_front hk K app ord1 ord2 _ _ _ O EF H) as [EF2 Hw]. rewrite EF2. cbn [res_of7].
      split; [|exact Hw].
      destruct (snoops7 hk 0 w1 (v_eus s)) as [[w2 eus2]| |]; cbn [res_of7]; try reflexivity.
      rewrite (eus_main7_ord hk labels ord1 ord2 _ O). reflexivity.
    + rewrite (ok_front_err hk K app ord1 ord2) by (intros w' C; rewrite EF in C; discriminate). rewrite EF. auto.
    + rewrite (ok_front_err hk K app ord1 ord2) by (intros w' C; rewrite EF in C; discriminate). rewrite EF. auto.
  - rewrite step7_os in H by (auto; congruence). split; [|exact H].
    unfold step7. rewrite M.
    destruct (snoops7 hk 0 (v_w s) (v_eus s)) as [[w2 eus2]| |]; cbn [res_of7]; try reflexivity.
    simpl. rewrite (eus_drain7_ord hk labels ord1 ord2 _ O). reflexivity.
  - rewrite step7_os in H by (auto; congruence). split; [|exact H].
    unfold step7. rewrite M.
    destruct (snoops7 hk 0 (v_w s) (v_eus s)) as [[w2 eus2]| |]; cbn [res_of7]; try reflexivity.
    simpl. rewrite (eus_flush7_ord hk labels ord1 ord2 _ O). reflexivity.
  - rewrite step7_os in H by (auto; congruence). split; [|exact H].
    unfold step7. rewrite M. reflexivity.
  - rewrite step7_os in H by (auto; congruence). split; [|exact H].
    unfold step7. rewrite M.
    destruct (snoops7 hk 0 (v_w s) (v_eus s)) as [[w2 eus2]| |]; cbn [res_of7]; try reflexivity.
    simpl. rewrite (eus_final7_ord hk labels ord1 ord2 _ O).
    destruct (eus_final7 hk labels ord2 _ _ _ _) as [[[w3 eus3] sk]| |]; cbn [res_of7]; try reflexivity.
    rewrite (finish7_ord ord1 ord2 _ _ _ O). reflexivity.
Qed.

(* the flag a run ends with *)
Definition final_os7 (r : (mres * bool) + st7) : bool :=
  match r with inl (_, os) => os | inr s' => v_os (v_w s') end.

Theorem run7_st_ord_irrelevant : forall hk, hooks_ok hk -> forall fuel app labels ord1 ord2 s,
  ords_ok3 ord1 ord2 -> final_os7 (run7_st hk fuel app labels ord1 s) = false ->
  run7_st hk fuel app labels ord1 s = run7_st hk fuel app labels ord2 s /\ v_os (v_w s) = false.
Proof.
  intros hk K. induction fuel as [|f IH]; intros app labels ord1 ord2 s O H; simpl in *; [auto|].
  destruct (step7 hk app labels ord1 s) as [r os|s'] eqn:E.
  - simpl in H. subst os.
    destruct (step7_ord hk app labels ord1 ord2 s K O) as [E2 Hs]; [rewrite E; reflexivity|].
    rewrite <- E2, E. auto.
  - destruct (IH app labels ord1 ord2 s' O H) as [R Hs'].
    destruct (step7_ord hk app labels ord1 ord2 s K O) as [E2 Hs]; [rewrite E; exact Hs'|].
    rewrite <- E2, E. auto.
Qed.

(* ---------- the two variants ---------- *)

Lemma init7_ord : forall par ord1 ord2 app st, ords_ok3 ord1 ord2 -> init7 par ord1 app st = init7 par ord2 app st.
Proof. intros par ord1 ord2 app st O. unfold init7. rewrite (init3_ord par ord1 ord2 app st O). reflexivity. Qed.

Lemma hooks70_ok : hooks_ok hooks70.
Proof.
  split.
  - intros id w. cbn [hooks70 k_take]. destruct (bb_get (x_ebus (w_x w))) as [ebus' [r|]]; reflexivity.
  - intros app ord1 ord2 cycle w w' O H Hos. cbn [hooks70 k_front] in *.
    apply bind_ok in H as (x & EF & H). inversion H; subst. unfold v_os in Hos; cbn [w_x set_wx] in Hos.
    destruct (front3_ord app ord1 ord2 _ _ _ EF Hos) as [EF2 Hx]. rewrite EF2. split; [reflexivity|exact Hx].
  - intros app ord1 ord2 cycle w H. cbn [hooks70 k_front] in *.
    rewrite (front3_err app ord1 ord2); [reflexivity|].
    intros x' C. apply (H (set_wx w x')). rewrite C. reflexivity.
Qed.

Lemma add_prefs71_os : forall rs w w', add_prefs71 w rs = Ok w' -> w_x w' = w_x w.
Proof.
  induction rs as [|r t IH]; intros w w' H; simpl in H.
  - inversion H; reflexivity.
  - apply bind_ok in H as (p & _ & H). destruct p; apply IH in H; exact H.
Qed.

(* getExecutionUnitIDPreference never panics: a load reads, a store writes at least one byte *)
Lemma pref71_ok : forall w r, exists p, pref71 w r = Ok p.
Proof.
  intros w r. unfold pref71. destruct (rr71 _ _ _) as [rr sid].
  destruct (q_instr r); cbn; eauto.
Qed.

Lemma add_prefs71_ok : forall rs w, exists w', add_prefs71 w rs = Ok w'.
Proof.
  induction rs as [|r t IH]; intros w; simpl; [eauto|].
  destruct (pref71_ok w r) as [p E]. rewrite E. cbn [bind]. destruct p; apply IH.
Qed.

Lemma front71_eq : forall app ord cycle w,
  front71 app ord cycle w =
  match fu_cycle6 app cycle (m_fu (x_m (connected3 (w_x w) cycle))) (m_l1i (x_m (connected3 (w_x w) cycle))) (m_dbus (x_m (connected3 (w_x w) cycle))) with
  | Ok (fu1, l1i1, dbus1) =>
      match du_cycle3 app cycle (set_m (connected3 (w_x w) cycle) (set_dbus (set_l1i (set_fu (x_m (connected3 (w_x w) cycle)) fu1) l1i1) dbus1)) with
      | Ok x1 => if i_stale (w_i w) then Ok (mk_w7 x1 (set_stale (w_i w) false) (i_states (w_i w)) (w_pref w))
                 else add_prefs71 (set_wx w (cu_cycle3 ord cycle x1)) (x_prev (cu_cycle3 ord cycle x1))
      | Err e => Err e
      | Panic => Panic
      end
  | Err e => Err e
  | Panic => Panic
  end.
Proof. reflexivity. Qed.

Lemma front71_ord : forall app ord1 ord2 cycle w w', ords_ok3 ord1 ord2 ->
  front71 app ord1 cycle w = Ok w' -> v_os w' = false ->
  front71 app ord2 cycle w = Ok w' /\ v_os w = false.
Proof.
  intros app ord1 ord2 cycle w w' O H Hos. rewrite front71_eq in *.
  destruct (fu_cycle6 app cycle _ _ _) as [[[fu1 l1i1] dbus1]| |]; try discriminate H.
  destruct (du_cycle3 app cycle _) as [x1| |] eqn:ED; try discriminate H.
  apply du_cycle3_os in ED. change (x_os x1 = x_os (w_x w)) in ED.
  destruct (i_stale (w_i w)).
  - injection H as H. subst w'. split; [reflexivity|]. unfold v_os in *. cbn [w_x] in Hos. congruence.
  - pose proof (add_prefs71_os _ _ _ H) as HX. cbn [w_x set_wx] in HX.
    assert (Hc : x_os (cu_cycle3 ord1 cycle x1) = false) by (unfold v_os in Hos; rewrite HX in Hos; exact Hos).
    destruct (cu_cycle3_ord ord1 ord2 cycle x1 Hc) as [E Hx1]. rewrite E.
    split; [exact H|]. unfold v_os. congruence.
Qed.

Lemma front71_err : forall app ord1 ord2 cycle w,
  (forall w', front71 app ord1 cycle w <> Ok w') -> front71 app ord2 cycle w = front71 app ord1 cycle w.
Proof.
  intros app ord1 ord2 cycle w H. rewrite !front71_eq in *.
  destruct (fu_cycle6 app cycle _ _ _) as [[[fu1 l1i1] dbus1]| |]; try reflexivity.
  destruct (du_cycle3 app cycle _) as [x1| |]; try reflexivity.
  destruct (i_stale (w_i w)); [reflexivity|].
  destruct (add_prefs71_ok (x_prev (cu_cycle3 ord1 cycle x1)) (set_wx w (cu_cycle3 ord1 cycle x1))) as [w' E].
  exfalso. apply (H w'). exact E.
Qed.

Lemma hooks71_ok : hooks_ok hooks71.
Proof.
  split.
  - intros id w. cbn [hooks71 k_take]. unfold take71.
    destruct (pick71 w id (bb_q (x_ebus (w_x w)))) as [q' [r|]]; reflexivity.
  - exact front71_ord.
  - exact front71_err.
Qed.

(* a run that ends with the ghost flag clear returns the same result whatever the iteration order of the
   control unit's map of the runners pushed in the previous cycle *)
Theorem mvp70_ord_irrelevant : forall par fuel app labels st ord1 ord2 r,
  ords_ok3 ord1 ord2 ->
  mvp70_run_os par ord1 fuel app labels st = (r, false) ->
  mvp70_run_os par ord2 fuel app labels st = (r, false).
Proof.
  intros par fuel app labels st ord1 ord2 r O H. unfold mvp70_run_os in *.
  rewrite <- (init7_ord par ord1 ord2 app st O).
  destruct (init7 par ord1 app st) as [s| |]; auto.
  destruct (run7_st_ord_irrelevant hooks70 hooks70_ok fuel app labels ord1 ord2 s O) as [E _].
  - destruct (run7_st hooks70 fuel app labels ord1 s) as [[r1 os1]|s1]; inversion H; reflexivity.
  - rewrite <- E. exact H.
Qed.

Theorem mvp71_ord_irrelevant : forall par fuel app labels st ord1 ord2 r,
  ords_ok3 ord1 ord2 ->
  mvp71_run_os par ord1 fuel app labels st = (r, false) ->
  mvp71_run_os par ord2 fuel app labels st = (r, false).
Proof.
  intros par fuel app labels st ord1 ord2 r O H. unfold mvp71_run_os in *.
  rewrite <- (init7_ord par ord1 ord2 app st O).
  destruct (init7 par ord1 app st) as [s| |]; auto.
  destruct (run7_st_ord_irrelevant hooks71 hooks71_ok fuel app labels ord1 ord2 s O) as [E _].
  - destruct (run7_st hooks71 fuel app labels ord1 s) as [[r1 os1]|s1]; inversion H; reflexivity.
  - rewrite <- E. exact H.
Qed.

(* ------------------------------------------------------------------ *)
(* 4. dispatch width                                                    *)
(* ------------------------------------------------------------------ *)

(* the control unit of MVP-7.0 is cu_cycle3: when the execute bus respects its buffer length before the cycle
   it does so afterwards - at most bb_bl = 2 runners are dispatched per cycle whatever the number of cores *)
Theorem mvp70_dispatch_width : forall ord cycle x,
  ebus_ok x -> ebus_ok (cu_cycle3 ord cycle x) /\ bb_bl (x_ebus (cu_cycle3 ord cycle x)) = bb_bl (x_ebus x).
Proof. exact cu_dispatch_bound3. Qed.

Print Assumptions flush_loop_hang.
Print Assumptions flush_unlock_panic.
Print Assumptions stale_load.
Print Assumptions stale_forward_hang.
Print Assumptions mvp70_cycles_pos.
Print Assumptions mvp71_cycles_pos.
Print Assumptions mvp70_ord_irrelevant.
Print Assumptions mvp71_ord_irrelevant.
Print Assumptions mvp70_dispatch_width.
