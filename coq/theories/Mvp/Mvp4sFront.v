(* Invariant of the MVP-4 skeleton with store misses (Mvp4sSkel.v): preservation and
   progress.  See Mvp4mFront.v for the version in which every store hits. *)
From Coq Require Import ZArith List Bool Lia.
From Maj Require Import Base.Outcome Base.GoInt Base.GoTypes Isa.Spec Isa.Embed Isa.Seq Isa.Refine.
From Maj Require Import Gen.Latency Gen.RiscTables Gen.Opcodes Comp.Cache Comp.CacheSpec Comp.MapFacts Comp.CacheProofs.
From Maj Require Import Mvp.Mvp12 Mvp.Mvp12Proofs Mvp.Mvp3 Mvp.Mvp3Proofs Mvp.Mvp4 Mvp.Mvp4Skel Mvp.Mvp4Inv Mvp.Mvp4Units
     Mvp.Mvp4Front Mvp.Mvp4mSkel Mvp.Mvp4mInv Mvp.Mvp4mFront Mvp.Mvp4sSkel.
Import ListNotations.
Open Scope Z_scope.

(* ------------------------------------------------------------------ *)
(* the write side: write bus, write unit, scoreboard                    *)

Definition owr (wp : option witem) : list Z := match wp with Some x => wi_wr x | None => [] end.

Record WInv (pw : list Z) (wp wc : option witem) (w : wu_t) (l1 : list Z) (l2 : bool) : Prop := mkW {
  w_pw : pw = pw_add (pwof (option_map wi_wr wc)) (owr wp);
  w_wr : forall x, wc = Some x \/ wp = Some x -> (length (wi_wr x) <= 1)%nat /\ (wi_sa x <> [] -> wi_wr x = []);
  w_wu : wu_pending w = true -> 1 <= wu_cycles w <= MemoryAccess;
  (* while the write unit is busy with a store, the entry after that store waits in the current slot *)
  w_I1 : wu_pending w = true -> forall x, wc = Some x -> wi_fl x = true;
  w_lp : forall x, wp = Some x -> wi_sa x = l1 /\ wi_fl x = l2;
  w_lc : wp = None -> forall x, wc = Some x -> wi_sa x = l1 /\ wi_fl x = l2;
  w_adj : forall x y, wc = Some x -> wp = Some y -> wi_fl y = nnil (wi_sa x) }.

Lemma nnil_true l : l <> [] -> nnil l = true.
Proof. destruct l; [congruence | reflexivity]. Qed.

Lemma winv_wu pw wp wc w l1 l2 pw' w' wp' wc' :
  WInv pw wp wc w l1 l2 -> sks_wu pw w wp wc = (pw', w', wp', wc') ->
  WInv pw' wp' wc' w' l1 l2 /\
  (wu_pending w = true -> wp' = wp /\ wc' = wc) /\
  (wu_pending w = false -> wp' = None /\ wc' = wp).
Proof.
  intros [Hpw Hwr Hwu HI1 Hlp Hlc Hadj]. unfold sks_wu.
  destruct (wu_pending w) eqn:Ep.
  - intros H. injection H as <- <- <- <-. split; [|split; [auto | discriminate]].
    specialize (Hwu eq_refl). constructor.
    + exact Hpw.
    + exact Hwr.
    + cbn [wu_pending wu_cycles]. intros Hc. apply negb_true_iff, Z.eqb_neq in Hc. lia.
    + intros _. apply HI1. reflexivity.
    + exact Hlp.
    + exact Hlc.
    + exact Hadj.
  - assert (Hnew : forall q, q = pw_add zero_pw (owr wp) -> q = pw_add (pwof (option_map wi_wr wp)) (owr None)).
    { intros q ->. destruct wp as [y|]; reflexivity. }
    assert (Hwr' : forall y, wp = Some y \/ None = Some y -> (length (wi_wr y) <= 1)%nat /\ (wi_sa y <> [] -> wi_wr y = [])).
    { intros y [Hy|Hy]; [|discriminate]. apply Hwr. auto. }
    assert (Hlc' : @None witem = None -> forall y, wp = Some y -> wi_sa y = l1 /\ wi_fl y = l2).
    { intros _ y Hy. apply Hlp. exact Hy. }
    destruct wc as [x|].
    + destruct (Hwr x (or_introl eq_refl)) as [Hl Hst].
      assert (Hlo : (length (owr wp) <= 1)%nat).
      { destruct wp as [y|]; [apply (Hwr y); auto | cbn; lia]. }
      destruct (wi_sa x) as [|s0 sa'] eqn:Esa; intros H; injection H as <- <- <- <-.
      * split; [|split; [discriminate | auto]]. constructor.
        -- apply Hnew. rewrite Hpw. cbn [option_map].
           change (pw_del (pw_add (pwof (Some (wi_wr x))) (owr wp)) (wi_wr x))
             with (wdel (pw_add (pwof (Some (wi_wr x))) (owr wp)) (Some (wi_wr x))).
           rewrite (wdel_add_pwof (Some (wi_wr x)) (owr wp)); [reflexivity | | exact Hlo].
           intros w0 Hw0. injection Hw0 as <-. exact Hl.
        -- exact Hwr'.
        -- rewrite Ep. discriminate.
        -- rewrite Ep. discriminate.
        -- discriminate.
        -- exact Hlc'.
        -- discriminate.
      * split; [|split; [discriminate | auto]]. constructor.
        -- apply Hnew. rewrite Hpw. cbn [option_map]. rewrite (Hst ltac:(discriminate)). reflexivity.
        -- exact Hwr'.
        -- cbn [wu_pending wu_cycles]. intros _. unfold MemoryAccess. lia.
        -- intros _ y Hy. rewrite (Hadj x y eq_refl Hy), Esa. reflexivity.
        -- discriminate.
        -- exact Hlc'.
        -- discriminate.
    + intros H. injection H as <- <- <- <-. split; [|split; [discriminate | auto]]. constructor.
      * apply Hnew. rewrite Hpw. reflexivity.
      * exact Hwr'.
      * rewrite Ep. discriminate.
      * rewrite Ep. discriminate.
      * discriminate.
      * exact Hlc'.
      * discriminate.
Qed.

Lemma winv_add pw wc w l1 l2 wr sa :
  WInv pw None wc w l1 l2 -> (length wr <= 1)%nat -> (sa <> [] -> wr = []) ->
  WInv (pw_add pw wr) (Some (wr, sa, nnil l1)) wc w sa (nnil l1).
Proof.
  intros [Hpw Hwr Hwu HI1 Hlp Hlc Hadj] Hl Hs. constructor; auto; try discriminate.
  - rewrite Hpw. reflexivity.
  - intros x [Hx|Hx]; [apply Hwr; auto|]. injection Hx as <-. auto.
  - intros x Hx. injection Hx as <-. auto.
  - intros x y Hx Hy. injection Hy as <-. cbn [wi_fl snd]. destruct (Hlc eq_refl x Hx) as [-> _]. reflexivity.
Qed.

Lemma winv_empty w l1 l2 : wu_pending w = false -> WInv zero_pw None None w l1 l2.
Proof.
  intros Hw. constructor; try discriminate; try reflexivity; try (rewrite Hw; discriminate).
  all: intros x [H|H]; discriminate.
Qed.

Lemma sks_drain_idle : forall fuel pw w wp wc cyc tick w3 c3,
  sks_drain fuel pw w wp wc cyc tick = Some (w3, c3) -> wu_pending w3 = false.
Proof.
  induction fuel as [|f IH]; intros pw w wp wc cyc tick w3 c3; cbn [sks_drain]; [discriminate|].
  destruct (negb (wu_pending w) && negb (is_full wp) && negb (is_full wc)) eqn:E.
  - intros H. injection H as <- _. apply andb_prop in E as [E _]. apply andb_prop in E as [E _].
    apply negb_true_iff in E. exact E.
  - destruct (sks_wu pw w wp wc) as [[[pw' w'] wp'] wc']. apply IH.
Qed.

(* the measure of the write side: iterations of the drain loop *)
Definition wcost (x : option witem) : Z :=
  match x with None => 0 | Some y => match wi_sa y with [] => 1 | _ :: _ => MemoryAccess + 1 end end.
Definition wmu (w : wu_t) (wp wc : option witem) : Z :=
  (if wu_pending w then wu_cycles w else 0) + wcost wc + wcost wp + (if is_full wp then 1 else 0).

Lemma wcost_bounds x : 0 <= wcost x <= MemoryAccess + 1.
Proof. unfold wcost, MemoryAccess. destruct x as [y|]; [destruct (wi_sa y)|]; lia. Qed.

Lemma wmu_bounds pw wp wc w l1 l2 : WInv pw wp wc w l1 l2 -> 0 <= wmu w wp wc <= 3 * MemoryAccess + 3.
Proof.
  intros HW. pose proof (w_wu _ _ _ _ _ _ HW) as Hwu. unfold wmu.
  pose proof (wcost_bounds wc). pose proof (wcost_bounds wp).
  destruct (wu_pending w); [specialize (Hwu eq_refl)|]; destruct (is_full wp); unfold MemoryAccess in *; lia.
Qed.

Lemma wmu_step pw wp wc w l1 l2 pw' w' wp' wc' :
  WInv pw wp wc w l1 l2 -> sks_wu pw w wp wc = (pw', w', wp', wc') ->
  (wmu w wp wc = 0 /\ wmu w' wp' wc' = 0 /\ wu_pending w = false /\ wp = None /\ wc = None) \/
  wmu w' wp' wc' < wmu w wp wc.
Proof.
  intros HW. pose proof (w_wu _ _ _ _ _ _ HW) as Hwu. unfold sks_wu, wmu.
  destruct (wu_pending w) eqn:Ep.
  - intros H. injection H as <- <- <- <-. right. specialize (Hwu eq_refl). cbn [wu_pending wu_cycles].
    destruct (negb (wu_cycles w - 1 =? 0)); destruct (is_full wp); lia.
  - destruct wc as [x|].
    + assert (Hcx : wcost (Some x) = match wi_sa x with [] => 1 | _ :: _ => MemoryAccess + 1 end) by reflexivity.
      pose proof (wcost_bounds wp) as Hb.
      assert (Hn : wcost (@None witem) = 0) by reflexivity.
      destruct (wi_sa x) eqn:Esa; intros H; injection H as <- <- <- <-; right; cbn [wu_pending wu_cycles];
        rewrite ?Ep, Hcx, Hn; cbn [is_full]; destruct (is_full wp); unfold MemoryAccess in *; lia.
    + intros H. injection H as <- <- <- <-. rewrite Ep. destruct wp as [y|].
      * right. pose proof (wcost_bounds (Some y)) as Hb. assert (Hn : wcost (@None witem) = 0) by reflexivity.
        rewrite Hn. cbn [is_full]. assert (0 < wcost (Some y)) by (unfold wcost; destruct (wi_sa y); unfold MemoryAccess; lia). lia.
      * left. cbn. auto.
Qed.

Lemma sks_drain_ok : forall (n : nat) fuel pw wp wc w l1 l2 cyc tick,
  WInv pw wp wc w l1 l2 -> wmu w wp wc <= Z.of_nat n -> (n < fuel)%nat ->
  exists w3 c3, sks_drain fuel pw w wp wc cyc tick = Some (w3, c3) /\
                cyc <= c3 <= cyc + Z.of_nat n.
Proof.
  induction n as [|n IH]; intros fuel pw wp wc w l1 l2 cyc tick HW Hmu Hf;
    (destruct fuel as [|f]; [lia|]); cbn [sks_drain];
    pose proof (wmu_bounds _ _ _ _ _ _ HW) as Hb.
  - assert (H0 : wmu w wp wc = 0) by lia.
    destruct (sks_wu pw w wp wc) as [[[pw' w'] wp'] wc'] eqn:Ew.
    destruct (wmu_step _ _ _ _ _ _ _ _ _ _ HW Ew) as [(_ & _ & Hp & -> & ->) | Hlt].
    + rewrite Hp. cbn. do 2 eexists. split; [reflexivity | lia].
    + destruct (winv_wu _ _ _ _ _ _ _ _ _ _ HW Ew) as [HW' _]. pose proof (wmu_bounds _ _ _ _ _ _ HW'). lia.
  - destruct (negb (wu_pending w) && negb (is_full wp) && negb (is_full wc)) eqn:E.
    + do 2 eexists. split; [reflexivity | lia].
    + destruct (sks_wu pw w wp wc) as [[[pw' w'] wp'] wc'] eqn:Ew.
      destruct (winv_wu _ _ _ _ _ _ _ _ _ _ HW Ew) as [HW' _].
      destruct (wmu_step _ _ _ _ _ _ _ _ _ _ HW Ew) as [(_ & _ & Hp & -> & ->) | Hlt].
      * rewrite Hp in E. discriminate.
      * destruct (IH f pw' wp' wc' w' l1 l2 (if tick then cyc + 1 else cyc) tick HW' ltac:(lia) ltac:(lia))
          as (w3 & c3 & E3 & Hc3).
        exists w3, c3. split; [exact E3|]. destruct tick; lia.
Qed.

(* ------------------------------------------------------------------ *)
(* the execute unit                                                     *)

Section FrontS.
  Variable app : list instr.
  Hypothesis Happ : wf_app app.

  Lemma sks_eu_flow full e ebus pw dt la e1 ebus2 dt1 act :
    Forall (entry_ok app) (q_eu e ++ q_sb ebus) -> eu_ok e ->
    (eu_pending_read e = true -> la <> [] /\ (eu_memory e = None -> eu_addrs e = la)) ->
    sks_eu full e ebus pw dt la = (e1, ebus2, dt1, act) ->
    act <> AStuck /\
    act_q act ++ q_eu e1 ++ q_sb ebus2 = q_eu e ++ q_sb ebus /\
    eu_ok e1 /\
    (eu_pending_read e1 = true -> la <> [] /\ (eu_memory e1 = None -> eu_addrs e1 = la)) /\
    (match act with
     | AExec _ _ => eu_processing e1 = false /\ eu_pending_read e1 = false /\ dt1 = dtal e dt la
     | ANone => dtal e1 dt1 la = dtal e dt la
     | AStuck => True
     end) /\
    (full = true -> eu_pending_read e = false -> eu_pending_read e1 = false /\ act = ANone) /\
    (eu_pending_read e = true -> act = ANone -> eu_memory e1 = eu_memory e /\ eu_pending_read e1 = true).
  Proof.
    intros Hent Hok Hmiss. unfold sks_eu.
    destruct (full && negb (eu_pending_read e)) eqn:Efull.
    - apply andb_prop in Efull as [-> Epr]. apply negb_true_iff in Epr.
      destruct Hok as (Hproc & Hpp & Hmem). specialize (Hmem Epr).
      assert (Hproc' : eu_processing e = true -> 1 <= eu_remaining e <= Cmax /\ eu_runner e <> None)
        by (intros Hp; specialize (Hproc Hp); rewrite Epr in Hproc; exact Hproc).
      destruct (eu_intake e ebus) as [[em ebus1] have] eqn:Ei.
      destruct (intake_flow app e ebus em ebus1 have Epr Hent Hproc' Ei) as (Hq & Hpr1 & Hhave & Hproc1 & _).
      destruct (intake_mem _ _ _ _ _ Ei) as [Hmm _]. rewrite Hmem in Hmm.
      assert (Hok_em : forall r, 1 <= r <= Cmax -> eu_ok (set_rem em r)).
      { intros r Hr. unfold eu_ok, set_rem. cbn [eu_processing eu_pending_read eu_remaining eu_runner eu_memory].
        rewrite Hpr1. split; [intros Hp; split; [exact Hr | apply Hproc1; exact Hp]|]. split; [discriminate | auto]. }
      assert (Hdt_em : forall r, dtal (set_rem em r) dt la = dtal e dt la).
      { intros r. unfold dtal, set_rem. cbn [eu_pending_read eu_memory]. rewrite Hpr1, Epr. reflexivity. }
      destruct have; cbn [negb].
      2:{ intros H. injection H as <- <- <- <-. cbn [act_q List.app].
          split; [discriminate|]. split; [exact Hq|].
          split. { unfold eu_ok. rewrite Hpr1. split; [exact Hproc1|]. split; [discriminate | auto]. }
          split; [rewrite Hpr1; discriminate|].
          split; [unfold dtal; rewrite Hpr1, Epr; reflexivity|].
          split; [auto | rewrite Epr; discriminate]. }
      symmetry in Hhave. destruct (Hproc1 Hhave) as [Hrem Hrun].
      assert (Hres : forall r, 1 <= r <= Cmax ->
                (set_rem em r, ebus1, dt, ANone) = (e1, ebus2, dt1, act) ->
                act <> AStuck /\ act_q act ++ q_eu e1 ++ q_sb ebus2 = q_eu e ++ q_sb ebus /\ eu_ok e1 /\
                (eu_pending_read e1 = true -> la <> [] /\ (eu_memory e1 = None -> eu_addrs e1 = la)) /\
                match act with
                | AExec _ _ => eu_processing e1 = false /\ eu_pending_read e1 = false /\ dt1 = dtal e dt la
                | ANone => dtal e1 dt1 la = dtal e dt la
                | AStuck => True
                end /\
                (true = true -> eu_pending_read e = false -> eu_pending_read e1 = false /\ act = ANone) /\
                (eu_pending_read e = true -> act = ANone -> eu_memory e1 = eu_memory e /\ eu_pending_read e1 = true)).
      { intros r Hr H. injection H as <- <- <- <-. cbn [act_q List.app].
        split; [discriminate|]. split; [exact Hq|]. split; [apply Hok_em; exact Hr|].
        split; [cbn [set_rem eu_pending_read]; rewrite Hpr1; discriminate|].
        split; [apply Hdt_em|]. split; [cbn [set_rem eu_pending_read]; auto | rewrite Epr; discriminate]. }
      destruct (Z.eqb_spec (eu_remaining em - 1) 0) as [E0|E0]; cbn [negb]; apply Hres; unfold Cmax in *; lia.
    - intros Ee. destruct (skm_eu_flow app e ebus pw dt la e1 ebus2 dt1 act Hent Hok Hmiss Ee) as (H1 & H2 & H3 & H4 & H5).
      split; [exact H1|]. split; [exact H2|]. split; [exact H3|]. split; [exact H4|]. split; [exact H5|].
      split.
      + intros -> Hp. rewrite Hp in Efull. discriminate.
      + intros Hp Ha. subst act. unfold skm_eu in Ee. rewrite Hp in Ee.
        destruct (negb (eu_remaining e - 1 =? 0)).
        * injection Ee as <- _ _. cbn [set_rem eu_memory eu_pending_read]. auto.
        * destruct (eu_runner e) as [[i pc]|]; discriminate.
  Qed.

  Lemma sks_eu_dt_len full e ebus pw dt la e1 ebus2 dt1 act :
    zlen dt <= 16 -> sks_eu full e ebus pw dt la = (e1, ebus2, dt1, act) -> zlen dt1 <= 16.
  Proof.
    intros Hl. unfold sks_eu. destruct (full && negb (eu_pending_read e)).
    - destruct (eu_intake e ebus) as [[em ebus1] have].
      destruct (negb have); [intros H; apply tup4_3 in H as <-; exact Hl|].
      destruct (negb _); intros H; apply tup4_3 in H as <-; exact Hl.
    - apply skm_eu_dt_len. exact Hl.
  Qed.

  (* ---------------------------------------------------------------- *)
  (* the invariant                                                      *)

  Definition qlists (a : sks) : list Z := q_parts (x_eu a) (x_ebus a) (x_dbus a).

  Record FInvS (hev : event) (a : sks) : Prop := mkFS {
    fs_head : 0 <= ev_pc hev < 2147483644;
    fs_q : exists n, FQ app (ev_pc hev) n (qlists a) (x_fu a);
    fs_ent : Forall (entry_ok app) (q_eu (x_eu a) ++ q_sb (x_ebus a));
    fs_fu : fu_processing (x_fu a) = true -> 1 <= fu_remaining (x_fu a) <= MemoryAccess;
    fs_eu : eu_ok (x_eu a);
    fs_pr : eu_pending_read (x_eu a) = true -> x_wp a = None;
    fs_miss : eu_pending_read (x_eu a) = true ->
              ev_la hev <> [] /\ (eu_memory (x_eu a) = None -> eu_addrs (x_eu a) = ev_la hev);
    (* no store to the line of a load that waits for memory is in the write bus *)
    fs_I2 : eu_pending_read (x_eu a) = true -> eu_memory (x_eu a) = None ->
            forall x, x_wc a = Some x -> same_line_as (wi_sa x) (ev_la hev) = false;
    fs_l1i : IInv (x_l1i a);
    fs_w : WInv (x_pw a) (x_wp a) (x_wc a) (x_wu a) (x_l1 a) (x_l2 a);
    fs_dt : zlen (x_dt a) <= 16 }.

  (* the hypothesis no_stale along the run *)
  Definition ns_tail (r1 : list Z) (l1 : list Z) (l2 : bool) (ev : event) (t : list event) : bool :=
    let g := a_get_all r1 (ev_sa ev) in
    match ev_sa ev with
    | [] => no_stale (fst g) [] (nnil l1) t
    | _ :: _ => if snd g then no_stale (fst g) l1 l2 t else no_stale (fst g) (ev_sa ev) (nnil l1) t
    end.

  Definition ns_inv (a : sks) (path : list event) : Prop :=
    match path with
    | [] => True
    | hev :: rest =>
        (x_l2 a && same_line_as (x_l1 a) (ev_la hev)) = false /\
        ns_tail (dtal (x_eu a) (x_dt a) (ev_la hev)) (x_l1 a) (x_l2 a) hev rest = true
    end.

  Lemma no_stale_cons dt l1 l2 ev t :
    no_stale dt l1 l2 (ev :: t) = negb (l2 && same_line_as l1 (ev_la ev)) && ns_tail (fst (a_load dt (ev_la ev))) l1 l2 ev t.
  Proof. reflexivity. Qed.

  Lemma ns_inv_intro a hev rest :
    eu_pending_read (x_eu a) = false ->
    no_stale (x_dt a) (x_l1 a) (x_l2 a) (hev :: rest) = true -> ns_inv a (hev :: rest).
  Proof.
    intros Hp H. rewrite no_stale_cons in H. apply andb_prop in H as [H1 H2]. apply negb_true_iff in H1.
    cbn [ns_inv]. unfold dtal. rewrite Hp. auto.
  Qed.

  Lemma fronts_flow hev a fu1 l1i1 dbus1 dbus2 ebus1 e1 ebus2 dt1 act :
    FInvS hev a ->
    fu_cycle app (x_fu a) (x_l1i a) (x_dbus a) = Ok (fu1, l1i1, dbus1) ->
    du_cycle app dbus1 (x_ebus a) = Ok (dbus2, ebus1) ->
    sks_eu (is_full (x_wp a)) (x_eu a) ebus1 (x_pw a) (x_dt a) (ev_la hev) = (e1, ebus2, dt1, act) ->
    IInv l1i1 /\ (fu_processing fu1 = true -> 1 <= fu_remaining fu1 <= MemoryAccess) /\
    act <> AStuck /\
    (exists n', FQ app (ev_pc hev) n' (map snd (act_q act) ++ q_parts e1 ebus2 dbus2) fu1) /\
    Forall (entry_ok app) (act_q act ++ q_eu e1 ++ q_sb ebus2) /\
    eu_ok e1 /\
    (eu_pending_read e1 = true -> ev_la hev <> [] /\ (eu_memory e1 = None -> eu_addrs e1 = ev_la hev)) /\
    (match act with
     | AExec _ _ => eu_processing e1 = false /\ eu_pending_read e1 = false /\ dt1 = dtal (x_eu a) (x_dt a) (ev_la hev)
     | ANone => dtal e1 dt1 (ev_la hev) = dtal (x_eu a) (x_dt a) (ev_la hev)
     | AStuck => True
     end) /\
    (is_full (x_wp a) = true -> eu_pending_read (x_eu a) = false -> eu_pending_read e1 = false /\ act = ANone) /\
    (eu_pending_read (x_eu a) = true -> act = ANone -> eu_memory e1 = eu_memory (x_eu a) /\ eu_pending_read e1 = true).
  Proof.
    intros HF Ef Ed Ee.
    destruct HF as [Hh [n Hq] Hent Hfu Hok Hpr Hmiss HI2 HI HW Hdtl].
    unfold qlists in Hq. rewrite q_parts_alt in Hq.
    destruct (fq_fu app Happ (ev_pc hev) n _ _ _ _ _ _ _ Hh Hq HI Hfu Ef) as (HI1 & Hfu1 & [n1 Hq1] & Hcur & _).
    assert (Hpos : forall p, sb_current dbus1 = Some p -> 0 <= p).
    { intros p Hp. apply (consec4_nonneg (ev_pc hev) n1); [lia|]. rewrite <- (q_eq _ _ _ _ _ Hq1).
      apply in_or_app. right. unfold q_sb. rewrite Hp. left. reflexivity. }
    apply Forall_app in Hent as [Hent_eu Hent_eb].
    destruct (du_flow app dbus1 (x_ebus a) dbus2 ebus1 Hpos Hent_eb Ed) as (Hent1 & Hdu).
    assert (Hq2 : exists n2, FQ app (ev_pc hev) n2 (map snd (q_eu (x_eu a) ++ q_sb ebus1) ++ q_sb dbus2) fu1).
    { destruct Hdu as [Heq | (p & Hp & Hout & -> & _)].
      - exists n1. rewrite map_app, <- app_assoc, Heq, app_assoc, <- map_app. exact Hq1.
      - rewrite Hp in Hq1. destruct (fq_drop app (ev_pc hev) n1 _ p _ fu1 ltac:(lia) Hq1 Hout) as (Hr & _ & Hq').
        rewrite Hr, app_nil_r. eauto. }
    destruct Hq2 as [n2 Hq2].
    assert (Hent2 : Forall (entry_ok app) (q_eu (x_eu a) ++ q_sb ebus1)) by (apply Forall_app; auto).
    destruct (sks_eu_flow _ _ _ _ _ _ _ _ _ _ Hent2 Hok Hmiss Ee) as (Hns & Hfl & Hok1 & Hmiss1 & Hex & Hfull & Hwait).
    split; [assumption|]. split; [assumption|]. split; [assumption|].
    split; [|split; [rewrite Hfl; assumption | auto 6]].
    exists n2. rewrite q_parts_alt, app_assoc, <- map_app, Hfl. exact Hq2.
  Qed.

  Lemma front_du_s hev a fu1 l1i1 dbus1 dbus2 ebus1 :
    FInvS hev a ->
    fu_cycle app (x_fu a) (x_l1i a) (x_dbus a) = Ok (fu1, l1i1, dbus1) ->
    du_cycle app dbus1 (x_ebus a) = Ok (dbus2, ebus1) ->
    (exists n2, FQ app (ev_pc hev) n2 (map snd (q_eu (x_eu a) ++ q_sb ebus1) ++ q_sb dbus2) fu1) /\
    Forall (entry_ok app) (q_eu (x_eu a) ++ q_sb ebus1).
  Proof.
    intros HF Ef Ed.
    destruct HF as [Hh [n Hq] Hent Hfu Hok Hpr Hmiss HI2 HI HW Hdtl].
    unfold qlists in Hq. rewrite q_parts_alt in Hq.
    destruct (fq_fu app Happ (ev_pc hev) n _ _ _ _ _ _ _ Hh Hq HI Hfu Ef) as (HI1 & Hfu1 & [n1 Hq1] & Hcur & _).
    assert (Hpos : forall p, sb_current dbus1 = Some p -> 0 <= p).
    { intros p Hp. apply (consec4_nonneg (ev_pc hev) n1); [lia|]. rewrite <- (q_eq _ _ _ _ _ Hq1).
      apply in_or_app. right. unfold q_sb. rewrite Hp. left. reflexivity. }
    apply Forall_app in Hent as [Hent_eu Hent_eb].
    destruct (du_flow app dbus1 (x_ebus a) dbus2 ebus1 Hpos Hent_eb Ed) as (Hent1 & Hdu).
    split; [|apply Forall_app; auto].
    destruct Hdu as [Heq | (p & Hp & Hout & -> & _)].
    - exists n1. rewrite map_app, <- app_assoc, Heq, app_assoc, <- map_app. exact Hq1.
    - rewrite Hp in Hq1. destruct (fq_drop app (ev_pc hev) n1 _ p _ fu1 ltac:(lia) Hq1 Hout) as (Hr & _ & Hq').
      rewrite Hr, app_nil_r. eauto.
  Qed.

  Lemma head_entry_s hev a fu1 l1i1 dbus1 dbus2 ebus1 i pc :
    FInvS hev a ->
    fu_cycle app (x_fu a) (x_l1i a) (x_dbus a) = Ok (fu1, l1i1, dbus1) ->
    du_cycle app dbus1 (x_ebus a) = Ok (dbus2, ebus1) ->
    hd_error (q_eu (x_eu a) ++ q_sb ebus1) = Some (i, pc) ->
    pc = ev_pc hev /\ nth_error app (Z.to_nat (pc / 4)) = Some i.
  Proof.
    intros HF Ef Ed Hhd. destruct (front_du_s hev a _ _ _ _ _ HF Ef Ed) as ([n2 Hq2] & Hent).
    destruct (q_eu (x_eu a) ++ q_sb ebus1) as [|x l]; [discriminate|]. cbn [hd_error] in Hhd. injection Hhd as ->.
    cbn [map snd List.app] in Hq2. destruct (fq_head app _ _ _ _ _ Hq2) as [Hpc _].
    inversion Hent as [|? ? [_ Hi] _]; subst. split; [reflexivity | exact Hi].
  Qed.
End FrontS.

(* ------------------------------------------------------------------ *)
(* preservation                                                         *)

Lemma sks_next_spec a fu1 l1i1 dbus2 ebus2 e1 add dt1 :
  WInv (x_pw a) (x_wp a) (x_wc a) (x_wu a) (x_l1 a) (x_l2 a) ->
  (forall wr sa, add = Some (wr, sa) -> x_wp a = None /\ (length wr <= 1)%nat /\ (sa <> [] -> wr = [])) ->
  let a2 := sks_next a fu1 l1i1 dbus2 ebus2 e1 add dt1 in
  x_fu a2 = fu1 /\ x_l1i a2 = l1i1 /\ x_dbus a2 = dbus2 /\ x_ebus a2 = ebus2 /\ x_eu a2 = e1 /\ x_dt a2 = dt1 /\
  WInv (x_pw a2) (x_wp a2) (x_wc a2) (x_wu a2) (x_l1 a2) (x_l2 a2) /\
  x_l1 a2 = (match add with None => x_l1 a | Some (_, sa) => sa end) /\
  x_l2 a2 = (match add with None => x_l2 a | Some _ => nnil (x_l1 a) end) /\
  (add = None -> x_wp a = None -> x_wp a2 = None /\
     (wu_pending (x_wu a) = false -> x_wc a2 = None) /\ (wu_pending (x_wu a) = true -> x_wc a2 = x_wc a)).
Proof.
  intros HW Hadd. unfold sks_next. destruct add as [[wr sa]|].
  - destruct (Hadd wr sa eq_refl) as (Hwp & Hl & Hs). rewrite Hwp in HW.
    pose proof (winv_add _ _ _ _ _ wr sa HW Hl Hs) as HW1.
    destruct (sks_wu (pw_add (x_pw a) wr) (x_wu a) (Some (wr, sa, nnil (x_l1 a))) (x_wc a)) as [[[pw2 w2] wp2] wc2] eqn:Ew.
    destruct (winv_wu _ _ _ _ _ _ _ _ _ _ HW1 Ew) as (HW2 & _ & _).
    cbn [x_fu x_l1i x_dbus x_ebus x_eu x_dt x_pw x_wp x_wc x_wu x_l1 x_l2].
    do 6 (split; [reflexivity|]). split; [exact HW2|]. split; [reflexivity|]. split; [reflexivity|]. discriminate.
  - destruct (sks_wu (x_pw a) (x_wu a) (x_wp a) (x_wc a)) as [[[pw2 w2] wp2] wc2] eqn:Ew.
    destruct (winv_wu _ _ _ _ _ _ _ _ _ _ HW Ew) as (HW2 & Hp & Hi).
    cbn [x_fu x_l1i x_dbus x_ebus x_eu x_dt x_pw x_wp x_wc x_wu x_l1 x_l2].
    do 6 (split; [reflexivity|]). split; [exact HW2|]. split; [reflexivity|]. split; [reflexivity|].
    intros _ Hwp. split; [|split].
    + destruct (wu_pending (x_wu a)); [destruct (Hp eq_refl) as [-> _]; assumption | apply (Hi eq_refl)].
    + intros Hw. destruct (Hi Hw) as [_ ->]. assumption.
    + intros Hw. apply (Hp Hw).
Qed.

Lemma sks_pre_none app a hev rest fu1 l1i1 dbus1 dbus2 ebus1 e1 ebus2 dt1 :
  fu_cycle app (x_fu a) (x_l1i a) (x_dbus a) = Ok (fu1, l1i1, dbus1) ->
  du_cycle app dbus1 (x_ebus a) = Ok (dbus2, ebus1) ->
  sks_eu (is_full (x_wp a)) (x_eu a) ebus1 (x_pw a) (x_dt a) (ev_la hev) = (e1, ebus2, dt1, ANone) ->
  sks_pre app a (hev :: rest) = XStep (sks_next a fu1 l1i1 dbus2 ebus2 e1 None dt1) (hev :: rest) 1.
Proof. intros Ef Ed Ee. unfold sks_pre. rewrite Ef, Ed, Ee. reflexivity. Qed.

Lemma sks_pre_exec_eq app a hev rest fu1 l1i1 dbus1 dbus2 ebus1 e1 ebus2 dt1 i pc :
  fu_cycle app (x_fu a) (x_l1i a) (x_dbus a) = Ok (fu1, l1i1, dbus1) ->
  du_cycle app dbus1 (x_ebus a) = Ok (dbus2, ebus1) ->
  sks_eu (is_full (x_wp a)) (x_eu a) ebus1 (x_pw a) (x_dt a) (ev_la hev) = (e1, ebus2, dt1, AExec i pc) ->
  sks_pre app a (hev :: rest) = sks_exec a fu1 l1i1 dbus2 ebus2 e1 dt1 i pc (hev :: rest).
Proof. intros Ef Ed Ee. unfold sks_pre. rewrite Ef, Ed, Ee. reflexivity. Qed.

Section StepS.
  Variable app : list instr.
  Hypothesis Happ : wf_app app.

  Lemma finvs_exec_intro hev' a2 e1 :
    x_eu a2 = e1 -> eu_pending_read e1 = false -> eu_ok e1 ->
    0 <= ev_pc hev' < 2147483644 ->
    (exists n, FQ app (ev_pc hev') n (qlists a2) (x_fu a2)) ->
    Forall (entry_ok app) (q_eu e1 ++ q_sb (x_ebus a2)) ->
    (fu_processing (x_fu a2) = true -> 1 <= fu_remaining (x_fu a2) <= MemoryAccess) ->
    IInv (x_l1i a2) -> WInv (x_pw a2) (x_wp a2) (x_wc a2) (x_wu a2) (x_l1 a2) (x_l2 a2) -> zlen (x_dt a2) <= 16 ->
    FInvS app hev' a2.
  Proof.
    intros He Hp Hok Hh Hq Hent Hfu HI HW Hdt. constructor; auto; rewrite ?He; auto;
      intros Hp'; rewrite Hp in Hp'; discriminate.
  Qed.

  Theorem finvs_step hev rest a a' path' dc :
    FInvS app hev a -> evs_wf app (hev :: rest) -> ns_inv a (hev :: rest) ->
    sks_pre app a (hev :: rest) = XStep a' path' dc ->
    exists hev' rest', path' = hev' :: rest' /\ FInvS app hev' a' /\ evs_wf app path' /\ ns_inv a' path' /\
      (path' = hev :: rest \/ path' = rest).
  Proof.
    intros HF Hwf Hns H.
    destruct (fu_cycle app (x_fu a) (x_l1i a) (x_dbus a)) as [[[fu1 l1i1] dbus1]| |] eqn:Ef;
      [|unfold sks_pre in H; rewrite Ef in H; discriminate|unfold sks_pre in H; rewrite Ef in H; discriminate].
    destruct (du_cycle app dbus1 (x_ebus a)) as [[dbus2 ebus1]| |] eqn:Ed;
      [|unfold sks_pre in H; rewrite Ef, Ed in H; discriminate|unfold sks_pre in H; rewrite Ef, Ed in H; discriminate].
    destruct (sks_eu (is_full (x_wp a)) (x_eu a) ebus1 (x_pw a) (x_dt a) (ev_la hev)) as [[[e1 ebus2] dt1] act] eqn:Ee.
    destruct (fronts_flow app Happ hev a _ _ _ _ _ _ _ _ _ HF Ef Ed Ee)
      as (HI1 & Hfu1 & Hnst & [n' Hq'] & Hent' & Hok1 & Hmiss1 & Hex & Hfull & Hwait).
    pose proof HF as [Hh _ _ _ Hok Hpr Hmiss HI2 _ HW Hdtl].
    pose proof (sks_eu_dt_len _ _ _ _ _ _ _ _ _ _ Hdtl Ee) as Hdt1l.
    cbn [ns_inv] in Hns. destruct Hns as [Hns1 Hns2].
    destruct act as [|i pc|]; [| |congruence].
    - (* nothing executed *)
      rewrite (sks_pre_none app a hev rest _ _ _ _ _ _ _ _ Ef Ed Ee) in H.
      assert (Ha : a' = sks_next a fu1 l1i1 dbus2 ebus2 e1 None dt1 /\ path' = hev :: rest /\ dc = 1)
        by (split; [|split]; congruence).
      destruct Ha as (-> & -> & ->). clear H.
      destruct (sks_next_spec a fu1 l1i1 dbus2 ebus2 e1 None dt1 HW ltac:(discriminate))
        as (E1 & E2 & E3 & E4 & E5 & E6 & HW2 & El1 & El2 & Hwn).
      exists hev, rest. split; [reflexivity|]. split; [|split; [exact Hwf|split; [|auto]]].
      + assert (Hwpn : eu_pending_read e1 = true -> x_wp a = None).
        { intros Hp1. destruct (x_wp a) as [y|] eqn:Ewp; [|reflexivity]. exfalso.
          destruct (eu_pending_read (x_eu a)) eqn:Ep0.
          - discriminate (Hpr eq_refl).
          - destruct (Hfull eq_refl eq_refl) as [Hc _]. congruence. }
        cbn [act_q List.app map] in Hq', Hent'.
        constructor.
        * exact Hh.
        * exists n'. unfold qlists. rewrite E1, E3, E4, E5. exact Hq'.
        * rewrite E5, E4. exact Hent'.
        * rewrite E1. exact Hfu1.
        * rewrite E5. exact Hok1.
        * rewrite E5. intros Hp1. apply (Hwn eq_refl (Hwpn Hp1)).
        * rewrite E5. exact Hmiss1.
        * rewrite E5. intros Hp1 Hm1 x Hx. destruct (Hwn eq_refl (Hwpn Hp1)) as (_ & Hwi & Hwb).
          destruct (wu_pending (x_wu a)) eqn:Ewu; [|rewrite (Hwi eq_refl) in Hx; discriminate].
          rewrite (Hwb eq_refl) in Hx.
          destruct (eu_pending_read (x_eu a)) eqn:Ep0.
          -- destruct (Hwait eq_refl eq_refl) as [Hme _]. apply (HI2 eq_refl); [congruence | exact Hx].
          -- destruct (w_lc _ _ _ _ _ _ HW (Hwpn Hp1) x Hx) as [Hsa Hfl].
             pose proof (w_I1 _ _ _ _ _ _ HW Ewu x Hx) as Hf1. rewrite Hsa. rewrite <- Hfl, Hf1 in Hns1. exact Hns1.
        * rewrite E2. exact HI1.
        * exact HW2.
        * rewrite E6. exact Hdt1l.
      + cbn [ns_inv]. rewrite El1, El2, E5, E6. rewrite Hex. auto.
    - (* (i, pc) executed *)
      destruct Hex as (Hp1 & Hpr1 & Hdt1).
      cbn [act_q map snd List.app] in Hq', Hent'.
      destruct (fq_head app _ _ _ _ _ Hq') as (-> & m & ->).
      assert (Hwp0 : x_wp a = None).
      { destruct (x_wp a) as [y|] eqn:Ewp; [|reflexivity]. exfalso.
        destruct (eu_pending_read (x_eu a)) eqn:Ep0.
        - discriminate (Hpr eq_refl).
        - destruct (Hfull eq_refl eq_refl) as [_ Hc]. discriminate. }
      rewrite (sks_pre_exec_eq app a hev rest _ _ _ _ _ _ _ _ _ _ Ef Ed Ee) in H.
      unfold sks_exec in H. rewrite Z.eqb_refl in H. cbn [negb] in H.
      destruct (is_ret i).
      { destruct rest; [|discriminate]. destruct (sks_wu _ _ _ _) as [[[? ?] ?] ?]. destruct (sks_drain _ _ _ _ _ _ _); discriminate. }
      destruct rest as [|nxt rest']; [discriminate|].
      destruct (evs_wf_tail app _ _ _ Hwf) as [Hwf' Hnext].
      assert (Hadd : addS 32 (ev_pc hev) 4 = ev_pc hev + 4).
      { unfold addS. apply wrapS_id; [lia|]. apply int32_bounds. lia. }
      assert (Hent1 : Forall (entry_ok app) (q_eu e1 ++ q_sb ebus2)) by (inversion Hent'; assumption).
      unfold ns_tail in Hns2. rewrite <- Hdt1 in Hns2.
      destruct (ev_sa hev) as [|s0 sa'] eqn:Esa.
      + (* not a store *)
        destruct (sks_next_spec a fu1 l1i1 dbus2 ebus2 e1 (Some (instr_WriteRegisters i, [])) dt1 HW)
          as (E1 & E2 & E3 & E4 & E5 & E6 & HW2 & El1 & El2 & _).
        { intros wr sa Hx. injection Hx as <- <-. split; [exact Hwp0|]. split; [apply write_regs_length | congruence]. }
        set (a2 := sks_next a fu1 l1i1 dbus2 ebus2 e1 (Some (instr_WriteRegisters i, [])) dt1) in *.
        cbn [a_get_all fst] in Hns2.
        destruct (sk_flush i (ev_pc hev) (ev_pc nxt)) eqn:Efl.
        * destruct (sks_drain drain_fuel (x_pw a2) (x_wu a2) (x_wp a2) (x_wc a2) 1 true) as [[w3 c3]|] eqn:Edr; [|discriminate].
          injection H as <- <- <-.
          exists nxt, rest'. split; [reflexivity|]. split; [|split; [exact Hwf'|split; [|auto]]].
          -- apply (finvs_exec_intro nxt _ e1); cbn [x_eu x_fu x_l1i x_dbus x_ebus x_pw x_wp x_wc x_wu x_l1 x_l2 x_dt fu_processing]; auto; try discriminate.
             ++ exists O. unfold qlists, q_parts, q_eu. cbn [x_eu x_ebus x_dbus x_fu]. rewrite Hp1.
                cbn [map List.app q_sb sbus_empty sb_current sb_pending olist].
                constructor; cbn [fu_complete fu_pc]; try discriminate; try lia; reflexivity.
             ++ unfold q_eu. rewrite Hp1. constructor.
             ++ apply winv_empty. eapply sks_drain_idle. exact Edr.
          -- apply ns_inv_intro; cbn [x_eu x_dt x_l1 x_l2]; [exact Hpr1|]. rewrite El1, El2. exact Hns2.
        * unfold sk_flush in Efl. apply orb_false_elim in Efl as [_ Efl]. apply negb_false_iff, Z.eqb_eq in Efl.
          rewrite Hadd in Efl. injection H as <- <- <-.
          exists nxt, rest'. split; [reflexivity|]. split; [|split; [exact Hwf'|split; [|auto]]].
          -- apply (finvs_exec_intro nxt _ e1); rewrite ?E1, ?E2, ?E3, ?E4, ?E5, ?E6; auto.
             rewrite Efl. exists m. unfold qlists. rewrite E3, E4, E5. apply (fq_shift app). exact Hq'.
          -- apply ns_inv_intro; rewrite ?E5, ?E6; [exact Hpr1|]. rewrite El1, El2. exact Hns2.
      + (* a store; the next pc is pc + 4 *)
        destruct (Z.eqb_spec (ev_pc nxt) (addS 32 (ev_pc hev) 4)) as [Enx|]; cbn [negb] in H; [|discriminate].
        rewrite Hadd in Enx.
        assert (Hdtn : zlen (fst (a_get_all dt1 (s0 :: sa'))) <= 16) by (rewrite a_get_all_len; exact Hdt1l).
        destruct (snd (a_get_all dt1 (s0 :: sa'))) eqn:Ehit.
        * (* it hits in the L1D *)
          destruct (sks_next_spec a fu1 l1i1 dbus2 ebus2 e1 None (fst (a_get_all dt1 (s0 :: sa'))) HW ltac:(discriminate))
            as (E1 & E2 & E3 & E4 & E5 & E6 & HW2 & El1 & El2 & _).
          set (a2 := sks_next a fu1 l1i1 dbus2 ebus2 e1 None (fst (a_get_all dt1 (s0 :: sa')))) in *.
          injection H as <- <- <-.
          exists nxt, rest'. split; [reflexivity|]. split; [|split; [exact Hwf'|split; [|auto]]].
          -- apply (finvs_exec_intro nxt _ e1); rewrite ?E1, ?E2, ?E3, ?E4, ?E5, ?E6; auto.
             rewrite Enx. exists m. unfold qlists. rewrite E3, E4, E5. apply (fq_shift app). exact Hq'.
          -- apply ns_inv_intro; rewrite ?E5, ?E6; [exact Hpr1|]. rewrite El1, El2. exact Hns2.
        * (* it misses: the store goes on the write bus *)
          destruct (sks_next_spec a fu1 l1i1 dbus2 ebus2 e1 (Some ([], s0 :: sa')) (fst (a_get_all dt1 (s0 :: sa'))) HW)
            as (E1 & E2 & E3 & E4 & E5 & E6 & HW2 & El1 & El2 & _).
          { intros wr sa Hx. injection Hx as <- <-. split; [exact Hwp0|]. split; [cbn; lia | reflexivity]. }
          set (a2 := sks_next a fu1 l1i1 dbus2 ebus2 e1 (Some ([], s0 :: sa')) (fst (a_get_all dt1 (s0 :: sa')))) in *.
          injection H as <- <- <-.
          exists nxt, rest'. split; [reflexivity|]. split; [|split; [exact Hwf'|split; [|auto]]].
          -- apply (finvs_exec_intro nxt _ e1); rewrite ?E1, ?E2, ?E3, ?E4, ?E5, ?E6; auto.
             rewrite Enx. exists m. unfold qlists. rewrite E3, E4, E5. apply (fq_shift app). exact Hq'.
          -- apply ns_inv_intro; rewrite ?E5, ?E6; [exact Hpr1|]. rewrite El1, El2. exact Hns2.
  Qed.
End StepS.

(* ------------------------------------------------------------------ *)
(* progress                                                             *)

Section ProgressS.
  Variable app : list instr.
  Hypothesis Happ : wf_app app.

  (* projections to the skeleton in which every store hits (Mvp4mSkel.v) *)
  Definition pmz (a : sks) : skm :=
    mk_skm (x_fu a) (x_l1i a) (x_dbus a) (x_ebus a) (x_eu a) zero_pw None (x_dt a).
  Definition pmw (a : sks) : skm :=
    mk_skm (x_fu a) (x_l1i a) (x_dbus a) (x_ebus a) (x_eu a) (x_pw a) (option_map wi_wr (x_wc a)) (x_dt a).

  Definition phif (a : sks) : Z := phim (pmz a).
  Definition fcomp (a : sks) : bool :=
    fu_complete (x_fu a) && negb (eu_processing (x_eu a)) && sbus_is_empty (x_dbus a) && sbus_is_empty (x_ebus a).
  Definition phis (a : sks) : Z := (if fcomp a then 0 else phif a) + wmu (x_wu a) (x_wp a) (x_wc a).

  Lemma finvm_pmz hev a : FInvS app hev a -> eu_pending_read (x_eu a) = false -> FInvM app hev (pmz a).
  Proof.
    intros [Hh Hq Hent Hfu (Hp1 & Hp2 & Hp3) Hpr Hmiss HI2 HI HW Hdt] Hp.
    constructor; cbn [pmz m_fu m_l1i m_dbus m_ebus m_eu m_pw m_wb m_dt]; auto; try discriminate.
    all: try (intros Hx; rewrite Hp in Hx; discriminate).
  Qed.

  Lemma finvm_pmw hev a : FInvS app hev a -> eu_pending_read (x_eu a) = false -> x_wp a = None -> FInvM app hev (pmw a).
  Proof.
    intros [Hh Hq Hent Hfu (Hp1 & Hp2 & Hp3) Hpr Hmiss HI2 HI HW Hdt] Hp Hwp.
    constructor; cbn [pmw m_fu m_l1i m_dbus m_ebus m_eu m_pw m_wb m_dt]; auto.
    all: try (intros Hx; rewrite Hp in Hx; discriminate).
    - rewrite (w_pw _ _ _ _ _ _ HW), Hwp. reflexivity.
    - intros wr Hwr. destruct (x_wc a) as [x|] eqn:Ewc; [|discriminate]. injection Hwr as <-.
      apply (w_wr _ _ _ _ _ _ HW x). auto.
  Qed.

  Lemma phim_parts fu l1 dbus ebus e pw wb dt :
    phim (mk_skm fu l1 dbus ebus e pw wb dt) =
    phim (mk_skm fu l1 dbus ebus e zero_pw None dt) +
    (if eu_processing e && negb (eu_pending_read e) then match wb with Some _ => 1 | None => 0 end else 0).
  Proof.
    unfold phim. cbn [m_eu m_wb m_ebus m_dbus m_fu]. destruct (eu_processing e), (eu_pending_read e), wb; cbn [andb negb]; lia.
  Qed.

  Lemma phim_indep fu l1 l1' dbus ebus e dt dt' :
    phim (mk_skm fu l1 dbus ebus e zero_pw None dt) = phim (mk_skm fu l1' dbus ebus e zero_pw None dt').
  Proof. reflexivity. Qed.

  Lemma phif_bounds hev a : FInvS app hev a -> 1 <= phif a <= phim_max.
  Proof.
    intros HF. pose proof (fuphi_bounds _ (fs_fu _ _ _ HF)) as Hf. destruct (fs_eu _ _ _ HF) as (He & _ & _).
    unfold phif, phim, phim_max, pmz. cbn [m_eu m_wb m_ebus m_dbus m_fu]. destruct (eu_processing (x_eu a)).
    - destruct (He eq_refl) as [Hr _]. unfold Cmax, Rmax, MemoryAccess in *.
      destruct (eu_pending_read (x_eu a)); lia.
    - unfold Cmax, Rmax, MemoryAccess in *.
      destruct (sb_current (x_ebus a)), (sb_pending (x_ebus a)), (sb_current (x_dbus a)), (sb_pending (x_dbus a)); lia.
  Qed.

  Lemma phis_bounds hev a : FInvS app hev a -> 0 <= phis a <= phim_max + 3 * MemoryAccess + 3.
  Proof.
    intros HF. pose proof (phif_bounds hev a HF). pose proof (wmu_bounds _ _ _ _ _ _ (fs_w _ _ _ HF)).
    unfold phis. destruct (fcomp a); unfold phim_max, Cmax, Rmax, MemoryAccess in *; lia.
  Qed.

  (* once the front end is empty it stays empty *)
  Lemma fcomp_stable hev a fu1 l1i1 dbus1 dbus2 ebus1 e1 ebus2 dt1 act :
    FInvS app hev a -> fcomp a = true ->
    fu_cycle app (x_fu a) (x_l1i a) (x_dbus a) = Ok (fu1, l1i1, dbus1) ->
    du_cycle app dbus1 (x_ebus a) = Ok (dbus2, ebus1) ->
    sks_eu (is_full (x_wp a)) (x_eu a) ebus1 (x_pw a) (x_dt a) (ev_la hev) = (e1, ebus2, dt1, act) ->
    act = ANone /\ fu_complete fu1 = true /\ eu_processing e1 = false /\ sbus_is_empty dbus2 = true /\ sbus_is_empty ebus2 = true.
  Proof.
    intros HF Hc. unfold fcomp in Hc. repeat (apply andb_prop in Hc as [Hc ?]). apply negb_true_iff in H1.
    destruct (fs_eu _ _ _ HF) as (_ & Hpp & _).
    assert (Hpr : eu_pending_read (x_eu a) = false).
    { destruct (eu_pending_read (x_eu a)); [|reflexivity]. rewrite (Hpp eq_refl) in H1. discriminate. }
    intros Ef. unfold fu_cycle in Ef. rewrite Hc in Ef. cbv iota in Ef.
    assert (Hx : fu1 = x_fu a /\ l1i1 = x_l1i a /\ dbus1 = x_dbus a) by (repeat split; congruence).
    destruct Hx as (-> & -> & ->). clear Ef.
    assert (Hd : x_dbus a = mk_sbus None None).
    { unfold sbus_is_empty in H0. destruct (x_dbus a) as [[?|] [?|]]; try discriminate. reflexivity. }
    assert (He : x_ebus a = mk_sbus None None).
    { unfold sbus_is_empty in H. destruct (x_ebus a) as [[?|] [?|]]; try discriminate. reflexivity. }
    rewrite Hd, He. unfold du_cycle. cbn [sbus_can_add sb_pending negb sbus_get sb_current].
    intros Ed.
    assert (Hy : dbus2 = mk_sbus None None /\ ebus1 = mk_sbus None None) by (split; congruence).
    destruct Hy as (-> & ->). clear Ed.
    unfold sks_eu, skm_eu, eu_intake. rewrite Hpr, H1. cbn [sbus_get sb_current sb_pending negb].
    intros Ee. destruct (is_full (x_wp a) && true); injection Ee as <- <- <- <-; auto.
  Qed.

  Lemma none_phis hev a fu1 l1i1 dbus1 dbus2 ebus1 e1 ebus2 dt1 :
    FInvS app hev a ->
    fu_cycle app (x_fu a) (x_l1i a) (x_dbus a) = Ok (fu1, l1i1, dbus1) ->
    du_cycle app dbus1 (x_ebus a) = Ok (dbus2, ebus1) ->
    sks_eu (is_full (x_wp a)) (x_eu a) ebus1 (x_pw a) (x_dt a) (ev_la hev) = (e1, ebus2, dt1, ANone) ->
    sks_complete (sks_next a fu1 l1i1 dbus2 ebus2 e1 None dt1) = false ->
    phis (sks_next a fu1 l1i1 dbus2 ebus2 e1 None dt1) < phis a.
  Proof.
    intros HF Ef Ed Ee. pose proof (fs_w _ _ _ HF) as HW.
    unfold sks_next. destruct (sks_wu (x_pw a) (x_wu a) (x_wp a) (x_wc a)) as [[[pw2 w2] wp2] wc2] eqn:Ew.
    set (a2 := mk_sks fu1 l1i1 dbus2 ebus2 e1 pw2 wp2 wc2 w2 dt1 (x_l1 a) (x_l2 a)).
    intros Hnc.
    pose proof (wmu_step _ _ _ _ _ _ _ _ _ _ HW Ew) as Hmu.
    destruct (winv_wu _ _ _ _ _ _ _ _ _ _ HW Ew) as (HW2 & Hwp & Hwi).
    pose proof (wmu_bounds _ _ _ _ _ _ HW) as Hb1. pose proof (wmu_bounds _ _ _ _ _ _ HW2) as Hb2.
    pose proof (phif_bounds hev a HF) as Hpf.
    assert (Hf2 : phif a2 = phim (mk_skm fu1 l1i1 dbus2 ebus2 e1 zero_pw None dt1)) by reflexivity.
    assert (Hc2 : fcomp a2 = skm_complete (mk_skm fu1 l1i1 dbus2 ebus2 e1 zero_pw None dt1)).
    { unfold fcomp, skm_complete, a2. cbn [x_fu x_eu x_dbus x_ebus m_fu m_eu m_dbus m_ebus m_wb]. rewrite andb_true_r. reflexivity. }
    unfold phis. cbn [x_wu x_wp x_wc a2]. fold a2.
    destruct (fcomp a2) eqn:Efc2.
    - (* the front end is empty: the write side makes progress *)
      assert (Hlt : wmu w2 wp2 wc2 < wmu (x_wu a) (x_wp a) (x_wc a)).
      { destruct Hmu as [(_ & _ & Hwi0 & Hwp0 & Hwc0) | Hlt]; [|exact Hlt]. exfalso.
        destruct (Hwi Hwi0) as [-> ->]. rewrite Hwp0 in *.
        unfold sks_wu in Ew. rewrite Hwi0, Hwc0 in Ew. assert (Hw2 : w2 = x_wu a) by congruence. subst w2.
        unfold sks_complete, a2 in Hnc. cbn [x_fu x_eu x_wu x_dbus x_ebus x_wp x_wc is_full negb] in Hnc.
        unfold fcomp, a2 in Efc2. cbn [x_fu x_eu x_dbus x_ebus] in Efc2. rewrite Hwi0 in Hnc.
        repeat (apply andb_prop in Efc2 as [Efc2 ?]). rewrite Hwp0, Efc2, H, H0, H1 in Hnc. cbn in Hnc. discriminate. }
      destruct (fcomp a); lia.
    - assert (Efc : fcomp a = false).
      { destruct (fcomp a) eqn:E; [|reflexivity]. exfalso.
        destruct (fcomp_stable hev a _ _ _ _ _ _ _ _ _ HF E Ef Ed Ee) as (_ & A & B & C & D).
        unfold fcomp, a2 in Efc2. cbn [x_fu x_eu x_dbus x_ebus] in Efc2. rewrite A, B, C, D in Efc2. discriminate. }
      rewrite Efc.
      assert (Hle : wmu w2 wp2 wc2 <= wmu (x_wu a) (x_wp a) (x_wc a)) by (destruct Hmu as [(-> & -> & _) | Hlt]; lia).
      destruct (fs_eu _ _ _ HF) as (Hproc & Hpp & Hmem0).
      destruct (eu_pending_read (x_eu a)) eqn:Epr.
      + (* a load in flight: its counter decreases *)
        pose proof (Hpp eq_refl) as Hp. destruct (Hproc Hp) as [Hr Hrun].
        unfold sks_eu, skm_eu in Ee. rewrite Epr, andb_false_r in Ee.
        destruct (Z.eqb_spec (eu_remaining (x_eu a) - 1) 0); cbn [negb] in Ee.
        * destruct (eu_runner (x_eu a)) as [[i pc]|]; discriminate.
        * injection Ee as <- _ _. rewrite Hf2. unfold phif, phim, pmz.
          cbn [m_eu m_wb set_rem eu_processing eu_pending_read eu_remaining]. rewrite Hp, Epr. lia.
      + destruct (is_full (x_wp a)) eqn:Efl.
        * (* the write bus is full *)
          assert (Hlt : wmu w2 wp2 wc2 < wmu (x_wu a) (x_wp a) (x_wc a)).
          { destruct Hmu as [(_ & _ & _ & Hwp0 & _) | Hlt]; [|exact Hlt]. rewrite Hwp0 in Efl. discriminate. }
          assert (Hphi : phif a2 <= phif a); [|lia].
          pose proof (finvm_pmz hev a HF Epr) as HFm.
          unfold sks_eu in Ee. rewrite Epr in Ee. cbn [andb negb] in Ee.
          destruct (eu_processing (x_eu a)) eqn:Ep.
          -- unfold eu_intake in Ee. rewrite Ep in Ee. cbn [negb] in Ee. destruct (Hproc eq_refl) as [Hr Hrun].
             rewrite Hf2. unfold phif, phim, pmz. cbn [m_eu m_wb]. rewrite Ep, Epr.
             destruct (Z.eqb_spec (eu_remaining (x_eu a) - 1) 0); cbn [negb] in Ee; injection Ee as <- _ _;
               cbn [set_rem eu_processing eu_pending_read eu_remaining]; rewrite Ep, Epr; lia.
          -- destruct (sb_current ebus1) as [[i pc]|] eqn:Ecur.
             ++ unfold eu_intake, sbus_get in Ee. rewrite Ep, Ecur in Ee.
                cbn [negb eu_remaining eu_runner eu_processing eu_addrs eu_memory] in Ee.
                pose proof (cyc_of_bounds i) as Hcy.
                rewrite Hf2. unfold phif, phim, pmz. cbn [m_eu m_wb m_ebus m_dbus m_fu]. rewrite Ep.
                pose proof (fuphi_bounds _ (fs_fu _ _ _ HF)) as Hfb.
                destruct (Z.eqb_spec (cyc_of i - 1) 0); cbn [negb] in Ee; injection Ee as <- _ _;
                  cbn [set_rem eu_processing eu_pending_read eu_remaining]; unfold Cmax, Rmax, MemoryAccess in *;
                  destruct (sb_current (x_ebus a)), (sb_pending (x_ebus a)), (sb_current (x_dbus a)), (sb_pending (x_dbus a)); lia.
             ++ assert (Ee' : skm_eu (m_eu (pmz a)) ebus1 (m_pw (pmz a)) (m_dt (pmz a)) (ev_la hev) = (e1, ebus2, dt1, ANone)).
                { cbn [pmz m_eu m_pw m_dt]. rewrite (skm_eu_idle_none (x_eu a) ebus1 zero_pw (x_dt a) _ Epr Ep Ecur).
                  unfold eu_intake, sbus_get in Ee. rewrite Ep, Ecur in Ee. cbn [negb] in Ee. exact Ee. }
                pose proof (nonem_phi app Happ hev (pmz a) fu1 l1i1 dbus1 dbus2 ebus1 e1 ebus2 dt1 HFm Ef Ed Ee') as Hn.
                unfold after_nonem in Hn. cbn [pmz m_pw m_wb wdel] in Hn. rewrite <- Hc2 in Hn. specialize (Hn eq_refl).
                rewrite Hf2. unfold phif. lia.
        * (* the write bus has room: as in the skeleton with store hits *)
          assert (Hwp0 : x_wp a = None) by (destruct (x_wp a); [discriminate Efl | reflexivity]).
          pose proof (finvm_pmw hev a HF Epr Hwp0) as HFm.
          unfold sks_eu in Ee. cbn [andb] in Ee.
          pose proof (nonem_phi app Happ hev (pmw a) fu1 l1i1 dbus1 dbus2 ebus1 e1 ebus2 dt1 HFm Ef Ed Ee) as Hn.
          unfold after_nonem in Hn. cbn [pmw m_pw m_wb] in Hn.
          assert (Hc3 : skm_complete (mk_skm fu1 l1i1 dbus2 ebus2 e1 (wdel (x_pw a) (option_map wi_wr (x_wc a))) None dt1) = false).
          { rewrite <- Efc2. unfold fcomp, skm_complete, a2. cbn [x_fu x_eu x_dbus x_ebus m_fu m_eu m_dbus m_ebus m_wb]. apply andb_true_r. }
          specialize (Hn Hc3).
          rewrite (phim_parts fu1 l1i1 dbus2 ebus2 e1 _ None dt1) in Hn.
          unfold pmw in Hn. rewrite (phim_parts (x_fu a) (x_l1i a) (x_dbus a) (x_ebus a) (x_eu a) (x_pw a) _ (x_dt a)) in Hn.
          fold (pmz a) in Hn. fold (phif a) in Hn. rewrite <- Hf2 in Hn.
          destruct (x_wc a) as [x|] eqn:Ewc; cbn [option_map] in Hn.
          -- assert (Hlt : wmu w2 wp2 wc2 < wmu (x_wu a) (x_wp a) (Some x)).
             { destruct Hmu as [(_ & _ & _ & _ & Hwc0) | Hlt]; [discriminate | exact Hlt]. }
             destruct (eu_processing e1 && negb (eu_pending_read e1)), (eu_processing (x_eu a) && negb (eu_pending_read (x_eu a))); lia.
          -- destruct (eu_processing e1 && negb (eu_pending_read e1)), (eu_processing (x_eu a) && negb (eu_pending_read (x_eu a))); lia.
  Qed.
End ProgressS.

Section TermS.
  Variable app : list instr.
  Hypothesis Happ : wf_app app.

  Lemma sks_drain_ge : forall fuel pw w wp wc c tick w3 c3,
    sks_drain fuel pw w wp wc c tick = Some (w3, c3) -> c <= c3.
  Proof.
    induction fuel as [|f IH]; intros pw w wp wc c tick w3 c3; cbn [sks_drain]; [discriminate|].
    destruct (negb (wu_pending w) && negb (is_full wp) && negb (is_full wc)).
    - intros H. injection H as _ <-. lia.
    - destruct (sks_wu pw w wp wc) as [[[pw' w'] wp'] wc']. intros H. apply IH in H. destruct tick; lia.
  Qed.

  Lemma drain_fuel_enough : (Z.to_nat (3 * MemoryAccess + 3) < drain_fuel)%nat.
  Proof. vm_compute. lia. Qed.

  Lemma winv_drain pw wp wc w l1 l2 cyc tick : WInv pw wp wc w l1 l2 ->
    exists w3 c3, sks_drain drain_fuel pw w wp wc cyc tick = Some (w3, c3).
  Proof.
    intros HW. pose proof (wmu_bounds _ _ _ _ _ _ HW) as Hb.
    destruct (sks_drain_ok (Z.to_nat (3 * MemoryAccess + 3)) drain_fuel pw wp wc w l1 l2 cyc tick HW ltac:(lia) drain_fuel_enough)
      as (w3 & c3 & E & _). eauto.
  Qed.

  Lemma completes_exit hev rest a : FInvS app hev a -> sks_complete a = true -> evs_wf app (hev :: rest) ->
    rest = [] /\ nlen app <= ev_pc hev / 4.
  Proof.
    intros HF Hc Hwf.
    unfold sks_complete in Hc. repeat (apply andb_prop in Hc as [Hc ?]).
    destruct HF as [Hh [n Hq] _ _ _ _ _ _ _ _ _].
    assert (Hn : qlists a = []).
    { unfold qlists, q_parts, q_eu, q_sb. apply negb_true_iff in H4. rewrite H4.
      unfold sbus_is_empty in H1, H2. destruct (sb_pending (x_ebus a)), (sb_current (x_ebus a)); try discriminate.
      destruct (sb_pending (x_dbus a)), (sb_current (x_dbus a)); try discriminate. reflexivity. }
    rewrite Hn in Hq. destruct Hq as [Hq _ Hend _ _]. destruct n; [|discriminate].
    specialize (Hend Hc). replace (ev_pc hev + 4 * Z.of_nat 0) with (ev_pc hev) in Hend by lia.
    split; [|exact Hend].
    destruct rest as [|nxt r]; [reflexivity|]. exfalso.
    cbn [evs_wf] in Hwf. destruct Hwf as (_ & (i & Hi & _) & _).
    assert ((Z.to_nat (ev_pc hev / 4) < length app)%nat) by (apply nth_error_Some; congruence).
    unfold nlen in Hend. lia.
  Qed.

  Lemma sks_pre_exec hev rest a fu1 l1i1 dbus1 dbus2 ebus1 e1 ebus2 dt1 i pc :
    FInvS app hev a -> evs_wf app (hev :: rest) ->
    fu_cycle app (x_fu a) (x_l1i a) (x_dbus a) = Ok (fu1, l1i1, dbus1) ->
    du_cycle app dbus1 (x_ebus a) = Ok (dbus2, ebus1) ->
    sks_eu (is_full (x_wp a)) (x_eu a) ebus1 (x_pw a) (x_dt a) (ev_la hev) = (e1, ebus2, dt1, AExec i pc) ->
    match sks_pre app a (hev :: rest) with
    | XStuck => False
    | XFin dc _ => rest = [] /\ dc = 1
    | XStep _ path' dc => path' = rest /\ 1 <= dc
    end.
  Proof.
    intros HF Hwf Ef Ed Ee.
    destruct (fronts_flow app Happ hev a _ _ _ _ _ _ _ _ _ HF Ef Ed Ee) as (_ & _ & _ & [n' Hq'] & Hent' & _ & _ & Hex & Hfull & _).
    pose proof (fs_w _ _ _ HF) as HW. pose proof (fs_pr _ _ _ HF) as Hpr.
    cbn [act_q map snd List.app] in Hq', Hent'.
    destruct (fq_head app _ _ _ _ _ Hq') as (-> & m & ->).
    inversion Hent' as [|x l [_ Hi] _]; subst. cbn [fst snd] in Hi.
    assert (Hwp0 : x_wp a = None).
    { destruct (x_wp a) as [y|] eqn:Ewp; [|reflexivity]. exfalso.
      destruct (eu_pending_read (x_eu a)) eqn:Ep0.
      - discriminate (Hpr eq_refl).
      - destruct (Hfull eq_refl eq_refl) as [_ Hc]. discriminate. }
    rewrite (sks_pre_exec_eq app a hev rest _ _ _ _ _ _ _ _ _ _ Ef Ed Ee).
    unfold sks_exec. rewrite Z.eqb_refl. cbn [negb].
    pose proof (fs_head _ _ _ HF) as Hh.
    cbn [evs_wf] in Hwf. destruct Hwf as (_ & Hwf). rewrite Hi in Hwf.
    destruct rest as [|nxt r].
    - rewrite Hwf. destruct (sks_wu (x_pw a) (x_wu a) (x_wp a) (x_wc a)) as [[[pw2 w2] wp2] wc2] eqn:Ew.
      destruct (winv_wu _ _ _ _ _ _ _ _ _ _ HW Ew) as (HW2 & _).
      destruct (winv_drain _ _ _ _ _ _ 0 false HW2) as (w3 & c3 & ->). auto.
    - destruct Hwf as ((i' & Hi' & Hr) & Hst & _). injection Hi' as <-. rewrite Hr.
      destruct (ev_sa hev) as [|s0 sa'] eqn:Esa.
      + destruct (sks_next_spec a fu1 l1i1 dbus2 ebus2 e1 (Some (instr_WriteRegisters i, [])) dt1 HW)
          as (_ & _ & _ & _ & _ & _ & HW2 & _).
        { intros wr sa Hx. injection Hx as <- <-. split; [exact Hwp0|]. split; [apply write_regs_length | congruence]. }
        set (a2 := sks_next a fu1 l1i1 dbus2 ebus2 e1 (Some (instr_WriteRegisters i, [])) dt1) in *.
        destruct (sk_flush i (ev_pc hev) (ev_pc nxt)); [|split; [reflexivity | lia]].
        destruct (winv_drain _ _ _ _ _ _ 1 true HW2) as (w3 & c3 & E). rewrite E.
        split; [reflexivity|]. apply sks_drain_ge in E. exact E.
      + rewrite (Hst ltac:(discriminate)).
        assert (Hadd : addS 32 (ev_pc hev) 4 = ev_pc hev + 4).
        { unfold addS. apply wrapS_id; [lia|]. apply int32_bounds. lia. }
        rewrite Hadd, Z.eqb_refl. cbn [negb].
        destruct (snd (a_get_all dt1 (s0 :: sa'))); split; try reflexivity; lia.
  Qed.

  Theorem sks_progress hev rest a :
    FInvS app hev a -> evs_wf app (hev :: rest) -> ns_inv a (hev :: rest) ->
    match sks_cycle app a (hev :: rest) with
    | XStuck => False
    | XFin dc _ => (exec_count app (hev :: rest) <= 1)%nat /\ 1 <= dc
    | XStep a' path' dc => 1 <= dc /\ (path' = rest \/ (path' = hev :: rest /\ phis a' < phis a))
    end.
  Proof.
    intros HF Hwf Hns.
    assert (Hpre : match sks_pre app a (hev :: rest) with
                   | XStuck => False
                   | XFin dc _ => rest = [] /\ dc = 1
                   | XStep a' path' dc => 1 <= dc /\ (path' = rest \/
                       (path' = hev :: rest /\ (sks_complete a' = false -> phis a' < phis a)))
                   end).
    { pose proof HF as [Hh [n Hq] Hent Hfu Hok Hpr Hmiss HI2 HI HW Hdtl].
      unfold qlists in Hq. rewrite q_parts_alt in Hq.
      destruct (fu_cycle app (x_fu a) (x_l1i a) (x_dbus a)) as [[[fu1 l1i1] dbus1]| |] eqn:Ef.
      2,3: exfalso; destruct (fu_cycle_spec app (x_fu a) (x_l1i a) (x_dbus a) HI) as (? & ? & ? & E & _); [| assumption | congruence].
      2,3: intros Hc; rewrite (q_pc _ _ _ _ _ Hq Hc); pose proof (nlen_small app Happ); destruct n as [|n]; [lia | pose proof (q_in1 _ _ _ _ _ Hq ltac:(lia) Hc); lia].
      destruct (fq_fu app Happ (ev_pc hev) n _ _ _ _ _ _ _ Hh Hq HI Hfu Ef) as (HI1 & Hfu1 & [n1 Hq1] & Hcur & Hfc).
      assert (Hpos : forall p, sb_current dbus1 = Some p -> 0 <= p).
      { intros p Hp. apply (consec4_nonneg (ev_pc hev) n1); [lia|]. rewrite <- (q_eq _ _ _ _ _ Hq1).
        apply in_or_app. right. unfold q_sb. rewrite Hp. left. reflexivity. }
      destruct (du_cycle_spec app dbus1 (x_ebus a) Hpos) as (dbus2 & ebus1 & Ed & _).
      destruct (sks_eu (is_full (x_wp a)) (x_eu a) ebus1 (x_pw a) (x_dt a) (ev_la hev)) as [[[e1 ebus2] dt1] act] eqn:Ee.
      destruct act as [|i pc|].
      - rewrite (sks_pre_none app a hev rest _ _ _ _ _ _ _ _ Ef Ed Ee).
        split; [lia|]. right. split; [reflexivity|]. intros Hnc. eapply none_phis; eassumption.
      - pose proof (sks_pre_exec hev rest a _ _ _ _ _ _ _ _ _ _ HF Hwf Ef Ed Ee) as H.
        destruct (sks_pre app a (hev :: rest)); auto. destruct H. auto.
      - destruct (fronts_flow app Happ hev a _ _ _ _ _ _ _ _ _ HF Ef Ed Ee) as (_ & _ & Hns' & _). congruence. }
    unfold sks_cycle.
    destruct (sks_pre app a (hev :: rest)) as [a2 p dc|dc dt|] eqn:Ep; [| |contradiction].
    - destruct (finvs_step app Happ hev rest a a2 p dc HF Hwf Hns Ep) as (hev' & rest' & -> & HF' & Hwf' & _ & _).
      destruct Hpre as [Hdc Hpre].
      destruct (sks_complete a2) eqn:Ec.
      + destruct (completes_exit hev' rest' a2 HF' Ec Hwf') as [-> Hout]. split; [|exact Hdc].
        destruct Hpre as [Hp | [Hp _]].
        * subst rest. rewrite exec_count_cons, (exec_count_out app hev' Hout). destruct (_ <? _); lia.
        * injection Hp as -> <-. rewrite (exec_count_out app hev Hout). lia.
      + split; [exact Hdc|]. destruct Hpre as [Hp | [Hp Hphi]]; [left; exact Hp | right; split; [exact Hp | apply Hphi; reflexivity]].
    - destruct Hpre as [-> ->]. split; [|lia]. rewrite exec_count_cons. unfold exec_count. cbn [filter length]. destruct (_ <? _); lia.
  Qed.

  Definition phis_max : Z := phim_max + 3 * MemoryAccess + 3.
  Definition Ksteps : nat := S (Z.to_nat phis_max).

  Lemma sks_run_term : forall (m : nat) rest a hev cyc fuel,
    FInvS app hev a -> evs_wf app (hev :: rest) -> ns_inv a (hev :: rest) ->
    (Z.to_nat (phis a) + length rest * Ksteps <= m)%nat -> (m < fuel)%nat ->
    exists c, sks_run fuel app a (hev :: rest) cyc = Some c /\
              cyc + Z.of_nat (exec_count app (hev :: rest)) <= c.
  Proof.
    induction m as [m IH] using lt_wf_ind. intros rest a hev cyc fuel HF Hwf Hns Hm Hfuel.
    destruct fuel as [|f]; [lia|]. cbn [sks_run].
    pose proof (sks_progress hev rest a HF Hwf Hns) as Hp.
    pose proof (phis_bounds app hev a HF) as Hphi.
    destruct (sks_cycle app a (hev :: rest)) as [a' path' dc|dc dt|] eqn:Ec; [| |contradiction].
    - assert (Epre : sks_pre app a (hev :: rest) = XStep a' path' dc).
      { unfold sks_cycle in Ec. destruct (sks_pre app a (hev :: rest)) as [a2 p d|d t|]; try discriminate.
        destruct (sks_complete a2); [discriminate | exact Ec]. }
      destruct (finvs_step app Happ hev rest a a' path' dc HF Hwf Hns Epre) as (hev' & rest' & -> & HF' & Hwf' & Hns' & _).
      pose proof (phis_bounds app hev' a' HF') as Hphi'. fold phis_max in Hphi, Hphi'.
      destruct Hp as [Hdc [Hp | [Hp Hlt]]].
      + subst rest. cbn [length] in Hm.
        assert (Hk : (S (length rest') * Ksteps = Ksteps + length rest' * Ksteps)%nat) by reflexivity.
        assert (Hm1 : (1 <= m)%nat) by (unfold Ksteps in *; lia).
        assert (Hm' : (Z.to_nat (phis a') + length rest' * Ksteps <= m - 1)%nat) by (unfold Ksteps in *; lia).
        destruct (IH (m - 1)%nat ltac:(lia) rest' a' hev' (cyc + dc) f HF' Hwf' Hns' Hm' ltac:(lia)) as (c & Hc & Hb).
        exists c. split; [exact Hc|]. rewrite (exec_count_cons app hev). destruct (_ <? _); lia.
      + injection Hp as -> ->.
        assert (Hm' : (Z.to_nat (phis a') + length rest * Ksteps <= m - 1)%nat) by lia.
        destruct (IH (m - 1)%nat ltac:(lia) rest a' hev (cyc + dc) f HF' Hwf' Hns' Hm' ltac:(lia)) as (c & Hc & Hb).
        exists c. split; [exact Hc|]. lia.
    - destruct Hp as [Hcnt Hdc]. eexists. split; [reflexivity|].
      assert (0 <= MemoryAccess * zlen dt) by (unfold MemoryAccess, zlen; lia). lia.
  Qed.
End TermS.
