(* Every function of the model of MVP-8.0 (Mvp80.v) EXCEPT the snoop phase (cc_snoop_cycle / sn_run / sn_create_all,
   called only from snoops8) is a CONGRUENCE for cc_perm (Mvp80OrdSnoop.v): two machines whose cache controllers only
   differ by a permutation of their lists of pending snoop closures, everything else literally equal, are
   indistinguishable for coRead / coWrite / flush / writeBack and for the whole pipeline.  Outside the snoop phase
   c_snoop is only copied, and tested for emptiness (cc_snoop_isstart): a permutation of [] is [].

     0. relations                my_perm, st_perm, res_perm, orelp; cc_perm is an equivalence; Forall2 cc_perm
     1. controller level         cc_push_l1, rd_*, cc_read_cycle, wr_*, cc_write_cycle, cc_flush, cc_writeback, ccs_writeback
     2. machine level            mw_of, put_mw, put_cc, set_x, eu_preference8, cu_cycle8, front8, eu_*8, eus_*8, finish8, ...
     3. steps                    ret_check8, flush_advance8, back8, after_snoops8_perm, flushw_perm,
                                 step8_perm_given_snoops (a tick is a congruence as soon as its snoop phase is one) *)
From Coq Require Import ZArith List Bool Lia Permutation.
From Maj Require Import Base.Outcome Base.GoInt Base.GoTypes Isa.Spec Isa.Seq.
From Maj Require Import Gen.Latency Gen.RiscTables Gen.Opcodes Comp.Cache Comp.Rat Comp.RatProofs Mvp.Mvp12 Mvp.Mvp3 Mvp.Mvp5 Mvp.Mvp60 Mvp.Mvp63 Mvp.Mvp80.
From Maj Require Import Mvp.Mvp80OrdSnoop Mvp.Mvp80OrdProofs.
Import ListNotations.
Open Scope Z_scope.

(* ------------------------------------------------------------------ *)
(* 0. relations                                                         *)
(* ------------------------------------------------------------------ *)

Definition my_perm (y1 y2 : my) : Prop :=
  y_x y1 = y_x y2 /\ y_msi y1 = y_msi y2 /\ y_copy y1 = y_copy y2 /\ y_pref y1 = y_pref y2 /\ Forall2 cc_perm (y_ccs y1) (y_ccs y2).

Definition orelp {A} (R : A -> A -> Prop) (o1 o2 : outcome A) : Prop :=
  match o1, o2 with Ok a, Ok b => R a b | Err e1, Err e2 => e1 = e2 | Panic, Panic => True | _, _ => False end.

Definition st_perm (s1 s2 : st8) : Prop :=
  my_perm (v_y s1) (v_y s2) /\ v_eus s1 = v_eus s2 /\ v_wus s1 = v_wus s2 /\ v_cycle s1 = v_cycle s2 /\ v_mode s1 = v_mode s2.

Definition res_perm (r1 r2 : step_res8) : Prop :=
  match r1, r2 with
  | VDone a os1, VDone b os2 => a = b /\ os1 = os2
  | VCont s1, VCont s2 => st_perm s1 s2
  | _, _ => False
  end.

(* results: a related controller / machine, the rest equal *)
Definition crel2r {B} (r1 r2 : cc8 * B) : Prop := cc_perm (fst r1) (fst r2) /\ snd r1 = snd r2.
Definition crel2l {A} (r1 r2 : A * cc8) : Prop := fst r1 = fst r2 /\ cc_perm (snd r1) (snd r2).
Definition crel3 {A C} (r1 r2 : A * cc8 * C) : Prop :=
  fst (fst r1) = fst (fst r2) /\ cc_perm (snd (fst r1)) (snd (fst r2)) /\ snd r1 = snd r2.
Definition yprel2 {B} (r1 r2 : my * B) : Prop := my_perm (fst r1) (fst r2) /\ snd r1 = snd r2.
Definition yprel3 {B C} (r1 r2 : my * B * C) : Prop :=
  my_perm (fst (fst r1)) (fst (fst r2)) /\ snd (fst r1) = snd (fst r2) /\ snd r1 = snd r2.

Lemma orelp_refl : forall A (R : A -> A -> Prop) o, (forall a, R a a) -> orelp R o o.
Proof. intros A R [a|e|] H; cbn [orelp]; auto. Qed.

Lemma orelp_bind : forall A B (R : A -> A -> Prop) (S : B -> B -> Prop) m1 m2 f g,
  orelp R m1 m2 -> (forall a b, R a b -> orelp S (f a) (g b)) -> orelp S (bind m1 f) (bind m2 g).
Proof.
  intros A B R S [a|e|] [b|e'|] f g H K; cbn [orelp bind] in *; try contradiction; auto.
Qed.

Lemma orelp_impl : forall A (R S : A -> A -> Prop) o1 o2, (forall a b, R a b -> S a b) -> orelp R o1 o2 -> orelp S o1 o2.
Proof. intros A R S [a|e|] [b|e'|] K H; cbn [orelp] in *; auto. Qed.

(* cc_perm is an equivalence *)
Lemma cc_perm_refl : forall c, cc_perm c c.
Proof. intros c. unfold cc_perm. repeat split; try reflexivity. Qed.

Lemma cc_perm_sym : forall c1 c2, cc_perm c1 c2 -> cc_perm c2 c1.
Proof.
  intros c1 c2 (A & B & C & D & E & F & G & H). unfold cc_perm.
  repeat split; try (symmetry; assumption).
Qed.

Lemma cc_perm_trans : forall c1 c2 c3, cc_perm c1 c2 -> cc_perm c2 c3 -> cc_perm c1 c3.
Proof.
  intros c1 c2 c3 (A & B & C & D & E & F & G & H) (A' & B' & C' & D' & E' & F' & G' & H'). unfold cc_perm.
  repeat split; try congruence. eapply Permutation_trans; eassumption.
Qed.

(* two related controllers are the same controller with another snoop list *)
Lemma cc_perm_set_snoop : forall c1 c2, cc_perm c1 c2 -> c2 = set_snoop c1 (c_snoop c2).
Proof.
  intros [i1 l1 r1 w1 s1 rs1 ws1 p1] [i2 l2 r2 w2 s2 rs2 ws2 p2]. unfold cc_perm, set_snoop.
  cbn [c_id c_l1d c_read c_write c_snoop c_rsems c_wsems c_post].
  intros (A & B & C & D & E & F & G & H). subst. reflexivity.
Qed.

Lemma set_snoop_perm : forall c l1 l2, Permutation l1 l2 -> cc_perm (set_snoop c l1) (set_snoop c l2).
Proof.
  intros c l1 l2 P. unfold cc_perm, set_snoop. cbn [c_id c_l1d c_read c_write c_snoop c_rsems c_wsems c_post].
  repeat split; try reflexivity. exact P.
Qed.

Lemma cc_perm_mk : forall a b c d s1 s2 e f g, Permutation s1 s2 ->
  cc_perm (mk_cc a b c d s1 e f g) (mk_cc a b c d s2 e f g).
Proof.
  intros. unfold cc_perm. cbn [c_id c_l1d c_read c_write c_snoop c_rsems c_wsems c_post].
  repeat split; try reflexivity. assumption.
Qed.

(* lists of controllers *)
Lemma F2cc_refl : forall l, Forall2 cc_perm l l.
Proof. induction l; constructor; auto using cc_perm_refl. Qed.

Lemma F2cc_sym : forall l1 l2, Forall2 cc_perm l1 l2 -> Forall2 cc_perm l2 l1.
Proof. induction 1; constructor; auto using cc_perm_sym. Qed.

Lemma F2cc_trans : forall l1 l2 l3, Forall2 cc_perm l1 l2 -> Forall2 cc_perm l2 l3 -> Forall2 cc_perm l1 l3.
Proof.
  intros l1 l2 l3 H. revert l3. induction H; intros l3 K; inversion K; subst; constructor; eauto using cc_perm_trans.
Qed.

Lemma F2cc_length : forall l1 l2, Forall2 cc_perm l1 l2 -> length l1 = length l2.
Proof. induction 1; cbn [length]; congruence. Qed.

Lemma F2cc_nth : forall l1 l2 i, Forall2 cc_perm l1 l2 ->
  match nth_error l1 i, nth_error l2 i with
  | Some a, Some b => cc_perm a b
  | None, None => True
  | _, _ => False
  end.
Proof. intros l1 l2 i H. revert i. induction H; intros [|i]; cbn [nth_error]; try exact I; try assumption. apply IHForall2. Qed.

Lemma F2cc_set_nth : forall l1 l2 i c1 c2, Forall2 cc_perm l1 l2 -> cc_perm c1 c2 ->
  Forall2 cc_perm (set_nth6 l1 i c1) (set_nth6 l2 i c2).
Proof.
  intros l1 l2 i c1 c2 H C. revert i. induction H; intros [|i]; cbn [set_nth6]; constructor; auto.
Qed.

Lemma cc_snoop_isstart_perm : forall c1 c2, cc_perm c1 c2 -> cc_snoop_isstart c1 = cc_snoop_isstart c2.
Proof.
  intros c1 c2 (_ & _ & _ & _ & P & _). unfold cc_snoop_isstart.
  destruct (c_snoop c1) as [|a t], (c_snoop c2) as [|b u]; try reflexivity.
  - apply Permutation_nil in P. discriminate.
  - apply Permutation_sym in P. apply Permutation_nil in P. discriminate.
Qed.

(* the emptiness test of the final loop *)
Lemma F2cc_isstart : forall l1 l2, Forall2 cc_perm l1 l2 ->
  forallb cc_snoop_isstart l1 = forallb cc_snoop_isstart l2.
Proof.
  induction 1; cbn [forallb]; [reflexivity|]. rewrite IHForall2.
  rewrite (cc_snoop_isstart_perm _ _ H). reflexivity.
Qed.

Lemma my_perm_refl : forall y, my_perm y y.
Proof. intros y. unfold my_perm. repeat split; try reflexivity. apply F2cc_refl. Qed.

Lemma my_perm_sym : forall y1 y2, my_perm y1 y2 -> my_perm y2 y1.
Proof.
  intros y1 y2 (A & B & C & D & E). unfold my_perm. repeat split; try (symmetry; assumption). apply F2cc_sym. exact E.
Qed.

Lemma my_perm_trans : forall y1 y2 y3, my_perm y1 y2 -> my_perm y2 y3 -> my_perm y1 y3.
Proof.
  intros y1 y2 y3 (A & B & C & D & E) (A' & B' & C' & D' & E'). unfold my_perm.
  repeat split; try congruence. eapply F2cc_trans; eassumption.
Qed.

Lemma st_perm_refl : forall s, st_perm s s.
Proof. intros s. unfold st_perm. split; [apply my_perm_refl|]. repeat split. Qed.

Lemma mk_my_perm : forall x k cp pf l1 l2, Forall2 cc_perm l1 l2 -> my_perm (mk_my x k cp pf l1) (mk_my x k cp pf l2).
Proof.
  intros. unfold my_perm. cbn [y_x y_msi y_copy y_pref y_ccs]. repeat split; try reflexivity. assumption.
Qed.

Create HintDb permc.
#[export] Hint Resolve cc_perm_refl cc_perm_mk set_snoop_perm F2cc_refl F2cc_set_nth my_perm_refl mk_my_perm Permutation_refl : permc.

(* ------------------------------------------------------------------ *)
(* tactics (the structure of Mvp80OrdCong.v)                            *)
(* ------------------------------------------------------------------ *)

Ltac cc_destruct c1 c2 H :=
  destruct c1 as [?id1 ?ld1 ?rd1 ?wr1 ?sn1 ?rs1 ?ws1 ?po1], c2 as [?id2 ?ld2 ?rd2 ?wr2 ?sn2 ?rs2 ?ws2 ?po2];
  unfold cc_perm in H; cbn [c_id c_l1d c_read c_write c_snoop c_rsems c_wsems c_post] in H;
  destruct H as (?Hid & ?Hld & ?Hrd & ?Hwr & ?Hsn & ?Hrs & ?Hws & ?Hpo); subst.

Ltac my_destruct y1 y2 H :=
  destruct y1 as [?x1 ?k1 ?cp1 ?pf1 ?ccs1], y2 as [?x2 ?k2 ?cp2 ?pf2 ?ccs2]; unfold my_perm in H;
  cbn [y_x y_msi y_copy y_pref y_ccs] in H; destruct H as (?Hx & ?Hk & ?Hcp & ?Hpf & ?Hccs); subst.

Ltac pm_cbn := cbn [fst snd w_mem w_l3 w_msi set_wmsi set_wl3 set_wmem
                     c_id c_l1d c_read c_write c_snoop c_rsems c_wsems c_post set_l1d set_read set_write set_snoop
                     cc_read_isstart cc_write_isstart
                     y_x y_msi y_copy y_pref y_ccs set_x set_ymsi set_ccs mw_of put_mw put_cc or_os8 wbus_connect8 y_os].

Ltac rel_destruct :=
  repeat match goal with
  | H : crel3 ?a ?b |- _ =>
      destruct a as [[? ?] ?], b as [[? ?] ?]; unfold crel3 in H; cbn [fst snd] in H; destruct H as (? & ? & ?); subst
  | H : crel2r ?a ?b |- _ =>
      destruct a as [? ?], b as [? ?]; unfold crel2r in H; cbn [fst snd] in H; destruct H as (? & ?); subst
  | H : crel2l ?a ?b |- _ =>
      destruct a as [? ?], b as [? ?]; unfold crel2l in H; cbn [fst snd] in H; destruct H as (? & ?); subst
  | H : yprel3 ?a ?b |- _ =>
      destruct a as [[? ?] ?], b as [[? ?] ?]; unfold yprel3 in H; cbn [fst snd] in H; destruct H as (? & ? & ?); subst
  | H : yprel2 ?a ?b |- _ =>
      destruct a as [? ?], b as [? ?]; unfold yprel2 in H; cbn [fst snd] in H; destruct H as (? & ?); subst
  | H : cc_perm ?a ?b |- _ => is_var a; is_var b; cc_destruct a b H
  | H : my_perm ?a ?b |- _ => is_var a; is_var b; my_destruct a b H
  end.

Ltac rel_close :=
  match goal with
  | |- crel3 _ _ => unfold crel3; cbn [fst snd]; split; [reflexivity | split; [solve [eauto 12 with permc] | reflexivity]]
  | |- crel2r _ _ => unfold crel2r; cbn [fst snd]; split; [solve [eauto 12 with permc] | reflexivity]
  | |- crel2l _ _ => unfold crel2l; cbn [fst snd]; split; [reflexivity | solve [eauto 12 with permc]]
  | |- yprel3 _ _ => unfold yprel3; cbn [fst snd]; split; [solve [eauto 12 with permc] | split; reflexivity]
  | |- yprel2 _ _ => unfold yprel2; cbn [fst snd]; split; [solve [eauto 12 with permc] | reflexivity]
  | |- cc_perm _ _ => solve [eauto 12 with permc]
  | |- my_perm _ _ => solve [eauto 12 with permc]
  end.

Ltac cong1 :=
  match goal with
  | H : Forall2 cc_perm ?l1 ?l2 |- context [nth_error ?l1 ?i] =>
      let N := fresh "N" in
      pose proof (F2cc_nth l1 l2 i H) as N;
      destruct (nth_error l1 i), (nth_error l2 i); cbv beta iota in N; try contradiction; rel_destruct
  | |- orelp _ (Ok _) (Ok _) => cbn [orelp]; rel_close
  | |- orelp _ Panic Panic => exact I
  | |- orelp _ (Err _) (Err _) => reflexivity
  | |- orelp _ (bind ?m _) (bind ?m _) => destruct m; cbn [bind]
  | |- orelp _ (if ?b then _ else _) (if ?b then _ else _) => destruct b
  | |- orelp _ (match ?e with _ => _ end) (match ?e with _ => _ end) => destruct e
  | |- orelp _ (bind _ _) (bind _ _) => eapply orelp_bind; [solve [eauto 12 with permc] | intros ? ? ?Hr; rel_destruct]
  end.

Ltac cong := repeat (pm_cbn; cong1); try solve [eauto 12 with permc].

Ltac cc_start :=
  intros; match goal with H : cc_perm ?c1 ?c2 |- _ => cc_destruct c1 c2 H end.

(* ------------------------------------------------------------------ *)
(* 1a. cc.go: pushLineToL1, coRead                                      *)
(* ------------------------------------------------------------------ *)

Lemma cc_push_l1_perm : forall c1 c2 addr ln, cc_perm c1 c2 -> orelp crel2r (cc_push_l1 c1 addr ln) (cc_push_l1 c2 addr ln).
Proof. cc_start. unfold cc_push_l1. cong. Qed.
#[export] Hint Resolve cc_push_l1_perm : permc.

Lemma rd_stay_perm : forall w c1 c2 s, cc_perm c1 c2 -> orelp crel3 (rd_stay w c1 s) (rd_stay w c2 s).
Proof. cc_start. unfold rd_stay. cong. Qed.
#[export] Hint Resolve rd_stay_perm : permc.

Lemma rd_fin_perm : forall w c1 c2 addrs data, cc_perm c1 c2 -> orelp crel3 (rd_fin w c1 addrs data) (rd_fin w c2 addrs data).
Proof. cc_start. unfold rd_fin. cong. Qed.
#[export] Hint Resolve rd_fin_perm : permc.

Lemma rd_l1wait_perm : forall w c1 c2 addrs rem data, cc_perm c1 c2 ->
  orelp crel3 (rd_l1wait w c1 addrs rem data) (rd_l1wait w c2 addrs rem data).
Proof. cc_start. unfold rd_l1wait. cong. Qed.
#[export] Hint Resolve rd_l1wait_perm : permc.

Lemma rd_from_l1_perm : forall w c1 c2 addrs, cc_perm c1 c2 -> orelp crel3 (rd_from_l1 w c1 addrs) (rd_from_l1 w c2 addrs).
Proof. cc_start. unfold rd_from_l1. cong. Qed.
#[export] Hint Resolve rd_from_l1_perm : permc.

Lemma rd_evict_wait_perm : forall w c1 c2 addrs cmd, cc_perm c1 c2 ->
  orelp crel3 (rd_evict_wait w c1 addrs cmd) (rd_evict_wait w c2 addrs cmd).
Proof. cc_start. unfold rd_evict_wait. cong. Qed.
#[export] Hint Resolve rd_evict_wait_perm : permc.

Lemma rd_push_l1_perm : forall w c1 c2 addrs l1a l1dt, cc_perm c1 c2 ->
  orelp crel3 (rd_push_l1 w c1 addrs l1a l1dt) (rd_push_l1 w c2 addrs l1a l1dt).
Proof. cc_start. unfold rd_push_l1. cong. Qed.
#[export] Hint Resolve rd_push_l1_perm : permc.

Lemma rd_sync_perm : forall w c1 c2 addrs, cc_perm c1 c2 -> orelp crel3 (rd_sync w c1 addrs) (rd_sync w c2 addrs).
Proof. cc_start. unfold rd_sync. cong. Qed.
#[export] Hint Resolve rd_sync_perm : permc.

Lemma rd_l3push_perm : forall w c1 c2 addrs rem l3a l3d, cc_perm c1 c2 ->
  orelp crel3 (rd_l3push w c1 addrs rem l3a l3d) (rd_l3push w c2 addrs rem l3a l3d).
Proof. cc_start. unfold rd_l3push. cong. Qed.
#[export] Hint Resolve rd_l3push_perm : permc.

Lemma rd_l3lock_perm : forall w c1 c2 addrs l3a l3d, cc_perm c1 c2 ->
  orelp crel3 (rd_l3lock w c1 addrs l3a l3d) (rd_l3lock w c2 addrs l3a l3d).
Proof. cc_start. unfold rd_l3lock. cong. Qed.
#[export] Hint Resolve rd_l3lock_perm : permc.

Lemma rd_memwait_perm : forall w c1 c2 addrs rem l3a l3d, cc_perm c1 c2 ->
  orelp crel3 (rd_memwait w c1 addrs rem l3a l3d) (rd_memwait w c2 addrs rem l3a l3d).
Proof. cc_start. unfold rd_memwait. cong. Qed.
#[export] Hint Resolve rd_memwait_perm : permc.

Lemma rd_l3wait_perm : forall w c1 c2 addrs rem, cc_perm c1 c2 ->
  orelp crel3 (rd_l3wait w c1 addrs rem) (rd_l3wait w c2 addrs rem).
Proof. cc_start. unfold rd_l3wait. cong. Qed.
#[export] Hint Resolve rd_l3wait_perm : permc.

Lemma rd_pend_perm : forall w c1 c2 addrs rk pend, cc_perm c1 c2 ->
  orelp crel3 (rd_pend w c1 addrs rk pend) (rd_pend w c2 addrs rk pend).
Proof. cc_start. unfold rd_pend. cong. Qed.
#[export] Hint Resolve rd_pend_perm : permc.

Lemma rd_start_perm : forall w c1 c2 addrs, cc_perm c1 c2 -> orelp crel3 (rd_start w c1 addrs) (rd_start w c2 addrs).
Proof. cc_start. unfold rd_start. cong. Qed.
#[export] Hint Resolve rd_start_perm : permc.

Theorem cc_read_cycle_perm : forall w c1 c2 addrs, cc_perm c1 c2 ->
  orelp crel3 (cc_read_cycle w c1 addrs) (cc_read_cycle w c2 addrs).
Proof.
  intros w c1 c2 addrs H. unfold cc_read_cycle.
  replace (c_read c2) with (c_read c1) by (destruct H as (_ & _ & R & _); exact R).
  destruct (c_read c1); eauto 12 with permc.
Qed.
#[export] Hint Resolve cc_read_cycle_perm : permc.

(* ------------------------------------------------------------------ *)
(* 1b. cc.go: coWrite                                                   *)
(* ------------------------------------------------------------------ *)

Lemma wr_stay_perm : forall w c1 c2 s, cc_perm c1 c2 -> orelp crel3 (wr_stay w c1 s) (wr_stay w c2 s).
Proof. cc_start. unfold wr_stay. cong. Qed.
#[export] Hint Resolve wr_stay_perm : permc.

Lemma wr_fin_perm : forall w c1 c2 addrs data, cc_perm c1 c2 -> orelp crel3 (wr_fin w c1 addrs data) (wr_fin w c2 addrs data).
Proof. cc_start. unfold wr_fin. cong. Qed.
#[export] Hint Resolve wr_fin_perm : permc.

Lemma wr_final_perm : forall w c1 c2 addrs data rem, cc_perm c1 c2 ->
  orelp crel3 (wr_final w c1 addrs data rem) (wr_final w c2 addrs data rem).
Proof. cc_start. unfold wr_final. cong. Qed.
#[export] Hint Resolve wr_final_perm : permc.

Lemma wr_to_l1_perm : forall w c1 c2 addrs data, cc_perm c1 c2 -> orelp crel3 (wr_to_l1 w c1 addrs data) (wr_to_l1 w c2 addrs data).
Proof. intros. unfold wr_to_l1. eauto 12 with permc. Qed.
#[export] Hint Resolve wr_to_l1_perm : permc.

Lemma wr_to_l1_after_perm : forall w c1 c2 addrs data rem, cc_perm c1 c2 ->
  orelp crel3 (wr_to_l1_after w c1 addrs data rem) (wr_to_l1_after w c2 addrs data rem).
Proof. cc_start. unfold wr_to_l1_after. cong. Qed.
#[export] Hint Resolve wr_to_l1_after_perm : permc.

Lemma wr_evict_wait_perm : forall w c1 c2 addrs data cmd, cc_perm c1 c2 ->
  orelp crel3 (wr_evict_wait w c1 addrs data cmd) (wr_evict_wait w c2 addrs data cmd).
Proof. cc_start. unfold wr_evict_wait. cong. Qed.
#[export] Hint Resolve wr_evict_wait_perm : permc.

Lemma wr_push_l1_perm : forall w c1 c2 addrs data l1a l1dt, cc_perm c1 c2 ->
  orelp crel3 (wr_push_l1 w c1 addrs data l1a l1dt) (wr_push_l1 w c2 addrs data l1a l1dt).
Proof. cc_start. unfold wr_push_l1. cong. Qed.
#[export] Hint Resolve wr_push_l1_perm : permc.

Lemma wr_l1push_perm : forall w c1 c2 addrs data rem l1a l1dt, cc_perm c1 c2 ->
  orelp crel3 (wr_l1push w c1 addrs data rem l1a l1dt) (wr_l1push w c2 addrs data rem l1a l1dt).
Proof. cc_start. unfold wr_l1push. cong. Qed.
#[export] Hint Resolve wr_l1push_perm : permc.

Lemma wr_sync_perm : forall w c1 c2 addrs data, cc_perm c1 c2 -> orelp crel3 (wr_sync w c1 addrs data) (wr_sync w c2 addrs data).
Proof. cc_start. unfold wr_sync. cong. Qed.
#[export] Hint Resolve wr_sync_perm : permc.

Lemma wr_l3evict_wait_perm : forall w c1 c2 addrs data cmd, cc_perm c1 c2 ->
  orelp crel3 (wr_l3evict_wait w c1 addrs data cmd) (wr_l3evict_wait w c2 addrs data cmd).
Proof. cc_start. unfold wr_l3evict_wait. cong. Qed.
#[export] Hint Resolve wr_l3evict_wait_perm : permc.

Lemma wr_l3wait_perm : forall w c1 c2 addrs data rem l3a l3d, cc_perm c1 c2 ->
  orelp crel3 (wr_l3wait w c1 addrs data rem l3a l3d) (wr_l3wait w c2 addrs data rem l3a l3d).
Proof. cc_start. unfold wr_l3wait. cong. Qed.
#[export] Hint Resolve wr_l3wait_perm : permc.

Lemma wr_memwait_perm : forall w c1 c2 addrs data rem l3a l3d, cc_perm c1 c2 ->
  orelp crel3 (wr_memwait w c1 addrs data rem l3a l3d) (wr_memwait w c2 addrs data rem l3a l3d).
Proof. cc_start. unfold wr_memwait. cong. Qed.
#[export] Hint Resolve wr_memwait_perm : permc.

Lemma wr_pend_perm : forall w c1 c2 addrs data rk pend, cc_perm c1 c2 ->
  orelp crel3 (wr_pend w c1 addrs data rk pend) (wr_pend w c2 addrs data rk pend).
Proof. cc_start. unfold wr_pend. cong. Qed.
#[export] Hint Resolve wr_pend_perm : permc.

Lemma wr_start_perm : forall w c1 c2 addrs data, cc_perm c1 c2 -> orelp crel3 (wr_start w c1 addrs data) (wr_start w c2 addrs data).
Proof. cc_start. unfold wr_start. cong. Qed.
#[export] Hint Resolve wr_start_perm : permc.

Theorem cc_write_cycle_perm : forall w c1 c2 addrs data, cc_perm c1 c2 ->
  orelp crel3 (cc_write_cycle w c1 addrs data) (cc_write_cycle w c2 addrs data).
Proof.
  intros w c1 c2 addrs data H. unfold cc_write_cycle.
  replace (c_write c2) with (c_write c1) by (destruct H as (_ & _ & _ & R & _); exact R).
  destruct (c_write c1); eauto 12 with permc.
Qed.
#[export] Hint Resolve cc_write_cycle_perm : permc.

(* ------------------------------------------------------------------ *)
(* 1c. flush, writeBack                                                 *)
(* ------------------------------------------------------------------ *)

Lemma cc_flush_perm : forall k c1 c2, cc_perm c1 c2 -> orelp crel2l (cc_flush k c1) (cc_flush k c2).
Proof. cc_start. unfold cc_flush. cong. Qed.
#[export] Hint Resolve cc_flush_perm : permc.

(* writeBack only looks at the identity and at the L1: the results are EQUAL *)
Lemma cc_writeback_perm : forall w c1 c2, cc_perm c1 c2 -> cc_writeback w c1 = cc_writeback w c2.
Proof. intros w c1 c2 (A & B & _). unfold cc_writeback. rewrite A, B. reflexivity. Qed.

Lemma ccs_writeback_perm : forall l1 l2, Forall2 cc_perm l1 l2 ->
  forall w cycles, ccs_writeback w l1 cycles = ccs_writeback w l2 cycles.
Proof.
  induction 1; intros w cycles; cbn [ccs_writeback]; [reflexivity|].
  rewrite (cc_writeback_perm w _ _ H). destruct (cc_writeback w y); cbn [bind]; auto.
Qed.

(* ------------------------------------------------------------------ *)
(* 2. machine level                                                     *)
(* ------------------------------------------------------------------ *)

Ltac my_start :=
  intros; match goal with H : my_perm ?y1 ?y2 |- _ => my_destruct y1 y2 H end.

Lemma mw_of_perm : forall y1 y2, my_perm y1 y2 -> mw_of y1 = mw_of y2.
Proof. my_start. reflexivity. Qed.

Lemma put_mw_perm : forall y1 y2 w, my_perm y1 y2 -> my_perm (put_mw y1 w) (put_mw y2 w).
Proof. my_start. pm_cbn. eauto 12 with permc. Qed.

Lemma put_cc_perm : forall y1 y2 i c1 c2, my_perm y1 y2 -> cc_perm c1 c2 -> my_perm (put_cc y1 i c1) (put_cc y2 i c2).
Proof. my_start. pm_cbn. eauto 12 with permc. Qed.

Lemma set_x_perm : forall y1 y2 x, my_perm y1 y2 -> my_perm (set_x y1 x) (set_x y2 x).
Proof. my_start. pm_cbn. eauto 12 with permc. Qed.

Lemma set_ymsi_perm : forall y1 y2 k, my_perm y1 y2 -> my_perm (set_ymsi y1 k) (set_ymsi y2 k).
Proof. my_start. pm_cbn. eauto 12 with permc. Qed.

Lemma set_ccs_perm : forall y1 y2 l1 l2, my_perm y1 y2 -> Forall2 cc_perm l1 l2 -> my_perm (set_ccs y1 l1) (set_ccs y2 l2).
Proof. my_start. pm_cbn. eauto 12 with permc. Qed.

Lemma or_os8_perm : forall y1 y2 b, my_perm y1 y2 -> my_perm (or_os8 y1 b) (or_os8 y2 b).
Proof. my_start. pm_cbn. eauto 12 with permc. Qed.

Lemma y_os_perm : forall y1 y2, my_perm y1 y2 -> y_os y1 = y_os y2.
Proof. my_start. reflexivity. Qed.

(* the preference only uses the NUMBER of controllers *)
Lemma eu_preference8_perm : forall y1 y2 r, my_perm y1 y2 -> eu_preference8 y1 r = eu_preference8 y2 r.
Proof.
  my_start. unfold eu_preference8. cbn [y_x y_copy y_ccs]. rewrite (F2cc_length _ _ Hccs). reflexivity.
Qed.

Lemma cu_cycle8_perm : forall ord cycle y1 y2, my_perm y1 y2 -> my_perm (cu_cycle8 ord cycle y1) (cu_cycle8 ord cycle y2).
Proof.
  my_start. unfold cu_cycle8, eu_preference8. cbn [y_x y_msi y_copy y_pref y_ccs]. rewrite (F2cc_length _ _ Hccs).
  destruct (k_stale k2); apply mk_my_perm; assumption.
Qed.
#[export] Hint Resolve cu_cycle8_perm : permc.

Theorem front8_perm : forall app ord cycle y1 y2, my_perm y1 y2 ->
  orelp my_perm (front8 app ord cycle y1) (front8 app ord cycle y2).
Proof. my_start. unfold front8. cong. Qed.
#[export] Hint Resolve front8_perm : permc.

Lemma eu_flush8_perm : forall y1 y2 i e, my_perm y1 y2 -> orelp yprel2 (eu_flush8 y1 i e) (eu_flush8 y2 i e).
Proof. my_start. unfold eu_flush8. cong. Qed.
#[export] Hint Resolve eu_flush8_perm : permc.

Lemma eu_write8_perm : forall y1 y2 i e addrs data, my_perm y1 y2 ->
  orelp yprel3 (eu_write8 y1 i e addrs data) (eu_write8 y2 i e addrs data).
Proof. my_start. unfold eu_write8. cong. Qed.
#[export] Hint Resolve eu_write8_perm : permc.

Lemma eu_run8_perm : forall labels ord cycle y1 y2 i e, my_perm y1 y2 ->
  orelp yprel3 (eu_run8 labels ord cycle y1 i e) (eu_run8 labels ord cycle y2 i e).
Proof. my_start. unfold eu_run8. cong. Qed.
#[export] Hint Resolve eu_run8_perm : permc.

Lemma eu_read8_perm : forall labels ord cycle y1 y2 i e addrs, my_perm y1 y2 ->
  orelp yprel3 (eu_read8 labels ord cycle y1 i e addrs) (eu_read8 labels ord cycle y2 i e addrs).
Proof. my_start. unfold eu_read8. cong. Qed.
#[export] Hint Resolve eu_read8_perm : permc.

Lemma eu_prepare8_perm : forall labels ord cycle y1 y2 i e, my_perm y1 y2 ->
  orelp yprel3 (eu_prepare8 labels ord cycle y1 i e) (eu_prepare8 labels ord cycle y2 i e).
Proof. my_start. unfold eu_prepare8. cong. Qed.
#[export] Hint Resolve eu_prepare8_perm : permc.

Lemma eu_pending8_perm : forall y1 y2 e, my_perm y1 y2 -> eu_pending8 y1 e = eu_pending8 y2 e.
Proof. my_start. reflexivity. Qed.

Lemma eu_cycle8_perm : forall labels ord cycle y1 y2 i e, my_perm y1 y2 ->
  orelp yprel3 (eu_cycle8 labels ord cycle y1 i e) (eu_cycle8 labels ord cycle y2 i e).
Proof. my_start. unfold eu_cycle8, eu_pending8. cong. Qed.
#[export] Hint Resolve eu_cycle8_perm : permc.

Lemma eus_main8_perm : forall labels ord cycle eus y1 y2 i acc, my_perm y1 y2 ->
  orelp yprel3 (eus_main8 labels ord cycle y1 i eus acc) (eus_main8 labels ord cycle y2 i eus acc).
Proof.
  intros labels ord cycle. induction eus as [|e t IH]; intros y1 y2 i acc H; cbn [eus_main8]; cong.
Qed.
#[export] Hint Resolve eus_main8_perm : permc.

Lemma eus_drain8_perm : forall labels ord cycle eus y1 y2 i, my_perm y1 y2 ->
  orelp yprel3 (eus_drain8 labels ord cycle y1 i eus) (eus_drain8 labels ord cycle y2 i eus).
Proof.
  intros labels ord cycle. induction eus as [|e t IH]; intros y1 y2 i H; cbn [eus_drain8]; cong.
Qed.
#[export] Hint Resolve eus_drain8_perm : permc.

Lemma eus_flush8_perm : forall labels ord from eus y1 y2 i acc, my_perm y1 y2 ->
  orelp yprel3 (eus_flush8 labels ord from y1 i eus acc) (eus_flush8 labels ord from y2 i eus acc).
Proof.
  intros labels ord from. induction eus as [|e t IH]; intros y1 y2 i acc H; cbn [eus_flush8];
    [|rewrite (eu_pending8_perm y1 y2 e H)]; cong.
Qed.
#[export] Hint Resolve eus_flush8_perm : permc.

Lemma eus_final8_perm : forall labels ord cycle eus y1 y2 i, my_perm y1 y2 ->
  orelp yprel3 (eus_final8 labels ord cycle y1 i eus) (eus_final8 labels ord cycle y2 i eus).
Proof.
  intros labels ord cycle. induction eus as [|e t IH]; intros y1 y2 i H; cbn [eus_final8].
  - cong.
  - unfold cc_read_isstart, cc_write_isstart. my_destruct y1 y2 H. cong.
Qed.
#[export] Hint Resolve eus_final8_perm : permc.

Lemma eus_flush_all8_perm : forall eus y1 y2 i, my_perm y1 y2 ->
  orelp yprel2 (eus_flush_all8 y1 i eus) (eus_flush_all8 y2 i eus).
Proof.
  induction eus as [|e t IH]; intros y1 y2 i H; cbn [eus_flush_all8]; cong.
Qed.
#[export] Hint Resolve eus_flush_all8_perm : permc.

(* the end of Run: the results are EQUAL *)
Theorem finish8_perm : forall ord y1 y2 cycle, my_perm y1 y2 -> finish8 ord y1 cycle = finish8 ord y2 cycle.
Proof.
  my_start. unfold finish8. pm_cbn. rewrite (ccs_writeback_perm _ _ Hccs). reflexivity.
Qed.

Lemma wbus_connect8_perm : forall y1 y2 cycle, my_perm y1 y2 -> my_perm (wbus_connect8 y1 cycle) (wbus_connect8 y2 cycle).
Proof. my_start. pm_cbn. eauto 12 with permc. Qed.

(* ------------------------------------------------------------------ *)
(* 3. steps                                                             *)
(* ------------------------------------------------------------------ *)

Lemma mk_st8_perm : forall y1 y2 eus wus cycle mode, my_perm y1 y2 ->
  st_perm (mk_st8 y1 eus wus cycle mode) (mk_st8 y2 eus wus cycle mode).
Proof.
  intros. unfold st_perm. cbn [v_y v_eus v_wus v_cycle v_mode].
  split; [assumption|]. split; [reflexivity|]. split; [reflexivity|]. split; reflexivity.
Qed.
#[export] Hint Resolve mk_st8_perm : permc.

Lemma yprel3_mk : forall B C y1 y2 (b : B) (c : C), my_perm y1 y2 -> yprel3 (y1, b, c) (y2, b, c).
Proof. intros. unfold yprel3. cbn [fst snd]. split; [assumption|]. split; reflexivity. Qed.
#[export] Hint Resolve yprel3_mk : permc.

Ltac st_destruct s1 s2 H :=
  destruct s1 as [?y1 ?eus1 ?wus1 ?cyc1 ?md1], s2 as [?y2 ?eus2 ?wus2 ?cyc2 ?md2]; unfold st_perm in H;
  cbn [v_y v_eus v_wus v_cycle v_mode] in H; destruct H as (?Hy & ?He & ?Hw & ?Hc & ?Hmd); subst;
  match goal with Hy : my_perm ?a ?b |- _ => my_destruct a b Hy end.

Ltac st_start := intros; match goal with H : st_perm ?s1 ?s2 |- _ => st_destruct s1 s2 H end.

Ltac st_cbn := try unfold y_os; cbn [v_y v_eus v_wus v_cycle v_mode]; pm_cbn.

Lemma res_of8_perm : forall A (R : A -> A -> Prop) os o1 o2 k1 k2,
  orelp R o1 o2 -> (forall a b, R a b -> res_perm (k1 a) (k2 b)) -> res_perm (res_of8 os o1 k1) (res_of8 os o2 k2).
Proof.
  intros A R os [a|e|] [b|e'|] k1 k2 H K; cbn [orelp res_of8 res_perm] in *; try contradiction; auto.
  subst. auto.
Qed.

Ltac rcong1 :=
  match goal with
  | H : Forall2 cc_perm ?l1 ?l2 |- context [forallb cc_snoop_isstart ?l1] => rewrite (F2cc_isstart l1 l2 H)
  | |- res_perm (VDone _ _) (VDone _ _) =>
      cbn [res_perm]; split; [first [reflexivity | apply finish8_perm; solve [eauto 12 with permc]] | reflexivity]
  | |- res_perm (VCont _) (VCont _) => cbn [res_perm]; solve [eauto 12 with permc]
  | |- res_perm (res_of8 ?os ?o _) (res_of8 ?os ?o _) => destruct o; cbn [res_of8]
  | |- res_perm (if ?b then _ else _) (if ?b then _ else _) => destruct b
  | |- res_perm (match ?e with _ => _ end) (match ?e with _ => _ end) => destruct e
  | |- res_perm (res_of8 _ _ _) (res_of8 _ _ _) =>
      eapply res_of8_perm; [solve [eauto 12 with permc] | intros ? ? ?Hr; rel_destruct]
  end.

Ltac rcong := repeat (st_cbn; rcong1); try solve [eauto 12 with permc].

Lemma ret_check8_perm : forall s1 s2, st_perm s1 s2 -> res_perm (ret_check8 s1) (ret_check8 s2).
Proof. st_start. unfold ret_check8. rcong. Qed.
#[export] Hint Resolve ret_check8_perm : permc.

Lemma flush_advance8_perm : forall s1 s2 k seq pc from empty, st_perm s1 s2 ->
  res_perm (flush_advance8 s1 k seq pc from empty) (flush_advance8 s2 k seq pc from empty).
Proof. st_start. unfold flush_advance8. rcong. Qed.
#[export] Hint Resolve flush_advance8_perm : permc.

Lemma back8_perm : forall s1 s2 cycle z1 z2, st_perm s1 s2 -> yprel3 z1 z2 ->
  res_perm (back8 s1 cycle z1) (back8 s2 cycle z2).
Proof. st_start. rel_destruct. unfold back8. rcong. Qed.
#[export] Hint Resolve back8_perm : permc.

(* the part of a tick after the snoops *)
Theorem after_snoops8_perm : forall labels ord s1 s2 y1 y2, st_perm s1 s2 -> my_perm y1 y2 ->
  res_perm (after_snoops8 labels ord s1 y1) (after_snoops8 labels ord s2 y2).
Proof.
  intros labels ord s1 s2 ya yb S Y. st_destruct s1 s2 S. rel_destruct.
  unfold after_snoops8. st_cbn. destruct md2.
  - rcong.
  - rcong.
  - rcong.
  - rcong.
  - rcong.
Qed.

(* the PFlushW case of a tick: the write-unit loop inside the flush loop (no snoops) *)
Lemma flushw_perm : forall app labels ord s1 s2 k seq pc from empty, st_perm s1 s2 ->
  v_mode s1 = PFlushW k seq pc from empty ->
  res_perm (step8 app labels ord s1) (step8 app labels ord s2).
Proof.
  intros app labels ord s1 s2 k seq pc from empty S M. rewrite !step8_eq.
  replace (v_mode s2) with (v_mode s1) by (destruct S as (_ & _ & _ & _ & E); exact E). rewrite M.
  st_destruct s1 s2 S. rcong.
Qed.

(* snoops8 followed by the rest of the tick *)
Lemma snoops_then_perm : forall labels ord cycle s1 s2 y1 y2, st_perm s1 s2 -> my_perm y1 y2 ->
  orelp my_perm (snoops8 ord cycle y1) (snoops8 ord cycle y2) ->
  res_perm (res_of8 (y_os y1) (snoops8 ord cycle y1) (after_snoops8 labels ord s1))
           (res_of8 (y_os y2) (snoops8 ord cycle y2) (after_snoops8 labels ord s2)).
Proof.
  intros labels ord cycle s1 s2 y1 y2 S Y SN. rewrite (y_os_perm _ _ Y).
  eapply res_of8_perm; [exact SN|]. intros a b R. apply after_snoops8_perm; assumption.
Qed.

(* a whole tick, given the snoop phase: when the snoop phase of the tick maps the two related machines it is applied
   to (snoop_arg8) to related machines, the tick maps the two related states to related results *)
Theorem step8_perm_given_snoops : forall app labels ord s1 s2, st_perm s1 s2 ->
  (forall cycle y1 y2, my_perm y1 y2 -> snoop_arg8 app ord s1 = Some (cycle, y1) -> snoop_arg8 app ord s2 = Some (cycle, y2) ->
     orelp my_perm (snoops8 ord cycle y1) (snoops8 ord cycle y2)) ->
  res_perm (step8 app labels ord s1) (step8 app labels ord s2).
Proof.
  intros app labels ord s1 s2 S SN.
  destruct (v_mode s1) as [| | seq pc from | k seq pc from empty |] eqn:M.
  - pose proof S as S0. destruct S as (Y & _ & _ & C & E). rewrite !step8_eq. rewrite <- E, M.
    rewrite (y_os_perm _ _ Y). rewrite C.
    pose proof (front8_perm app ord (v_cycle s2 + 1) _ _ Y) as F.
    destruct (front8 app ord (v_cycle s2 + 1) (v_y s1)) as [a| |] eqn:F1,
             (front8 app ord (v_cycle s2 + 1) (v_y s2)) as [b| |] eqn:F2; cbn [orelp] in F; try contradiction;
      cbn [res_of8 res_perm].
    + apply snoops_then_perm; [exact S0 | exact F |].
      apply SN; [exact F | |]; unfold snoop_arg8; rewrite <- ?E, M, ?C, ?F1, ?F2; reflexivity.
    + subst. split; reflexivity.
    + split; reflexivity.
  - pose proof S as S0. destruct S as (Y & _ & _ & C & E). rewrite !step8_eq. rewrite <- E, M. rewrite C.
    apply snoops_then_perm; [exact S0 | exact Y |].
    apply SN; [exact Y | |]; unfold snoop_arg8; rewrite <- ?E, M, ?C; reflexivity.
  - pose proof S as S0. destruct S as (Y & _ & _ & C & E). rewrite !step8_eq. rewrite <- E, M. rewrite C.
    apply snoops_then_perm; [exact S0 | exact Y |].
    apply SN; [exact Y | |]; unfold snoop_arg8; rewrite <- ?E, M, ?C; reflexivity.
  - eapply flushw_perm; eassumption.
  - pose proof S as S0. destruct S as (Y & _ & _ & C & E). rewrite !step8_eq. rewrite <- E, M. rewrite C.
    apply snoops_then_perm; [exact S0 | exact Y |].
    apply SN; [exact Y | |]; unfold snoop_arg8; rewrite <- ?E, M, ?C; reflexivity.
Qed.

Print Assumptions after_snoops8_perm.
Print Assumptions front8_perm.
Print Assumptions flushw_perm.
Print Assumptions step8_perm_given_snoops.
Print Assumptions cc_read_cycle_perm.
Print Assumptions cc_write_cycle_perm.
Print Assumptions finish8_perm.
