(* Soundness of the ghost flag of the model of MVP-8.0, part 6a: the commutation of two compatible snoop closures
   (sn_swap_stmt of Mvp80OrdCommDefs.v) for every pair in which one closure is an SnL1Evict, and the symmetry of the
   statement. *)
From Coq Require Import ZArith List Bool Lia.
From Maj Require Import Base.Outcome Base.GoInt Base.GoTypes Isa.Spec Isa.Seq.
From Maj Require Import Gen.Latency Gen.RiscTables Gen.Opcodes Comp.Cache Comp.Rat Comp.RatProofs Mvp.Mvp12 Mvp.Mvp3 Mvp.Mvp5 Mvp.Mvp60 Mvp.Mvp63 Mvp.Mvp80.
From Maj Require Import Mvp.Mvp80OrdSnoop Mvp.Mvp80OrdCache Mvp.Mvp80OrdInvDefs Mvp.Mvp80OrdCommDefs.
Import ListNotations.
Open Scope Z_scope.

(* ------------------------------------------------------------------ *)
(* 1. symmetry of the statement                                         *)
(* ------------------------------------------------------------------ *)

Lemma sn_compat_sym : forall x y, sn_compat x y -> sn_compat y x.
Proof.
  intros x y [H1 H2]. split.
  - rewrite sn_conflict_sym. exact H1.
  - intros A B E. apply (H2 B A). symmetry. exact E.
Qed.

Lemma sn2_swapped_sym : forall r1 r2, sn2_swapped r1 r2 -> sn2_swapped r2 r1.
Proof.
  intros r1 r2 (A & B & C & D & E & F). unfold sn2_swapped.
  split; [symmetry; exact A|]. split; [symmetry; exact B|]. split; [apply msi_equiv_sym; exact C|].
  split; [symmetry; exact D|]. split.
  - rewrite F. reflexivity.
  - rewrite E. reflexivity.
Qed.

Lemma sn_swap_sym : forall x y, sn_swap_stmt x y -> sn_swap_stmt y x.
Proof.
  intros x y H w c MW CC Uy Ux C.
  specialize (H w c MW CC Ux Uy (sn_compat_sym _ _ C)).
  unfold orel_sw in *.
  destruct (sn2 w c x y) as [r1| e1 |], (sn2 w c y x) as [r2| e2 |]; try exact H; try contradiction.
  - apply sn2_swapped_sym. exact H.
  - symmetry. exact H.
Qed.

(* ------------------------------------------------------------------ *)
(* 2. well-formed caches: a covering line is hit without a panic        *)
(* ------------------------------------------------------------------ *)

Lemma covers_range : forall n l a, n = 64 \/ n = 128 -> wf_line n l -> covers l a = true -> lo l <= a < lo l + n.
Proof.
  intros n l a Hn (R & M & Hh & _) C. unfold covers in C. apply andb_true_iff in C. destruct C as [C1 C2].
  apply Z.leb_le in C1. apply Z.ltb_lt in C2. rewrite Hh in C2. unfold addS, wrapS in C2.
  change (2 ^ (32 - 1)) with 2147483648 in C2. change (2 ^ 32) with 4294967296 in C2. change (2 ^ 31) with 2147483648 in R.
  destruct Hn; subst n; lia.
Qed.

Lemma covers_idx : forall n l a, n = 64 \/ n = 128 -> wf_line n l -> covers l a = true ->
  exists v, idx_get (data l) (subS 32 a (lo l)) = Ok v.
Proof.
  intros n l a Hn W C. pose proof (covers_range n l a Hn W C) as Rg. destruct W as (R & M & Hh & Zl).
  change (2 ^ 31) with 2147483648 in R.
  assert (E : subS 32 a (lo l) = a - lo l).
  { unfold subS, wrapS. change (2 ^ (32 - 1)) with 2147483648. change (2 ^ 32) with 4294967296. destruct Hn; subst n; lia. }
  rewrite E. unfold idx_get. rewrite Zl.
  assert (T : (0 <=? a - lo l) && (a - lo l <? n) = true).
  { apply andb_true_iff. split; [apply Z.leb_le | apply Z.ltb_lt]; lia. }
  rewrite T. eexists. reflexivity.
Qed.

Lemma covers_align : forall n l a, n = 64 \/ n = 128 -> wf_line n l -> covers l a = true -> align8 a n = lo l.
Proof.
  intros n l a Hn W C. pose proof (covers_range n l a Hn W C) as Rg. destruct W as (R & M & Hh & Zl).
  change (2 ^ 31) with 2147483648 in R.
  unfold align8, subS, remS, wrapS. change (2 ^ (32 - 1)) with 2147483648. change (2 ^ 32) with 4294967296.
  destruct Hn; subst n; rewrite Z.rem_mod_nonneg in * by lia; lia.
Qed.

Lemma evl_wf_ok : forall n ls a, n = 64 \/ n = 128 -> Forall (wf_line n) ls -> exists r, evl ls a = Ok r.
Proof.
  intros n ls a Hn. induction ls as [|l t IH]; intros F.
  - eexists. reflexivity.
  - inversion F as [|? ? Wl Wt]; subst. rewrite evl_cons. destruct (covers l a) eqn:C.
    + destruct (covers_idx n l a Hn Wl C) as [v Ev]. rewrite Ev. eexists. reflexivity.
    + destruct (IH Wt) as [r Er]. rewrite Er. eexists. reflexivity.
Qed.

Lemma evict_wf_ok : forall n c a, n = 64 \/ n = 128 -> wf_cache n c -> exists c' o, evict_cache_line c a = Ok (c', o).
Proof.
  intros n c a Hn [_ F]. rewrite evict_cache_line_evl. destruct (evl_wf_ok n (lines c) a Hn F) as [[ls o] E].
  rewrite E. eexists. eexists. reflexivity.
Qed.

(* two different aligned addresses are never covered by one line *)
Lemma wf_no_common : forall n ls a b, n = 64 \/ n = 128 -> Forall (wf_line n) ls ->
  align8 a n = a -> align8 b n = b -> a <> b ->
  forall l, In l ls -> covers l a && covers l b = false.
Proof.
  intros n ls a b Hn F Aa Ab Ne l Hin. rewrite Forall_forall in F. specialize (F l Hin).
  destruct (covers l a) eqn:Ca, (covers l b) eqn:Cb; try reflexivity.
  exfalso. apply Ne. rewrite <- Aa, <- Ab.
  rewrite (covers_align n l a Hn F Ca), (covers_align n l b Hn F Cb). reflexivity.
Qed.

(* GetCacheLine on the list of lines *)
Definition gcl (ls : list line) (a : Z) : outcome (option (list Z)) :=
  r <- find_line ls a ;;
  match r with
  | Some (_, l, _) => Ok (Some (data l))
  | None => Ok None
  end.

Lemma gcl_cons : forall l t a,
  gcl (l :: t) a = if covers l a then v <- idx_get (data l) (subS 32 a (lo l)) ;; Ok (Some (data l)) else gcl t a.
Proof.
  intros l t a. unfold gcl. cbn [find_line]. unfold line_get. fold (covers l a).
  destruct (covers l a).
  - destruct (idx_get _ _); reflexivity.
  - cbn [bind]. destruct (find_line t a) as [[[[v l'] rest]|]| |]; reflexivity.
Qed.

(* evicting the line of a does not change what GetCacheLine(b) sees *)
Lemma evl_gcl_frame : forall ls a b ls' o,
  (forall l, In l ls -> covers l a && covers l b = false) ->
  evl ls a = Ok (ls', o) -> gcl ls' b = gcl ls b.
Proof.
  induction ls as [|l t IH]; intros a b ls' o H E.
  - cbn in E. inversion E; subst. reflexivity.
  - assert (Ht : forall l0, In l0 t -> covers l0 a && covers l0 b = false) by (intros; apply H; right; assumption).
    pose proof (H l (or_introl eq_refl)) as Hl.
    rewrite evl_cons in E. rewrite (gcl_cons l t b).
    destruct (covers l a) eqn:Ca.
    + destruct (covers l b) eqn:Cb; cbn [andb] in Hl; try discriminate.
      destruct (idx_get (data l) (subS 32 a (lo l))); cbn [bind] in E; try discriminate.
      inversion E; subst. reflexivity.
    + destruct (evl t a) as [[t' o']| |] eqn:Et; cbn [bind fst snd] in E; try discriminate.
      inversion E; subst. rewrite gcl_cons. destruct (covers l b); [reflexivity|].
      eapply IH; eauto.
Qed.

Lemma evict_gcl_frame : forall c a b c' o,
  (forall l, In l (lines c) -> covers l a && covers l b = false) ->
  evict_cache_line c a = Ok (c', o) -> get_cache_line c' b = get_cache_line c b.
Proof.
  intros c a b c' o H E. rewrite evict_cache_line_evl in E.
  destruct (evl (lines c) a) as [[ls' o']| |] eqn:Ev; cbn [bind fst snd] in E; try discriminate.
  inversion E; subst. change (gcl (lines (set_lines c ls')) b = gcl (lines c) b). cbn [lines set_lines].
  eapply evl_gcl_frame; eauto.
Qed.

(* ------------------------------------------------------------------ *)
(* 3. the directory                                                     *)
(* ------------------------------------------------------------------ *)

Lemma cmd_done_setlock : forall k a b key cid, cmd_done (l3_setlock k a b) key cid = l3_setlock (cmd_done k key cid) a b.
Proof.
  intros k a b key cid. unfold cmd_done, l3_setlock.
  destruct ((ck_req key =? rq_l1Evict) || (ck_req key =? rq_l1WriteBack)); reflexivity.
Qed.

Lemma cmd_done_setl3write : forall k m key cid, cmd_done (set_l3write k m) key cid = set_l3write (cmd_done k key cid) m.
Proof.
  intros k m key cid. unfold cmd_done.
  destruct ((ck_req key =? rq_l1Evict) || (ck_req key =? rq_l1WriteBack)); reflexivity.
Qed.

Lemma cmd_done_l3write : forall k key cid, k_l3write (cmd_done k key cid) = k_l3write k.
Proof.
  intros k key cid. unfold cmd_done.
  destruct ((ck_req key =? rq_l1Evict) || (ck_req key =? rq_l1WriteBack)); reflexivity.
Qed.

Lemma cmd_done_l3lock : forall k key cid, k_l3lock (cmd_done k key cid) = k_l3lock k.
Proof.
  intros k key cid. unfold cmd_done.
  destruct ((ck_req key =? rq_l1Evict) || (ck_req key =? rq_l1WriteBack)); reflexivity.
Qed.

Lemma cmd_done_locked : forall k key cid a, l3_locked (cmd_done k key cid) a = l3_locked k a.
Proof. intros. unfold l3_locked. rewrite cmd_done_l3lock. reflexivity. Qed.

Lemma msi_equiv_setlock : forall k k' a b, msi_equiv k k' -> msi_equiv (l3_setlock k a b) (l3_setlock k' a b).
Proof.
  intros k k' a b (A & B & C & D & E & F & G & H). unfold msi_equiv, l3_setlock, set_l3lock.
  cbn [k_sems k_states k_stale k_cmds k_done k_next k_l3lock k_l3write].
  repeat split; try assumption. intros x. rewrite !aget_aset, G. reflexivity.
Qed.

Lemma msi_equiv_setl3write : forall k k' m, msi_equiv k k' -> msi_equiv (set_l3write k m) (set_l3write k' m).
Proof.
  intros k k' m (A & B & C & D & E & F & G & H). unfold msi_equiv, set_l3write.
  cbn [k_sems k_states k_stale k_cmds k_done k_next k_l3lock k_l3write].
  repeat split; try assumption.
Qed.

(* ------------------------------------------------------------------ *)
(* 4. what sn_unary gives for each kind of closure                      *)
(* ------------------------------------------------------------------ *)

Lemma unary_E1 : forall k id key cid, sn_unary k id (SnL1Evict key cid) ->
  ck_req key = rq_l1Evict /\ l1_align (ck_addr key) = ck_addr key /\
  pget zz_eqb (ck_id key, ck_addr key) (k_states k) <> None.
Proof.
  intros k id key cid (K & I & A & P). cbn [sn_kind_ok sn_key sn_isl1] in *.
  split; [exact K|]. split.
  - unfold key_aligned, is_l1_req in A. rewrite K in A. exact A.
  - rewrite I. apply P. reflexivity.
Qed.

Lemma unary_W1 : forall k id key cid a b d, sn_unary k id (SnL1WriteBack key cid a b d) ->
  ck_req key = rq_l1WriteBack /\ l1_align (ck_addr key) = ck_addr key /\
  pget zz_eqb (ck_id key, ck_addr key) (k_states k) <> None.
Proof.
  intros k id key cid a b d (K & I & A & P). cbn [sn_kind_ok sn_key sn_isl1] in *.
  split; [exact K|]. split.
  - unfold key_aligned, is_l1_req in A. rewrite K in A. exact A.
  - rewrite I. apply P. reflexivity.
Qed.

Lemma unary_E3 : forall k id key cid, sn_unary k id (SnL3Evict key cid) -> is_l1_req key = false.
Proof. intros k id key cid (K & _). cbn [sn_kind_ok] in K. unfold is_l1_req. rewrite K. reflexivity. Qed.

Lemma unary_W3 : forall k id key cid n, sn_unary k id (SnL3WriteBack key cid n) -> is_l1_req key = false.
Proof. intros k id key cid n (K & _). cbn [sn_kind_ok] in K. unfold is_l1_req. rewrite K. reflexivity. Qed.

Lemma l1_no_common : forall c a b, cc_ok c -> l1_align a = a -> l1_align b = b -> a <> b ->
  forall l, In l (lines (c_l1d c)) -> covers l a && covers l b = false.
Proof.
  intros c a b ((_ & F) & _) Aa Ab Ne. apply (wf_no_common 64); auto.
Qed.

Lemma l1_evict_ok : forall c a, cc_ok c -> exists c' o, evict_cache_line (c_l1d c) a = Ok (c', o).
Proof. intros c a (W & _). apply (evict_wf_ok 64); auto. Qed.

(* ------------------------------------------------------------------ *)
(* 5. SnL1Evict / SnL1Evict                                             *)
(* ------------------------------------------------------------------ *)

Lemma swapped_intro : forall w1 w2 c o1 o2,
  w_mem w1 = w_mem w2 -> w_l3 w1 = w_l3 w2 -> msi_equiv (w_msi w1) (w_msi w2) ->
  sn2_swapped (w1, c, o1, o2) (w2, c, o2, o1).
Proof. intros w1 w2 c o1 o2 A B C. unfold sn2_swapped. cbn [fst snd]. auto 10. Qed.

Lemma sn2_E1_E1 : forall w c k1 c1 k2 c2,
  sn2 w c (SnL1Evict k1 c1) (SnL1Evict k2 c2) =
  r <- evict2 (c_l1d c) (ck_addr k1) (ck_addr k2) ;;
  Ok (set_wmsi w (cmd_done (cmd_done (w_msi w) k1 c1) k2 c2), set_l1d c (fst (fst r)), None, None).
Proof.
  intros. unfold sn2, sn_step, evict2.
  destruct (evict_cache_line (c_l1d c) (ck_addr k1)) as [[l1 o]| |]; cbn [bind fst snd c_l1d set_l1d]; try reflexivity.
  destruct (evict_cache_line l1 (ck_addr k2)) as [[l2 o2]| |]; reflexivity.
Qed.

Theorem swap_E1_E1 : forall k1 c1 k2 c2, sn_swap_stmt (SnL1Evict k1 c1) (SnL1Evict k2 c2).
Proof.
  intros k1 c1 k2 c2 w c MW CC U1 U2 [_ Cd].
  apply unary_E1 in U1. destruct U1 as (R1 & A1 & P1). apply unary_E1 in U2. destruct U2 as (R2 & A2 & P2).
  cbn [sn_isl1 sn_key] in Cd. specialize (Cd eq_refl eq_refl).
  rewrite !sn2_E1_E1.
  rewrite (evict_evict_comm (c_l1d c) (ck_addr k1) (ck_addr k2) (l1_no_common c _ _ CC A1 A2 Cd)).
  destruct (evict2 (c_l1d c) (ck_addr k2) (ck_addr k1)) as [[[c' o2] o1]| |]; cbn [omap bind orel_sw]; auto.
  unfold swap23. cbn [fst snd]. apply swapped_intro; try reflexivity.
  cbn [set_wmsi w_msi]. apply cmd_done_comm; intros _; assumption.
Qed.

(* ------------------------------------------------------------------ *)
(* 6. SnL1Evict / SnL3Evict                                             *)
(* ------------------------------------------------------------------ *)

Ltac sn_cbn := cbn [bind fst snd negb w_msi w_l3 w_mem set_wmsi set_wl3 c_l1d set_l1d omap].

Lemma set_l1d_l1d : forall c l l', set_l1d (set_l1d c l) l' = set_l1d c l'.
Proof. reflexivity. Qed.

(* the directory after an L3 closure has finished, in both orders against the callback of an L1Evict *)
Lemma msi_l3_finish : forall k k1 c1 k2 c2 a,
  (is_l1_req k1 = true -> pget zz_eqb (ck_id k1, ck_addr k1) (k_states k) <> None) ->
  (is_l1_req k2 = true -> pget zz_eqb (ck_id k2, ck_addr k2) (k_states k) <> None) ->
  msi_equiv
    (l3_setlock (cmd_done (set_l3write (cmd_done k k1 c1) (aset a false (k_l3write (cmd_done k k1 c1)))) k2 c2) a false)
    (cmd_done (l3_setlock (cmd_done (set_l3write k (aset a false (k_l3write k))) k2 c2) a false) k1 c1).
Proof.
  intros k k1 c1 k2 c2 a P1 P2.
  rewrite cmd_done_l3write, !cmd_done_setlock, !cmd_done_setl3write.
  apply msi_equiv_setlock. apply msi_equiv_setl3write. apply cmd_done_comm; assumption.
Qed.

Theorem swap_E1_E3 : forall k1 c1 k2 c2, sn_swap_stmt (SnL1Evict k1 c1) (SnL3Evict k2 c2).
Proof.
  intros k1 c1 k2 c2 w c MW CC U1 U2 _.
  apply unary_E1 in U1. destruct U1 as (R1 & A1 & P1). apply unary_E3 in U2.
  destruct (l1_evict_ok c (ck_addr k1) CC) as (l1 & o & Ev).
  unfold sn2, sn_step. rewrite Ev. sn_cbn. rewrite cmd_done_locked.
  destruct (l3_locked (w_msi w) (ck_addr k2)) eqn:L; sn_cbn.
  - destruct (evict_cache_line (w_l3 w) (ck_addr k2)) as [[l3 o3]| e |]; sn_cbn; rewrite ?Ev; sn_cbn; cbn [orel_sw]; auto.
    apply swapped_intro; try reflexivity. cbn [w_msi].
    apply msi_l3_finish; [intros _; exact P1 | rewrite U2; discriminate].
  - rewrite Ev. sn_cbn. cbn [orel_sw]. apply swapped_intro; try reflexivity. cbn [w_msi].
    rewrite cmd_done_setlock. apply msi_equiv_refl.
Qed.

(* ------------------------------------------------------------------ *)
(* 7. SnL1Evict / SnL3WriteBack                                         *)
(* ------------------------------------------------------------------ *)

Theorem swap_E1_W3 : forall k1 c1 k2 c2 n, sn_swap_stmt (SnL1Evict k1 c1) (SnL3WriteBack k2 c2 n).
Proof.
  intros k1 c1 k2 c2 n w c MW CC U1 U2 _.
  apply unary_E1 in U1. destruct U1 as (R1 & A1 & P1). apply unary_W3 in U2.
  destruct (l1_evict_ok c (ck_addr k1) CC) as (l1 & o & Ev).
  unfold sn2, sn_step. rewrite Ev. sn_cbn.
  destruct (0 <? n); sn_cbn.
  { rewrite Ev. sn_cbn. cbn [orel_sw]. apply swapped_intro; try reflexivity. apply msi_equiv_refl. }
  rewrite cmd_done_locked.
  destruct (l3_locked (w_msi w) (ck_addr k2)) eqn:L; sn_cbn.
  - destruct (get_cache_line (w_l3 w) (ck_addr k2)) as [[memory|]| e |]; sn_cbn; cbn [orel_sw]; auto.
    destruct (write_to_memory (w_mem w) (ck_addr k2) memory) as [mem| e |]; sn_cbn; cbn [orel_sw]; auto.
    destruct (evict_cache_line (w_l3 w) (ck_addr k2)) as [[l3 [d|]]| e |]; sn_cbn; rewrite ?Ev; sn_cbn; cbn [orel_sw]; auto.
    apply swapped_intro; try reflexivity. cbn [w_msi].
    apply msi_l3_finish; [intros _; exact P1 | rewrite U2; discriminate].
  - rewrite Ev. sn_cbn. cbn [orel_sw]. apply swapped_intro; try reflexivity. cbn [w_msi].
    rewrite cmd_done_setlock. apply msi_equiv_refl.
Qed.

(* ------------------------------------------------------------------ *)
(* 8. SnL1Evict / SnL1WriteBack                                         *)
(* ------------------------------------------------------------------ *)

Lemma evl_Forall : forall (P : line -> Prop) ls a ls' o, evl ls a = Ok (ls', o) -> Forall P ls -> Forall P ls'.
Proof.
  intros P. induction ls as [|l t IH]; intros a ls' o E F.
  - cbn in E. inversion E; subst. exact F.
  - inversion F as [|? ? Pl Pt]; subst. rewrite evl_cons in E. destruct (covers l a).
    + destruct (idx_get (data l) (subS 32 a (lo l))); cbn [bind] in E; try discriminate. inversion E; subst. exact Pt.
    + destruct (evl t a) as [[t' o']| |] eqn:Et; cbn [bind fst snd] in E; try discriminate. inversion E; subst.
      constructor; [exact Pl | eapply IH; eauto].
Qed.

Lemma evict_wf : forall n c a c' o, evict_cache_line c a = Ok (c', o) -> wf_cache n c -> wf_cache n c'.
Proof.
  intros n c a c' o E [L F]. rewrite evict_cache_line_evl in E.
  destruct (evl (lines c) a) as [[ls' o']| |] eqn:Ev; cbn [bind fst snd] in E; try discriminate.
  injection E as Hc Ho. rewrite <- Hc. split; [exact L|]. cbn [lines set_lines fst]. eapply evl_Forall; eauto.
Qed.

(* EvictCacheLine(a) and EvictCacheLine(b) on a well-formed L1, a and b two different aligned addresses *)
Lemma l1_evict_pair : forall c a b l1 o, cc_ok c -> l1_align a = a -> l1_align b = b -> a <> b ->
  evict_cache_line (c_l1d c) a = Ok (l1, o) ->
  exists lb ob lab,
    evict_cache_line (c_l1d c) b = Ok (lb, ob) /\ evict_cache_line l1 b = Ok (lab, ob) /\ evict_cache_line lb a = Ok (lab, o).
Proof.
  intros c a b l1 o CC Aa Ab Ne Ev.
  pose proof (evict_evict_comm (c_l1d c) a b (l1_no_common c a b CC Aa Ab Ne)) as E.
  destruct (l1_evict_ok c b CC) as (lb & ob & Eb). destruct CC as (W & _).
  pose proof (evict_wf _ _ _ _ _ Ev W) as W1. pose proof (evict_wf _ _ _ _ _ Eb W) as Wb.
  destruct (evict_wf_ok 64 l1 b (or_introl eq_refl) W1) as (y & ob' & E1).
  destruct (evict_wf_ok 64 lb a (or_introl eq_refl) Wb) as (x & oa' & E2).
  unfold evict2 in E. rewrite Ev, Eb in E. cbn [bind fst snd] in E. rewrite E1, E2 in E.
  cbn [bind fst snd omap] in E. unfold swap23 in E. cbn [fst snd] in E. inversion E; subst.
  exists lb, ob, x. auto.
Qed.

Lemma msi_l1wb_finish : forall k k1 c1 k2 c2 a,
  (is_l1_req k1 = true -> pget zz_eqb (ck_id k1, ck_addr k1) (k_states k) <> None) ->
  (is_l1_req k2 = true -> pget zz_eqb (ck_id k2, ck_addr k2) (k_states k) <> None) ->
  msi_equiv
    (cmd_done (set_l3write (cmd_done k k1 c1) (aset a true (k_l3write (cmd_done k k1 c1)))) k2 c2)
    (cmd_done (cmd_done (set_l3write k (aset a true (k_l3write k))) k2 c2) k1 c1).
Proof.
  intros k k1 c1 k2 c2 a P1 P2.
  rewrite cmd_done_l3write, !cmd_done_setl3write.
  apply msi_equiv_setl3write. apply cmd_done_comm; assumption.
Qed.

Theorem swap_E1_W1 : forall k1 c1 k2 c2 a b d, sn_swap_stmt (SnL1Evict k1 c1) (SnL1WriteBack k2 c2 a b d).
Proof.
  intros k1 c1 k2 c2 n1 n2 n3 w c MW CC U1 U2 [_ Cd].
  apply unary_E1 in U1. destruct U1 as (R1 & A1 & P1). apply unary_W1 in U2. destruct U2 as (R2 & A2 & P2).
  cbn [sn_isl1 sn_key] in Cd. specialize (Cd eq_refl eq_refl).
  destruct (l1_evict_ok c (ck_addr k1) CC) as (l1 & o & Ev).
  destruct (l1_evict_pair c _ _ l1 o CC A1 A2 Cd Ev) as (lb & ob & lab & Eb & E1 & E2).
  pose proof (evict_gcl_frame (c_l1d c) _ (ck_addr k2) l1 o (l1_no_common c _ _ CC A1 A2 Cd) Ev) as Fr.
  unfold sn2, sn_step. rewrite Ev. sn_cbn.
  destruct (0 <? n1); sn_cbn.
  { rewrite Ev. sn_cbn. cbn [orel_sw]. apply swapped_intro; try reflexivity. apply msi_equiv_refl. }
  rewrite Fr.
  destruct (get_cache_line (c_l1d c) (ck_addr k2)) as [[memory|]| e |]; sn_cbn; cbn [orel_sw]; auto.
  destruct (get (w_l3 w) (ck_addr k2)) as [[l3 [v|]]| e |]; sn_cbn; cbn [orel_sw]; auto.
  - (* the line is in the L3 *)
    destruct (0 <? n3); sn_cbn.
    { rewrite Ev. sn_cbn. cbn [orel_sw]. apply swapped_intro; try reflexivity. apply msi_equiv_refl. }
    unfold cc_write_l3. sn_cbn.
    destruct (write l3 (ck_addr k2) memory) as [l3'| e |]; sn_cbn; cbn [orel_sw]; auto.
    rewrite E1, Eb. sn_cbn. destruct ob as [dd|]; sn_cbn; cbn [orel_sw]; auto.
    rewrite E2. sn_cbn. cbn [orel_sw]. rewrite !set_l1d_l1d. apply swapped_intro; try reflexivity. cbn [w_msi].
    apply msi_l1wb_finish; intros _; assumption.
  - (* the line is not in the L3 *)
    destruct (0 <? n2); sn_cbn.
    { rewrite Ev. sn_cbn. cbn [orel_sw]. apply swapped_intro; try reflexivity. apply msi_equiv_refl. }
    destruct (write_to_memory (w_mem w) (ck_addr k2) memory) as [mem| e |]; sn_cbn; cbn [orel_sw]; auto.
    rewrite E1, Eb. sn_cbn. destruct ob as [dd|]; sn_cbn; cbn [orel_sw]; auto.
    rewrite E2. sn_cbn. cbn [orel_sw]. rewrite !set_l1d_l1d. apply swapped_intro; try reflexivity. cbn [w_msi].
    apply cmd_done_comm; intros _; assumption.
Qed.

Print Assumptions sn_swap_sym.
Print Assumptions swap_E1_E1.
Print Assumptions swap_E1_E3.
Print Assumptions swap_E1_W1.
Print Assumptions swap_E1_W3.
