(* MVP-8.0 against MVP-6.3 on programs without loads and stores.

   PROVED (Mvp80RegOnly.v): on such a program the memory system of MVP-8.0 is never used and a run returns the initial
   memory (mvp80_regonly_memory_unchanged, mvp80_regonly_memsys_idle).

   REFUTED (Mvp80Sim63Refute.v: mvp80_regonly_equals_mvp63_refuted): the statement
   mvp80_regonly_equals_mvp63_statement below - "MVP-8.0 returns the registers and the memory that MVP-6.3 returns, one
   cycle later (the final loop of mvp8-0/cpu.go that drains snoops and controllers runs once), with the same ghost
   flag; errors and panics are the same" - is FALSE for long programs.  The pipelines differ in registerRead:
   MVP-8.0 reads the transaction RAT at the newest slot written by an instruction whose sequence id is NOT GREATER than
   the reader's (reg_read8: rat_find .. (fun u => fst u <=? seq)), MVP-6.3 at the newest slot (reg_read3).  Sequence
   ids are pc + 1000 * ctx.sequenceID and sequenceID grows by 2 per taken jump without BTB entry, so a jump back by
   more than 2000 bytes gives an OLDER instruction a GREATER id than a younger one: the witness (504 register-only
   instructions, `j L1; add x7,x5,x0; ret; 499 nop; L1: li x5,77; j 4`) returns x7 = 77 on MVP-6.3 (and on the
   sequential machine) and x7 = 1 on MVP-8.0, at 1..4 cores.
   On short programs the statement holds in every sampled case: 101 600 pairs of runs of the extracted models at 1..4
   cores on programs below 250 instructions (work/p80regonly): no disagreement, c80 = c63 + 1 in all 82 549 terminating
   pairs, and the snapshots of runs that exhaust their fuel are equal tick by tick; three instances are proved below by
   vm_compute.  Mvp80Sim63Defs.v / Loops.v / Finish.v prove the lock-step simulation of the execute units, the front
   end, the main loop and the end of Run under explicit conditions (the two register reads agree, the Pre hook finds no
   pending older runner); the conditional end-to-end theorem is not assembled.  The other difference between the
   pipelines: the Pre hook of executeUnit.Cycle - MVP-8.0 panics ("invalid state") when an older runner waits on the
   execute bus while the unit drops a younger one (eu_pending8) and flushes its controller; MVP-6.3 only drops - and
   eus_flush8 cycles an empty unit with pending messages where eus_flush3 skips it. *)
From Coq Require Import ZArith List Bool Lia.
From Maj Require Import Base.Outcome Base.GoInt Base.GoTypes Isa.Spec Isa.Seq.
From Maj Require Import Gen.Latency Gen.RiscTables Gen.Opcodes Comp.Cache Comp.Rat Mvp.Mvp12 Mvp.Mvp3 Mvp.Mvp5 Mvp.Mvp60 Mvp.Mvp63 Mvp.Mvp80.
From Maj Require Import Mvp.Mvp60Proofs Mvp.Mvp63Proofs Mvp.Mvp80Proofs Mvp.Mvp80RegOnly.
Import ListNotations.
Open Scope Z_scope.

(* the result of MVP-8.0 that corresponds to a result of MVP-6.3: one more cycle *)
Definition plus_one_cycle (r : mres) : mres :=
  match r with MDone c s => MDone (c + 1) s | other => other end.

(* a statement, not a theorem: refuted in Mvp80Sim63Refute.v *)
Definition mvp80_regonly_equals_mvp63_statement : Prop :=
  forall par ord fuel app labels st r os,
  regonly app = true ->
  r <> MOutOfFuel ->
  mvp63_run_os par ord fuel app labels st = (r, os) ->
  mvp80_run_os par ord (S fuel) app labels st = (plus_one_cycle r, os).

(* instances: a WAR / RAW chain behind a multiplication, with a younger writer of a source register, at 2..4 cores *)
Definition ro_prog1 : list instr :=
  [I_mul (mk_mul 6 28 29); I_add (mk_add 7 6 5); I_li (mk_li 5 77); I_ret mk_ret].
Definition ro_prog2 : list instr :=
  [I_mul (mk_mul 6 28 29); I_mul (mk_mul 8 6 6); I_add (mk_add 7 8 5); I_li (mk_li 5 77); I_li (mk_li 8 1); I_ret mk_ret].
Definition ro_st : arch := st_of [(5, 1); (28, 20); (29, 5)] [].

Example regonly_instances :
  regonly ro_prog1 = true /\ regonly ro_prog2 = true /\
  (forall par, In par [1; 2; 3; 4]%nat ->
     mvp80_run_os par ord_asc 3001 ro_prog1 no_labels ro_st =
       (plus_one_cycle (fst (mvp63_run_os par ord_asc 3000 ro_prog1 no_labels ro_st)), snd (mvp63_run_os par ord_asc 3000 ro_prog1 no_labels ro_st)) /\
     mvp80_run_os par ord_asc 3001 ro_prog2 no_labels ro_st =
       (plus_one_cycle (fst (mvp63_run_os par ord_asc 3000 ro_prog2 no_labels ro_st)), snd (mvp63_run_os par ord_asc 3000 ro_prog2 no_labels ro_st))).
Proof.
  split; [reflexivity|]. split; [reflexivity|].
  intros par [<-|[<-|[<-|[<-|[]]]]]; vm_compute; split; reflexivity.
Qed.

Print Assumptions regonly_instances.
