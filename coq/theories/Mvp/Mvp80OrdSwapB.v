(* Soundness of the ghost flag of the model of MVP-8.0, part 6 B: two compatible snoop closures that work on the L3 only
   (SnL3Evict, SnL3WriteBack) commute (sn_swap_stmt of Mvp80OrdCommDefs.v).  sn_conflict = false gives two DIFFERENT
   L3 lines: the mutex keys differ, the l3write keys differ, no line of the well-formed L3 covers both addresses, the
   two ranges of memory written back are disjoint.

   swap_E3_E3, swap_E3_W3, swap_W3_E3, swap_W3_W3 are instances of swap_l3 (both kinds as l3cl wb key cid n). *)
From Coq Require Import ZArith List Bool Lia.
From Maj Require Import Base.Outcome Base.GoInt Base.GoTypes Isa.Spec Isa.Seq.
From Maj Require Import Gen.Latency Gen.RiscTables Gen.Opcodes Comp.Cache Comp.Rat Mvp.Mvp12 Mvp.Mvp3 Mvp.Mvp5 Mvp.Mvp60 Mvp.Mvp63 Mvp.Mvp80.
From Maj Require Import Mvp.Mvp80OrdSnoop Mvp.Mvp80OrdCache Mvp.Mvp80OrdInvDefs Mvp.Mvp80OrdCommDefs.
Import ListNotations.
Open Scope Z_scope.

(* ------------------------------------------------------------------ *)
(* 0. arithmetic                                                        *)
(* ------------------------------------------------------------------ *)

Lemma sb_p31 : 2^31 = 2147483648. Proof. reflexivity. Qed.

Lemma sb_wrapS32_eq : forall x, wrapS 32 x = (x + 2147483648) mod 4294967296 - 2147483648.
Proof. intros x. reflexivity. Qed.

Lemma sb_wrapS32_id : forall x, -2147483648 <= x < 2147483648 -> wrapS 32 x = x.
Proof. intros x H. apply wrapS_id; [lia | apply int32_bounds; exact H]. Qed.

Lemma sb_rem_nonneg_mod : forall x n, 0 <= x -> 0 < n -> Z.rem x n = x mod n.
Proof. intros x n Hx Hn. apply Z.rem_mod_nonneg; lia. Qed.

Lemma sb_wf_covers : forall l x, wf_line 128 l -> covers l x = true -> lo l <= x < lo l + 128 /\ x < 2147483648.
Proof.
  intros l x (R & _ & H & _) C. rewrite sb_p31 in R. unfold covers in C.
  apply andb_true_iff in C as [C1 C2]. apply Z.leb_le in C1. apply Z.ltb_lt in C2.
  rewrite H in C2. unfold addS in C2. rewrite sb_wrapS32_eq in C2. lia.
Qed.

Lemma sb_wf_covers_align128 : forall l x, wf_line 128 l -> covers l x = true -> l3_align x = lo l.
Proof.
  intros l x W C. pose proof (sb_wf_covers l x W C) as [B1 B2].
  destruct W as (R & M & _). rewrite sb_p31 in R.
  unfold l3_align, l3LineSize8, align8, subS, remS.
  rewrite sb_rem_nonneg_mod in M by lia. rewrite (sb_rem_nonneg_mod x 128) by lia.
  rewrite sb_wrapS32_id by lia. lia.
Qed.

(* ------------------------------------------------------------------ *)
(* 1. a well-formed cache: the first covering line decides everything   *)
(* ------------------------------------------------------------------ *)

Fixpoint fcov (ls : list line) (a : Z) : option line :=
  match ls with [] => None | l :: t => if covers l a then Some l else fcov t a end.

Fixpoint rmcov (ls : list line) (a : Z) : list line :=
  match ls with [] => [] | l :: t => if covers l a then t else l :: rmcov t a end.

Lemma fcov_some : forall ls a l, fcov ls a = Some l -> In l ls /\ covers l a = true.
Proof.
  induction ls as [|h t IH]; intros a l H; [discriminate|]. cbn [fcov] in H.
  destruct (covers h a) eqn:C.
  - inversion H; subst. split; [left; reflexivity | exact C].
  - destruct (IH a l H) as [I C']. split; [right; exact I | exact C'].
Qed.

Lemma rmcov_none : forall ls a, fcov ls a = None -> rmcov ls a = ls.
Proof.
  induction ls as [|h t IH]; intros a H; [reflexivity|]. cbn [fcov rmcov] in *.
  destruct (covers h a); [discriminate|]. rewrite IH by exact H. reflexivity.
Qed.

Lemma Forall_rmcov : forall (P : line -> Prop) ls a, Forall P ls -> Forall P (rmcov ls a).
Proof.
  intros P ls a H. induction H as [|h t Hh Ht IH]; [constructor|]. cbn [rmcov].
  destruct (covers h a); [exact Ht | constructor; assumption].
Qed.

Lemma line_get_wf : forall l a, wf_line 128 l ->
  line_get l a = if covers l a then Ok (Some (nth (Z.to_nat (subS 32 a (lo l))) (data l) 0)) else Ok None.
Proof.
  intros l a W. unfold line_get. fold (covers l a). destruct (covers l a) eqn:C; [|reflexivity].
  pose proof (sb_wf_covers l a W C) as [B1 B2]. destruct W as (R & _ & _ & Len). rewrite sb_p31 in R.
  unfold idx_get, subS. rewrite sb_wrapS32_id by lia. rewrite Len.
  replace ((0 <=? a - lo l) && (a - lo l <? 128)) with true; [reflexivity|].
  symmetry. apply andb_true_iff. split; [apply Z.leb_le | apply Z.ltb_lt]; lia.
Qed.

Lemma find_line_wf : forall ls a, Forall (wf_line 128) ls ->
  exists v, find_line ls a = Ok (match fcov ls a with Some l => Some (v, l, rmcov ls a) | None => None end).
Proof.
  induction ls as [|h t IH]; intros a W; [exists 0; reflexivity|].
  inversion W as [|? ? Wh Wt]; subst. cbn [find_line fcov rmcov]. rewrite (line_get_wf h a Wh).
  destruct (covers h a); cbn [bind].
  - eexists. reflexivity.
  - destruct (IH a Wt) as [v E]. rewrite E. cbn [bind]. exists v. destruct (fcov t a); reflexivity.
Qed.

Lemma set_lines_id : forall c, set_lines c (lines c) = c.
Proof. intros [n ll ls]. reflexivity. Qed.

Lemma get_cache_line_wf : forall c a, wf_cache 128 c -> get_cache_line c a = Ok (option_map data (fcov (lines c) a)).
Proof.
  intros c a [_ W]. unfold get_cache_line. destruct (find_line_wf (lines c) a W) as [v E]. rewrite E. cbn [bind].
  destruct (fcov (lines c) a); reflexivity.
Qed.

Lemma evict_cache_line_wf : forall c a, wf_cache 128 c ->
  evict_cache_line c a = Ok (set_lines c (rmcov (lines c) a), option_map data (fcov (lines c) a)).
Proof.
  intros c a [_ W]. unfold evict_cache_line. destruct (find_line_wf (lines c) a W) as [v E]. rewrite E. cbn [bind].
  destruct (fcov (lines c) a) eqn:F; cbn [option_map]; [reflexivity|].
  rewrite (rmcov_none _ _ F), set_lines_id. reflexivity.
Qed.

(* frame: no line covers both addresses *)
Definition nocov (ls : list line) (a b : Z) : Prop := forall l, In l ls -> covers l a && covers l b = false.

Lemma nocov_sym : forall ls a b, nocov ls a b -> nocov ls b a.
Proof. intros ls a b H l I. rewrite andb_comm. apply H. exact I. Qed.

Lemma nocov_tail : forall h t a b, nocov (h :: t) a b -> nocov t a b.
Proof. intros h t a b H l I. apply H. right. exact I. Qed.

Lemma fcov_rmcov : forall ls a b, nocov ls a b -> fcov (rmcov ls a) b = fcov ls b.
Proof.
  induction ls as [|h t IH]; intros a b H; [reflexivity|].
  pose proof (H h (or_introl eq_refl)) as Hh. specialize (IH a b (nocov_tail _ _ _ _ H)).
  cbn [rmcov fcov]. destruct (covers h a) eqn:Ca, (covers h b) eqn:Cb; cbn [andb] in Hh; try discriminate; cbn [fcov]; rewrite ?Cb; auto.
Qed.

Lemma rmcov_comm : forall ls a b, nocov ls a b -> rmcov (rmcov ls a) b = rmcov (rmcov ls b) a.
Proof.
  induction ls as [|h t IH]; intros a b H; [reflexivity|].
  pose proof (H h (or_introl eq_refl)) as Hh. specialize (IH a b (nocov_tail _ _ _ _ H)).
  cbn [rmcov]. destruct (covers h a) eqn:Ca, (covers h b) eqn:Cb; cbn [andb] in Hh; try discriminate; cbn [rmcov]; rewrite ?Ca, ?Cb; try reflexivity.
  rewrite IH. reflexivity.
Qed.

Lemma nocov_l3 : forall ls a b, Forall (wf_line 128) ls -> l3_align a <> l3_align b -> nocov ls a b.
Proof.
  intros ls a b W NE l I. rewrite Forall_forall in W. specialize (W l I).
  destruct (covers l a) eqn:Ca, (covers l b) eqn:Cb; try reflexivity.
  exfalso. apply NE. rewrite (sb_wf_covers_align128 l a W Ca), (sb_wf_covers_align128 l b W Cb). reflexivity.
Qed.

(* ------------------------------------------------------------------ *)
(* 2. memory: writes to disjoint ranges commute                         *)
(* ------------------------------------------------------------------ *)

Fixpoint wtm (mem : list Z) (addr : Z) (d : list Z) : list Z :=
  match d with
  | [] => mem
  | v :: t => if Z.of_nat (length mem) <=? addr then mem else wtm (mset mem addr v) (addr + 1) t
  end.

Lemma wtm_ok : forall d mem a, 0 <= a -> write_to_memory mem a d = Ok (wtm mem a d).
Proof.
  induction d as [|v t IH]; intros mem a Ha; [reflexivity|]. cbn [write_to_memory wtm].
  destruct (Z.of_nat (length mem) <=? a); [reflexivity|].
  replace (a <? 0) with false by (symmetry; apply Z.ltb_ge; lia). apply IH. lia.
Qed.

Lemma sb_upd_length : forall (d : list Z) n v, length (Seq.upd d n v) = length d.
Proof. induction d as [|x t IH]; intros [|n] v; cbn [Seq.upd length]; try reflexivity. rewrite IH. reflexivity. Qed.

Lemma mset_length : forall m a v, length (mset m a v) = length m.
Proof. intros. unfold mset. apply sb_upd_length. Qed.

Lemma upd_comm : forall (d : list Z) i j x y, i <> j -> Seq.upd (Seq.upd d i x) j y = Seq.upd (Seq.upd d j y) i x.
Proof.
  induction d as [|h t IH]; intros [|i] [|j] x y H; cbn [Seq.upd]; try reflexivity; try congruence.
  rewrite IH by congruence. reflexivity.
Qed.

Lemma mset_comm : forall m a b x y, 0 <= a -> 0 <= b -> a <> b -> mset (mset m a x) b y = mset (mset m b y) a x.
Proof. intros m a b x y Ha Hb H. unfold mset. apply upd_comm. lia. Qed.

Lemma wtm_length : forall d mem a, length (wtm mem a d) = length mem.
Proof.
  induction d as [|v t IH]; intros mem a; [reflexivity|]. cbn [wtm].
  destruct (Z.of_nat (length mem) <=? a); [reflexivity|]. rewrite IH. apply mset_length.
Qed.

Lemma mset_wtm : forall d m b a v, 0 <= a -> 0 <= b -> (a < b \/ b + zlen d <= a) ->
  mset (wtm m b d) a v = wtm (mset m a v) b d.
Proof.
  induction d as [|x t IH]; intros m b a v Ha Hb H; [reflexivity|]. cbn [wtm]. rewrite mset_length.
  destruct (Z.of_nat (length m) <=? b); [reflexivity|].
  unfold zlen in H. cbn [length] in H.
  rewrite IH; [| lia | lia | unfold zlen; lia].
  rewrite (mset_comm m b a) by lia. reflexivity.
Qed.

Lemma wtm_comm : forall d1 m a d2 b, 0 <= a -> 0 <= b -> (a + zlen d1 <= b \/ b + zlen d2 <= a) ->
  wtm (wtm m a d1) b d2 = wtm (wtm m b d2) a d1.
Proof.
  induction d1 as [|x t IH]; intros m a d2 b Ha Hb H; [reflexivity|]. cbn [wtm]. rewrite wtm_length.
  destruct (Z.of_nat (length m) <=? a); [reflexivity|].
  unfold zlen in H. cbn [length] in H.
  rewrite IH; [| lia | lia | unfold zlen; lia].
  rewrite mset_wtm; [reflexivity | lia | lia | unfold zlen; lia].
Qed.

(* ------------------------------------------------------------------ *)
(* 3. association lists                                                 *)
(* ------------------------------------------------------------------ *)

Lemma aget_aset : forall {A} x y (v : A) m, aget x (aset y v m) = if x =? y then Some v else aget x m.
Proof.
  intros A x y v m. induction m as [|[k a] t IH]; cbn [aget aset].
  - destruct (x =? y); reflexivity.
  - destruct (y =? k) eqn:E; cbn [aget].
    + apply Z.eqb_eq in E. subst k. destruct (x =? y); reflexivity.
    + rewrite IH. destruct (x =? k) eqn:E2; [|reflexivity].
      apply Z.eqb_eq in E2. subst k. rewrite Z.eqb_sym in E. rewrite E. reflexivity.
Qed.

Lemma aset_comm_ext : forall {A} x y (u v : A) m z, x <> y ->
  aget z (aset x u (aset y v m)) = aget z (aset y v (aset x u m)).
Proof.
  intros A x y u v m z H. rewrite !aget_aset.
  destruct (z =? x) eqn:E1, (z =? y) eqn:E2; try reflexivity.
  apply Z.eqb_eq in E1. apply Z.eqb_eq in E2. congruence.
Qed.

(* ------------------------------------------------------------------ *)
(* 4. the two kinds of closures in one form                             *)
(* ------------------------------------------------------------------ *)

Definition l3cl (wb : bool) (key : cmdk) (cid n : Z) : snoop_cl :=
  if wb then SnL3WriteBack key cid n else SnL3Evict key cid.

(* what the last call does to the directory *)
Definition l3msi (k : msi8) (key : cmdk) (cid : Z) : msi8 :=
  l3_setlock (cmd_done (set_l3write k (aset (ck_addr key) false (k_l3write k))) key cid) (ck_addr key) false.

(* what the last call does to memory and to the L3 (on a well-formed L3) *)
Definition l3data (wb : bool) (m : list Z) (c : cache) (a : Z) : outcome (list Z * cache) :=
  if wb then
    match fcov (lines c) a with
    | None => Panic
    | Some l => Ok (wtm m a (data l), set_lines c (rmcov (lines c) a))
    end
  else Ok (m, set_lines c (rmcov (lines c) a)).

Definition l3step (wb : bool) (key : cmdk) (cid n : Z) (w : mw) (c : cc8) : outcome (mw * cc8 * option snoop_cl) :=
  if negb (l3_locked (w_msi w) (ck_addr key))
  then Ok (set_wmsi w (l3_setlock (w_msi w) (ck_addr key) true), c, Some (l3cl wb key cid n))
  else d <- l3data wb (w_mem w) (w_l3 w) (ck_addr key) ;;
       Ok (mk_mw (fst d) (snd d) (l3msi (w_msi w) key cid), c, None).

Lemma sn_step_count : forall wb key cid n w c, wb && (0 <? n) = true ->
  sn_step w c (l3cl wb key cid n) = Ok (w, c, Some (l3cl wb key cid (n - 1))).
Proof.
  intros wb key cid n w c H. apply andb_true_iff in H as [-> H]. cbn [l3cl sn_step]. rewrite H. reflexivity.
Qed.

Lemma sn_step_l3 : forall wb key cid n w c, wb && (0 <? n) = false -> wf_cache 128 (w_l3 w) ->
  sn_step w c (l3cl wb key cid n) = l3step wb key cid n w c.
Proof.
  intros wb key cid n w c H W. unfold l3step. destruct wb; cbn [l3cl sn_step andb] in *.
  - rewrite H. destruct (negb (l3_locked (w_msi w) (ck_addr key))); [reflexivity|].
    rewrite (get_cache_line_wf _ _ W). cbn [bind l3data].
    destruct (fcov (lines (w_l3 w)) (ck_addr key)) as [l|] eqn:F; cbn [option_map bind]; [|reflexivity].
    destruct (fcov_some _ _ _ F) as [I C]. pose proof (proj2 W) as W'. rewrite Forall_forall in W'.
    pose proof (W' l I) as Wl. pose proof (sb_wf_covers l _ Wl C) as [B1 B2].
    destruct Wl as (R & _). rewrite wtm_ok by lia. cbn [bind].
    rewrite (evict_cache_line_wf _ _ W).
    cbn [bind fst snd]. rewrite F. cbn [option_map fst snd]. reflexivity.
  - destruct (negb (l3_locked (w_msi w) (ck_addr key))); [reflexivity|].
    rewrite (evict_cache_line_wf _ _ W). cbn [bind l3data fst snd]. reflexivity.
Qed.

Lemma lines_set_lines : forall c ls, lines (set_lines c ls) = ls.
Proof. intros [n ll ls'] ls. reflexivity. Qed.

(* the last calls of two closures on different lines: memory and the L3 *)
Lemma l3data_wf : forall wb m c a d, wf_cache 128 c -> l3data wb m c a = Ok d -> wf_cache 128 (snd d).
Proof.
  intros wb m c a d [L W] H.
  assert (G : wf_cache 128 (set_lines c (rmcov (lines c) a))).
  { split; [destruct c as [nn ll ls]; exact L | rewrite lines_set_lines; apply Forall_rmcov; exact W]. }
  unfold l3data in H. destruct wb.
  - destruct (fcov (lines c) a); [|discriminate]. inversion H; subst. exact G.
  - inversion H; subst. exact G.
Qed.

Definition l3data2 (wb1 wb2 : bool) (m : list Z) (c : cache) (a b : Z) : outcome (list Z * cache) :=
  d1 <- l3data wb1 m c a ;; l3data wb2 (fst d1) (snd d1) b.

Lemma set_lines_twice : forall c l1 l2, set_lines (set_lines c l1) l2 = set_lines c l2.
Proof. intros [n ll ls'] l1 l2. reflexivity. Qed.

Lemma l3data_comm : forall wb1 wb2 m c a b, wf_cache 128 c ->
  l3_align a = a -> l3_align b = b -> a <> b ->
  l3data2 wb1 wb2 m c a b = l3data2 wb2 wb1 m c b a.
Proof.
  intros wb1 wb2 m c a b [L W] LA LB NE.
  assert (NC : nocov (lines c) a b) by (apply nocov_l3; [exact W | congruence]).
  pose proof (nocov_sym _ _ _ NC) as NC'.
  assert (D : forall la lb, fcov (lines c) a = Some la -> fcov (lines c) b = Some lb ->
              wtm (wtm m a (data la)) b (data lb) = wtm (wtm m b (data lb)) a (data la)).
  { intros la lb Fa Fb. destruct (fcov_some _ _ _ Fa) as [Ia Ca]. destruct (fcov_some _ _ _ Fb) as [Ib Cb].
    rewrite Forall_forall in W. pose proof (W la Ia) as Wa. pose proof (W lb Ib) as Wb.
    pose proof (sb_wf_covers_align128 la a Wa Ca) as Ea. pose proof (sb_wf_covers_align128 lb b Wb Cb) as Eb.
    rewrite LA in Ea. rewrite LB in Eb.
    destruct Wa as (Ra & Ma & _ & Lena). destruct Wb as (Rb & Mb & _ & Lenb). rewrite sb_p31 in *.
    rewrite sb_rem_nonneg_mod in Ma by lia. rewrite sb_rem_nonneg_mod in Mb by lia.
    apply wtm_comm; [lia | lia |]. rewrite Lena, Lenb. lia. }
  unfold l3data2, l3data.
  destruct wb1, wb2; cbn [bind fst snd]; rewrite ?lines_set_lines, ?set_lines_twice.
  - destruct (fcov (lines c) a) as [la|] eqn:Fa; cbn [bind fst snd]; rewrite ?lines_set_lines, ?set_lines_twice.
    + rewrite (fcov_rmcov _ _ _ NC).
      destruct (fcov (lines c) b) as [lb|] eqn:Fb; cbn [bind fst snd]; rewrite ?lines_set_lines, ?set_lines_twice; [|reflexivity].
      rewrite (fcov_rmcov _ _ _ NC'), Fa. rewrite (rmcov_comm _ _ _ NC), (D la lb eq_refl eq_refl). reflexivity.
    + destruct (fcov (lines c) b) as [lb|] eqn:Fb; cbn [bind fst snd]; rewrite ?lines_set_lines, ?set_lines_twice; [|reflexivity].
      rewrite (fcov_rmcov _ _ _ NC'), Fa. reflexivity.
  - destruct (fcov (lines c) a) as [la|] eqn:Fa; cbn [bind fst snd]; rewrite ?lines_set_lines, ?set_lines_twice.
    + rewrite (fcov_rmcov _ _ _ NC'), Fa. rewrite (rmcov_comm _ _ _ NC). reflexivity.
    + rewrite (fcov_rmcov _ _ _ NC'), Fa. reflexivity.
  - rewrite (fcov_rmcov _ _ _ NC).
    destruct (fcov (lines c) b) as [lb|] eqn:Fb; cbn [bind fst snd]; rewrite ?lines_set_lines, ?set_lines_twice; [|reflexivity].
    rewrite (rmcov_comm _ _ _ NC). reflexivity.
  - rewrite (rmcov_comm _ _ _ NC). reflexivity.
Qed.

(* ------------------------------------------------------------------ *)
(* 5. the directory                                                     *)
(* ------------------------------------------------------------------ *)

Lemma l3msi_eq : forall k key cid, is_l1_req key = false ->
  l3msi k key cid =
  mk_msi (k_sems k) (k_states k) (k_stale k) (pdel ck_eqb key (k_cmds k)) (k_done k ++ [cid]) (k_next k)
         (aset (l3_align (ck_addr key)) false (k_l3lock k)) (aset (ck_addr key) false (k_l3write k)).
Proof.
  intros k key cid H. unfold l3msi, l3_setlock, cmd_done. fold (is_l1_req key). rewrite H. reflexivity.
Qed.

Lemma l3_locked_setlock : forall k a b v, l3_align a <> l3_align b -> l3_locked (l3_setlock k b v) a = l3_locked k a.
Proof.
  intros k a b v H. unfold l3_locked, l3_setlock. cbn [set_l3lock k_l3lock]. rewrite aget_aset.
  replace (l3_align a =? l3_align b) with false by (symmetry; apply Z.eqb_neq; exact H). reflexivity.
Qed.

Lemma l3_locked_l3msi : forall k key cid a, is_l1_req key = false -> l3_align a <> l3_align (ck_addr key) ->
  l3_locked (l3msi k key cid) a = l3_locked k a.
Proof.
  intros k key cid a H NE. rewrite l3msi_eq by exact H. unfold l3_locked. cbn [k_l3lock]. rewrite aget_aset.
  replace (l3_align a =? l3_align (ck_addr key)) with false by (symmetry; apply Z.eqb_neq; exact NE). reflexivity.
Qed.

Lemma done_comm : forall (d : list Z) c1 c2 cid, memZ cid ((d ++ [c1]) ++ [c2]) = memZ cid ((d ++ [c2]) ++ [c1]).
Proof.
  intros d c1 c2 cid. rewrite !memZ_app. unfold memZ. cbn [existsb].
  destruct (existsb (Z.eqb cid) d), (cid =? c1), (cid =? c2); reflexivity.
Qed.

(* lock / lock *)
Lemma equiv_lock_lock : forall k a b u v, l3_align a <> l3_align b ->
  msi_equiv (l3_setlock (l3_setlock k a u) b v) (l3_setlock (l3_setlock k b v) a u).
Proof.
  intros k a b u v NE. unfold msi_equiv, l3_setlock.
  cbn [set_l3lock k_sems k_states k_stale k_cmds k_done k_next k_l3lock k_l3write].
  repeat split; try reflexivity. intros z. apply aset_comm_ext. congruence.
Qed.

(* lock / last call *)
Lemma equiv_lock_last : forall k a key cid u, is_l1_req key = false -> l3_align a <> l3_align (ck_addr key) ->
  msi_equiv (l3msi (l3_setlock k a u) key cid) (l3_setlock (l3msi k key cid) a u).
Proof.
  intros k a key cid u H NE. rewrite !l3msi_eq by exact H. unfold msi_equiv, l3_setlock.
  cbn [set_l3lock k_sems k_states k_stale k_cmds k_done k_next k_l3lock k_l3write].
  repeat split; try reflexivity. intros z. apply aset_comm_ext. congruence.
Qed.

(* last call / last call *)
Lemma equiv_last_last : forall k key1 cid1 key2 cid2, is_l1_req key1 = false -> is_l1_req key2 = false ->
  l3_align (ck_addr key1) <> l3_align (ck_addr key2) -> ck_addr key1 <> ck_addr key2 ->
  msi_equiv (l3msi (l3msi k key1 cid1) key2 cid2) (l3msi (l3msi k key2 cid2) key1 cid1).
Proof.
  intros k key1 cid1 key2 cid2 H1 H2 NL NE. rewrite !l3msi_eq by assumption. unfold msi_equiv.
  cbn [k_sems k_states k_stale k_cmds k_done k_next k_l3lock k_l3write].
  repeat split; try reflexivity.
  - apply pdel_comm.
  - intros cid. apply done_comm.
  - intros z. apply aset_comm_ext. congruence.
  - intros z. apply aset_comm_ext. congruence.
Qed.

(* ------------------------------------------------------------------ *)
(* 6. the swap                                                          *)
(* ------------------------------------------------------------------ *)

Lemma sn2_swapped_intro : forall w1 w2 (c : cc8) (o1 o2 : option snoop_cl),
  w_mem w1 = w_mem w2 -> w_l3 w1 = w_l3 w2 -> msi_equiv (w_msi w1) (w_msi w2) ->
  sn2_swapped (w1, c, o1, o2) (w2, c, o2, o1).
Proof. intros w1 w2 c o1 o2 H1 H2 H3. unfold sn2_swapped. cbn [fst snd]. auto 10. Qed.

(* a closure that only counts down commutes with anything *)
Lemma swap_count_l : forall x x' y w c, (forall w c, sn_step w c x = Ok (w, c, Some x')) ->
  orel_sw sn2_swapped (sn2 w c x y) (sn2 w c y x).
Proof.
  intros x x' y w c H. unfold sn2. rewrite H. cbn [bind fst snd].
  destruct (sn_step w c y) as [[[w' c'] o]| e |]; cbn [bind fst snd orel_sw]; [|reflexivity|exact I].
  rewrite H. cbn [bind fst snd orel_sw]. apply sn2_swapped_intro; try reflexivity. apply msi_equiv_refl.
Qed.

Lemma swap_count_r : forall x y y' w c, (forall w c, sn_step w c y = Ok (w, c, Some y')) ->
  orel_sw sn2_swapped (sn2 w c x y) (sn2 w c y x).
Proof.
  intros x y y' w c H. unfold sn2. rewrite H. cbn [bind fst snd].
  destruct (sn_step w c x) as [[[w' c'] o]| e |]; cbn [bind fst snd orel_sw]; [|reflexivity|exact I].
  rewrite H. cbn [bind fst snd orel_sw]. apply sn2_swapped_intro; try reflexivity. apply msi_equiv_refl.
Qed.

Lemma l3cl_req : forall wb key cid n, sn_kind_ok (l3cl wb key cid n) -> is_l1_req key = false.
Proof. intros [|] key cid n H; cbn [l3cl sn_kind_ok] in H; unfold is_l1_req; rewrite H; reflexivity. Qed.

Lemma l3cl_key : forall wb key cid n, sn_key (l3cl wb key cid n) = key.
Proof. intros [|]; reflexivity. Qed.

Lemma conflict_l3 : forall k1 k2, is_l1_req k1 = false -> is_l1_req k2 = false -> sn_conflict k1 k2 = false ->
  l3_align (ck_addr k1) <> l3_align (ck_addr k2).
Proof.
  intros k1 k2 H1 H2 C. unfold is_l1_req in *. apply orb_false_iff in H1 as [A1 B1]. apply orb_false_iff in H2 as [A2 B2].
  unfold sn_conflict in C. rewrite A1, A2, B1 in C. cbn [orb andb] in C. apply Z.eqb_neq in C. exact C.
Qed.

Ltac l3side :=
  first [assumption | cbn [w_l3 set_wmsi]; first [assumption | eapply l3data_wf; [|eassumption]; assumption]].

Theorem swap_l3 : forall wb1 k1 c1 n1 wb2 k2 c2 n2,
  sn_swap_stmt (l3cl wb1 k1 c1 n1) (l3cl wb2 k2 c2 n2).
Proof.
  intros wb1 k1 c1 n1 wb2 k2 c2 n2 w c [W3 _] _ (K1 & _ & A1 & _) (K2 & _ & A2 & _) [CF _].
  rewrite !l3cl_key in *.
  pose proof (l3cl_req _ _ _ _ K1) as R1. pose proof (l3cl_req _ _ _ _ K2) as R2.
  unfold key_aligned in A1, A2. rewrite R1 in A1. rewrite R2 in A2.
  pose proof (conflict_l3 _ _ R1 R2 CF) as NL.
  assert (NE : ck_addr k1 <> ck_addr k2) by congruence.
  assert (NL' : l3_align (ck_addr k2) <> l3_align (ck_addr k1)) by congruence.
  destruct (wb1 && (0 <? n1)) eqn:T1.
  { eapply swap_count_l. intros w' c'. apply sn_step_count. exact T1. }
  destruct (wb2 && (0 <? n2)) eqn:T2.
  { eapply swap_count_r. intros w' c'. apply sn_step_count. exact T2. }
  unfold l3LineSize8 in W3.
  unfold sn2. rewrite !(sn_step_l3 _ _ _ _ w c) by assumption. unfold l3step.
  destruct (l3_locked (w_msi w) (ck_addr k1)) eqn:L1, (l3_locked (w_msi w) (ck_addr k2)) eqn:L2; cbn [negb bind fst snd].
  - (* both take their last step *)
    pose proof (l3data_comm wb1 wb2 (w_mem w) (w_l3 w) _ _ W3 A1 A2 NE) as DC. unfold l3data2 in DC.
    destruct (l3data wb1 (w_mem w) (w_l3 w) (ck_addr k1)) as [d1| e1 |] eqn:D1; cbn [bind fst snd] in *;
    destruct (l3data wb2 (w_mem w) (w_l3 w) (ck_addr k2)) as [d2| e2 |] eqn:D2; cbn [bind fst snd] in *;
      try (unfold l3data in D1; destruct wb1; [destruct (fcov _ _)|]; discriminate D1);
      try (unfold l3data in D2; destruct wb2; [destruct (fcov _ _)|]; discriminate D2).
    + rewrite sn_step_l3 by l3side.
      rewrite (sn_step_l3 wb1) by l3side.
      unfold l3step. cbn [w_msi w_mem w_l3]. rewrite !l3_locked_l3msi by assumption. rewrite L1, L2. cbn [negb].
      rewrite DC.
      destruct (l3data wb1 (fst d2) (snd d2) (ck_addr k1)) as [d| e |]; cbn [bind fst snd orel_sw]; [|reflexivity|exact I].
      apply sn2_swapped_intro; cbn [w_mem w_l3 w_msi]; try reflexivity.
      apply equiv_last_last; assumption.
    + rewrite sn_step_l3 by l3side.
      unfold l3step. cbn [w_msi w_mem w_l3]. rewrite !l3_locked_l3msi by assumption. rewrite L2. cbn [negb].
      rewrite DC. exact I.
    + rewrite sn_step_l3 by l3side.
      unfold l3step. cbn [w_msi w_mem w_l3]. rewrite !l3_locked_l3msi by assumption. rewrite L1. cbn [negb].
      rewrite <- DC. exact I.
    + exact I.
  - (* x takes its last step, y takes its mutex *)
    rewrite (sn_step_l3 wb1) by l3side.
    unfold l3step. cbn [set_wmsi w_msi w_mem w_l3]. rewrite l3_locked_setlock by assumption. rewrite L1. cbn [negb].
    destruct (l3data wb1 (w_mem w) (w_l3 w) (ck_addr k1)) as [d1| e1 |] eqn:D1; cbn [bind fst snd orel_sw]; [|reflexivity|exact I].
    rewrite sn_step_l3 by l3side.
    unfold l3step. cbn [w_msi w_mem w_l3]. rewrite l3_locked_l3msi by assumption. rewrite L2. cbn [negb bind fst snd orel_sw].
    apply sn2_swapped_intro; cbn [set_wmsi w_mem w_l3 w_msi]; try reflexivity.
    apply msi_equiv_sym. apply equiv_lock_last; assumption.
  - (* x takes its mutex, y takes its last step *)
    rewrite (sn_step_l3 wb2) by l3side.
    unfold l3step. cbn [set_wmsi w_msi w_mem w_l3]. rewrite l3_locked_setlock by assumption. rewrite L2. cbn [negb].
    destruct (l3data wb2 (w_mem w) (w_l3 w) (ck_addr k2)) as [d2| e2 |] eqn:D2; cbn [bind fst snd orel_sw]; [|reflexivity|exact I].
    rewrite sn_step_l3 by l3side.
    unfold l3step. cbn [w_msi w_mem w_l3]. rewrite l3_locked_l3msi by assumption. rewrite L1. cbn [negb bind fst snd orel_sw].
    apply sn2_swapped_intro; cbn [set_wmsi w_mem w_l3 w_msi]; try reflexivity.
    apply equiv_lock_last; assumption.
  - (* both take their mutex *)
    rewrite (sn_step_l3 wb2) by l3side.
    rewrite (sn_step_l3 wb1) by l3side.
    unfold l3step. cbn [set_wmsi w_msi w_mem w_l3]. rewrite !l3_locked_setlock by assumption. rewrite L1, L2.
    cbn [negb bind fst snd orel_sw]. apply sn2_swapped_intro; cbn [set_wmsi w_mem w_l3 w_msi]; try reflexivity.
    apply equiv_lock_lock; assumption.
Qed.

Theorem swap_E3_E3 : forall k1 c1 k2 c2, sn_swap_stmt (SnL3Evict k1 c1) (SnL3Evict k2 c2).
Proof. intros k1 c1 k2 c2. exact (swap_l3 false k1 c1 0 false k2 c2 0). Qed.

Theorem swap_E3_W3 : forall k1 c1 k2 c2 n, sn_swap_stmt (SnL3Evict k1 c1) (SnL3WriteBack k2 c2 n).
Proof. intros k1 c1 k2 c2 n. exact (swap_l3 false k1 c1 0 true k2 c2 n). Qed.

Theorem swap_W3_E3 : forall k1 c1 n k2 c2, sn_swap_stmt (SnL3WriteBack k1 c1 n) (SnL3Evict k2 c2).
Proof. intros k1 c1 n k2 c2. exact (swap_l3 true k1 c1 n false k2 c2 0). Qed.

Theorem swap_W3_W3 : forall k1 c1 n1 k2 c2 n2, sn_swap_stmt (SnL3WriteBack k1 c1 n1) (SnL3WriteBack k2 c2 n2).
Proof. intros k1 c1 n1 k2 c2 n2. exact (swap_l3 true k1 c1 n1 true k2 c2 n2). Qed.

Print Assumptions swap_E3_E3.
Print Assumptions swap_E3_W3.
Print Assumptions swap_W3_E3.
Print Assumptions swap_W3_W3.
