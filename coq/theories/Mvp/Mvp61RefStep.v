(* Refinement of MVP-6.1 to the sequential machine on register-only programs - part 7:
   the invariants of the main loop (FrontI1: fetch / decode / control-unit streams), the
   potential phi1, the four Connect calls, fetch + decode (fd_ok1), the control unit
   (cu_ok1) - the analogues of Mvp60RefStep.conn_ok / fd_ok / cu_ok. *)
From Coq Require Import ZArith List Bool Lia Permutation.
From Maj Require Import Base.Outcome Base.GoInt Base.GoTypes Isa.Spec Isa.Embed Isa.Seq Isa.Refine.
From Maj Require Import Gen.Latency Gen.RiscTables Gen.Opcodes Comp.Cache.
From Maj Require Import Mvp.Mvp12 Mvp.Mvp12Proofs Mvp.Mvp3 Mvp.Mvp3Proofs Mvp.Mvp4Skel Mvp.Mvp4Inv Mvp.Mvp5 Mvp.Mvp60 Mvp.Mvp61
     Mvp.Mvp60RefSem Mvp.Mvp60RefDefs Mvp.Mvp60RefFront Mvp.Mvp60RefBack Mvp.Mvp60RefStep
     Mvp.Mvp61RefSem Mvp.Mvp61RefFront Mvp.Mvp61RefBack Mvp.Mvp61RefInv Mvp.Mvp61RefCu Mvp.Mvp61RefExec.
Import ListNotations.
Open Scope Z_scope.

(* the four Connect calls *)
Definition conn1 (m : mach1) (c : Z) : mach1 :=
  mk_m1 (set_wbus (set_dbus (y_m m) (bb_connect (m_dbus (y_m m)) c)) (bb_connect (m_wbus (y_m m)) c))
        (xs_ebus (xs_cbus (y_x m) (bb_connect (x_cbus (y_x m)) c)) (bb_connect (x_ebus (y_x m)) c)).

Definition phiM1 (m : mach1) : Z :=
  10 * blen (m_dbus (y_m m)) + 9 * qlen (m_dbus (y_m m)) + 8 * blen (x_cbus (y_x m)) + 7 * qlen (x_cbus (y_x m))
  + 6 * zlen (x_cu (y_x m)) + 5 * blen (x_ebus (y_x m)) + 4 * qlen (x_ebus (y_x m))
  + 2 * blen (m_wbus (y_m m)) + qlen (m_wbus (y_m m)).

(* the runners pushed in this cycle are in the buffer of the execute bus, without Forwarder *)
Definition PrevB (m : mach1) : Prop :=
  Forall (fun o => In o (map snd (bb_buf (x_ebus (y_x m)))) /\ r_fw o = None) (x_prev (y_x m)).

Lemma front1_eq app pord c m : front1 app pord c m =
  (m3 <- (r <- fu_cycle6 app c (m_fu (y_m (conn1 m c))) (m_l1i (y_m (conn1 m c))) (m_dbus (y_m (conn1 m c))) ;;
          let '(fu1, l1i1, dbus1) := r in
          du_cycle1 app c (mk_m1 (set_dbus (set_l1i (set_fu (y_m (conn1 m c)) fu1) l1i1) dbus1) (y_x (conn1 m c)))) ;;
   Ok (cu_cycle1 pord c m3)).
Proof.
  unfold front1, conn1. cbn [y_m y_x set_wbus set_dbus m_fu m_l1i m_dbus].
  destruct (fu_cycle6 app c (m_fu (y_m m)) (m_l1i (y_m m)) (bb_connect (m_dbus (y_m m)) c)) as [[[fu1 l1i1] dbus1]| |];
    cbn [bind]; reflexivity.
Qed.

Section Step1.
  Variables (app : list instr) (labels : Z -> option Z) (regs0 mem0 : list Z) (base : nat) (sq : Z).
  Hypothesis Happ : wf_app app.
  Hypothesis Hreg : reg_only app = true.
  Hypothesis Hrng : regs_in_range app = true.
  Hypothesis Hlen32 : length regs0 = 32%nat.
  Hypothesis Hbase : (base <= length app)%nat.
  Let n := length app.
  Let N := stop_from app base.
  Let M := Nat.max n 1.
  Hypothesis Hsq : 0 <= sq /\ 1000 * sq + 4 * Z.of_nat n < 2147483648.

  Notation sreg := (sreg app labels regs0 base).
  Notation eff := (eff app labels regs0 base).
  Notation ik := (ik app).
  Notation rnq := (rnq app sq).
  Notation r1q := (r1q app sq).
  Notation CoreI := (CoreI app labels regs0 mem0 base sq).
  Notation FL1 := (FL1 sq).
  Notation FetchI := (FetchI app).
  Notation phiF := (phiF app).

  Hypothesis Hsem : forall k, (base <= k <= N)%nat -> (k < n)%nat ->
    exec (sinstr_of (ik k)) (rget (sreg k)) labels (pcz k) [] = Ok (eff k) /\
    (forall a, etarget (eff k) = Some a -> exists t, a = pcz t /\ (k < t <= n)%nat).

  Set Default Proof Using "All".
  Notation "'IA' L" := (L app labels regs0 mem0 base sq Happ Hreg Hrng Hlen32 Hbase Hsq Hsem) (at level 10, L at level 9, only parsing).

  Definition phi1 (m : mach1) : Z := phiF (m_fu (y_m m)) + phiM1 m.

  Record FrontI1 (d c f : nat) (cyc : Z) (m : mach1) : Prop := mkFrontI1 {
    f1_fetch : FetchI f (m_fu (y_m m)) (m_l1i (y_m m));
    f1_clean : f_clean (m_fu (y_m m)) = true -> bb_buf (m_dbus (y_m m)) = [] /\ bb_q (m_dbus (y_m m)) = [];
    f1_dbus : flat (m_dbus (y_m m)) = map pcz (seq c (f - c));
    f1_cf : (c <= f)%nat;
    f1_bd : (base <= d)%nat;
    f1_cb : flat (x_cbus (y_x m)) = map r1q (seq (d + length (x_cu (y_x m))) (Nat.min c n - (d + length (x_cu (y_x m)))));
    f1_dc : (d + length (x_cu (y_x m)) <= Nat.min c n)%nat;
    f1_cu : (length (x_cu (y_x m)) <= 1)%nat;
    f1_flags_f : m_dret (y_m m) = false -> m_dpbr (y_m m) = false -> (Nat.min c n <= N)%nat;
    f1_dret_t : m_dret (y_m m) = true -> (N < n)%nat /\ c = S N /\ is_ret (ik N) = true;
    f1_dpbr_t : m_dpbr (y_m m) = true -> (N < n)%nat /\ c = S N /\ is_jump (ik N) = true;
    f1_btb : Forall (fun e => fst e < pcz base) (b_btb (m_bu (y_m m)));
    f1_bsd : BusOK cyc (m_dbus (y_m m));
    f1_bc : BusOK cyc (x_cbus (y_x m));
    f1_be : BusOK cyc (x_ebus (y_x m));
    f1_bw : BusOK cyc (m_wbus (y_m m));
    f1_eb : blen (x_ebus (y_x m)) <= 2;
    f1_old : m_cu (y_m m) = [] /\ bb_isempty (m_cbus (y_m m)) = true /\ bb_isempty (m_ebus (y_m m)) = true;
    f1_seq : x_seq (y_x m) = sq }.

  Lemma front1_dN d c f cyc m : FrontI1 d c f cyc m -> (d + length (x_cu (y_x m)) <= S N)%nat /\ (d + length (x_cu (y_x m)) <= n)%nat /\
    (Nat.min c n <= S N)%nat.
  Proof.
    intros H. pose proof (f1_dc _ _ _ _ _ H). destruct (m_dret (y_m m)) eqn:E.
    - destruct (f1_dret_t _ _ _ _ _ H E) as (A & B & _). lia.
    - destruct (m_dpbr (y_m m)) eqn:E2.
      + destruct (f1_dpbr_t _ _ _ _ _ H E2) as (A & B & _). lia.
      + pose proof (f1_flags_f _ _ _ _ _ H E E2). lia.
  Qed.

  Lemma FrontI1_mono d c f cy cy' m : cy <= cy' -> FrontI1 d c f cy m -> FrontI1 d c f cy' m.
  Proof.
    intros Hc [F1 Fc F2 F3 Fb F4 F5 F6 F7 F8 F9 Fbt F10 F11 F12 F13 F14 F15 F16].
    constructor; auto; eapply busok_mono; eassumption.
  Qed.

  (* the four Connect calls *)
  Lemma conn_ok1 d c f cyc m : FrontI1 d c f cyc m -> CoreI d (x_cu (y_x m)) m -> PrevB m ->
    let m1 := conn1 m (cyc + 1) in
    FrontI1 d c f cyc m1 /\ CoreI d (x_cu (y_x m1)) m1 /\ EB m1 = EB m /\ WB m1 = WB m /\
    (forall p, In p (x_prev (y_x m1)) -> In p (EB m1) /\ r_fw p = None) /\
    m_fu (y_m m1) = m_fu (y_m m) /\ m_dret (y_m m1) = m_dret (y_m m) /\ m_dpbr (y_m m1) = m_dpbr (y_m m) /\ x_cu (y_x m1) = x_cu (y_x m) /\
    qlen (m_dbus (y_m m1)) + blen (m_dbus (y_m m1)) = qlen (m_dbus (y_m m)) + blen (m_dbus (y_m m)) /\ qlen (m_dbus (y_m m)) <= qlen (m_dbus (y_m m1)) /\
    qlen (x_cbus (y_x m1)) + blen (x_cbus (y_x m1)) = qlen (x_cbus (y_x m)) + blen (x_cbus (y_x m)) /\ qlen (x_cbus (y_x m)) <= qlen (x_cbus (y_x m1)) /\
    qlen (x_ebus (y_x m1)) + blen (x_ebus (y_x m1)) = qlen (x_ebus (y_x m)) + blen (x_ebus (y_x m)) /\ qlen (x_ebus (y_x m)) <= qlen (x_ebus (y_x m1)) /\
    qlen (m_wbus (y_m m1)) + blen (m_wbus (y_m m1)) = qlen (m_wbus (y_m m)) + blen (m_wbus (y_m m)) /\ qlen (m_wbus (y_m m)) <= qlen (m_wbus (y_m m1)) /\
    (blen (m_dbus (y_m m1)) = 0 \/ qlen (m_dbus (y_m m1)) = 2) /\ (blen (x_cbus (y_x m1)) = 0 \/ qlen (x_cbus (y_x m1)) = 2) /\
    (blen (x_ebus (y_x m1)) = 0 \/ qlen (x_ebus (y_x m1)) = 2) /\ (blen (m_wbus (y_m m1)) = 0 \/ qlen (m_wbus (y_m m1)) = 2).
  Proof.
    intros HF HB HP. cbv zeta. pose proof HF as [F1 Fc F2 F3 Fb F4 F5 F6 F7 F8 F9 Fbt F10 F11 F12 F13 F14 F15 F16].
    destruct (connect_spec cyc (m_dbus (y_m m)) F10) as (D1 & D2 & D3 & D4 & D5).
    destruct (connect_spec cyc (x_cbus (y_x m)) F11) as (C1 & C2 & C3 & C4 & C5).
    destruct (connect_spec cyc (x_ebus (y_x m)) F12) as (E1 & E2 & E3 & E4 & E5).
    destruct (connect_spec cyc (m_wbus (y_m m)) F13) as (W1 & W2 & W3 & W4 & W5).
    assert (X : forall T (b : bbus T), bb_buf b = [] \/ qlen b = 2 -> blen b = 0 \/ qlen b = 2).
    { intros T b [A|A]; [left; unfold blen; rewrite A; reflexivity | right; exact A]. }
    unfold conn1. cbn [y_m y_x set_wbus set_dbus xs_ebus xs_cbus m_fu m_dret m_dpbr m_dbus m_wbus x_cu x_cbus x_ebus x_prev].
    assert (HEB : EB (conn1 m (cyc + 1)) = EB m) by exact E1.
    assert (HWB : WB (conn1 m (cyc + 1)) = WB m) by exact W1.
    split; [|split; [|split; [exact E1|split; [exact W1|split]]]].
    - constructor; cbn [y_m y_x set_wbus set_dbus xs_ebus xs_cbus m_fu m_l1i m_dret m_dpbr m_cu m_bu m_dbus m_cbus m_ebus m_wbus x_cu x_cbus x_ebus];
        rewrite ?D1, ?C1; auto.
      + intros Hc. destruct (Fc Hc) as [A B]. assert (Hx : flat (bb_connect (m_dbus (y_m m)) (cyc + 1)) = []) by (rewrite D1; unfold flat; rewrite A, B; reflexivity).
        apply flat_nil_inv in Hx. tauto.
      + pose proof (blen_ge0 (bb_connect (x_ebus (y_x m)) (cyc + 1))). pose proof (qlen_ge0 (x_ebus (y_x m))). lia.
    - eapply (IA CoreI_ext); [exact HEB | exact HWB | | | | | | | | | | | |exact HB]; reflexivity.
    - intros p Hp. unfold PrevB in HP. rewrite Forall_forall in HP. destruct (HP p Hp) as [A B]. split; [|exact B].
      change (In p (flat (bb_connect (x_ebus (y_x m)) (cyc + 1)))). rewrite E1. unfold flat. apply in_or_app. right. exact A.
    - repeat split; auto; lia.
  Qed.
  (* fetchUnit.cycle ; decodeUnit.cycle *)
  Lemma fd_ok1 d c f cyc m : FrontI1 d c f cyc m -> x_seq (y_x m) = sq -> x_fwd (y_x m) = repeat no_fwd n ->
    exists m3 c' f',
      (r <- fu_cycle6 app (cyc + 1) (m_fu (y_m m)) (m_l1i (y_m m)) (m_dbus (y_m m)) ;;
       let '(fu1, l1i1, dbus1) := r in
       du_cycle1 app (cyc + 1) (mk_m1 (set_dbus (set_l1i (set_fu (y_m m) fu1) l1i1) dbus1) (y_x m))) = Ok m3 /\
      FrontI1 d c' f' (cyc + 1) m3 /\
      m_regs (y_m m3) = m_regs (y_m m) /\ m_mem (y_m m3) = m_mem (y_m m) /\ m_pw (y_m m3) = m_pw (y_m m) /\ m_pr (y_m m3) = m_pr (y_m m) /\
      m_l3 (y_m m3) = m_l3 (y_m m) /\ m_wbus (y_m m3) = m_wbus (y_m m) /\
      (exists cb, y_x m3 = xs_cbus (y_x m) cb) /\ bb_q (x_cbus (y_x m3)) = bb_q (x_cbus (y_x m)) /\
      phiF (m_fu (y_m m3)) + 10 * blen (m_dbus (y_m m3)) + 9 * qlen (m_dbus (y_m m3)) + 8 * blen (x_cbus (y_x m3))
        <= phiF (m_fu (y_m m)) + 10 * blen (m_dbus (y_m m)) + 9 * qlen (m_dbus (y_m m)) + 8 * blen (x_cbus (y_x m)) /\
      (phiF (m_fu (y_m m3)) + 10 * blen (m_dbus (y_m m3)) + 9 * qlen (m_dbus (y_m m3)) + 8 * blen (x_cbus (y_x m3))
        < phiF (m_fu (y_m m)) + 10 * blen (m_dbus (y_m m)) + 9 * qlen (m_dbus (y_m m)) + 8 * blen (x_cbus (y_x m)) \/
       (((f_co (m_fu (y_m m)) = FDone /\ phiF (m_fu (y_m m3)) = phiF (m_fu (y_m m)) /\ f_complete (m_fu (y_m m3)) = f_complete (m_fu (y_m m))) \/
         (f_co (m_fu (y_m m)) = FNone /\ bb_canadd (m_dbus (y_m m)) = false)) /\
        (m_dret (y_m m) = true \/ m_dpbr (y_m m) = true \/ bb_q (m_dbus (y_m m)) = []))).
  Proof.
    intros HF Hxs Hxf. pose proof HF as [F1 Fc F2 F3 Fb F4 F5 F6 F7 F8 F9 Fbt F10 F11 F12 F13 F14 F15 F16].
    set (b := y_m m) in *. set (xx := y_x m) in *.
    destruct (fu_ok app base Happ cyc f (m_fu b) (m_l1i b) (m_dbus b) F1 F10 Fc) as (fu' & l1i' & k & E & G1 & Gcl & G2 & G3).
    rewrite E. cbn [bind].
    set (dbus2 := bus_push (m_dbus b) (cyc + 2) (map pcz (seq f k))).
    set (m2 := mk_m1 (set_dbus (set_l1i (set_fu b fu') l1i') dbus2) xx).
    destruct (seq_split pcz (bb_q (m_dbus b)) (map snd (bb_buf (m_dbus b))) c (f - c) F2) as (Q1 & Q2 & Q3).
    rewrite map_length in Q2, Q3.
    set (len := length (bb_q (m_dbus b))) in *. set (lb := length (bb_buf (m_dbus b))) in *.
    assert (Bd2 : BusOK (cyc + 1) dbus2).
    { unfold dbus2. replace (cyc + 2) with (cyc + 1 + 1) by lia. apply bus_push_ok. eapply busok_mono; [|exact F10]. lia. }
    assert (Bc1 : BusOK (cyc + 1) (x_cbus xx)) by (eapply busok_mono; [|exact F11]; lia).
    assert (Be1 : BusOK (cyc + 1) (x_ebus xx)) by (eapply busok_mono; [|exact F12]; lia).
    assert (Bw1 : BusOK (cyc + 1) (m_wbus b)) by (eapply busok_mono; [|exact F13]; lia).
    assert (Hb2 : blen dbus2 = blen (m_dbus b) + Z.of_nat k).
    { unfold dbus2, bus_push, blen. cbn [bb_buf]. rewrite zlen_app, stamped_len. unfold zlen. rewrite map_length, seq_length. reflexivity. }
    assert (Hfco : f_co (m_fu b) = FDone -> phiF fu' = phiF (m_fu b) /\ f_complete fu' = f_complete (m_fu b) /\ k = O).
    { intros Hd. unfold fu_cycle6 in E. rewrite Hd in E. injection E as E1 _ E3.
      assert (k = O).
      { apply (f_equal (fun b0 => zlen (bb_buf b0))) in E3. fold dbus2 in E3. fold (blen dbus2) in E3.
        assert (blen (if f_clean (m_fu b) then bb_clean (m_dbus b) else m_dbus b) <= blen (m_dbus b)).
        { destruct (f_clean (m_fu b)); [unfold blen, bb_clean; cbn [bb_buf]; rewrite zlen_nil; apply zlen_ge0 | lia]. }
        unfold blen in *. lia. }
      rewrite <- E1. split; [unfold Mvp60RefFront.phiF, phi_co; cbn [f_pc f_co f_rem]; rewrite Hd; reflexivity | split; [reflexivity | assumption]]. }
    assert (Hidle : m_dret b = true \/ m_dpbr b = true ->
      exists m3 c' f',
        du_cycle1 app (cyc + 1) m2 = Ok m3 /\ FrontI1 d c' f' (cyc + 1) m3 /\
        m_regs (y_m m3) = m_regs b /\ m_mem (y_m m3) = m_mem b /\ m_pw (y_m m3) = m_pw b /\ m_pr (y_m m3) = m_pr b /\ m_l3 (y_m m3) = m_l3 b /\
        m_wbus (y_m m3) = m_wbus b /\ (exists cb, y_x m3 = xs_cbus xx cb) /\ bb_q (x_cbus (y_x m3)) = bb_q (x_cbus xx) /\
        phiF (m_fu (y_m m3)) + 10 * blen (m_dbus (y_m m3)) + 9 * qlen (m_dbus (y_m m3)) + 8 * blen (x_cbus (y_x m3))
          <= phiF (m_fu b) + 10 * blen (m_dbus b) + 9 * qlen (m_dbus b) + 8 * blen (x_cbus xx) /\
        (phiF (m_fu (y_m m3)) + 10 * blen (m_dbus (y_m m3)) + 9 * qlen (m_dbus (y_m m3)) + 8 * blen (x_cbus (y_x m3))
          < phiF (m_fu b) + 10 * blen (m_dbus b) + 9 * qlen (m_dbus b) + 8 * blen (x_cbus xx) \/
         (((f_co (m_fu b) = FDone /\ phiF (m_fu (y_m m3)) = phiF (m_fu b) /\ f_complete (m_fu (y_m m3)) = f_complete (m_fu b)) \/
           (f_co (m_fu b) = FNone /\ bb_canadd (m_dbus b) = false)) /\
          (m_dret b = true \/ m_dpbr b = true \/ bb_q (m_dbus b) = [])))).
    { intros Hflag. exists m2, c, (f + k)%nat. split; [apply du1_idle; exact Hflag|].
      split; [|split; [|split; [|split; [|split; [|split; [|split; [|split; [|split; [|split]]]]]]]]]; try reflexivity.
      + constructor; unfold m2; cbn [y_m y_x set_dbus set_l1i set_fu m_fu m_l1i m_bu m_dbus m_cbus m_ebus m_wbus m_cu m_dret m_dpbr]; auto.
        * intros Hx. congruence.
        * unfold dbus2. rewrite bus_push_flat, F2. replace f with (c + (f - c))%nat at 2 by lia. rewrite seq_join. f_equal. f_equal. lia.
        * lia.
      + exists (x_cbus xx). destruct xx; reflexivity.
      + unfold m2. cbn [y_m y_x set_dbus set_l1i set_fu m_fu m_dbus]. fold dbus2. unfold dbus2 at 2, bus_push, qlen. cbn [bb_q]. fold (qlen (m_dbus b)). lia.
      + unfold m2. cbn [y_m y_x set_dbus set_l1i set_fu m_fu m_dbus]. fold dbus2.
        assert (Hq2 : qlen dbus2 = qlen (m_dbus b)) by reflexivity.
        assert (Hfl : m_dret b = true \/ m_dpbr b = true \/ bb_q (m_dbus b) = []) by tauto.
        destruct (f_co (m_fu b)) eqn:Eco.
        * destruct (bb_canadd (m_dbus b)) eqn:Eadd; [left; specialize (G3 (or_intror (conj eq_refl eq_refl))); lia|].
          right. split; [right; auto | exact Hfl].
        * left. specialize (G3 (or_introl eq_refl)). lia.
        * right. split; [left; split; [reflexivity | destruct (Hfco eq_refl) as (A & B & _); auto] | exact Hfl]. }
    destruct (m_dret b) eqn:Edr; [apply Hidle; left; reflexivity|].
    destruct (m_dpbr b) eqn:Edp; [apply Hidle; right; reflexivity|]. clear Hidle.
    (* decode *)
    assert (Hq2 : bb_q (m_dbus (y_m m2)) = map pcz (seq c len)).
    { unfold m2. cbn [y_m set_dbus m_dbus]. unfold dbus2, bus_push. cbn [bb_q]. exact Q1. }
    assert (Hbc : (base <= c)%nat) by lia.
    destruct (du1_ok app base sq Hsq cyc m2 c len Hq2 Hbc (F7 eq_refl eq_refl) Edr Edp Hxs Hxf) as (j & ret' & pbr' & E2 & Hj & Hj0 & Hrt & Hpt & Hrf).
    rewrite E2. unfold m2. cbn [y_m y_x set_dbus set_l1i set_fu m_dbus set_du].
    fold n in E2, Hrt, Hpt, Hrf |- *. fold N in Hrt, Hpt, Hrf |- *.
    eexists _, (c + j)%nat, (f + k)%nat. split; [reflexivity|].
    set (em := Nat.min c n) in *. set (em' := Nat.min (c + j) n) in *.
    assert (Hem : (em <= em')%nat) by (unfold em, em'; lia).
    match goal with |- FrontI1 _ _ _ _ ?x /\ _ => set (m3 := x) end.
    assert (P1 : m_fu (y_m m3) = fu') by reflexivity.
    assert (P2 : blen (m_dbus (y_m m3)) = blen (m_dbus b) + Z.of_nat k) by exact Hb2.
    assert (P3 : qlen (m_dbus (y_m m3)) = Z.of_nat (len - j)).
    { unfold m3, qlen, zlen. cbn [y_m set_dbus m_dbus bb_q]. rewrite map_length, seq_length. reflexivity. }
    assert (P4 : blen (x_cbus (y_x m3)) = blen (x_cbus xx) + Z.of_nat (em' - em)).
    { unfold m3, blen, bus_push. cbn [y_x xs_cbus x_cbus bb_buf]. rewrite zlen_app, stamped_len. unfold zlen. rewrite map_length, seq_length. reflexivity. }
    assert (P5 : qlen (m_dbus b) = Z.of_nat len) by reflexivity.
    assert (Hemj : (em' - em <= j)%nat) by (unfold em, em'; lia).
    assert (Pcu : x_cu (y_x m3) = x_cu xx) by (unfold m3; destruct xx; reflexivity).
    assert (Peb : x_ebus (y_x m3) = x_ebus xx) by (unfold m3; destruct xx; reflexivity).
    split; [|split; [|split; [|split; [|split; [|split; [|split; [|split; [|split; [|split]]]]]]]]]; try reflexivity.
    + constructor; rewrite ?Pcu, ?Peb; unfold m3; cbn [y_m y_x xs_cbus x_cbus set_dbus set_du set_l1i set_fu m_fu m_l1i m_bu m_dbus m_cbus m_ebus m_wbus m_cu m_dret m_dpbr]; auto.
      * intros Hx. congruence.
      * unfold flat. cbn [bb_q bb_buf]. unfold dbus2, bus_push. cbn [bb_buf]. rewrite map_app, stamped_snd, Q2.
        replace (c + len)%nat with (c + j + (len - j))%nat by lia. rewrite app_assoc, seq_join.
        replace f with (c + j + (len - j + lb))%nat at 1 by lia. rewrite seq_join. f_equal. f_equal. lia.
      * lia.
      * rewrite bus_push_flat, F4. fold em.
        set (d1 := (d + length (x_cu xx))%nat) in *. replace em with (d1 + (em - d1))%nat at 2 by lia.
        rewrite seq_join. f_equal. f_equal. fold em'. lia.
      * fold em'. lia.
      * apply busok_newq; [exact Bd2|]. unfold zlen. rewrite map_length, seq_length. pose proof (bus_q _ _ F10). unfold qlen, zlen in H. fold len in H. lia.
      * replace (cyc + 2) with (cyc + 1 + 1) by lia. apply bus_push_ok. exact Bc1.
    + eexists. unfold m3. cbn [y_x]. reflexivity.
    + rewrite P1, P2, P3, P4, P5. lia.
    + rewrite P1, P2, P3, P4, P5.
      destruct (Nat.eq_dec j 0) as [Ej|Ej]; [|left; lia].
      assert (Hlen00 : len = O) by lia.
      assert (Hq0 : bb_q (m_dbus b) = []) by (unfold len in Hlen00; destruct (bb_q (m_dbus b)); [reflexivity | discriminate]).
      destruct (f_co (m_fu b)) eqn:Eco.
      * destruct (bb_canadd (m_dbus b)) eqn:Eadd; [left; specialize (G3 (or_intror (conj eq_refl eq_refl))); lia|].
        right. split; [right; auto | right; right; exact Hq0].
      * left. specialize (G3 (or_introl eq_refl)). lia.
      * right. split; [left; split; [reflexivity | destruct (Hfco eq_refl) as (A & B & _); auto] | right; right; exact Hq0].
  Qed.
  Notation CUI := (CUI app labels regs0 mem0 base sq).

  (* controlUnit.cycle *)
  Lemma cu_ok1 pord d c f cy m : FrontI1 d c f cy m -> CoreI d (x_cu (y_x m)) m ->
    (forall p, In p (x_prev (y_x m)) -> In p (EB m) /\ r_fw p = None) ->
    exists lp, let m4 := snd (cu_cycle1 pord cy m) in
      FrontI1 (d + lp) c f cy m4 /\ CoreI (d + lp) (x_cu (y_x m4)) m4 /\ PrevB m4 /\
      (lp <= 2)%nat /\ Z.of_nat lp <= 2 - blen (x_ebus (y_x m)) /\
      m_fu (y_m m4) = m_fu (y_m m) /\ m_l1i (y_m m4) = m_l1i (y_m m) /\ m_dbus (y_m m4) = m_dbus (y_m m) /\ m_wbus (y_m m4) = m_wbus (y_m m) /\
      m_bu (y_m m4) = m_bu (y_m m) /\ m_dret (y_m m4) = m_dret (y_m m) /\ m_dpbr (y_m m4) = m_dpbr (y_m m) /\
      bb_buf (x_cbus (y_x m4)) = bb_buf (x_cbus (y_x m)) /\
      qlen (x_ebus (y_x m4)) = qlen (x_ebus (y_x m)) /\ blen (x_ebus (y_x m4)) = blen (x_ebus (y_x m)) + Z.of_nat lp /\
      map r_b (EB m4) = map r_b (EB m) ++ map rnq (seq d lp) /\ WB m4 = WB m /\
      6 * zlen (x_cu (y_x m4)) + 7 * qlen (x_cbus (y_x m4)) + 5 * blen (x_ebus (y_x m4))
        <= 6 * zlen (x_cu (y_x m)) + 7 * qlen (x_cbus (y_x m)) + 5 * blen (x_ebus (y_x m)) /\
      (FL1 m = [] ->
       6 * zlen (x_cu (y_x m4)) + 7 * qlen (x_cbus (y_x m4)) + 5 * blen (x_ebus (y_x m4))
         < 6 * zlen (x_cu (y_x m)) + 7 * qlen (x_cbus (y_x m)) + 5 * blen (x_ebus (y_x m)) \/
       (x_cu (y_x m) = [] /\ bb_q (x_cbus (y_x m)) = [])).
  Proof.
    intros HF HC HPF. pose proof HF as [F1 Fc F2 F3 Fb F4 F5 F6 F7 F8 F9 Fbt F10 F11 F12 F13 F14 F15 F16].
    destruct (front1_dN _ _ _ _ _ HF) as (HdN & Hdn & HcN).
    unfold cu_cycle1. destruct (bb_canadd (x_ebus (y_x m))) eqn:Eadd; cbn [negb].
    2:{ exists O. cbv zeta. cbn [snd]. rewrite Nat.add_0_r.
        set (m4 := set_x m (xs_prev (y_x m) [])).
        assert (Hb2 : blen (x_ebus (y_x m)) = 2).
        { unfold bb_canadd in Eadd. apply negb_false_iff, Z.eqb_eq in Eadd. rewrite (bus_bl _ _ F12) in Eadd. exact Eadd. }
        split; [constructor; auto|]. split; [eapply (IA CoreI_ext); [| | | | | | | | | | | | |exact HC]; reflexivity|].
        split; [constructor|]. split; [lia|]. split; [change (Z.of_nat 0) with 0; lia|].
        repeat (split; [reflexivity|]). split; [change (Z.of_nat 0) with 0; cbn [m4 set_x y_x xs_prev x_ebus]; lia|].
        split; [cbn [seq map]; rewrite app_nil_r; reflexivity|]. split; [reflexivity|].
        split; [cbn [m4 set_x y_x xs_prev x_cu x_cbus x_ebus]; lia|].
        intros HFL. exfalso. destruct ((IA EB_nil_empty) m HFL) as [_ HE]. unfold EB, flat in HE. apply app_eq_nil in HE as [_ HE].
        apply map_eq_nil in HE. unfold blen in Hb2. rewrite HE in Hb2. discriminate. }
    (* the state at the start of the loops *)
    assert (HG0 : CUI cy m d 0 [] false (x_cu (y_x m)) m).
    { constructor; rewrite ?Nat.add_0_r; auto.
      - apply CuFrame_refl.
      - change (Z.of_nat 0) with 0. lia.
      - cbn [seq map]. rewrite app_nil_r. reflexivity.
      - intros p Hp. destruct (HPF p Hp) as [A _]. pose proof (c_idlt _ _ _ _ _ _ _ _ _ HC) as Hid. rewrite Forall_forall in Hid. apply Hid. exact A.
      - lia. }
    destruct (seq_split r1q (bb_q (x_cbus (y_x m))) (map snd (bb_buf (x_cbus (y_x m)))) _ _ F4) as (Q1 & Q2 & Q3).
    rewrite map_length in Q2, Q3.
    set (lc := length (x_cu (y_x m))) in *. set (lq := length (bb_q (x_cbus (y_x m)))) in *. set (lb := length (bb_buf (x_cbus (y_x m)))) in *.
    (* what the final state looks like, whichever loop ended the cycle *)
    assert (Hfin : forall lp cur st pend m' q', CUI cy m d lp cur st pend m' -> (length pend <= 1)%nat ->
              (lp + length pend + length q' = lc + lq)%nat -> q' = map r1q (seq (d + lp + length pend) (length q')) ->
              (length q' <= lq)%nat ->
              (FL1 m = [] -> (0 < lp)%nat \/ (x_cu (y_x m) = [] /\ bb_q (x_cbus (y_x m)) = [])) ->
              let m4 := set_x m' (xs_prev (xs_cu (xs_cbus (y_x m') (mk_bb (bb_buf (x_cbus (y_x m))) q' (bb_ql (x_cbus (y_x m))) (bb_bl (x_cbus (y_x m))))) pend) cur) in
              FrontI1 (d + lp) c f cy m4 /\ CoreI (d + lp) (x_cu (y_x m4)) m4 /\ PrevB m4 /\
              (lp <= 2)%nat /\ Z.of_nat lp <= 2 - blen (x_ebus (y_x m)) /\
              m_fu (y_m m4) = m_fu (y_m m) /\ m_l1i (y_m m4) = m_l1i (y_m m) /\ m_dbus (y_m m4) = m_dbus (y_m m) /\ m_wbus (y_m m4) = m_wbus (y_m m) /\
              m_bu (y_m m4) = m_bu (y_m m) /\ m_dret (y_m m4) = m_dret (y_m m) /\ m_dpbr (y_m m4) = m_dpbr (y_m m) /\
              bb_buf (x_cbus (y_x m4)) = bb_buf (x_cbus (y_x m)) /\
              qlen (x_ebus (y_x m4)) = qlen (x_ebus (y_x m)) /\ blen (x_ebus (y_x m4)) = blen (x_ebus (y_x m)) + Z.of_nat lp /\
              map r_b (EB m4) = map r_b (EB m) ++ map rnq (seq d lp) /\ WB m4 = WB m /\
              6 * zlen (x_cu (y_x m4)) + 7 * qlen (x_cbus (y_x m4)) + 5 * blen (x_ebus (y_x m4))
                <= 6 * zlen (x_cu (y_x m)) + 7 * qlen (x_cbus (y_x m)) + 5 * blen (x_ebus (y_x m)) /\
              (FL1 m = [] ->
               6 * zlen (x_cu (y_x m4)) + 7 * qlen (x_cbus (y_x m4)) + 5 * blen (x_ebus (y_x m4))
                 < 6 * zlen (x_cu (y_x m)) + 7 * qlen (x_cbus (y_x m)) + 5 * blen (x_ebus (y_x m)) \/
               (x_cu (y_x m) = [] /\ bb_q (x_cbus (y_x m)) = []))).
    { intros lp cur st pend m' q' [G1 G2 G3 G4 G5 G6 G7 G8 G9 G10 G11] Hpl Hsum Hq' Hq'l Hstrict. cbv zeta.
      set (m4 := set_x m' _). destruct G2.
      assert (X1 : x_cu (y_x m4) = pend) by reflexivity.
      assert (X2 : x_ebus (y_x m4) = x_ebus (y_x m')) by reflexivity.
      assert (X3 : flat (x_cbus (y_x m4)) = q' ++ map snd (bb_buf (x_cbus (y_x m)))) by reflexivity.
      assert (X4 : EB m4 = EB m') by reflexivity.
      assert (Hlp : (lp <= 2)%nat) by (pose proof (blen_ge0 (x_ebus (y_x m))); lia).
      pose proof (blen_ge0 (x_ebus (y_x m))) as Hbge.
      split; [|split; [|split; [|split; [exact Hlp|split; [lia|]]]]].
      - constructor; rewrite ?X1, ?X2; unfold m4; cbn [set_x y_m y_x xs_prev xs_cu xs_cbus x_cbus x_seq];
          rewrite ?cf_fu, ?cf_l1i, ?cf_dbus, ?cf_dret, ?cf_dpbr, ?cf_bu, ?cf_wbus, ?cf_cu, ?cf_cbus, ?cf_ebus, ?cf_seq; auto.
        + lia.
        + unfold flat. cbn [bb_q bb_buf]. rewrite Hq', Q2. fold lc.
          replace (d + lc + lq)%nat with (d + lp + length pend + length q')%nat by lia. rewrite seq_join. f_equal. f_equal. lia.
        + lia.
        + apply busok_newq; [exact F11|]. pose proof (bus_q _ _ F11) as Hx. unfold qlen, zlen in *. fold lq in Hx. lia.
      - rewrite X1. eapply (IA CoreI_ext); [| | | | | | | | | | | | |exact G1]; reflexivity.
      - unfold PrevB. change (x_prev (y_x m4)) with cur. change (x_ebus (y_x m4)) with (x_ebus (y_x m')). eapply Forall_impl; [|exact G10]. cbn beta. intros o (A & B & _). auto.
      - change (y_m m4) with (y_m m'). rewrite cf_fu, cf_l1i, cf_dbus, cf_wbus, cf_bu, cf_dret, cf_dpbr.
        repeat (split; [reflexivity|]). rewrite X2, X4. split; [exact G3|]. split; [exact G4|]. split; [exact G5|].
        split; [unfold WB; change (y_m m4) with (y_m m'); rewrite cf_wbus; reflexivity|].
        assert (Y1 : zlen (x_cu (y_x m4)) = Z.of_nat (length pend)) by (rewrite X1; reflexivity).
        assert (Y2 : qlen (x_cbus (y_x m4)) = Z.of_nat (length q')) by reflexivity.
        assert (Y3 : zlen (x_cu (y_x m)) = Z.of_nat lc) by reflexivity.
        assert (Y4 : qlen (x_cbus (y_x m)) = Z.of_nat lq) by reflexivity.
        rewrite Y1, Y2, Y3, Y4, G4. split; [lia|]. intros HFL. destruct (Hstrict HFL) as [Hpos|Hemp]; [left; lia | right; exact Hemp]. }
    destruct (cu_pending_ok app labels regs0 mem0 base sq Happ Hreg Hrng Hlen32 Hbase Hsq Hsem pord cy m d (x_cu (y_x m)) HG0 F6 ltac:(fold lc; lia) ltac:(fold lc; fold N; lia) Fb)
      as (os1 & stopped & pend1 & pb1 & sk1 & cur1 & m1 & lp1 & st1 & E1 & G1 & S1 & Hns & Hpb1 & Hfree1).
    rewrite E1. fold lc in S1. destruct stopped.
    - (* stopped inside the pending queue *)
      cbn [snd]. pose proof (cf_xcbus _ _ (cu_frame _ _ _ _ _ _ _ _ _ _ _ _ _ _ G1)) as Ecb.
      assert (Hm4 : set_x m1 (xs_prev (xs_cu (y_x m1) pend1) cur1)
                    = set_x m1 (xs_prev (xs_cu (xs_cbus (y_x m1) (mk_bb (bb_buf (x_cbus (y_x m))) (bb_q (x_cbus (y_x m))) (bb_ql (x_cbus (y_x m))) (bb_bl (x_cbus (y_x m))))) pend1) cur1)).
      { f_equal. f_equal. f_equal. rewrite <- Ecb. destruct (y_x m1) as [a1 a2 a3 a4 a5 cb a7 a8 a9 a10]. destruct cb. reflexivity. }
      exists lp1. cbv zeta. rewrite Hm4.
      apply (Hfin lp1 cur1 st1 pend1 m1 (bb_q (x_cbus (y_x m))) G1); try (fold lq; lia).
      + rewrite Q1 at 1. f_equal. f_equal. lia.
      + intros HFL. destruct (x_cu (y_x m)) as [|r0 t0] eqn:Ecu; [|left; apply Hfree1; [exact HFL | discriminate]].
        (* an empty pending queue does not stop the loop *)
        exfalso. cbn [cu_pending1] in E1. discriminate E1.
    - destruct (Hns eq_refl) as (-> & -> & ->). cbn [length] in S1.
      pose proof (cu_frame _ _ _ _ _ _ _ _ _ _ _ _ _ _ G1) as Fr1.
      rewrite (cf_xcbus _ _ Fr1).
      destruct (cu_incoming_ok app labels regs0 mem0 base sq Happ Hreg Hrng Hlen32 Hbase Hsq Hsem pord cy m d (bb_q (x_cbus (y_x m))) lp1 cur1 m1 pb1 G1
                  ltac:(rewrite Q1 at 1; f_equal; f_equal; lia) ltac:(fold lq; lia) ltac:(fold lq; fold N; lia) Fb Hpb1)
        as (os2 & q' & pend2 & cur2 & m2 & lp2 & st2 & E2 & G2 & A1 & A2 & A3 & A4 & Hfree2).
      rewrite E2. cbn [snd]. exists lp2. cbv zeta.
      rewrite (cf_xcbus _ _ (cu_frame _ _ _ _ _ _ _ _ _ _ _ _ _ _ G2)).
      apply (Hfin lp2 cur2 st2 pend2 m2 q' G2 A2); try (fold lq in A3; lia).
      + exact A4.
      + intros HFL. destruct (x_cu (y_x m)) as [|r0 t0] eqn:Ecu.
        * destruct (bb_q (x_cbus (y_x m))) as [|r1 t1] eqn:Eq; [right; auto|]. left.
          assert (HFL1 : FL1 m1 = []).
          { (* nothing was pushed from an empty pending queue *)
            cbn [cu_pending1] in E1. injection E1 as _ _ _ <-. exact HFL. }
          specialize (Hfree2 HFL1 ltac:(discriminate)). lia.
        * left. specialize (Hfree1 HFL ltac:(discriminate)). lia.
  Qed.
End Step1.
