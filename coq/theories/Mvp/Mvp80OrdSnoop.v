(* Soundness of the ghost flag of the model of MVP-8.0, part 2: the iteration order of the request map of coSnoop
   (map (d) of Mvp80.v): what one call of coSnoop does under two orders, the equivalence msi_equiv of directories, and the
   statement of the full theorem (section 5; proved in Mvp80OrdFinal.v).

   1. snoop_sorted_perm        the list of requests coSnoop iterates over is, under every order function, a
                               permutation of the requests addressed to the core (identities pairwise different)
   2. sn_create_all_perm       iterating over two permutations of the requests fails in both cases or leaves the same
                               directory and the same controller except that the new closures are permuted
   3. snoop_order_clear_perm   the ghost condition (no two requests conflict) does not depend on the order, and
      no_conflict_pairs        when it is clear the closures are pairwise conflict-free (sn_conflict is symmetric)
   4. cmd_done_comm            the completion callbacks of two commands commute up to the order of the list of
                               done identities (msi_equiv: the list is only ever tested for membership) *)
From Coq Require Import ZArith List Bool Lia Permutation.
From Maj Require Import Base.Outcome Base.GoInt Base.GoTypes Isa.Spec Isa.Seq.
From Maj Require Import Gen.Latency Gen.RiscTables Gen.Opcodes Comp.Cache Comp.Rat Comp.RatProofs Mvp.Mvp12 Mvp.Mvp3 Mvp.Mvp5 Mvp.Mvp60 Mvp.Mvp63 Mvp.Mvp80.
Import ListNotations.
Open Scope Z_scope.

(* ------------------------------------------------------------------ *)
(* 1. the iteration of coSnoop is a permutation of the requests         *)
(* ------------------------------------------------------------------ *)

Definition snoop_sorted (order : list Z) (reqs : list (cmdk * Z)) : list (cmdk * Z) :=
  flat_map (fun cid => filter (fun kc => snd kc =? cid) reqs) order.

Lemma filter_snd_notin : forall (reqs : list (cmdk * Z)) (cid : Z),
  ~ In cid (map snd reqs) -> filter (fun kc => snd kc =? cid) reqs = [].
Proof.
  induction reqs as [|[k c] t IH]; intros cid H; [reflexivity|]. cbn [filter snd map] in *.
  destruct (c =? cid) eqn:E.
  - apply Z.eqb_eq in E. subst. exfalso. apply H. left. reflexivity.
  - apply IH. intros C. apply H. right. exact C.
Qed.

Lemma snoop_sorted_id : forall (reqs : list (cmdk * Z)), NoDup (map snd reqs) -> snoop_sorted (map snd reqs) reqs = reqs.
Proof.
  intros reqs. unfold snoop_sorted.
  assert (G : forall (pre l : list (cmdk * Z)), NoDup (map snd (pre ++ l)) ->
              flat_map (fun cid => filter (fun kc => snd kc =? cid) (pre ++ l)) (map snd l) = l).
  { intros pre l. revert pre. induction l as [|[k c] t IH]; intros pre N; [reflexivity|].
    cbn [map snd flat_map].
    assert (F : filter (fun kc => snd kc =? c) (pre ++ (k, c) :: t) = [(k, c)]).
    { rewrite filter_app. cbn [filter snd]. rewrite Z.eqb_refl.
      rewrite map_app in N. cbn [map snd] in N. apply NoDup_remove_2 in N.
      rewrite (filter_snd_notin pre), (filter_snd_notin t); [reflexivity| |];
        intros C; apply N; apply in_or_app; [right|left]; exact C. }
    rewrite F. cbn [app]. f_equal.
    specialize (IH (pre ++ [(k, c)])). rewrite <- app_assoc in IH. cbn [app] in IH. apply IH. exact N. }
  intros N. apply (G [] reqs). exact N.
Qed.

Lemma snoop_sorted_perm_order : forall reqs o1 o2, Permutation o1 o2 -> Permutation (snoop_sorted o1 reqs) (snoop_sorted o2 reqs).
Proof.
  intros reqs o1 o2 P. unfold snoop_sorted. induction P; cbn [flat_map].
  - constructor.
  - apply Permutation_app_head. exact IHP.
  - rewrite !app_assoc. apply Permutation_app_tail. apply Permutation_app_comm.
  - eapply Permutation_trans; eauto.
Qed.

(* the list coSnoop iterates over, whatever the order function *)
Theorem snoop_sorted_perm : forall ord cycle pc reqs, NoDup (map snd reqs) ->
  Permutation (snoop_sorted (map_order ord cycle pc (map snd reqs)) reqs) reqs.
Proof.
  intros ord cycle pc reqs N. unfold map_order.
  eapply Permutation_trans.
  - apply snoop_sorted_perm_order. apply iter_order_perm. exact N.
  - rewrite snoop_sorted_id by exact N. apply Permutation_refl.
Qed.

(* ------------------------------------------------------------------ *)
(* 2. creating the closures in two orders                               *)
(* ------------------------------------------------------------------ *)

(* sn_create: the directory only gets its staleState flag set, the controller only a new closure *)
Definition sn_closure (key : cmdk) (cid : Z) : option snoop_cl :=
  if ck_req key =? rq_l1Evict then Some (SnL1Evict key cid)
  else if ck_req key =? rq_l3Evict then Some (SnL3Evict key cid)
  else if ck_req key =? rq_l1WriteBack then Some (SnL1WriteBack key cid L3Access MemoryAccess L3Access)
  else if ck_req key =? rq_l3WriteBack then Some (SnL3WriteBack key cid MemoryAccess)
  else None.

Definition sn_stales (key : cmdk) : bool := (ck_req key =? rq_l1Evict) || (ck_req key =? rq_l1WriteBack).

(* does the body of the loop of coSnoop accept this request in directory k (no panic)? *)
Definition sn_accepts (k : msi8) (id : Z) (key : cmdk) : bool :=
  if ck_req key =? rq_l1Evict then st_get k id (ck_addr key) =? st_shared
  else if ck_req key =? rq_l3Evict then true
  else if ck_req key =? rq_l1WriteBack then st_get k id (ck_addr key) =? st_modified
  else ck_req key =? rq_l3WriteBack.

Definition set_stale_true (k : msi8) : msi8 := set_states k (k_states k) true.

Lemma set_stale_true_idem : forall k, set_stale_true (set_stale_true k) = set_stale_true k.
Proof. reflexivity. Qed.

Lemma st_get_stale : forall k id a, st_get (set_stale_true k) id a = st_get k id a.
Proof. reflexivity. Qed.

Lemma sn_accepts_stale : forall k id key, sn_accepts (set_stale_true k) id key = sn_accepts k id key.
Proof. reflexivity. Qed.

Lemma sn_create_spec : forall w c key cid,
  sn_create w c key cid =
  if sn_accepts (w_msi w) (c_id c) key then
    match sn_closure key cid with
    | Some cl => Ok (if sn_stales key then set_wmsi w (set_stale_true (w_msi w)) else w, set_snoop c (c_snoop c ++ [cl]))
    | None => Panic
    end
  else Panic.
Proof.
  intros w c key cid. unfold sn_create, sn_accepts, sn_closure, sn_stales, set_stale_true.
  destruct (ck_req key =? rq_l1Evict) eqn:E1.
  - destruct (st_get _ _ _ =? st_shared); reflexivity.
  - destruct (ck_req key =? rq_l3Evict) eqn:E2; [apply Z.eqb_eq in E2; rewrite E2; reflexivity|].
    destruct (ck_req key =? rq_l1WriteBack) eqn:E3.
    + destruct (st_get _ _ _ =? st_modified); reflexivity.
    + destruct (ck_req key =? rq_l3WriteBack) eqn:E4; reflexivity.
Qed.

(* the result of the whole loop in closed form *)
Definition stale_if (b : bool) (w : mw) : mw := if b then set_wmsi w (set_stale_true (w_msi w)) else w.

Definition closures_of (l : list (cmdk * Z)) : list snoop_cl :=
  flat_map (fun kc => match sn_closure (fst kc) (snd kc) with Some cl => [cl] | None => [] end) l.

Definition all_accepted (k : msi8) (id : Z) (l : list (cmdk * Z)) : bool :=
  forallb (fun kc => sn_accepts k id (fst kc) && match sn_closure (fst kc) (snd kc) with Some _ => true | None => false end) l.

Lemma stale_if_msi_accepts : forall b w id key, sn_accepts (w_msi (stale_if b w)) id key = sn_accepts (w_msi w) id key.
Proof. intros [|] w id key; reflexivity. Qed.

Lemma stale_if_or : forall a b w, stale_if a (stale_if b w) = stale_if (b || a) w.
Proof. intros [|] [|] w; reflexivity. Qed.

Lemma all_accepted_stale_if : forall b w id t, all_accepted (w_msi (stale_if b w)) id t = all_accepted (w_msi w) id t.
Proof.
  intros b w id t. unfold all_accepted. induction t as [|kc t' IHt]; [reflexivity|].
  cbn [forallb]. rewrite stale_if_msi_accepts, IHt. reflexivity.
Qed.

Lemma sn_create_all_spec : forall l w c,
  sn_create_all w c l =
  if all_accepted (w_msi w) (c_id c) l
  then Ok (stale_if (existsb (fun kc => sn_stales (fst kc)) l) w, set_snoop c (c_snoop c ++ closures_of l))
  else Panic.
Proof.
  induction l as [|[key cid] t IH]; intros w c.
  - cbn [sn_create_all all_accepted forallb existsb closures_of flat_map stale_if]. rewrite app_nil_r.
    destruct c; reflexivity.
  - cbn [sn_create_all all_accepted forallb existsb closures_of flat_map fst snd].
    rewrite sn_create_spec.
    destruct (sn_accepts (w_msi w) (c_id c) key) eqn:EA; cbn [andb bind]; [|reflexivity].
    destruct (sn_closure key cid) as [cl|] eqn:EC; cbn [bind]; [|reflexivity].
    cbn [fst snd]. rewrite IH. cbn [c_id set_snoop c_snoop].
    fold (stale_if (sn_stales key) w).
    assert (AA : all_accepted (w_msi (stale_if (sn_stales key) w)) (c_id c) t = all_accepted (w_msi w) (c_id c) t).
    { apply all_accepted_stale_if. }
    rewrite AA. fold (all_accepted (w_msi w) (c_id c) t).
    destruct (all_accepted (w_msi w) (c_id c) t); [|reflexivity].
    rewrite stale_if_or. rewrite <- app_assoc. reflexivity.
Qed.

Lemma forallb_perm : forall A (f : A -> bool) l1 l2, Permutation l1 l2 -> forallb f l1 = forallb f l2.
Proof.
  intros A f l1 l2 P. induction P; cbn [forallb]; try congruence.
  - destruct (f x), (f y); reflexivity.
Qed.

Lemma existsb_perm : forall A (f : A -> bool) l1 l2, Permutation l1 l2 -> existsb f l1 = existsb f l2.
Proof.
  intros A f l1 l2 P. induction P; cbn [existsb]; try congruence.
  - destruct (f x), (f y); reflexivity.
Qed.

Lemma closures_of_perm : forall l1 l2, Permutation l1 l2 -> Permutation (closures_of l1) (closures_of l2).
Proof.
  intros l1 l2 P. unfold closures_of. induction P; cbn [flat_map].
  - constructor.
  - apply Permutation_app_head. exact IHP.
  - rewrite !app_assoc. apply Permutation_app_tail. apply Permutation_app_comm.
  - eapply Permutation_trans; eauto.
Qed.

(* two controllers that only differ by a permutation of their snoop closures *)
Definition cc_perm (c1 c2 : cc8) : Prop :=
  c_id c1 = c_id c2 /\ c_l1d c1 = c_l1d c2 /\ c_read c1 = c_read c2 /\ c_write c1 = c_write c2 /\
  Permutation (c_snoop c1) (c_snoop c2) /\ c_rsems c1 = c_rsems c2 /\ c_wsems c1 = c_wsems c2 /\ c_post c1 = c_post c2.

(* iterating over two permutations of the requests: both panic, or the same directory and controllers that differ
   by the order of the new closures *)
Theorem sn_create_all_perm : forall l1 l2 w c, Permutation l1 l2 ->
  match sn_create_all w c l1, sn_create_all w c l2 with
  | Ok (w1, c1), Ok (w2, c2) => w1 = w2 /\ cc_perm c1 c2
  | Panic, Panic => True
  | _, _ => False
  end.
Proof.
  intros l1 l2 w c P. rewrite !sn_create_all_spec.
  unfold all_accepted. rewrite (forallb_perm _ _ l1 l2 P).
  destruct (forallb _ l2); [|exact I].
  rewrite (existsb_perm _ _ l1 l2 P). split; [reflexivity|].
  unfold cc_perm. cbn [c_id c_l1d c_read c_write c_snoop c_rsems c_wsems c_post set_snoop].
  repeat split; try reflexivity.
  apply Permutation_app_head. apply closures_of_perm. exact P.
Qed.

(* ------------------------------------------------------------------ *)
(* 3. the ghost condition                                               *)
(* ------------------------------------------------------------------ *)

Lemma sn_conflict_sym : forall a b, sn_conflict a b = sn_conflict b a.
Proof.
  intros a b. unfold sn_conflict.
  rewrite (orb_comm (ck_req a =? rq_l1Evict)).
  destruct ((ck_req b =? rq_l1Evict) || (ck_req a =? rq_l1Evict)); [reflexivity|].
  rewrite (andb_comm (ck_req a =? rq_l1WriteBack)).
  rewrite (Z.eqb_sym (l3_align (ck_addr a))). reflexivity.
Qed.

(* no two requests of the list conflict *)
Definition no_conflict_pairs (l : list cmdk) : Prop := ForallOrdPairs (fun a b => sn_conflict a b = false) l.

Lemma snoop_order_matters_pairs : forall l, snoop_order_matters l = false <-> no_conflict_pairs l.
Proof.
  induction l as [|a t IH]; cbn [snoop_order_matters].
  - split; [constructor | reflexivity].
  - rewrite orb_false_iff, IH. split.
    + intros [H1 H2]. constructor; [|exact H2].
      apply Forall_forall. intros b Hb.
      destruct (sn_conflict a b) eqn:E; [|reflexivity].
      assert (existsb (sn_conflict a) t = true) by (apply existsb_exists; exists b; auto). congruence.
    + intros H. inversion H as [|? ? H1 H2]; subst. split; [|exact H2].
      destruct (existsb (sn_conflict a) t) eqn:E; [|reflexivity].
      apply existsb_exists in E. destruct E as [b [Hb Hc]].
      rewrite Forall_forall in H1. rewrite (H1 b Hb) in Hc. discriminate.
Qed.

Lemma no_conflict_pairs_perm : forall l1 l2, Permutation l1 l2 -> no_conflict_pairs l1 -> no_conflict_pairs l2.
Proof.
  intros l1 l2 P. unfold no_conflict_pairs. induction P; intros H.
  - constructor.
  - inversion H as [|? ? H1 H2]; subst. constructor; [|apply IHP; exact H2].
    eapply Permutation_Forall; eauto.
  - inversion H as [|? ? H1 H2]; subst. inversion H2 as [|? ? H3 H4]; subst.
    inversion H1 as [|? ? H5 H6]; subst.
    constructor; [constructor; [rewrite sn_conflict_sym; exact H5 | exact H3]|].
    constructor; [exact H6 | exact H4].
  - auto.
Qed.

(* the ghost condition of a coSnoop call is a property of the SET of requests *)
Theorem snoop_order_clear_perm : forall l1 l2, Permutation l1 l2 ->
  snoop_order_matters l1 = false -> snoop_order_matters l2 = false.
Proof.
  intros l1 l2 P H. apply snoop_order_matters_pairs. apply (no_conflict_pairs_perm l1 l2 P).
  apply snoop_order_matters_pairs. exact H.
Qed.

(* ------------------------------------------------------------------ *)
(* 4. completion callbacks commute up to the order of the done list     *)
(* ------------------------------------------------------------------ *)

(* two directories that only differ in the representation of three lists that the model uses as a set (k_done, tested
   with memZ in cmd_isdone) or as maps (k_l3lock, k_l3write, read with aget) *)
Definition msi_equiv (k1 k2 : msi8) : Prop :=
  k_sems k1 = k_sems k2 /\ k_states k1 = k_states k2 /\ k_stale k1 = k_stale k2 /\ k_cmds k1 = k_cmds k2 /\
  k_next k1 = k_next k2 /\
  (forall cid, memZ cid (k_done k1) = memZ cid (k_done k2)) /\
  (forall a, aget a (k_l3lock k1) = aget a (k_l3lock k2)) /\
  (forall a, aget a (k_l3write k1) = aget a (k_l3write k2)).

Lemma msi_equiv_refl : forall k, msi_equiv k k.
Proof. intros k. unfold msi_equiv. repeat split; reflexivity. Qed.

Lemma msi_equiv_sym : forall k1 k2, msi_equiv k1 k2 -> msi_equiv k2 k1.
Proof. intros k1 k2 (A & B & C & D & E & F & G & H). unfold msi_equiv. repeat split; auto. Qed.

Lemma msi_equiv_trans : forall k1 k2 k3, msi_equiv k1 k2 -> msi_equiv k2 k3 -> msi_equiv k1 k3.
Proof.
  intros k1 k2 k3 (A & B & C & D & E & F & G & H) (A' & B' & C' & D' & E' & F' & G' & H').
  unfold msi_equiv. split; [congruence|]. split; [congruence|]. split; [congruence|]. split; [congruence|]. split; [congruence|].
  split; [intros; rewrite F; auto|]. split; [intros; rewrite G; auto | intros; rewrite H; auto].
Qed.

(* what the model observes of a directory is invariant *)
Lemma cmd_isdone_equiv : forall k1 k2 cid, msi_equiv k1 k2 -> cmd_isdone k1 cid = cmd_isdone k2 cid.
Proof. intros k1 k2 cid (_ & _ & _ & _ & _ & F & _ & _). apply F. Qed.

Lemma l3_locked_equiv : forall k1 k2 a, msi_equiv k1 k2 -> l3_locked k1 a = l3_locked k2 a.
Proof. intros k1 k2 a (_ & _ & _ & _ & _ & _ & G & _). unfold l3_locked. rewrite G. reflexivity. Qed.

Lemma st_get_equiv : forall k1 k2 id a, msi_equiv k1 k2 -> st_get k1 id a = st_get k2 id a.
Proof. intros k1 k2 id a (_ & B & _). unfold st_get. rewrite B. reflexivity. Qed.

Lemma sem_get_equiv : forall k1 k2 a, msi_equiv k1 k2 -> sem_get k1 a = sem_get k2 a.
Proof. intros k1 k2 a (A & _). unfold sem_get. rewrite A. reflexivity. Qed.

Lemma zz_eqb_eq : forall a b, zz_eqb a b = true <-> a = b.
Proof.
  intros [a1 a2] [b1 b2]. unfold zz_eqb. cbn [fst snd]. rewrite andb_true_iff, !Z.eqb_eq.
  split; [intros [-> ->]; reflexivity | intros E; inversion E; auto].
Qed.

Lemma zz_eqb_false : forall a b, zz_eqb a b = false <-> a <> b.
Proof.
  intros a b. split.
  - intros H E. apply zz_eqb_eq in E. congruence.
  - intros H. destruct (zz_eqb a b) eqn:E; [|reflexivity]. apply zz_eqb_eq in E. contradiction.
Qed.

(* setting two entries that exist (the lines of two snoop commands: states[..] = invalid) commutes; an entry that
   does not exist would be appended, and the order of k_states is the order in which msi_requests creates commands *)
Lemma pset_zz_comm : forall (m : list ((Z * Z) * Z)) k1 k2 v,
  pget zz_eqb k1 m <> None -> pget zz_eqb k2 m <> None ->
  pset zz_eqb k1 v (pset zz_eqb k2 v m) = pset zz_eqb k2 v (pset zz_eqb k1 v m).
Proof.
  induction m as [|[k' v'] t IH]; intros k1 k2 v P1 P2; [exfalso; apply P1; reflexivity|].
  cbn [pget pset] in *.
  destruct (zz_eqb k1 k') eqn:E1, (zz_eqb k2 k') eqn:E2; cbn [pset].
  - apply zz_eqb_eq in E1. apply zz_eqb_eq in E2. subst.
    assert (R : zz_eqb k' k' = true) by (apply zz_eqb_eq; reflexivity). rewrite R. reflexivity.
  - rewrite E1. apply zz_eqb_eq in E1. subst k'.
    rewrite E2. reflexivity.
  - rewrite E2. apply zz_eqb_eq in E2. subst k'.
    rewrite E1. reflexivity.
  - rewrite E1, E2. f_equal. apply IH; assumption.
Qed.

Lemma pdel_comm : forall (m : list (cmdk * Z)) a b, pdel ck_eqb a (pdel ck_eqb b m) = pdel ck_eqb b (pdel ck_eqb a m).
Proof.
  intros m a b. unfold pdel. induction m as [|x t IH]; [reflexivity|]. cbn [filter].
  destruct (negb (ck_eqb b (fst x))) eqn:Eb, (negb (ck_eqb a (fst x))) eqn:Ea; cbn [filter]; rewrite ?Ea, ?Eb, IH; reflexivity.
Qed.

Lemma memZ_app : forall x l1 l2, memZ x (l1 ++ l2) = memZ x l1 || memZ x l2.
Proof. intros. unfold memZ. apply existsb_app. Qed.

Definition is_l1_req (key : cmdk) : bool := (ck_req key =? rq_l1Evict) || (ck_req key =? rq_l1WriteBack).

(* msiCommandInfo.done() of two commands in both orders: the same directory up to the order of k_done, provided the
   MSI entries of the L1 commands exist (sn_create checks that they are shared / modified, and entries are never deleted) *)
Theorem cmd_done_comm : forall k key1 cid1 key2 cid2,
  (is_l1_req key1 = true -> pget zz_eqb (ck_id key1, ck_addr key1) (k_states k) <> None) ->
  (is_l1_req key2 = true -> pget zz_eqb (ck_id key2, ck_addr key2) (k_states k) <> None) ->
  msi_equiv (cmd_done (cmd_done k key1 cid1) key2 cid2) (cmd_done (cmd_done k key2 cid2) key1 cid1).
Proof.
  intros k key1 cid1 key2 cid2 P1 P2. unfold cmd_done. fold (is_l1_req key1). fold (is_l1_req key2).
  destruct (is_l1_req key1) eqn:L1, (is_l1_req key2) eqn:L2;
    cbn [set_states set_cmds k_sems k_states k_stale k_cmds k_done k_next k_l3lock k_l3write];
    rewrite ?L1, ?L2;
    unfold msi_equiv; cbn [set_states set_cmds k_sems k_states k_stale k_cmds k_done k_next k_l3lock k_l3write];
    repeat split; try reflexivity; try apply pdel_comm;
    try (intros cid; rewrite !memZ_app; unfold memZ; cbn [existsb];
         destruct (existsb (Z.eqb cid) (k_done k)), (cid =? cid1), (cid =? cid2); reflexivity).
  apply pset_zz_comm; auto.
Qed.

(* ------------------------------------------------------------------ *)
(* 5. the statement for the order of map (d)                            *)
(* ------------------------------------------------------------------ *)

(* The ghost flag of the model is sound for order functions that agree on the RAT value maps only.  This definition
   is the statement; it is PROVED as mvp80_ord_irrelevant_snoop in Mvp80OrdFinal.v (mvp80_snoop_statement_holds). *)
Definition mvp80_ord_irrelevant_snoop_statement : Prop :=
  forall par fuel app labels st ord1 ord2 r,
  (forall cycle keys, ord1 cycle (-1) keys = ord2 cycle (-1) keys /\ ord1 cycle (-2) keys = ord2 cycle (-2) keys) ->
  mvp80_run_os par ord1 fuel app labels st = (r, false) ->
  mvp80_run_os par ord2 fuel app labels st = (r, false).

(* Beyond sections 1-4 its proof uses:
   (i)   the invariants of a run from init8 (Mvp80OrdInvDefs.v, Mvp80OrdInv.v): the identities in k_cmds are pairwise
         different and below k_next, its keys pairwise different; the lines of the L1s / of the L3 are aligned, of
         full length and at non-negative addresses, the addresses of the commands are aligned (so that the cache
         operations of closures on different lines commute: find_line takes the FIRST covering line); the MSI
         entry of every L1 closure of a snoop list exists (hypotheses of cmd_done_comm);
   (ii)  the commutation of two conflict-free closures of one snoop list (sn_step twice in both orders) up to
         msi_equiv, for the pairs sn_conflict lets through (Mvp80OrdSwapA-D.v), hence sn_run on a permuted list
         (Mvp80OrdComm.v);
   (iii) the congruence of every function of the memory system and of the pipeline for msi_equiv (Mvp80OrdCong.v)
         and cc_perm (Mvp80OrdPerm.v): nothing reads k_done, k_l3lock, k_l3write or the order of c_snoop except
         through memZ, aget, sn_run and cc_snoop_isstart. *)

Print Assumptions snoop_sorted_perm.
Print Assumptions sn_create_all_perm.
Print Assumptions snoop_order_clear_perm.
Print Assumptions cmd_done_comm.
