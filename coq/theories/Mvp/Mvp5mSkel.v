(* The skeleton of MVP-5 for programs WITH loads and stores whose stores hit in the
   L1D: Mvp4mSkel.v (events, stores_hit, the value-free execute unit skm_eu) plus the
   MVP-5 front end of Mvp5Skel.v (clean flag of the fetch unit, decode stall, BTB). *)
From Coq Require Import ZArith List Bool Lia.
From Maj Require Import Base.Outcome Base.GoInt Base.GoTypes Isa.Spec Isa.Seq Isa.Refine.
From Maj Require Import Gen.Latency Gen.RiscTables Gen.Opcodes Comp.Cache.
From Maj Require Import Mvp.Mvp12 Mvp.Mvp3 Mvp.Mvp3Proofs Mvp.Mvp4 Mvp.Mvp5 Mvp.Mvp4Skel Mvp.Mvp4Inv Mvp.Mvp4mSkel Mvp.Mvp5Skel.
Import ListNotations.
Open Scope Z_scope.

Record skm5 := mk_skm5 { n_fu : fu5_t; n_du : bool; n_l1i : cache; n_dbus : sbus Z; n_ebus : sbus (instr * Z);
                         n_eu : eu_t; n_pw : list Z; n_wb : option (list Z); n_dt : list Z; n_btb : list (Z * Z) }.

(* the instruction for which the branch unit's assert is called this cycle: none
   while the data phase of a load is in progress *)
Definition issue_m (e : eu_t) (ebus : sbus (instr * Z)) : option (instr * Z) :=
  if eu_pending_read e then None else eu_issue e ebus.

Definition skm5_complete (a : skm5) : bool :=
  f5_complete (n_fu a) && negb (eu_processing (n_eu a)) &&
  sbus_is_empty (n_dbus a) && sbus_is_empty (n_ebus a) &&
  match n_wb a with None => true | Some _ => false end.

Inductive skm5_res :=
| M5Step (a : skm5) (path : list event) (dc : Z)
| M5Fin (dc : Z) (dt : list Z)       (* the run ends; dt: the L1D lines the final flush writes back *)
| M5Stuck.

Definition hla (path : list event) : list Z := match path with ev :: _ => ev_la ev | [] => [] end.

(* the skeleton once the execute unit has executed (i, pc); fuA: the fetch unit after
   the branch unit's assert *)
Definition skm5_exec (a : skm5) (fuA : fu5_t) (du1 : bool) (l1i1 : cache) (dbus2 : sbus Z) (ebus2 : sbus (instr * Z))
           (e1 : eu_t) (dt1 : list Z) (i : instr) (pc : Z) (path : list event) : skm5_res :=
  match path with
  | [] => M5Stuck
  | ev :: rest =>
      if negb (ev_pc ev =? pc) then M5Stuck
      else if is_ret i then match rest with [] => M5Fin 1 dt1 | _ :: _ => M5Stuck end
      else match rest with
           | [] => M5Stuck
           | nxt :: _ =>
               match ev_sa ev with
               | _ :: _ =>
                   (* a store: it must hit; it does not go through the write bus *)
                   if snd (a_get_all dt1 (ev_sa ev)) && (ev_pc nxt =? addS 32 pc 4) then
                     M5Step (mk_skm5 fuA du1 l1i1 dbus2 ebus2 e1 (wdel (n_pw a) (n_wb a)) None
                                     (fst (a_get_all dt1 (ev_sa ev))) (n_btb a)) rest 1
                   else M5Stuck
               | [] =>
                   let wr := instr_WriteRegisters i in
                   let next := ev_pc nxt in
                   let fuR := if uncond i then fu5_reset fuA next else fuA in
                   let duR := if uncond i then false else du1 in
                   let btb' := if uncond i then btb_add (n_btb a) pc next else n_btb a in
                   if sk5_flush (n_btb a) i pc next then
                     M5Step (mk_skm5 (mk_fu5 next (f5_remaining fuR) false false (f5_clean fuR)) false l1i1
                                     sbus_empty sbus_empty (eu_flushed e1) zero_pw None dt1 btb') rest 2
                   else
                     M5Step (mk_skm5 fuR duR l1i1 dbus2 ebus2 e1 (wdel (pw_add (n_pw a) wr) (n_wb a)) (Some wr) dt1 btb') rest 1
               end
           end
  end.

(* one iteration of the Run loop, before the test "is the pipeline empty" *)
Definition skm5_pre (app : list instr) (a : skm5) (path : list event) : skm5_res :=
  match fu5_cycle app (n_fu a) (n_l1i a) (n_dbus a) with
  | Ok (fu1, l1i1, dbus1) =>
      match du5_cycle app (n_du a) dbus1 (n_ebus a) with
      | Ok (du1, dbus2, ebus1) =>
          let '(e1, ebus2, dt1, act) := skm_eu (n_eu a) ebus1 (n_pw a) (n_dt a) (hla path) in
          let fuA := sk5_assert fu1 (n_btb a) (issue_m (n_eu a) ebus1) in
          match act with
          | AStuck => M5Stuck
          | ANone =>
              M5Step (mk_skm5 fuA du1 l1i1 dbus2 ebus2 e1 (wdel (n_pw a) (n_wb a)) None dt1 (n_btb a)) path 1
          | AExec i pc => skm5_exec a fuA du1 l1i1 dbus2 ebus2 e1 dt1 i pc path
          end
      | _ => M5Stuck
      end
  | _ => M5Stuck
  end.

(* m.isComplete(): after a cycle without ret and without flush *)
Definition skm5_cycle (app : list instr) (a : skm5) (path : list event) : skm5_res :=
  match skm5_pre app a path with
  | M5Step a2 p dc => if skm5_complete a2 then M5Fin dc (n_dt a2) else M5Step a2 p dc
  | r => r
  end.

Fixpoint skm5_run (fuel : nat) (app : list instr) (a : skm5) (path : list event) (cycle : Z) : option Z :=
  match fuel with
  | O => None
  | S f =>
      match skm5_cycle app a path with
      | M5Step a' path' dc => skm5_run f app a' path' (cycle + dc)
      | M5Fin dc dt => Some (cycle + dc + MemoryAccess * zlen dt)
      | M5Stuck => None
      end
  end.

Definition skm5_init (ci : cache) : skm5 :=
  mk_skm5 (mk_fu5 0 0 false false false) false ci sbus_empty sbus_empty (mk_eu false false [] None 0 None) zero_pw None [] [].

(* the cycle count of MVP-5 as a function of the program and the events only *)
Definition mvp5_cost_mem (fuel : nat) (app : list instr) (evs : list event) : option Z :=
  match new_cache l1LineSize l1Size with
  | Ok ci => skm5_run fuel app (skm5_init ci) evs 0
  | _ => None
  end.
