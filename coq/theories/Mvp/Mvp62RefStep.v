(* Refinement of MVP-6.2 to the sequential machine on register-only programs - part 4: one tick of Run.
   A state of Mvp62.v related (RS) to a state of Mvp61.v that satisfies the invariant of the proof of
   MVP-6.1 (GI1 / GR1 / GF1 of Mvp61RefStep2.v, Mvp61RefStep3.v) makes the same step: same mode, same
   cycle counter, related machines.  The invariant on the transaction map: in the main loop every
   entry is older than the oldest instruction that has not executed (TxB (sid x)); in the flush
   loops older than or equal to the flushing branch. *)
From Coq Require Import ZArith List Bool Lia Permutation.
From Maj Require Import Base.Outcome Base.GoInt Base.GoTypes Isa.Spec Isa.Embed Isa.Seq Isa.Refine.
From Maj Require Import Gen.Latency Gen.RiscTables Gen.Opcodes Comp.Cache Comp.Rat Comp.RatProofs Comp.Tx Comp.TxProofs.
From Maj Require Import Mvp.Mvp12 Mvp.Mvp12Proofs Mvp.Mvp3 Mvp.Mvp3Proofs Mvp.Mvp4Skel Mvp.Mvp4Inv Mvp.Mvp4Sim Mvp.Mvp5 Mvp.Mvp60 Mvp.Mvp61
     Mvp.Mvp60RefSem Mvp.Mvp60RefDefs Mvp.Mvp60RefFront Mvp.Mvp60RefBack Mvp.Mvp60RefStep Mvp.Mvp60RefStep2
     Mvp.Mvp61RefSem Mvp.Mvp61RefFront Mvp.Mvp61RefBack Mvp.Mvp61RefInv Mvp.Mvp61RefCu Mvp.Mvp61RefExec Mvp.Mvp61RefExec2
     Mvp.Mvp61RefStep Mvp.Mvp61RefStep2 Mvp.Mvp61RefStep3.
From Maj Require Import Mvp.Mvp62 Mvp.Mvp62RefRel Mvp.Mvp62RefFront Mvp.Mvp62RefExec.
Import ListNotations.
Open Scope Z_scope.

(* the loops of Run *)
Definition ModeR (o2 : mode62) (o1 : mode1) : Prop :=
  match o2, o1 with
  | Mvp62.NNormal, Mvp61.NNormal => True
  | Mvp62.NRet, Mvp61.NRet => True
  | NFlushE sq pc fromc, NFlushO fromc1 sq1 pc1 => sq = sq1 /\ pc = pc1 /\ fromc = fromc1
  | Mvp62.NFlushW k sq pc fromc ie, Mvp61.NFlushW k1 ie1 fromc1 sq1 pc1 => k = k1 /\ sq = sq1 /\ pc = pc1 /\ fromc = fromc1 /\ ie = ie1
  | _, _ => False
  end.

Record RS (nap : nat) (sg : Z -> Z) (s2 : st62) (s1 : st1) : Prop := mkRS {
  rs_m : RM nap sg (Mvp62.t_m s2) (Mvp61.t_m s1);
  rs_prev : PrevOK sg (Mvp62.t_m s2) (x_nch (y_x (Mvp61.t_m s1)));
  rs_eus : Forall2 REi (Mvp62.t_eus s2) (Mvp61.t_eus s1);
  rs_wus : Mvp62.t_wus s2 = Mvp61.t_wus s1;
  rs_cyc : Mvp62.t_cycle s2 = Mvp61.t_cycle s1;
  rs_mode : ModeR (Mvp62.t_mode s2) (Mvp61.t_mode s1) }.

(* the results of a step *)
Definition StepR (nap : nat) (b : Z) (r2 : step_res62) (r1 : step_res1) : Prop :=
  match r1 with
  | Mvp61.TDone r _ => forall cf st, r = MDone cf st -> exists os2, r2 = Mvp62.TDone r os2
  | Mvp61.TCont s1' => exists sg' s2', r2 = Mvp62.TCont s2' /\ RS nap sg' s2' s1' /\ TxB (n_ctx (Mvp62.t_m s2')) b
  end.

Lemma idle_empty eus2 eus1 : Forall2 REi eus2 eus1 -> forallb eu_empty62 eus2 = true /\ forallb eu_empty1 eus1 = true.
Proof.
  induction 1 as [|e2 e1 t2 t1 [H1 H2 H3 H4 H5] _ [IH1 IH2]]; [split; reflexivity|]. cbn [forallb].
  unfold eu_empty62 at 1, eu_empty1 at 1, eu_empty. rewrite H1, H2, IH1, IH2. split; reflexivity.
Qed.

Lemma finish_sim nap sg m2 m1 cy : RM nap sg m2 m1 -> finish62 m2 cy = finish6 (y_m m1) cy.
Proof.
  intros HR. unfold finish62, finish6. rewrite (rm_l3 _ _ _ _ HR), (rm_mem _ _ _ _ HR).
  destruct (flush_lines _ _ 0) as [[mem' c]| |]; try reflexivity. rewrite (regs_of_commit _ _ (rm_vw _ _ _ _ HR)). reflexivity.
Qed.

Lemma NoDup_app_disj {A} (l l' : list A) : NoDup (l ++ l') -> forall x, In x l -> In x l' -> False.
Proof.
  induction l as [|a l IH]; intros H x Hx Hx'; [destruct Hx|]. cbn in H. inversion H as [|? ? Hn Hd]; subst.
  destruct Hx as [->|Hx]; [apply Hn; apply in_or_app; right; exact Hx' | exact (IH Hd x Hx Hx')].
Qed.

Lemma F2_in {A B} (P : A -> B -> Prop) l2 l1 a : Forall2 P l2 l1 -> In a l2 -> exists b, In b l1 /\ P a b.
Proof. induction 1 as [|x y t2 t1 Hp _ IH]; intros Hin; [destruct Hin|]. destruct Hin as [<-|Hin]; [exists y; split; [left; reflexivity | exact Hp]|]. destruct (IH Hin) as (b & Hb & Hpb). exists b. split; [right; exact Hb | exact Hpb]. Qed.

Section Step62.
  Variables (app : list instr) (labels : Z -> option Z) (regs0 mem0 : list Z) (base : nat) (sq : Z) (off : Z).
  Hypothesis Happ : wf_app app.
  Hypothesis Hreg : reg_only app = true.
  Hypothesis Hrng : regs_in_range app = true.
  Hypothesis Hlen32 : length regs0 = 32%nat.
  Hypothesis Hbase : (base <= length app)%nat.
  Let n := length app.
  Let N := stop_from app base.
  Hypothesis Hsq : 0 <= sq /\ 1000 * sq + 4 * Z.of_nat n < 2147483648.

  Notation sreg := (sreg app labels regs0 base).
  Notation eff := (eff app labels regs0 base).
  Notation ik := (ik app).
  Notation rnq := (rnq app sq).
  Notation sid := (sid sq).
  Notation wbq := (wbq app labels regs0 base sq).
  Notation bresp := (bresp app labels regs0 base sq).
  Notation GI1 := (GI1 app labels regs0 mem0 base sq off).
  Notation GR1 := (GR1 app labels regs0 mem0 base sq off).
  Notation GF1 := (GF1 app labels regs0 mem0 base sq).
  Notation Fin1 := (Fin1 app labels regs0 mem0 base sq off).
  Notation CoreI := (CoreI app labels regs0 mem0 base sq).
  Notation FrontI1 := (FrontI1 app base sq).
  Notation WbOK1 := (WbOK1 app labels regs0 base sq).

  Hypothesis Hsem : forall k, (base <= k <= N)%nat -> (k < n)%nat ->
    exec (sinstr_of (ik k)) (rget (sreg k)) labels (pcz k) [] = Ok (eff k) /\
    (forall a, etarget (eff k) = Some a -> exists t, a = pcz t /\ (k < t <= n)%nat).
  Hypothesis Hr32 : Forall int32 regs0.

  Set Default Proof Using "All".
  Notation "'IA' L" := (L app labels regs0 mem0 base sq Happ Hreg Hrng Hlen32 Hbase Hsq Hsem) (at level 10, L at level 9, only parsing).
  Notation "'IE' L" := (L app labels regs0 mem0 base sq Happ Hreg Hrng Hlen32 Hbase Hsq Hsem Hr32) (at level 10, L at level 9, only parsing).
  Notation "'IS' L" := (L app labels regs0 mem0 base sq off Happ Hreg Hrng Hlen32 Hbase Hsq Hsem Hr32) (at level 10, L at level 9, only parsing).

  Notation RS := (RS n).
  Notation StepR := (StepR n).

  (* the indices of the invariant of the main loop are determined by the state *)
  Lemma FrontI1_unique d c f cy m d' c' f' cy' : FrontI1 d c f cy m -> FrontI1 d' c' f' cy' m -> d = d'.
  Proof.
    intros H H'. pose proof (fi_pc _ _ _ _ (f1_fetch _ _ _ _ _ _ _ _ H)) as P. pose proof (fi_pc _ _ _ _ (f1_fetch _ _ _ _ _ _ _ _ H')) as P'.
    assert (Ef : f = f') by (unfold pcz in *; lia). subst f'.
    pose proof (f1_dbus _ _ _ _ _ _ _ _ H) as D. pose proof (f1_dbus _ _ _ _ _ _ _ _ H') as D'.
    pose proof (f1_cf _ _ _ _ _ _ _ _ H). pose proof (f1_cf _ _ _ _ _ _ _ _ H').
    assert (Ec : c = c'). { apply (f_equal (@length Z)) in D, D'. rewrite map_length, seq_length in D, D'. lia. } subst c'.
    pose proof (f1_cb _ _ _ _ _ _ _ _ H) as B. pose proof (f1_cb _ _ _ _ _ _ _ _ H') as B'.
    pose proof (f1_dc _ _ _ _ _ _ _ _ H). pose proof (f1_dc _ _ _ _ _ _ _ _ H').
    apply (f_equal (@length runner1)) in B, B'. rewrite map_length, seq_length in B, B'. lia.
  Qed.

  Lemma GI1_x d c f x s dd cc ff xx : GI1 d c f x s -> FrontI1 dd cc ff (Mvp61.t_cycle s) (Mvp61.t_m s) ->
    map r_b (EB (Mvp61.t_m s)) = map rnq (seq xx (dd - xx)) -> (xx <= dd)%nat -> x = xx.
  Proof.
    intros HG HF HE Hx. pose proof (FrontI1_unique _ _ _ _ _ _ _ _ _ (g1_front _ _ _ _ _ _ _ _ _ _ _ _ HG) HF) as <-.
    pose proof (g1_ti _ _ _ _ _ _ _ _ _ _ _ _ HG) as HT. pose proof (t1_ebus _ _ _ _ _ _ _ _ _ _ HT) as E1. pose proof (t1_xd _ _ _ _ _ _ _ _ _ _ HT) as X1.
    rewrite HE in E1. apply (f_equal (@length runner)) in E1. rewrite !map_length, !seq_length in E1. lia.
  Qed.

  (* what waits in the write bus *)
  Lemma wbok_fine dd wx : WbOK1 dd wx -> WbFine wx /\ exists k, wx = wbq k /\ (k < dd)%nat.
  Proof.
    intros (k & Hkd & HkN & Hkn & Hnr & ->). split; [|exists k; split; [reflexivity | lia]].
    unfold WbFine. cbn [Mvp61RefInv.wbq w_exe]. destruct (Hsem k ltac:(lia) Hkn) as [He _].
    pose proof (spec_writes_sound _ _ _ _ _ _ He) as Hws. rewrite <- write_registers_exact in Hws.
    intros Hrc. split; [|apply zero_register_write].
    destruct (eff k) as [rd v| | | |rd v a|]; cbn [embed RegisterChange] in Hrc |- *; try discriminate Hrc.
    - pose proof ((IA ik_write_ok) k rd ltac:(rewrite Hws; left; reflexivity)) as Hok. unfold reg_ok in Hok. apply andb_prop in Hok as [A B].
      apply Z.leb_le in A. apply Z.ltb_lt in B. unfold reg_pair. destruct (rd =? 0); cbn [Register]; lia.
    - pose proof ((IA ik_write_ok) k rd ltac:(rewrite Hws; left; reflexivity)) as Hok. unfold reg_ok in Hok. apply andb_prop in Hok as [A B].
      apply Z.leb_le in A. apply Z.ltb_lt in B. unfold reg_pair. destruct (rd =? 0); cbn [Register]; lia.
  Qed.

  Lemma wb_old d c f x s wx : GI1 d c f x s -> In wx (WB (Mvp61.t_m s)) -> WbFine wx /\ w_seq wx < sid x.
  Proof.
    intros HG Hin. pose proof (g1_core _ _ _ _ _ _ _ _ _ _ _ _ HG) as HC. pose proof (g1_ti _ _ _ _ _ _ _ _ _ _ _ _ HG) as HT.
    pose proof (c_w _ _ _ _ _ _ _ _ _ HC) as Hw. rewrite Forall_forall in Hw. destruct (wbok_fine d wx (Hw wx Hin)) as [Hf (k & -> & Hk)].
    split; [exact Hf|]. cbn [Mvp61RefInv.wbq w_seq]. apply (IS sid_lt).
    destruct (c_sem _ _ _ _ _ _ _ _ _ HC) as (fs & HB & _). pose proof (bf_nodup _ _ _ _ _ _ _ _ _ _ HB) as Hnd. unfold Mvp61RefInv.FL1 in Hnd.
    rewrite ((IS kr1_of_rb) _ _ _ (t1_ebus _ _ _ _ _ _ _ _ _ _ HT)) in Hnd.
    destruct (Nat.lt_ge_cases k x) as [Hlt|Hge]; [exact Hlt|]. exfalso.
    apply (NoDup_app_disj _ _ Hnd k).
    - apply in_seq. pose proof (t1_xd _ _ _ _ _ _ _ _ _ _ HT). lia.
    - apply in_map_iff. exists (wbq k). split; [apply (IA kw1_wbq) | exact Hin].
  Qed.

  (* the responses of the units that ran *)
  Lemma merge_from x0 : forall ks acc, (forall k, In k ks -> (x0 <= k)%nat) -> (o_flush acc = true -> sid x0 <= o_from acc) ->
    o_flush (fold_left merge1 (map bresp ks) acc) = true -> sid x0 <= o_from (fold_left merge1 (map bresp ks) acc).
  Proof.
    induction ks as [|k t IH]; intros acc Hk Ha; cbn [map fold_left]; [exact Ha|].
    apply IH; [intros k' Hk'; apply Hk; right; exact Hk'|].
    unfold merge1. cbn [o_flush o_from]. intros Hfl.
    destruct (Mvp61.p_flush (bresp k)) eqn:Ep; cbn [andb].
    - destruct (negb (o_flush acc) || (Mvp61.p_seq (bresp k) <? o_from acc)) eqn:Et.
      + destruct ((IS bresp_cases) k) as [E|[[_ E]|(a & E & _)]]; rewrite E in Ep |- *; try discriminate Ep. cbn [Mvp61.p_seq].
        apply (IS sid_le). apply Hk. left. reflexivity.
      + apply orb_false_elim in Et as [Et _]. apply negb_false_iff in Et. apply Ha. exact Et.
    - rewrite orb_false_r in Hfl. apply Ha. exact Hfl.
  Qed.

  Lemma merge_nofl : forall ks acc, o_flush (fold_left merge1 (map bresp ks) acc) = false ->
    o_flush acc = false /\ forall k, In k ks -> Mvp61.p_flush (bresp k) = false.
  Proof.
    induction ks as [|k t IH]; intros acc H; cbn [map fold_left] in H; [split; [exact H | intros k []]|].
    destruct (IH _ H) as [H1 H2]. unfold merge1 in H1. cbn [o_flush] in H1. apply orb_false_elim in H1 as [H1 H1'].
    split; [exact H1|]. intros k' [<-|Hk']; [exact H1' | apply H2; exact Hk'].
  Qed.

  Lemma RM_wbus_set sg m2 m1 w : RM n sg m2 m1 -> RM n sg (set_n_wbus m2 w) (set_m m1 (set_wbus (y_m m1) w)).
  Proof.
    intros [H1 H2 H3 H4 H5 H6 H7 H8 H9 H10 H11 H12 H13 H14 H15 H16 H17 H18 H19 H20 H21 H22 H23 H24 H25]. constructor; ss; auto.
  Qed.

  Lemma REi_setseq eus2 eus1 v : Forall2 REi eus2 eus1 -> Forall2 REi (map (eu_set_seq v) eus2) (map (fun e => eu_sid_set e v) eus1).
  Proof.
    induction 1 as [|e2 e1 t2 t1 [B1 B2 B3 B4 B5] _ IH]; cbn [map]; constructor; [|exact IH].
    unfold eu_set_seq, eu_sid_set. constructor; cbn [x_co x_memory Mvp62.x_seq x_runner u_e u_sid]; auto.
  Qed.

  (* one iteration of the main loop *)
  Lemma normal_core sg ord d c f x s2 s1 : RS sg s2 s1 -> GI1 d c f x s1 -> TxB (n_ctx (Mvp62.t_m s2)) (sid x) ->
    StepR (sid x) (step62 app labels ord s2) (step1 app labels ord pord0 s1) /\
    (forall s1' d' c' f' x', step1 app labels ord pord0 s1 = Mvp61.TCont s1' -> GI1 d' c' f' x' s1' -> (x <= x')%nat) /\
    (forall s1' fr sq0 pc0, step1 app labels ord pord0 s1 = Mvp61.TCont s1' -> Mvp61.t_mode s1' = NFlushO fr sq0 pc0 -> sid x <= sq0).
  Proof.
    intros [HR HP HE Hwus Hcyc Hmode] HG HT.
    destruct ((IS normal_ok2) ord pord0 d c f x s1 HG)
      as (os0 & m4 & m5 & b6 & eus' & d' & c' & f' & lq & Efront & Ee & Ew & HF6 & B6 & P6 & A1 & A2 & A2' & Hrb6 & Hxj & Hq6 & Hb6 & Hj2 & Hseq & Hrtt &
          Hcyc6 & Hdn & HdN & Hl1 & Hbtb & HW6 & Hpar & Hsq6 & Hphi).
    cbv zeta in *.
    pose proof HG as [GF GB GP GT GW GWne GC GM]. pose proof GT as [T1 T2 T3 T3' T4 T5 T6 T8 T9].
    set (m0 := Mvp61.t_m s1) in *. set (cyc := Mvp61.t_cycle s1) in *. set (j := Nat.min (length (Mvp61.t_eus s1)) lq) in *.
    (* the execute bus and the write bus when the execute units start *)
    destruct (IA conn_ok1 d c f cyc m0 GF GB GP) as (C1 & C2 & C3 & C4 & CP & C5 & C6 & C6' & C7 & D1 & D2 & Cc1 & Cc2 & E1 & E2 & W1 & W2 & K1 & K2 & K3 & K4).
    set (m1c := Mvp61RefStep.conn1 m0 (cyc + 1)) in *.
    destruct (IA fd_ok1 d c f cyc m1c C1 (f1_seq _ _ _ _ _ _ _ _ C1) (c_fwd _ _ _ _ _ _ _ _ _ C2))
      as (m3 & c'' & f'' & Efd & F3 & R1 & R2 & R3 & R4 & R5 & R7 & (cb & Rx) & R9 & Pfd & Sfd).
    assert (Rcu : x_cu (y_x m3) = x_cu (y_x m1c)) by (rewrite Rx; destruct (y_x m1c); reflexivity).
    assert (Reb : x_ebus (y_x m3) = x_ebus (y_x m1c)) by (rewrite Rx; destruct (y_x m1c); reflexivity).
    assert (Rpv : x_prev (y_x m3) = x_prev (y_x m1c)) by (rewrite Rx; destruct (y_x m1c); reflexivity).
    assert (HEB3 : EB m3 = EB m1c) by (unfold EB; rewrite Reb; reflexivity).
    assert (HWB3 : WB m3 = WB m1c) by (unfold WB; rewrite R7; reflexivity).
    assert (HB3 : CoreI d (x_cu (y_x m3)) m3).
    { rewrite Rcu. eapply (IA CoreI_ext); [exact HEB3 | exact HWB3 | exact R1 | exact R3 | exact R4 | exact R2 | exact R5 | | | | | | |exact C2];
        rewrite Rx; destruct (y_x m1c); reflexivity. }
    assert (HP3 : forall p, In p (x_prev (y_x m3)) -> In p (EB m3) /\ r_fw p = None) by (rewrite Rpv, HEB3; exact CP).
    destruct (IA cu_ok1 pord0 d c'' f'' (cyc + 1) m3 F3 HB3 HP3)
      as (lp & F4 & B4 & P4 & Hlp2 & Hlpb & Q1 & Q1' & Q2 & Q3 & Qbu & Qdr & Qdp & Q4 & Q5 & Q6 & Q7 & Q8 & Pcu & Scu).
    assert (Efront' : front1 app pord0 (cyc + 1) m0 = Ok (fst (cu_cycle1 pord0 (cyc + 1) m3), snd (cu_cycle1 pord0 (cyc + 1) m3))).
    { rewrite front1_eq. fold m1c. rewrite Efd. cbn [bind]. destruct (cu_cycle1 pord0 (cyc + 1) m3); reflexivity. }
    rewrite Efront in Efront'. injection Efront' as _ Em4. rewrite <- Em4 in Q3, Q7. clear Em4.
    assert (Hrb4 : forall r, In r (EB m4) -> exists k, (x <= k)%nat /\ r_b r = rnq k).
    { intros r Hr. apply (in_map r_b) in Hr. rewrite Q7, HEB3, C3, T5 in Hr. apply in_app_or in Hr as [Hr|Hr];
        apply in_map_iff in Hr as (k & <- & Hk); apply in_seq in Hk; exists k; (split; [lia | reflexivity]). }
    assert (Hwq4 : forall wx, In wx (bb_q (m_wbus (y_m m4))) -> WbFine wx /\ w_seq wx < sid x).
    { intros wx Hwx. apply (wb_old d c f x s1 wx HG). fold m0. rewrite <- C4. unfold WB, flat. rewrite <- R7, <- Q3. apply in_or_app. left. exact Hwx. }
    (* the machine of MVP-6.2 *)
    destruct (front_sim app Hreg sg (cyc + 1) _ _ HR HP _ _ Efront) as (sg' & m24 & g & Ef2 & HR4 & HP4 & He4 & Hn4).
    assert (Hq4 : forall r, In r (bb_q (n_ebus m24)) -> sid x <= q_seq r).
    { intros r2 Hr2. destruct (rm_ebus _ _ _ _ HR4) as (_ & B2 & _).
      destruct (F2_in _ _ _ _ B2 Hr2) as (r1 & Hr1 & Hab).
      assert (Hin1 : In r1 (EB m4)) by (unfold EB, flat; apply in_or_app; left; exact Hr1).
      destruct (Hrb4 r1 Hin1) as (k & Hk & Ek). destruct Hab as ([Z1 Z2 Z3 Z4 Z5 Z6 Z7] & _). rewrite Z3, Ek. cbn [Mvp61RefFront.rnq r_seq].
      apply (IS sid_le). exact Hk. }
    assert (Hidle : Forall (fun e => e_co (u_e e) = ENone) eus') by (eapply Forall_impl; [|exact A1]; intros e [_ He0]; exact He0).
    destruct (eus_main_sim app labels sg' ord (cyc + 1) (sid x) _ _ HE m24 m4 euo62_none euo_none HR4
                ltac:(rewrite (front_ctx _ _ _ _ _ Ef2); exact HT)
                Hq4 ltac:(repeat split) _ _ _ _ _ Ee Hidle)
      as (os2 & m25 & eus2' & out2 & Ee2 & HR5 & HE5 & HA5 & HT5 & N1 & N2 & N3 & N4).
    set (out := fold_left merge1 (map bresp (seq x j)) euo_none) in *.
    destruct HA5 as (O1 & O2 & O3 & O4).
    assert (Hfrom : o_flush out = true -> sid x <= o_from out).
    { apply merge_from; [intros k Hk; apply in_seq in Hk; lia | discriminate]. }
    assert (Hwq5 : forall wx, In wx (bb_q (m_wbus (y_m m5))) -> WbFine wx /\ (dropped (-1) wx = false -> w_seq wx < sid x) /\
              dropped (if Mvp62.p_flush out2 then Mvp62.p_seq out2 else -1) wx = dropped (-1) wx).
    { intros wx Hwx. rewrite <- (rm_wbus _ _ _ _ HR5), N4, (rm_wbus _ _ _ _ HR4) in Hwx. destruct (Hwq4 wx Hwx) as [Hf Hs]. split; [exact Hf|]. split; [intros _; exact Hs|].
      rewrite O1, O2. destruct (o_flush out) eqn:Efl; [|reflexivity]. specialize (Hfrom eq_refl). unfold dropped. cbn [Z.eqb negb andb].
      destruct (Z.ltb_spec (o_from out) (w_seq wx)); [lia|]. rewrite andb_false_r. reflexivity. }
    destruct (wus_sim app sg' (if Mvp62.p_flush out2 then Mvp62.p_seq out2 else -1) (-1) (sid x) (Mvp61.t_wus s1) m25 m5 GW HR5 HT5 Hwq5 _ _ Ew)
      as (m26 & Ew2 & HR6 & HT6 & M1 & M2).
    set (m6 := set_m m5 b6) in *.
    assert (HP6 : PrevOK sg' m26 (x_nch (y_x m6))).
    { intros p Hp. rewrite M1, N2 in Hp. rewrite M2, N3. change (x_nch (y_x m6)) with (x_nch (y_x m5)). rewrite N1. apply HP4. exact Hp. }
    destruct (idle_empty _ _ HE5) as [Hem2 Hem1].
    (* the two steps *)
    assert (Hm2 : Mvp62.t_mode s2 = Mvp62.NNormal) by (rewrite GM in Hmode; destruct (Mvp62.t_mode s2); try contradiction; reflexivity).
    assert (E1s : step1 app labels ord pord0 s1 =
      if o_ret out then ret_check1 (mk_st1 (on_wbus m6 (fun w => bb_connect w (cyc + 1 + 1))) eus' (Mvp61.t_wus s1) (cyc + 1 + 1) Mvp61.NRet (Mvp61.t_os s1 || os0 || false))
      else if o_flush out then Mvp61.TCont (mk_st1 m6 (map (fun e => eu_sid_set e (o_from out)) eus') (Mvp61.t_wus s1) (cyc + 1) (NFlushO (cyc + 1) (o_from out) (o_pc out)) (Mvp61.t_os s1 || os0 || false))
      else if is_empty1 m6 eus' (Mvp61.t_wus s1) then Mvp61.TDone (finish6 (y_m m6) (cyc + 1)) (Mvp61.t_os s1 || os0 || false)
      else Mvp61.TCont (mk_st1 m6 eus' (Mvp61.t_wus s1) (cyc + 1) Mvp61.NNormal (Mvp61.t_os s1 || os0 || false))).
    { unfold step1. rewrite GM. fold cyc m0. rewrite Efront. cbn [res_of1]. rewrite Ee. unfold back1. rewrite Ew. cbn [res_of1]. reflexivity. }
    set (os2' := Mvp62.t_os s2 || g || os2).
    assert (E2s : step62 app labels ord s2 =
      if Mvp62.p_ret out2 then ret_check62 (mk_st62 (set_n_wbus m26 (bb_connect (n_wbus m26) (cyc + 1 + 1))) eus2' (Mvp61.t_wus s1) (cyc + 1 + 1) Mvp62.NRet os2')
      else if Mvp62.p_flush out2 then Mvp62.TCont (mk_st62 m26 (map (eu_set_seq (Mvp62.p_seq out2)) eus2') (Mvp61.t_wus s1) (cyc + 1) (NFlushE (Mvp62.p_seq out2) (Mvp62.p_pc out2) (cyc + 1)) os2')
      else if is_empty62 m26 eus2' (Mvp61.t_wus s1) then Mvp62.TDone (finish62 m26 (cyc + 1)) os2'
      else Mvp62.TCont (mk_st62 m26 eus2' (Mvp61.t_wus s1) (cyc + 1) Mvp62.NNormal os2')).
    { unfold step62. rewrite Hm2, Hcyc. fold cyc. rewrite Ef2. cbn [res_of62]. rewrite Ee2. cbn [res_of62]. unfold back62. rewrite Hwus, Ew2. cbn [res_of62]. reflexivity. }
    rewrite E1s, E2s, O1, O2, O3, O4. clear E2s.
    split; [|split].
    - (* the results *)
      unfold Mvp62RefStep.StepR. destruct (o_ret out).
      + unfold ret_check1, ret_check62. cbn [Mvp62.t_eus Mvp62.t_wus Mvp62.t_m Mvp61.t_eus Mvp61.t_wus Mvp61.t_m Mvp62.t_cycle Mvp61.t_cycle Mvp62.t_os Mvp61.t_os].
        rewrite Hem2, Hem1. unfold on_wbus. ss. rewrite (rm_wbus _ _ _ _ HR6).
        pose proof (RM_wbus_set sg' m26 m6 (bb_connect (m_wbus (y_m m6)) (cyc + 1 + 1)) HR6) as HR7.
        match goal with |- context [if ?cc then _ else _] => destruct cc end; cbv beta iota.
        * intros cf st _. eexists. rewrite (finish_sim _ _ _ _ _ HR7). reflexivity.
        * eexists sg', _. split; [reflexivity|]. split; [|exact HT6]. constructor; cbn [Mvp62.t_eus Mvp62.t_wus Mvp62.t_m Mvp61.t_eus Mvp61.t_wus Mvp61.t_m Mvp62.t_cycle Mvp61.t_cycle Mvp62.t_mode Mvp61.t_mode]; auto.
          exact I.
      + destruct (o_flush out).
        * eexists sg', _. split; [reflexivity|]. split; [|exact HT6]. constructor; cbn [Mvp62.t_eus Mvp62.t_wus Mvp62.t_m Mvp61.t_eus Mvp61.t_wus Mvp61.t_m Mvp62.t_cycle Mvp61.t_cycle Mvp62.t_mode Mvp61.t_mode]; auto.
          -- apply REi_setseq. exact HE5.
          -- cbn. auto.
        * assert (Eemp : is_empty62 m26 eus2' (Mvp61.t_wus s1) = is_empty1 m6 eus' (Mvp61.t_wus s1)).
          { unfold is_empty62, is_empty1, is_empty6. destruct Hpar as (_ & _ & _ & _ & _ & _ & Hp1 & Hp2 & Hp3). rewrite Hp1, Hp2, Hp3, Hem2.
            assert (Hem1' : forallb eu_empty (map u_e eus') = true) by (rewrite forallb_forall in Hem1 |- *; intros e He0; apply in_map_iff in He0 as (e1 & <- & Hin); apply (Hem1 e1 Hin)).
            rewrite Hem1'. rewrite (rm_fu _ _ _ _ HR6), (rm_dbus _ _ _ _ HR6), (rm_wbus _ _ _ _ HR6), (F2_len' _ _ _ (rm_cu _ _ _ _ HR6)),
              (RBus_isempty _ _ _ (rm_cbus _ _ _ _ HR6)), (RBus_isempty _ _ _ (rm_ebus _ _ _ _ HR6)).
            cbn [zlen length Z.of_nat Z.eqb andb].
            destruct (f_complete (m_fu (y_m m6))), (zlen (x_cu (y_x m6)) =? 0), (forallb wu_empty (Mvp61.t_wus s1)), (bb_isempty (m_dbus (y_m m6))),
              (bb_isempty (x_cbus (y_x m6))), (bb_isempty (x_ebus (y_x m6))), (bb_isempty (m_wbus (y_m m6))); reflexivity. }
          rewrite Eemp. destruct (is_empty1 m6 eus' (Mvp61.t_wus s1)).
          -- intros cf st _. eexists. rewrite (finish_sim _ _ _ _ _ HR6). reflexivity.
          -- eexists sg', _. split; [reflexivity|]. split; [|exact HT6]. constructor; cbn [Mvp62.t_eus Mvp62.t_wus Mvp62.t_m Mvp61.t_eus Mvp61.t_wus Mvp61.t_m Mvp62.t_cycle Mvp61.t_cycle Mvp62.t_mode Mvp61.t_mode]; auto.
             exact I.
    - (* x does not decrease *)
      intros s1' d1 c1 f1 x1 Es HG1.
      destruct (o_ret out) eqn:Eret.
      { unfold ret_check1 in Es. destruct (_ && _) in Es; [discriminate|]. injection Es as <-. pose proof (g1_mode _ _ _ _ _ _ _ _ _ _ _ _ HG1) as Hm. cbn in Hm. discriminate. }
      destruct (o_flush out) eqn:Efl.
      { injection Es as <-. pose proof (g1_mode _ _ _ _ _ _ _ _ _ _ _ _ HG1) as Hm. cbn in Hm. discriminate. }
      destruct (is_empty1 m6 eus' (Mvp61.t_wus s1)); [discriminate|]. injection Es as <-.
      destruct (merge_nofl _ _ Efl) as [_ Hnf].
      assert (Hnf' : forall k, (x <= k < x + j)%nat -> Mvp61.p_flush (bresp k) = false) by (intros k Hk; apply Hnf; apply in_seq; lia).
      pose proof (GI1_x _ _ _ _ _ d' c' f' (x + j)%nat HG1 (HF6 Hnf') Hrb6 Hxj) as ->. lia.
    - intros s1' fr sq0 pc0 Es Hmd.
      destruct (o_ret out) eqn:Eret.
      { unfold ret_check1 in Es. destruct (_ && _) in Es; [discriminate|]. injection Es as <-. cbn in Hmd. discriminate. }
      destruct (o_flush out) eqn:Efl.
      { injection Es as <-. cbn in Hmd. injection Hmd as _ <- _. apply Hfrom. reflexivity. }
      destruct (is_empty1 m6 eus' (Mvp61.t_wus s1)); [discriminate|]. injection Es as <-. cbn in Hmd. discriminate.
  Qed.

  (* idle execute units are skipped by the drain loop and by the flush loop *)
  Lemma eus_drain62_skip ord cy m : forall eus, forallb eu_empty62 eus = true -> eus_drain62 labels ord cy m eus = (false, Ok (m, eus)).
  Proof.
    induction eus as [|e t IH]; intros H; [reflexivity|]. cbn [forallb] in H. apply andb_prop in H as [H1 H2]. cbn [eus_drain62]. rewrite H1, (IH H2). reflexivity.
  Qed.

  Lemma eus_inner62_skip ord cy m sq0 pc0 : forall eus, forallb eu_empty62 eus = true -> eus_inner62 labels ord cy m eus sq0 pc0 = (false, Ok (m, eus, sq0, pc0)).
  Proof.
    induction eus as [|e t IH]; intros H; [reflexivity|]. cbn [forallb] in H. apply andb_prop in H as [H1 H2]. cbn [eus_inner62]. rewrite H1, (IH H2). reflexivity.
  Qed.


  (* the drain loop after ret *)
  Lemma ret_core sg ord d bn s2 s1 : RS sg s2 s1 -> GR1 d s1 -> TxB (n_ctx (Mvp62.t_m s2)) bn -> sid d <= bn ->
    StepR bn (step62 app labels ord s2) (step1 app labels ord pord0 s1).
  Proof.
    intros [HR HP HE Hwus Hcyc Hmode] HG HT Hbn. pose proof HG as [RC RE RW RWne RN REB RWb RWq RBw Rex Rcy RM].
    assert (Hm2 : Mvp62.t_mode s2 = Mvp62.NRet) by (rewrite RM in Hmode; destruct (Mvp62.t_mode s2); try contradiction; reflexivity).
    destruct (idle_empty _ _ HE) as [Hem2 Hem1].
    unfold step1, step62. rewrite RM, Hm2. rewrite ((IS eus_drain_skip) ord _ _ _ RE), (eus_drain62_skip ord _ _ _ Hem2). cbn [res_of62 fst snd orb].
    assert (Hwq : forall wx, In wx (bb_q (m_wbus (y_m (Mvp61.t_m s1)))) -> WbFine wx /\ (dropped (-1) wx = false -> w_seq wx < bn) /\ dropped (-1) wx = dropped (-1) wx).
    { intros wx Hwx. pose proof (c_w _ _ _ _ _ _ _ _ _ RC) as Hw. rewrite Forall_forall in Hw.
      destruct (wbok_fine d wx (Hw wx ltac:(unfold WB, flat; apply in_or_app; left; exact Hwx))) as [Hf (k & -> & Hk)].
      split; [exact Hf|]. split; [|reflexivity]. intros _. cbn [Mvp61RefInv.wbq w_seq]. pose proof ((IS sid_lt) k d Hk). lia. }
    destruct (wus_cycle (y_m (Mvp61.t_m s1)) (Mvp61.t_wus s1) (-1)) as [[b6 wus1]|e|] eqn:Ew; cbn [res_of1].
    2:{ intros cf st Hx. discriminate Hx. }
    2:{ intros cf st Hx. discriminate Hx. }
    destruct (wus_sim app sg (-1) (-1) bn _ _ _ RW HR HT Hwq _ _ Ew) as (m26 & Ew2 & HR6 & HT6 & M1 & M2).
    rewrite Hwus, Ew2. cbn [res_of62]. rewrite Hcyc.
    set (m6 := set_m (Mvp61.t_m s1) b6) in *.
    unfold ret_check1, ret_check62. cbn [Mvp62.t_eus Mvp62.t_wus Mvp62.t_m Mvp61.t_eus Mvp61.t_wus Mvp61.t_m Mvp62.t_cycle Mvp61.t_cycle Mvp62.t_os Mvp61.t_os].
    rewrite Hem2, Hem1. unfold on_wbus. ss. rewrite (rm_wbus _ _ _ _ HR6).
    pose proof (RM_wbus_set sg m26 m6 (bb_connect (m_wbus (y_m m6)) (Mvp61.t_cycle s1 + 1)) HR6) as HR7.
    unfold Mvp62RefStep.StepR.
    match goal with |- context [if ?cc then _ else _] => destruct cc end; cbv beta iota.
    - intros cf st _. eexists. rewrite (finish_sim _ _ _ _ _ HR7). reflexivity.
    - eexists sg, _. split; [reflexivity|]. split; [|exact HT6].
      constructor; cbn [Mvp62.t_eus Mvp62.t_wus Mvp62.t_m Mvp61.t_eus Mvp61.t_wus Mvp61.t_m Mvp62.t_cycle Mvp61.t_cycle Mvp62.t_mode Mvp61.t_mode]; auto; [|exact I].
      intros p Hp. ss. rewrite M1 in Hp. rewrite M2. apply HP. exact Hp.
  Qed.

  (* CPU.flush *)
  Lemma do_flush_sim sg m2 m1 pc : RM n sg m2 m1 -> RM n sg (do_flush62 m2 pc) (do_flush1 m1 pc).
  Proof.
    intros [H1 H2 H3 H4 H5 H6 H7 H8 H9 H10 H11 H12 H13 H14 H15 H16 H17 H18 H19 H20 H21 H22 H23 H24 H25].
    unfold do_flush62, do_flush1, do_flush6. constructor; ss; auto; try congruence; try (apply RBus_clean; assumption).
  Qed.

  Lemma REi_flush eus2 eus1 : Forall2 REi eus2 eus1 ->
    Forall2 REi (map (fun e => mk_eu62 ENone (x_memory e) (x_runner e) 0) eus2) (map eu_flush1 eus1).
  Proof.
    induction 1 as [|e2 e1 t2 t1 [B1 B2 B3 B4 B5] _ IH]; cbn [map]; constructor; [|exact IH].
    unfold eu_flush1, eu_sid_set, eu_co_set. constructor; cbn [x_co x_memory Mvp62.x_seq x_runner u_e u_sid e_co e_memory e_runner]; auto.
  Qed.

  (* the loops of the write units inside the flush branch *)
  Lemma flush_adv_sim sg bn s2 s1 k ie fr sq0 pc0 : RM n sg (Mvp62.t_m s2) (Mvp61.t_m s1) -> PrevOK sg (Mvp62.t_m s2) (x_nch (y_x (Mvp61.t_m s1))) ->
    Forall2 REi (Mvp62.t_eus s2) (Mvp61.t_eus s1) -> Mvp62.t_wus s2 = Mvp61.t_wus s1 -> Mvp62.t_cycle s2 = Mvp61.t_cycle s1 ->
    TxB (n_ctx (Mvp62.t_m s2)) bn ->
    StepR bn (flush_adv62 s2 k sq0 pc0 fr ie) (flush_advance1 s1 k ie fr sq0 pc0).
  Proof.
    intros HR HP HE Hwus Hcyc HT. unfold flush_adv62, flush_advance1. rewrite Hwus, (rm_wbus _ _ _ _ HR).
    unfold Mvp62RefStep.StepR.
    destruct (flush_next (skipn k (Mvp61.t_wus s1)) k (bb_isempty (m_wbus (y_m (Mvp61.t_m s1))))) as [k'|].
    - eexists sg, _. split; [reflexivity|]. split; [|exact HT].
      constructor; cbn [Mvp62.t_eus Mvp62.t_wus Mvp62.t_m Mvp61.t_eus Mvp61.t_wus Mvp61.t_m Mvp62.t_cycle Mvp61.t_cycle Mvp62.t_mode Mvp61.t_mode]; auto. cbn. auto.
    - destruct ie.
      + eexists sg, _. split; [reflexivity|]. split; [|exact HT].
        constructor; cbn [Mvp62.t_eus Mvp62.t_wus Mvp62.t_m Mvp61.t_eus Mvp61.t_wus Mvp61.t_m Mvp62.t_cycle Mvp61.t_cycle Mvp62.t_mode Mvp61.t_mode]; auto.
        * apply do_flush_sim. exact HR.
        * intros p Hp. unfold do_flush62 in Hp. ss. destruct Hp.
        * apply REi_flush. exact HE.
        * rewrite Hcyc. reflexivity.
        * exact I.
      + eexists sg, _. split; [reflexivity|]. split; [|exact HT].
        constructor; cbn [Mvp62.t_eus Mvp62.t_wus Mvp62.t_m Mvp61.t_eus Mvp61.t_wus Mvp61.t_m Mvp62.t_cycle Mvp61.t_cycle Mvp62.t_mode Mvp61.t_mode]; auto. cbn. auto.
  Qed.

  (* one tick inside the flush branch *)
  Lemma flush_core sg ord d E t s2 s1 : RS sg s2 s1 -> GF1 d E t s1 -> TxB (n_ctx (Mvp62.t_m s2)) (sid E + 1) ->
    StepR (sid E + 1) (step62 app labels ord s2) (step1 app labels ord pord0 s1).
  Proof.
    intros [HR HP HE Hwus Hcyc Hmode] HG HT. pose proof HG as [[D GFl] Geus Gst Glen Gwus Gwne Gl1 Gbtb GE Gex Gout Gbw Gpar Gx Gmode].
    destruct (idle_empty _ _ HE) as [Hem2 Hem1].
    unfold step1, step62. destruct (Mvp61.t_mode s1) as [| |fr sq0 pc0|k ie fr sq0 pc0] eqn:Em; try contradiction.
    - (* the execute units *)
      destruct (Mvp62.t_mode s2) as [| |sq2 pc2 fr2|] eqn:Em2; try contradiction. destruct Hmode as (-> & -> & ->).
      rewrite ((IS eus_flush_skip) ord _ _ _ _ Geus), (eus_inner62_skip ord _ _ _ _ _ Hem2). cbn [orb o_from o_pc]. rewrite Hem2.
      unfold on_wbus. rewrite Hcyc.
      apply (flush_adv_sim sg); cbn [Mvp62.t_eus Mvp62.t_wus Mvp62.t_m Mvp61.t_eus Mvp61.t_wus Mvp61.t_m Mvp62.t_cycle Mvp61.t_cycle]; auto.
      rewrite (rm_wbus _ _ _ _ HR). apply RM_wbus_set. exact HR.
    - (* a write unit *)
      destruct (Mvp62.t_mode s2) as [| | |k2 sq2 pc2 fr2 ie2] eqn:Em2; try contradiction. destruct Hmode as (-> & -> & -> & -> & ->).
      rewrite Hwus. destruct (nth_error (Mvp61.t_wus s1) k) as [w|] eqn:Ek; [|intros cf st Hx; discriminate Hx].
      destruct Gmode as (_ & _ & -> & _).
      assert (Hw : u_co w = WNone) by (rewrite Forall_forall in Gwus; apply Gwus; eapply nth_error_In; exact Ek).
      assert (Hwq : forall wx, In wx (bb_q (m_wbus (y_m (Mvp61.t_m s1)))) -> WbFine wx /\ (dropped (sid E) wx = false -> w_seq wx < sid E + 1) /\ dropped (sid E) wx = dropped (sid E) wx).
      { intros wx Hwx. pose proof (fl1_w _ _ _ _ _ _ _ _ _ _ GFl) as Hwo. rewrite Forall_forall in Hwo.
        destruct (wbok_fine d wx (Hwo wx ltac:(unfold WB, flat; apply in_or_app; left; exact Hwx))) as [Hf _].
        split; [exact Hf|]. split; [|reflexivity]. unfold dropped. intros Hd. apply andb_false_iff in Hd as [Hd|Hd].
        - apply negb_false_iff, Z.eqb_eq in Hd. unfold Mvp61RefFront.sid, pcz in Hd. lia.
        - apply Z.ltb_ge in Hd. lia. }
      destruct (wu_cycle6 (y_m (Mvp61.t_m s1)) w (sid E)) as [[b1 w']|e|] eqn:Ew; cbn [res_of1]; try (intros cf st Hx; discriminate Hx).
      destruct (wu_sim app sg _ _ w (sid E) (sid E) (sid E + 1) HR Hw HT Hwq _ _ Ew) as (m2' & Ew2 & HR' & HT' & M1 & M2 & _).
      rewrite Ew2. cbn [res_of62 fst snd].
      apply (flush_adv_sim sg); cbn [Mvp62.t_eus Mvp62.t_wus Mvp62.t_m Mvp61.t_eus Mvp61.t_wus Mvp61.t_m Mvp62.t_cycle Mvp61.t_cycle]; auto.
      intros p Hp. ss. rewrite M1 in Hp. rewrite M2. apply HP. exact Hp.
  Qed.
End Step62.
