(* The pipeline of MVP-6.3 (Mvp63.v) does not look at its L3 as long as no load and no store is executed:
   replacing the L3 cache of the machine state (sl3 c x) commutes with the front end (front3: the four Connect
   calls, fetch, decode, control unit - for EVERY program), with the loop over idle execute units whose queued runners
   are neither loads, stores nor branches (eus_main3_l3), with the write units when no entry of the write bus
   carries a memory change (wus_cycle3_l3), and with the end of Run when both L3 hold no line (finish3_l3). *)
From Coq Require Import ZArith List Bool Lia.
From Maj Require Import Base.Outcome Base.GoInt Base.GoTypes Isa.Spec Isa.Seq.
From Maj Require Import Gen.Latency Gen.RiscTables Gen.Opcodes Comp.Cache Comp.Rat Mvp.Mvp12 Mvp.Mvp3 Mvp.Mvp5 Mvp.Mvp60 Mvp.Mvp63.
From Maj Require Import Mvp.Mvp60Proofs Mvp.Mvp63Proofs Mvp.Mvp60RefDefs.
From Maj Require Mvp.Mvp80RegOnly Mvp.Mvp71Sim70.
Import ListNotations.
Open Scope Z_scope.

Definition ml3 (c : cache) (m : mach) : mach := set_l3 m c (m_pend m).
Definition sl3 (c : cache) (x : mx) : mx := set_m x (ml3 c (x_m x)).

(* ------------------------------------------------------------------ *)
(* 1. projections and setters                                           *)
(* ------------------------------------------------------------------ *)

Lemma xm_sl3 c x : x_m (sl3 c x) = ml3 c (x_m x). Proof. reflexivity. Qed.
Lemma xebus_sl3 c x : x_ebus (sl3 c x) = x_ebus x. Proof. reflexivity. Qed.
Lemma xpend_sl3 c x : x_pend (sl3 c x) = x_pend x. Proof. reflexivity. Qed.
Lemma xprev_sl3 c x : x_prev (sl3 c x) = x_prev x. Proof. reflexivity. Qed.
Lemma xpcb_sl3 c x : x_pcb (sl3 c x) = x_pcb x. Proof. reflexivity. Qed.
Lemma xseq_sl3 c x : x_seq (sl3 c x) = x_seq x. Proof. reflexivity. Qed.
Lemma xcrat_sl3 c x : x_crat (sl3 c x) = x_crat x. Proof. reflexivity. Qed.
Lemma xtrat_sl3 c x : x_trat (sl3 c x) = x_trat x. Proof. reflexivity. Qed.
Lemma xfwd_sl3 c x : x_fwd (sl3 c x) = x_fwd x. Proof. reflexivity. Qed.
Lemma xchan_sl3 c x : x_chan (sl3 c x) = x_chan x. Proof. reflexivity. Qed.
Lemma xnext_sl3 c x : x_next (sl3 c x) = x_next x. Proof. reflexivity. Qed.
Lemma xos_sl3 c x : x_os (sl3 c x) = x_os x. Proof. reflexivity. Qed.

Lemma mregs_ml3 c m : m_regs (ml3 c m) = m_regs m. Proof. reflexivity. Qed.
Lemma mmem_ml3 c m : m_mem (ml3 c m) = m_mem m. Proof. reflexivity. Qed.
Lemma mpw_ml3 c m : m_pw (ml3 c m) = m_pw m. Proof. reflexivity. Qed.
Lemma mpr_ml3 c m : m_pr (ml3 c m) = m_pr m. Proof. reflexivity. Qed.
Lemma ml1i_ml3 c m : m_l1i (ml3 c m) = m_l1i m. Proof. reflexivity. Qed.
Lemma ml3_ml3 c m : m_l3 (ml3 c m) = c. Proof. reflexivity. Qed.
Lemma mpend_ml3 c m : m_pend (ml3 c m) = m_pend m. Proof. reflexivity. Qed.
Lemma mfu_ml3 c m : m_fu (ml3 c m) = m_fu m. Proof. reflexivity. Qed.
Lemma mdret_ml3 c m : m_dret (ml3 c m) = m_dret m. Proof. reflexivity. Qed.
Lemma mdpbr_ml3 c m : m_dpbr (ml3 c m) = m_dpbr m. Proof. reflexivity. Qed.
Lemma mcu_ml3 c m : m_cu (ml3 c m) = m_cu m. Proof. reflexivity. Qed.
Lemma mbu_ml3 c m : m_bu (ml3 c m) = m_bu m. Proof. reflexivity. Qed.
Lemma mdbus_ml3 c m : m_dbus (ml3 c m) = m_dbus m. Proof. reflexivity. Qed.
Lemma mcbus_ml3 c m : m_cbus (ml3 c m) = m_cbus m. Proof. reflexivity. Qed.
Lemma mebus_ml3 c m : m_ebus (ml3 c m) = m_ebus m. Proof. reflexivity. Qed.
Lemma mwbus_ml3 c m : m_wbus (ml3 c m) = m_wbus m. Proof. reflexivity. Qed.

Lemma set_m_sl3 c x m : set_m (sl3 c x) m = set_m x m. Proof. reflexivity. Qed.
Lemma set_m_ml3 c x m : set_m x (ml3 c m) = sl3 c (set_m x m). Proof. reflexivity. Qed.
Lemma set_ebus3_sl3 c x b : set_ebus3 (sl3 c x) b = sl3 c (set_ebus3 x b). Proof. reflexivity. Qed.
Lemma set_pend3_sl3 c x b : set_pend3 (sl3 c x) b = sl3 c (set_pend3 x b). Proof. reflexivity. Qed.
Lemma set_prev3_sl3 c x b : set_prev3 (sl3 c x) b = sl3 c (set_prev3 x b). Proof. reflexivity. Qed.
Lemma set_pcb3_sl3 c x b : set_pcb3 (sl3 c x) b = sl3 c (set_pcb3 x b). Proof. reflexivity. Qed.
Lemma set_seq3_sl3 c x b : set_seq3 (sl3 c x) b = sl3 c (set_seq3 x b). Proof. reflexivity. Qed.
Lemma set_rats3_sl3 c x a b : set_rats3 (sl3 c x) a b = sl3 c (set_rats3 x a b). Proof. reflexivity. Qed.
Lemma set_fwd3_sl3 c x b : set_fwd3 (sl3 c x) b = sl3 c (set_fwd3 x b). Proof. reflexivity. Qed.
Lemma set_chan3_sl3 c x b : set_chan3 (sl3 c x) b = sl3 c (set_chan3 x b). Proof. reflexivity. Qed.
Lemma set_next3_sl3 c x b : set_next3 (sl3 c x) b = sl3 c (set_next3 x b). Proof. reflexivity. Qed.
Lemma set_os3_sl3 c x b : set_os3 (sl3 c x) b = sl3 c (set_os3 x b). Proof. reflexivity. Qed.
Lemma inc_seq3_sl3 c x : inc_seq3 (sl3 c x) = sl3 c (inc_seq3 x). Proof. reflexivity. Qed.
Lemma set_forward3_sl3 c x pc r v : set_forward3 (sl3 c x) pc r v = sl3 c (set_forward3 x pc r v). Proof. reflexivity. Qed.
Lemma or_os_sl3 c x b : or_os (sl3 c x) b = sl3 c (or_os x b). Proof. reflexivity. Qed.
Lemma sequence_id_sl3 c x pc : sequence_id (sl3 c x) pc = sequence_id x pc. Proof. reflexivity. Qed.
Lemma hazards_of_sl3 c x i : hazards_of (sl3 c x) i = hazards_of x i. Proof. reflexivity. Qed.
Lemma rr3_sl3 c x pc : rr3 (sl3 c x) pc = rr3 x pc. Proof. reflexivity. Qed.
Lemma wbus_connect3_sl3 c x cy : wbus_connect3 (sl3 c x) cy = sl3 c (wbus_connect3 x cy). Proof. reflexivity. Qed.
Lemma connected3_sl3 c x cy : connected3 (sl3 c x) cy = sl3 c (connected3 x cy). Proof. reflexivity. Qed.
Lemma fu_reset3_sl3 c x pc : fu_reset3 (sl3 c x) pc = sl3 c (fu_reset3 x pc). Proof. reflexivity. Qed.

Lemma set_regs_ml3 c m v : set_regs (ml3 c m) v = ml3 c (set_regs m v). Proof. reflexivity. Qed.
Lemma set_mem_ml3 c m v : set_mem (ml3 c m) v = ml3 c (set_mem m v). Proof. reflexivity. Qed.
Lemma set_sb_ml3 c m a b : set_sb (ml3 c m) a b = ml3 c (set_sb m a b). Proof. reflexivity. Qed.
Lemma set_l1i_ml3 c m v : set_l1i (ml3 c m) v = ml3 c (set_l1i m v). Proof. reflexivity. Qed.
Lemma set_fu_ml3 c m v : set_fu (ml3 c m) v = ml3 c (set_fu m v). Proof. reflexivity. Qed.
Lemma set_du_ml3 c m a b : set_du (ml3 c m) a b = ml3 c (set_du m a b). Proof. reflexivity. Qed.
Lemma set_cu_ml3 c m v : set_cu (ml3 c m) v = ml3 c (set_cu m v). Proof. reflexivity. Qed.
Lemma set_bu_ml3 c m v : set_bu (ml3 c m) v = ml3 c (set_bu m v). Proof. reflexivity. Qed.
Lemma set_dbus_ml3 c m v : set_dbus (ml3 c m) v = ml3 c (set_dbus m v). Proof. reflexivity. Qed.
Lemma set_cbus_ml3 c m v : set_cbus (ml3 c m) v = ml3 c (set_cbus m v). Proof. reflexivity. Qed.
Lemma set_ebus_ml3 c m v : set_ebus (ml3 c m) v = ml3 c (set_ebus m v). Proof. reflexivity. Qed.
Lemma set_wbus_ml3 c m v : set_wbus (ml3 c m) v = ml3 c (set_wbus m v). Proof. reflexivity. Qed.
Lemma add_pending6_ml3 c m a b : add_pending6 (ml3 c m) a b = ml3 c (add_pending6 m a b). Proof. reflexivity. Qed.
Lemma del_pending6_ml3 c m a b : del_pending6 (ml3 c m) a b = ml3 c (del_pending6 m a b). Proof. reflexivity. Qed.

#[export] Hint Rewrite xm_sl3 xebus_sl3 xpend_sl3 xprev_sl3 xpcb_sl3 xseq_sl3 xcrat_sl3 xtrat_sl3 xfwd_sl3 xchan_sl3 xnext_sl3 xos_sl3
  mregs_ml3 mmem_ml3 mpw_ml3 mpr_ml3 ml1i_ml3 ml3_ml3 mpend_ml3 mfu_ml3 mdret_ml3 mdpbr_ml3 mcu_ml3 mbu_ml3 mdbus_ml3 mcbus_ml3 mebus_ml3 mwbus_ml3
  set_m_sl3 set_m_ml3 set_ebus3_sl3 set_pend3_sl3 set_prev3_sl3 set_pcb3_sl3 set_seq3_sl3 set_rats3_sl3 set_fwd3_sl3 set_chan3_sl3
  set_next3_sl3 set_os3_sl3 inc_seq3_sl3 set_forward3_sl3 or_os_sl3 sequence_id_sl3 hazards_of_sl3 rr3_sl3 wbus_connect3_sl3 connected3_sl3
  fu_reset3_sl3 set_regs_ml3 set_mem_ml3 set_sb_ml3 set_l1i_ml3 set_fu_ml3 set_du_ml3 set_cu_ml3 set_bu_ml3 set_dbus_ml3 set_cbus_ml3
  set_ebus_ml3 set_wbus_ml3 add_pending6_ml3 del_pending6_ml3 : l3.

(* ------------------------------------------------------------------ *)
(* 2. decode unit, control unit, front end                              *)
(* ------------------------------------------------------------------ *)

Definition lo_x (c : cache) (o : outcome mx) : outcome mx :=
  match o with Ok x => Ok (sl3 c x) | Err e => Err e | Panic => Panic end.

Lemma du_loop3_l3 c app cycle : forall q ret pbr cbus x,
  du_loop3 q app cycle ret pbr cbus (sl3 c x) =
  match du_loop3 q app cycle ret pbr cbus x with
  | Ok (a, b, q', cb, x') => Ok (a, b, q', cb, sl3 c x')
  | Err e => Err e
  | Panic => Panic
  end.
Proof.
  induction q as [|pc q' IH]; intros ret pbr cbus x; [reflexivity|].
  cbn [du_loop3]. destruct (nlen6 app <=? Z.quot pc 4); [reflexivity|].
  destruct (Z.quot pc 4 <? 0); [reflexivity|].
  destruct (nth_error app (Z.to_nat (Z.quot pc 4))) as [i|]; [|reflexivity].
  cbv zeta. rewrite set_forward3_sl3, sequence_id_sl3.
  destruct (InstructionType_IsUnconditionalBranch _); [reflexivity|].
  destruct (_ =? Ret); [reflexivity|]. apply IH.
Qed.

Lemma du_cycle3_l3 c app cycle x : du_cycle3 app cycle (sl3 c x) = lo_x c (du_cycle3 app cycle x).
Proof.
  unfold du_cycle3. cbv zeta. rewrite xm_sl3, !mdret_ml3, !mdpbr_ml3, !mdbus_ml3, !mcbus_ml3.
  destruct (m_dret (x_m x)); [reflexivity|]. destruct (m_dpbr (x_m x)); [reflexivity|].
  rewrite du_loop3_l3.
  destruct (du_loop3 (bb_q (m_dbus (x_m x))) app cycle false false (m_cbus (x_m x)) x) as [[[[[a b] q'] cb] x1]|er|]; [|reflexivity|reflexivity].
  cbn [bind lo_x]. autorewrite with l3. reflexivity.
Qed.

Lemma push_runner3_l3 c x cycle r :
  push_runner3 (sl3 c x) cycle r = match push_runner3 x cycle r with Some (x', r') => Some (sl3 c x', r') | None => None end.
Proof.
  unfold push_runner3. rewrite xebus_sl3. destruct (negb (bb_canadd (x_ebus x))); [reflexivity|].
  cbv zeta. autorewrite with l3. reflexivity.
Qed.

Lemma push_or_stop3_l3 c x cycle r stop :
  push_or_stop3 (sl3 c x) cycle r stop = let '(p, s, r', x') := push_or_stop3 x cycle r stop in (p, s, r', sl3 c x').
Proof. unfold push_or_stop3. rewrite push_runner3_l3. destruct (push_runner3 x cycle r) as [[x' r']|]; reflexivity. Qed.

Lemma should_forward3_l3 c ord cycle x r hz : should_forward3 ord cycle (sl3 c x) r hz = should_forward3 ord cycle x r hz.
Proof. reflexivity. Qed.
Lemma forward_order_matters_l3 c x r : forward_order_matters (sl3 c x) r = forward_order_matters x r.
Proof. reflexivity. Qed.

Lemma handle_runner3_l3 c ord cycle x skipped pb r :
  handle_runner3 ord cycle (sl3 c x) skipped pb r = let '(p, s, r', x') := handle_runner3 ord cycle x skipped pb r in (p, s, r', sl3 c x').
Proof.
  unfold handle_runner3. cbv zeta. rewrite xebus_sl3, xpcb_sl3, hazards_of_sl3, should_forward3_l3.
  destruct (_ && pb); [reflexivity|]. destruct (_ && _); [reflexivity|]. destruct (skipped_hazard3 _ _); [reflexivity|].
  destruct (zlen (hazards_of x (q_instr r)) =? 0); [apply push_or_stop3_l3|].
  destruct (should_forward3 ord cycle x r (hazards_of x (q_instr r))) as [[p reg]|].
  - rewrite xnext_sl3, xos_sl3, forward_order_matters_l3. autorewrite with l3. apply push_or_stop3_l3.
  - destruct (should_rename3 _); [apply push_or_stop3_l3|reflexivity].
Qed.

Lemma after_push3_l3 c x l r : after_push3 (sl3 c x) l r = let '(x', l') := after_push3 x l r in (sl3 c x', l').
Proof. unfold after_push3. cbv zeta. destruct (InstructionType_IsConditionalBranch _); reflexivity. Qed.

Lemma cu_pending3_l3 c ord cycle : forall ps kept l x,
  cu_pending3 ord cycle ps kept l (sl3 c x) = let '(st, q, l', x') := cu_pending3 ord cycle ps kept l x in (st, q, l', sl3 c x').
Proof.
  induction ps as [|r t IH]; intros kept l x; [reflexivity|].
  cbn [cu_pending3]. rewrite handle_runner3_l3.
  destruct (handle_runner3 ord cycle x (l_skipped l) (l_pbranch l) r) as [[[push stop] r1] x1].
  destruct push.
  - rewrite after_push3_l3. destruct (after_push3 x1 l r1) as [x2 l2]. destruct stop; [reflexivity|apply IH].
  - destruct stop; [reflexivity|apply IH].
Qed.

Lemma cu_incoming3_l3 c ord cycle : forall q pend l x,
  cu_incoming3 ord cycle q pend l (sl3 c x) = let '(q', p', l', x') := cu_incoming3 ord cycle q pend l x in (q', p', l', sl3 c x').
Proof.
  induction q as [|r0 q' IH]; intros pend l x; cbn [cu_incoming3].
  - destruct (pendingLength <=? zlen pend); reflexivity.
  - destruct (pendingLength <=? zlen pend); [reflexivity|]. rewrite handle_runner3_l3.
    destruct (handle_runner3 ord cycle x (l_skipped l) (l_pbranch l) (r3_of r0)) as [[[push stop] r1] x1].
    destruct push.
    + rewrite after_push3_l3. destruct (after_push3 x1 l r1) as [x2 l2]. destruct stop; [reflexivity|apply IH].
    + destruct stop; [reflexivity|apply IH].
Qed.

Lemma cu_cycle3_l3 c ord cycle x : cu_cycle3 ord cycle (sl3 c x) = sl3 c (cu_cycle3 ord cycle x).
Proof.
  unfold cu_cycle3. rewrite xebus_sl3, xpend_sl3. destruct (negb (bb_canadd (x_ebus x))); [reflexivity|].
  rewrite cu_pending3_l3. destruct (cu_pending3 ord cycle (x_pend x) [] (mk_cul [] [] false) x) as [[[st p1] l1] x1].
  destruct st; [reflexivity|].
  rewrite xm_sl3, mcbus_ml3, cu_incoming3_l3.
  destruct (cu_incoming3 ord cycle (bb_q (m_cbus (x_m x1))) p1 l1 x1) as [[[q' p2] l2] x2].
  cbv zeta. autorewrite with l3. reflexivity.
Qed.

Lemma front3_l3 c app ord cycle x : front3 app ord cycle (sl3 c x) = lo_x c (front3 app ord cycle x).
Proof.
  rewrite !front3_eq, connected3_sl3. rewrite xm_sl3, mfu_ml3, ml1i_ml3, mdbus_ml3.
  destruct (fu_cycle6 app cycle (m_fu (x_m (connected3 x cycle))) (m_l1i (x_m (connected3 x cycle))) (m_dbus (x_m (connected3 x cycle))))
    as [[[fu1 l1i1] dbus1]|er|]; [|reflexivity|reflexivity].
  autorewrite with l3. rewrite du_cycle3_l3.
  destruct (du_cycle3 app cycle _) as [x1|er|]; [|reflexivity|reflexivity].
  cbn [lo_x]. rewrite cu_cycle3_l3. reflexivity.
Qed.

(* ------------------------------------------------------------------ *)
(* 3. execute units on runners that are neither loads, stores nor branches *)
(* ------------------------------------------------------------------ *)

Definition NMB (r : runner3) : Prop := Mvp80RegOnly.nomem (q_instr r) = true /\ nobranch (q_instr r) = true.

Definition lo3 (c : cache) (o : outcome (mx * eu3 * eu_out3)) : outcome (mx * eu3 * eu_out3) :=
  match o with Ok (x, e, out) => Ok (sl3 c x, e, out) | Err e => Err e | Panic => Panic end.
Definition lr3 (c : cache) (r : eu_res3) : eu_res3 := (fst r, lo3 c (snd r)).

Lemma bu_assert3_sl3 c x r : bu_assert3 (sl3 c x) r = sl3 c (bu_assert3 x r).
Proof.
  unfold bu_assert3. cbv zeta. rewrite xm_sl3, mbu_ml3.
  destruct (InstructionType_IsUnconditionalBranch _); [destruct (btb_get _ _); reflexivity|].
  destruct (InstructionType_IsConditionalBranch _); reflexivity.
Qed.

Lemma eu_run3_l3 c labels ord cycle x e r : g_runner e = Some r -> NMB r ->
  eu_run3 labels ord cycle (sl3 c x) e = lr3 c (eu_run3 labels ord cycle x e).
Proof.
  intros ER [HN HB]. unfold eu_run3. rewrite ER. cbv zeta. rewrite rr3_sl3.
  destruct (instr_Run (q_instr r) (rr3 x (q_pc r)) labels (q_pc r) (g_memory e) 0) as [exe|er|] eqn:EX; [|reflexivity|reflexivity].
  rewrite (Mvp80RegOnly.nomem_no_change _ _ _ _ _ _ _ HN EX).
  rewrite (Mvp71Sim70.run_nobranch_pc _ _ _ _ _ _ _ HN HB EX).
  destruct (Return exe); [reflexivity|].
  cbn [andb bind]. cbv beta iota zeta. unfold lr3. cbn [fst snd].
  destruct (q_fwder r) as [ch|].
  - change (x_chan (set_m (set_forward3 (sl3 c x) (q_pc r) 0 0)
              (set_wbus (x_m (set_forward3 (sl3 c x) (q_pc r) 0 0))
                 (bb_add (m_wbus (x_m (set_forward3 (sl3 c x) (q_pc r) 0 0)))
                    (mk_wb6 (q_seq r) exe (instr_ReadRegisters (q_instr r)) (instr_WriteRegisters (q_instr r))) cycle))))
      with (x_chan x).
    change (x_chan (set_m (set_forward3 x (q_pc r) 0 0)
              (set_wbus (x_m (set_forward3 x (q_pc r) 0 0))
                 (bb_add (m_wbus (x_m (set_forward3 x (q_pc r) 0 0)))
                    (mk_wb6 (q_seq r) exe (instr_ReadRegisters (q_instr r)) (instr_WriteRegisters (q_instr r))) cycle))))
      with (x_chan x).
    destruct (aget ch (x_chan x)); [reflexivity|]. destruct (InstructionType_IsBranch _); reflexivity.
  - rewrite (nobranch_uncond _ HB), (nobranch_cond _ HB). reflexivity.
Qed.

Lemma eu_prepare3_l3 c labels ord cycle x e r : g_runner e = Some r -> NMB r ->
  eu_prepare3 labels ord cycle (sl3 c x) e = lr3 c (eu_prepare3 labels ord cycle x e).
Proof.
  intros ER HN. unfold eu_prepare3. rewrite xm_sl3, mwbus_ml3, ER, xchan_sl3.
  destruct (negb (bb_canadd (m_wbus (x_m x)))); [reflexivity|].
  destruct (q_recv r) as [ch|].
  - destruct (aget ch (x_chan x)) as [v|]; [|reflexivity]. cbv beta iota zeta.
    rewrite set_chan3_sl3, set_forward3_sl3, bu_assert3_sl3, rr3_sl3.
    rewrite !Mvp80RegOnly.nomem_no_read by exact (proj1 HN).
    apply (eu_run3_l3 c labels ord cycle _ _ (mk_r3 (q_r r) (q_id r) (q_fwder r) None (q_freg r))); [reflexivity|exact HN].
  - cbv beta iota zeta. rewrite bu_assert3_sl3, rr3_sl3.
    rewrite !Mvp80RegOnly.nomem_no_read by exact (proj1 HN).
    apply (eu_run3_l3 c labels ord cycle _ _ r); [reflexivity|exact HN].
Qed.

Lemma eu_cycle3_l3 c labels ord cycle x e : g_co e = ENone -> Forall NMB (bb_q (x_ebus x)) ->
  eu_cycle3 labels ord cycle (sl3 c x) e = lr3 c (eu_cycle3 labels ord cycle x e).
Proof.
  intros HC HQ. unfold eu_cycle3. destruct (eu_pre3 e); [reflexivity|]. rewrite HC, xebus_sl3. unfold bb_get.
  destruct (bb_q (x_ebus x)) as [|r q'] eqn:EQ; [reflexivity|]. inversion HQ as [|? ? HN HT]; subst.
  rewrite set_ebus3_sl3. apply (eu_prepare3_l3 c labels ord cycle _ _ r); [reflexivity|exact HN].
Qed.

(* the execute bus after a unit has run *)
Lemma eu_run3_fr labels ord cycle x e r os x' e' o : eu_run3 labels ord cycle x e = (os, Ok (x', e', o)) -> g_runner e = Some r -> NMB r ->
  x_ebus x' = x_ebus x.
Proof.
  intros H ER [HN HB]. unfold eu_run3, quiet3 in H. rewrite ER in H. cbv zeta in H.
  destruct (instr_Run (q_instr r) (rr3 x (q_pc r)) labels (q_pc r) (g_memory e) 0) as [exe|er|] eqn:EX; [| |discriminate H].
  2: { inversion H; subst. reflexivity. }
  rewrite (Mvp80RegOnly.nomem_no_change _ _ _ _ _ _ _ HN EX) in H.
  rewrite (Mvp71Sim70.run_nobranch_pc _ _ _ _ _ _ _ HN HB EX) in H.
  destruct (Return exe); [inversion H; subst; reflexivity|].
  cbn [andb bind] in H. cbv beta iota zeta in H.
  destruct (q_fwder r) as [ch|].
  - destruct (aget ch _); [discriminate H|]. destruct (InstructionType_IsBranch _); [discriminate H|]. inversion H; subst. reflexivity.
  - rewrite (nobranch_uncond _ HB), (nobranch_cond _ HB) in H. inversion H; subst. reflexivity.
Qed.

Lemma bu_assert3_ebus x r : x_ebus (bu_assert3 x r) = x_ebus x.
Proof.
  unfold bu_assert3. cbv zeta. destruct (InstructionType_IsUnconditionalBranch _); [destruct (btb_get _ _); reflexivity|].
  destruct (InstructionType_IsConditionalBranch _); reflexivity.
Qed.

Lemma eu_prepare3_fr labels ord cycle x e r os x' e' o : eu_prepare3 labels ord cycle x e = (os, Ok (x', e', o)) -> g_runner e = Some r -> NMB r ->
  x_ebus x' = x_ebus x.
Proof.
  intros H ER HN. unfold eu_prepare3, quiet3 in H. rewrite ER in H.
  destruct (negb (bb_canadd (m_wbus (x_m x)))); [inversion H; subst; reflexivity|].
  destruct (q_recv r) as [ch|].
  - destruct (aget ch (x_chan x)) as [v|]; [|inversion H; subst; reflexivity]. cbv beta iota zeta in H.
    rewrite Mvp80RegOnly.nomem_no_read in H by exact (proj1 HN).
    apply (eu_run3_fr _ _ _ _ _ (mk_r3 (q_r r) (q_id r) (q_fwder r) None (q_freg r))) in H; [|reflexivity|exact HN].
    rewrite H, bu_assert3_ebus. reflexivity.
  - cbv beta iota zeta in H. rewrite Mvp80RegOnly.nomem_no_read in H by exact (proj1 HN).
    apply (eu_run3_fr _ _ _ _ _ r) in H; [|reflexivity|exact HN].
    rewrite H, bu_assert3_ebus. reflexivity.
Qed.

Lemma eu_cycle3_fr labels ord cycle x e os x' e' o : eu_cycle3 labels ord cycle x e = (os, Ok (x', e', o)) -> g_co e = ENone ->
  Forall NMB (bb_q (x_ebus x)) -> Forall NMB (bb_q (x_ebus x')).
Proof.
  intros H HC HQ. unfold eu_cycle3, quiet3 in H. destruct (eu_pre3 e); [inversion H; subst; exact HQ|]. rewrite HC in H. unfold bb_get in H.
  destruct (bb_q (x_ebus x)) as [|r q'] eqn:EQ; [inversion H; subst; rewrite EQ; exact HQ|]. inversion HQ as [|? ? HN HT]; subst.
  apply (eu_prepare3_fr _ _ _ _ _ r) in H; [|reflexivity|exact HN]. rewrite H. exact HT.
Qed.

Definition lo_eus {A} (c : cache) (o : outcome (mx * list eu3 * A)) : outcome (mx * list eu3 * A) :=
  match o with Ok (x, l, a) => Ok (sl3 c x, l, a) | Err e => Err e | Panic => Panic end.

Lemma eus_main3_l3 c labels ord cycle : forall eus x acc, Forall (fun e => g_co e = ENone) eus -> Forall NMB (bb_q (x_ebus x)) ->
  eus_main3 labels ord cycle (sl3 c x) eus acc =
  (fst (eus_main3 labels ord cycle x eus acc), lo_eus c (snd (eus_main3 labels ord cycle x eus acc))).
Proof.
  induction eus as [|e t IH]; intros x acc HE HQ; [reflexivity|]. inversion HE as [|? ? HE1 HET]; subst.
  cbn [eus_main3]. cbv zeta.
  rewrite (eu_cycle3_l3 c labels ord cycle x (mk_eu3 (g_co e) (g_memory e) (g_runner e) (y_seq acc)) HE1 HQ).
  destruct (eu_cycle3 labels ord cycle x (mk_eu3 (g_co e) (g_memory e) (g_runner e) (y_seq acc))) as [os1 r1] eqn:E1.
  unfold lr3. cbn [fst snd].
  destruct r1 as [[[x1 e1] o]|er|]; cbn [lo3]; [|reflexivity|reflexivity].
  destruct (y_err o); [reflexivity|].
  pose proof (eu_cycle3_fr _ _ _ _ _ _ _ _ _ E1 HE1 HQ) as HQ1.
  rewrite (IH x1 _ HET HQ1).
  destruct (eus_main3 labels ord cycle x1 t _) as [os2 r]. cbn [fst snd].
  destruct r as [[[x2 t'] a2]|er|]; reflexivity.
Qed.

(* ------------------------------------------------------------------ *)
(* 4. write units, the end of Run                                       *)
(* ------------------------------------------------------------------ *)

Definition MC (x : mx) : Prop := Forall (fun e => MemoryChange (w_exe e) = false) (bb_q (m_wbus (x_m x))).

Definition lo_w {A} (c : cache) (o : outcome (mx * A)) : outcome (mx * A) :=
  match o with Ok (x, a) => Ok (sl3 c x, a) | Err e => Err e | Panic => Panic end.

Lemma wu_cycle3_l3 c x w b : u_co w = WNone -> MC x -> wu_cycle3 (sl3 c x) w b = lo_w c (wu_cycle3 x w b).
Proof.
  intros HW HQ. unfold wu_cycle3. rewrite HW. cbv zeta. rewrite xm_sl3, mwbus_ml3. unfold bb_get. unfold MC in HQ.
  destruct (bb_q (m_wbus (x_m x))) as [|e t]; cbv beta iota zeta; [reflexivity|]. inversion HQ as [|? ? H1 HT]; subst.
  destruct (negb (b =? -1) && (b <? w_seq e)); [reflexivity|]. destruct (RegisterChange (w_exe e)); [reflexivity|]. rewrite H1. reflexivity.
Qed.

Lemma wu_cycle3_mc x w b x' w' : wu_cycle3 x w b = Ok (x', w') -> u_co w = WNone -> MC x -> MC x'.
Proof.
  intros H HW HQ. unfold wu_cycle3 in H. rewrite HW in H. cbv zeta in H. unfold bb_get in H. unfold MC in *.
  destruct (bb_q (m_wbus (x_m x))) as [|e t] eqn:EQ; cbv beta iota zeta in H.
  - inversion H; subst. cbn [set_m x_m set_wbus m_wbus]. rewrite EQ. constructor.
  - inversion HQ as [|? ? H1 HT]; subst.
    destruct (negb (b =? -1) && (b <? w_seq e)); [inversion H; subst; exact HT|].
    destruct (RegisterChange (w_exe e)); [inversion H; subst; exact HT|].
    rewrite H1 in H. inversion H; subst. exact HT.
Qed.

Lemma wus_cycle3_l3 c : forall wus x b, Forall (fun u => u_co u = WNone) wus -> MC x ->
  wus_cycle3 (sl3 c x) wus b = lo_w c (wus_cycle3 x wus b).
Proof.
  induction wus as [|w t IH]; intros x b HW HQ; [reflexivity|]. inversion HW as [|? ? HW1 HWT]; subst.
  cbn [wus_cycle3]. rewrite (wu_cycle3_l3 c x w b HW1 HQ).
  destruct (wu_cycle3 x w b) as [[x1 w1]|er|] eqn:E1; [|reflexivity|reflexivity].
  cbn [lo_w bind fst snd]. rewrite (IH x1 b HWT (wu_cycle3_mc _ _ _ _ _ E1 HW1 HQ)).
  destruct (wus_cycle3 x1 t b) as [[x2 t2]|er|]; reflexivity.
Qed.

Lemma finish3_l3 c ord x cy : lines c = [] -> lines (m_l3 (x_m x)) = [] -> finish3 ord (sl3 c x) cy = finish3 ord x cy.
Proof. intros H1 H2. unfold finish3. rewrite xm_sl3, ml3_ml3, mmem_ml3, H1, H2. reflexivity. Qed.

Lemma is_empty3_l3 c x eus wus : is_empty3 (sl3 c x) eus wus = is_empty3 x eus wus.
Proof. reflexivity. Qed.

(* ------------------------------------------------------------------ *)
(* 5. states, the second half of a tick                                 *)
(* ------------------------------------------------------------------ *)

Definition sl3s (c : cache) (s : st3) : st3 := mk_st3 (sl3 c (t_x s)) (t_eus s) (t_wus s) (t_cycle s) (t_mode s).
Definition lift_step (c : cache) (r : step_res3) : step_res3 :=
  match r with TDone r os => TDone r os | TCont s' => TCont (sl3s c s') end.

Lemma ret_check3_l3 c ord x eus wus cy : lines c = [] -> lines (m_l3 (x_m x)) = [] ->
  ret_check3 ord (mk_st3 (sl3 c x) eus wus cy NRet) = lift_step c (ret_check3 ord (mk_st3 x eus wus cy NRet)).
Proof.
  intros H1 H2. unfold ret_check3. cbn [t_eus t_wus t_x t_cycle]. rewrite xm_sl3, mwbus_ml3.
  destruct (forallb eu_empty3 eus && forallb wu_empty wus && bb_isempty (m_wbus (x_m x))); cbn [lift_step]; [|reflexivity].
  rewrite (finish3_l3 c ord x cy H1 H2). reflexivity.
Qed.

Lemma back3_l3 c ord s cy x eus1 o : lines c = [] -> MC x -> Forall (fun u => u_co u = WNone) (t_wus s) ->
  (forall b x1 wus1, wus_cycle3 x (t_wus s) b = Ok (x1, wus1) -> lines (m_l3 (x_m x1)) = []) ->
  back3 ord (sl3s c s) cy (sl3 c x, eus1, o) = lift_step c (back3 ord s cy (x, eus1, o)).
Proof.
  intros H1 HQ HW HL. unfold back3. cbn [sl3s t_wus]. destruct (y_err o); [reflexivity|].
  rewrite (wus_cycle3_l3 c (t_wus s) x _ HW HQ).
  destruct (wus_cycle3 x (t_wus s) (if y_flush o then y_seq o else -1)) as [[x1 wus1]|er|] eqn:EW; [|reflexivity|reflexivity].
  cbn [lo_w res_of3]. pose proof (HL _ _ _ EW) as HL1.
  destruct (y_ret o).
  - rewrite wbus_connect3_sl3. apply ret_check3_l3; [exact H1|exact HL1].
  - destruct (y_flush o); [reflexivity|]. rewrite is_empty3_l3.
    destruct (is_empty3 x1 eus1 wus1); [|reflexivity]. cbn [lift_step]. rewrite (finish3_l3 c ord x1 cy H1 HL1). reflexivity.
Qed.

Print Assumptions front3_l3.
Print Assumptions eus_main3_l3.
Print Assumptions wus_cycle3_l3.
Print Assumptions finish3_l3.
Print Assumptions back3_l3.
