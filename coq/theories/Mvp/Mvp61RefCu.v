(* Refinement of MVP-6.1 to the sequential machine on register-only programs - part 5:
   the control unit.  CUI: the invariant inside controlUnit.cycle (lp runners pushed so
   far in this cycle); handle_ok: one call of handleRunner + the bookkeeping of cycle();
   cu_pending_ok / cu_incoming_ok: the two loops. *)
From Coq Require Import ZArith List Bool Lia Permutation.
From Maj Require Import Base.Outcome Base.GoInt Base.GoTypes Isa.Spec Isa.Embed Isa.Seq Isa.Refine.
From Maj Require Import Gen.Latency Gen.RiscTables Gen.Opcodes Comp.Cache.
From Maj Require Import Mvp.Mvp12 Mvp.Mvp12Proofs Mvp.Mvp3 Mvp.Mvp3Proofs Mvp.Mvp4Skel Mvp.Mvp4Inv Mvp.Mvp5 Mvp.Mvp60 Mvp.Mvp61
     Mvp.Mvp60RefSem Mvp.Mvp60RefDefs Mvp.Mvp60RefFront Mvp.Mvp60RefBack Mvp.Mvp60RefStep
     Mvp.Mvp61RefSem Mvp.Mvp61RefFront Mvp.Mvp61RefBack Mvp.Mvp61RefInv.
Import ListNotations.
Open Scope Z_scope.

(* what the control unit leaves alone *)
Record CuFrame (m0 m : mach1) : Prop := mkCuF {
  cf_regs : m_regs (y_m m) = m_regs (y_m m0); cf_mem : m_mem (y_m m) = m_mem (y_m m0);
  cf_l1i : m_l1i (y_m m) = m_l1i (y_m m0); cf_l3 : m_l3 (y_m m) = m_l3 (y_m m0); cf_pend : m_pend (y_m m) = m_pend (y_m m0);
  cf_fu : m_fu (y_m m) = m_fu (y_m m0); cf_dret : m_dret (y_m m) = m_dret (y_m m0); cf_dpbr : m_dpbr (y_m m) = m_dpbr (y_m m0);
  cf_cu : m_cu (y_m m) = m_cu (y_m m0); cf_bu : m_bu (y_m m) = m_bu (y_m m0); cf_dbus : m_dbus (y_m m) = m_dbus (y_m m0);
  cf_cbus : m_cbus (y_m m) = m_cbus (y_m m0); cf_ebus : m_ebus (y_m m) = m_ebus (y_m m0); cf_wbus : m_wbus (y_m m) = m_wbus (y_m m0);
  cf_seq : x_seq (y_x m) = x_seq (y_x m0); cf_fwd : x_fwd (y_x m) = x_fwd (y_x m0); cf_xcu : x_cu (y_x m) = x_cu (y_x m0);
  cf_prev : x_prev (y_x m) = x_prev (y_x m0); cf_xcbus : x_cbus (y_x m) = x_cbus (y_x m0); cf_ch : x_ch (y_x m) = x_ch (y_x m0) }.

Lemma CuFrame_refl m : CuFrame m m.
Proof. constructor; reflexivity. Qed.
Lemma CuFrame_trans a b c : CuFrame a b -> CuFrame b c -> CuFrame a c.
Proof. intros [] []. constructor; congruence. Qed.
Lemma CuFrame_push1 m cy r : CuFrame m (push1 m cy r).
Proof. constructor; reflexivity. Qed.
Lemma CuFrame_setf m id : CuFrame m (setf m id).
Proof. constructor; reflexivity. Qed.
Lemma CuFrame_pcb m v : CuFrame m (set_x m (xs_pcb (y_x m) v)).
Proof. constructor; reflexivity. Qed.

Lemma BusOK_setf cy bus id ch : BusOK cy bus -> BusOK cy (set_forwarder bus id ch).
Proof.
  intros [H1 H2 H3 H4]. destruct (set_forwarder_len bus id ch) as (A & B & C & D & E). constructor; rewrite ?C, ?D, ?A; auto.
  apply Forall_forall. intros e He. assert (Hin : In (fst e) (map fst (bb_buf (set_forwarder bus id ch)))) by (apply in_map; exact He).
  rewrite E in Hin. apply in_map_iff in Hin as (e0 & E0 & Hin0). rewrite Forall_forall in H4. rewrite <- E0. apply H4. exact Hin0.
Qed.

Section Cu.
  Variables (app : list instr) (labels : Z -> option Z) (regs0 mem0 : list Z) (base : nat) (sq : Z).
  Hypothesis Happ : wf_app app.
  Hypothesis Hreg : reg_only app = true.
  Hypothesis Hrng : regs_in_range app = true.
  Hypothesis Hlen32 : length regs0 = 32%nat.
  Hypothesis Hbase : (base <= length app)%nat.
  Let n := length app.
  Let N := stop_from app base.
  Hypothesis Hsq : 0 <= sq /\ 1000 * sq + 4 * Z.of_nat n < 2147483648.

  Notation sreg := (sreg app labels regs0 base).
  Notation eff := (eff app labels regs0 base).
  Notation ik := (ik app).
  Notation rnq := (rnq app sq).
  Notation r1q := (r1q app sq).
  Notation CoreI := (CoreI app labels regs0 mem0 base sq).
  Notation BackSemF := (BackSemF app labels regs0 base).
  Notation FL1 := (FL1 sq).

  Hypothesis Hsem : forall k, (base <= k <= N)%nat -> (k < n)%nat ->
    exec (sinstr_of (ik k)) (rget (sreg k)) labels (pcz k) [] = Ok (eff k) /\
    (forall a, etarget (eff k) = Some a -> exists t, a = pcz t /\ (k < t <= n)%nat).

  Set Default Proof Using "All".
  Notation "'IA' L" := (L app labels regs0 mem0 base sq Happ Hreg Hrng Hlen32 Hbase Hsq Hsem) (at level 10, L at level 9, only parsing).

  (* inside controlUnit.cycle: lp runners pushed so far, cur = the objects pushed, P = the
     runner being handled; st = a forwarding channel has been made (the loops are over) *)
  Record CUI (cy : Z) (m0 : mach1) (d0 lp : nat) (cur : list runner1) (st : bool) (P : list runner1) (m : mach1) : Prop := mkCUI {
    cu_core : CoreI (d0 + lp) P m;
    cu_frame : CuFrame m0 m;
    cu_q : qlen (x_ebus (y_x m)) = qlen (x_ebus (y_x m0));
    cu_b : blen (x_ebus (y_x m)) = blen (x_ebus (y_x m0)) + Z.of_nat lp;
    cu_rb : map r_b (EB m) = map r_b (EB m0) ++ map rnq (seq d0 lp);
    cu_bus : BusOK cy (x_ebus (y_x m));
    cu_b2 : blen (x_ebus (y_x m)) <= 2;
    cu_prevF : st = false -> forall p, In p (x_prev (y_x m0)) -> In p (EB m) /\ r_fw p = None;
    cu_previd : forall p, In p (x_prev (y_x m0)) -> r_id p < x_nid (y_x m0);
    cu_cur : Forall (fun o => In o (map snd (bb_buf (x_ebus (y_x m)))) /\ r_fw o = None /\ x_nid (y_x m0) <= r_id o) cur;
    cu_nid : x_nid (y_x m0) <= x_nid (y_x m) }.

  Lemma EB_nil_empty m : FL1 m = [] -> bb_isempty (x_ebus (y_x m)) = true /\ EB m = [].
  Proof.
    intros H. unfold Mvp61RefInv.FL1 in H. apply app_eq_nil in H as [H _]. apply map_eq_nil in H. split; [|exact H].
    unfold EB in H. apply flat_nil_inv in H as [A B]. unfold bb_isempty. rewrite A, B. reflexivity.
  Qed.

  Lemma core_zero_sb d P m : CoreI d P m -> FL1 m = [] ->
    (forall s, nth s (m_pw (y_m m)) 0 <= 0) /\ (forall s, nth s (m_pr (y_m m)) 0 <= 0).
  Proof.
    intros HC HF. destruct (c_sem _ _ _ _ _ _ _ _ _ HC) as (fs & HS & _). rewrite HF in HS.
    assert (Hz : forall p, length p = 32%nat -> (forall s, (s < 32)%nat -> nth s p 0 = 0) -> forall s, nth s p 0 <= 0).
    { intros p Lp Hp0 s. destruct (Nat.lt_ge_cases s 32) as [Hs|Hs]; [rewrite Hp0 by exact Hs; lia|]. rewrite nth_overflow by lia. lia. }
    split; apply Hz.
    - apply (bf_pwlen _ _ _ _ _ _ _ _ _ _ HS).
    - intros s Hs. rewrite (bf_pw _ _ _ _ _ _ _ _ _ _ HS s Hs). reflexivity.
    - apply (bf_prlen _ _ _ _ _ _ _ _ _ _ HS).
    - intros s Hs. rewrite (bf_pr _ _ _ _ _ _ _ _ _ _ HS s Hs). reflexivity.
  Qed.

  Lemma core_pcb d P m : CoreI d P m -> (exists r, In r (EB m) /\ condbr (r_instr (r_b r)) = true) ->
    CoreI d P (set_x m (xs_pcb (y_x m) true)).
  Proof.
    intros [H1 H2 H3 H4 H5 H6 H7 H8 H9 H10 H11 H12 H13 H14] Hex.
    constructor; auto. eapply (IA ChI_ext); [| | |exact H11]; reflexivity.
  Qed.

  (* CUI after a push *)
  Lemma cui_push cy m0 d0 lp cur st r m : CUI cy m0 d0 lp cur st [r] m -> bb_canadd (x_ebus (y_x m)) = true ->
    CoreI (S (d0 + lp)) [] (push1 m cy r) -> forall st', (st' = false -> st = false) ->
    CUI cy m0 d0 (S lp) (cur ++ [pobj m r]) st' [] (push1 m cy r).
  Proof.
    intros [G1 G2 G3 G4 G5 G6 G7 G8 G9 G10 G11] Hadd HC st' Hst.
    pose proof (c_P _ _ _ _ _ _ _ _ _ G1) as HP. inversion HP as [|? ? (Hrb & Hrf & _) _]; subst.
    assert (Hb : blen (x_ebus (y_x (push1 m cy r))) = blen (x_ebus (y_x m)) + 1).
    { unfold blen, push1. cbn [y_x xs_nid xs_ebus x_ebus bb_add bb_buf]. rewrite zlen_app, zlen_cons, zlen_nil. lia. }
    assert (Hb2 : blen (x_ebus (y_x m)) < 2).
    { unfold bb_canadd in Hadd. apply negb_true_iff, Z.eqb_neq in Hadd. rewrite (bus_bl _ _ G6) in Hadd. unfold blen in *. lia. }
    constructor.
    - replace (d0 + S lp)%nat with (S (d0 + lp)) by lia. exact HC.
    - eapply CuFrame_trans; [exact G2 | apply CuFrame_push1].
    - rewrite <- G3. reflexivity.
    - rewrite Hb, G4. lia.
    - rewrite EB_push1, map_app, G5, seq_S, map_app, <- app_assoc. cbn [map pobj r_b]. rewrite Hrb. reflexivity.
    - unfold push1. cbn [y_x xs_nid xs_ebus x_ebus]. apply add_ok. exact G6.
    - rewrite Hb. lia.
    - intros E p Hp. destruct (G8 (Hst E) p Hp) as [A B]. split; [rewrite EB_push1; apply in_or_app; left; exact A | exact B].
    - exact G9.
    - apply Forall_app. split.
      + eapply Forall_impl; [|exact G10]. cbn beta. intros o (A & B & C). split; [|split; assumption].
        unfold push1. cbn [y_x xs_nid xs_ebus x_ebus bb_add bb_buf]. rewrite map_app. apply in_or_app. left. exact A.
      + constructor; [|constructor]. split; [|split].
        * unfold push1. cbn [y_x xs_nid xs_ebus x_ebus bb_add bb_buf]. rewrite map_app. apply in_or_app. right. left. reflexivity.
        * exact Hrf.
        * exact G11.
    - unfold push1. cbn [y_x xs_nid x_nid]. lia.
  Qed.

  (* CUI after the Forwarder update *)
  Lemma cui_setf cy m0 d0 lp cur P P' m p : CUI cy m0 d0 lp cur false P m -> In p (x_prev (y_x m0)) ->
    CoreI (d0 + lp) P' (setf m (r_id p)) -> CUI cy m0 d0 lp cur true P' (setf m (r_id p)).
  Proof.
    intros [G1 G2 G3 G4 G5 G6 G7 G8 G9 G10 G11] Hp HC.
    destruct (set_forwarder_len (x_ebus (y_x m)) (r_id p) (x_nch (y_x m))) as (A & B & C & D & E).
    constructor; auto.
    - eapply CuFrame_trans; [exact G2 | apply CuFrame_setf].
    - rewrite <- G3. exact A.
    - rewrite <- G4. exact B.
    - rewrite EB_setf. destruct (map_setfw_b (r_id p) (x_nch (y_x m)) (EB m)) as [Mb _]. rewrite Mb. exact G5.
    - apply BusOK_setf. exact G6.
    - unfold setf. cbn [y_x set_x xs_nch xs_ebus x_ebus]. rewrite B. exact G7.
    - discriminate.
    - eapply Forall_impl; [|exact G10]. cbn beta. intros o (Ha & Hb & Hc). split; [|split; assumption].
      unfold setf, set_forwarder. cbn [y_x set_x xs_nch xs_ebus x_ebus bb_buf]. rewrite map_map. cbn [snd].
      apply in_map_iff in Ha as (e & <- & He). apply in_map_iff. exists e. split; [|exact He].
      unfold setfw. destruct (Z.eqb_spec (r_id (snd e)) (r_id p)) as [Ei|Ei]; [|reflexivity]. specialize (G9 p Hp). lia.
  Qed.

  Lemma cui_pcb cy m0 d0 lp cur st P m : CUI cy m0 d0 lp cur st P m ->
    (exists r, In r (EB m) /\ condbr (r_instr (r_b r)) = true) -> CUI cy m0 d0 lp cur st P (set_x m (xs_pcb (y_x m) true)).
  Proof.
    intros [G1 G2 G3 G4 G5 G6 G7 G8 G9 G10 G11] Hex. constructor; auto.
    - apply core_pcb; assumption.
    - eapply CuFrame_trans; [exact G2 | apply CuFrame_pcb].
  Qed.

  Lemma cui_P cy m0 d0 lp cur st P P' m : CUI cy m0 d0 lp cur st P m -> CoreI (d0 + lp) P' m -> CUI cy m0 d0 lp cur st P' m.
  Proof. intros [G1 G2 G3 G4 G5 G6 G7 G8 G9 G10 G11] HC. constructor; auto. Qed.

  Lemma cui_st cy m0 d0 lp cur P m : CUI cy m0 d0 lp cur false P m -> CUI cy m0 d0 lp cur true P m.
  Proof. intros [G1 G2 G3 G4 G5 G6 G7 G8 G9 G10 G11]. constructor; auto; discriminate. Qed.

  (* handleRunner + what cycle() does with its result *)
  Lemma handle_ok pord cy m0 d0 lp cur m pb r :
    CUI cy m0 d0 lp cur false [r] m -> (d0 + lp < n)%nat -> (d0 + lp <= N)%nat -> (base <= d0)%nat ->
    (pb = true -> FL1 m <> []) ->
    exists os push stop r' obj m1,
      handle_runner1 pord m cy pb [] r = (os, push, stop, r', obj, m1) /\
      ((push = false /\ stop = true /\ CUI cy m0 d0 lp cur true [r] (snd (after_push m1 pb push r')) /\
        CUI cy m0 d0 lp cur true [r'] (snd (after_push m1 pb push r')) /\ FL1 m <> []) \/
       (push = true /\ CUI cy m0 d0 (S lp) (cur ++ [obj]) stop [] (snd (after_push m1 pb push r')) /\
        (fst (after_push m1 pb push r') = true -> FL1 (snd (after_push m1 pb push r')) <> []))).
  Proof.
    intros HG Hdn HdN Hbd Hpb. set (d := (d0 + lp)%nat) in *.
    pose proof (cu_core _ _ _ _ _ _ _ _ HG) as HC.
    pose proof (c_P _ _ _ _ _ _ _ _ _ HC) as HP. inversion HP as [|? ? (Hrb & Hrf & Hone) _]; subst.
    assert (Hri : r_instr (r_b r) = ik d) by (rewrite Hrb; reflexivity).
    (* the blocked outcome *)
    assert (Hblk : FL1 m <> [] -> exists os push stop r' obj m1,
      (false, false, true, r, r, m) = (os, push, stop, r', obj, m1) /\
      ((push = false /\ stop = true /\ CUI cy m0 d0 lp cur true [r] (snd (after_push m1 pb push r')) /\
        CUI cy m0 d0 lp cur true [r'] (snd (after_push m1 pb push r')) /\ FL1 m <> []) \/
       (push = true /\ CUI cy m0 d0 (S lp) (cur ++ [obj]) stop [] (snd (after_push m1 pb push r')) /\
        (fst (after_push m1 pb push r') = true -> FL1 (snd (after_push m1 pb push r')) <> [])))).
    { intros Hne. exists false, false, true, r, r, m. split; [reflexivity|]. left. unfold after_push. cbn [andb snd].
      split; [reflexivity|]. split; [reflexivity|]. split; [apply cui_st; exact HG|]. split; [apply cui_st; exact HG | exact Hne]. }
    unfold handle_runner1. rewrite Hri.
    destruct (InstructionType_IsBranch (instr_InstructionType (ik d)) && pb) eqn:Eb.
    { apply Hblk. apply andb_prop in Eb as [_ Epb]. apply Hpb. exact Epb. }
    destruct ((instr_InstructionType (ik d) =? Ret) && (negb (bb_isempty (x_ebus (y_x m))) || x_pcb (y_x m))) eqn:Eret.
    { apply Hblk. intros HF. destruct (EB_nil_empty m HF) as [Hemp HEn]. rewrite Hemp in Eret. cbn [negb orb] in Eret.
      apply andb_prop in Eret as [_ Epc]. destruct (c_pcb _ _ _ _ _ _ _ _ _ HC Epc) as (r0 & Hin & _). rewrite HEn in Hin. destruct Hin. }
    cbn [skipped_hazard existsb].
    destruct (c_sem _ _ _ _ _ _ _ _ _ HC) as (fs & HS & Hlk).
    assert (Hretgate : is_ret (ik d) = true -> EB m = []).
    { intros Hr. rewrite <- is_ret_type in Hr. rewrite Hr in Eret. cbn [andb] in Eret. apply orb_false_iff in Eret as [Ee _].
      apply negb_false_iff in Ee. apply isempty_flat. exact Ee. }
    (* what a successful push gives *)
    assert (Hpush : forall m' r0 st' stop (G : CUI cy m0 d0 lp cur st' [r0] m'), (stop = false -> st' = false) -> r_b r0 = r_b r ->
              bb_canadd (x_ebus (y_x m')) = true -> CoreI (S d) [] (push1 m' cy r0) ->
              CUI cy m0 d0 (S lp) (cur ++ [pobj m' r0]) stop [] (snd (after_push (push1 m' cy r0) pb true r0)) /\
              (fst (after_push (push1 m' cy r0) pb true r0) = true -> FL1 (snd (after_push (push1 m' cy r0) pb true r0)) <> [])).
    { intros m' r0 st' stop G Hst Hb0 Hadd HC'.
      assert (G' : CUI cy m0 d0 (S lp) (cur ++ [pobj m' r0]) stop [] (push1 m' cy r0)) by (eapply cui_push; eauto).
      assert (HEne : forall mm, EB mm = EB (push1 m' cy r0) -> FL1 mm <> []).
      { intros mm E HF. unfold Mvp61RefInv.FL1 in HF. apply app_eq_nil in HF as [HF _]. rewrite E, EB_push1, map_app in HF.
        apply app_eq_nil in HF as [_ HF]. discriminate HF. }
      unfold after_push. cbn [andb]. rewrite Hb0, Hri.
      destruct (InstructionType_IsConditionalBranch (instr_InstructionType (ik d))) eqn:Ec; cbn [fst snd].
      - split; [|intros _; apply HEne; reflexivity]. apply cui_pcb; [exact G'|].
        exists (pobj m' r0). split; [rewrite EB_push1; apply in_or_app; right; left; reflexivity|].
        unfold pobj. cbn [r_b]. rewrite Hb0, Hri. exact Ec.
      - split; [exact G'|]. intros _. apply HEne. reflexivity. }
    destruct (hazards3 (y_m m) (instr_ReadRegisters (ik d)) (instr_WriteRegisters (ik d))) as [|h0 ht] eqn:Ehz.
    - (* no hazard: pushRunner *)
      rewrite push_runner1_eq. destruct (bb_canadd (x_ebus (y_x m))) eqn:Eadd; cbn [negb].
      + exists false, true, false, r, (pobj m r), (push1 m cy r). split; [reflexivity|]. right. split; [reflexivity|].
        apply (Hpush m r false false HG (fun _ => eq_refl) eq_refl Eadd).
        apply ((IA push_core) d m r cy HC); auto; try lia.
        eapply (IA haz_nil); eassumption.
      + assert (HFne : FL1 m <> []).
        { intros HF. destruct (EB_nil_empty m HF) as [_ HEn]. unfold bb_canadd in Eadd. apply negb_false_iff, Z.eqb_eq in Eadd.
          unfold EB, flat in HEn. apply app_eq_nil in HEn as [_ HEn]. apply map_eq_nil in HEn. rewrite HEn, (bus_bl _ _ (cu_bus _ _ _ _ _ _ _ _ HG)) in Eadd. discriminate. }
        exists false, false, true, r, r, m. split; [reflexivity|]. left. unfold after_push. cbn [andb snd].
        split; [reflexivity|]. split; [reflexivity|]. split; [apply cui_st; exact HG|]. split; [apply cui_st; exact HG | exact HFne].
    - (* hazards: shouldUseForwarding *)
      assert (HFne : FL1 m <> []).
      { intros HF. destruct (core_zero_sb d [r] m HC HF) as [Z1 Z2].
        rewrite (hazards3_zero (y_m m) _ _ Z1 Z2) in Ehz. discriminate. }
      destruct (should_forward pord cy (x_prev (y_x m)) (h0 :: ht) (instr_ReadRegisters (ik d))) as [os sf] eqn:Esf.
      destruct sf as [[p reg]|].
      2:{ exists os, false, true, r, r, m. split; [reflexivity|]. left. unfold after_push. cbn [andb snd].
          split; [reflexivity|]. split; [reflexivity|]. split; [apply cui_st; exact HG|]. split; [apply cui_st; exact HG | exact HFne]. }
      destruct (should_forward_spec _ _ _ _ _ _ _ _ Esf) as ((rh & Eh) & Hpin & Hfm).
      destruct (fwd_match_spec _ _ _ Hfm) as (Hregr & Hnz & Hregw).
      rewrite (cf_prev _ _ (cu_frame _ _ _ _ _ _ _ _ HG)) in Hpin.
      destruct (cu_prevF _ _ _ _ _ _ _ _ HG eq_refl p Hpin) as [HpE Hpf].
      destruct ((IA setf_core) d m r p reg HC HdN Hdn HpE Hpf Hregw Hnz Hregr) as [HC1 HC2].
      change (set_x m (xs_nch (xs_ebus (y_x m) (set_forwarder (x_ebus (y_x m)) (r_id p) (x_nch (y_x m)))) (x_nch (y_x m) + 1)))
        with (setf m (r_id p)).
      set (m1 := setf m (r_id p)) in *. set (r1 := mk_r1 (r_b r) (r_id r) (r_fw r) (Some (x_nch (y_x m))) reg) in *.
      pose proof (cui_setf cy m0 d0 lp cur [r] [r] m p HG Hpin HC1) as G1.
      pose proof (cui_setf cy m0 d0 lp cur [r] [r1] m p HG Hpin HC2) as G2. fold m1 in G1, G2.
      rewrite push_runner1_eq. destruct (bb_canadd (x_ebus (y_x m1))) eqn:Eadd; cbn [negb].
      + exists os, true, true, r1, (pobj m1 r1), (push1 m1 cy r1). split; [reflexivity|]. right. split; [reflexivity|].
        apply (Hpush m1 r1 true true G2 ltac:(discriminate) eq_refl Eadd).
        apply ((IA push_core) d m1 r1 cy HC2); auto; try lia.
        * (* the single hazard is the forwarded register *)
          assert (HFL : FL1 m1 = FL1 m).
          { unfold Mvp61RefInv.FL1, m1. rewrite EB_setf, map_map. f_equal. apply map_ext. intros r0. unfold kr1.
            destruct (setfw_b (r_id p) (x_nch (y_x m)) r0) as (E & _). rewrite E. reflexivity. }
          rewrite HFL. change (rcreg r1) with (Some reg). rewrite Eh in Ehz.
          apply ((IA haz_single) d m fs rh reg HS Ehz Hregr Hnz).
          pose proof (c_e _ _ _ _ _ _ _ _ _ HC) as He. rewrite Forall_forall in He.
          destruct ((IA RunOK1_kr) d p (He p HpE)) as (_ & _ & _ & Epb).
          assert (HjF : In (kr1 p) (FL1 m)) by (unfold Mvp61RefInv.FL1; apply in_or_app; left; apply in_map; exact HpE).
          assert (Hw : In (Z.to_nat reg) (wsl app (kr1 p))).
          { apply slots_in. exists reg. rewrite Epb in Hregw. auto. }
          pose proof (cnt_member_ge1 (wsl app) (FL1 m) (kr1 p) (Z.to_nat reg) HjF) as Hge.
          pose proof (proj2 (cnt1_pos (wsl app (kr1 p)) (Z.to_nat reg)) Hw). lia.
        * intros Hr. specialize (Hretgate Hr). rewrite Hretgate in HpE. destruct HpE.
      + exists os, false, true, r1, r1, m1. split; [reflexivity|]. left. unfold after_push. cbn [andb snd].
        split; [reflexivity|]. split; [reflexivity|]. split; [exact G1|]. split; [exact G2 | exact HFne].
  Qed.
  Lemma cui_from_bus cy m0 d0 lp cur m : CUI cy m0 d0 lp cur false [] m ->
    CUI cy m0 d0 lp cur false [r1q (d0 + lp)] m.
  Proof.
    intros HG. eapply cui_P; [exact HG|]. apply (IA core_P_none); [exact (cu_core _ _ _ _ _ _ _ _ HG) | reflexivity | reflexivity | reflexivity].
  Qed.

  (* for !u.pendings.IsFull() { runner := u.inBus.Get(); ... } *)
  Lemma cu_incoming_ok pord cy m0 d0 : forall q lp cur m pb,
    CUI cy m0 d0 lp cur false [] m -> q = map r1q (seq (d0 + lp) (length q)) ->
    (d0 + lp + length q <= n)%nat -> (d0 + lp + length q <= S N)%nat -> (base <= d0)%nat ->
    (pb = true -> FL1 m <> []) ->
    exists os q' pend' cur' m' lp' st',
      cu_incoming1 pord q [] m cy pb [] cur = (os, q', pend', cur', m') /\
      CUI cy m0 d0 lp' cur' st' pend' m' /\ (lp <= lp')%nat /\ (length pend' <= 1)%nat /\
      (lp' - lp + length pend' + length q' = length q)%nat /\
      q' = map r1q (seq (d0 + lp' + length pend') (length q')) /\
      (FL1 m = [] -> q <> [] -> (lp < lp')%nat).
  Proof.
    induction q as [|r q' IH]; intros lp cur m pb HG Hq Hn HN Hbd Hpb.
    - exists false, [], [], cur, m, lp, false. cbn [cu_incoming1]. change (pendingLength <=? zlen (@nil runner1)) with false. cbn iota.
      split; [reflexivity|]. split; [exact HG|]. split; [lia|]. split; [cbn; lia|]. split; [cbn; lia|]. split; [reflexivity|]. intros _ Hx. contradiction.
    - cbn [length seq map] in Hq. injection Hq as Hr Hq'. cbn [length] in Hn, HN.
      cbn [cu_incoming1]. change (pendingLength <=? zlen (@nil runner1)) with false. cbn iota.
      pose proof (cui_from_bus cy m0 d0 lp cur m HG) as HG1. rewrite <- Hr in HG1.
      destruct (handle_ok pord cy m0 d0 lp cur m pb r HG1 ltac:(lia) ltac:(lia) Hbd Hpb) as (os & push & stop & r' & obj & m1 & Eh & Hcase).
      rewrite Eh. destruct (after_push m1 pb push r') as [pb' m2] eqn:Eap. cbn [fst snd] in Hcase.
      destruct Hcase as [(-> & -> & G1 & G2 & HFne)|(-> & G & Hpb')].
      + exists os, q', [r'], cur, m2, lp, true. cbn [List.app]. split; [reflexivity|]. split; [exact G2|]. split; [lia|]. split; [cbn; lia|].
        split; [cbn [length]; lia|]. split; [cbn [length]; rewrite Hq' at 1; f_equal; f_equal; lia|]. intros HF. contradiction.
      + destruct stop.
        * exists os, q', [], (cur ++ [obj]), m2, (S lp), true. split; [reflexivity|]. split; [exact G|]. split; [lia|]. split; [cbn; lia|].
          split; [cbn [length]; lia|]. split; [cbn [length]; rewrite Hq' at 1; f_equal; f_equal; lia|]. intros _ _. lia.
        * destruct (IH (S lp) (cur ++ [obj]) m2 pb' G ltac:(rewrite Hq' at 1; f_equal; f_equal; lia) ltac:(lia) ltac:(lia) Hbd Hpb')
            as (os2 & q2 & pend2 & cur2 & m3 & lp2 & st2 & E2 & G2 & A1 & A2 & A3 & A4 & _).
          rewrite E2. exists (os || os2), q2, pend2, cur2, m3, lp2, st2. split; [reflexivity|]. split; [exact G2|]. split; [lia|]. split; [exact A2|].
          split; [cbn [length]; lia|]. split; [exact A4|]. intros _ _. lia.
  Qed.

  (* for elem := range u.pendings.Iterator() *)
  Lemma cu_pending_ok pord cy m0 d0 ps : CUI cy m0 d0 0 [] false ps m0 -> (length ps <= 1)%nat ->
    (d0 + length ps <= n)%nat -> (d0 + length ps <= S N)%nat -> (base <= d0)%nat ->
    exists os stopped pend1 pb1 sk1 cur1 m1 lp1 st1,
      cu_pending1 pord ps [] m0 cy false [] [] = (os, stopped, pend1, pb1, sk1, cur1, m1) /\
      CUI cy m0 d0 lp1 cur1 st1 pend1 m1 /\ (lp1 + length pend1 = length ps)%nat /\
      (stopped = false -> pend1 = [] /\ st1 = false /\ sk1 = []) /\
      (pb1 = true -> FL1 m1 <> []) /\
      (FL1 m0 = [] -> ps <> [] -> (0 < lp1)%nat).
  Proof.
    intros HG Hlen Hn HN Hbd. destruct ps as [|r [|r2 t]]; [| |cbn [length] in Hlen; lia].
    - exists false, false, [], false, [], [], m0, O, false. cbn [cu_pending1 rev]. split; [reflexivity|]. split; [exact HG|].
      split; [reflexivity|]. split; [auto|]. split; [discriminate|]. intros _ Hx. contradiction.
    - cbn [length] in Hn, HN. cbn [cu_pending1].
      destruct (handle_ok pord cy m0 d0 0 [] m0 false r HG ltac:(lia) ltac:(lia) Hbd ltac:(discriminate)) as (os & push & stop & r' & obj & m1 & Eh & Hcase).
      rewrite Eh. destruct (after_push m1 false push r') as [pb' m2] eqn:Eap. cbn [fst snd] in Hcase.
      destruct Hcase as [(-> & -> & G1 & G2 & HFne)|(-> & G & Hpb')].
      + exists os, true, [r], pb', ([] ++ [r']), [], m2, O, true. cbn [rev List.app]. split; [reflexivity|]. split; [exact G1|].
        split; [reflexivity|]. split; [discriminate|]. split.
        * unfold after_push in Eap. cbn [andb orb] in Eap. injection Eap as <- _. discriminate.
        * intros HF. contradiction.
      + cbn [List.app] in G. destruct stop.
        * exists os, true, [], pb', [], [obj], m2, 1%nat, true. cbn [rev List.app]. split; [reflexivity|]. split; [exact G|].
          split; [reflexivity|]. split; [discriminate|]. split; [exact Hpb'|]. intros _ _. lia.
        * exists (os || false), false, [], pb', [], [obj], m2, 1%nat, false. cbn [cu_pending1 rev List.app]. split; [reflexivity|]. split; [exact G|].
          split; [reflexivity|]. split; [auto|]. split; [exact Hpb'|]. intros _ _. lia.
  Qed.
End Cu.
