(* Simple facts about the cycle-level model of MVP-6.0 (Mvp60.v).
   1. mvp60_cycles_pos: a run that returns reports at least one cycle.
   2. cu_dispatch_bound: the control unit never fills the execute bus beyond its
      buffer length and keeps at most one runner in its pending queue (given
      that this held before).
   3. run6_ord_irrelevant: soundness of the ghost flag - a run that ends with
      the flag clear returns the same result for all iteration orders of the
      stores' MemoryChanges maps (the Go side is deterministic on it).
   4. mvp60_dispatch_width: the hypotheses of 2 are an invariant of every run
      (run6_st_inv); since NewCPU builds the execute bus with busSize = 2, at
      most TWO instructions are dispatched in any cycle whatever the number of
      execute units (parallelism 3 and 4 cannot raise the issue width). *)
From Coq Require Import ZArith List Bool Lia.
From Maj Require Import Base.Outcome Base.GoInt Base.GoTypes Isa.Spec Isa.Seq.
From Maj Require Import Gen.Latency Gen.RiscTables Gen.Opcodes Comp.Cache Mvp.Mvp12 Mvp.Mvp3 Mvp.Mvp5 Mvp.Mvp60.
Import ListNotations.
Open Scope Z_scope.

(* ------------------------------------------------------------------ *)
(* 1. cycles >= 1                                                       *)
(* ------------------------------------------------------------------ *)

Lemma flush_lines_ge : forall ls mem c0 mem' c,
  flush_lines ls mem c0 = Ok (mem', c) -> c0 <= c.
Proof.
  induction ls as [|l t IH]; intros mem c0 mem' c H; simpl in H.
  - inversion H; lia.
  - destruct (write_to_memory mem (lo l) (data l)) eqn:E; simpl in H; try discriminate.
    apply IH in H. unfold MemoryAccess in H. lia.
Qed.

Lemma finish6_ge : forall m cycle c st, finish6 m cycle = MDone c st -> cycle <= c.
Proof.
  intros m cycle c st H. unfold finish6 in H.
  destruct (flush_lines (lines (m_l3 m)) (m_mem m) 0) as [[mem' c']| |] eqn:E; try discriminate.
  inversion H; subst. apply flush_lines_ge in E. lia.
Qed.

Lemma ret_check_done : forall s c st os, ret_check s = SDone (MDone c st) os -> s_cycle s <= c.
Proof.
  intros s c st os H. unfold ret_check in H.
  destruct (_ && _) in H; try discriminate. inversion H as [[HF HO]]. now apply finish6_ge in HF.
Qed.

Lemma ret_check_cont : forall s s', ret_check s = SCont s' -> s_cycle s' = s_cycle s.
Proof.
  intros s s' H. unfold ret_check in H.
  destruct (_ && _) in H; try discriminate. inversion H; reflexivity.
Qed.

Lemma flush_advance_res : forall s k from pc,
  exists s', flush_advance s k from pc = SCont s' /\ s_cycle s <= s_cycle s'.
Proof.
  intros. unfold flush_advance.
  destruct (flush_next _ _ _); eexists; split; try reflexivity; simpl; unfold Flush; lia.
Qed.

Lemma res_of_inv : forall A os (o : outcome A) k r,
  res_of os o k = r ->
  (exists x, o = Ok x /\ k x = r) \/ (exists e, o = Err e /\ r = SDone (MErr e) os) \/ (o = Panic /\ r = SDone MPanic os).
Proof. intros A os o k r H. destruct o; simpl in H; eauto. Qed.

Ltac res_step H x :=
  apply res_of_inv in H;
  destruct H as [[x [? H]] | [[? [? H]] | [? H]]]; [ | discriminate H | discriminate H ].

(* a step either ends with a cycle count above the current one, or continues
   with a cycle count that did not decrease *)
Lemma back6_done : forall s cycle os x c st os',
  back6 s cycle os x = SDone (MDone c st) os' -> cycle <= c.
Proof.
  intros s cycle os [[m eus1] o] c st os' H. unfold back6 in H.
  res_step H r. destruct r as [m2 wus1].
  destruct (o_ret o).
  - apply ret_check_done in H. simpl in H. lia.
  - destruct (o_flush o).
    + match type of H with flush_advance ?a ?b ?c ?d = _ =>
        destruct (flush_advance_res a b c d) as [s' [E _]]; rewrite E in H; discriminate end.
    + destruct (is_empty6 m2 eus1 wus1); try discriminate.
      inversion H as [[HF HO]]. now apply finish6_ge in HF.
Qed.

Lemma back6_cont : forall s cycle os x s',
  back6 s cycle os x = SCont s' -> cycle <= s_cycle s'.
Proof.
  intros s cycle os [[m eus1] o] s' H. unfold back6 in H.
  res_step H r. destruct r as [m2 wus1].
  destruct (o_ret o).
  - apply ret_check_cont in H. simpl in H. lia.
  - destruct (o_flush o).
    + match type of H with flush_advance ?a ?b ?c ?d = _ =>
        destruct (flush_advance_res a b c d) as [s2 [E L]]; rewrite E in H; inversion H; subst; simpl in L; lia end.
    + destruct (is_empty6 m2 eus1 wus1); try discriminate.
      inversion H; subst; simpl; lia.
Qed.

Lemma drain6_done : forall s os x c st os',
  drain6 s os x = SDone (MDone c st) os' -> s_cycle s + 1 <= c.
Proof.
  intros s os [[m eus1] o] c st os' H. unfold drain6 in H.
  res_step H r. destruct r as [m2 wus1]. apply ret_check_done in H. simpl in H. lia.
Qed.

Lemma drain6_cont : forall s os x s', drain6 s os x = SCont s' -> s_cycle s <= s_cycle s'.
Proof.
  intros s os [[m eus1] o] s' H. unfold drain6 in H.
  res_step H r. destruct r as [m2 wus1]. apply ret_check_cont in H. simpl in H. lia.
Qed.

Lemma step6_done : forall app labels ord s c st os,
  step6 app labels ord s = SDone (MDone c st) os -> s_cycle s + 1 <= c.
Proof.
  intros app labels ord s c st os H. unfold step6 in H.
  destruct (s_mode s) eqn:Em.
  - res_step H m1.
    destruct (eus_cycle _ _ _ _ _ _ _) as [os1 re]. res_step H x. now apply back6_done in H.
  - destruct (eus_cycle _ _ _ _ _ _ _) as [os1 re]. res_step H x. now apply drain6_done in H.
  - destruct (nth_error (s_wus s) k); try discriminate.
    res_step H x.
    match type of H with flush_advance ?a ?b ?c ?d = _ =>
      destruct (flush_advance_res a b c d) as [s' [E _]]; rewrite E in H; discriminate end.
Qed.

Lemma step6_cont : forall app labels ord s s',
  step6 app labels ord s = SCont s' -> s_cycle s <= s_cycle s'.
Proof.
  intros app labels ord s s' H. unfold step6 in H.
  destruct (s_mode s) eqn:Em.
  - res_step H m1.
    destruct (eus_cycle _ _ _ _ _ _ _) as [os1 re]. res_step H x. apply back6_cont in H. lia.
  - destruct (eus_cycle _ _ _ _ _ _ _) as [os1 re]. res_step H x. now apply drain6_cont in H.
  - destruct (nth_error (s_wus s) k); try discriminate.
    res_step H x.
    match type of H with flush_advance ?a ?b ?c ?d = _ =>
      destruct (flush_advance_res a b c d) as [s2 [E L]]; rewrite E in H; inversion H; subst; simpl in L; lia end.
Qed.

Lemma run6_st_cycles : forall fuel app labels ord s c st os,
  run6_st fuel app labels ord s = inl (MDone c st, os) -> s_cycle s + 1 <= c.
Proof.
  induction fuel as [|f IH]; intros app labels ord s c st os H; simpl in H; try discriminate.
  destruct (step6 app labels ord s) as [r os'|s'] eqn:E.
  - inversion H; subst. now apply step6_done in E.
  - apply step6_cont in E. apply IH in H. lia.
Qed.

Lemma run6_cycles : forall fuel app labels ord s c st os,
  run6 fuel app labels ord s = (MDone c st, os) -> s_cycle s + 1 <= c.
Proof.
  intros fuel app labels ord s c st os H. unfold run6 in H.
  destruct (run6_st fuel app labels ord s) as [r|s'] eqn:E; try discriminate.
  subst r. now apply run6_st_cycles in E.
Qed.

Theorem mvp60_cycles_pos : forall par ord fuel app labels st c st',
  mvp60_run par ord fuel app labels st = MDone c st' -> 1 <= c.
Proof.
  intros par ord fuel app labels st c st' H. unfold mvp60_run in H.
  destruct (mvp60_run_os par ord fuel app labels st) as [r os] eqn:E. simpl in H. subst r.
  unfold mvp60_run_os, init6 in E.
  destruct (new_cache l1LineSize l1Size); try discriminate.
  destruct (new_cache l3LineSize l3Size); try discriminate.
  apply run6_cycles in E. simpl in E. lia.
Qed.

(* ------------------------------------------------------------------ *)
(* 2. dispatch width of the control unit                                *)
(* ------------------------------------------------------------------ *)

(* number of entries in the buffer of the execute bus / its bufferLength *)
Definition ebuf (m : mach) : Z := zlen (bb_buf (m_ebus m)).
Definition ebl (m : mach) : Z := bb_bl (m_ebus m).

Lemma zlen_app1 : forall A (l : list A) x, zlen (l ++ [x]) = zlen l + 1.
Proof. intros. unfold zlen. rewrite app_length. simpl. lia. Qed.

Lemma zlen_nonneg : forall A (l : list A), 0 <= zlen l.
Proof. intros. unfold zlen. lia. Qed.

(* handleRunner: every refusal is a stop; a push adds exactly one entry *)
Lemma handle_runner_spec : forall m cycle pushed r push stop m',
  handle_runner m cycle pushed r = (push, stop, m') ->
  stop = negb push /\ ebl m' = ebl m /\ ebuf m' = ebuf m + (if push then 1 else 0) /\
  m_cu m' = m_cu m /\ m_cbus m' = m_cbus m.
Proof.
  intros m cycle pushed r push stop m' H. unfold handle_runner in H.
  destruct (_ && _) in H; [inversion H; subst; repeat split; simpl; lia|].
  destruct (_ && _) in H; [inversion H; subst; repeat split; simpl; lia|].
  destruct (has_hazard6 _ _ _) in H; inversion H; subst; repeat split; simpl; try lia.
  unfold ebuf. simpl. apply zlen_app1.
Qed.

Lemma cu_pending_spec : forall ps kept m cycle remaining pushed stopped rem' pushed' pend' m',
  cu_pending ps kept m cycle remaining pushed = (stopped, rem', pushed', pend', m') ->
  ebl m' = ebl m /\ ebuf m' - ebuf m = remaining - rem' /\ 0 <= remaining - rem' <= Z.of_nat (length ps) /\
  (stopped = false -> pend' = rev kept) /\ (length pend' <= length kept + length ps)%nat /\
  m_cbus m' = m_cbus m.
Proof.
  induction ps as [|r t IH]; intros kept m cycle remaining pushed stopped rem' pushed' pend' m' H; simpl in H.
  - inversion H; subst. rewrite rev_length. repeat split; simpl; try lia.
  - destruct (handle_runner m cycle pushed r) as [[push stop] m1] eqn:E.
    apply handle_runner_spec in E. destruct E as [Es [E1 [E2 [_ E4]]]]. subst stop.
    destruct push; simpl in H.
    + apply IH in H. destruct H as [H1 [H2 [H3 [H4 [H5 H6]]]]].
      rewrite H1, E1, H6, E4. repeat split; auto; simpl length; try lia.
    + inversion H; subst. rewrite !app_length, rev_length. simpl length.
      repeat split; auto; simpl length; try lia; try discriminate.
Qed.

Lemma cu_incoming_spec : forall q pend m cycle remaining pushed q' pend' m',
  cu_incoming q pend m cycle remaining pushed = (q', pend', m') ->
  ebl m' = ebl m /\ ebuf m <= ebuf m' <= ebuf m + Z.max 0 remaining /\
  (length pend' <= length pend + 1)%nat.
Proof.
  induction q as [|r q IH]; intros pend m cycle remaining pushed q' pend' m' H.
  - simpl in H. destruct (negb _) in H; inversion H; subst; repeat split; lia.
  - simpl in H. destruct (negb ((0 <? remaining) && negb (pendingLength <=? zlen pend))) eqn:Ec.
    + inversion H; subst; repeat split; lia.
    + assert (0 < remaining) as Hr.
      { apply negb_false_iff in Ec. apply andb_true_iff in Ec. destruct Ec as [Ec _]. now apply Z.ltb_lt in Ec. }
      destruct (handle_runner m cycle pushed r) as [[push stop] m1] eqn:E.
      apply handle_runner_spec in E. destruct E as [Es [E1 [E2 _]]]. subst stop.
      destruct push; simpl in H.
      * apply IH in H. destruct H as [H1 [H2 H3]]. rewrite H1, E1. repeat split; lia.
      * inversion H; subst. rewrite app_length. simpl length. repeat split; lia.
Qed.

(* controlUnit.cycle keeps the execute bus within its buffer length and its
   own queue at one element at most *)
Theorem cu_dispatch_bound : forall cycle m,
  (length (m_cu m) <= 1)%nat -> ebuf m <= ebl m ->
  ebl (cu_cycle6 cycle m) = ebl m /\
  ebuf m <= ebuf (cu_cycle6 cycle m) <= ebl m /\
  (length (m_cu (cu_cycle6 cycle m)) <= 1)%nat.
Proof.
  intros cycle m Hq Hb. unfold cu_cycle6.
  destruct (negb (bb_canadd (m_ebus m))) eqn:Eca; [repeat split; lia|].
  assert (1 <= bb_remaining (m_ebus m)) as Hrem.
  { apply negb_false_iff in Eca. unfold bb_canadd in Eca. apply negb_true_iff in Eca.
    apply Z.eqb_neq in Eca. unfold bb_remaining. unfold ebuf, ebl in Hb. lia. }
  destruct (cu_pending (m_cu m) [] m cycle (bb_remaining (m_ebus m)) 0) as [[[[stopped rem1] pushed1] pend1] m1] eqn:E1.
  apply cu_pending_spec in E1. destruct E1 as [A1 [A2 [A3 [A4 [A5 A6]]]]]. simpl in A5.
  assert (bb_remaining (m_ebus m) = ebl m - ebuf m) as Er by reflexivity.
  destruct stopped.
  - unfold ebl, ebuf in *. simpl. repeat split; lia.
  - rewrite (A4 eq_refl). simpl rev.
    destruct (cu_incoming (bb_q (m_cbus m1)) [] m1 cycle rem1 pushed1) as [[q' pend2] m2] eqn:E2.
    apply cu_incoming_spec in E2. destruct E2 as [B1 [B2 B3]]. simpl in B3.
    unfold ebl, ebuf in *. simpl. repeat split; lia.
Qed.

(* hence the number of instructions dispatched in one cycle is bounded by the
   free room of the execute bus, itself at most its bufferLength (busSize = 2
   in NewCPU, independently of the number of execute units) *)
Corollary cu_dispatch_le_buslen : forall cycle m,
  (length (m_cu m) <= 1)%nat -> ebuf m <= ebl m ->
  ebuf (cu_cycle6 cycle m) - ebuf m <= ebl m.
Proof.
  intros cycle m Hq Hb. destruct (cu_dispatch_bound cycle m Hq Hb) as [_ [H _]].
  pose proof (zlen_nonneg _ (bb_buf (m_ebus m))). unfold ebuf in *. lia.
Qed.

(* ------------------------------------------------------------------ *)
(* 3. the ghost flag is sound: a run that ends with the flag clear is   *)
(*    the same for every iteration order of the stores' maps            *)
(* ------------------------------------------------------------------ *)

(* ord returns one of the orders the map can be iterated in *)
Definition ord_ok (ord : Z -> Z -> list Z -> list Z) : Prop :=
  forall cycle pc keys, In (ord cycle pc keys) (all_orders keys).

Lemma zlist_eqb_eq : forall a b, zlist_eqb a b = true -> a = b.
Proof.
  induction a as [|x a IH]; destruct b as [|y b]; simpl; intros H; try discriminate; auto.
  apply andb_true_iff in H. destruct H as [H1 H2]. apply Z.eqb_eq in H1. f_equal; auto.
Qed.

Lemma line_eqb_eq : forall a b, line_eqb a b = true -> a = b.
Proof.
  intros [l1 h1 d1] [l2 h2 d2] H. unfold line_eqb in H. simpl in H.
  apply andb_true_iff in H. destruct H as [H H3]. apply andb_true_iff in H. destruct H as [H1 H2].
  apply Z.eqb_eq in H1. apply Z.eqb_eq in H2. apply zlist_eqb_eq in H3. subst. reflexivity.
Qed.

Lemma lines_eqb_eq : forall a b, lines_eqb a b = true -> a = b.
Proof.
  induction a as [|x a IH]; destruct b as [|y b]; simpl; intros H; try discriminate; auto.
  apply andb_true_iff in H. destruct H as [H1 H2]. apply line_eqb_eq in H1. f_equal; auto.
Qed.

Lemma cache_eqb_eq : forall a b, cache_eqb a b = true -> a = b.
Proof.
  intros [n1 l1 ls1] [n2 l2 ls2] H. unfold cache_eqb in H. simpl in H.
  apply andb_true_iff in H. destruct H as [H H3]. apply andb_true_iff in H. destruct H as [H1 H2].
  apply Z.eqb_eq in H1. apply Z.eqb_eq in H2. apply lines_eqb_eq in H3. subst. reflexivity.
Qed.

Lemma pend_eqb_eq : forall a b, pend_eqb a b = true -> a = b.
Proof.
  induction a as [|[x1 x2] a IH]; destruct b as [|[y1 y2] b]; simpl; intros H; try discriminate; auto.
  apply andb_true_iff in H. destruct H as [H H3]. apply andb_true_iff in H. destruct H as [H1 H2].
  apply Z.eqb_eq in H1. apply Z.eqb_eq in H2. subst. f_equal; auto.
Qed.

(* a continuation that does not look at the bytes of a hit cannot tell two
   lookups apart that l3_same identifies with a third *)
Lemma l3_same_bind : forall A r1 r2 r0 (k : cache * list (Z * Z) * l3res -> outcome A),
  l3_same r1 r0 = true -> l3_same r2 r0 = true ->
  (forall c p b1 b2, k (c, p, L3Hit b1) = k (c, p, L3Hit b2)) ->
  bind r1 k = bind r2 k.
Proof.
  intros A r1 r2 r0 k H1 H2 Hk.
  destruct r1 as [[[c1 p1] res1]| |], r0 as [[[c0 p0] res0]| |]; simpl in H1; try discriminate;
  destruct r2 as [[[c2 p2] res2]| |]; simpl in H2; try discriminate; auto.
  apply andb_true_iff in H1. destruct H1 as [H1 K1]. apply andb_true_iff in H1. destruct H1 as [C1 P1].
  apply andb_true_iff in H2. destruct H2 as [H2 K2]. apply andb_true_iff in H2. destruct H2 as [C2 P2].
  apply cache_eqb_eq in C1. apply cache_eqb_eq in C2. apply pend_eqb_eq in P1. apply pend_eqb_eq in P2. subst.
  simpl. destruct res1, res0; try discriminate; destruct res2; try discriminate; auto.
Qed.

Lemma som_false : forall c p keys o,
  store_order_matters c p keys = false -> In o (all_orders keys) ->
  l3_same (get_from_l3 c p o []) (get_from_l3 c p keys []) = true.
Proof.
  intros c p keys o H Hin. unfold store_order_matters in H. apply negb_false_iff in H.
  rewrite forallb_forall in H. now apply H.
Qed.

Lemma eu_run_exe_ord : forall ord1 ord2 cycle m e r exe,
  ord_ok ord1 -> ord_ok ord2 ->
  negb (Return exe) && MemoryChange exe &&
    store_order_matters (m_l3 m) (m_pend m) (map fst (sort_changes (MemoryChanges exe))) = false ->
  eu_run_exe ord1 cycle m e r exe = eu_run_exe ord2 cycle m e r exe.
Proof.
  intros ord1 ord2 cycle m e r exe O1 O2 H. unfold eu_run_exe.
  destruct (Return exe); [reflexivity|].
  destruct (MemoryChange exe); [|reflexivity].
  simpl in H.
  f_equal.
  apply l3_same_bind with (r0 := get_from_l3 (m_l3 m) (m_pend m) (map fst (sort_changes (MemoryChanges exe))) []).
  - apply som_false; auto.
  - apply som_false; auto.
  - intros; reflexivity.
Qed.

Lemma eu_run6_fst : forall labels ord1 ord2 cycle m e,
  fst (eu_run6 labels ord1 cycle m e) = fst (eu_run6 labels ord2 cycle m e).
Proof.
  intros. unfold eu_run6. destruct (e_runner e); [|reflexivity].
  destruct (instr_Run _ _ _ _ _ _); reflexivity.
Qed.

Lemma eu_run6_ord : forall labels ord1 ord2 cycle m e,
  ord_ok ord1 -> ord_ok ord2 -> fst (eu_run6 labels ord1 cycle m e) = false ->
  eu_run6 labels ord1 cycle m e = eu_run6 labels ord2 cycle m e.
Proof.
  intros labels ord1 ord2 cycle m e O1 O2 H. unfold eu_run6 in *.
  destruct (e_runner e); [|reflexivity].
  destruct (instr_Run _ _ _ _ _ _); try reflexivity.
  simpl in H. f_equal. now apply eu_run_exe_ord.
Qed.

Lemma eu_prepare6_ord : forall labels ord1 ord2 cycle m e,
  ord_ok ord1 -> ord_ok ord2 -> fst (eu_prepare6 labels ord1 cycle m e) = false ->
  eu_prepare6 labels ord1 cycle m e = eu_prepare6 labels ord2 cycle m e.
Proof.
  intros labels ord1 ord2 cycle m e O1 O2 H. unfold eu_prepare6 in *.
  destruct (negb (bb_canadd (m_wbus m))); [reflexivity|].
  destruct (e_runner e); [|reflexivity].
  destruct (instr_MemoryRead _ _ _); [|reflexivity].
  now apply eu_run6_ord.
Qed.

Lemma eu_cycle6_ord : forall labels ord1 ord2 cycle m e,
  ord_ok ord1 -> ord_ok ord2 -> fst (eu_cycle6 labels ord1 cycle m e) = false ->
  eu_cycle6 labels ord1 cycle m e = eu_cycle6 labels ord2 cycle m e.
Proof.
  intros labels ord1 ord2 cycle m e O1 O2 H. unfold eu_cycle6 in *.
  destruct (e_co e).
  - destruct (bb_get (m_ebus m)) as [ebus' [r|]]; [|reflexivity]. now apply eu_prepare6_ord.
  - now apply eu_prepare6_ord.
  - destruct (0 <? rem); [reflexivity|]. now apply eu_run6_ord.
  - destruct (0 <? rem); [reflexivity|].
    destruct (eu_fill6 m e addrs) as [[m1 e1]| |]; try reflexivity. now apply eu_run6_ord.
Qed.

Lemma eus_cycle_ord : forall labels ord1 ord2 cycle skip eus m acc,
  ord_ok ord1 -> ord_ok ord2 -> fst (eus_cycle labels ord1 cycle skip m eus acc) = false ->
  eus_cycle labels ord1 cycle skip m eus acc = eus_cycle labels ord2 cycle skip m eus acc.
Proof.
  intros labels ord1 ord2 cycle skip eus. induction eus as [|e t IH]; intros m acc O1 O2 H; [reflexivity|].
  simpl in *. destruct (skip && eu_empty e).
  - destruct (eus_cycle labels ord1 cycle skip m t acc) as [os r] eqn:E1.
    simpl in H. subst os.
    rewrite <- (IH m acc O1 O2) by (rewrite E1; reflexivity). rewrite E1. reflexivity.
  - destruct (eu_cycle6 labels ord1 cycle m e) as [os1 r1] eqn:E1.
    assert (os1 = false) as Hos1.
    { destruct r1 as [[[m1 e1] o]| |]; simpl in H; auto.
      destruct (eus_cycle labels ord1 cycle skip m1 t _) as [os2 r]. simpl in H.
      apply orb_false_iff in H. tauto. }
    subst os1.
    rewrite <- (eu_cycle6_ord labels ord1 ord2 cycle m e O1 O2) by (rewrite E1; reflexivity). rewrite E1.
    destruct r1 as [[[m1 e1] o]| |]; try reflexivity.
    match goal with |- context [eus_cycle labels ord1 cycle skip m1 t ?a] =>
      destruct (eus_cycle labels ord1 cycle skip m1 t a) as [os2 r] eqn:E2;
      simpl in H; subst os2;
      rewrite <- (IH m1 a O1 O2) by (rewrite E2; reflexivity); rewrite E2 end.
    reflexivity.
Qed.

(* the flag a step ends with *)
Definition res_os (r : step_res) : bool := match r with SDone _ os => os | SCont s' => s_os s' end.

Lemma res_of_os : forall A os (o : outcome A) k,
  (forall x, res_os (k x) = os) -> res_os (res_of os o k) = os.
Proof. intros A os o k H. destruct o; simpl; auto. Qed.

Lemma ret_check_os : forall s, res_os (ret_check s) = s_os s.
Proof. intros s. unfold ret_check. destruct (_ && _); reflexivity. Qed.

Lemma flush_advance_os : forall s k from pc, res_os (flush_advance s k from pc) = s_os s.
Proof. intros. unfold flush_advance. destruct (flush_next _ _ _); reflexivity. Qed.

Lemma back6_os : forall s cycle os x, res_os (back6 s cycle os x) = os.
Proof.
  intros s cycle os [[m eus1] o]. unfold back6. apply res_of_os. intros [m2 wus1].
  destruct (o_ret o); [apply ret_check_os|].
  destruct (o_flush o); [apply flush_advance_os|].
  destruct (is_empty6 m2 eus1 wus1); reflexivity.
Qed.

Lemma drain6_os : forall s os x, res_os (drain6 s os x) = os.
Proof.
  intros s os [[m eus1] o]. unfold drain6. apply res_of_os. intros [m2 wus1]. apply ret_check_os.
Qed.

Lemma step6_ord : forall app labels ord1 ord2 s,
  ord_ok ord1 -> ord_ok ord2 -> res_os (step6 app labels ord1 s) = false ->
  step6 app labels ord1 s = step6 app labels ord2 s /\ s_os s = false.
Proof.
  intros app labels ord1 ord2 s O1 O2 H. unfold step6 in *.
  destruct (s_mode s).
  - destruct (front6 app (s_cycle s + 1) (s_m s)) as [m1| |]; cbn [res_of] in *; auto.
    destruct (eus_cycle labels ord1 (s_cycle s + 1) false m1 (s_eus s) euo_none) as [os1 re] eqn:E1.
    pose proof (eus_cycle_ord labels ord1 ord2 (s_cycle s + 1) false (s_eus s) m1 euo_none O1 O2) as HE.
    rewrite E1 in HE. cbn [fst] in HE.
    rewrite res_of_os in H by (intros x; apply back6_os).
    apply orb_false_iff in H. destruct H as [Hs Ho]. subst os1.
    rewrite <- HE by reflexivity. auto.
  - destruct (eus_cycle labels ord1 (s_cycle s) true (s_m s) (s_eus s) euo_none) as [os1 re] eqn:E1.
    pose proof (eus_cycle_ord labels ord1 ord2 (s_cycle s) true (s_eus s) (s_m s) euo_none O1 O2) as HE.
    rewrite E1 in HE. cbn [fst] in HE.
    rewrite res_of_os in H by (intros x; apply drain6_os).
    apply orb_false_iff in H. destruct H as [Hs Ho]. subst os1.
    rewrite <- HE by reflexivity. auto.
  - split; [reflexivity|].
    destruct (nth_error (s_wus s) k); [|exact H].
    rewrite res_of_os in H; auto. intros x. rewrite flush_advance_os. reflexivity.
Qed.

(* the flag a run ends with *)
Definition final_os (r : (mres * bool) + st6) : bool :=
  match r with inl (_, os) => os | inr s' => s_os s' end.

Theorem run6_st_ord_irrelevant : forall fuel app labels ord1 ord2 s,
  ord_ok ord1 -> ord_ok ord2 -> final_os (run6_st fuel app labels ord1 s) = false ->
  run6_st fuel app labels ord1 s = run6_st fuel app labels ord2 s /\ s_os s = false.
Proof.
  induction fuel as [|f IH]; intros app labels ord1 ord2 s O1 O2 H; simpl in *; [auto|].
  destruct (step6 app labels ord1 s) as [r os|s'] eqn:E.
  - simpl in H. subst os.
    destruct (step6_ord app labels ord1 ord2 s O1 O2) as [E2 Hs]; [rewrite E; reflexivity|].
    rewrite <- E2, E. auto.
  - destruct (IH app labels ord1 ord2 s' O1 O2 H) as [R Hs'].
    destruct (step6_ord app labels ord1 ord2 s O1 O2) as [E2 Hs]; [rewrite E; exact Hs'|].
    rewrite <- E2, E. auto.
Qed.

(* a run of MVP-6.0 that ends with the ghost flag clear returns the same result
   whatever the iteration orders of the stores' MemoryChanges maps *)
Theorem run6_ord_irrelevant : forall par fuel app labels st ord1 ord2 r,
  ord_ok ord1 -> ord_ok ord2 ->
  mvp60_run_os par ord1 fuel app labels st = (r, false) ->
  mvp60_run_os par ord2 fuel app labels st = (r, false).
Proof.
  intros par fuel app labels st ord1 ord2 r O1 O2 H. unfold mvp60_run_os in *.
  destruct (init6 par st) as [s| |]; auto.
  unfold run6 in *.
  destruct (run6_st_ord_irrelevant fuel app labels ord1 ord2 s O1 O2) as [E _].
  - destruct (run6_st fuel app labels ord1 s) as [[r1 os1]|s1]; inversion H; reflexivity.
  - rewrite <- E. exact H.
Qed.

(* the uniform policies of the correspondence check (ord_policy k, k = 0..23) on the 4-key map of a
   sw and the 2-key map of a sh are iteration orders in the sense of ord_ok *)
Lemma ord_policy_ok4 : forall a b c d k, (k < 24)%nat ->
  In (perm_of (Z.of_nat k) [a; b; c; d]) (all_orders [a; b; c; d]).
Proof.
  intros a b c d k Hk. unfold all_orders. apply in_map_iff. exists k. split; [reflexivity|].
  apply in_seq. simpl. lia.
Qed.

Lemma ord_policy_ok2 : forall a b k, (k < 24)%nat ->
  In (perm_of (Z.of_nat k) [a; b]) (all_orders [a; b]).
Proof.
  intros a b k Hk.
  do 24 (destruct k as [|k]; [cbv; tauto|]). lia.
Qed.

(* ------------------------------------------------------------------ *)
(* 4. an invariant of every run: the control unit always finds its own  *)
(*    queue with at most one runner and the execute bus within its      *)
(*    buffer length 2; hence at most two dispatches in every cycle       *)
(* ------------------------------------------------------------------ *)

(* the control-unit queue and the buffer of the execute bus are untouched *)
Definition same_cu (m m' : mach) : Prop :=
  m_cu m' = m_cu m /\ bb_buf (m_ebus m') = bb_buf (m_ebus m) /\ bb_bl (m_ebus m') = bb_bl (m_ebus m).

Lemma same_cu_refl : forall m, same_cu m m.
Proof. intros; repeat split. Qed.
Lemma same_cu_trans : forall a b c, same_cu a b -> same_cu b c -> same_cu a c.
Proof. unfold same_cu. intros a b c [A1 [A2 A3]] [B1 [B2 B3]]. repeat split; congruence. Qed.

Ltac crush :=
  repeat match goal with
         | H : context [match ?x with _ => _ end] |- _ => destruct x eqn:?; try discriminate
         end;
  repeat match goal with
         | H : Ok _ = Ok _ |- _ => inversion H; clear H; subst
         | H : (_, _) = (_, _) |- _ => inversion H; clear H; subst
         end.

Lemma eu_run_exe_same : forall ord cycle m e r exe m' e' o,
  eu_run_exe ord cycle m e r exe = Ok (m', e', o) -> same_cu m m'.
Proof.
  intros ord cycle m e r exe m' e' o H. unfold eu_run_exe, bind in H.
  crush; unfold same_cu; simpl; auto.
Qed.

Lemma eu_run6_same : forall labels ord cycle m e m' e' o,
  snd (eu_run6 labels ord cycle m e) = Ok (m', e', o) -> same_cu m m'.
Proof.
  intros labels ord cycle m e m' e' o H. unfold eu_run6, quiet in H.
  destruct (e_runner e); [|discriminate].
  destruct (instr_Run _ _ _ _ _ _); try discriminate. simpl in H. now apply eu_run_exe_same in H.
Qed.

Lemma bu_assert6_same : forall m r, same_cu m (bu_assert6 m r).
Proof.
  intros m r. unfold bu_assert6.
  destruct (InstructionType_IsUnconditionalBranch _); [destruct (btb_get _ _)|destruct (InstructionType_IsConditionalBranch _)];
    unfold same_cu; simpl; auto.
Qed.

Lemma eu_prepare6_same : forall labels ord cycle m e m' e' o,
  snd (eu_prepare6 labels ord cycle m e) = Ok (m', e', o) -> same_cu m m'.
Proof.
  intros labels ord cycle m e m' e' o H. unfold eu_prepare6, quiet in H.
  destruct (negb (bb_canadd (m_wbus m))); [simpl in H; inversion H; subst; apply same_cu_refl|].
  destruct (e_runner e) as [r|]; [|discriminate].
  destruct (instr_MemoryRead _ _ _).
  - apply eu_run6_same in H. eapply same_cu_trans; [apply bu_assert6_same|exact H].
  - simpl in H. unfold bind in H.
    eapply same_cu_trans; [apply (bu_assert6_same m r)|].
    crush; unfold same_cu; simpl; auto.
Qed.

Lemma eu_fill6_same : forall m e addrs m1 e1, eu_fill6 m e addrs = Ok (m1, e1) -> same_cu m m1.
Proof.
  intros m e addrs m1 e1 H. unfold eu_fill6, bind in H.
  crush; unfold same_cu; simpl; auto.
Qed.

Lemma eu_cycle6_same : forall labels ord cycle m e m' e' o,
  snd (eu_cycle6 labels ord cycle m e) = Ok (m', e', o) -> same_cu m m'.
Proof.
  intros labels ord cycle m e m' e' o H. unfold eu_cycle6, quiet in H.
  destruct (e_co e).
  - unfold bb_get in H. destruct (bb_q (m_ebus m)) as [|r q].
    + simpl in H. inversion H; subst. apply same_cu_refl.
    + apply eu_prepare6_same in H. eapply same_cu_trans; [|exact H]. unfold same_cu; simpl; auto.
  - now apply eu_prepare6_same in H.
  - destruct (0 <? rem); [simpl in H; inversion H; subst; apply same_cu_refl|]. now apply eu_run6_same in H.
  - destruct (0 <? rem); [simpl in H; inversion H; subst; apply same_cu_refl|].
    destruct (eu_fill6 m e addrs) as [[m1 e1]| |] eqn:E; try discriminate.
    apply eu_fill6_same in E. apply eu_run6_same in H. eapply same_cu_trans; eauto.
Qed.

Lemma eus_cycle_same : forall labels ord cycle skip eus m acc m' eus' acc',
  snd (eus_cycle labels ord cycle skip m eus acc) = Ok (m', eus', acc') -> same_cu m m'.
Proof.
  intros labels ord cycle skip eus. induction eus as [|e t IH]; intros m acc m' eus' acc' H; simpl in H.
  - inversion H; subst. apply same_cu_refl.
  - destruct (skip && eu_empty e).
    + destruct (eus_cycle labels ord cycle skip m t acc) as [os r] eqn:E. simpl in H.
      destruct r as [[[m2 t'] acc2]| |]; simpl in H; try discriminate. inversion H; subst.
      apply (IH m acc m' t' acc'). rewrite E. reflexivity.
    + destruct (eu_cycle6 labels ord cycle m e) as [os1 r1] eqn:E1.
      destruct r1 as [[[m1 e1] o]| |]; try discriminate.
      assert (same_cu m m1) as S1 by (apply (eu_cycle6_same labels ord cycle m e m1 e1 o); rewrite E1; reflexivity).
      match type of H with context [eus_cycle labels ord cycle skip m1 t ?a] =>
        destruct (eus_cycle labels ord cycle skip m1 t a) as [os2 r] eqn:E2; simpl in H;
        destruct r as [[[m2 t'] acc2]| |]; simpl in H; try discriminate; inversion H; subst;
        eapply same_cu_trans; [exact S1|]; apply (IH m1 a m' t' acc'); rewrite E2; reflexivity end.
Qed.

Lemma wu_cycle6_same : forall m w before m' w', wu_cycle6 m w before = Ok (m', w') -> same_cu m m'.
Proof.
  intros m w before m' w' H. unfold wu_cycle6, bb_get in H.
  crush; unfold same_cu; simpl; auto.
Qed.

Lemma wus_cycle_same : forall wus m before m' wus', wus_cycle m wus before = Ok (m', wus') -> same_cu m m'.
Proof.
  induction wus as [|w t IH]; intros m before m' wus' H; simpl in H.
  - inversion H; subst. apply same_cu_refl.
  - unfold bind in H. destruct (wu_cycle6 m w before) as [[m1 w1]| |] eqn:E; try discriminate.
    simpl in H. destruct (wus_cycle m1 t before) as [[m2 t']| |] eqn:E2; try discriminate.
    inversion H; subst. simpl. eapply same_cu_trans; [eapply wu_cycle6_same; eauto|eapply IH; eauto].
Qed.

Lemma du_cycle6_same : forall app cycle m m', du_cycle6 app cycle m = Ok m' -> same_cu m m'.
Proof.
  intros app cycle m m' H. unfold du_cycle6, bind in H.
  crush; unfold same_cu; simpl; auto.
Qed.

(* ---- the invariant ---- *)
Definition inv6 (m : mach) : Prop := (length (m_cu m) <= 1)%nat /\ ebuf m <= ebl m /\ ebl m = 2.

Lemma same_cu_inv : forall m m', same_cu m m' -> inv6 m -> inv6 m'.
Proof.
  unfold same_cu, inv6, ebuf, ebl. intros m m' [A [B C]] [I1 [I2 I3]]. rewrite A, B, C. auto.
Qed.

Lemma bb_connect_loop_len : forall T ql c (buf : list (Z * T)) q q' buf',
  bb_connect_loop ql c q buf = (q', buf') -> (length buf' <= length buf)%nat.
Proof.
  induction buf as [|[a t] buf IH]; intros q q' buf' H; simpl in H.
  - inversion H; auto.
  - destruct (zlen q =? ql); [inversion H; auto|].
    destruct (a >? c); [inversion H; auto|]. apply IH in H. simpl. lia.
Qed.

Lemma bb_connect_buf : forall T (b : bbus T) c,
  zlen (bb_buf (bb_connect b c)) <= zlen (bb_buf b) /\ bb_bl (bb_connect b c) = bb_bl b.
Proof.
  intros T b c. unfold bb_connect. destruct (zlen (bb_q b) =? bb_ql b); [split; [lia|reflexivity]|].
  destruct (bb_connect_loop (bb_ql b) c (bb_q b) (bb_buf b)) as [q buf] eqn:E. simpl.
  apply bb_connect_loop_len in E. unfold zlen. split; [lia|reflexivity].
Qed.

(* the four Connect calls at the beginning of a cycle *)
Definition connected (m : mach) (cycle : Z) : mach :=
  set_wbus (set_ebus (set_cbus (set_dbus m (bb_connect (m_dbus m) cycle)) (bb_connect (m_cbus m) cycle))
                     (bb_connect (m_ebus m) cycle)) (bb_connect (m_wbus m) cycle).

Lemma front6_eq : forall app cycle m,
  front6 app cycle m =
  match fu_cycle6 app cycle (m_fu (connected m cycle)) (m_l1i (connected m cycle)) (m_dbus (connected m cycle)) with
  | Ok (fu1, l1i1, dbus1) =>
      match du_cycle6 app cycle (set_dbus (set_l1i (set_fu (connected m cycle) fu1) l1i1) dbus1) with
      | Ok mdu => Ok (cu_cycle6 cycle mdu)
      | Err e => Err e
      | Panic => Panic
      end
  | Err e => Err e
  | Panic => Panic
  end.
Proof. reflexivity. Qed.

Lemma connected_inv : forall m cycle f l d2,
  inv6 m -> inv6 (set_dbus (set_l1i (set_fu (connected m cycle) f) l) d2).
Proof.
  intros m cycle f l d2 [I1 [I2 I3]].
  destruct (bb_connect_buf _ (m_ebus m) cycle) as [C1 C2].
  unfold inv6, ebuf, ebl in *.
  cbn [connected m_cu m_ebus set_dbus set_l1i set_fu set_wbus set_ebus set_cbus]. rewrite C2. repeat split; auto; lia.
Qed.

(* front6 hands the control unit a machine satisfying the invariant, and keeps it *)
Theorem front6_inv : forall app cycle m m',
  inv6 m -> front6 app cycle m = Ok m' ->
  exists mdu, inv6 mdu /\ m' = cu_cycle6 cycle mdu /\ inv6 m'.
Proof.
  intros app cycle m m' I H. rewrite front6_eq in H.
  destruct (fu_cycle6 app cycle _ _ _) as [[[fu1 l1i1] dbus1]| |]; try discriminate H.
  destruct (du_cycle6 app cycle _) as [mdu| |] eqn:Ed; try discriminate H.
  injection H as H. subst m'. apply du_cycle6_same in Ed.
  assert (inv6 mdu) as Idu by (apply (same_cu_inv _ _ Ed); now apply connected_inv).
  exists mdu. split; [exact Idu|]. split; [reflexivity|].
  destruct Idu as [J1 [J2 J3]]. destruct (cu_dispatch_bound cycle mdu J1 J2) as [K1 [K2 K3]].
  unfold inv6. rewrite K1. repeat split; [exact K3 | lia | exact J3].
Qed.

(* at most two instructions are dispatched per cycle *)
Corollary dispatch_width : forall cycle mdu,
  inv6 mdu -> 0 <= ebuf (cu_cycle6 cycle mdu) - ebuf mdu <= 2.
Proof.
  intros cycle mdu [J1 [J2 J3]]. destruct (cu_dispatch_bound cycle mdu J1 J2) as [_ [K _]].
  pose proof (zlen_nonneg _ (bb_buf (m_ebus mdu))). unfold ebuf in *. lia.
Qed.

Lemma set_wbus_inv : forall m x, inv6 m -> inv6 (set_wbus m x).
Proof. intros m x I. exact I. Qed.

Lemma do_flush6_inv : forall m pc, inv6 m -> inv6 (do_flush6 m pc).
Proof.
  intros m pc [I1 [I2 I3]]. unfold inv6, ebuf, ebl in *. simpl. repeat split; auto; unfold zlen; simpl; lia.
Qed.

Lemma ret_check_inv : forall s s', inv6 (s_m s) -> ret_check s = SCont s' -> inv6 (s_m s').
Proof.
  intros s s' I H. unfold ret_check in H. destruct (_ && _); try discriminate. inversion H; subst. exact I.
Qed.

Lemma flush_advance_inv : forall s k from pc s',
  inv6 (s_m s) -> flush_advance s k from pc = SCont s' -> inv6 (s_m s').
Proof.
  intros s k from pc s' I H. unfold flush_advance in H.
  destruct (flush_next _ _ _); inversion H; subst; simpl; auto. now apply do_flush6_inv.
Qed.

Lemma back6_inv : forall s cycle os m eus o s',
  inv6 m -> back6 s cycle os (m, eus, o) = SCont s' -> inv6 (s_m s').
Proof.
  intros s cycle os m eus o s' I H. unfold back6 in H.
  destruct (wus_cycle m (s_wus s) (-1)) as [[m2 wus1]| |] eqn:E; cbn [res_of] in H; try discriminate.
  apply wus_cycle_same in E. pose proof (same_cu_inv _ _ E I) as I2.
  destruct (o_ret o); [apply ret_check_inv in H; auto|].
  destruct (o_flush o); [apply flush_advance_inv in H; auto|].
  destruct (is_empty6 m2 eus wus1); try discriminate. inversion H; subst. exact I2.
Qed.

Lemma drain6_inv : forall s os m eus o s',
  inv6 m -> drain6 s os (m, eus, o) = SCont s' -> inv6 (s_m s').
Proof.
  intros s os m eus o s' I H. unfold drain6 in H.
  destruct (wus_cycle m (s_wus s) (-1)) as [[m2 wus1]| |] eqn:E; cbn [res_of] in H; try discriminate.
  apply wus_cycle_same in E. pose proof (same_cu_inv _ _ E I) as I2.
  apply ret_check_inv in H; auto.
Qed.

Theorem step6_inv : forall app labels ord s s',
  inv6 (s_m s) -> step6 app labels ord s = SCont s' -> inv6 (s_m s').
Proof.
  intros app labels ord s s' I H. unfold step6 in H.
  destruct (s_mode s).
  - destruct (front6 app (s_cycle s + 1) (s_m s)) as [m1| |] eqn:Ef; cbn [res_of] in H; try discriminate.
    destruct (front6_inv _ _ _ _ I Ef) as [mdu [_ [_ I1]]].
    destruct (eus_cycle labels ord (s_cycle s + 1) false m1 (s_eus s) euo_none) as [os1 re] eqn:E.
    destruct re as [[[m2 eus1] o]| |]; cbn [res_of] in H; try discriminate.
    assert (same_cu m1 m2) as S by (eapply eus_cycle_same; rewrite E; reflexivity).
    eapply back6_inv; [|exact H]. eapply same_cu_inv; eauto.
  - destruct (eus_cycle labels ord (s_cycle s) true (s_m s) (s_eus s) euo_none) as [os1 re] eqn:E.
    destruct re as [[[m2 eus1] o]| |]; cbn [res_of] in H; try discriminate.
    assert (same_cu (s_m s) m2) as S by (eapply eus_cycle_same; rewrite E; reflexivity).
    eapply drain6_inv; [|exact H]. eapply same_cu_inv; eauto.
  - destruct (nth_error (s_wus s) k); try discriminate.
    destruct (wu_cycle6 (s_m s) w from) as [[m2 w2]| |] eqn:E; cbn [res_of] in H; try discriminate.
    apply wu_cycle6_same in E. eapply flush_advance_inv; [|exact H]. simpl. eapply same_cu_inv; eauto.
Qed.

Lemma init6_inv : forall par st s, init6 par st = Ok s -> inv6 (s_m s).
Proof.
  intros par st s H. unfold init6 in H.
  destruct (new_cache l1LineSize l1Size); try discriminate.
  destruct (new_cache l3LineSize l3Size); try discriminate.
  inversion H; subst. unfold inv6, ebuf, ebl, zlen. simpl. repeat split; lia.
Qed.

(* every state a run of MVP-6.0 goes through satisfies the invariant *)
Theorem run6_st_inv : forall fuel app labels ord s s',
  inv6 (s_m s) -> run6_st fuel app labels ord s = inr s' -> inv6 (s_m s').
Proof.
  induction fuel as [|f IH]; intros app labels ord s s' I H; simpl in H.
  - inversion H; subst. exact I.
  - destruct (step6 app labels ord s) as [r os|s1] eqn:E; try discriminate.
    eapply IH; [|exact H]. eapply step6_inv; eauto.
Qed.


(* in every cycle of every run of MVP-6.0 (any parallelism, any program) the control unit is
   handed a machine mdu satisfying the invariant and dispatches at most two instructions *)
Theorem mvp60_dispatch_width : forall par st s0 fuel app labels ord s m',
  init6 par st = Ok s0 ->
  run6_st fuel app labels ord s0 = inr s ->
  front6 app (s_cycle s + 1) (s_m s) = Ok m' ->
  exists mdu, m' = cu_cycle6 (s_cycle s + 1) mdu /\ 0 <= ebuf m' - ebuf mdu <= 2.
Proof.
  intros par st s0 fuel app labels ord s m' Hi Hr Hf.
  apply init6_inv in Hi. pose proof (run6_st_inv _ _ _ _ _ _ Hi Hr) as I.
  destruct (front6_inv _ _ _ _ I Hf) as [mdu [Idu [E _]]].
  exists mdu. split; [exact E|]. subst m'. now apply dispatch_width.
Qed.

Print Assumptions mvp60_cycles_pos.
Print Assumptions cu_dispatch_bound.
Print Assumptions run6_ord_irrelevant.
Print Assumptions mvp60_dispatch_width.
