(* Lock-step simulation MVP-7.0 / MVP-6.3 on programs without loads and stores - part 2: the loops over the execute
   units (main loop, drain loop after ret, flush loop, final loop), the second half of a tick (back7 / back3), the
   flush, and ONE TICK:
     step_sim    in every mode but the final loop of MVP-7.0, step3 on the projected state is the projection of step7
                 (proj_res: a state of MVP-7.0 that has just entered its final loop is projected to the RETURN of
                 MVP-6.3 - cycle += mmu.flush(); RATCommit; RATFlush at that cycle), and the invariant is kept;
     step_final  the final loop of MVP-7.0 runs exactly once: no snoop, every unit skipped, then export, RATCommit,
                 RATFlush one cycle later. *)
From Coq Require Import ZArith List Bool Lia.
From Maj Require Import Base.Outcome Base.GoInt Base.GoTypes Isa.Spec Isa.Seq.
From Maj Require Import Gen.Latency Gen.RiscTables Gen.Opcodes Comp.Cache Comp.Rat Comp.RatProofs Mvp.Mvp12 Mvp.Mvp3 Mvp.Mvp5 Mvp.Mvp60 Mvp.Mvp63 Mvp.Mvp70.
From Maj Require Import Mvp.Mvp60Proofs Mvp.Mvp63Proofs Mvp.Mvp70Proofs Mvp.Mvp70Sim63Defs.
Import ListNotations.
Open Scope Z_scope.

Definition lift_eus {A} (o : outcome (w7 * list eu7 * A)) : outcome (mx * list eu3 * A) :=
  match o with Ok (w', eus', a) => Ok (w_x w', map eu_of eus', a) | Err e => Err e | Panic => Panic end.

Definition mode_of (m : mode7) : mode3 :=
  match m with
  | QNormal => NNormal | QRet => NRet | QFlushE a b c => NFlushE a b c
  | QFlushW k a b c d => NFlushW k a b c d | QFinal => NNormal
  end.

Definition st3_of (s : st7) : st3 :=
  mk_st3 (w_x (v_w s)) (map eu_of (v_eus s)) (v_wus s) (v_cycle s) (mode_of (v_mode s)).

(* a step of MVP-7.0 seen from MVP-6.3: entering the final loop is the return of MVP-6.3 *)
Definition proj_res (ord : Z -> Z -> list Z -> list Z) (r : step_res7) : step_res3 :=
  match r with
  | UDone r os => TDone r os
  | UCont s' =>
      match v_mode s' with
      | QFinal => TDone (finish3 ord (w_x (v_w s')) (v_cycle s')) (v_os (v_w s'))
      | _ => TCont (st3_of s')
      end
  end.

Lemma or_os_false : forall x, or_os x false = x.
Proof. intros [m eb pe pr pcb sq cr tr fw ch nx os]. unfold or_os, set_os3. cbn. rewrite orb_false_r. reflexivity. Qed.

Section Loops.
  Variable NN : Prop.
  Variable app : list instr.
  Hypothesis Happ : reg_only app = true.
  Hypothesis Hnn : NN -> wregs_nonneg app = true.

  Notation PX := (PX NN).
  Notation INV := (INV NN).
  Notation EU := (EU NN).

  Lemma forallb_empty_of : forall eus, Forall EU eus -> forallb eu_empty3 (map eu_of eus) = forallb eu_empty7 eus.
  Proof.
    induction eus as [|e t IH]; intros H; [reflexivity|]. inversion H as [|? ? H1 HT]; subst.
    cbn [map forallb]. rewrite (eu_empty3_of NN e H1), (IH HT). reflexivity.
  Qed.

  Definition acc_next (acc o : eu_out3) : eu_out3 :=
    let take := y_flush o && (negb (y_flush acc) || (y_seq o <? y_seq acc)) in
    mk_euo3 (y_flush acc || y_flush o) (if take then y_seq o else y_seq acc)
            (if take then y_pc o else y_pc acc) (y_ret acc || y_ret o) None.

  Definition set_hseq (e : eu7) (s : Z) : eu7 := mk_eu7 (h_co e) (h_memory e) (h_runner e) s (h_cc e).

  Lemma EU_set_hseq : forall e s, EU e -> EU (set_hseq e s).
  Proof. intros e s H. exact H. Qed.

  (* --- the main loop over the execute units --- *)

  Lemma eus_main_sim : forall labels ord cycle eus id w acc,
    INV w -> Forall EU eus ->
    eus_main3 labels ord cycle (w_x w) (map eu_of eus) acc = (false, lift_eus (eus_main7 hooks70 labels ord cycle id w eus acc)).
  Proof.
    intros labels ord cycle. induction eus as [|e t IH]; intros id w acc HI HE; [reflexivity|].
    cbn [map eus_main3 eus_main7]. cbv zeta. inversion HE as [|? ? HE1 HET]; subst.
    change (mk_eu3 (g_co (eu_of e)) (g_memory (eu_of e)) (g_runner (eu_of e)) (y_seq acc)) with (eu_of (set_hseq e (y_seq acc))).
    change (mk_eu7 (h_co e) (h_memory e) (h_runner e) (y_seq acc) (h_cc e)) with (set_hseq e (y_seq acc)).
    rewrite (eu_cycle_sim NN labels ord cycle id w (set_hseq e (y_seq acc)) HI (EU_set_hseq e _ HE1)).
    destruct (eu_cycle7 hooks70 labels ord cycle id w (set_hseq e (y_seq acc))) as [[[w1 e1] o]|er|] eqn:E1;
      [|reflexivity|reflexivity].
    cbn [lift7 bind].
    destruct (eu_cycle7_inv NN app Hnn _ _ _ _ _ _ _ _ _ E1 HI (EU_set_hseq e _ HE1)) as [HI1 HE1'].
    destruct (y_err o) eqn:EO; [reflexivity|].
    fold (acc_next acc o).
    rewrite (IH (id + 1) w1 (acc_next acc o) HI1 HET).
    destruct (eus_main7 hooks70 labels ord cycle (id + 1) w1 t (acc_next acc o)) as [[[w2 t'] a2]|er|]; reflexivity.
  Qed.

  Lemma eus_main7_inv : forall labels ord cycle eus id w acc w' eus' o,
    eus_main7 hooks70 labels ord cycle id w eus acc = Ok (w', eus', o) -> INV w -> Forall EU eus -> INV w' /\ Forall EU eus'.
  Proof.
    intros labels ord cycle. induction eus as [|e t IH]; intros id w acc w' eus' o H HI HE; cbn [eus_main7] in H.
    - inversion H; subst. split; [exact HI|constructor].
    - inversion HE as [|? ? HE1 HET]; subst. cbv zeta in H.
      apply bind_ok in H as ([[w1 e1] o1] & E1 & H).
      apply (eu_cycle7_inv NN app Hnn) in E1; [|exact HI|exact HE1]. destruct E1 as [HI1 HE1'].
      destruct (y_err o1).
      + inversion H; subst. split; [exact HI1|constructor; assumption].
      + apply bind_ok in H as ([[w2 t'] acc2] & E2 & H). inversion H; subst.
        apply IH in E2; [|exact HI1|exact HET]. destruct E2 as [A B]. split; [exact A|constructor; assumption].
  Qed.

  (* --- the drain loop after ret --- *)

  Lemma eus_drain_sim : forall labels ord cycle eus id w,
    INV w -> Forall EU eus ->
    eus_drain3 labels ord cycle (w_x w) (map eu_of eus) = (false, lift_eus (eus_drain7 hooks70 labels ord cycle id w eus)).
  Proof.
    intros labels ord cycle. induction eus as [|e t IH]; intros id w HI HE; [reflexivity|].
    cbn [map eus_drain3 eus_drain7]. inversion HE as [|? ? HE1 HET]; subst.
    rewrite (eu_empty3_of NN e HE1). destruct (eu_empty7 e).
    - rewrite (IH (id + 1) w HI HET).
      destruct (eus_drain7 hooks70 labels ord cycle (id + 1) w t) as [[[w2 t'] a2]|er|]; reflexivity.
    - rewrite (eu_cycle_sim NN labels ord cycle id w e HI HE1).
      destruct (eu_cycle7 hooks70 labels ord cycle id w e) as [[[w1 e1] o]|er|] eqn:E1; [|reflexivity|reflexivity].
      cbn [lift7 bind].
      destruct (eu_cycle7_inv NN app Hnn _ _ _ _ _ _ _ _ _ E1 HI HE1) as [HI1 HE1'].
      destruct (y_err o) eqn:EO; [reflexivity|].
      rewrite (IH (id + 1) w1 HI1 HET).
      destruct (eus_drain7 hooks70 labels ord cycle (id + 1) w1 t) as [[[w2 t'] a2]|er|]; reflexivity.
  Qed.

  Lemma eus_drain7_inv : forall labels ord cycle eus id w w' eus' er,
    eus_drain7 hooks70 labels ord cycle id w eus = Ok (w', eus', er) -> INV w -> Forall EU eus -> INV w' /\ Forall EU eus'.
  Proof.
    intros labels ord cycle. induction eus as [|e t IH]; intros id w w' eus' er H HI HE; cbn [eus_drain7] in H.
    - inversion H; subst. split; [exact HI|constructor].
    - inversion HE as [|? ? HE1 HET]; subst. destruct (eu_empty7 e).
      + apply bind_ok in H as ([[w2 t'] er2] & E2 & H). inversion H; subst.
        apply IH in E2; [|exact HI|exact HET]. destruct E2 as [A B]. split; [exact A|constructor; assumption].
      + apply bind_ok in H as ([[w1 e1] o1] & E1 & H).
        apply (eu_cycle7_inv NN app Hnn) in E1; [|exact HI|exact HE1]. destruct E1 as [HI1 HE1'].
        destruct (y_err o1).
        * inversion H; subst. split; [exact HI1|constructor; assumption].
        * apply bind_ok in H as ([[w2 t'] er2] & E2 & H). inversion H; subst.
          apply IH in E2; [|exact HI1|exact HET]. destruct E2 as [A B]. split; [exact A|constructor; assumption].
  Qed.

  (* --- the loop over the execute units inside the flush loop --- *)

  Lemma eus_flush_sim : forall labels ord from eus id w acc,
    INV w -> Forall EU eus ->
    eus_flush3 labels ord from (w_x w) (map eu_of eus) acc = (false, lift_eus (eus_flush7 hooks70 labels ord from id w eus acc)).
  Proof.
    intros labels ord from. induction eus as [|e t IH]; intros id w acc HI HE; [reflexivity|].
    cbn [map eus_flush3 eus_flush7]. inversion HE as [|? ? HE1 HET]; subst.
    rewrite (eu_empty3_of NN e HE1). cbn [hooks70 k_pending negb]. rewrite andb_true_r. destruct (eu_empty7 e).
    - rewrite (IH (id + 1) w acc HI HET).
      destruct (eus_flush7 hooks70 labels ord from (id + 1) w t acc) as [[[w2 t'] a2]|er|]; reflexivity.
    - rewrite (eu_cycle_sim NN labels ord from id w e HI HE1).
      destruct (eu_cycle7 hooks70 labels ord from id w e) as [[[w1 e1] o]|er|] eqn:E1; [|reflexivity|reflexivity].
      cbn [lift7 bind].
      destruct (eu_cycle7_inv NN app Hnn _ _ _ _ _ _ _ _ _ E1 HI HE1) as [HI1 HE1'].
      destruct (y_err o) eqn:EO; [reflexivity|]. cbv zeta.
      rewrite (IH (id + 1) w1 _ HI1 HET).
      match goal with |- context [eus_flush7 ?a ?b ?c ?d ?e ?f ?g ?h] => destruct (eus_flush7 a b c d e f g h) as [[[w2 t'] a2]|er|] end;
        reflexivity.
  Qed.

  Lemma eus_flush7_inv : forall labels ord from eus id w acc w' eus' acc',
    eus_flush7 hooks70 labels ord from id w eus acc = Ok (w', eus', acc') -> INV w -> Forall EU eus -> INV w' /\ Forall EU eus'.
  Proof.
    intros labels ord from. induction eus as [|e t IH]; intros id w acc w' eus' acc' H HI HE; cbn [eus_flush7] in H.
    - inversion H; subst. split; [exact HI|constructor].
    - inversion HE as [|? ? HE1 HET]; subst. destruct (eu_empty7 e && negb (k_pending hooks70 w (h_seq e))).
      + apply bind_ok in H as ([[w2 t'] acc2] & E2 & H). inversion H; subst.
        apply IH in E2; [|exact HI|exact HET]. destruct E2 as [A B]. split; [exact A|constructor; assumption].
      + apply bind_ok in H as ([[w1 e1] o1] & E1 & H).
        apply (eu_cycle7_inv NN app Hnn) in E1; [|exact HI|exact HE1]. destruct E1 as [HI1 HE1'].
        destruct (y_err o1).
        * inversion H; subst. split; [exact HI1|constructor; assumption].
        * cbv zeta in H. apply bind_ok in H as ([[w2 t'] acc2] & E2 & H). inversion H; subst.
          apply IH in E2; [|exact HI1|exact HET]. destruct E2 as [A B]. split; [exact A|constructor; assumption].
  Qed.

  (* --- the final loop: every unit is empty and its controller idle --- *)

  Lemma CC_idle : forall c, CC c -> cc_idle c = true.
  Proof. intros c (A & B & _). unfold cc_idle. rewrite A, B. reflexivity. Qed.

  Lemma eus_final7_idle : forall hk labels ord cycle eus id w,
    Forall EU eus -> forallb eu_empty7 eus = true -> eus_final7 hk labels ord cycle id w eus = Ok (w, eus, true).
  Proof.
    intros hk labels ord cycle. induction eus as [|e t IH]; intros id w HE HB; [reflexivity|].
    inversion HE as [|? ? (_ & _ & HC) HET]; subst. cbn [forallb] in HB. apply andb_true_iff in HB as [B1 B2].
    cbn [eus_final7]. rewrite B1, (CC_idle _ HC). cbn [andb]. rewrite (IH (id + 1) w HET B2). reflexivity.
  Qed.

  (* ------------------------------------------------------------------ *)
  (* states                                                               *)
  (* ------------------------------------------------------------------ *)

  Definition SI (s : st7) : Prop :=
    INV (v_w s) /\ Forall EU (v_eus s) /\ Forall WU (v_wus s) /\ (v_mode s = QFinal -> forallb eu_empty7 (v_eus s) = true).

  Definition res_SI (r : step_res7) : Prop := match r with UCont s' => SI s' | UDone _ _ => True end.

  Lemma res_of7_SI : forall {A} os (o : outcome A) k, (forall x, o = Ok x -> res_SI (k x)) -> res_SI (res_of7 os o k).
  Proof. intros A os o k H. destruct o; cbn [res_of7 res_SI]; auto. Qed.

  (* --- condition of the drain loop after ret --- *)

  Lemma ret_check_sim : forall ord w eus wus cycle, Forall EU eus ->
    ret_check3 ord (mk_st3 (w_x w) (map eu_of eus) wus cycle NRet) = proj_res ord (ret_check7 (mk_st7 w eus wus cycle QRet)).
  Proof.
    intros ord w eus wus cycle HE. unfold ret_check3, ret_check7. cbn [t_eus t_wus t_x t_cycle v_eus v_wus v_w v_cycle].
    rewrite (forallb_empty_of eus HE).
    destruct (forallb eu_empty7 eus && forallb wu_empty wus && bb_isempty (m_wbus (x_m (w_x w)))); reflexivity.
  Qed.

  Lemma ret_check7_SI : forall w eus wus cycle, INV w -> Forall EU eus -> Forall WU wus ->
    res_SI (ret_check7 (mk_st7 w eus wus cycle QRet)).
  Proof.
    intros w eus wus cycle HI HE HW. unfold ret_check7. cbn [v_eus v_wus v_w v_cycle].
    destruct (forallb eu_empty7 eus) eqn:EB; cbn [andb].
    - destruct (forallb wu_empty wus && bb_isempty (m_wbus (x_m (w_x w)))); cbn [res_SI];
        (split; [exact HI|split; [exact HE|split; [exact HW|intros HM; first [exact EB|discriminate HM]]]]).
    - cbn [res_SI]. split; [exact HI|split; [exact HE|split; [exact HW|intros HM; discriminate HM]]].
  Qed.

  (* --- the flush --- *)

  Lemma flush_advance_sim : forall ord s k seq pc from empty, Forall EU (v_eus s) ->
    flush_advance3 (st3_of s) k seq pc from empty = proj_res ord (flush_advance7 s k seq pc from empty).
  Proof.
    intros ord s k seq pc from empty HE. unfold flush_advance3, flush_advance7.
    cbn [st3_of t_wus t_x t_eus t_cycle].
    destruct (flush_next (skipn k (v_wus s)) k (bb_isempty (m_wbus (x_m (w_x (v_w s)))))) as [k'|]; [reflexivity|].
    destruct empty; [|reflexivity].
    rewrite (eus_flush_all7_idle NN (v_eus s) (w_i (v_w s)) HE). cbn [res_of7 fst snd proj_res v_mode st3_of v_w v_eus v_wus v_cycle mode_of].
    unfold st3_of. cbn [v_w v_eus v_wus v_cycle v_mode mode_of set_wi set_wx w_x]. rewrite !map_map. reflexivity.
  Qed.

  Lemma flush_advance7_SI : forall s k seq pc from empty, INV (v_w s) -> Forall EU (v_eus s) -> Forall WU (v_wus s) ->
    res_SI (flush_advance7 s k seq pc from empty).
  Proof.
    intros s k seq pc from empty HI HE HW. unfold flush_advance7.
    destruct (flush_next _ _ _) as [k'|].
    - cbn [res_SI]. split; [exact HI|split; [exact HE|split; [exact HW|intros HM; discriminate HM]]].
    - destruct empty.
      + rewrite (eus_flush_all7_idle NN (v_eus s) (w_i (v_w s)) HE). cbn [res_of7 fst snd res_SI].
        split; [|split; [|split; [exact HW|intros HM; discriminate HM]]].
        * cbn [v_w]. split; [exact (proj1 HI)|]. cbn [set_wi set_wx w_x]. apply do_flush3_px. exact (proj2 HI).
        * cbn [v_eus]. apply Forall_map. eapply Forall_impl; [|exact HE]. intros e (_ & HR & HC).
          split; [left; reflexivity|]. split; [exact HR|exact HC].
      + cbn [res_SI]. split; [exact HI|split; [exact HE|split; [exact HW|intros HM; discriminate HM]]].
  Qed.

  (* --- the second half of an iteration of the main loop --- *)

  Lemma is_empty_of : forall x eus wus, Forall EU eus -> is_empty3 x (map eu_of eus) wus = is_empty7 x eus wus.
  Proof. intros x eus wus HE. unfold is_empty3, is_empty7. rewrite (forallb_empty_of eus HE). reflexivity. Qed.

  Lemma back_sim : forall ord s cycle w eus1 o, INV w -> Forall EU eus1 -> Forall WU (v_wus s) ->
    back3 ord (st3_of s) cycle (w_x w, map eu_of eus1, o) = proj_res ord (back7 s cycle (w, eus1, o)).
  Proof.
    intros ord s cycle w eus1 o HI HE HW. unfold back3, back7.
    destruct (y_err o); [reflexivity|].
    cbn [st3_of t_wus]. rewrite (wus_cycle_sim NN (v_wus s) (w_x w) _ (proj2 HI) HW).
    destruct (wus_cycle7 (w_x w) (v_wus s) (if y_flush o then y_seq o else -1)) as [[x1 wus1]|er|] eqn:EW;
      [|reflexivity|reflexivity].
    cbn [res_of3 res_of7]. cbv zeta.
    destruct (y_ret o).
    - exact (ret_check_sim ord (w_connect7 (set_wx w x1) (cycle + 1)) eus1 wus1 (cycle + 1) HE).
    - destruct (y_flush o).
      + cbn [proj_res v_mode]. unfold st3_of. cbn [v_mode v_w v_eus v_wus v_cycle mode_of set_wx w_x]. rewrite !map_map. reflexivity.
      + rewrite (is_empty_of x1 eus1 wus1 HE). destruct (is_empty7 x1 eus1 wus1); reflexivity.
  Qed.

  Lemma back7_SI : forall s cycle w eus1 o, INV w -> Forall EU eus1 -> Forall WU (v_wus s) ->
    res_SI (back7 s cycle (w, eus1, o)).
  Proof.
    intros s cycle w eus1 o HI HE HW. unfold back7.
    destruct (y_err o); [exact I|].
    apply res_of7_SI. intros [x1 wus1] EW. cbv zeta.
    apply (wus_cycle7_px NN) in EW; [|exact (proj2 HI)]. destruct EW as [HP1 EWU]. subst wus1.
    assert (HI1 : INV (set_wx w x1)) by (apply INV_set_wx; assumption).
    destruct (y_ret o).
    - apply ret_check7_SI; [|exact HE|exact HW]. unfold w_connect7. apply INV_set_wx; [exact HI1|].
      apply wbus_connect3_px. exact HP1.
    - destruct (y_flush o).
      + cbn [res_SI]. split; [exact HI1|]. split; [|split; [exact HW|intros HM; discriminate HM]].
        cbn [v_eus]. apply Forall_map. eapply Forall_impl; [|exact HE]. intros e HEe. exact HEe.
      + destruct (is_empty7 x1 eus1 (v_wus s)) eqn:EE; cbn [res_SI].
        * split; [exact HI1|split; [exact HE|split; [exact HW|]]]. intros _. cbn [v_eus].
          unfold is_empty7 in EE. apply andb_true_iff in EE as [_ EE]. exact EE.
        * split; [exact HI1|split; [exact HE|split; [exact HW|intros HM; discriminate HM]]].
  Qed.

  Lemma Forall_set_nth6 : forall {A} (P : A -> Prop) l i a, Forall P l -> P a -> Forall P (set_nth6 l i a).
  Proof.
    intros A P. induction l as [|h t IH]; intros i a HL HA; [constructor|].
    inversion HL as [|? ? H1 H2]; subst. destruct i as [|i]; cbn [set_nth6]; constructor; auto.
  Qed.

  (* ------------------------------------------------------------------ *)
  (* one tick                                                             *)
  (* ------------------------------------------------------------------ *)

  Theorem step_sim : forall labels ord s, SI s -> v_mode s <> QFinal ->
    step3 app labels ord (st3_of s) = proj_res ord (step7 hooks70 app labels ord s) /\
    res_SI (step7 hooks70 app labels ord s).
  Proof.
    intros labels ord s (HI & HE & HW & _) HM. unfold step3, step7. cbv zeta.
    destruct s as [w eus wus cyc md]. cbn [v_w v_eus v_wus v_cycle v_mode] in *.
    cbn [st3_of t_x t_eus t_wus t_cycle t_mode v_w v_eus v_wus v_cycle v_mode].
    destruct md as [| |seq pc from|k seq pc from empty|]; cbn [mode_of]; [| | | |contradiction].
    - (* the main loop *)
      cbn [hooks70 k_front]. unfold v_os.
      destruct (front3 app ord (cyc + 1) (w_x w)) as [x1|er|] eqn:EF; cbn [bind res_of3 res_of7 proj_res];
        [|split; [reflexivity|exact I]|split; [reflexivity|exact I]].
      assert (HI1 : INV (set_wx w x1)).
      { apply INV_set_wx; [exact HI|]. eapply (front3_px NN app Happ Hnn); [exact EF|exact (proj2 HI)]. }
      rewrite (snoops7_idle NN hooks70 eus 0 (set_wx w x1) (proj1 HI1) HE). cbn [res_of7 fst snd].
      pose proof (eus_main_sim labels ord (cyc + 1) eus 0 (set_wx w x1) yo_none HI1 HE) as ES.
      cbn [set_wx w_x] in ES. rewrite ES. clear ES.
      destruct (eus_main7 hooks70 labels ord (cyc + 1) 0 (set_wx w x1) eus yo_none) as [[[w2 eus1] o]|er|] eqn:EM;
        cbn [lift_eus res_of3 res_of7 proj_res set_wx w_x]; rewrite ?orb_false_r;
        [|split; [reflexivity|exact I]|split; [reflexivity|exact I]].
      apply eus_main7_inv in EM; [|exact HI1|exact HE]. destruct EM as [HI2 HE2].
      rewrite or_os_false. split.
      + exact (back_sim ord (mk_st7 w eus wus cyc QNormal) (cyc + 1) w2 eus1 o HI2 HE2 HW).
      + exact (back7_SI (mk_st7 w eus wus cyc QNormal) (cyc + 1) w2 eus1 o HI2 HE2 HW).
    - (* the drain loop after ret *)
      unfold v_os.
      rewrite (snoops7_idle NN hooks70 eus 0 w (proj1 HI) HE). cbn [res_of7 fst snd].
      rewrite (eus_drain_sim labels ord cyc eus 0 w HI HE).
      destruct (eus_drain7 hooks70 labels ord cyc 0 w eus) as [[[w1 eus1] er]|er|] eqn:ED;
        cbn [lift_eus res_of3 res_of7 proj_res]; rewrite ?orb_false_r;
        [|split; [reflexivity|exact I]|split; [reflexivity|exact I]].
      apply eus_drain7_inv in ED; [|exact HI|exact HE]. destruct ED as [HI1 HE1].
      rewrite or_os_false. destruct er as [e|]; [split; [reflexivity|exact I]|].
      rewrite (wus_cycle_sim NN wus (w_x w1) (-1) (proj2 HI1) HW).
      destruct (wus_cycle7 (w_x w1) wus (-1)) as [[x2 wus1]|er|] eqn:EW; cbn [res_of3 res_of7 proj_res];
        [|split; [reflexivity|exact I]|split; [reflexivity|exact I]].
      apply (wus_cycle7_px NN) in EW; [|exact (proj2 HI1)]. destruct EW as [HP2 EWU]. subst wus1.
      split.
      + exact (ret_check_sim ord (w_connect7 (set_wx w1 x2) (cyc + 1)) eus1 wus (cyc + 1) HE1).
      + apply ret_check7_SI; [|exact HE1|exact HW]. unfold w_connect7.
        apply INV_set_wx; [apply INV_set_wx; [exact HI1|exact HP2]|].
        apply wbus_connect3_px. exact HP2.
    - (* the flush loop: the execute units *)
      unfold v_os.
      rewrite (snoops7_idle NN hooks70 eus 0 w (proj1 HI) HE). cbn [res_of7 fst snd].
      rewrite (eus_flush_sim labels ord from eus 0 w (mk_fla true seq pc None) HI HE).
      destruct (eus_flush7 hooks70 labels ord from 0 w eus (mk_fla true seq pc None)) as [[[w1 eus1] acc]|er|] eqn:ED;
        cbn [lift_eus res_of3 res_of7 proj_res]; rewrite ?orb_false_r;
        [|split; [reflexivity|exact I]|split; [reflexivity|exact I]].
      apply eus_flush7_inv in ED; [|exact HI|exact HE]. destruct ED as [HI1 HE1].
      rewrite or_os_false. destruct (a_err acc); [split; [reflexivity|exact I]|].
      assert (HI2 : INV (w_connect7 w1 (cyc + 1 + 1))).
      { unfold w_connect7. apply INV_set_wx; [exact HI1|]. apply wbus_connect3_px. exact (proj2 HI1). }
      split.
      + exact (flush_advance_sim ord (mk_st7 (w_connect7 w1 (cyc + 1 + 1)) eus1 wus (cyc + 1) (QFlushE seq pc from))
                 0 (a_seq acc) (a_pc acc) from (a_empty acc) HE1).
      + apply flush_advance7_SI; assumption.
    - (* the flush loop: write unit k *)
      unfold v_os.
      destruct (nth_error wus k) as [u|] eqn:EN; [|split; [reflexivity|exact I]].
      assert (HWk : WU u). { rewrite Forall_forall in HW. apply HW. eapply nth_error_In; exact EN. }
      rewrite (wu_cycle_sim NN (w_x w) u seq (proj2 HI) HWk).
      destruct (wu_cycle7 (w_x w) u seq) as [[x1 u1]|er|] eqn:EW; cbn [res_of3 res_of7 proj_res fst snd];
        [|split; [reflexivity|exact I]|split; [reflexivity|exact I]].
      apply (wu_cycle7_px NN) in EW; [|exact (proj2 HI)]. destruct EW as [HP1 EU1]. subst u1.
      split.
      + exact (flush_advance_sim ord (mk_st7 (set_wx w x1) eus (set_nth6 wus k u) cyc (QFlushW k seq pc from empty))
                 k seq pc from empty HE).
      + apply flush_advance7_SI; cbn [v_w v_eus v_wus].
        * apply INV_set_wx; assumption.
        * exact HE.
        * apply Forall_set_nth6; assumption.
  Qed.

  (* the final loop of MVP-7.0 finds nothing to do *)
  Theorem step_final : forall labels ord s, SI s -> v_mode s = QFinal ->
    step7 hooks70 app labels ord s = UDone (finish7 ord (v_w s) (v_eus s) (v_cycle s + 1)) (v_os (v_w s)).
  Proof.
    intros labels ord s (HI & HE & HW & HF) HM. unfold step7. rewrite HM. cbv zeta.
    rewrite (snoops7_idle NN hooks70 (v_eus s) 0 (v_w s) (proj1 HI) HE). cbn [res_of7 fst snd].
    rewrite (eus_final7_idle hooks70 labels ord (v_cycle s + 1) (v_eus s) 0 (v_w s) HE (HF HM)). cbn [res_of7].
    assert (HQ : forallb (fun e => match c_snoop (h_cc e) with [] => true | _ => false end) (v_eus s) = true).
    { apply forallb_forall. intros e HIn. rewrite Forall_forall in HE. destruct (HE e HIn) as (_ & _ & (_ & _ & C & _)).
      rewrite C. reflexivity. }
    rewrite HQ. reflexivity.
  Qed.
End Loops.

Print Assumptions eus_main_sim.
Print Assumptions step_sim.
Print Assumptions step_final.
