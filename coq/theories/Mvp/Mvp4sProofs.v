(* MVP-4 on programs whose stores may MISS in the L1D, under the hypothesis no_stale
   (Mvp4sSkel.v) on the events of the sequential run: the pipeline computes the
   sequential registers and memory - after the run main memory contains every
   store - in a number of cycles that is a function of the program and of the
   events.  See Mvp4mProofs.v for the special case in which every store hits. *)
From Coq Require Import ZArith List Bool Lia.
From Maj Require Import Base.Outcome Base.GoInt Base.GoTypes Isa.Spec Isa.Embed Isa.Seq Isa.Refine.
From Maj Require Import Gen.Latency Gen.RiscTables Gen.Opcodes Comp.Cache Comp.CacheSpec Comp.CacheProofs.
From Maj Require Import Mvp.Mvp12 Mvp.Mvp12Proofs Mvp.Mvp3 Mvp.Mvp3Proofs Mvp.Mvp4 Mvp.Mvp4Skel Mvp.Mvp4Inv Mvp.Mvp4Units
     Mvp.Mvp4Front Mvp.Mvp4Sim Mvp.Mvp4Proofs Mvp.Mvp4mSkel Mvp.Mvp4mInv Mvp.Mvp4mFront Mvp.Mvp4mSim Mvp.Mvp4mProofs
     Mvp.Mvp4sSkel Mvp.Mvp4sFront Mvp.Mvp4sSim.
Import ListNotations.
Open Scope Z_scope.

Lemma sks_run_more app : forall fuel k a path cyc c,
  sks_run fuel app a path cyc = Some c -> sks_run (fuel + k) app a path cyc = Some c.
Proof.
  induction fuel as [|f IH]; intros k a path cyc c H; [discriminate|]. cbn [sks_run Nat.add] in *.
  destruct (sks_cycle app a path) as [a' path' dc|dc dt|]; auto.
Qed.

Section Top4s.
  Variables (app : list instr) (labels : Z -> option Z).
  Hypothesis Happ : wf_app app.
  Hypothesis Hlab : wf_labels labels.
  Let sp := map sinstr_of app.

  Lemma init_finvs c0 hev : IInv c0 -> 0 <= ev_pc hev < 2147483644 -> ev_pc hev = 0 -> FInvS app hev (sks_init c0).
  Proof.
    intros HI Hh H0. constructor;
      cbn [sks_init x_fu x_l1i x_dbus x_ebus x_eu x_pw x_wp x_wc x_wu x_dt x_l1 x_l2 fu_processing eu_processing eu_pending_read eu_memory].
    - exact Hh.
    - exists O. rewrite H0. constructor; cbn [fu_complete fu_pc]; try discriminate; try lia; reflexivity.
    - constructor.
    - discriminate.
    - unfold eu_ok. cbn [eu_processing eu_pending_read eu_memory]. repeat split; auto; discriminate.
    - discriminate.
    - discriminate.
    - discriminate.
    - exact HI.
    - apply winv_empty. reflexivity.
    - cbn. lia.
  Qed.

  (* what the simulation gives without the termination argument: whenever the skeleton
     (a function of program and events) ends in c cycles, so does the model, with the
     sequential state *)
  Theorem mvp4_storemiss_sim fuel st st' tr fuel' c :
    inv (regs st) (mem st) -> (length (regs st) <= 32)%nat -> mem_small st ->
    accesses_ok fuel sp labels st 0 ->
    seq_run fuel sp labels st = Done st' tr ->
    evs_below (seq_evs fuel sp labels st 0) = true ->
    no_stale [] [] false (seq_evs fuel sp labels st 0) = true ->
    mvp4_cost_sm fuel' app (seq_evs fuel sp labels st 0) = Some c ->
    mvp4_run fuel' app labels st = MDone c st'.
  Proof.
    intros [Hri Hm8] Hlen Hsm Hacc Hrun Hb Hns Hc. unfold seq_run in Hrun.
    destruct (run_sexecm app labels fuel st 0 [] st' tr Hrun Hacc) as (rest & Hp & HS & Hl & Hcnt).
    fold sp in Hp. rewrite Hp in *. pose proof (sexecm_evs_wf app labels _ _ _ HS Hb) as Hwf.
    destruct init_caches as (c0 & E0 & HI0 & HD0 & Hl0).
    assert (Hh0 : 0 <= ev_pc (ev_of app st 0) < 2147483644) by (cbn; lia).
    pose proof (init_finvs c0 (ev_of app st 0) HI0 Hh0 eq_refl) as HF0.
    assert (Hns0 : ns_inv (sks_init c0) (ev_of app st 0 :: rest)).
    { apply ns_inv_intro; [reflexivity | exact Hns]. }
    unfold mvp4_cost_sm in Hc. rewrite E0 in Hc. unfold mvp4_run. rewrite E0.
    eapply (sim_run_s app labels Happ Hlab); [| exact HF0 | exact Hwf | exact Hns0 | exact HS | exact Hc].
    destruct st as [rg mm]. cbn [regs mem] in *.
    apply (RMs_intro (ev_la (ev_of app (mk_arch rg mm) 0)) (sks_init c0) rg mm c0 (s_new 64 1024) (mk_bu false 0) None None
                     (mk_eu false false [] None 0 None) (mk_arch rg mm)); auto; try discriminate.
    constructor; cbn [regs mem cur_regs papply sks_init x_wp x_wc option_map]; auto; try discriminate.
    exists mm. split; [apply init_VInv; assumption | reflexivity].
  Qed.

  Definition fuel_bound_s (n : nat) : nat := ((n + 1) * Ksteps)%nat.

  Theorem mvp4_run_events_s fuel st st' tr :
    inv (regs st) (mem st) -> (length (regs st) <= 32)%nat -> mem_small st ->
    accesses_ok fuel sp labels st 0 ->
    seq_run fuel sp labels st = Done st' tr ->
    evs_below (seq_evs fuel sp labels st 0) = true ->
    no_stale [] [] false (seq_evs fuel sp labels st 0) = true ->
    exists c, (forall fuel', (fuel_bound_s (length tr) <= fuel')%nat ->
                 mvp4_run fuel' app labels st = MDone c st' /\
                 mvp4_cost_sm fuel' app (seq_evs fuel sp labels st 0) = Some c) /\
              Z.of_nat (length tr) <= c.
  Proof.
    intros Hinv Hlen Hsm Hacc Hrun Hb Hns.
    pose proof Hrun as Hrun0. unfold seq_run in Hrun.
    destruct (run_sexecm app labels fuel st 0 [] st' tr Hrun Hacc) as (rest & Hp & HS & Hl & Hcnt).
    fold sp in Hp.
    assert (Hwf : evs_wf app (ev_of app st 0 :: rest)) by (rewrite Hp in Hb; exact (sexecm_evs_wf app labels _ _ _ HS Hb)).
    destruct init_caches as (c0 & E0 & HI0 & HD0 & Hl0).
    assert (Hh0 : 0 <= ev_pc (ev_of app st 0) < 2147483644) by (cbn; lia).
    pose proof (init_finvs c0 (ev_of app st 0) HI0 Hh0 eq_refl) as HF0.
    assert (Hns0 : ns_inv (sks_init c0) (ev_of app st 0 :: rest)).
    { apply ns_inv_intro; [reflexivity | rewrite Hp in Hns; exact Hns]. }
    cbn [length] in Hl, Hcnt.
    set (m := (Z.to_nat (phis (sks_init c0)) + length rest * Ksteps)%nat).
    pose proof (phis_bounds app _ _ HF0) as Hphi. fold phis_max in Hphi.
    assert (Hm : (m < fuel_bound_s (length tr))%nat).
    { unfold m, fuel_bound_s, Ksteps in *.
      assert ((length rest * S (Z.to_nat phis_max) <= length tr * S (Z.to_nat phis_max))%nat) by (apply Nat.mul_le_mono_r; lia).
      lia. }
    destruct (sks_run_term app Happ m rest (sks_init c0) _ 0 (fuel_bound_s (length tr)) HF0 Hwf Hns0 ltac:(lia) Hm) as (c & Hc & Hcb).
    exists c. split; [|lia].
    intros fuel' Hf'. replace fuel' with (fuel_bound_s (length tr) + (fuel' - fuel_bound_s (length tr)))%nat by lia.
    pose proof (sks_run_more app _ (fuel' - fuel_bound_s (length tr)) _ _ _ _ Hc) as Hc'.
    assert (Hcost : mvp4_cost_sm (fuel_bound_s (length tr) + (fuel' - fuel_bound_s (length tr))) app (seq_evs fuel sp labels st 0) = Some c).
    { unfold mvp4_cost_sm. rewrite E0, Hp. exact Hc'. }
    split; [|exact Hcost].
    apply (mvp4_storemiss_sim fuel st st' tr _ c Hinv Hlen Hsm Hacc Hrun0 Hb Hns Hcost).
  Qed.

  (* C01 / C05 (MVP-4): loads and stores, stores may miss in the L1D *)
  Theorem mvp4_refines_seq_storemiss fuel st st' tr :
    inv (regs st) (mem st) -> (length (regs st) <= 32)%nat -> mem_small st ->
    accesses_ok fuel sp labels st 0 ->
    seq_run fuel sp labels st = Done st' tr ->
    evs_below (seq_evs fuel sp labels st 0) = true ->
    no_stale [] [] false (seq_evs fuel sp labels st 0) = true ->
    exists c, (forall fuel', (fuel_bound_s (length tr) <= fuel')%nat -> mvp4_run fuel' app labels st = MDone c st') /\
              Z.of_nat (length tr) <= c.
  Proof.
    intros Hinv Hlen Hsm Hacc Hrun Hb Hns.
    destruct (mvp4_run_events_s fuel st st' tr Hinv Hlen Hsm Hacc Hrun Hb Hns) as (c & Hc & Hlb).
    exists c. split; [|exact Hlb]. intros fuel' Hf. apply Hc. exact Hf.
  Qed.

  (* C07 (MVP-4): no panic, no error, no divergence *)
  Corollary mvp4_no_panic_sm fuel st st' tr fuel' :
    inv (regs st) (mem st) -> (length (regs st) <= 32)%nat -> mem_small st ->
    accesses_ok fuel sp labels st 0 ->
    seq_run fuel sp labels st = Done st' tr ->
    evs_below (seq_evs fuel sp labels st 0) = true ->
    no_stale [] [] false (seq_evs fuel sp labels st 0) = true ->
    (fuel_bound_s (length tr) <= fuel')%nat ->
    mvp4_run fuel' app labels st <> MPanic /\ mvp4_run fuel' app labels st <> MOutOfFuel /\
    (forall e, mvp4_run fuel' app labels st <> MErr e).
  Proof.
    intros Hinv Hlen Hsm Hacc Hrun Hb Hns Hf.
    destruct (mvp4_refines_seq_storemiss fuel st st' tr Hinv Hlen Hsm Hacc Hrun Hb Hns) as (c & Hc & _).
    rewrite (Hc fuel' Hf). repeat split; try discriminate.
  Qed.

  (* C12 (MVP-4): same events, same cycle count *)
  Theorem mvp4_value_independent_sm fuel st1 st2 st1' st2' tr1 tr2 :
    inv (regs st1) (mem st1) -> (length (regs st1) <= 32)%nat -> mem_small st1 -> accesses_ok fuel sp labels st1 0 ->
    inv (regs st2) (mem st2) -> (length (regs st2) <= 32)%nat -> mem_small st2 -> accesses_ok fuel sp labels st2 0 ->
    seq_run fuel sp labels st1 = Done st1' tr1 ->
    seq_run fuel sp labels st2 = Done st2' tr2 ->
    seq_evs fuel sp labels st1 0 = seq_evs fuel sp labels st2 0 ->
    evs_below (seq_evs fuel sp labels st1 0) = true ->
    no_stale [] [] false (seq_evs fuel sp labels st1 0) = true ->
    exists c, forall fuel', (fuel_bound_s (Nat.max (length tr1) (length tr2)) <= fuel')%nat ->
      mvp4_run fuel' app labels st1 = MDone c st1' /\ mvp4_run fuel' app labels st2 = MDone c st2'.
  Proof.
    intros I1 L1 S1 A1 I2 L2 S2 A2 R1 R2 Hp Hb Hns.
    destruct (mvp4_run_events_s fuel st1 st1' tr1 I1 L1 S1 A1 R1 Hb Hns) as (c1 & Hc1 & _).
    rewrite Hp in Hb, Hns. destruct (mvp4_run_events_s fuel st2 st2' tr2 I2 L2 S2 A2 R2 Hb Hns) as (c2 & Hc2 & _).
    exists c1. intros fuel' Hf.
    assert (Hf1 : (fuel_bound_s (length tr1) <= fuel')%nat).
    { unfold fuel_bound_s in *. pose proof (Nat.le_max_l (length tr1) (length tr2)).
      assert (((length tr1 + 1) * Ksteps <= (Nat.max (length tr1) (length tr2) + 1) * Ksteps)%nat) by (apply Nat.mul_le_mono_r; lia). lia. }
    assert (Hf2 : (fuel_bound_s (length tr2) <= fuel')%nat).
    { unfold fuel_bound_s in *. pose proof (Nat.le_max_r (length tr1) (length tr2)).
      assert (((length tr2 + 1) * Ksteps <= (Nat.max (length tr1) (length tr2) + 1) * Ksteps)%nat) by (apply Nat.mul_le_mono_r; lia). lia. }
    destruct (Hc1 fuel' Hf1) as [H1 K1]. destruct (Hc2 fuel' Hf2) as [H2 K2].
    rewrite Hp in K1. rewrite K1 in K2. injection K2 as <-. auto.
  Qed.
End Top4s.

Lemma fuel_bound_s_value n : fuel_bound_s n = ((n + 1) * 1965)%nat.
Proof. reflexivity. Qed.

(* the hypothesis of Mvp4mProofs.v (every store hits) is a special case *)
Lemma stores_hit_no_stale : forall evs dt, stores_hit dt evs = true -> no_stale dt [] false evs = true.
Proof.
  induction evs as [|ev t IH]; intros dt H; [reflexivity|].
  cbn [stores_hit] in H. apply andb_prop in H as [H1 H2].
  cbn [no_stale andb negb nnil]. destruct (ev_sa ev) as [|s0 sa'] eqn:Esa.
  - apply IH. exact H2.
  - rewrite H1. apply IH. exact H2.
Qed.

(* ------------------------------------------------------------------ *)
(* sharpness: programs outside the hypothesis                           *)

Definition st_w : arch := mk_arch (repeat 0 32) (repeat 0 256).

(* three stores that miss followed by a load of the line of the last one: all within
   ONE line (byte stores); the model loses the stores (stale line fetched, then
   flushed over them) *)
Theorem mvp4_three_cold_stores_one_line_refuted :
  let p := [SLi 5 7; SSb 5 0 0; SSb 5 1 0; SSb 5 2 0; SLb 6 2 0; SRet] in
  no_stale [] [] false (seq_evs 20 (map sinstr_of (map instr_of p)) no_lab st_w 0) = false /\
  exists st' tr c st4,
    seq_run 20 p no_lab st_w = Done st' tr /\
    mvp4_run 5000 (map instr_of p) no_lab st_w = MDone c st4 /\
    rget (regs st') 6 = 7 /\ mget (mem st') 2 = 7 /\
    rget (regs st4) 6 = 0 /\ mget (mem st4) 2 = 0.
Proof.
  cbv zeta. split; [vm_compute; reflexivity|].
  do 4 eexists. split; [vm_compute; reflexivity|]. split; [vm_compute; reflexivity|]. vm_compute. repeat split; reflexivity.
Qed.

(* ONE cold store followed by a load of the stored line is inside the hypothesis (the
   theorem applies: always right) ... *)
Example mvp4_one_cold_store_then_load_ok :
  let p := [SLi 5 7; SSw 5 64 0; SLw 6 64 0; SRet] in
  no_stale [] [] false (seq_evs 20 (map sinstr_of (map instr_of p)) no_lab st_w 0) = true /\
  exists st' tr c,
    seq_run 20 p no_lab st_w = Done st' tr /\
    mvp4_run 5000 (map instr_of p) no_lab st_w = MDone c st' /\ rget (regs st') 6 = 7.
Proof.
  cbv zeta. split; [vm_compute; reflexivity|].
  do 3 eexists. split; [vm_compute; reflexivity|]. split; [vm_compute; reflexivity|]. reflexivity.
Qed.

(* ... TWO cold stores followed by a load of the line of the second one are outside the
   hypothesis, but the model is still right on this program: the stale fetch needs a
   third store that keeps the write unit busy while the other two wait in the bus
   (mvp4_cold_store_then_load_refuted, mvp4_three_cold_stores_one_line_refuted) *)
Example mvp4_two_cold_stores_then_load_still_right :
  let p := [SLi 5 7; SSw 5 0 0; SSw 5 64 0; SLw 6 64 0; SRet] in
  no_stale [] [] false (seq_evs 20 (map sinstr_of (map instr_of p)) no_lab st_w 0) = false /\
  exists st' tr c,
    seq_run 20 p no_lab st_w = Done st' tr /\
    mvp4_run 5000 (map instr_of p) no_lab st_w = MDone c st' /\ rget (regs st') 6 = 7.
Proof.
  cbv zeta. split; [vm_compute; reflexivity|].
  do 3 eexists. split; [vm_compute; reflexivity|]. split; [vm_compute; reflexivity|]. reflexivity.
Qed.

(* cold stores followed by a load of a DIFFERENT line, or of the line of a store that is
   not the last one, are inside the hypothesis *)
Example mvp4_cold_stores_then_other_load_ok :
  let p := [SLi 5 7; SSw 5 0 0; SSw 5 128 0; SSw 5 64 0; SLw 6 192 0; SSw 5 0 0; SSw 5 128 0; SSw 5 64 0; SLw 7 128 0; SRet] in
  no_stale [] [] false (seq_evs 20 (map sinstr_of (map instr_of p)) no_lab st_w 0) = true /\
  exists st' tr c,
    seq_run 20 p no_lab st_w = Done st' tr /\
    mvp4_run 9000 (map instr_of p) no_lab st_w = MDone c st' /\ rget (regs st') 7 = 7 /\ mget (mem st') 64 = 7.
Proof.
  cbv zeta. split; [vm_compute; reflexivity|].
  do 3 eexists. split; [vm_compute; reflexivity|]. split; [vm_compute; reflexivity|]. split; reflexivity.
Qed.
