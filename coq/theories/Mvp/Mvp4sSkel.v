(* The skeleton of MVP-4 for programs whose stores may MISS in the L1D (see
   Mvp4mSkel.v for the version in which every store hits).  A store that misses
   travels on the write bus; the write unit writes it to memory and then stays
   busy for MemoryAccess cycles; the execute unit stalls while the pending slot of
   the write bus is occupied.  The skeleton therefore also keeps the SHAPE of the two
   slots of the write bus (declared write registers, stored addresses) and the write
   unit; as before it is driven by the events (pc, loaded addresses, stored
   addresses) of the sequential run only.

   The hypothesis that excludes the defect cold-store-then-load
   (mvp4_cold_store_then_load_refuted) is [no_stale]: computed from the events and
   the L1D recency list only, no timing.  Call "bus items" the executed instructions
   that are put on the write bus, i.e. all but the stores that hit in the L1D and the
   final ret.  no_stale forbids exactly the pattern

       S0  (store hits)*  S  (store hits)*  L

   where S0 and S are stores that MISS in the L1D, consecutive as bus items, and L
   is a load of the 64-byte line written by S. *)
From Coq Require Import ZArith List Bool Lia.
From Maj Require Import Base.Outcome Base.GoInt Base.GoTypes Isa.Spec Isa.Seq Isa.Refine.
From Maj Require Import Gen.Latency Gen.RiscTables Gen.Opcodes Comp.Cache.
From Maj Require Import Mvp.Mvp12 Mvp.Mvp3 Mvp.Mvp3Proofs Mvp.Mvp4 Mvp.Mvp4Skel Mvp.Mvp4mSkel.
Import ListNotations.
Open Scope Z_scope.

(* ------------------------------------------------------------------ *)
(* the hypothesis                                                       *)

Definition nnil (l : list Z) : bool := match l with [] => false | _ :: _ => true end.

(* do the two (non-empty) accesses touch the same 64-byte line *)
Definition same_line_as (a b : list Z) : bool :=
  match a, b with
  | x :: _, y :: _ => x / 64 =? y / 64
  | _, _ => false
  end.

(* [dt]: recency list of the L1D; [l1]: the addresses stored by the last bus item if
   it is a store that missed, [] otherwise; [l2]: the bus item before it is a store
   that missed *)
Fixpoint no_stale (dt : list Z) (l1 : list Z) (l2 : bool) (evs : list event) : bool :=
  match evs with
  | [] => true
  | ev :: t =>
      let r1 := fst (a_load dt (ev_la ev)) in
      let g := a_get_all r1 (ev_sa ev) in
      negb (l2 && same_line_as l1 (ev_la ev)) &&
      match ev_sa ev with
      | [] => no_stale (fst g) [] (nnil l1) t
      | _ :: _ => if snd g then no_stale (fst g) l1 l2 t else no_stale (fst g) (ev_sa ev) (nnil l1) t
      end
  end.

(* ------------------------------------------------------------------ *)
(* the skeleton                                                         *)

(* shape of an entry of the write bus: declared write registers, stored addresses,
   and (ghost) whether the entry before it on the bus is a store *)
Definition witem := (list Z * list Z * bool)%type.
Definition wi_wr (x : witem) : list Z := fst (fst x).
Definition wi_sa (x : witem) : list Z := snd (fst x).
Definition wi_fl (x : witem) : bool := snd x.

Record sks := mk_sks { x_fu : fu_t; x_l1i : cache; x_dbus : sbus Z; x_ebus : sbus (instr * Z);
                       x_eu : eu_t; x_pw : list Z; x_wp : option witem; x_wc : option witem;
                       x_wu : wu_t; x_dt : list Z; x_l1 : list Z; x_l2 : bool }.

Definition is_full (wp : option witem) : bool := match wp with Some _ => true | None => false end.

(* the execute unit; [full]: the pending slot of the write bus is occupied *)
Definition sks_eu (full : bool) (e : eu_t) (ebus : sbus (instr * Z)) (pw : list Z) (dt : list Z) (la : list Z)
  : eu_t * sbus (instr * Z) * list Z * eu_act :=
  if full && negb (eu_pending_read e) then
    let '(e1, ebus1, have) := eu_intake e ebus in
    if negb have then (e1, ebus1, dt, ANone) else
    let rem := eu_remaining e1 - 1 in
    if negb (rem =? 0) then (set_rem e1 rem, ebus1, dt, ANone) else (set_rem e1 1, ebus1, dt, ANone)
  else skm_eu e ebus pw dt la.

(* writeUnit.cycle *)
Definition sks_wu (pw : list Z) (w : wu_t) (wp wc : option witem) : list Z * wu_t * option witem * option witem :=
  if wu_pending w then
    let c := wu_cycles w - 1 in (pw, mk_wu (negb (c =? 0)) c, wp, wc)
  else
    match wc with
    | None => (pw, w, None, wp)
    | Some x =>
        match wi_sa x with
        | [] => (pw_del pw (wi_wr x), w, None, wp)
        | _ :: _ => (pw, mk_wu true MemoryAccess, None, wp)
        end
    end.

Definition drain_fuel : nat := S (S (Z.to_nat MemoryAccess * 4)%nat).

Fixpoint sks_drain (fuel : nat) (pw : list Z) (w : wu_t) (wp wc : option witem) (cycle : Z) (tick : bool)
  : option (wu_t * Z) :=
  match fuel with
  | O => None
  | S f =>
      if negb (wu_pending w) && negb (is_full wp) && negb (is_full wc) then Some (w, cycle)
      else
        let '(pw', w', wp', wc') := sks_wu pw w wp wc in
        sks_drain f pw' w' wp' wc' (if tick then cycle + 1 else cycle) tick
  end.

Definition sks_complete (a : sks) : bool :=
  fu_complete (x_fu a) && negb (eu_processing (x_eu a)) && negb (wu_pending (x_wu a)) &&
  sbus_is_empty (x_dbus a) && sbus_is_empty (x_ebus a) && negb (is_full (x_wp a)) && negb (is_full (x_wc a)).

Inductive sks_res :=
| XStep (a : sks) (path : list event) (dc : Z)
| XFin (dc : Z) (dt : list Z)
| XStuck.

(* the state after a cycle in which the write bus received [add] (None: nothing) *)
Definition sks_next (a : sks) (fu1 : fu_t) (l1i1 : cache) (dbus2 : sbus Z) (ebus2 : sbus (instr * Z)) (e1 : eu_t)
           (add : option (list Z * list Z)) (dt1 : list Z) : sks :=
  match add with
  | None =>
      let '(pw2, w2, wp2, wc2) := sks_wu (x_pw a) (x_wu a) (x_wp a) (x_wc a) in
      mk_sks fu1 l1i1 dbus2 ebus2 e1 pw2 wp2 wc2 w2 dt1 (x_l1 a) (x_l2 a)
  | Some (wr, sa) =>
      let '(pw2, w2, wp2, wc2) := sks_wu (pw_add (x_pw a) wr) (x_wu a) (Some (wr, sa, nnil (x_l1 a))) (x_wc a) in
      mk_sks fu1 l1i1 dbus2 ebus2 e1 pw2 wp2 wc2 w2 dt1 sa (nnil (x_l1 a))
  end.

Definition sks_exec (a : sks) (fu1 : fu_t) (l1i1 : cache) (dbus2 : sbus Z) (ebus2 : sbus (instr * Z)) (e1 : eu_t)
           (dt1 : list Z) (i : instr) (pc : Z) (path : list event) : sks_res :=
  match path with
  | [] => XStuck
  | ev :: rest =>
      if negb (ev_pc ev =? pc) then XStuck
      else if is_ret i then
        match rest with
        | [] =>
            let '(pw2, w2, wp2, wc2) := sks_wu (x_pw a) (x_wu a) (x_wp a) (x_wc a) in
            match sks_drain drain_fuel pw2 w2 wp2 wc2 0 false with
            | Some _ => XFin 1 dt1
            | None => XStuck
            end
        | _ :: _ => XStuck
        end
      else match rest with
           | [] => XStuck
           | nxt :: _ =>
               match ev_sa ev with
               | _ :: _ =>
                   if negb (ev_pc nxt =? addS 32 pc 4) then XStuck
                   else if snd (a_get_all dt1 (ev_sa ev)) then
                     XStep (sks_next a fu1 l1i1 dbus2 ebus2 e1 None (fst (a_get_all dt1 (ev_sa ev)))) rest 1
                   else
                     XStep (sks_next a fu1 l1i1 dbus2 ebus2 e1 (Some ([], ev_sa ev))
                                     (fst (a_get_all dt1 (ev_sa ev)))) rest 1
               | [] =>
                   let a2 := sks_next a fu1 l1i1 dbus2 ebus2 e1 (Some (instr_WriteRegisters i, [])) dt1 in
                   if sk_flush i pc (ev_pc nxt) then
                     match sks_drain drain_fuel (x_pw a2) (x_wu a2) (x_wp a2) (x_wc a2) 1 true with
                     | Some (w3, c3) =>
                         XStep (mk_sks (mk_fu (ev_pc nxt) (fu_remaining fu1) false false) l1i1 sbus_empty sbus_empty
                                       e1 zero_pw None None w3 dt1 (x_l1 a2) (x_l2 a2)) rest c3
                     | None => XStuck
                     end
                   else XStep a2 rest 1
               end
           end
  end.

(* one iteration of the Run loop, before the test "is the pipeline empty" *)
Definition sks_pre (app : list instr) (a : sks) (path : list event) : sks_res :=
  match fu_cycle app (x_fu a) (x_l1i a) (x_dbus a) with
  | Ok (fu1, l1i1, dbus1) =>
      match du_cycle app dbus1 (x_ebus a) with
      | Ok (dbus2, ebus1) =>
          let '(e1, ebus2, dt1, act) :=
            sks_eu (is_full (x_wp a)) (x_eu a) ebus1 (x_pw a) (x_dt a) (match path with ev :: _ => ev_la ev | [] => [] end) in
          match act with
          | AStuck => XStuck
          | ANone => XStep (sks_next a fu1 l1i1 dbus2 ebus2 e1 None dt1) path 1
          | AExec i pc => sks_exec a fu1 l1i1 dbus2 ebus2 e1 dt1 i pc path
          end
      | _ => XStuck
      end
  | _ => XStuck
  end.

Definition sks_cycle (app : list instr) (a : sks) (path : list event) : sks_res :=
  match sks_pre app a path with
  | XStep a2 p dc => if sks_complete a2 then XFin dc (x_dt a2) else XStep a2 p dc
  | r => r
  end.

Fixpoint sks_run (fuel : nat) (app : list instr) (a : sks) (path : list event) (cycle : Z) : option Z :=
  match fuel with
  | O => None
  | S f =>
      match sks_cycle app a path with
      | XStep a' path' dc => sks_run f app a' path' (cycle + dc)
      | XFin dc dt => Some (cycle + dc + MemoryAccess * zlen dt)
      | XStuck => None
      end
  end.

Definition sks_init (ci : cache) : sks :=
  mk_sks (mk_fu 0 0 false false) ci sbus_empty sbus_empty (mk_eu false false [] None 0 None) zero_pw None None
         (mk_wu false 0) [] [] false.

(* the cycle count of MVP-4 as a function of the program and the events only *)
Definition mvp4_cost_sm (fuel : nat) (app : list instr) (evs : list event) : option Z :=
  match new_cache l1LineSize l1Size with
  | Ok ci => sks_run fuel app (sks_init ci) evs 0
  | _ => None
  end.
