(* Refinement of MVP-6.3 to the sequential machine on single-assignment, register-only,
   straight-line programs - part 3: the execute units and the write units at machine level.

   eu_head_eq    executeUnit.Cycle of an idle unit when the execute bus has a head: the unit takes it,
                 receives its forwarded operand (if it has a Receiver: the channel holds the value,
                 head_operands), runs it at once (register-only: no memory wait) with the sequential
                 operands, sends the result to its Forwarder (if any), pushes it on the write bus and is
                 idle again; the machine afterwards is exec_head;
   BI_exec_head  exec_head keeps the back-end invariant with xe + 1 (the ret: nothing is left in flight
                 behind it, the invariant holds with d = xe = N);
   eus_main_ok   the loop over the execute units of the main loop: min (units, queue length) heads;
   eus_drain_idle the loop of the drain loop after ret over idle units;
   wus_ok3       the loop over the write units: min (units, queue length) results are written to
                 transactionRAT in order. *)
From Coq Require Import ZArith List Bool Lia Permutation.
From Maj Require Import Base.Outcome Base.GoInt Base.GoTypes Isa.Spec Isa.Embed Isa.Seq Isa.Refine.
From Maj Require Import Gen.Latency Gen.RiscTables Gen.Opcodes Comp.Cache Comp.Rat Comp.RatProofs.
From Maj Require Import Mvp.Mvp12 Mvp.Mvp12Proofs Mvp.Mvp3 Mvp.Mvp3Proofs Mvp.Mvp4Skel Mvp.Mvp4Inv Mvp.Mvp5 Mvp.Mvp60
     Mvp.Mvp60RefSem Mvp.Mvp60RefDefs Mvp.Mvp60RefFront Mvp.Mvp60RefBack Mvp.Mvp60RefStep Mvp.Mvp63 Mvp.Mvp63RefDefs Mvp.Mvp63RefInv.
Import ListNotations.
Open Scope Z_scope.

Lemma mx_eq (a b : mx) : x_m a = x_m b -> x_ebus a = x_ebus b -> x_pend a = x_pend b -> x_prev a = x_prev b ->
  x_pcb a = x_pcb b -> x_seq a = x_seq b -> x_crat a = x_crat b -> x_trat a = x_trat b -> x_fwd a = x_fwd b ->
  x_chan a = x_chan b -> x_next a = x_next b -> x_os a = x_os b -> a = b.
Proof. destruct a, b; cbn; intros; subst; reflexivity. Qed.

Lemma upd3_repeat {A} (a : A) n i : Seq.upd (repeat a n) i a = repeat a n.
Proof. revert i. induction n as [|n IH]; intros [|i]; cbn; try reflexivity. rewrite IH. reflexivity. Qed.

Lemma upd3_upd {A} (l : list A) i a b : Seq.upd (Seq.upd l i a) i b = Seq.upd l i b.
Proof. revert i. induction l as [|h t IH]; intros [|i]; cbn; try reflexivity. rewrite IH. reflexivity. Qed.

Lemma nth_repeat_same {A} (a : A) n i : nth i (repeat a n) a = a.
Proof. revert i. induction n as [|n IH]; intros [|i]; cbn; try reflexivity. apply IH. Qed.

Lemma aget_filter_none {A} k ch (m : list (Z * A)) : aget k m = None -> aget k (filter (fun p => negb (fst p =? ch)) m) = None.
Proof.
  induction m as [|[k' a] t IH]; cbn [aget filter fst]; [reflexivity|].
  destruct (k =? k') eqn:E; [discriminate|]. intros H. destruct (negb (k' =? ch)); [cbn [aget]; rewrite E|]; apply IH; exact H.
Qed.

Lemma set_m_same x : set_m x (x_m x) = x. Proof. destruct x; reflexivity. Qed.

(* two different entries of a list do not receive on the same channel *)
Lemma recvs_head_ne r l a ch ch' : NoDup (recvs (r :: l)) -> q_recv r = Some ch -> In a l -> q_recv a = Some ch' -> ch' <> ch.
Proof.
  intros Hnd Hr Ha Hc. change (r :: l) with ([r] ++ l) in Hnd. rewrite recvs_app in Hnd. unfold recvs at 1 in Hnd. cbn [flat_map] in Hnd.
  rewrite Hr in Hnd. cbn [List.app] in Hnd. inversion Hnd as [|? ? Hni _]; subst. intros ->. apply Hni. eapply recvs_in; eassumption.
Qed.

Lemma fwds_head_ne r l a ch ch' : NoDup (fwds (r :: l)) -> q_fwder r = Some ch -> In a l -> q_fwder a = Some ch' -> ch' <> ch.
Proof.
  intros Hnd Hr Ha Hc. change (r :: l) with ([r] ++ l) in Hnd. rewrite fwds_app in Hnd. unfold fwds at 1 in Hnd. cbn [flat_map] in Hnd.
  rewrite Hr in Hnd. cbn [List.app] in Hnd. inversion Hnd as [|? ? Hni _]; subst. intros ->. apply Hni. eapply fwds_in; eassumption.
Qed.

Lemma Forall_filter3 {A} (P : A -> Prop) f l : Forall P l -> Forall P (filter f l).
Proof. induction 1 as [|a t Ha _ IH]; cbn [filter]; [constructor|]. destruct (f a); [constructor; assumption | exact IH]. Qed.

Lemma aget_snoc_new {A} c (m : list (Z * A)) v : aget c m = None -> aget c (m ++ [(c, v)]) = Some v.
Proof. intros H. rewrite (aget_app_none _ _ _ H). cbn [aget]. rewrite Z.eqb_refl. reflexivity. Qed.

Lemma canadd_lt3 {T} (b : bbus T) : bb_bl b = 2 -> blen b < 2 -> bb_canadd b = true.
Proof. intros Hbl Hb. unfold bb_canadd, blen in *. rewrite Hbl. apply negb_true_iff, Z.eqb_neq. lia. Qed.

(* an execute unit between two ticks *)
Definition EuIdle (e : eu3) : Prop := g_co e = ENone /\ g_memory e = [].

Section Exec.
  Variables (app : list instr) (labels : Z -> option Z) (regs0 mem0 : list Z) (ord : Z -> Z -> list Z -> list Z).
  Hypothesis Happ : wf_app app.
  Hypothesis Hstr : straight app = true.
  Hypothesis Hreg : reg_only app = true.
  Hypothesis Hssa : ssa app = true.
  Hypothesis Hrng : regs_ok app = true.
  Hypothesis Hlen0 : length regs0 = 32%nat.
  Hypothesis Hr32 : Forall int32 regs0.
  Hypothesis Hx0 : nth 0 regs0 0 = 0.
  Let n := length app.
  Let N := stop_from app 0.

  Notation sreg := (sreg app labels regs0 0).
  Notation eff := (eff app labels regs0 0).
  Notation rn := (rn app).
  Notation ik := (ik app).
  Notation wsl := (wsl app).
  Notation rsl := (rsl app).
  Notation wbn := (wbn app labels regs0 0).
  Notation exe := (exe app labels regs0).
  Notation tv := (tv app labels regs0).
  Notation rds := (rds app).
  Notation wrs := (wrs app).
  Notation BI := (BI app labels regs0 mem0).

  Hypothesis Hsem : forall k, (0 <= k <= N)%nat -> (k < n)%nat ->
    exec (sinstr_of (ik k)) (rget (sreg k)) labels (pcz k) [] = Ok (eff k) /\
    (forall a, etarget (eff k) = Some a -> exists t, a = pcz t /\ (k < t <= n)%nat).

  Set Default Proof Using "All".

  Definition out_of (k : nat) : eu_out3 := if is_ret (ik k) then mk_euo3 false 0 0 true None else yo_none.

  (* ---------------------------------------------------------------- *)
  (* run                                                                *)

  (* the machine after coRun of instruction k, carried by runner r *)
  Definition run_res (x : mx) (cy : Z) (r : runner3) (k : nat) : mx :=
    let x0 := set_forward3 x (pcz k) 0 0 in
    if is_ret (ik k) then x0 else
    let x1 := set_m x0 (set_wbus (x_m x0) (bb_add (m_wbus (x_m x0)) (wbn k) cy)) in
    match q_fwder r with
    | None => x1
    | Some ch => set_chan3 x1 (x_chan x1 ++ [(ch, RegisterValue (exe k))])
    end.

  Lemma eu_run_eq cy k x e r : g_runner e = Some r -> q_r r = rn k -> g_memory e = [] ->
    instr_Run (ik k) (rr3 x (pcz k)) labels (pcz k) [] 0 = Ok (exe k) -> (k <= N)%nat -> (k < n)%nat ->
    (forall ch, q_fwder r = Some ch -> aget ch (x_chan x) = None) ->
    eu_run3 labels ord cy x e = (false, Ok (run_res x cy r k, mk_eu3 ENone [] (Some r) (g_seq e), out_of k)).
  Proof.
    intros Hr Hqr Hmem Hrun HkN Hkn Hfw.
    destruct (exe_flags app labels regs0 Hstr Hreg Hlen0 Hsem k HkN Hkn) as (Fr & Fm & Fp).
    assert (Hi : q_instr r = ik k) by (apply (q_instr_rn app); exact Hqr).
    assert (Hpc : q_pc r = pcz k) by (unfold q_pc; rewrite Hqr; reflexivity).
    assert (Hsq : q_seq r = pcz k) by (unfold q_seq; rewrite Hqr; reflexivity).
    unfold eu_run3, run_res, out_of. rewrite Hr. cbv zeta. rewrite Hi, Hpc, Hsq, Hmem, Hrun, Fr.
    destruct (is_ret (ik k)) eqn:Eret; [reflexivity|].
    rewrite Fm. cbn [andb bind]. cbv iota beta.
    pose proof (ik_nobr app Hstr k) as Hnb.
    rewrite (nobranch_uncond _ Hnb), (nobranch_cond _ Hnb), (nobranch_branch _ Hnb), Fp.
    unfold Mvp60RefBack.wbn. fold (exe k).
    destruct (q_fwder r) as [ch|] eqn:Ef; [|reflexivity].
    cbn [x_chan set_m set_forward3 set_fwd3]. rewrite (Hfw ch eq_refl). reflexivity.
  Qed.

  (* ---------------------------------------------------------------- *)
  (* prepareRun on the head of the execute bus                          *)

  Definition rchan (x : mx) (r : runner3) : list (Z * Z) :=
    match q_recv r with Some ch => filter (fun p => negb (fst p =? ch)) (x_chan x) | None => x_chan x end.
  Definition schan (c : list (Z * Z)) (r : runner3) (v : Z) : list (Z * Z) :=
    match q_fwder r with Some ch => c ++ [(ch, v)] | None => c end.
  Definition bu_idle (m : mach) : mach := set_bu m (mk_bu6 false (b_expect (m_bu m)) (b_btb (m_bu m))).
  Definition ebus_tl (b : bbus runner3) : bbus runner3 := mk_bb (bb_buf b) (tl (bb_q b)) (bb_ql b) (bb_bl b).
  (* the runner struct the unit keeps *)
  Definition recvd (r : runner3) : runner3 :=
    match q_recv r with Some _ => mk_r3 (q_r r) (q_id r) (q_fwder r) None (q_freg r) | None => r end.

  (* the machine after an idle execute unit has taken the head r = instruction k and executed it *)
  Definition exec_head (x : mx) (cy : Z) (r : runner3) (k : nat) : mx :=
    let m1 := bu_idle (x_m x) in
    mk_mx (if is_ret (ik k) then m1 else set_wbus m1 (bb_add (m_wbus m1) (wbn k) cy))
          (ebus_tl (x_ebus x)) (x_pend x) (x_prev x) (x_pcb x) (x_seq x) (x_crat x) (x_trat x) (x_fwd x)
          (if is_ret (ik k) then rchan x r else schan (rchan x r) r (RegisterValue (exe k))) (x_next x) (x_os x).

  Lemma fwd_idx_pcz k : fwd_idx (pcz k) = k.
  Proof. unfold fwd_idx. rewrite pcz_quot. apply Nat2Z.id. Qed.

  Lemma bu_assert_plain x k : bu_assert3 x (rn k) = set_m x (bu_idle (x_m x)).
  Proof.
    unfold bu_assert3. cbn [Mvp60RefFront.rn r_instr]. pose proof (ik_nobr app Hstr k) as Hnb.
    rewrite (nobranch_uncond _ Hnb), (nobranch_cond _ Hnb). reflexivity.
  Qed.

  Lemma eu_head_eq cy dp d xe w pl pv x e r q' :
    BI dp d xe w pl pv x -> bb_q (x_ebus x) = r :: q' -> EuIdle e -> g_seq e = 0 ->
    bb_canadd (m_wbus (x_m x)) = true ->
    eu_cycle3 labels ord cy x e = (false, Ok (exec_head x cy r xe, mk_eu3 ENone [] (Some (recvd r)) 0, out_of xe)).
  Proof.
    intros HB Hq [Hco Hmem] Hseq Hca.
    assert (Hfl : flat (x_ebus x) = r :: (q' ++ map snd (bb_buf (x_ebus x)))) by (unfold flat; rewrite Hq; reflexivity).
    destruct (head_entry app labels regs0 mem0 ord Hlen0 Hsem _ _ _ _ _ _ _ _ _ HB Hfl) as (Hqr & Hkq & Hxd).
    destruct (head_operands app labels regs0 mem0 ord Happ Hreg Hssa Hrng Hlen0 Hr32 Hx0 Hsem _ _ _ _ _ _ _ _ _ HB Hfl) as (Hch & _ & _ & Hrun).
    pose proof (bi_xeN _ _ _ _ _ _ _ _ _ _ _ HB) as HxN. pose proof (bi_dn _ _ _ _ _ _ _ _ _ _ _ HB) as [Hdn _].
    pose proof (bi_fwd _ _ _ _ _ _ _ _ _ _ _ HB) as Hfwd.
    assert (Hxn : (xe < n)%nat) by (fold n in Hdn; lia).
    assert (Hin : In r (flat (x_ebus x))) by (rewrite Hfl; left; reflexivity).
    pose proof (bi_fwder _ _ _ _ _ _ _ _ _ _ _ HB) as Hfo. rewrite Forall_forall in Hfo. specialize (Hfo r Hin).
    assert (Hpc : q_pc r = pcz xe) by (unfold q_pc; rewrite Hqr; reflexivity).
    unfold eu_cycle3, eu_pre3. rewrite Hseq. change (0 =? 0) with true. cbv iota. rewrite Hco. unfold bb_get. rewrite Hq.
    unfold eu_prepare3. cbn [x_m set_ebus3 g_runner g_co g_memory g_seq x_chan]. rewrite Hca. cbn [negb].
    set (xa := set_ebus3 x (mk_bb (bb_buf (x_ebus x)) q' (bb_ql (x_ebus x)) (bb_bl (x_ebus x)))).
    assert (Hnm : forall rr, instr_MemoryRead (ik xe) rr 0 = []) by (intros rr; apply nomem_no_read; apply (ik_nomem app Hreg)).
    destruct (q_recv r) as [ch|] eqn:Erc.
    - destruct (Hch ch eq_refl) as (v & Hv). cbn [x_chan xa set_ebus3]. rewrite Hv.
      unfold q_instr, q_pc. cbn [q_r]. rewrite Hqr, bu_assert_plain. cbn [Mvp60RefFront.rn r_instr r_pc]. rewrite Hnm.
      match goal with |- eu_run3 _ _ _ ?x1 ?e1 = _ => set (xb := x1); set (eb := e1) end.
      rewrite (eu_run_eq cy xe xb eb (mk_r3 (rn xe) (q_id r) (q_fwder r) None (q_freg r)) eq_refl eq_refl Hmem).
      + unfold recvd. rewrite Erc, Hqr. f_equal. f_equal. f_equal. f_equal.
        unfold run_res, exec_head, rchan, schan. rewrite Erc. cbn [q_fwder].
        destruct (is_ret (ik xe)); [|destruct (q_fwder r)]; apply mx_eq; unfold xb, xa;
          cbn [x_m x_ebus x_pend x_prev x_pcb x_seq x_crat x_trat x_fwd x_chan x_next x_os set_m set_ebus3 set_forward3 set_fwd3 set_chan3];
          try reflexivity; try (unfold ebus_tl; rewrite Hq; reflexivity);
          rewrite !fwd_idx_pcz, upd3_upd, Hfwd; apply upd3_repeat.
      + unfold rr3, xb, xa. cbn [x_m x_ebus x_crat x_trat x_fwd set_m set_ebus3 set_forward3 set_fwd3 set_chan3].
        rewrite !fwd_idx_pcz, supd_nth_eq by (rewrite Hfwd, repeat_length; exact Hxn).
        unfold head_fw in Hrun. rewrite Erc, Hv in Hrun. exact Hrun.
      + exact HxN.
      + exact Hxn.
      + intros c Hc. cbn [q_fwder] in Hc. unfold xb, xa. cbn [x_chan set_m set_ebus3 set_forward3 set_fwd3 set_chan3].
        apply aget_filter_none. apply (Hfo c Hc).
    - unfold q_instr, q_pc. rewrite Hqr, bu_assert_plain. cbn [Mvp60RefFront.rn r_instr r_pc]. rewrite Hnm.
      match goal with |- eu_run3 _ _ _ ?x1 ?e1 = _ => set (xb := x1); set (eb := e1) end.
      rewrite (eu_run_eq cy xe xb eb r eq_refl Hqr Hmem).
      + unfold recvd. rewrite Erc. f_equal. f_equal. f_equal. f_equal.
        unfold run_res, exec_head, rchan, schan. rewrite Erc.
        destruct (is_ret (ik xe)); [|destruct (q_fwder r)]; apply mx_eq; unfold xb, xa;
          cbn [x_m x_ebus x_pend x_prev x_pcb x_seq x_crat x_trat x_fwd x_chan x_next x_os set_m set_ebus3 set_forward3 set_fwd3 set_chan3];
          try reflexivity; try (unfold ebus_tl; rewrite Hq; reflexivity);
          rewrite ?fwd_idx_pcz, Hfwd; apply upd3_repeat.
      + unfold rr3, xb, xa. cbn [x_m x_ebus x_crat x_trat x_fwd set_m set_ebus3].
        rewrite Hfwd, nth_repeat_same. unfold head_fw in Hrun. rewrite Erc in Hrun. exact Hrun.
      + exact HxN.
      + exact Hxn.
      + intros c Hc. unfold xb, xa. cbn [x_chan set_m set_ebus3]. apply (Hfo c Hc).
  Qed.

  (* ---------------------------------------------------------------- *)
  (* the invariant after the head has been executed                     *)

  Lemma ret_is_N k : (k <= N)%nat -> (k < n)%nat -> (is_ret (ik k) = true <-> k = N).
  Proof. apply (is_ret_N app labels regs0 Hstr Hlen0 Hsem). Qed.

  Lemma chan_lt x r v b : Forall (fun p => fst p < b) (x_chan x) -> (forall ch, q_fwder r = Some ch -> ch < b) ->
    Forall (fun p => fst p < b) (rchan x r) /\ Forall (fun p => fst p < b) (schan (rchan x r) r v).
  Proof.
    intros H Hf. assert (H1 : Forall (fun p => fst p < b) (rchan x r)) by (unfold rchan; destruct (q_recv r); [apply Forall_filter3|]; exact H).
    split; [exact H1|]. unfold schan. destruct (q_fwder r) as [ch|]; [|exact H1].
    apply Forall_app. split; [exact H1|]. constructor; [cbn [fst]; apply Hf; reflexivity | constructor].
  Qed.

  Lemma BI_exec_head cy dp d xe w pl pv x r q' :
    BI dp d xe w pl pv x -> bb_q (x_ebus x) = r :: q' -> (forall p, In p pv -> (xe < kq p)%nat) ->
    (is_ret (ik xe) = false -> BI dp d (S xe) w pl pv (exec_head x cy r xe)) /\
    (is_ret (ik xe) = true -> pl = [] -> pv = [] -> xe = N /\ d = S N /\ BI dp xe xe w [] [] (exec_head x cy r xe)).
  Proof.
    intros HB Hq Hpv.
    set (E' := q' ++ map snd (bb_buf (x_ebus x))).
    assert (Hfl : flat (x_ebus x) = r :: E') by (unfold flat, E'; rewrite Hq; reflexivity).
    destruct (head_entry app labels regs0 mem0 ord Hlen0 Hsem _ _ _ _ _ _ _ _ _ HB Hfl) as (Hqr & Hkq & Hxd).
    pose proof HB as [bi_ord0 bi_dn0 bi_xeN0 bi_ret0 bi_ebus0 bi_wbus0 bi_pwlen0 bi_prlen0 bi_pw0 bi_pr0 bi_cok0 bi_crat0 bi_tok0 bi_trat0 bi_fwd0 bi_seq0
      bi_pcb0 bi_chan0 bi_idnd0 bi_idlt0 bi_read0 bi_recv0 bi_fwder0 bi_rnd0 bi_rlt0 bi_pendr0 bi_pend10 bi_pendf0 bi_prev0 bi_prevnd0 bi_regs0 bi_mem0 bi_l30 bi_os0 bi_fnd0].
    rewrite Hfl in *.
    assert (Hxn : (xe < n)%nat) by (fold n in bi_dn0; lia).
    assert (Hfl' : flat (ebus_tl (x_ebus x)) = E') by (unfold flat, ebus_tl, E'; cbn [bb_q bb_buf]; rewrite Hq; reflexivity).
    assert (HE' : map q_r E' = map rn (seq (S xe) (d - S xe))).
    { replace (d - xe)%nat with (S (d - S xe)) in bi_ebus0 by lia. cbn [seq map] in bi_ebus0. injection bi_ebus0 as _ H. exact H. }
    assert (HE'k : forall a, In a E' -> (S xe <= kq a < d)%nat).
    { intros a Ha. destruct (map_rn_in app _ _ _ _ HE' Ha) as (k & Hk & _ & Ek). lia. }
    assert (Hfo : FwdOK (x_chan x) (x_next x) r) by (inversion bi_fwder0; assumption).
    set (v := RegisterValue (exe xe)).
    destruct (chan_lt x r v (x_next x) bi_chan0 ltac:(intros c Hc; apply (Hfo c Hc))) as [Hcl1 Hcl2].
    assert (Hrc : forall a, In a (r :: E' ++ pl) -> RecvOK app labels regs0 xe (r :: E') (x_chan x) a).
    { rewrite Forall_forall in bi_recv0. exact bi_recv0. }
    split.
    - intros Hnr.
      assert (HxN : (S xe <= N)%nat).
      { destruct (Nat.eq_dec xe N) as [E|]; [|lia]. exfalso. rewrite (proj2 (ret_is_N xe bi_xeN0 Hxn) E) in Hnr. discriminate. }
      (* channels after the step *)
      assert (Hget_old : forall a c val, In a (E' ++ pl) -> q_recv a = Some c -> aget c (x_chan x) = Some val ->
                aget c (schan (rchan x r) r v) = Some val).
      { intros a c val Ha Hc Hval.
        assert (H1 : aget c (rchan x r) = Some val).
        { unfold rchan. destruct (q_recv r) as [rch|] eqn:Er; [|exact Hval]. rewrite aget_filter_ne; [exact Hval|].
          eapply recvs_head_ne; [exact bi_rnd0 | exact Er | exact Ha | exact Hc]. }
        unfold schan. destruct (q_fwder r); [apply aget_app_some|]; exact H1. }
      constructor; unfold exec_head; rewrite ?Hnr;
        cbn [x_ebus x_m x_crat x_trat x_fwd x_seq x_pcb x_chan x_next x_os bu_idle set_bu set_wbus m_pw m_pr m_regs m_mem m_l3 m_wbus];
        rewrite ?Hfl', ?add_flat; try assumption.
      + lia.
      + intros Hlt. specialize (bi_ret0 Hlt). lia.
      + rewrite bi_wbus0. replace (S xe - w)%nat with (S (xe - w)) by lia. rewrite seq_snoc, map_app. cbn [map].
        replace (w + (xe - w))%nat with xe by lia. reflexivity.
      + cbn [map] in bi_idnd0. inversion bi_idnd0; assumption.
      + inversion bi_idlt0; assumption.
      + inversion bi_read0; assumption.
      + apply Forall_forall. intros a Ha c Hc. destruct (Hrc a (or_intror Ha) c Hc) as (A & p & B & C & D).
        split; [exact A|]. exists p. split; [exact B|]. split; [exact C|].
        destruct D as [(D1 & rp & D2 & D3 & D4)|(D1 & D2)].
        * destruct (Nat.eq_dec p xe) as [->|Hne].
          -- right. split; [lia|]. assert (rp = r).
             { destruct D2 as [<-|D2]; [reflexivity|]. exfalso. specialize (HE'k rp D2). lia. }
             subst rp. unfold schan. rewrite D4. apply aget_snoc_new. unfold rchan.
             destruct (q_recv r); [apply aget_filter_none|]; apply (Hfo c D4).
          -- left. split; [lia|]. exists rp. split; [|auto]. destruct D2 as [<-|D2]; [lia | exact D2].
        * right. split; [lia|]. eapply Hget_old; eassumption.
      + apply Forall_forall. intros a Ha c Hc. rewrite Forall_forall in bi_fwder0. destruct (bi_fwder0 a (or_intror Ha) c Hc) as [G1 G2].
        split; [|exact G2]. unfold schan.
        assert (H1 : aget c (rchan x r) = None) by (unfold rchan; destruct (q_recv r); [apply aget_filter_none|]; exact G1).
        destruct (q_fwder r) as [fch|] eqn:Ef; [|exact H1]. rewrite (aget_app_none _ _ _ H1). cbn [aget].
        destruct (Z.eqb_spec c fch) as [->|]; [|reflexivity]. exfalso.
        exact (fwds_head_ne r E' a fch fch bi_fnd0 Ef Ha Hc eq_refl).
      + change ((r :: E') ++ pl) with ([r] ++ (E' ++ pl)) in bi_rnd0. rewrite recvs_app in bi_rnd0. apply NoDup_app_right in bi_rnd0. exact bi_rnd0.
      + change ((r :: E') ++ pl) with ([r] ++ (E' ++ pl)) in bi_rlt0. rewrite recvs_app in bi_rlt0. apply Forall_app in bi_rlt0. apply bi_rlt0.
      + intros p Hp. destruct (bi_prev0 p Hp) as ([<-|A] & B & C); [specialize (Hpv _ Hp); lia | auto].
      + change (r :: E') with ([r] ++ E') in bi_fnd0. rewrite fwds_app in bi_fnd0. apply NoDup_app_right in bi_fnd0. exact bi_fnd0.
    - intros Hret -> ->.
      assert (HxeN : xe = N) by (apply ret_is_N; assumption).
      assert (HdN : d = S N) by lia.
      assert (HE'nil : E' = []).
      { apply (f_equal (@length _)) in HE'. rewrite !map_length, seq_length in HE'. destruct E'; [reflexivity | cbn in HE'; lia]. }
      split; [exact HxeN|]. split; [exact HdN|].
      destruct (ret_slots app xe Hret) as [Hrs Hws].
      assert (Hcnt : forall f, f xe = [] -> forall s, cnt f (seq w (d - w)) s = cnt f (seq w (xe - w)) s).
      { intros f Hf s. replace (d - w)%nat with (S (xe - w)) by lia. rewrite seq_snoc, cnt_app. cbn [cnt].
        replace (w + (xe - w))%nat with xe by lia. rewrite Hf. unfold cnt1. cbn. lia. }
      constructor; unfold exec_head; rewrite ?Hret;
        cbn [x_ebus x_m x_crat x_trat x_fwd x_seq x_pcb x_chan x_next x_os bu_idle set_bu set_wbus m_pw m_pr m_regs m_mem m_l3 m_wbus];
        rewrite ?Hfl', ?HE'nil; cbn [List.app map recvs fwds flat_map length]; try assumption; try (constructor; fail).
      + lia.
      + split; [fold n; lia | lia].
      + intros; lia.
      + rewrite Nat.sub_diag. reflexivity.
      + intros s Hs. rewrite bi_pw0 by exact Hs. apply Hcnt. exact Hws.
      + intros s Hs. rewrite bi_pr0 by exact Hs. apply Hcnt. exact Hrs.
      + intros p [].
  Qed.

  (* ---------------------------------------------------------------- *)
  (* the loop over the execute units                                    *)

  (* what the execute units leave alone *)
  Record EuFrame3 (x x' : mx) : Prop := mkEF3 {
    e3_pend : x_pend x' = x_pend x; e3_prev : x_prev x' = x_prev x;
    e3_ebuf : bb_buf (x_ebus x') = bb_buf (x_ebus x); e3_eql : bb_ql (x_ebus x') = bb_ql (x_ebus x);
    e3_ebl : bb_bl (x_ebus x') = bb_bl (x_ebus x);
    e3_fu : m_fu (x_m x') = m_fu (x_m x); e3_l1i : m_l1i (x_m x') = m_l1i (x_m x);
    e3_dret : m_dret (x_m x') = m_dret (x_m x); e3_dpbr : m_dpbr (x_m x') = m_dpbr (x_m x);
    e3_cu : m_cu (x_m x') = m_cu (x_m x); e3_dbus : m_dbus (x_m x') = m_dbus (x_m x);
    e3_cbus : m_cbus (x_m x') = m_cbus (x_m x); e3_mebus : m_ebus (x_m x') = m_ebus (x_m x);
    e3_btb : b_btb (m_bu (x_m x')) = b_btb (m_bu (x_m x));
    e3_wq : bb_q (m_wbus (x_m x')) = bb_q (m_wbus (x_m x)); e3_wql : bb_ql (m_wbus (x_m x')) = bb_ql (m_wbus (x_m x));
    e3_wbl : bb_bl (m_wbus (x_m x')) = bb_bl (m_wbus (x_m x)) }.

  Lemma EuFrame3_refl x : EuFrame3 x x.
  Proof. constructor; reflexivity. Qed.
  Lemma EuFrame3_trans a b c : EuFrame3 a b -> EuFrame3 b c -> EuFrame3 a c.
  Proof. intros [] []. constructor; congruence. Qed.

  Lemma exec_head_frame x cy r k : EuFrame3 x (exec_head x cy r k).
  Proof. constructor; unfold exec_head, bu_idle, ebus_tl; destruct (is_ret (ik k)); reflexivity. Qed.

  Lemma exec_head_wbus x cy r k : m_wbus (x_m (exec_head x cy r k)) = if is_ret (ik k) then m_wbus (x_m x) else bb_add (m_wbus (x_m x)) (wbn k) cy.
  Proof. unfold exec_head, bu_idle. destruct (is_ret (ik k)); reflexivity. Qed.

  Lemma exec_head_q x cy r k : bb_q (x_ebus (exec_head x cy r k)) = tl (bb_q (x_ebus x)).
  Proof. reflexivity. Qed.

  Notation acc_of b := (mk_euo3 false 0 0 b None).

  Lemma eu_idle3 cy x e : g_co e = ENone -> g_seq e = 0 -> bb_q (x_ebus x) = [] ->
    eu_cycle3 labels ord cy x e = (false, Ok (x, e, yo_none)).
  Proof.
    intros Hco Hseq Hq. unfold eu_cycle3, eu_pre3. rewrite Hseq. change (0 =? 0) with true. cbv iota. rewrite Hco. unfold bb_get. rewrite Hq. reflexivity.
  Qed.

  Lemma eus_main_idle cy x b : forall eus, Forall EuIdle eus -> bb_q (x_ebus x) = [] ->
    exists eus', eus_main3 labels ord cy x eus (acc_of b) = (false, Ok (x, eus', acc_of b)) /\
                 Forall EuIdle eus' /\ length eus' = length eus.
  Proof.
    induction eus as [|e t IH]; intros He Hq.
    - exists []. cbn [eus_main3]. repeat split. constructor.
    - inversion He as [|? ? [Hco Hmem] He2]; subst. destruct (IH He2 Hq) as (t' & E & A1 & A2).
      cbn [eus_main3 y_seq]. rewrite (eu_idle3 cy x (mk_eu3 (g_co e) (g_memory e) (g_runner e) 0) Hco eq_refl Hq). cbn [yo_none y_err y_flush y_seq y_pc y_ret andb orb].
      rewrite orb_false_r. rewrite E. cbn [bind orb]. eexists. split; [reflexivity|].
      split; [constructor; [split; assumption | exact A1] | cbn [length]; lia].
  Qed.

  (* no ret in flight: min (units, queue length) heads are executed *)
  Lemma eus_main_plain cy dp d w pl pv b : forall eus x xe lq,
    Forall EuIdle eus -> BI dp d xe w pl pv x -> (d <= N)%nat -> length (bb_q (x_ebus x)) = lq -> (xe + lq <= dp)%nat ->
    BusOK cy (m_wbus (x_m x)) -> blen (m_wbus (x_m x)) + Z.of_nat (Nat.min (length eus) lq) <= 2 ->
    exists x' eus',
      eus_main3 labels ord cy x eus (acc_of b) = (false, Ok (x', eus', acc_of b)) /\
      Forall EuIdle eus' /\ length eus' = length eus /\ BI dp d (xe + Nat.min (length eus) lq) w pl pv x' /\ EuFrame3 x x' /\
      bb_q (x_ebus x') = skipn (Nat.min (length eus) lq) (bb_q (x_ebus x)) /\
      BusOK cy (m_wbus (x_m x')) /\
      bb_buf (m_wbus (x_m x')) = bb_buf (m_wbus (x_m x)) ++ map (fun k => (cy + 1, wbn k)) (seq xe (Nat.min (length eus) lq)).
  Proof.
    induction eus as [|e t IH]; intros x xe lq He HB HdN Hlq Hdp HW Hcap.
    - exists x, []. cbn [eus_main3 length Nat.min seq map skipn]. rewrite Nat.add_0_r, app_nil_r.
      split; [reflexivity|]. split; [constructor|]. split; [reflexivity|]. split; [exact HB|]. split; [apply EuFrame3_refl|]. auto.
    - inversion He as [|? ? He1 He2]; subst.
      destruct (bb_q (x_ebus x)) as [|r q'] eqn:Eq.
      + cbn [length]. rewrite Nat.min_0_r. cbn [seq map skipn]. rewrite Nat.add_0_r, app_nil_r.
        destruct (eus_main_idle cy x b (e :: t) He Eq) as (eus' & E & A1 & A2).
        exists x, eus'. split; [exact E|]. split; [exact A1|]. split; [exact A2|]. split; [exact HB|]. split; [apply EuFrame3_refl|]. auto.
      + cbn [length] in Hdp, Hcap |- *. cbn [Nat.min] in Hcap |- *.
        assert (Hfl : flat (x_ebus x) = r :: (q' ++ map snd (bb_buf (x_ebus x)))) by (unfold flat; rewrite Eq; reflexivity).
        destruct (head_entry app labels regs0 mem0 ord Hlen0 Hsem _ _ _ _ _ _ _ _ _ HB Hfl) as (Hqr & Hkq & Hxd).
        assert (Hnr : is_ret (ik xe) = false).
        { destruct (is_ret (ik xe)) eqn:Er; [|reflexivity]. exfalso.
          assert (xe = N) by (apply ret_is_N; [exact (bi_xeN _ _ _ _ _ _ _ _ _ _ _ HB) | fold n; pose proof (bi_dn _ _ _ _ _ _ _ _ _ _ _ HB); lia | exact Er]). lia. }
        assert (Hadd : bb_canadd (m_wbus (x_m x)) = true) by (apply canadd_lt3; [apply (bus_bl _ _ HW) | lia]).
        assert (Hpvk : forall p, In p pv -> (xe < kq p)%nat).
        { intros p Hp. destruct (bi_prev _ _ _ _ _ _ _ _ _ _ _ HB p Hp) as (_ & _ & C). lia. }
        destruct (BI_exec_head cy dp d xe w pl pv x r q' HB Eq Hpvk) as [HB1 _]. specialize (HB1 Hnr).
        destruct He1 as [Hco Hmem].
        cbn [eus_main3 y_seq].
        rewrite (eu_head_eq cy dp d xe w pl pv x (mk_eu3 (g_co e) (g_memory e) (g_runner e) 0) r q' HB Eq (conj Hco Hmem) eq_refl Hadd).
        unfold out_of. rewrite Hnr. cbn [yo_none y_err y_flush y_seq y_pc y_ret andb orb]. rewrite orb_false_r.
        set (x1 := exec_head x cy r xe) in *.
        assert (HW1 : BusOK cy (m_wbus (x_m x1))) by (unfold x1; rewrite exec_head_wbus, Hnr; apply add_ok; exact HW).
        assert (Hb1 : bb_buf (m_wbus (x_m x1)) = bb_buf (m_wbus (x_m x)) ++ [(cy + 1, wbn xe)]) by (unfold x1; rewrite exec_head_wbus, Hnr; reflexivity).
        assert (Hq1 : bb_q (x_ebus x1) = q') by (unfold x1; rewrite exec_head_q, Eq; reflexivity).
        destruct (IH x1 (S xe) (length q') He2 HB1 HdN ltac:(rewrite Hq1; reflexivity) ltac:(lia) HW1
                    ltac:(unfold blen in *; rewrite Hb1, zlen_app, zlen_cons, zlen_nil; lia))
          as (x' & t' & E & A1 & A2 & A3 & A4 & A5 & A6 & A7).
        rewrite E. cbn [bind orb]. exists x', (mk_eu3 ENone [] (Some (recvd r)) 0 :: t').
        split; [reflexivity|]. split; [constructor; [split; reflexivity | exact A1]|]. split; [cbn [length]; lia|].
        split; [replace (xe + S (Nat.min (length t) (length q')))%nat with (S xe + Nat.min (length t) (length q'))%nat by lia; exact A3|].
        split; [eapply EuFrame3_trans; [apply exec_head_frame | exact A4]|].
        split; [rewrite A5, Hq1; reflexivity|]. split; [exact A6|].
        rewrite A7, Hb1. cbn [seq map]. rewrite <- app_assoc. reflexivity.
  Qed.

  (* the ret at the head of the execute bus: the first unit executes it, nothing else is in flight behind it *)
  Lemma eus_main_ret cy dp d w pv x r eus :
    eus <> [] -> Forall EuIdle eus -> BI dp d N w [] pv x -> bb_q (x_ebus x) = [r] -> is_ret (ik N) = true ->
    bb_canadd (m_wbus (x_m x)) = true ->
    exists x' eus',
      eus_main3 labels ord cy x eus (acc_of false) = (false, Ok (x', eus', acc_of true)) /\
      Forall EuIdle eus' /\ length eus' = length eus /\ d = S N /\ BI dp N N w [] [] x' /\ EuFrame3 x x' /\
      bb_q (x_ebus x') = [] /\ m_wbus (x_m x') = m_wbus (x_m x).
  Proof.
    intros Hne He HB Hq Hret Hadd. destruct eus as [|e t]; [contradiction|]. inversion He as [|? ? [Hco Hmem] He2]; subst.
    pose proof (BI_noprev _ _ _ _ _ _ _ _ _ _ _ HB) as HB0.
    destruct (BI_exec_head cy dp d N w [] [] x r [] HB0 Hq ltac:(intros p [])) as [_ HB1].
    destruct (HB1 Hret eq_refl eq_refl) as (_ & HdN & HB2).
    cbn [eus_main3 y_seq].
    rewrite (eu_head_eq cy dp d N w [] pv x (mk_eu3 (g_co e) (g_memory e) (g_runner e) 0) r [] HB Hq (conj Hco Hmem) eq_refl Hadd).
    unfold out_of. rewrite Hret. cbn [y_err y_flush y_seq y_pc y_ret andb orb].
    set (x1 := exec_head x cy r N) in *.
    assert (Hq1 : bb_q (x_ebus x1) = []) by (unfold x1; rewrite exec_head_q, Hq; reflexivity).
    destruct (eus_main_idle cy x1 true t He2 Hq1) as (t' & E & A1 & A2).
    rewrite E. cbn [bind orb]. exists x1, (mk_eu3 ENone [] (Some (recvd r)) 0 :: t').
    split; [reflexivity|]. split; [constructor; [split; reflexivity | exact A1]|]. split; [cbn [length]; lia|].
    split; [exact HdN|]. split; [exact HB2|]. split; [apply exec_head_frame|]. split; [exact Hq1|].
    unfold x1. rewrite exec_head_wbus, Hret. reflexivity.
  Qed.

  (* the drain loop after ret: idle units are skipped *)
  Lemma eus_drain_idle cy x : forall eus, Forall EuIdle eus -> eus_drain3 labels ord cy x eus = (false, Ok (x, eus, None)).
  Proof.
    induction 1 as [|e t [Hco _] _ IH]; [reflexivity|]. cbn [eus_drain3]. unfold eu_empty3. rewrite Hco, IH. reflexivity.
  Qed.

  Lemma eus_empty3 eus : Forall EuIdle eus -> forallb eu_empty3 eus = true.
  Proof. intros H. apply forallb_forall. intros e Hin. rewrite Forall_forall in H. destruct (H e Hin) as [Hc _]. unfold eu_empty3. rewrite Hc. reflexivity. Qed.

  (* ---------------------------------------------------------------- *)
  (* the write units                                                    *)

  Record WuFrame3 (x x' : mx) : Prop := mkWF3 {
    w3_ebus : x_ebus x' = x_ebus x; w3_pend : x_pend x' = x_pend x; w3_prev : x_prev x' = x_prev x;
    w3_fu : m_fu (x_m x') = m_fu (x_m x); w3_l1i : m_l1i (x_m x') = m_l1i (x_m x);
    w3_dret : m_dret (x_m x') = m_dret (x_m x); w3_dpbr : m_dpbr (x_m x') = m_dpbr (x_m x);
    w3_cu : m_cu (x_m x') = m_cu (x_m x); w3_bu : m_bu (x_m x') = m_bu (x_m x); w3_dbus : m_dbus (x_m x') = m_dbus (x_m x);
    w3_cbus : m_cbus (x_m x') = m_cbus (x_m x); w3_mebus : m_ebus (x_m x') = m_ebus (x_m x);
    w3_wbuf : bb_buf (m_wbus (x_m x')) = bb_buf (m_wbus (x_m x));
    w3_wql : bb_ql (m_wbus (x_m x')) = bb_ql (m_wbus (x_m x)); w3_wbl : bb_bl (m_wbus (x_m x')) = bb_bl (m_wbus (x_m x)) }.

  Lemma WuFrame3_refl x : WuFrame3 x x.
  Proof. constructor; reflexivity. Qed.
  Lemma WuFrame3_trans a b c : WuFrame3 a b -> WuFrame3 b c -> WuFrame3 a c.
  Proof. intros [] []. constructor; congruence. Qed.

  Lemma wu_frame3 x wu before x' wu' : u_co wu = WNone -> wu_cycle3 x wu before = Ok (x', wu') -> WuFrame3 x x'.
  Proof.
    intros Hco. unfold wu_cycle3. rewrite Hco. unfold bb_get.
    destruct (bb_q (m_wbus (x_m x))) as [|c q'].
    - intros H. injection H as <- <-. constructor; reflexivity.
    - destruct (negb (before =? -1) && (before <? w_seq c)); [intros H; injection H as <- <-; constructor; reflexivity|].
      destruct (RegisterChange (w_exe c)); [intros H; injection H as <- <-; constructor; reflexivity|].
      destruct (MemoryChange (w_exe c)); intros H; injection H as <- <-; constructor; reflexivity.
  Qed.

  Lemma wu_idle3 x wu before : u_co wu = WNone -> bb_q (m_wbus (x_m x)) = [] -> wu_cycle3 x wu before = Ok (x, wu).
  Proof.
    intros Hco Hq. unfold wu_cycle3. rewrite Hco. unfold bb_get. rewrite Hq.
    rewrite set_wbus_same, set_m_same. reflexivity.
  Qed.

  Lemma wus_ok3 dp d xe pl pv : forall wus x w, Forall (fun u => u_co u = WNone) wus -> BI dp d xe w pl pv x ->
    exists x', wus_cycle3 x wus (-1) = Ok (x', wus) /\
      BI dp d xe (w + Nat.min (length wus) (length (bb_q (m_wbus (x_m x))))) pl pv x' /\ WuFrame3 x x' /\
      bb_q (m_wbus (x_m x')) = skipn (length wus) (bb_q (m_wbus (x_m x))).
  Proof.
    induction wus as [|u t IH]; intros x w Hw HB.
    - exists x. cbn [wus_cycle3 length Nat.min skipn]. rewrite Nat.add_0_r. split; [reflexivity|]. split; [exact HB|]. split; [apply WuFrame3_refl | reflexivity].
    - inversion Hw as [|? ? Hu Ht]; subst. cbn [wus_cycle3].
      destruct (bb_q (m_wbus (x_m x))) as [|c q'] eqn:Eq.
      + rewrite (wu_idle3 x u (-1) Hu Eq). cbn [bind fst snd].
        destruct (IH x w Ht HB) as (x' & E & A1 & A2 & A3). rewrite E. cbn [bind fst snd]. exists x'.
        rewrite Eq in *. cbn [length] in *. rewrite Nat.min_0_r in *. split; [reflexivity|]. split; [exact A1|]. split; [exact A2|].
        rewrite A3. destruct (length t); reflexivity.
      + destruct (wu_take_ok app labels regs0 mem0 ord Hstr Hreg Hlen0 Hsem dp d xe w pl pv x u c q' HB Hu Eq)
          as (x1 & E1 & B1 & B2 & B3 & B4 & B5 & B6).
        rewrite E1. cbn [bind fst snd]. pose proof (wu_frame3 x u (-1) x1 u Hu E1) as F1.
        destruct (IH x1 (S w) Ht B1) as (x' & E & A1 & A2 & A3). rewrite E. cbn [bind fst snd]. exists x'.
        split; [reflexivity|]. rewrite B5 in A1, A3. cbn [length Nat.min skipn].
        split; [replace (w + S (Nat.min (length t) (length q')))%nat with (S w + Nat.min (length t) (length q'))%nat by lia; exact A1|].
        split; [eapply WuFrame3_trans; eassumption | exact A3].
  Qed.

  Lemma wus_empty3 wus : Forall (fun u => u_co u = WNone) wus -> forallb wu_empty wus = true.
  Proof. intros Hw. apply forallb_forall. intros u Hin. rewrite Forall_forall in Hw. unfold wu_empty. rewrite (Hw u Hin). reflexivity. Qed.
End Exec.
