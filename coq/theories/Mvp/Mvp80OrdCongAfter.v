(* Soundness of the ghost flag of the model of MVP-8.0: the congruence of Mvp80OrdCong.v for the part of a tick after
   the snoops (after_snoops8 of Mvp80OrdProofs.v) and for the write-unit loop inside the flush loop. *)
From Coq Require Import ZArith List Bool Lia.
From Maj Require Import Base.Outcome Base.GoInt Base.GoTypes Isa.Spec Isa.Seq.
From Maj Require Import Gen.Latency Gen.RiscTables Gen.Opcodes Comp.Cache Comp.Rat Mvp.Mvp12 Mvp.Mvp3 Mvp.Mvp5 Mvp.Mvp60 Mvp.Mvp63 Mvp.Mvp80.
From Maj Require Import Mvp.Mvp60Proofs Mvp.Mvp63Proofs Mvp.Mvp80Proofs Mvp.Mvp80OrdProofs Mvp.Mvp80OrdSnoop Mvp.Mvp80OrdCong.
Import ListNotations.
Open Scope Z_scope.

Theorem after_snoops8_equiv : forall labels ord s1 s2 y1 y2, st_equiv s1 s2 -> my_equiv y1 y2 ->
  res_equiv (after_snoops8 labels ord s1 y1) (after_snoops8 labels ord s2 y2).
Proof.
  intros labels ord s1 s2 y1 y2 Hs Hy.
  destruct s1 as [ya eus1 wus1 cyc1 md1], s2 as [yb eus2 wus2 cyc2 md2]. unfold st_equiv in Hs.
  cbn [v_y v_eus v_wus v_cycle v_mode] in Hs. destruct Hs as (Hyab & He & Hw & Hc & Hmd). subst.
  my_destruct ya yb Hyab. my_destruct y1 y2 Hy.
  unfold after_snoops8. st_cbn. destruct md2; rcong.
Qed.

Print Assumptions after_snoops8_equiv.
