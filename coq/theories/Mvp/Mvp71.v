(* H: faithful cycle-level model of proc/mvp7-1 = MVP-7.0 (Mvp70.v) with the control unit steering memory
   instructions to the core that already holds their cache line.  Everything is shared with Mvp70.v (its functions
   take the record hooks7 of the places where the two variants differ); this file holds the MVP-7.1 side of them:

   eu.go   Runner.MemoryRead / Runner.Run get u.runner.SequenceID instead of 0: registerRead then ignores the
           slots of transactionRAT written by younger instructions (RAT.Find)              -> reg_read_tag, rr71
           executeUnit.start takes from the execute bus the first runner that is assigned to
           no unit or to this unit (inBus.Pick)                                            -> take71
           isPendingMessages (Pre hook: panic; cpu.go flush loop: the unit is cycled)      -> pending71
   cc.go   coSnoop sets msi.staleState when it schedules an eviction                       -> set_stale
   msi.go  staleState, copyState                                                           -> i_stale, w_copy
   cu.go   cycle: when msi.staleState, the copy of msi.states is refreshed and the cycle is
           over (BEFORE the deferred function is installed: pushedRunnersInPreviousCycle
           keeps the runners of the cycle before)                                          -> front71
           pushRunner: runner.ExecutionUnitID = getExecutionUnitIDPreference(runner)       -> pref71, add_prefs71
   wu.go, cpu.go (besides the flush-loop condition): no difference in behaviour.

   ExecutionUnitID.  The field is written once, in pushRunner, just before the runner goes on the execute bus,
   and read by the execute units.  The model keeps it beside the runner: w_pref maps the identity the runner got
   in push_runner3 (q_id) to the preferred unit.  cu_cycle3 of Mvp63.v is reused unchanged; the preferences of the
   runners it pushed (they are exactly x_prev afterwards = pushedRunnersInCurrentCycle) are computed right after it.
   This is the value pushRunner computes because getExecutionUnitIDPreference depends only on things the control
   unit does not change during its cycle: msiStatesCopy, the register alias tables, the instruction's forward field
   (MemoryRead / MemoryWrite -> registerRead), and executionUnitIDCache, into which nothing is ever Put: Find
   returns (0, false) and the preference is readers[0].
   getLineReaders / getLineWriter iterate msiStatesCopy through ds.StableMapIteration, i.e. sorted by (id, address):
   the first reader / writer is the one with the smallest core id - no dependence on Go's map order.

   No proofs in this file. *)
From Coq Require Import ZArith List Bool Lia.
From Maj Require Import Base.Outcome Base.GoInt Base.GoTypes Isa.Spec Isa.Seq.
From Maj Require Import Gen.Latency Gen.RiscTables Gen.Opcodes Comp.Cache Comp.Rat Mvp.Mvp12 Mvp.Mvp3 Mvp.Mvp5 Mvp.Mvp60 Mvp.Mvp63 Mvp.Mvp70.
Import ListNotations.
Open Scope Z_scope.

(* registerRead(ctx, forward, reg, sequenceID) with ctx.rat = true *)
Definition reg_read_tag (fw : Z * Z) (crat : @rat Z) (trat : @rat (Z * Z)) (sequenceID : Z) (reg : Z) : Z :=
  if reg =? fst fw then snd fw
  else
    let t := if sequenceID =? 0 then rat_read tu0 trat reg
             else rat_find tu0 trat reg (fun u => fst u <=? sequenceID) in
    match t with
    | Some v => snd v
    | None => match rat_read 0 crat reg with Some v => v | None => 0 end
    end.

(* the register reader an instruction at pc runs with when it is given sequenceID *)
Definition rr71 (x : mx) (pc sequenceID : Z) : (Z -> Z) * Z :=
  (reg_read_tag (nth (fwd_idx pc) (x_fwd x) (0, 0)) (x_crat x) (x_trat x) sequenceID, sequenceID).

(* pc.ExecutionUnitID of a runner on the execute bus *)
Definition pref_of (w : w7) (r : runner3) : option Z := aget (q_id r) (w_pref w).

(* u.inBus.Pick(func(pc) bool { v, exists := pc.ExecutionUnitID.Get(); if !exists { return true }; return v == u.id }):
   the first element of the queue that satisfies the predicate is removed *)
Fixpoint pick71 (w : w7) (id : Z) (q : list runner3) : list runner3 * option runner3 :=
  match q with
  | [] => ([], None)
  | r :: t =>
      if match pref_of w r with None => true | Some v => v =? id end then (t, Some r)
      else let '(t', got) := pick71 w id t in (r :: t', got)
  end.

Definition take71 (id : Z) (w : w7) : w7 * option runner3 :=
  let b := x_ebus (w_x w) in
  let '(q', got) := pick71 w id (bb_q b) in
  match got with
  | None => (w, None)
  | Some r => (set_wx w (set_ebus3 (w_x w) (mk_bb (bb_buf b) q' (bb_ql b) (bb_bl b))), Some r)
  end.

(* isPendingMessages(): u.inBus.Exists(func(pc) bool { return pc.SequenceID <= u.sequenceID }) *)
Definition pending71 (w : w7) (sequenceID : Z) : bool :=
  existsb (fun r => q_seq r <=? sequenceID) (bb_q (x_ebus (w_x w))).

(* getLineReaders(addr)[0] / getLineWriter(addr): smallest core id whose copied state of the line qualifies *)
Definition min_id (l : list Z) : option Z :=
  match l with
  | [] => None
  | a :: t => Some (fold_left Z.min t a)
  end.
Definition line_readers71 (copy : list (Z * Z * Z)) (a : Z) : list Z :=
  map (fun e => fst (fst e)) (filter (fun e => (snd (fst e) =? a) && ((snd e =? stShared) || (snd e =? stModified))) copy).
Definition line_writers71 (copy : list (Z * Z * Z)) (a : Z) : list Z :=
  map (fun e => fst (fst e)) (filter (fun e => (snd (fst e) =? a) && (snd e =? stModified)) copy).

(* getExecutionUnitIDPreference(runner); getAlignedMemoryAddress of an empty slice panics *)
Definition pref71 (w : w7) (r : runner3) : outcome (option Z) :=
  let ty := instr_InstructionType (q_instr r) in
  let '(rr, sid) := rr71 (w_x w) (q_pc r) (q_seq r) in
  if InstructionType_IsMemoryRead ty then
    a <- aligned7 (instr_MemoryRead (q_instr r) rr sid) ;;
    Ok (min_id (line_readers71 (w_copy w) a))
  else if InstructionType_IsMemoryWrite ty then
    a <- aligned7 (instr_MemoryWrite (q_instr r) rr sid) ;;
    Ok (min_id (line_writers71 (w_copy w) a))
  else Ok None.

(* the ExecutionUnitID of the runners pushed in this cycle *)
Fixpoint add_prefs71 (w : w7) (rs : list runner3) : outcome w7 :=
  match rs with
  | [] => Ok w
  | r :: t =>
      p <- pref71 w r ;;
      match p with
      | None => add_prefs71 w t
      | Some v => add_prefs71 (mk_w7 (w_x w) (w_i w) (w_copy w) (aset (q_id r) v (w_pref w))) t
      end
  end.

(* the first half of an iteration of the main loop (front3 of Mvp63.v with the control unit of mvp7-1) *)
Definition front71 (app : list instr) (ord : Z -> Z -> list Z -> list Z) (cycle : Z) (w : w7) : outcome w7 :=
  let x := w_x w in
  let m := x_m x in
  let m := set_wbus (set_cbus (set_dbus m (bb_connect (m_dbus m) cycle)) (bb_connect (m_cbus m) cycle))
                    (bb_connect (m_wbus m) cycle) in
  let x := set_ebus3 (set_m x m) (bb_connect (x_ebus x) cycle) in
  r <- fu_cycle6 app cycle (m_fu m) (m_l1i m) (m_dbus m) ;;
  let '(fu1, l1i1, dbus1) := r in
  x <- du_cycle3 app cycle (set_m x (set_dbus (set_l1i (set_fu m fu1) l1i1) dbus1)) ;;
  if i_stale (w_i w) then
    (* u.msiStatesCopy = u.msi.copyState(); u.msi.staleState = false; return *)
    Ok (mk_w7 x (set_stale (w_i w) false) (i_states (w_i w)) (w_pref w))
  else
    let x' := cu_cycle3 ord cycle x in
    add_prefs71 (set_wx w x') (x_prev x').

Definition hooks71 : hooks7 := mk_hooks7 rr71 take71 pending71 (fun i => set_stale i true) front71.

(* NewCPU + Run(app); second component = ghost flag *)
Definition mvp71_run_os (par : nat) (ord : Z -> Z -> list Z -> list Z) (fuel : nat) (app : list instr)
           (labels : Z -> option Z) (st : arch) : mres * bool :=
  match init7 par ord app st with
  | Ok s => match run7_st hooks71 fuel app labels ord s with
            | inl r => r
            | inr s' => (MOutOfFuel, v_os (v_w s'))
            end
  | _ => (MPanic, false)
  end.

Definition mvp71_run (par : nat) (ord : Z -> Z -> list Z -> list Z) (fuel : nat) (app : list instr)
           (labels : Z -> option Z) (st : arch) : mres :=
  fst (mvp71_run_os par ord fuel app labels st).

(* as mvp70_run_snap *)
Definition mvp71_run_snap (par : nat) (ord : Z -> Z -> list Z -> list Z) (fuel : nat) (app : list instr)
           (labels : Z -> option Z) (st : arch) : (mres * bool) + (Z * arch * list Z * list Z * bool * list Z) :=
  match init7 par ord app st with
  | Ok s =>
      match run7_st hooks71 fuel app labels ord s with
      | inl r => inl r
      | inr s' =>
          let x := w_x (v_w s') in
          inr (v_cycle s', mk_arch (m_regs (x_m x)) (m_mem (x_m x)), m_pw (x_m x), m_pr (x_m x), x_os x,
               map (fun k => reg_read3 (0, 0) (x_crat x) (x_trat x) (Z.of_nat k)) (seq 0 32))
      end
  | _ => inl (MPanic, false)
  end.
