(* Invariant of the MVP-5 skeleton with store misses (Mvp5sSkel.v): preservation and
   progress.  The front-end part is FM5 (Mvp5mFront.v) of a projection of the skeleton,
   the write side is WInv (Mvp4sFront.v). *)
From Coq Require Import ZArith List Bool Lia.
From Maj Require Import Base.Outcome Base.GoInt Base.GoTypes Isa.Spec Isa.Embed Isa.Seq Isa.Refine.
From Maj Require Import Gen.Latency Gen.RiscTables Gen.Opcodes Comp.Cache Comp.CacheSpec Comp.MapFacts Comp.CacheProofs.
From Maj Require Import Mvp.Mvp12 Mvp.Mvp12Proofs Mvp.Mvp3 Mvp.Mvp3Proofs Mvp.Mvp4 Mvp.Mvp5
     Mvp.Mvp4Skel Mvp.Mvp4Inv Mvp.Mvp4Units Mvp.Mvp4Front Mvp.Mvp4mSkel Mvp.Mvp4mInv Mvp.Mvp4mFront
     Mvp.Mvp5Skel Mvp.Mvp5Inv Mvp.Mvp5Front Mvp.Mvp5mSkel Mvp.Mvp5mFront Mvp.Mvp4sSkel Mvp.Mvp4sFront Mvp.Mvp5sSkel.
Import ListNotations.
Open Scope Z_scope.

(* projections to the skeleton in which every store hits (Mvp5mSkel.v) *)
Definition pz (a : sks5) : skm5 :=
  mk_skm5 (y_fu a) (y_du a) (y_l1i a) (y_dbus a) (y_ebus a) (y_eu a) zero_pw None (y_dt a) (y_btb a).
Definition pw5 (a : sks5) : skm5 :=
  mk_skm5 (y_fu a) (y_du a) (y_l1i a) (y_dbus a) (y_ebus a) (y_eu a) (y_pw a) (option_map wi_wr (y_wc a)) (y_dt a) (y_btb a).

Record FS5 (app : list instr) (hev : event) (a : sks5) : Prop := mkFS5 {
  z_fm : FM5 app hev (pz a);
  z_pr : eu_pending_read (y_eu a) = true -> y_wp a = None;
  z_I2 : eu_pending_read (y_eu a) = true -> eu_memory (y_eu a) = None ->
         forall x, y_wc a = Some x -> same_line_as (wi_sa x) (ev_la hev) = false;
  z_w : WInv (y_pw a) (y_wp a) (y_wc a) (y_wu a) (y_l1 a) (y_l2 a) }.

Definition ns_inv5 (a : sks5) (path : list event) : Prop :=
  match path with
  | [] => True
  | hev :: rest =>
      (y_l2 a && same_line_as (y_l1 a) (ev_la hev)) = false /\
      ns_tail (dtal (y_eu a) (y_dt a) (ev_la hev)) (y_l1 a) (y_l2 a) hev rest = true
  end.

Lemma ns_inv5_intro a hev rest :
  eu_pending_read (y_eu a) = false ->
  no_stale (y_dt a) (y_l1 a) (y_l2 a) (hev :: rest) = true -> ns_inv5 a (hev :: rest).
Proof.
  intros Hp H. rewrite no_stale_cons in H. apply andb_prop in H as [H1 H2]. apply negb_true_iff in H1.
  cbn [ns_inv5]. unfold dtal. rewrite Hp. auto.
Qed.

Lemma issue_s_spec full e ebus pw dt la e1 ebus2 dt1 act :
  sks_eu full e ebus pw dt la = (e1, ebus2, dt1, act) ->
  match issue_s full e ebus with
  | Some x => act = AExec (fst x) (snd x) \/ (act = ANone /\ q_eu e1 = [x])
  | None => True
  end.
Proof.
  unfold sks_eu, issue_s. destruct (full && negb (eu_pending_read e)); [intros _; exact I | apply issue_m_spec].
Qed.

Lemma issue_s_in full e ebus x : issue_s full e ebus = Some x -> In x (q_eu e ++ olist (sb_current ebus)).
Proof. unfold issue_s. destruct (full && negb (eu_pending_read e)); [discriminate | apply issue_m_in]. Qed.

Lemma sks5_next_spec a fu du l1i1 dbus2 ebus2 e1 add dt1 btb :
  WInv (y_pw a) (y_wp a) (y_wc a) (y_wu a) (y_l1 a) (y_l2 a) ->
  (forall wr sa, add = Some (wr, sa) -> y_wp a = None /\ (length wr <= 1)%nat /\ (sa <> [] -> wr = [])) ->
  let a2 := sks5_next a fu du l1i1 dbus2 ebus2 e1 add dt1 btb in
  pz a2 = mk_skm5 fu du l1i1 dbus2 ebus2 e1 zero_pw None dt1 btb /\ y_eu a2 = e1 /\ y_dt a2 = dt1 /\
  WInv (y_pw a2) (y_wp a2) (y_wc a2) (y_wu a2) (y_l1 a2) (y_l2 a2) /\
  y_l1 a2 = (match add with None => y_l1 a | Some (_, sa) => sa end) /\
  y_l2 a2 = (match add with None => y_l2 a | Some _ => nnil (y_l1 a) end) /\
  (add = None -> y_wp a = None -> y_wp a2 = None /\
     (wu_pending (y_wu a) = false -> y_wc a2 = None) /\ (wu_pending (y_wu a) = true -> y_wc a2 = y_wc a)).
Proof.
  intros HW Hadd. unfold sks5_next. destruct add as [[wr sa]|].
  - destruct (Hadd wr sa eq_refl) as (Hwp & Hl & Hs). rewrite Hwp in HW.
    pose proof (winv_add _ _ _ _ _ wr sa HW Hl Hs) as HW1.
    destruct (sks_wu (pw_add (y_pw a) wr) (y_wu a) (Some (wr, sa, nnil (y_l1 a))) (y_wc a)) as [[[pw2 w2] wp2] wc2] eqn:Ew.
    destruct (winv_wu _ _ _ _ _ _ _ _ _ _ HW1 Ew) as (HW2 & _ & _).
    unfold pz. cbn [y_fu y_du y_l1i y_dbus y_ebus y_eu y_dt y_btb y_pw y_wp y_wc y_wu y_l1 y_l2].
    do 3 (split; [reflexivity|]). split; [exact HW2|]. split; [reflexivity|]. split; [reflexivity|]. discriminate.
  - destruct (sks_wu (y_pw a) (y_wu a) (y_wp a) (y_wc a)) as [[[pw2 w2] wp2] wc2] eqn:Ew.
    destruct (winv_wu _ _ _ _ _ _ _ _ _ _ HW Ew) as (HW2 & Hp & Hi).
    unfold pz. cbn [y_fu y_du y_l1i y_dbus y_ebus y_eu y_dt y_btb y_pw y_wp y_wc y_wu y_l1 y_l2].
    do 3 (split; [reflexivity|]). split; [exact HW2|]. split; [reflexivity|]. split; [reflexivity|].
    intros _ Hwp. split; [|split].
    + destruct (wu_pending (y_wu a)); [destruct (Hp eq_refl) as [-> _]; assumption | apply (Hi eq_refl)].
    + intros Hw. destruct (Hi Hw) as [_ ->]. assumption.
    + intros Hw. apply (Hp Hw).
Qed.

Lemma sks5_pre_none app a hev rest fu1 l1i1 dbus1 du1 dbus2 ebus1 e1 ebus2 dt1 :
  fu5_cycle app (y_fu a) (y_l1i a) (y_dbus a) = Ok (fu1, l1i1, dbus1) ->
  du5_cycle app (y_du a) dbus1 (y_ebus a) = Ok (du1, dbus2, ebus1) ->
  sks_eu (is_full (y_wp a)) (y_eu a) ebus1 (y_pw a) (y_dt a) (ev_la hev) = (e1, ebus2, dt1, ANone) ->
  sks5_pre app a (hev :: rest) =
    YStep (sks5_next a (sk5_assert fu1 (y_btb a) (issue_s (is_full (y_wp a)) (y_eu a) ebus1)) du1 l1i1 dbus2 ebus2 e1 None dt1 (y_btb a))
          (hev :: rest) 1.
Proof. intros Ef Ed Ee. unfold sks5_pre. rewrite Ef, Ed. cbn [hla]. rewrite Ee. reflexivity. Qed.

Lemma sks5_pre_exec_eq app a hev rest fu1 l1i1 dbus1 du1 dbus2 ebus1 e1 ebus2 dt1 i pc :
  fu5_cycle app (y_fu a) (y_l1i a) (y_dbus a) = Ok (fu1, l1i1, dbus1) ->
  du5_cycle app (y_du a) dbus1 (y_ebus a) = Ok (du1, dbus2, ebus1) ->
  sks_eu (is_full (y_wp a)) (y_eu a) ebus1 (y_pw a) (y_dt a) (ev_la hev) = (e1, ebus2, dt1, AExec i pc) ->
  sks5_pre app a (hev :: rest) =
    sks5_exec a (sk5_assert fu1 (y_btb a) (issue_s (is_full (y_wp a)) (y_eu a) ebus1)) du1 l1i1 dbus2 ebus2 e1 dt1 i pc (hev :: rest).
Proof. intros Ef Ed Ee. unfold sks5_pre. rewrite Ef, Ed. cbn [hla]. rewrite Ee. reflexivity. Qed.

Section FrontS5.
  Variable app : list instr.
  Hypothesis Happ : wf_app app.

  Lemma fm5z_build hev fu du l1i dbus ebus e dt btb :
    0 <= ev_pc hev < 2147483644 ->
    mid_ok app (ev_pc hev) (q_eu e ++ q_sb ebus) du (dclean fu dbus) (to4 fu) ->
    (f5_processing fu = true -> 1 <= f5_remaining fu <= MemoryAccess) ->
    eu_ok e -> IInv l1i -> btb_ok btb ->
    (eu_pending_read e = true -> ev_la hev <> [] /\ (eu_memory e = None -> eu_addrs e = ev_la hev)) ->
    zlen dt <= 16 ->
    FM5 app hev (mk_skm5 fu du l1i dbus ebus e zero_pw None dt btb).
  Proof.
    intros Hh Hmid Hfu Hok HI Hbtb Hmiss Hdt.
    constructor; cbn [rview n_fu n_du n_l1i n_dbus n_ebus n_eu n_pw n_wb n_dt n_btb]; auto.
    apply F5_build; auto; try discriminate. apply eu_ok_run. exact Hok.
  Qed.

  Lemma fronts_flow5 hev a fu1 l1i1 dbus1 du1 dbus2 ebus1 e1 ebus2 dt1 act :
    FS5 app hev a ->
    fu5_cycle app (y_fu a) (y_l1i a) (y_dbus a) = Ok (fu1, l1i1, dbus1) ->
    du5_cycle app (y_du a) dbus1 (y_ebus a) = Ok (du1, dbus2, ebus1) ->
    sks_eu (is_full (y_wp a)) (y_eu a) ebus1 (y_pw a) (y_dt a) (ev_la hev) = (e1, ebus2, dt1, act) ->
    let fuA := sk5_assert fu1 (y_btb a) (issue_s (is_full (y_wp a)) (y_eu a) ebus1) in
    IInv l1i1 /\ (f5_processing fuA = true -> 1 <= f5_remaining fuA <= MemoryAccess) /\
    act <> AStuck /\
    mid_ok app (ev_pc hev) (act_q act ++ q_eu e1 ++ q_sb ebus2) du1 (dclean fuA dbus2) (to4 fuA) /\
    eu_ok e1 /\
    (eu_pending_read e1 = true -> ev_la hev <> [] /\ (eu_memory e1 = None -> eu_addrs e1 = ev_la hev)) /\
    (match act with
     | AExec _ _ => eu_processing e1 = false /\ eu_pending_read e1 = false /\ dt1 = dtal (y_eu a) (y_dt a) (ev_la hev)
     | ANone => dtal e1 dt1 (ev_la hev) = dtal (y_eu a) (y_dt a) (ev_la hev)
     | AStuck => True
     end) /\
    (y_du a = false -> fuA = fu1 /\ f5_clean fu1 = false) /\
    sb_current ebus1 = sb_current (y_ebus a) /\
    (is_full (y_wp a) = true -> eu_pending_read (y_eu a) = false -> eu_pending_read e1 = false /\ act = ANone) /\
    (eu_pending_read (y_eu a) = true -> act = ANone -> eu_memory e1 = eu_memory (y_eu a) /\ eu_pending_read e1 = true).
  Proof.
    intros [[HF Hok _ Hmiss Hdtl] Hpr HI2 HW] Ef Ed Ee fuA.
    destruct (decode_flow5 app Happ (ev_pc hev) (rview (pz a)) _ _ _ _ _ _ HF Ef Ed) as (HI1 & Hfu1 & Hcl & Hec & Hmid).
    cbn [pz rview k5_eu k5_ebus n_eu n_ebus] in Hmid, Hec, Hok, Hmiss. rewrite q_eu_view in Hmid.
    pose proof Hmid as (_ & _ & _ & Hent1).
    destruct (sks_eu_flow app _ _ _ _ _ _ _ _ _ _ Hent1 Hok Hmiss Ee) as (Hns & Hfl & Hok1 & Hmiss1 & Hex & Hfull & Hwait).
    rewrite <- Hfl in Hmid.
    assert (Hx : forall y, issue_s (is_full (y_wp a)) (y_eu a) ebus1 = Some y -> exists rest, act_q act ++ q_eu e1 ++ q_sb ebus2 = y :: rest).
    { intros y Hy. pose proof (issue_s_spec _ _ _ _ _ _ _ _ _ _ Ee) as Hs. rewrite Hy in Hs.
      destruct Hs as [-> | [-> Hq]]; cbn [act_q List.app]; [destruct y; eexists; reflexivity | rewrite Hq; eexists; reflexivity]. }
    pose proof (g_btb _ _ _ HF) as Hbtb. cbn [pz rview k5_btb n_btb] in Hbtb.
    destruct (assert_flow app _ _ _ _ _ (y_btb a) _ Hmid Hcl Hfu1 Hbtb Hx) as [Hmid' Hfu'].
    split; [exact HI1|]. split; [exact Hfu'|]. split; [exact Hns|]. split; [exact Hmid'|].
    split; [exact Hok1|]. split; [exact Hmiss1|]. split; [exact Hex|]. split; [|split; [exact Hec | auto]].
    intros Edu. split; [|exact Hcl]. unfold fuA.
    destruct (issue_s (is_full (y_wp a)) (y_eu a) ebus1) as [[i pc]|] eqn:Ei; [|reflexivity]. cbn [sk5_assert].
    apply issue_s_in in Ei. rewrite Hec in Ei.
    assert (Hin : In (i, pc) (naq (pz a))).
    { unfold naq. cbn [pz n_eu n_ebus]. rewrite q_sb_cur, app_assoc. apply in_or_app. left. exact Ei. }
    pose proof (g_du _ _ _ HF) as Hdu. cbn [rview k5_du] in Hdu. rewrite view_aq in Hdu. cbn [pz n_du] in Hdu. rewrite Edu in Hdu.
    apply du_ok_false in Hdu. rewrite Forall_forall in Hdu. specialize (Hdu _ Hin).
    unfold nonunc in Hdu. cbn [fst] in Hdu. rewrite Hdu. reflexivity.
  Qed.

  Lemma head_entry_s5 hev a fu1 l1i1 dbus1 du1 dbus2 ebus1 i pc :
    FS5 app hev a ->
    fu5_cycle app (y_fu a) (y_l1i a) (y_dbus a) = Ok (fu1, l1i1, dbus1) ->
    du5_cycle app (y_du a) dbus1 (y_ebus a) = Ok (du1, dbus2, ebus1) ->
    hd_error (q_eu (y_eu a) ++ q_sb ebus1) = Some (i, pc) ->
    pc = ev_pc hev /\ nth_error app (Z.to_nat (pc / 4)) = Some i.
  Proof.
    intros HF Ef Ed Hhd.
    destruct (decode_flow5 app Happ (ev_pc hev) (rview (pz a)) _ _ _ _ _ _ (h_front _ _ _ (z_fm _ _ _ HF)) Ef Ed) as (_ & _ & _ & _ & Hmid).
    cbn [pz rview k5_eu k5_ebus n_eu n_ebus] in Hmid. rewrite q_eu_view in Hmid.
    destruct (q_eu (y_eu a) ++ q_sb ebus1) as [|x l]; [discriminate|]. cbn [hd_error] in Hhd. injection Hhd as ->.
    destruct (mid_head app _ _ _ _ _ _ Hmid) as [Hpc [_ Hi]]. cbn [fst snd] in Hpc, Hi. subst pc. auto.
  Qed.

  Theorem fs5_step hev rest a a' path' dc :
    FS5 app hev a -> evs_wf app (hev :: rest) -> stores_plain app (hev :: rest) -> ns_inv5 a (hev :: rest) ->
    sks5_pre app a (hev :: rest) = YStep a' path' dc ->
    exists hev' rest', path' = hev' :: rest' /\ FS5 app hev' a' /\ evs_wf app path' /\ stores_plain app path' /\
      ns_inv5 a' path' /\ (path' = hev :: rest \/ path' = rest).
  Proof.
    intros HF Hwf Hsp Hns H.
    assert (Hsp' : forall nxt rest', rest = nxt :: rest' -> stores_plain app (nxt :: rest')).
    { intros nxt rest' ->. inversion Hsp; assumption. }
    destruct (fu5_cycle app (y_fu a) (y_l1i a) (y_dbus a)) as [[[fu1 l1i1] dbus1]| |] eqn:Ef;
      [|unfold sks5_pre in H; rewrite Ef in H; discriminate|unfold sks5_pre in H; rewrite Ef in H; discriminate].
    destruct (du5_cycle app (y_du a) dbus1 (y_ebus a)) as [[[du1 dbus2] ebus1]| |] eqn:Ed;
      [|unfold sks5_pre in H; rewrite Ef, Ed in H; discriminate|unfold sks5_pre in H; rewrite Ef, Ed in H; discriminate].
    destruct (sks_eu (is_full (y_wp a)) (y_eu a) ebus1 (y_pw a) (y_dt a) (ev_la hev)) as [[[e1 ebus2] dt1] act] eqn:Ee.
    destruct (fronts_flow5 hev a _ _ _ _ _ _ _ _ _ _ HF Ef Ed Ee)
      as (HI1 & Hfu1 & Hnst & Hmid & Hok1 & Hmiss1 & Hex & _ & _ & Hfull & Hwait).
    set (fuA := sk5_assert fu1 (y_btb a) (issue_s (is_full (y_wp a)) (y_eu a) ebus1)) in *.
    pose proof HF as [[HF5 Hok _ Hmiss Hdtl] Hpr HI2 HW].
    pose proof (g_head _ _ _ HF5) as Hh. pose proof (g_btb _ _ _ HF5) as Hbtb. cbn [pz rview k5_btb n_btb] in Hbtb.
    cbn [pz n_eu n_dt] in Hok, Hmiss, Hdtl.
    pose proof (sks_eu_dt_len _ _ _ _ _ _ _ _ _ _ Hdtl Ee) as Hdt1l.
    cbn [ns_inv5] in Hns. destruct Hns as [Hns1 Hns2].
    destruct act as [|i pc|]; [| |congruence].
    - (* nothing executed *)
      rewrite (sks5_pre_none app a hev rest _ _ _ _ _ _ _ _ _ Ef Ed Ee) in H. fold fuA in H.
      destruct (sks5_next_spec a fuA du1 l1i1 dbus2 ebus2 e1 None dt1 (y_btb a) HW ltac:(discriminate))
        as (Epz & Ee1 & Edt & HW2 & El1 & El2 & Hwn).
      set (a2 := sks5_next a fuA du1 l1i1 dbus2 ebus2 e1 None dt1 (y_btb a)) in *.
      assert (Ha : a' = a2 /\ path' = hev :: rest /\ dc = 1) by (split; [|split]; congruence).
      destruct Ha as (-> & -> & ->). clear H.
      cbn [act_q List.app] in Hmid.
      exists hev, rest. split; [reflexivity|]. split; [|split; [exact Hwf|split; [exact Hsp|split; [|auto]]]].
      + assert (Hwpn : eu_pending_read e1 = true -> y_wp a = None).
        { intros Hp1. destruct (y_wp a) as [y|] eqn:Ewp; [|reflexivity]. exfalso.
          destruct (eu_pending_read (y_eu a)) eqn:Ep0.
          - discriminate (Hpr eq_refl).
          - destruct (Hfull eq_refl eq_refl) as [Hc _]. congruence. }
        constructor.
        * rewrite Epz. apply fm5z_build; auto.
        * rewrite Ee1. intros Hp1. apply (Hwn eq_refl (Hwpn Hp1)).
        * rewrite Ee1. intros Hp1 Hm1 x Hx. destruct (Hwn eq_refl (Hwpn Hp1)) as (_ & Hwi & Hwb).
          destruct (wu_pending (y_wu a)) eqn:Ewu; [|rewrite (Hwi eq_refl) in Hx; discriminate].
          rewrite (Hwb eq_refl) in Hx.
          destruct (eu_pending_read (y_eu a)) eqn:Ep0.
          -- destruct (Hwait eq_refl eq_refl) as [Hme _]. apply (HI2 eq_refl); [congruence | exact Hx].
          -- destruct (w_lc _ _ _ _ _ _ HW (Hwpn Hp1) x Hx) as [Hsa Hfl].
             pose proof (w_I1 _ _ _ _ _ _ HW Ewu x Hx) as Hf1. rewrite Hsa. rewrite <- Hfl, Hf1 in Hns1. exact Hns1.
        * exact HW2.
      + cbn [ns_inv5]. rewrite El1, El2, Ee1, Edt. rewrite Hex. auto.
    - (* (i, pc) executed *)
      destruct Hex as (Hp1 & Hpr1 & Hdt1).
      cbn [act_q List.app] in Hmid.
      destruct (mid_head app _ _ _ _ _ _ Hmid) as [Hpc [_ Hi]]. cbn [fst snd] in Hpc, Hi. subst pc.
      assert (Hwp0 : y_wp a = None).
      { destruct (y_wp a) as [y|] eqn:Ewp; [|reflexivity]. exfalso.
        destruct (eu_pending_read (y_eu a)) eqn:Ep0.
        - discriminate (Hpr eq_refl).
        - destruct (Hfull eq_refl eq_refl) as [_ Hc]. discriminate. }
      rewrite (sks5_pre_exec_eq app a hev rest _ _ _ _ _ _ _ _ _ _ _ Ef Ed Ee) in H. fold fuA in H.
      unfold sks5_exec in H. rewrite Z.eqb_refl in H. cbn [negb] in H.
      destruct (is_ret i).
      { destruct rest; [|discriminate]. destruct (sks_wu _ _ _ _) as [[[? ?] ?] ?]. destruct (sks_drain _ _ _ _ _ _ _); discriminate. }
      destruct rest as [|nxt rest']; [discriminate|].
      destruct (evs_wf_tail5 app _ _ _ Hwf) as [Hwf' Hnext].
      assert (Hadd : addS 32 (ev_pc hev) 4 = ev_pc hev + 4).
      { unfold addS. apply wrapS_id; [lia|]. apply int32_bounds. lia. }
      assert (Hq_eu : q_eu e1 = []) by (unfold q_eu; rewrite Hp1; reflexivity).
      assert (Hm0 : eu_pending_read e1 = true -> ev_la nxt <> [] /\ (eu_memory e1 = None -> eu_addrs e1 = ev_la nxt))
        by (intros Hx; rewrite Hpr1 in Hx; discriminate).
      unfold ns_tail in Hns2. rewrite <- Hdt1 in Hns2.
      destruct (ev_sa hev) as [|s0 sa'] eqn:Esa.
      + (* not a store *)
        cbv zeta in H. cbn [a_get_all fst] in Hns2.
        set (fuR := if uncond i then fu5_reset fuA (ev_pc nxt) else fuA) in *.
        set (duR := if uncond i then false else du1) in *.
        set (btb' := if uncond i then btb_add (y_btb a) (ev_pc hev) (ev_pc nxt) else y_btb a) in *.
        assert (Hbtb' : btb_ok btb') by (unfold btb'; destruct (uncond i); [apply btb_add_ok; assumption | exact Hbtb]).
        destruct (sks5_next_spec a fuR duR l1i1 dbus2 ebus2 e1 (Some (instr_WriteRegisters i, [])) dt1 btb' HW)
          as (Epz & Ee1 & Edt & HW2 & El1 & El2 & _).
        { intros wr sa Hx. injection Hx as <- <-. split; [exact Hwp0|]. split; [apply write_regs_length | congruence]. }
        set (a2 := sks5_next a fuR duR l1i1 dbus2 ebus2 e1 (Some (instr_WriteRegisters i, [])) dt1 btb') in *.
        destruct (sk5_flush (y_btb a) i (ev_pc hev) (ev_pc nxt)) eqn:Efl.
        * (* flush *)
          destruct (sks_drain drain_fuel (y_pw a2) (y_wu a2) (y_wp a2) (y_wc a2) 1 true) as [[w3 c3]|] eqn:Edr; [|discriminate].
          injection H as <- <- <-.
          exists nxt, rest'. split; [reflexivity|]. split; [|split; [exact Hwf'|split; [exact (Hsp' _ _ eq_refl)|split; [|auto]]]].
          -- constructor; unfold pz; cbn [y_fu y_du y_l1i y_dbus y_ebus y_eu y_dt y_btb y_pw y_wp y_wc y_wu y_l1 y_l2].
             ++ apply fm5z_build.
                ** exact Hnext.
                ** cbn [eu_flushed q_eu eu_processing q_sb sbus_empty sb_current sb_pending olist List.app].
                   apply mid_fresh; auto.
                ** discriminate.
                ** unfold eu_ok, eu_flushed. cbn [eu_processing eu_pending_read eu_memory]. rewrite Hpr1.
                   repeat split; try discriminate. intros _. apply Hok1. exact Hpr1.
                ** exact HI1.
                ** exact Hbtb'.
                ** cbn [eu_flushed eu_pending_read]. rewrite Hpr1. discriminate.
                ** exact Hdt1l.
             ++ cbn [eu_flushed eu_pending_read]. rewrite Hpr1. discriminate.
             ++ cbn [eu_flushed eu_pending_read]. rewrite Hpr1. discriminate.
             ++ apply winv_empty. eapply sks_drain_idle. exact Edr.
          -- apply ns_inv5_intro; cbn [y_eu y_dt y_l1 y_l2 eu_flushed eu_pending_read]; [exact Hpr1|]. rewrite El1, El2. exact Hns2.
        * (* no flush *)
          injection H as <- <- <-.
          exists nxt, rest'. split; [reflexivity|]. split; [|split; [exact Hwf'|split; [exact (Hsp' _ _ eq_refl)|split; [|auto]]]].
          -- constructor; rewrite ?Ee1; try (intros Hx; rewrite Hpr1 in Hx; discriminate); [|exact HW2].
             rewrite Epz. unfold sk5_flush in Efl. unfold fuR, duR.
             destruct (uncond i) eqn:Eu.
             ++ (* a jump found in the BTB: the fetch unit is redirected *)
                destruct Hmid as (_ & _ & Hdu' & _). destruct (du_ok_head_unc _ _ _ Hdu' Eu) as [HA0 _].
                rewrite Hq_eu in HA0. cbn [List.app] in HA0.
                apply fm5z_build; auto; try discriminate.
                rewrite Hq_eu, HA0. apply mid_reset. exact Hnext.
             ++ apply negb_false_iff, Z.eqb_eq in Efl. rewrite Hadd in Efl.
                apply fm5z_build; auto.
                rewrite Efl. apply (mid_tail app _ _ _ _ _ _ Hmid). exact Eu.
          -- apply ns_inv5_intro; rewrite ?Ee1, ?Edt; [exact Hpr1|]. rewrite El1, El2. exact Hns2.
      + (* a store; the next pc is pc + 4 *)
        destruct (Z.eqb_spec (ev_pc nxt) (addS 32 (ev_pc hev) 4)) as [Enx|]; cbn [negb] in H; [|discriminate].
        rewrite Hadd in Enx.
        assert (Hdtn : zlen (fst (a_get_all dt1 (s0 :: sa'))) <= 16) by (rewrite a_get_all_len; exact Hdt1l).
        assert (Hun : uncond i = false).
        { apply Forall_inv in Hsp. apply Hsp; [rewrite Esa; discriminate | exact Hi]. }
        assert (Hmidn : mid_ok app (ev_pc nxt) (q_eu e1 ++ q_sb ebus2) du1 (dclean fuA dbus2) (to4 fuA)).
        { rewrite Enx. apply (mid_tail app _ _ _ _ _ _ Hmid). exact Hun. }
        destruct (snd (a_get_all dt1 (s0 :: sa'))) eqn:Ehit.
        * destruct (sks5_next_spec a fuA du1 l1i1 dbus2 ebus2 e1 None (fst (a_get_all dt1 (s0 :: sa'))) (y_btb a) HW ltac:(discriminate))
            as (Epz & Ee1 & Edt & HW2 & El1 & El2 & _).
          set (a2 := sks5_next a fuA du1 l1i1 dbus2 ebus2 e1 None (fst (a_get_all dt1 (s0 :: sa'))) (y_btb a)) in *.
          injection H as <- <- <-.
          exists nxt, rest'. split; [reflexivity|]. split; [|split; [exact Hwf'|split; [exact (Hsp' _ _ eq_refl)|split; [|auto]]]].
          -- constructor; rewrite ?Ee1; try (intros Hx; rewrite Hpr1 in Hx; discriminate); [|exact HW2].
             rewrite Epz. apply fm5z_build; auto.
          -- apply ns_inv5_intro; rewrite ?Ee1, ?Edt; [exact Hpr1|]. rewrite El1, El2. exact Hns2.
        * destruct (sks5_next_spec a fuA du1 l1i1 dbus2 ebus2 e1 (Some ([], s0 :: sa')) (fst (a_get_all dt1 (s0 :: sa'))) (y_btb a) HW)
            as (Epz & Ee1 & Edt & HW2 & El1 & El2 & _).
          { intros wr sa Hx. injection Hx as <- <-. split; [exact Hwp0|]. split; [cbn; lia | reflexivity]. }
          set (a2 := sks5_next a fuA du1 l1i1 dbus2 ebus2 e1 (Some ([], s0 :: sa')) (fst (a_get_all dt1 (s0 :: sa'))) (y_btb a)) in *.
          injection H as <- <- <-.
          exists nxt, rest'. split; [reflexivity|]. split; [|split; [exact Hwf'|split; [exact (Hsp' _ _ eq_refl)|split; [|auto]]]].
          -- constructor; rewrite ?Ee1; try (intros Hx; rewrite Hpr1 in Hx; discriminate); [|exact HW2].
             rewrite Epz. apply fm5z_build; auto.
          -- apply ns_inv5_intro; rewrite ?Ee1, ?Edt; [exact Hpr1|]. rewrite El1, El2. exact Hns2.
  Qed.
End FrontS5.

(* ------------------------------------------------------------------ *)
(* progress                                                             *)

Section ProgressS5.
  Variable app : list instr.
  Hypothesis Happ : wf_app app.

  Definition phif5 (a : sks5) : Z := phim5 (pz a).
  Definition fcomp5 (a : sks5) : bool :=
    f5_complete (y_fu a) && negb (eu_processing (y_eu a)) && sbus_is_empty (y_dbus a) && sbus_is_empty (y_ebus a).
  Definition phis5 (a : sks5) : Z := (if fcomp5 a then 0 else phif5 a) + wmu (y_wu a) (y_wp a) (y_wc a).

  (* one cycle of the skeleton with store hits in which nothing is executed (from skm5_progress) *)
  Lemma none_phim5 hev (P : skm5) fu1 l1i1 dbus1 du1 dbus2 ebus1 e1 ebus2 dt1 :
    FM5 app hev P ->
    fu5_cycle app (n_fu P) (n_l1i P) (n_dbus P) = Ok (fu1, l1i1, dbus1) ->
    du5_cycle app (n_du P) dbus1 (n_ebus P) = Ok (du1, dbus2, ebus1) ->
    skm_eu (n_eu P) ebus1 (n_pw P) (n_dt P) (ev_la hev) = (e1, ebus2, dt1, ANone) ->
    skm5_complete (after_nonem5 P (sk5_assert fu1 (n_btb P) (issue_m (n_eu P) ebus1)) du1 l1i1 dbus2 ebus2 e1 dt1) = false ->
    phim5 (after_nonem5 P (sk5_assert fu1 (n_btb P) (issue_m (n_eu P) ebus1)) du1 l1i1 dbus2 ebus2 e1 dt1) < phim5 P.
  Proof.
    intros HF Ef Ed Ee Hnc.
    destruct (n_du P) eqn:Edu.
    - rewrite du5_stalled in Ed. injection Ed as <- <- <-. eapply nonem_phi5_stalled; eassumption.
    - assert (Ed' : du5_cycle app (n_du P) dbus1 (n_ebus P) = Ok (du1, dbus2, ebus1)) by (rewrite Edu; exact Ed).
      destruct (frontm_flow5 app Happ hev P _ _ _ _ _ _ _ _ _ _ HF Ef Ed' Ee) as (_ & _ & _ & _ & _ & _ & _ & Hnr & _).
      destruct (Hnr Edu) as [Hnr1 Hcl]. rewrite Hnr1 in *.
      pose proof (fu5_cycle_inv _ _ _ _ _ _ _ Ef) as [Ef4 _].
      destruct (du5_false _ _ _ _ _ _ Ed) as [Ed4 _].
      pose proof (nonem_phi app Happ hev (projm P) (to4 fu1) l1i1 dbus1 dbus2 ebus1 e1 ebus2 dt1
                    (projm_finvm app hev P HF Edu) Ef4 Ed4 Ee) as Hphi.
      unfold phim5. unfold projm at 1, after_nonem5. cbn [n_fu n_du n_l1i n_dbus n_ebus n_eu n_pw n_wb n_dt n_btb].
      unfold dclean at 1. rewrite Hcl. apply Hphi.
      unfold skm5_complete, after_nonem5 in Hnc. cbn [n_fu n_du n_l1i n_dbus n_ebus n_eu n_pw n_wb n_dt n_btb] in Hnc. exact Hnc.
  Qed.

  Lemma phim5_parts fu du l1 dbus ebus e pw wb dt btb :
    phim5 (mk_skm5 fu du l1 dbus ebus e pw wb dt btb) =
    phim5 (mk_skm5 fu du l1 dbus ebus e zero_pw None dt btb) +
    (if eu_processing e && negb (eu_pending_read e) then match wb with Some _ => 1 | None => 0 end else 0).
  Proof. unfold phim5, projm. cbn [n_fu n_du n_l1i n_dbus n_ebus n_eu n_pw n_wb n_dt n_btb]. apply phim_parts. Qed.

  Lemma fs5_fm5w hev a : FS5 app hev a -> eu_pending_read (y_eu a) = false -> y_wp a = None -> FM5 app hev (pw5 a).
  Proof.
    intros [[HF Hok _ Hmiss Hdtl] Hpr HI2 HW] Hp Hwp.
    constructor; unfold pw5, rview; cbn [n_fu n_du n_l1i n_dbus n_ebus n_eu n_pw n_wb n_dt n_btb]; auto.
    - pose proof (F5_mid app _ _ HF) as Hmid. unfold aq in Hmid.
      cbn [pz rview k5_fu k5_du k5_l1i k5_dbus k5_ebus k5_eu n_fu n_du n_l1i n_dbus n_ebus n_eu] in Hmid. rewrite q_eu_view in Hmid.
      apply F5_build.
      + exact (g_head _ _ _ HF).
      + exact Hmid.
      + exact (g_fu _ _ _ HF).
      + apply eu_ok_run. exact Hok.
      + exact (g_l1i _ _ _ HF).
      + rewrite (w_pw _ _ _ _ _ _ HW), Hwp. reflexivity.
      + intros wr Hwr. destruct (y_wc a) as [x|] eqn:Ewc; [|discriminate]. injection Hwr as <-.
        apply (w_wr _ _ _ _ _ _ HW x). auto.
      + exact (g_btb _ _ _ HF).
    - intros Hx. cbn [pz n_eu] in *. rewrite Hp in Hx. discriminate.
  Qed.

  Lemma phif5_bounds hev a : FS5 app hev a -> 1 <= phif5 a <= phim_max.
  Proof.
    intros [[HF (Hproc & Hpp & Hmem) _ Hmiss Hdtl] Hpr HI2 HW].
    pose proof (fuphi_bounds (to4 (y_fu a)) (g_fu _ _ _ HF)) as Hf.
    unfold phif5, phim5, phim, projm, pz, phim_max in *. cbn [n_fu n_du n_l1i n_dbus n_ebus n_eu n_pw n_wb n_dt n_btb m_fu m_l1i m_dbus m_ebus m_eu m_pw m_wb m_dt] in *.
    destruct (eu_processing (y_eu a)).
    - destruct (Hproc eq_refl) as [Hr _]. unfold Cmax, Rmax, MemoryAccess in *.
      destruct (eu_pending_read (y_eu a)); lia.
    - unfold Cmax, Rmax, MemoryAccess in *.
      destruct (sb_current (y_ebus a)), (sb_pending (y_ebus a)), (sb_current (dclean (y_fu a) (y_dbus a))),
        (sb_pending (dclean (y_fu a) (y_dbus a))); lia.
  Qed.

  Lemma phis5_bounds hev a : FS5 app hev a -> 0 <= phis5 a <= phim_max + 3 * MemoryAccess + 3.
  Proof.
    intros HF. pose proof (phif5_bounds hev a HF). pose proof (wmu_bounds _ _ _ _ _ _ (z_w _ _ _ HF)).
    unfold phis5. destruct (fcomp5 a); unfold phim_max, Cmax, Rmax, MemoryAccess in *; lia.
  Qed.

  (* once the front end is empty it stays empty *)
  Lemma fcomp5_stable hev a fu1 l1i1 dbus1 du1 dbus2 ebus1 e1 ebus2 dt1 act :
    FS5 app hev a -> fcomp5 a = true ->
    fu5_cycle app (y_fu a) (y_l1i a) (y_dbus a) = Ok (fu1, l1i1, dbus1) ->
    du5_cycle app (y_du a) dbus1 (y_ebus a) = Ok (du1, dbus2, ebus1) ->
    sks_eu (is_full (y_wp a)) (y_eu a) ebus1 (y_pw a) (y_dt a) (ev_la hev) = (e1, ebus2, dt1, act) ->
    act = ANone /\ f5_complete (sk5_assert fu1 (y_btb a) (issue_s (is_full (y_wp a)) (y_eu a) ebus1)) = true /\
    eu_processing e1 = false /\ sbus_is_empty dbus2 = true /\ sbus_is_empty ebus2 = true.
  Proof.
    intros HF Hc. unfold fcomp5 in Hc. repeat (apply andb_prop in Hc as [Hc ?]). apply negb_true_iff in H1.
    destruct (h_eu _ _ _ (z_fm _ _ _ HF)) as (_ & Hpp & _). cbn [pz n_eu] in Hpp.
    assert (Hpr : eu_pending_read (y_eu a) = false).
    { destruct (eu_pending_read (y_eu a)); [|reflexivity]. rewrite (Hpp eq_refl) in H1. discriminate. }
    assert (Hd : y_dbus a = mk_sbus None None).
    { unfold sbus_is_empty in H0. destruct (y_dbus a) as [[?|] [?|]]; try discriminate. reflexivity. }
    assert (He : y_ebus a = mk_sbus None None).
    { unfold sbus_is_empty in H. destruct (y_ebus a) as [[?|] [?|]]; try discriminate. reflexivity. }
    intros Ef. unfold fu5_cycle in Ef. cbn [f5_complete] in Ef. rewrite Hc in Ef.
    assert (Hx : f5_complete fu1 = true /\ dbus1 = mk_sbus None None).
    { rewrite Hd in Ef. destruct (f5_clean (y_fu a)); injection Ef as <- _ <-; auto. }
    destruct Hx as [Hfc ->]. clear Ef.
    rewrite He. intros Ed.
    assert (Hy : dbus2 = mk_sbus None None /\ ebus1 = mk_sbus None None).
    { unfold du5_cycle in Ed. destruct (y_du a); cbn [sbus_can_add sb_pending negb sbus_get sb_current] in Ed; split; congruence. }
    destruct Hy as (-> & ->). clear Ed.
    unfold issue_s, issue_m, eu_issue, sks_eu, skm_eu, eu_intake. rewrite Hpr, H1. cbn [sbus_get sb_current sb_pending negb].
    intros Ee. cbn [sk5_assert].
    destruct (is_full (y_wp a) && true); cbn [sk5_assert]; injection Ee as <- <- <- <-; auto.
  Qed.

  Lemma none_phis5 hev a fu1 l1i1 dbus1 du1 dbus2 ebus1 e1 ebus2 dt1 :
    FS5 app hev a ->
    fu5_cycle app (y_fu a) (y_l1i a) (y_dbus a) = Ok (fu1, l1i1, dbus1) ->
    du5_cycle app (y_du a) dbus1 (y_ebus a) = Ok (du1, dbus2, ebus1) ->
    sks_eu (is_full (y_wp a)) (y_eu a) ebus1 (y_pw a) (y_dt a) (ev_la hev) = (e1, ebus2, dt1, ANone) ->
    let fuA := sk5_assert fu1 (y_btb a) (issue_s (is_full (y_wp a)) (y_eu a) ebus1) in
    sks5_complete (sks5_next a fuA du1 l1i1 dbus2 ebus2 e1 None dt1 (y_btb a)) = false ->
    phis5 (sks5_next a fuA du1 l1i1 dbus2 ebus2 e1 None dt1 (y_btb a)) < phis5 a.
  Proof.
    intros HF Ef Ed Ee fuA. pose proof (z_w _ _ _ HF) as HW.
    unfold sks5_next. destruct (sks_wu (y_pw a) (y_wu a) (y_wp a) (y_wc a)) as [[[pw2 w2] wp2] wc2] eqn:Ew.
    set (a2 := mk_sks5 fuA du1 l1i1 dbus2 ebus2 e1 pw2 wp2 wc2 w2 dt1 (y_btb a) (y_l1 a) (y_l2 a)).
    intros Hnc.
    pose proof (wmu_step _ _ _ _ _ _ _ _ _ _ HW Ew) as Hmu.
    destruct (winv_wu _ _ _ _ _ _ _ _ _ _ HW Ew) as (HW2 & Hwp & Hwi).
    pose proof (wmu_bounds _ _ _ _ _ _ HW) as Hb1. pose proof (wmu_bounds _ _ _ _ _ _ HW2) as Hb2.
    pose proof (phif5_bounds hev a HF) as Hpf.
    assert (Hf2 : phif5 a2 = phim5 (mk_skm5 fuA du1 l1i1 dbus2 ebus2 e1 zero_pw None dt1 (y_btb a))) by reflexivity.
    assert (Hc2 : fcomp5 a2 = skm5_complete (mk_skm5 fuA du1 l1i1 dbus2 ebus2 e1 zero_pw None dt1 (y_btb a))).
    { unfold fcomp5, skm5_complete, a2. cbn [y_fu y_eu y_dbus y_ebus n_fu n_eu n_dbus n_ebus n_wb]. rewrite andb_true_r. reflexivity. }
    unfold phis5. cbn [y_wu y_wp y_wc a2]. fold a2.
    destruct (fcomp5 a2) eqn:Efc2.
    - (* the front end is empty: the write side makes progress *)
      assert (Hlt : wmu w2 wp2 wc2 < wmu (y_wu a) (y_wp a) (y_wc a)).
      { destruct Hmu as [(_ & _ & Hwi0 & Hwp0 & Hwc0) | Hlt]; [|exact Hlt]. exfalso.
        destruct (Hwi Hwi0) as [-> ->]. rewrite Hwp0 in *.
        unfold sks_wu in Ew. rewrite Hwi0, Hwc0 in Ew. assert (Hw2 : w2 = y_wu a) by congruence. subst w2.
        unfold sks5_complete, a2 in Hnc. cbn [y_fu y_eu y_wu y_dbus y_ebus y_wp y_wc is_full negb] in Hnc.
        unfold fcomp5, a2 in Efc2. cbn [y_fu y_eu y_dbus y_ebus] in Efc2. rewrite Hwi0 in Hnc.
        repeat (apply andb_prop in Efc2 as [Efc2 ?]). rewrite Hwp0, Efc2, H, H0, H1 in Hnc. cbn in Hnc. discriminate. }
      destruct (fcomp5 a); lia.
    - assert (Efc : fcomp5 a = false).
      { destruct (fcomp5 a) eqn:E; [|reflexivity]. exfalso.
        destruct (fcomp5_stable hev a _ _ _ _ _ _ _ _ _ _ HF E Ef Ed Ee) as (_ & A & B & C & D).
        unfold fcomp5, a2 in Efc2. cbn [y_fu y_eu y_dbus y_ebus] in Efc2. fold fuA in A. rewrite A, B, C, D in Efc2. discriminate. }
      rewrite Efc.
      assert (Hle : wmu w2 wp2 wc2 <= wmu (y_wu a) (y_wp a) (y_wc a)) by (destruct Hmu as [(-> & -> & _) | Hlt]; lia).
      pose proof (z_fm _ _ _ HF) as HFz.
      destruct (h_eu _ _ _ HFz) as (Hproc & Hpp & Hmem0). cbn [pz n_eu] in Hproc, Hpp, Hmem0.
      destruct (eu_pending_read (y_eu a)) eqn:Epr.
      + (* a load in flight: its counter decreases *)
        pose proof (Hpp eq_refl) as Hp. destruct (Hproc Hp) as [Hr Hrun].
        unfold sks_eu, skm_eu in Ee. rewrite Epr, andb_false_r in Ee.
        destruct (Z.eqb_spec (eu_remaining (y_eu a) - 1) 0); cbn [negb] in Ee.
        * destruct (eu_runner (y_eu a)) as [[i pc]|]; discriminate.
        * injection Ee as <- _ _. rewrite Hf2. unfold phif5, phim5, phim, projm, pz.
          cbn [n_fu n_du n_l1i n_dbus n_ebus n_eu n_pw n_wb n_dt n_btb m_eu m_wb set_rem eu_processing eu_pending_read eu_remaining].
          rewrite Hp, Epr. lia.
      + destruct (is_full (y_wp a)) eqn:Efl.
        * (* the write bus is full *)
          assert (Hlt : wmu w2 wp2 wc2 < wmu (y_wu a) (y_wp a) (y_wc a)).
          { destruct Hmu as [(_ & _ & _ & Hwp0 & _) | Hlt]; [|exact Hlt]. rewrite Hwp0 in Efl. discriminate. }
          assert (Hphi : phif5 a2 <= phif5 a); [|lia].
          assert (HfuA : fuA = fu1) by (unfold fuA, issue_s; rewrite Epr; reflexivity).
          unfold sks_eu in Ee. rewrite Epr in Ee. cbn [andb negb] in Ee.
          destruct (eu_processing (y_eu a)) eqn:Ep.
          -- unfold eu_intake in Ee. rewrite Ep in Ee. cbn [negb] in Ee. destruct (Hproc eq_refl) as [Hr Hrun].
             rewrite Hf2. unfold phif5, phim5, phim, projm, pz.
             cbn [n_fu n_du n_l1i n_dbus n_ebus n_eu n_pw n_wb n_dt n_btb m_eu m_wb]. rewrite Ep, Epr.
             destruct (Z.eqb_spec (eu_remaining (y_eu a) - 1) 0); cbn [negb] in Ee; injection Ee as <- _ _;
               cbn [set_rem eu_processing eu_pending_read eu_remaining]; rewrite Ep, Epr; lia.
          -- destruct (sb_current ebus1) as [[i pc]|] eqn:Ecur.
             ++ unfold eu_intake, sbus_get in Ee. rewrite Ep, Ecur in Ee.
                cbn [negb eu_remaining eu_runner eu_processing eu_addrs eu_memory] in Ee.
                pose proof (cyc_of_bounds i) as Hcy.
                rewrite Hf2. unfold phif5, phim5, phim, projm, pz.
                cbn [n_fu n_du n_l1i n_dbus n_ebus n_eu n_pw n_wb n_dt n_btb m_eu m_wb m_ebus m_dbus m_fu]. rewrite Ep.
                pose proof (fuphi_bounds (to4 (y_fu a)) (g_fu _ _ _ (h_front _ _ _ HFz))) as Hfb.
                destruct (Z.eqb_spec (cyc_of i - 1) 0); cbn [negb] in Ee; injection Ee as <- _ _;
                  cbn [set_rem eu_processing eu_pending_read eu_remaining]; unfold Cmax, Rmax, MemoryAccess in *;
                  destruct (sb_current (y_ebus a)), (sb_pending (y_ebus a)), (sb_current (dclean (y_fu a) (y_dbus a))),
                    (sb_pending (dclean (y_fu a) (y_dbus a))); lia.
             ++ assert (Ee' : skm_eu (n_eu (pz a)) ebus1 (n_pw (pz a)) (n_dt (pz a)) (ev_la hev) = (e1, ebus2, dt1, ANone)).
                { cbn [pz n_eu n_pw n_dt]. rewrite (skm_eu_idle_none (y_eu a) ebus1 zero_pw (y_dt a) _ Epr Ep Ecur).
                  unfold eu_intake, sbus_get in Ee. rewrite Ep, Ecur in Ee. cbn [negb] in Ee. exact Ee. }
                assert (Hiss : issue_m (n_eu (pz a)) ebus1 = None).
                { cbn [pz n_eu]. unfold issue_m, eu_issue, eu_intake, sbus_get. rewrite Epr, Ep, Ecur. reflexivity. }
                pose proof (none_phim5 hev (pz a) fu1 l1i1 dbus1 du1 dbus2 ebus1 e1 ebus2 dt1 HFz Ef Ed Ee') as Hn.
                rewrite Hiss in Hn. cbn [sk5_assert] in Hn. unfold after_nonem5 in Hn. cbn [pz n_pw n_wb n_btb wdel] in Hn.
                rewrite HfuA in Hc2, Hf2. rewrite <- Hc2 in Hn. specialize (Hn eq_refl).
                rewrite Hf2. unfold phif5. lia.
        * (* the write bus has room: as in the skeleton with store hits *)
          assert (Hwp0 : y_wp a = None) by (destruct (y_wp a); [discriminate Efl | reflexivity]).
          pose proof (fs5_fm5w hev a HF Epr Hwp0) as HFm.
          unfold sks_eu in Ee. cbn [andb] in Ee.
          assert (HfuA : fuA = sk5_assert fu1 (y_btb a) (issue_m (y_eu a) ebus1)).
          { unfold fuA, issue_s. rewrite ?Efl. reflexivity. }
          pose proof (none_phim5 hev (pw5 a) fu1 l1i1 dbus1 du1 dbus2 ebus1 e1 ebus2 dt1 HFm Ef Ed Ee) as Hn.
          unfold after_nonem5, pw5 in Hn. cbn [n_fu n_du n_l1i n_dbus n_ebus n_eu n_pw n_wb n_dt n_btb] in Hn.
          rewrite <- HfuA in Hn.
          assert (Hc3 : skm5_complete (mk_skm5 fuA du1 l1i1 dbus2 ebus2 e1 (wdel (y_pw a) (option_map wi_wr (y_wc a))) None dt1 (y_btb a)) = false).
          { rewrite <- Efc2. unfold fcomp5, skm5_complete, a2. cbn [y_fu y_eu y_dbus y_ebus n_fu n_eu n_dbus n_ebus n_wb]. apply andb_true_r. }
          specialize (Hn Hc3).
          rewrite (phim5_parts fuA du1 l1i1 dbus2 ebus2 e1 _ None dt1 (y_btb a)) in Hn.
          rewrite (phim5_parts (y_fu a) (y_du a) (y_l1i a) (y_dbus a) (y_ebus a) (y_eu a) (y_pw a) _ (y_dt a) (y_btb a)) in Hn.
          fold (pz a) in Hn. fold (phif5 a) in Hn. rewrite <- Hf2 in Hn.
          destruct (y_wc a) as [x|] eqn:Ewc; cbn [option_map] in Hn.
          -- assert (Hlt : wmu w2 wp2 wc2 < wmu (y_wu a) (y_wp a) (Some x)).
             { destruct Hmu as [(_ & _ & _ & _ & Hwc0) | Hlt]; [discriminate | exact Hlt]. }
             destruct (eu_processing e1 && negb (eu_pending_read e1)), (eu_processing (y_eu a) && negb (eu_pending_read (y_eu a))); lia.
          -- destruct (eu_processing e1 && negb (eu_pending_read e1)), (eu_processing (y_eu a) && negb (eu_pending_read (y_eu a))); lia.
  Qed.
End ProgressS5.

Section TermS5.
  Variable app : list instr.
  Hypothesis Happ : wf_app app.

  Lemma completes_exit5 hev rest a : FS5 app hev a -> sks5_complete a = true -> evs_wf app (hev :: rest) ->
    rest = [] /\ nlen app <= ev_pc hev / 4.
  Proof.
    intros HF Hc Hwf. apply (completem_exit5 app hev rest (pz a) (z_fm _ _ _ HF)); [|exact Hwf].
    unfold sks5_complete in Hc. repeat (apply andb_prop in Hc as [Hc ?]).
    unfold skm5_complete, pz. cbn [n_fu n_eu n_dbus n_ebus n_wb]. rewrite Hc, H4, H2, H1. reflexivity.
  Qed.

  Lemma sks5_pre_exec hev rest a fu1 l1i1 dbus1 du1 dbus2 ebus1 e1 ebus2 dt1 i pc :
    FS5 app hev a -> evs_wf app (hev :: rest) ->
    fu5_cycle app (y_fu a) (y_l1i a) (y_dbus a) = Ok (fu1, l1i1, dbus1) ->
    du5_cycle app (y_du a) dbus1 (y_ebus a) = Ok (du1, dbus2, ebus1) ->
    sks_eu (is_full (y_wp a)) (y_eu a) ebus1 (y_pw a) (y_dt a) (ev_la hev) = (e1, ebus2, dt1, AExec i pc) ->
    match sks5_pre app a (hev :: rest) with
    | YStuck => False
    | YFin dc _ => rest = [] /\ dc = 1
    | YStep _ path' dc => path' = rest /\ 1 <= dc
    end.
  Proof.
    intros HF Hwf Ef Ed Ee.
    destruct (fronts_flow5 app Happ hev a _ _ _ _ _ _ _ _ _ _ HF Ef Ed Ee) as (_ & _ & _ & Hmid & _ & _ & Hex & _ & _ & Hfull & _).
    pose proof (z_w _ _ _ HF) as HW. pose proof (z_pr _ _ _ HF) as Hpr.
    cbn [act_q List.app] in Hmid. destruct (mid_head app _ _ _ _ _ _ Hmid) as [Hpc [_ Hi]]. cbn [fst snd] in Hpc, Hi. subst pc.
    assert (Hwp0 : y_wp a = None).
    { destruct (y_wp a) as [y|] eqn:Ewp; [|reflexivity]. exfalso.
      destruct (eu_pending_read (y_eu a)) eqn:Ep0.
      - discriminate (Hpr eq_refl).
      - destruct (Hfull eq_refl eq_refl) as [_ Hc]. discriminate. }
    rewrite (sks5_pre_exec_eq app a hev rest _ _ _ _ _ _ _ _ _ _ _ Ef Ed Ee).
    set (fuA := sk5_assert fu1 (y_btb a) (issue_s (is_full (y_wp a)) (y_eu a) ebus1)).
    unfold sks5_exec. rewrite Z.eqb_refl. cbn [negb].
    pose proof (g_head _ _ _ (h_front _ _ _ (z_fm _ _ _ HF))) as Hh.
    cbn [evs_wf] in Hwf. destruct Hwf as (_ & Hwf). rewrite Hi in Hwf.
    destruct rest as [|nxt r].
    - rewrite Hwf. destruct (sks_wu (y_pw a) (y_wu a) (y_wp a) (y_wc a)) as [[[pw2 w2] wp2] wc2] eqn:Ew.
      destruct (winv_wu _ _ _ _ _ _ _ _ _ _ HW Ew) as (HW2 & _).
      destruct (winv_drain _ _ _ _ _ _ 0 false HW2) as (w3 & c3 & ->). auto.
    - destruct Hwf as ((i' & Hi' & Hr) & Hst & _). injection Hi' as <-. rewrite Hr.
      destruct (ev_sa hev) as [|s0 sa'] eqn:Esa.
      + cbv zeta.
        set (fuR := if uncond i then fu5_reset fuA (ev_pc nxt) else fuA).
        set (duR := if uncond i then false else du1).
        set (btb' := if uncond i then btb_add (y_btb a) (ev_pc hev) (ev_pc nxt) else y_btb a).
        destruct (sks5_next_spec a fuR duR l1i1 dbus2 ebus2 e1 (Some (instr_WriteRegisters i, [])) dt1 btb' HW)
          as (_ & _ & _ & HW2 & _).
        { intros wr sa Hx. injection Hx as <- <-. split; [exact Hwp0|]. split; [apply write_regs_length | congruence]. }
        set (a2 := sks5_next a fuR duR l1i1 dbus2 ebus2 e1 (Some (instr_WriteRegisters i, [])) dt1 btb') in *.
        destruct (sk5_flush (y_btb a) i (ev_pc hev) (ev_pc nxt)); [|split; [reflexivity | lia]].
        destruct (winv_drain _ _ _ _ _ _ 1 true HW2) as (w3 & c3 & E). rewrite E.
        split; [reflexivity|]. apply sks_drain_ge in E. exact E.
      + rewrite (Hst ltac:(discriminate)).
        assert (Hadd : addS 32 (ev_pc hev) 4 = ev_pc hev + 4).
        { unfold addS. apply wrapS_id; [lia|]. apply int32_bounds. lia. }
        rewrite Hadd, Z.eqb_refl. cbn [negb].
        destruct (snd (a_get_all dt1 (s0 :: sa'))); split; try reflexivity; lia.
  Qed.

  Theorem sks5_progress hev rest a :
    FS5 app hev a -> evs_wf app (hev :: rest) -> stores_plain app (hev :: rest) -> ns_inv5 a (hev :: rest) ->
    match sks5_cycle app a (hev :: rest) with
    | YStuck => False
    | YFin dc _ => (exec_count app (hev :: rest) <= 1)%nat /\ 1 <= dc
    | YStep a' path' dc => 1 <= dc /\ (path' = rest \/ (path' = hev :: rest /\ phis5 a' < phis5 a))
    end.
  Proof.
    intros HF Hwf Hsp Hns.
    assert (Hpre : match sks5_pre app a (hev :: rest) with
                   | YStuck => False
                   | YFin dc _ => rest = [] /\ dc = 1
                   | YStep a' path' dc => 1 <= dc /\ (path' = rest \/
                       (path' = hev :: rest /\ (sks5_complete a' = false -> phis5 a' < phis5 a)))
                   end).
    { pose proof (h_front _ _ _ (z_fm _ _ _ HF)) as HF5.
      pose proof HF5 as [Hh HA (g & n & Hq & Hg & Hgd) Hdu Hent Hfu _ _ HI Hpw Hwb Hbtb].
      cbn [pz rview k5_fu k5_du k5_l1i k5_dbus k5_ebus n_fu n_du n_l1i n_dbus n_ebus] in *.
      assert (Hfok : exists fu1 l1i1 dbus1, fu5_cycle app (y_fu a) (y_l1i a) (y_dbus a) = Ok (fu1, l1i1, dbus1)).
      { rewrite fu5_cycle_to4.
        destruct (fu_cycle_spec app (to4 (y_fu a)) (y_l1i a) (dclean (y_fu a) (y_dbus a)) HI) as (f' & c' & d' & E & _).
        - intros Hc. rewrite (q_pc _ _ _ _ _ Hq Hc). pose proof (nlen_small app Happ). destruct n as [|n]; [lia|].
          pose proof (q_in1 _ _ _ _ _ Hq ltac:(lia) Hc). lia.
        - exact Hfu.
        - rewrite E. eauto. }
      destruct Hfok as (fu1 & l1i1 & dbus1 & Ef).
      assert (Hdok : exists du1 dbus2 ebus1, du5_cycle app (y_du a) dbus1 (y_ebus a) = Ok (du1, dbus2, ebus1)).
      { destruct (y_du a); [rewrite du5_stalled; eauto|].
        pose proof (fu5_cycle_inv _ _ _ _ _ _ _ Ef) as [Ef4 _].
        destruct (fq_fu app Happ g n [] _ _ _ _ _ _ Hg Hq HI Hfu Ef4) as (_ & _ & [n1 Hq1] & _). cbn [List.app] in Hq1.
        destruct (du5_cycle_spec app dbus1 (y_ebus a)) as (du' & d' & e' & E & _); [|eauto].
        intros p Hp. apply (consec4_nonneg g n1); [lia|]. rewrite <- (q_eq _ _ _ _ _ Hq1).
        unfold q_sb. rewrite Hp. left. reflexivity. }
      destruct Hdok as (du1 & dbus2 & ebus1 & Ed).
      destruct (sks_eu (is_full (y_wp a)) (y_eu a) ebus1 (y_pw a) (y_dt a) (ev_la hev)) as [[[e1 ebus2] dt1] act] eqn:Ee.
      destruct act as [|i pc|].
      - rewrite (sks5_pre_none app a hev rest _ _ _ _ _ _ _ _ _ Ef Ed Ee).
        split; [lia|]. right. split; [reflexivity|]. intros Hnc. eapply none_phis5; eassumption.
      - pose proof (sks5_pre_exec hev rest a _ _ _ _ _ _ _ _ _ _ _ HF Hwf Ef Ed Ee) as H.
        destruct (sks5_pre app a (hev :: rest)); auto. destruct H. auto.
      - destruct (fronts_flow5 app Happ hev a _ _ _ _ _ _ _ _ _ _ HF Ef Ed Ee) as (_ & _ & Hns' & _). congruence. }
    unfold sks5_cycle.
    destruct (sks5_pre app a (hev :: rest)) as [a2 p dc|dc dt|] eqn:Ep; [| |contradiction].
    - destruct (fs5_step app Happ hev rest a a2 p dc HF Hwf Hsp Hns Ep) as (hev' & rest' & -> & HF' & Hwf' & _ & _ & _).
      destruct Hpre as [Hdc Hpre].
      destruct (sks5_complete a2) eqn:Ec.
      + destruct (completes_exit5 hev' rest' a2 HF' Ec Hwf') as [-> Hout]. split; [|exact Hdc].
        destruct Hpre as [Hp | [Hp _]].
        * subst rest. rewrite exec_count_cons, (exec_count_out app hev' Hout). destruct (_ <? _); lia.
        * injection Hp as -> <-. rewrite (exec_count_out app hev Hout). lia.
      + split; [exact Hdc|]. destruct Hpre as [Hp | [Hp Hphi]]; [left; exact Hp | right; split; [exact Hp | apply Hphi; reflexivity]].
    - destruct Hpre as [-> ->]. split; [|lia]. rewrite exec_count_cons. unfold exec_count. cbn [filter length]. destruct (_ <? _); lia.
  Qed.

  Lemma sks5_run_term : forall (m : nat) rest a hev cyc fuel,
    FS5 app hev a -> evs_wf app (hev :: rest) -> stores_plain app (hev :: rest) -> ns_inv5 a (hev :: rest) ->
    (Z.to_nat (phis5 a) + length rest * Ksteps <= m)%nat -> (m < fuel)%nat ->
    exists c, sks5_run fuel app a (hev :: rest) cyc = Some c /\
              cyc + Z.of_nat (exec_count app (hev :: rest)) <= c.
  Proof.
    induction m as [m IH] using lt_wf_ind. intros rest a hev cyc fuel HF Hwf Hsp Hns Hm Hfuel.
    destruct fuel as [|f]; [lia|]. cbn [sks5_run].
    pose proof (sks5_progress hev rest a HF Hwf Hsp Hns) as Hp.
    pose proof (phis5_bounds app hev a HF) as Hphi.
    destruct (sks5_cycle app a (hev :: rest)) as [a' path' dc|dc dt|] eqn:Ec; [| |contradiction].
    - assert (Epre : sks5_pre app a (hev :: rest) = YStep a' path' dc).
      { unfold sks5_cycle in Ec. destruct (sks5_pre app a (hev :: rest)) as [a2 p d|d t|]; try discriminate.
        destruct (sks5_complete a2); [discriminate | exact Ec]. }
      destruct (fs5_step app Happ hev rest a a' path' dc HF Hwf Hsp Hns Epre) as (hev' & rest' & -> & HF' & Hwf' & Hsp' & Hns' & _).
      pose proof (phis5_bounds app hev' a' HF') as Hphi'. fold phis_max in Hphi, Hphi'.
      destruct Hp as [Hdc [Hp | [Hp Hlt]]].
      + subst rest. cbn [length] in Hm.
        assert (Hk : (S (length rest') * Ksteps = Ksteps + length rest' * Ksteps)%nat) by reflexivity.
        assert (Hm1 : (1 <= m)%nat) by (unfold Ksteps in *; lia).
        assert (Hm' : (Z.to_nat (phis5 a') + length rest' * Ksteps <= m - 1)%nat) by (unfold Ksteps in *; lia).
        destruct (IH (m - 1)%nat ltac:(lia) rest' a' hev' (cyc + dc) f HF' Hwf' Hsp' Hns' Hm' ltac:(lia)) as (c & Hc & Hb).
        exists c. split; [exact Hc|]. rewrite (exec_count_cons app hev). destruct (_ <? _); lia.
      + injection Hp as -> ->.
        assert (Hm' : (Z.to_nat (phis5 a') + length rest * Ksteps <= m - 1)%nat) by lia.
        destruct (IH (m - 1)%nat ltac:(lia) rest a' hev (cyc + dc) f HF' Hwf' Hsp' Hns' Hm' ltac:(lia)) as (c & Hc & Hb).
        exists c. split; [exact Hc|]. lia.
    - destruct Hp as [Hcnt Hdc]. eexists. split; [reflexivity|].
      assert (0 <= MemoryAccess * zlen dt) by (unfold MemoryAccess, zlen; lia). lia.
  Qed.
End TermS5.
