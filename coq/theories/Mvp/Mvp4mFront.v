(* Invariant preservation and progress for the MVP-4 skeleton with loads and
   store hits (Mvp4mSkel.v); see Mvp4Front.v for the register-only version. *)
From Coq Require Import ZArith List Bool Lia.
From Maj Require Import Base.Outcome Base.GoInt Base.GoTypes Isa.Spec Isa.Embed Isa.Seq Isa.Refine.
From Maj Require Import Gen.Latency Gen.RiscTables Gen.Opcodes Comp.Cache Comp.CacheSpec Comp.MapFacts Comp.CacheProofs.
From Maj Require Import Mvp.Mvp12 Mvp.Mvp12Proofs Mvp.Mvp3 Mvp.Mvp3Proofs Mvp.Mvp4 Mvp.Mvp4Skel Mvp.Mvp4Inv Mvp.Mvp4Units
     Mvp.Mvp4Front Mvp.Mvp4mSkel Mvp.Mvp4mInv.
Import ListNotations.
Open Scope Z_scope.

Definition eu_ok (e : eu_t) : Prop :=
  (eu_processing e = true ->
   1 <= eu_remaining e <= (if eu_pending_read e then Rmax else Cmax) /\ eu_runner e <> None) /\
  (eu_pending_read e = true -> eu_processing e = true) /\
  (eu_pending_read e = false -> eu_memory e = None).

Definition dtal (e : eu_t) (dt la : list Z) : list Z :=
  if eu_pending_read e then
    match eu_memory e with
    | Some _ => dt
    | None => fst (a_get_all (a_fill dt (hd 0 la)) la)
    end
  else fst (a_load dt la).

Lemma dt_after_load_dtal a hev : dt_after_load a hev = dtal (m_eu a) (m_dt a) (ev_la hev).
Proof. reflexivity. Qed.

Lemma intake_mem e ebus em ebus1 have : eu_intake e ebus = (em, ebus1, have) ->
  eu_memory em = eu_memory e /\ eu_addrs em = eu_addrs e.
Proof.
  unfold eu_intake. destruct (eu_processing e).
  - intros H. injection H as <- _ _. auto.
  - destruct (sbus_get ebus) as [eb got]. destruct got as [[i pc]|]; intros H; injection H as <- _ _; auto.
Qed.

Lemma tup4_3 {A B C D} (a a' : A) (b b' : B) (c c' : C) (d d' : D) : (a, b, c, d) = (a', b', c', d') -> c = c'.
Proof. intros H. inversion H. reflexivity. Qed.

(* the recency list of the L1D never grows beyond 16 lines *)
Lemma a_get_len r a : zlen (fst (a_get r a)) = zlen r.
Proof.
  unfold a_get. destruct (find (covers 64 a) r) as [b|] eqn:E; [|reflexivity].
  apply find_some in E as [Hin _]. cbn [fst]. rewrite zlen_cons, (length_remove_first b r Hin). lia.
Qed.

Lemma a_get_all_len l : forall r, zlen (fst (a_get_all r l)) = zlen r.
Proof.
  induction l as [|a t IH]; intros r; cbn [a_get_all]; [reflexivity|].
  destruct (snd (a_get r a)); [rewrite IH|]; apply a_get_len.
Qed.

Lemma a_fill_len r a : zlen r <= 16 -> zlen (a_fill r a) <= 16.
Proof.
  intros H. unfold a_fill. set (r1 := (a - a mod 64) :: r).
  assert (H1 : zlen r1 = zlen r + 1) by (unfold r1; apply zlen_cons).
  destruct (Z.gtb_spec (zlen r1) 16); [|lia].
  rewrite (length_remove_first (last r1 0) r1); [lia|]. apply last_in. discriminate.
Qed.

Section FrontM.
  Variable app : list instr.
  Hypothesis Happ : wf_app app.

  Lemma skm_eu_flow e ebus pw dt la e1 ebus2 dt1 act :
    Forall (entry_ok app) (q_eu e ++ q_sb ebus) -> eu_ok e ->
    (eu_pending_read e = true -> la <> [] /\ (eu_memory e = None -> eu_addrs e = la)) ->
    skm_eu e ebus pw dt la = (e1, ebus2, dt1, act) ->
    act <> AStuck /\
    act_q act ++ q_eu e1 ++ q_sb ebus2 = q_eu e ++ q_sb ebus /\
    eu_ok e1 /\
    (eu_pending_read e1 = true -> la <> [] /\ (eu_memory e1 = None -> eu_addrs e1 = la)) /\
    (match act with
     | AExec _ _ => eu_processing e1 = false /\ eu_pending_read e1 = false /\ dt1 = dtal e dt la
     | ANone => dtal e1 dt1 la = dtal e dt la
     | AStuck => True
     end).
  Proof.
    intros Hent (Hproc & Hpp & Hmem) Hmiss. unfold skm_eu.
    destruct (eu_pending_read e) eqn:Epr.
    - (* a load is in flight *)
      specialize (Hpp eq_refl). destruct (Hproc Hpp) as [Hrem Hrun].
      destruct (Z.eqb_spec (eu_remaining e - 1) 0) as [E0|E0]; cbn [negb].
      + destruct (eu_runner e) as [[i pc]|] eqn:Er; [|congruence].
        intros H. injection H as <- <- <- <-. cbn [act_q].
        split; [discriminate|]. split; [unfold q_eu at 2; rewrite Hpp, Er; reflexivity|].
        split; [unfold eu_ok, eu_done; cbn; repeat split; discriminate|].
        split; [cbn; discriminate|].
        split; [reflexivity|]. split; [reflexivity|].
        unfold dtal. rewrite Epr. destruct (eu_memory e) eqn:Em; [reflexivity|].
        destruct (Hmiss eq_refl) as [_ Hm]. rewrite (Hm eq_refl). reflexivity.
      + intros H. injection H as <- <- <- <-. cbn [act_q List.app].
        split; [discriminate|]. split; [reflexivity|].
        split. { unfold eu_ok, set_rem. cbn [eu_processing eu_pending_read eu_remaining eu_runner eu_memory]. rewrite Epr.
                 repeat split; auto; try lia; try discriminate. }
        split; [intros _; exact (Hmiss eq_refl)|]. unfold dtal, set_rem. cbn [eu_pending_read eu_memory]. reflexivity.
    - specialize (Hmem eq_refl).
      assert (Hproc' : eu_processing e = true -> 1 <= eu_remaining e <= Cmax /\ eu_runner e <> None) by exact Hproc.
      destruct (eu_intake e ebus) as [[em ebus1] have] eqn:Ei.
      destruct (intake_flow app e ebus em ebus1 have Epr Hent Hproc' Ei) as (Hq & Hpr1 & Hhave & Hproc1 & _).
      destruct (intake_mem _ _ _ _ _ Ei) as [Hmm _]. rewrite Hmem in Hmm.
      assert (Hok_em : forall r, 1 <= r <= Cmax -> eu_ok (set_rem em r)).
      { intros r Hr. unfold eu_ok, set_rem. cbn [eu_processing eu_pending_read eu_remaining eu_runner eu_memory].
        rewrite Hpr1. split; [intros Hp; split; [exact Hr | apply Hproc1; exact Hp]|]. split; [discriminate | auto]. }
      assert (Hdt_em : forall r, dtal (set_rem em r) dt la = dtal e dt la).
      { intros r. unfold dtal, set_rem. cbn [eu_pending_read eu_memory]. rewrite Hpr1, Epr. reflexivity. }
      destruct have; cbn [negb].
      2:{ intros H. injection H as <- <- <- <-. cbn [act_q List.app].
          split; [discriminate|]. split; [exact Hq|].
          split. { unfold eu_ok. rewrite Hpr1. split; [exact Hproc1|]. split; [discriminate | auto]. }
          split; [rewrite Hpr1; discriminate|]. unfold dtal. rewrite Hpr1, Epr. reflexivity. }
      symmetry in Hhave. destruct (Hproc1 Hhave) as [Hrem Hrun].
      destruct (Z.eqb_spec (eu_remaining em - 1) 0) as [E0|E0]; cbn [negb].
      2:{ intros H. injection H as <- <- <- <-. cbn [act_q List.app].
          split; [discriminate|]. split; [exact Hq|]. split; [apply Hok_em; lia|].
          split; [cbn [set_rem eu_pending_read]; rewrite Hpr1; discriminate | apply Hdt_em]. }
      destruct (eu_runner em) as [[i pc]|] eqn:Er; [|congruence].
      destruct (pw_hazard pw (instr_ReadRegisters i)).
      { intros H. injection H as <- <- <- <-. cbn [act_q List.app].
        split; [discriminate|]. split; [exact Hq|]. split; [apply Hok_em; unfold Cmax; lia|].
        split; [cbn [set_rem eu_pending_read]; rewrite Hpr1; discriminate | apply Hdt_em]. }
      destruct la as [|a0 la'].
      + (* no load: execute *)
        intros H. injection H as <- <- <- <-. cbn [act_q].
        split; [discriminate|]. split; [rewrite <- Hq; unfold q_eu at 2; rewrite Hhave, Er; reflexivity|].
        split; [unfold eu_ok, eu_done, set_rem; cbn; rewrite Hpr1, Hmm; repeat split; auto; discriminate|].
        split; [cbn; rewrite Hpr1; discriminate|].
        split; [reflexivity|]. split; [cbn; exact Hpr1|]. unfold dtal. rewrite Epr. reflexivity.
      + (* a load is issued *)
        destruct (snd (a_get_all dt (a0 :: la'))) eqn:Ehit; intros H; injection H as <- <- <- <-; cbn [act_q List.app].
        * split; [discriminate|]. split; [rewrite <- Hq; unfold q_eu; cbn [eu_processing eu_runner]; rewrite Er; reflexivity|].
          split. { unfold eu_ok. cbn [eu_processing eu_pending_read eu_remaining eu_runner eu_memory].
                   split; [intros _; split; [unfold L1Access, Rmax, MemoryAccess; lia | discriminate]|].
                   split; [intros _; exact Hhave | discriminate]. }
          split; [cbn; intros _; split; discriminate|].
          unfold dtal. cbn [eu_pending_read eu_memory]. rewrite Epr. unfold a_load. rewrite Ehit. reflexivity.
        * split; [discriminate|]. split; [rewrite <- Hq; unfold q_eu; cbn [eu_processing eu_runner]; rewrite Er; reflexivity|].
          split. { unfold eu_ok. cbn [eu_processing eu_pending_read eu_remaining eu_runner eu_memory].
                   split; [intros _; split; [unfold Rmax, MemoryAccess; lia | discriminate]|].
                   split; [intros _; exact Hhave | discriminate]. }
          split; [cbn; intros _; split; [discriminate | reflexivity]|].
          unfold dtal. cbn [eu_pending_read eu_memory]. rewrite Epr, Hmm. unfold a_load. rewrite Ehit. reflexivity.
  Qed.

  Lemma skm_eu_dt_len e ebus pw dt la e1 ebus2 dt1 act :
    zlen dt <= 16 -> skm_eu e ebus pw dt la = (e1, ebus2, dt1, act) -> zlen dt1 <= 16.
  Proof.
    intros Hl. unfold skm_eu.
    destruct (eu_pending_read e).
    - destruct (negb _); [intros H; apply tup4_3 in H as <-; exact Hl|].
      destruct (eu_runner e) as [[i pc]|]; intros H; apply tup4_3 in H as <-; [|exact Hl].
      destruct (eu_memory e); [exact Hl|].
      rewrite (a_get_all_len (eu_addrs e) (a_fill dt (hd 0 (eu_addrs e)))). apply a_fill_len. exact Hl.
    - destruct (eu_intake e ebus) as [[em ebus1] have].
      destruct (negb have); [intros H; apply tup4_3 in H as <-; exact Hl|].
      destruct (negb _); [intros H; apply tup4_3 in H as <-; exact Hl|].
      destruct (eu_runner em) as [[i pc]|]; [|intros H; apply tup4_3 in H as <-; exact Hl].
      destruct (pw_hazard pw (instr_ReadRegisters i)); [intros H; apply tup4_3 in H as <-; exact Hl|].
      destruct la as [|a0 la']; [intros H; apply tup4_3 in H as <-; exact Hl|].
      pose proof (a_get_all_len (a0 :: la') dt) as Hg.
      destruct (snd (a_get_all dt (a0 :: la'))); intros H; apply tup4_3 in H as <-; rewrite Hg; exact Hl.
  Qed.

  Lemma finvm_eu_ok hev a : FInvM app hev a -> eu_ok (m_eu a).
  Proof. intros HF. split; [exact (fm_eu _ _ _ HF)|]. split; [intros H; apply (fm_pr _ _ _ HF H) | exact (fm_mem _ _ _ HF)]. Qed.

  Lemma frontm_flow hev a fu1 l1i1 dbus1 dbus2 ebus1 e1 ebus2 dt1 act :
    FInvM app hev a ->
    fu_cycle app (m_fu a) (m_l1i a) (m_dbus a) = Ok (fu1, l1i1, dbus1) ->
    du_cycle app dbus1 (m_ebus a) = Ok (dbus2, ebus1) ->
    skm_eu (m_eu a) ebus1 (m_pw a) (m_dt a) (ev_la hev) = (e1, ebus2, dt1, act) ->
    IInv l1i1 /\ (fu_processing fu1 = true -> 1 <= fu_remaining fu1 <= MemoryAccess) /\
    act <> AStuck /\
    (exists n', FQ app (ev_pc hev) n' (map snd (act_q act) ++ q_parts e1 ebus2 dbus2) fu1) /\
    Forall (entry_ok app) (act_q act ++ q_eu e1 ++ q_sb ebus2) /\
    eu_ok e1 /\
    (eu_pending_read e1 = true -> ev_la hev <> [] /\ (eu_memory e1 = None -> eu_addrs e1 = ev_la hev)) /\
    (match act with
     | AExec _ _ => eu_processing e1 = false /\ eu_pending_read e1 = false /\ dt1 = dtal (m_eu a) (m_dt a) (ev_la hev)
     | ANone => dtal e1 dt1 (ev_la hev) = dtal (m_eu a) (m_dt a) (ev_la hev)
     | AStuck => True
     end).
  Proof.
    intros HF Ef Ed Ee. pose proof (finvm_eu_ok _ _ HF) as Hok.
    destruct HF as [Hh [n Hq] Hent Hfu Heu Hpr Hmem Hmiss HI Hpw Hwb Hdtl].
    unfold qlistm in Hq. rewrite q_parts_alt in Hq.
    destruct (fq_fu app Happ (ev_pc hev) n _ _ _ _ _ _ _ Hh Hq HI Hfu Ef) as (HI1 & Hfu1 & [n1 Hq1] & Hcur & _).
    assert (Hpos : forall p, sb_current dbus1 = Some p -> 0 <= p).
    { intros p Hp. apply (consec4_nonneg (ev_pc hev) n1); [lia|]. rewrite <- (q_eq _ _ _ _ _ Hq1).
      apply in_or_app. right. unfold q_sb. rewrite Hp. left. reflexivity. }
    apply Forall_app in Hent as [Hent_eu Hent_eb].
    destruct (du_flow app dbus1 (m_ebus a) dbus2 ebus1 Hpos Hent_eb Ed) as (Hent1 & Hdu).
    assert (Hq2 : exists n2, FQ app (ev_pc hev) n2 (map snd (q_eu (m_eu a) ++ q_sb ebus1) ++ q_sb dbus2) fu1).
    { destruct Hdu as [Heq | (p & Hp & Hout & -> & _)].
      - exists n1. rewrite map_app, <- app_assoc, Heq, app_assoc, <- map_app. exact Hq1.
      - rewrite Hp in Hq1. destruct (fq_drop app (ev_pc hev) n1 _ p _ fu1 ltac:(lia) Hq1 Hout) as (Hr & _ & Hq').
        rewrite Hr, app_nil_r. eauto. }
    destruct Hq2 as [n2 Hq2].
    assert (Hent2 : Forall (entry_ok app) (q_eu (m_eu a) ++ q_sb ebus1)) by (apply Forall_app; auto).
    destruct (skm_eu_flow _ _ _ _ _ _ _ _ _ Hent2 Hok Hmiss Ee) as (Hns & Hfl & Hok1 & Hmiss1 & Hex).
    split; [assumption|]. split; [assumption|]. split; [assumption|].
    split; [|split; [rewrite Hfl; assumption | auto]].
    exists n2. rewrite q_parts_alt, app_assoc, <- map_app, Hfl. exact Hq2.
  Qed.

  Lemma front_du hev a fu1 l1i1 dbus1 dbus2 ebus1 :
    FInvM app hev a ->
    fu_cycle app (m_fu a) (m_l1i a) (m_dbus a) = Ok (fu1, l1i1, dbus1) ->
    du_cycle app dbus1 (m_ebus a) = Ok (dbus2, ebus1) ->
    (exists n2, FQ app (ev_pc hev) n2 (map snd (q_eu (m_eu a) ++ q_sb ebus1) ++ q_sb dbus2) fu1) /\
    Forall (entry_ok app) (q_eu (m_eu a) ++ q_sb ebus1).
  Proof.
    intros HF Ef Ed.
    destruct HF as [Hh [n Hq] Hent Hfu Heu Hpr Hmem Hmiss HI Hpw Hwb Hdtl].
    unfold qlistm in Hq. rewrite q_parts_alt in Hq.
    destruct (fq_fu app Happ (ev_pc hev) n _ _ _ _ _ _ _ Hh Hq HI Hfu Ef) as (HI1 & Hfu1 & [n1 Hq1] & Hcur & _).
    assert (Hpos : forall p, sb_current dbus1 = Some p -> 0 <= p).
    { intros p Hp. apply (consec4_nonneg (ev_pc hev) n1); [lia|]. rewrite <- (q_eq _ _ _ _ _ Hq1).
      apply in_or_app. right. unfold q_sb. rewrite Hp. left. reflexivity. }
    apply Forall_app in Hent as [Hent_eu Hent_eb].
    destruct (du_flow app dbus1 (m_ebus a) dbus2 ebus1 Hpos Hent_eb Ed) as (Hent1 & Hdu).
    split; [|apply Forall_app; auto].
    destruct Hdu as [Heq | (p & Hp & Hout & -> & _)].
    - exists n1. rewrite map_app, <- app_assoc, Heq, app_assoc, <- map_app. exact Hq1.
    - rewrite Hp in Hq1. destruct (fq_drop app (ev_pc hev) n1 _ p _ fu1 ltac:(lia) Hq1 Hout) as (Hr & _ & Hq').
      rewrite Hr, app_nil_r. eauto.
  Qed.

  Lemma head_entry hev a fu1 l1i1 dbus1 dbus2 ebus1 i pc :
    FInvM app hev a ->
    fu_cycle app (m_fu a) (m_l1i a) (m_dbus a) = Ok (fu1, l1i1, dbus1) ->
    du_cycle app dbus1 (m_ebus a) = Ok (dbus2, ebus1) ->
    hd_error (q_eu (m_eu a) ++ q_sb ebus1) = Some (i, pc) ->
    pc = ev_pc hev /\ nth_error app (Z.to_nat (pc / 4)) = Some i.
  Proof.
    intros HF Ef Ed Hhd. destruct (front_du hev a _ _ _ _ _ HF Ef Ed) as ([n2 Hq2] & Hent).
    destruct (q_eu (m_eu a) ++ q_sb ebus1) as [|x l]; [discriminate|]. cbn [hd_error] in Hhd. injection Hhd as ->.
    cbn [map snd List.app] in Hq2. destruct (fq_head app _ _ _ _ _ Hq2) as [Hpc _].
    inversion Hent as [|? ? [_ Hi] _]; subst. split; [reflexivity | exact Hi].
  Qed.

  Lemma evs_wf_tail ev nxt rest : evs_wf app (ev :: nxt :: rest) ->
    evs_wf app (nxt :: rest) /\ 0 <= ev_pc nxt < 2147483644.
  Proof. cbn [evs_wf]. intros (_ & _ & _ & H). split; [exact H|]. destruct H as [H _]. exact H. Qed.

  Lemma a_load_nil dt : a_load dt [] = (dt, 0).
  Proof. reflexivity. Qed.

  Theorem finvm_step hev rest a a' path' dc :
    FInvM app hev a -> evs_wf app (hev :: rest) -> sh_inv a (hev :: rest) ->
    skm_pre app a (hev :: rest) = MStep a' path' dc ->
    exists hev' rest', path' = hev' :: rest' /\ FInvM app hev' a' /\ evs_wf app path' /\ sh_inv a' path' /\
      (path' = hev :: rest \/ path' = rest).
  Proof.
    intros HF Hwf Hsh H. unfold skm_pre in H.
    destruct (fu_cycle app (m_fu a) (m_l1i a) (m_dbus a)) as [[[fu1 l1i1] dbus1]| |] eqn:Ef; try discriminate.
    destruct (du_cycle app dbus1 (m_ebus a)) as [[dbus2 ebus1]| |] eqn:Ed; try discriminate.
    destruct (skm_eu (m_eu a) ebus1 (m_pw a) (m_dt a) (ev_la hev)) as [[[e1 ebus2] dt1] act] eqn:Ee.
    destruct (frontm_flow hev a _ _ _ _ _ _ _ _ _ HF Ef Ed Ee)
      as (HI1 & Hfu1 & Hns & [n' Hq'] & Hent' & (Heu1 & Hpp1 & Hmem1) & Hmiss1 & Hex).
    destruct HF as [Hh _ _ _ _ Hpr _ _ _ Hpw Hwb Hdtl].
    pose proof (skm_eu_dt_len _ _ _ _ _ _ _ _ _ Hdtl Ee) as Hdt1l.
    cbn [sh_inv] in Hsh. rewrite dt_after_load_dtal in Hsh. destruct Hsh as [Hsh1 Hsh2].
    destruct act as [|i pc|]; [| |discriminate].
    - (* nothing executed *)
      injection H as <- <- <-.
      exists hev, rest. split; [reflexivity|]. split; [|split; [exact Hwf|split; [|auto]]].
      + constructor; cbn [m_fu m_l1i m_dbus m_ebus m_eu m_pw m_wb m_dt]; auto.
        * exists n'. exact Hq'.
        * rewrite Hpw. apply wdel_pwof. exact Hwb.
        * discriminate.
      + cbn [sh_inv]. rewrite dt_after_load_dtal. cbn [m_eu m_dt]. rewrite Hex. auto.
    - (* (i, pc) executed *)
      destruct Hex as (Hp1 & Hpr1 & Hdt1).
      cbn [act_q map snd List.app] in Hq', Hent'.
      destruct (fq_head app _ _ _ _ _ Hq') as (-> & m & ->).
      rewrite Z.eqb_refl in H. cbn [negb] in H.
      destruct (is_ret i); [destruct rest; discriminate|].
      destruct rest as [|nxt rest']; [discriminate|].
      destruct (evs_wf_tail _ _ _ Hwf) as [Hwf' Hnext].
      assert (Hadd : addS 32 (ev_pc hev) 4 = ev_pc hev + 4).
      { unfold addS. apply wrapS_id; [lia|]. apply int32_bounds. lia. }
      assert (Hshn : forall e' dtn, eu_pending_read e' = false -> dtn = fst (a_get_all dt1 (ev_sa hev)) ->
                sh_inv (mk_skm (m_fu a') (m_l1i a') (m_dbus a') (m_ebus a') e' (m_pw a') (m_wb a') dtn) (nxt :: rest')).
      { intros e' dtn He' ->. cbn [sh_inv]. rewrite dt_after_load_dtal. unfold dtal. cbn [m_eu m_dt]. rewrite He'.
        rewrite Hdt1. cbn [stores_hit] in Hsh2. apply andb_prop in Hsh2. exact Hsh2. }
      destruct (ev_sa hev) as [|s0 sa'] eqn:Esa.
      + (* not a store *)
        destruct (sk_flush i (ev_pc hev) (ev_pc nxt)) eqn:Efl; injection H as <- <- <-.
        * exists nxt, rest'. split; [reflexivity|]. split; [|split; [exact Hwf'|split; [|auto]]].
          -- constructor; cbn [m_fu m_l1i m_dbus m_ebus m_eu m_pw m_wb m_dt fu_processing]; auto; try discriminate.
             all: try solve [rewrite Hpr1; discriminate].
             all: try solve [unfold q_eu; rewrite Hp1; constructor].
             all: try solve [exists O; unfold qlistm, q_parts, q_eu; cbn [m_eu m_ebus m_dbus]; rewrite Hp1;
                             cbn [map List.app q_sb sbus_empty sb_current sb_pending olist];
                             constructor; cbn [fu_complete fu_pc]; try discriminate; try lia; reflexivity].
          -- apply (Hshn e1 dt1 Hpr1). reflexivity.
        * unfold sk_flush in Efl. apply orb_false_elim in Efl as [_ Efl]. apply negb_false_iff, Z.eqb_eq in Efl.
          rewrite Hadd in Efl.
          exists nxt, rest'. split; [reflexivity|]. split; [|split; [exact Hwf'|split; [|auto]]].
          -- constructor; cbn [m_fu m_l1i m_dbus m_ebus m_eu m_pw m_wb m_dt]; auto.
             all: try solve [rewrite Hpr1; discriminate].
             all: try solve [rewrite Efl; exists m; apply fq_shift; exact Hq'].
             all: try solve [inversion Hent'; assumption].
             all: try solve [rewrite Hpw; apply wdel_add_pwof; [exact Hwb | apply write_regs_length]].
             all: try solve [intros wr Hwr; injection Hwr as <-; apply write_regs_length].
          -- apply (Hshn e1 dt1 Hpr1). reflexivity.
      + (* a store that hits; the next pc is pc + 4 *)
        destruct (snd (a_get_all dt1 (s0 :: sa'))) eqn:Ehit; cbn [andb] in H; [|discriminate].
        destruct (Z.eqb_spec (ev_pc nxt) (addS 32 (ev_pc hev) 4)) as [Enx|]; [|discriminate].
        rewrite Hadd in Enx.
        injection H as <- <- <-.
        exists nxt, rest'. split; [reflexivity|]. split; [|split; [exact Hwf'|split; [|auto]]].
        -- constructor; cbn [m_fu m_l1i m_dbus m_ebus m_eu m_pw m_wb m_dt]; auto; try discriminate.
           all: try solve [rewrite Hpr1; discriminate].
           all: try solve [rewrite Enx; exists m; apply fq_shift; exact Hq'].
           all: try solve [inversion Hent'; assumption].
           all: try solve [rewrite Hpw; apply wdel_pwof; exact Hwb].
           all: try solve [change (zlen (fst (a_get_all dt1 (s0 :: sa'))) <= 16); rewrite a_get_all_len; exact Hdt1l].
        -- apply (Hshn e1 _ Hpr1). reflexivity.
  Qed.

  (* ---------------------------------------------------------------- *)
  (* progress                                                           *)

  Definition phim (a : skm) : Z :=
    if eu_processing (m_eu a) then
      if eu_pending_read (m_eu a) then 2 * eu_remaining (m_eu a)
      else 2 * eu_remaining (m_eu a) + (match m_wb a with Some _ => 1 | None => 0 end) + 2 * Rmax + 1
    else match sb_current (m_ebus a) with Some _ => 2 * Cmax + 2 * Rmax + 4 | None =>
         match sb_pending (m_ebus a) with Some _ => 2 * Cmax + 2 * Rmax + 5 | None =>
         match sb_current (m_dbus a) with Some _ => 2 * Cmax + 2 * Rmax + 5 | None =>
         match sb_pending (m_dbus a) with Some _ => 2 * Cmax + 2 * Rmax + 6 | None =>
         2 * Cmax + 2 * Rmax + 6 + fuphi (m_fu a) end end end end.

  Definition phim_max : Z := 2 * Cmax + 2 * Rmax + 7 + MemoryAccess.

  Lemma phim_bounds hev a : FInvM app hev a -> 0 <= phim a <= phim_max.
  Proof.
    intros HF. pose proof (fuphi_bounds _ (fm_fu _ _ _ HF)) as Hf. pose proof (fm_eu _ _ _ HF) as He.
    unfold phim, phim_max. destruct (eu_processing (m_eu a)).
    - destruct (He eq_refl) as [Hr _]. unfold Cmax, Rmax, MemoryAccess in *.
      destruct (eu_pending_read (m_eu a)), (m_wb a); lia.
    - unfold Cmax, Rmax, MemoryAccess in *.
      destruct (sb_current (m_ebus a)), (sb_pending (m_ebus a)), (sb_current (m_dbus a)), (sb_pending (m_dbus a)); lia.
  Qed.

  Lemma completem_exit hev rest a : FInvM app hev a -> skm_complete a = true -> evs_wf app (hev :: rest) ->
    rest = [] /\ nlen app <= ev_pc hev / 4.
  Proof.
    intros HF Hc Hwf.
    unfold skm_complete in Hc. repeat (apply andb_prop in Hc as [Hc ?]).
    destruct HF as [Hh [n Hq] _ _ _ _ _ _ _ _ _ _].
    assert (Hn : qlistm a = []).
    { unfold qlistm, q_parts, q_eu, q_sb. apply negb_true_iff in H2. rewrite H2.
      unfold sbus_is_empty in H0, H1. destruct (sb_pending (m_ebus a)), (sb_current (m_ebus a)); try discriminate.
      destruct (sb_pending (m_dbus a)), (sb_current (m_dbus a)); try discriminate. reflexivity. }
    rewrite Hn in Hq. destruct Hq as [Hq _ Hend _ _]. destruct n; [|discriminate].
    specialize (Hend Hc). replace (ev_pc hev + 4 * Z.of_nat 0) with (ev_pc hev) in Hend by lia.
    split; [|exact Hend].
    destruct rest as [|nxt r]; [reflexivity|]. exfalso.
    cbn [evs_wf] in Hwf. destruct Hwf as (_ & (i & Hi & _) & _).
    assert ((Z.to_nat (ev_pc hev / 4) < length app)%nat) by (apply nth_error_Some; congruence).
    unfold nlen in Hend. lia.
  Qed.

  Lemma skm_pre_exec hev rest a fu1 l1i1 dbus1 dbus2 ebus1 e1 ebus2 dt1 i pc :
    FInvM app hev a -> evs_wf app (hev :: rest) -> sh_inv a (hev :: rest) ->
    fu_cycle app (m_fu a) (m_l1i a) (m_dbus a) = Ok (fu1, l1i1, dbus1) ->
    du_cycle app dbus1 (m_ebus a) = Ok (dbus2, ebus1) ->
    skm_eu (m_eu a) ebus1 (m_pw a) (m_dt a) (ev_la hev) = (e1, ebus2, dt1, AExec i pc) ->
    match skm_pre app a (hev :: rest) with
    | MStuck => False
    | MFin _ _ => rest = []
    | MStep _ path' _ => path' = rest
    end.
  Proof.
    intros HF Hwf Hsh Ef Ed Ee.
    destruct (frontm_flow hev a _ _ _ _ _ _ _ _ _ HF Ef Ed Ee) as (_ & _ & _ & [n' Hq'] & Hent' & _ & _ & Hex).
    destruct Hex as (_ & _ & Hdt1).
    cbn [act_q map snd List.app] in Hq', Hent'.
    destruct (fq_head app _ _ _ _ _ Hq') as (-> & m & ->).
    inversion Hent' as [|x l [_ Hi] _]; subst. cbn [fst snd] in Hi.
    unfold skm_pre. rewrite Ef, Ed, Ee. rewrite Z.eqb_refl. cbn [negb].
    pose proof (fm_head _ _ _ HF) as Hh.
    cbn [evs_wf] in Hwf. destruct Hwf as (_ & Hwf). rewrite Hi in Hwf.
    destruct rest as [|nxt r].
    - rewrite Hwf. reflexivity.
    - destruct Hwf as ((i' & Hi' & Hr) & Hst & _). injection Hi' as <-. rewrite Hr.
      cbn [sh_inv] in Hsh. rewrite dt_after_load_dtal in Hsh. destruct Hsh as [Hsh1 _].
      destruct (ev_sa hev) as [|s0 sa'] eqn:Esa.
      + destruct (sk_flush i (ev_pc hev) (ev_pc nxt)); reflexivity.
      + rewrite Hsh1. rewrite (Hst ltac:(discriminate)).
        assert (Hadd : addS 32 (ev_pc hev) 4 = ev_pc hev + 4).
        { unfold addS. apply wrapS_id; [lia|]. apply int32_bounds. lia. }
        rewrite Hadd, Z.eqb_refl. reflexivity.
  Qed.

  Definition after_nonem (a : skm) fu1 l1i1 dbus2 ebus2 e1 dt1 : skm :=
    mk_skm fu1 l1i1 dbus2 ebus2 e1 (wdel (m_pw a) (m_wb a)) None dt1.

  Lemma skm_pre_none hev rest a fu1 l1i1 dbus1 dbus2 ebus1 e1 ebus2 dt1 :
    fu_cycle app (m_fu a) (m_l1i a) (m_dbus a) = Ok (fu1, l1i1, dbus1) ->
    du_cycle app dbus1 (m_ebus a) = Ok (dbus2, ebus1) ->
    skm_eu (m_eu a) ebus1 (m_pw a) (m_dt a) (ev_la hev) = (e1, ebus2, dt1, ANone) ->
    skm_pre app a (hev :: rest) = MStep (after_nonem a fu1 l1i1 dbus2 ebus2 e1 dt1) (hev :: rest) 1.
  Proof. intros Ef Ed Ee. unfold skm_pre. rewrite Ef, Ed, Ee. reflexivity. Qed.

  Lemma skm_eu_idle_none e ebus pw dt la : eu_pending_read e = false -> eu_processing e = false -> sb_current ebus = None ->
    skm_eu e ebus pw dt la = (e, mk_sbus None (sb_pending ebus), dt, ANone).
  Proof. intros Epr Ep Ec. unfold skm_eu, eu_intake, sbus_get. rewrite Epr, Ep, Ec. reflexivity. Qed.

  Lemma nonem_phi hev a fu1 l1i1 dbus1 dbus2 ebus1 e1 ebus2 dt1 :
    FInvM app hev a ->
    fu_cycle app (m_fu a) (m_l1i a) (m_dbus a) = Ok (fu1, l1i1, dbus1) ->
    du_cycle app dbus1 (m_ebus a) = Ok (dbus2, ebus1) ->
    skm_eu (m_eu a) ebus1 (m_pw a) (m_dt a) (ev_la hev) = (e1, ebus2, dt1, ANone) ->
    skm_complete (after_nonem a fu1 l1i1 dbus2 ebus2 e1 dt1) = false ->
    phim (after_nonem a fu1 l1i1 dbus2 ebus2 e1 dt1) < phim a.
  Proof.
    intros HF Ef Ed Ee Hnc.
    destruct a as [f l1i dbus ebus e pw wb dt]. cbn [m_fu m_l1i m_dbus m_ebus m_eu m_pw m_wb m_dt] in *.
    pose proof HF as [Hh [n Hq] Hent Hfu Heu Hpr Hmem Hmiss HI Hpw Hwb Hdtl].
    cbn [m_fu m_l1i m_dbus m_ebus m_eu m_pw m_wb m_dt] in *.
    unfold qlistm in Hq. cbn [m_eu m_ebus m_dbus] in Hq. rewrite q_parts_alt in Hq.
    destruct (fq_fu app Happ (ev_pc hev) n _ _ _ _ _ _ _ Hh Hq HI Hfu Ef) as (HI1 & Hfu1 & [n1 Hq1] & Hcur & Hfc).
    assert (Hpos : forall p, sb_current dbus1 = Some p -> 0 <= p).
    { intros p Hp. apply (consec4_nonneg (ev_pc hev) n1); [lia|]. rewrite <- (q_eq _ _ _ _ _ Hq1).
      apply in_or_app. right. unfold q_sb. rewrite Hp. left. reflexivity. }
    destruct (du_cycle_spec app dbus1 ebus Hpos) as (d & eb & E & Hdu). rewrite Ed in E. injection E as <- <-.
    assert (Hec : sb_current ebus1 = sb_current ebus).
    { destruct Hdu as [(_ & _ & ->) | (_ & _ & [(_ & ->) | [(p & _ & _ & ->) | (p & i & _ & _ & _ & ->)]])]; reflexivity. }
    pose proof (fuphi_bounds _ Hfu) as Hphif.
    unfold phim, after_nonem. cbn [m_fu m_l1i m_dbus m_ebus m_eu m_pw m_wb m_dt].
    destruct (eu_pending_read e) eqn:Epr.
    { (* a load in flight *)
      destruct (Hpr eq_refl) as [Hp _]. rewrite Hp. destruct (Heu Hp) as [Hr Hrun].
      unfold skm_eu in Ee. rewrite Epr in Ee.
      destruct (Z.eqb_spec (eu_remaining e - 1) 0); cbn [negb] in Ee.
      - destruct (eu_runner e) as [[i pc]|]; discriminate.
      - injection Ee as <- <- <-. cbn [set_rem eu_processing eu_pending_read eu_remaining]. rewrite Hp, Epr. lia. }
    assert (Hsk : skm_eu e ebus1 pw dt (ev_la hev) =
              let '(e1, ebus1', have) := eu_intake e ebus1 in
              if negb have then (e1, ebus1', dt, ANone) else
              let rem := eu_remaining e1 - 1 in
              if negb (rem =? 0) then (set_rem e1 rem, ebus1', dt, ANone) else
              match eu_runner e1 with
              | None => (e1, ebus1', dt, AStuck)
              | Some (i, pc) =>
                  if pw_hazard pw (instr_ReadRegisters i) then (set_rem e1 1, ebus1', dt, ANone)
                  else match ev_la hev with
                       | _ :: _ =>
                           if snd (a_get_all dt (ev_la hev))
                           then (mk_eu (eu_processing e1) true (eu_addrs e1) (Some []) L1Access (eu_runner e1), ebus1',
                                 fst (a_get_all dt (ev_la hev)), ANone)
                           else (mk_eu (eu_processing e1) true (ev_la hev) (eu_memory e1) MemoryAccess (eu_runner e1), ebus1',
                                 fst (a_get_all dt (ev_la hev)), ANone)
                       | [] => (eu_done (set_rem e1 rem), ebus1', dt, AExec i pc)
                       end
              end) by (unfold skm_eu; rewrite Epr; reflexivity).
    rewrite Hsk in Ee. clear Hsk.
    destruct (eu_processing e) eqn:Ep.
    - (* the execute unit is counting down *)
      unfold eu_intake in Ee. rewrite Ep in Ee. cbn [negb] in Ee. destruct (Heu eq_refl) as [Hr Hrun].
      destruct (Z.eqb_spec (eu_remaining e - 1) 0); cbn [negb] in Ee.
      + destruct (eu_runner e) as [[i pc]|]; [|congruence].
        destruct (pw_hazard pw (instr_ReadRegisters i)) eqn:Ehz.
        * injection Ee as <- <- <-. cbn [set_rem eu_processing eu_pending_read eu_remaining]. rewrite Ep, Epr.
          subst pw. apply pwof_hazard in Ehz. destruct wb; [lia | congruence].
        * destruct (ev_la hev) as [|a0 la']; [discriminate|].
          destruct (snd (a_get_all dt (a0 :: la'))); injection Ee as <- <- <-;
            cbn [eu_processing eu_pending_read eu_remaining]; rewrite Ep; unfold L1Access, Rmax, MemoryAccess; destruct wb; lia.
      + injection Ee as <- <- <-. cbn [set_rem eu_processing eu_pending_read eu_remaining]. rewrite Ep, Epr. destruct wb; lia.
    - destruct ebus as [ep ec]. cbn [sb_current sb_pending] in *.
      destruct ec as [[i pc]|].
      + (* the head is in the execute bus, current slot *)
        unfold eu_intake, sbus_get in Ee. rewrite Ep, Hec in Ee. cbn [negb eu_remaining eu_runner eu_processing eu_addrs eu_memory] in Ee.
        pose proof (cyc_of_bounds i) as Hc.
        destruct (Z.eqb_spec (cyc_of i - 1) 0); cbn [negb] in Ee.
        * destruct (pw_hazard pw (instr_ReadRegisters i)).
          -- injection Ee as <- <- <-. cbn [set_rem eu_processing eu_pending_read eu_remaining]. unfold Cmax, Rmax, MemoryAccess. lia.
          -- destruct (ev_la hev) as [|a0 la']; [discriminate|].
             destruct (snd (a_get_all dt (a0 :: la'))); injection Ee as <- <- <-;
               cbn [eu_processing eu_pending_read eu_remaining]; unfold L1Access, Cmax, Rmax, MemoryAccess; lia.
        * injection Ee as <- <- <-. cbn [set_rem eu_processing eu_pending_read eu_remaining]. unfold Cmax, Rmax, MemoryAccess in *. lia.
      + assert (Ee' : skm_eu e ebus1 pw dt (ev_la hev) = (e1, ebus2, dt1, ANone)) by (unfold skm_eu; rewrite Epr; exact Ee).
        rewrite (skm_eu_idle_none e ebus1 pw dt _ Epr Ep Hec) in Ee'. injection Ee' as <- <- <-. rewrite Ep.
        cbn [sb_current sb_pending]. clear Ee.
        destruct ep as [x|].
        * destruct Hdu as [(_ & _ & ->) | (Hadd & _)]; [|discriminate]. cbn [sb_pending]. lia.
        * destruct dbus as [dp dc]. cbn [sb_current sb_pending] in *.
          destruct Hdu as [(Hadd & _) | (_ & -> & Hdu)]; [discriminate|]. cbn [sb_current sb_pending].
          destruct dc as [p|].
          -- destruct Hdu as [(Hc & _) | [(p' & Hc & Hout & ->) | (p' & i & Hc & _ & _ & ->)]].
             ++ congruence.
             ++ exfalso. rewrite Hcur in Hc. injection Hc as <-.
                assert (Hqd : q_sb dbus1 = p :: olist (sb_pending dbus1)) by (unfold q_sb; rewrite Hcur; reflexivity).
                rewrite Hqd in Hq1. destruct (fq_drop app (ev_pc hev) n1 _ p _ fu1 ltac:(lia) Hq1 Hout) as (Hr & Hcf & _).
                unfold skm_complete, after_nonem in Hnc. cbn [m_fu m_eu m_dbus m_ebus m_wb sb_pending sb_current sbus_is_empty] in Hnc.
                rewrite Hcf, Ep in Hnc. destruct (sb_pending dbus1); [discriminate|]. discriminate.
             ++ cbn [sbus_add sb_pending sb_current]. lia.
          -- destruct dp as [p|].
             ++ destruct Hfc as [(-> & _) | (_ & Hadd & _)]; [|discriminate].
                cbn [sb_pending]. destruct Hdu as [(_ & ->) | [(p' & Hc & _) | (p' & i & Hc & _)]]; try discriminate.
                cbn [sb_pending sb_current]. lia.
             ++ assert (Heb : ebus1 = mk_sbus None None).
                { destruct Hdu as [(_ & ->) | [(p' & Hc & _) | (p' & i & Hc & _)]]; [reflexivity| |]; rewrite Hcur in Hc; discriminate. }
                subst ebus1. cbn [sb_pending sb_current].
                destruct Hfc as [(-> & Hcc & Hphi) | (Hcf & _ & ->)]; cbn [sb_pending sb_current sbus_add].
                ** destruct (fu_complete f) eqn:Ecf.
                   { exfalso. unfold skm_complete, after_nonem in Hnc. cbn [m_fu m_eu m_dbus m_ebus m_wb sb_pending sb_current sbus_is_empty] in Hnc.
                     rewrite Hcc, Ep in Hnc. discriminate. }
                   specialize (Hphi eq_refl eq_refl). lia.
                ** lia.
  Qed.

  Lemma exec_count_cons ev path : exec_count app (ev :: path) =
    Nat.add (if ev_pc ev / 4 <? nlen app then 1%nat else 0%nat) (exec_count app path).
  Proof. unfold exec_count. cbn [filter]. destruct (ev_pc ev / 4 <? nlen app); reflexivity. Qed.

  Lemma exec_count_out ev : nlen app <= ev_pc ev / 4 -> exec_count app [ev] = 0%nat.
  Proof. intros H. rewrite exec_count_cons. destruct (Z.ltb_spec (ev_pc ev / 4) (nlen app)); [lia | reflexivity]. Qed.

  Theorem skm_progress hev rest a :
    FInvM app hev a -> evs_wf app (hev :: rest) -> sh_inv a (hev :: rest) ->
    match skm_cycle app a (hev :: rest) with
    | MStuck => False
    | MFin dc _ => (exec_count app (hev :: rest) <= 1)%nat
    | MStep a' path' _ => path' = rest \/ (path' = hev :: rest /\ phim a' < phim a)
    end.
  Proof.
    intros HF Hwf Hsh.
    assert (Hpre : match skm_pre app a (hev :: rest) with
                   | MStuck => False
                   | MFin _ _ => rest = []
                   | MStep a' path' _ => path' = rest \/
                       (path' = hev :: rest /\ (skm_complete a' = false -> phim a' < phim a))
                   end).
    { pose proof HF as [Hh [n Hq] Hent Hfu Heu Hpr Hmem Hmiss HI Hpw Hwb Hdtl].
      unfold qlistm in Hq. rewrite q_parts_alt in Hq.
      destruct (fu_cycle app (m_fu a) (m_l1i a) (m_dbus a)) as [[[fu1 l1i1] dbus1]| |] eqn:Ef.
      2,3: exfalso; destruct (fu_cycle_spec app (m_fu a) (m_l1i a) (m_dbus a) HI) as (? & ? & ? & E & _); [| assumption | congruence].
      2,3: intros Hc; rewrite (q_pc _ _ _ _ _ Hq Hc); pose proof (nlen_small app Happ); destruct n as [|n]; [lia | pose proof (q_in1 _ _ _ _ _ Hq ltac:(lia) Hc); lia].
      destruct (fq_fu app Happ (ev_pc hev) n _ _ _ _ _ _ _ Hh Hq HI Hfu Ef) as (HI1 & Hfu1 & [n1 Hq1] & Hcur & Hfc).
      assert (Hpos : forall p, sb_current dbus1 = Some p -> 0 <= p).
      { intros p Hp. apply (consec4_nonneg (ev_pc hev) n1); [lia|]. rewrite <- (q_eq _ _ _ _ _ Hq1).
        apply in_or_app. right. unfold q_sb. rewrite Hp. left. reflexivity. }
      destruct (du_cycle_spec app dbus1 (m_ebus a) Hpos) as (dbus2 & ebus1 & Ed & _).
      destruct (skm_eu (m_eu a) ebus1 (m_pw a) (m_dt a) (ev_la hev)) as [[[e1 ebus2] dt1] act] eqn:Ee.
      destruct act as [|i pc|].
      - rewrite (skm_pre_none hev rest a _ _ _ _ _ _ _ _ Ef Ed Ee).
        right. split; [reflexivity|]. intros Hnc. eapply nonem_phi; eassumption.
      - pose proof (skm_pre_exec hev rest a _ _ _ _ _ _ _ _ _ _ HF Hwf Hsh Ef Ed Ee) as H.
        destruct (skm_pre app a (hev :: rest)); auto.
      - destruct (frontm_flow hev a _ _ _ _ _ _ _ _ _ HF Ef Ed Ee) as (_ & _ & Hns & _). congruence. }
    unfold skm_cycle.
    destruct (skm_pre app a (hev :: rest)) as [a2 p dc|dc dt|] eqn:Ep; [| |contradiction].
    - destruct (finvm_step hev rest a a2 p dc HF Hwf Hsh Ep) as (hev' & rest' & -> & HF' & Hwf' & _ & _).
      destruct (skm_complete a2) eqn:Ec.
      + destruct (completem_exit hev' rest' a2 HF' Ec Hwf') as [-> Hout].
        destruct Hpre as [Hp | [Hp _]].
        * subst rest. rewrite exec_count_cons, (exec_count_out hev' Hout). destruct (_ <? _); lia.
        * injection Hp as -> <-. rewrite (exec_count_out hev Hout). lia.
      + destruct Hpre as [Hp | [Hp Hphi]]; [left; exact Hp | right; split; [exact Hp | apply Hphi; reflexivity]].
    - subst rest. rewrite exec_count_cons. unfold exec_count. cbn [filter length]. destruct (_ <? _); lia.
  Qed.

  Lemma skm_cycle_dc a path :
    match skm_cycle app a path with
    | MFin dc _ => dc = 1 \/ dc = 2
    | MStep _ _ dc => dc = 1 \/ dc = 2
    | MStuck => True
    end.
  Proof.
    assert (Hpre : match skm_pre app a path with
                   | MFin dc _ => dc = 1
                   | MStep _ _ dc => dc = 1 \/ dc = 2
                   | MStuck => True
                   end).
    { unfold skm_pre.
      destruct (fu_cycle app (m_fu a) (m_l1i a) (m_dbus a)) as [[[fu1 l1i1] dbus1]| |]; try exact I.
      destruct (du_cycle app dbus1 (m_ebus a)) as [[dbus2 ebus1]| |]; try exact I.
      destruct (skm_eu (m_eu a) ebus1 (m_pw a) (m_dt a) _) as [[[e1 ebus2] dt1] act].
      destruct act as [|i pc|]; try exact I; auto.
      destruct path as [|ev rest]; try exact I. destruct (negb (ev_pc ev =? pc)); try exact I.
      destruct (is_ret i); [destruct rest; auto|]. destruct rest as [|nxt r]; try exact I.
      destruct (ev_sa ev).
      - destruct (sk_flush i pc (ev_pc nxt)); auto.
      - destruct (_ && _); auto. }
    unfold skm_cycle. destruct (skm_pre app a path) as [a2 p dc|dc dt|]; auto.
    destruct (skm_complete a2); auto.
  Qed.

  Lemma skm_cycle_fin_dt hev rest a dc dt :
    FInvM app hev a -> evs_wf app (hev :: rest) -> sh_inv a (hev :: rest) ->
    skm_cycle app a (hev :: rest) = MFin dc dt -> zlen dt <= 16.
  Proof.
    intros HF Hwf Hsh H. unfold skm_cycle in H.
    destruct (skm_pre app a (hev :: rest)) as [a2 p d|d t|] eqn:Ep; [| |discriminate].
    - destruct (finvm_step hev rest a a2 p d HF Hwf Hsh Ep) as (hev' & rest' & _ & HF' & _).
      destruct (skm_complete a2); [|discriminate]. injection H as _ <-. exact (fm_dt _ _ _ HF').
    - injection H as _ <-. unfold skm_pre in Ep.
      destruct (fu_cycle app (m_fu a) (m_l1i a) (m_dbus a)) as [[[fu1 l1i1] dbus1]| |]; try discriminate.
      destruct (du_cycle app dbus1 (m_ebus a)) as [[dbus2 ebus1]| |]; try discriminate.
      destruct (skm_eu (m_eu a) ebus1 (m_pw a) (m_dt a) (ev_la hev)) as [[[e1 ebus2] dt1] act] eqn:Ee.
      pose proof (skm_eu_dt_len _ _ _ _ _ _ _ _ _ (fm_dt _ _ _ HF) Ee) as Hl.
      destruct act as [|i pc|]; try discriminate.
      destruct (negb (ev_pc hev =? pc)); try discriminate.
      destruct (is_ret i).
      + destruct rest; [injection Ep as _ <-; exact Hl | discriminate].
      + destruct rest as [|nxt r]; try discriminate. destruct (ev_sa hev).
        * destruct (sk_flush i pc (ev_pc nxt)); discriminate.
        * destruct (_ && _); discriminate.
  Qed.

  Definition Kstepm : nat := S (Z.to_nat phim_max).

  Lemma skm_run_term : forall (m : nat) rest a hev cyc fuel,
    FInvM app hev a -> evs_wf app (hev :: rest) -> sh_inv a (hev :: rest) ->
    (Z.to_nat (phim a) + length rest * Kstepm <= m)%nat -> (m < fuel)%nat ->
    exists c, skm_run fuel app a (hev :: rest) cyc = Some c /\
              cyc + Z.of_nat (exec_count app (hev :: rest)) <= c <= cyc + 2 * (Z.of_nat m + 1) + MemoryAccess * 16.
  Proof.
    induction m as [m IH] using lt_wf_ind. intros rest a hev cyc fuel HF Hwf Hsh Hm Hfuel.
    destruct fuel as [|f]; [lia|]. cbn [skm_run].
    pose proof (skm_progress hev rest a HF Hwf Hsh) as Hp.
    pose proof (skm_cycle_dc a (hev :: rest)) as Hdc.
    pose proof (phim_bounds hev a HF) as Hphi.
    destruct (skm_cycle app a (hev :: rest)) as [a' path' dc|dc dt|] eqn:Ec; [| |contradiction].
    - assert (Epre : skm_pre app a (hev :: rest) = MStep a' path' dc).
      { unfold skm_cycle in Ec. destruct (skm_pre app a (hev :: rest)) as [a2 p d|d t|]; try discriminate.
        destruct (skm_complete a2); [discriminate | exact Ec]. }
      destruct (finvm_step hev rest a a' path' dc HF Hwf Hsh Epre) as (hev' & rest' & -> & HF' & Hwf' & Hsh' & _).
      pose proof (phim_bounds hev' a' HF') as Hphi'.
      destruct Hp as [Hp | [Hp Hlt]].
      + subst rest. cbn [length] in Hm.
        assert (Hk : (S (length rest') * Kstepm = Kstepm + length rest' * Kstepm)%nat) by reflexivity.
        assert (Hm1 : (1 <= m)%nat) by (unfold Kstepm in *; lia).
        assert (Hm' : (Z.to_nat (phim a') + length rest' * Kstepm <= m - 1)%nat) by (unfold Kstepm in *; lia).
        destruct (IH (m - 1)%nat ltac:(lia) rest' a' hev' (cyc + dc) f HF' Hwf' Hsh' Hm' ltac:(lia)) as (c & Hc & Hb).
        exists c. split; [exact Hc|]. rewrite (exec_count_cons hev). destruct (_ <? _); lia.
      + injection Hp as -> ->.
        assert (Hm' : (Z.to_nat (phim a') + length rest * Kstepm <= m - 1)%nat) by lia.
        destruct (IH (m - 1)%nat ltac:(lia) rest a' hev (cyc + dc) f HF' Hwf' Hsh' Hm' ltac:(lia)) as (c & Hc & Hb).
        exists c. split; [exact Hc|]. lia.
    - pose proof (skm_cycle_fin_dt hev rest a dc dt HF Hwf Hsh Ec) as Hdl.
      eexists. split; [reflexivity|]. assert (0 <= MemoryAccess * zlen dt <= MemoryAccess * 16) by (unfold MemoryAccess, zlen in *; lia). lia.
  Qed.
End FrontM.
