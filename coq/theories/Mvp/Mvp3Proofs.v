(* Proofs about the MVP-3 model (Mvp3.v): the sequential core with LRU L1I and
   L1D caches computes the sequential architectural result, every load sees the
   most recent store, and after the final flush nothing is left behind in the
   cache (C01/C05 for MVP-3), without panic and within the fuel of the
   sequential machine (C07); the cycle count is cost3, a function of the
   program and of the sequence of (pc, loaded addresses, stored addresses)
   only (C12).  Hypotheses on the SEQUENTIAL run: accesses_ok (no access
   straddles a 64-byte line - refuted without it at the end of the file) and
   mem_small (at most 2^31 - 64 bytes of memory).

   The L1D is reasoned about through the reference cache of Comp/CacheSpec.v
   (scache: resident map + recency list) using the per-operation refinement
   step_refines of Comp/CacheProofs.v.  The invariant of the induction is
       the byte seen through the cache  =  the byte of the sequential memory
   (lm below), for every address of the memory. *)
From Coq Require Import ZArith List Bool Lia.
From Maj Require Import Base.Outcome Base.GoInt Base.GoTypes Isa.Spec Isa.Embed Isa.Seq.
From Maj Require Import Gen.Latency Gen.RiscTables Gen.BytesGo Gen.Opcodes Bytes.Proofs Isa.Refine.
From Maj Require Import Comp.Cache Comp.Lru Comp.CacheSpec Comp.MapFacts Comp.CacheProofs.
From Maj Require Import Mvp.Mvp12 Mvp.Mvp12Proofs Mvp.Mvp3.
Import ListNotations.
Open Scope Z_scope.

(* ------------------------------------------------------------------ *)
(* flat memory: mget / mset / mset_all                                  *)

Lemma supd_length {A} (l : list A) n v : length (Seq.upd l n v) = length l.
Proof. revert n. induction l; intros [|n]; simpl; auto. Qed.

Lemma supd_nth_eq {A} (l : list A) n v d : (n < length l)%nat -> nth n (Seq.upd l n v) d = v.
Proof. revert n. induction l; intros [|n] H; simpl in *; try lia; auto. apply IHl. lia. Qed.

Lemma supd_nth_neq {A} (l : list A) n m v d : n <> m -> nth m (Seq.upd l n v) d = nth m l d.
Proof. revert n m. induction l; intros [|n] [|m] H; simpl; auto; try congruence. Qed.

Lemma mset_length m a v : length (mset m a v) = length m.
Proof. apply supd_length. Qed.

Lemma mget_mset m a v x : 0 <= a < zlen m -> 0 <= x ->
  mget (mset m a v) x = if x =? a then v else mget m x.
Proof.
  intros Ha Hx. unfold mget, mset, zlen in *. destruct (Z.eqb_spec x a) as [->|Hne].
  - apply supd_nth_eq. lia.
  - apply supd_nth_neq. lia.
Qed.

Lemma mset_all_length bs : forall m, length (mset_all m bs) = length m.
Proof. induction bs as [|[a v] t IH]; intros m; cbn [mset_all]; [reflexivity|]. rewrite IH. apply mset_length. Qed.

(* the stores of one instruction, as a function update *)
Fixpoint apply_changes (bs : list (Z * Z)) (f : Z -> Z) : Z -> Z :=
  match bs with
  | [] => f
  | (a, v) :: t => apply_changes t (fun x => if x =? a then v else f x)
  end.

Lemma mget_mset_all bs : forall m x, 0 <= x ->
  forallb (in_mem m) (map fst bs) = true ->
  mget (mset_all m bs) x = apply_changes bs (mget m) x.
Proof.
  induction bs as [|[a v] t IH]; intros m x Hx Hb; cbn [mset_all apply_changes]; [reflexivity|].
  cbn [map fst forallb] in Hb. apply andb_prop in Hb. destruct Hb as [Ha Ht].
  unfold in_mem in Ha. apply andb_prop in Ha. destruct Ha as [A1 A2]. apply Z.leb_le in A1. apply Z.ltb_lt in A2.
  rewrite IH; auto.
  - assert (G : forall f g, (forall y, 0 <= y -> f y = g y) -> forall y, 0 <= y -> apply_changes t f y = apply_changes t g y).
    { clear. induction t as [|[a' v'] t IH]; intros f g H y Hy; cbn [apply_changes]; [auto|].
      apply IH; auto. intros z Hz. rewrite H by auto. reflexivity. }
    apply G; auto. intros y Hy. apply mget_mset; auto; unfold zlen; lia.
  - rewrite forallb_forall in *. intros y Hy. specialize (Ht y Hy). unfold in_mem in *. rewrite mset_length. exact Ht.
Qed.

Lemma apply_changes_ext bs : forall f g x, f x = g x -> apply_changes bs f x = apply_changes bs g x.
Proof.
  induction bs as [|[a v] t IH]; intros f g x H; cbn [apply_changes]; [exact H|].
  apply IH. rewrite H. reflexivity.
Qed.

Lemma apply_changes_notin bs : forall f x, ~ In x (map fst bs) -> apply_changes bs f x = f x.
Proof.
  induction bs as [|[a v] t IH]; intros f x H; cbn [apply_changes]; [reflexivity|].
  cbn [map fst In] in H. rewrite IH by tauto. destruct (Z.eqb_spec x a); [subst; tauto | reflexivity].
Qed.

Lemma apply_changes_in bs : forall f g x, In x (map fst bs) -> apply_changes bs f x = apply_changes bs g x.
Proof.
  induction bs as [|[a v] t IH]; intros f g x H; cbn [apply_changes]; [destruct H|].
  cbn [map fst In] in H. destruct (Z.eq_dec a x) as [->|Hne].
  - apply apply_changes_ext. rewrite Z.eqb_refl. reflexivity.
  - apply IH. tauto.
Qed.

(* consecutive addresses a, a+1, ..., a+n-1 *)
Definition consec (a : Z) (n : nat) : list Z := map (fun i => a + Z.of_nat i) (seq 0 n).

Lemma consec_S a n : consec a (S n) = a :: consec (a + 1) n.
Proof.
  unfold consec. cbn [seq map]. rewrite Z.add_0_r. f_equal.
  rewrite <- seq_shift, map_map. apply map_ext. intros i. lia.
Qed.

Lemma consec_length a n : length (consec a n) = n.
Proof. unfold consec. rewrite map_length, seq_length. reflexivity. Qed.

Lemma in_consec a n x : In x (consec a n) <-> a <= x < a + Z.of_nat n.
Proof.
  unfold consec. rewrite in_map_iff. split.
  - intros (i & <- & Hi). apply in_seq in Hi. lia.
  - intros H. exists (Z.to_nat (x - a)). split; [lia|]. apply in_seq. lia.
Qed.

Lemma apply_changes_consec bs : forall a f x, map fst bs = consec a (length bs) ->
  apply_changes bs f x =
  if (a <=? x) && (x <? a + zlen bs) then nth (Z.to_nat (x - a)) (map snd bs) 0 else f x.
Proof.
  induction bs as [|[a' v] t IH]; intros a f x H; cbn [apply_changes].
  - unfold zlen. cbn [length]. destruct (Z.leb_spec a x), (Z.ltb_spec x (a + Z.of_nat 0)); simpl; auto; lia.
  - cbn [length] in H. rewrite consec_S in H. cbn [map fst] in H. injection H as -> Ht.
    rewrite (IH (a + 1)) by exact Ht. unfold zlen. cbn [length map snd].
    destruct (Z.leb_spec (a + 1) x), (Z.ltb_spec x (a + 1 + Z.of_nat (length t))),
             (Z.leb_spec a x), (Z.ltb_spec x (a + Z.of_nat (S (length t)))); cbn [andb]; try lia.
    + replace (Z.to_nat (x - a)) with (S (Z.to_nat (x - (a + 1)))) by lia. reflexivity.
    + destruct (Z.eqb_spec x a); [lia | reflexivity].
    + destruct (Z.eqb_spec x a); [|lia]. subst. rewrite Z.sub_diag. reflexivity.
    + destruct (Z.eqb_spec x a); [lia | reflexivity].
Qed.

(* ------------------------------------------------------------------ *)
(* write_to_memory, flush_lines, fetch_cache_line                       *)

Lemma write_to_memory_ok d : forall m b, 0 <= b ->
  exists m', write_to_memory m b d = Ok m' /\ length m' = length m /\
    forall x, 0 <= x < zlen m ->
      mget m' x = if (b <=? x) && (x <? b + zlen d) then nth (Z.to_nat (x - b)) d 0 else mget m x.
Proof.
  induction d as [|v t IH]; intros m b Hb; cbn [write_to_memory].
  - exists m. repeat split; auto. intros x Hx. unfold zlen. cbn [length].
    destruct (Z.leb_spec b x), (Z.ltb_spec x (b + Z.of_nat 0)); simpl; auto; lia.
  - destruct (Z.leb_spec (Z.of_nat (length m)) b) as [Hge|Hlt].
    + exists m. repeat split; auto. intros x Hx. unfold zlen in *.
      destruct (Z.leb_spec b x), (Z.ltb_spec x (b + Z.of_nat (length (v :: t)))); simpl; auto; lia.
    + destruct (Z.ltb_spec b 0); [lia|].
      destruct (IH (mset m b v) (b + 1) ltac:(lia)) as (m' & E & Hl & Hv).
      exists m'. split; [exact E|]. split; [rewrite Hl; apply mset_length|].
      intros x Hx. rewrite Hv by (unfold zlen in *; rewrite mset_length; lia).
      rewrite mget_mset by (unfold zlen in *; lia). unfold zlen. cbn [length].
      destruct (Z.leb_spec (b + 1) x), (Z.ltb_spec x (b + 1 + Z.of_nat (length t))),
               (Z.leb_spec b x), (Z.ltb_spec x (b + Z.of_nat (S (length t)))); cbn [andb]; try lia.
      * replace (Z.to_nat (x - b)) with (S (Z.to_nat (x - (b + 1)))) by lia. reflexivity.
      * destruct (Z.eqb_spec x b); [lia | reflexivity].
      * destruct (Z.eqb_spec x b); [|lia]. subst. rewrite Z.sub_diag. reflexivity.
      * destruct (Z.eqb_spec x b); [lia | reflexivity].
Qed.

Definition lcovers (l : line) (x : Z) : Prop := lo l <= x < lo l + zlen (data l).

Lemma flush_lines_ok ls : forall m cyc, Forall (fun l => 0 <= lo l) ls ->
  exists m', flush_lines ls m cyc = Ok (m', cyc + MemoryAccess * zlen ls) /\ length m' = length m /\
    forall x, 0 <= x < zlen m ->
      (exists l, In l ls /\ lcovers l x /\ mget m' x = byte_at (data l) (x - lo l)) \/
      ((forall l, In l ls -> ~ lcovers l x) /\ mget m' x = mget m x).
Proof.
  induction ls as [|l t IH]; intros m cyc Hf; cbn [flush_lines].
  - exists m. split; [unfold zlen; cbn [length]; f_equal; f_equal; lia|]. split; [reflexivity|].
    intros x Hx. right. split; auto.
  - inversion Hf as [|? ? Hl Ht]; subst.
    destruct (write_to_memory_ok (data l) m (lo l) Hl) as (m1 & E1 & L1 & V1). rewrite E1. cbn [bind].
    destruct (IH m1 (cyc + MemoryAccess) Ht) as (m' & E & L & V). rewrite E.
    exists m'. split; [unfold zlen; cbn [length]; f_equal; f_equal; lia|]. split; [congruence|].
    intros x Hx. assert (Hx1 : 0 <= x < zlen m1) by (unfold zlen in *; rewrite L1; exact Hx).
    destruct (V x Hx1) as [(l' & Hin & Hc & Hv)|[Hn Hv]].
    + left. exists l'. split; [right; exact Hin|]. auto.
    + rewrite V1 in Hv by exact Hx.
      destruct (Z.leb_spec (lo l) x), (Z.ltb_spec x (lo l + zlen (data l))); cbn [andb] in Hv.
      * left. exists l. split; [left; reflexivity|]. split; [unfold lcovers; lia | exact Hv].
      * right. split; [|exact Hv]. intros l' [<-|Hin]; [unfold lcovers; lia | auto].
      * right. split; [|exact Hv]. intros l' [<-|Hin]; [unfold lcovers; lia | auto].
      * right. split; [|exact Hv]. intros l' [<-|Hin]; [unfold lcovers; lia | auto].
Qed.

Lemma nth_map_seq (f : nat -> Z) n k : (k < n)%nat -> nth k (map f (seq 0 n)) 0 = f k.
Proof.
  intros Hk. rewrite (nth_indep _ 0 (f 0%nat)) by (rewrite map_length, seq_length; lia).
  rewrite map_nth. rewrite seq_nth by lia. reflexivity.
Qed.

Lemma line_base a : 0 <= a < 2147483584 ->
  subS 32 a (remS 32 a l1LineSize) = a - a mod 64.
Proof.
  intros H. unfold subS, remS, l1LineSize. rewrite Z.rem_mod_nonneg by lia.
  apply wrapS_id; [lia|]. apply int32_bounds. lia.
Qed.

Lemma fetch_cache_line_ok m a : 0 <= a < 2147483584 ->
  exists ln, fetch_cache_line m a = Ok ln /\ zlen ln = 64 /\
    forall j, 0 <= j < 64 -> a - a mod 64 + j < zlen m -> byte_at ln j = mget m (a - a mod 64 + j).
Proof.
  intros H. unfold fetch_cache_line. rewrite (line_base a H).
  destruct (Z.ltb_spec (a - a mod 64) 0); [lia|].
  eexists. split; [reflexivity|]. split.
  - unfold zlen. rewrite map_length, seq_length. reflexivity.
  - intros j Hj Hlt. unfold byte_at. rewrite nth_map_seq by (unfold l1LineSize; lia).
    rewrite Z2Nat.id by lia. unfold zlen in Hlt.
    destruct (Z.ltb_spec (a - a mod 64 + j) (Z.of_nat (length m))); [|lia]. reflexivity.
Qed.

(* ------------------------------------------------------------------ *)
(* the byte view of the reference cache under its operations            *)

Lemma view_none sc a : view sc a = None -> forall b, In b (s_rec sc) -> covers (s_len sc) a b = false.
Proof.
  unfold view, s_cover. destruct (find (covers (s_len sc) a) (s_rec sc)) eqn:E; [discriminate|].
  intros _ b Hb. eapply find_none in E; eauto.
Qed.

Lemma view_none_intro sc a : (forall b, In b (s_rec sc) -> covers (s_len sc) a b = false) -> view sc a = None.
Proof.
  intros H. unfold view, s_cover. destruct (find (covers (s_len sc) a) (s_rec sc)) eqn:E; [|reflexivity].
  apply find_some in E. destruct E as [Hin Hc]. rewrite (H _ Hin) in Hc. discriminate.
Qed.

Lemma view_ext sc sc' : SInv sc -> SInv sc' -> s_len sc' = s_len sc ->
  (forall b, In b (s_rec sc') <-> In b (s_rec sc)) ->
  (forall b, In b (s_rec sc) -> s_data sc' b = s_data sc b) ->
  forall a, view sc' a = view sc a.
Proof.
  intros Hs Hs' HL Hrec Hdat a. destruct (view sc a) as [v|] eqn:E.
  - apply view_some in E. destruct E as (b & Hin & Hc & ->).
    rewrite <- (Hdat b Hin). apply view_in_S; auto; [apply Hrec; auto|]. rewrite HL. apply covers_spec; auto.
  - apply view_none_intro. intros b Hb. rewrite HL. apply (view_none sc a E). apply Hrec; auto.
Qed.

Lemma view_get sc a x : SInv sc -> SInv (fst (s_step sc (OGet a))) ->
  view (fst (s_step sc (OGet a))) x = view sc x.
Proof.
  intros Hs Hs'. cbn [s_step] in *. destruct (s_cover sc a) as [b|] eqn:E; cbn [fst] in *; [|reflexivity].
  apply s_cover_some in E. destruct E as [Hin _].
  apply view_ext; auto.
  intros b'. cbn [touch with_rec s_rec]. split.
  - intros [<-|H]; auto. eapply in_remove_first; eauto.
  - intros H. destruct (Z.eq_dec b' b) as [->|Hne]; [left; auto | right; apply in_remove_first_neq; auto].
Qed.

Lemma view_insert sc b d x : SInv sc -> push_ok sc b d = true ->
  view (s_insert sc b d) x = if covers (s_len sc) x b then Some (byte_at d (x - b)) else view sc x.
Proof.
  intros Hs Hp. pose proof (SInv_insert _ _ _ Hs Hp) as Hs1.
  destruct (covers (s_len sc) x b) eqn:Ec.
  - rewrite (view_in_S _ x b Hs1); [|left; reflexivity | apply covers_spec; exact Ec].
    rewrite s_data_insert, Z.eqb_refl. reflexivity.
  - destruct (view sc x) as [v|] eqn:E.
    + apply view_some in E. destruct E as (b' & Hin & Hc & ->).
      rewrite (view_in_S _ x b' Hs1); [|right; exact Hin | apply covers_spec; exact Hc].
      rewrite s_data_insert. destruct (Z.eqb_spec b b'); [subst; congruence | reflexivity].
    + apply view_none_intro. cbn [s_insert s_rec s_len]. intros r [<-|Hr]; [exact Ec|].
      apply (view_none sc x E r Hr).
Qed.

Lemma view_drop sc v x : SInv sc -> SInv (s_drop sc v) -> In v (s_rec sc) ->
  view (s_drop sc v) x = if covers (s_len sc) x v then None else view sc x.
Proof.
  intros Hs Hs2 Hvin. pose proof Hs as [HL HN Hnd Hsep Hlen Hd].
  destruct (NoDup_remove_first v _ Hnd) as [_ Hv].
  destruct (covers (s_len sc) x v) eqn:Ec.
  - apply view_none_intro. cbn [s_drop s_rec s_len]. intros r Hr.
    assert (r <> v) by (intros ->; tauto). apply in_remove_first in Hr.
    destruct (covers (s_len sc) x r) eqn:Er; [|reflexivity]. exfalso.
    apply covers_spec in Ec, Er.
    destruct (Hsep r v Hr Hvin) as [?|[?|?]]; [congruence | lia | lia].
  - destruct (view sc x) as [w|] eqn:E.
    + apply view_some in E. destruct E as (b' & Hin & Hc & ->).
      assert (b' <> v) by (intros ->; congruence).
      rewrite (view_in_S _ x b' Hs2); [| cbn [s_drop s_rec]; apply in_remove_first_neq; auto
                                       | cbn [s_drop s_len]; apply covers_spec; exact Hc].
      rewrite s_data_drop by auto. reflexivity.
    + apply view_none_intro. cbn [s_drop s_rec s_len]. intros r Hr. apply in_remove_first in Hr.
      apply (view_none sc x E r Hr).
Qed.

Lemma s_data_write sc b d b' :
  s_data (with_map sc (m_set b d (s_map sc))) b' = if b =? b' then d else s_data sc b'.
Proof. unfold s_data, with_map. cbn [s_map]. rewrite m_get_set. now destruct (b =? b'). Qed.

Lemma view_write sc a0 vs b x : SInv sc ->
  SInv (with_map sc (m_set b (splice (s_data sc b) (Z.to_nat (a0 - b)) vs) (s_map sc))) ->
  s_cover sc a0 = Some b -> a0 + zlen vs <= b + s_len sc ->
  view (with_map sc (m_set b (splice (s_data sc b) (Z.to_nat (a0 - b)) vs) (s_map sc))) x =
  if (a0 <=? x) && (x <? a0 + zlen vs) then Some (nth (Z.to_nat (x - a0)) vs 0) else view sc x.
Proof.
  intros Hs Hs2 Hcov Hfit. pose proof Hs as [HL HN Hnd Hsep Hlen Hd].
  apply s_cover_some in Hcov. destruct Hcov as [Hbin Hbc]. apply covers_spec in Hbc.
  pose proof (Hd b Hbin) as Hdb. pose proof (zlen_nonneg vs) as Hz.
  set (sc2 := with_map sc (m_set b (splice (s_data sc b) (Z.to_nat (a0 - b)) vs) (s_map sc))) in *.
  assert (Hspl : forall y, b <= y < b + s_len sc ->
            byte_at (splice (s_data sc b) (Z.to_nat (a0 - b)) vs) (y - b) =
            if (a0 <=? y) && (y <? a0 + zlen vs) then nth (Z.to_nat (y - a0)) vs 0 else byte_at (s_data sc b) (y - b)).
  { intros y Hy. unfold byte_at. rewrite splice_nth by (unfold zlen in *; lia).
    destruct (Z.leb_spec a0 y), (Z.ltb_spec y (a0 + zlen vs)); cbn [andb].
    - replace ((Z.to_nat (a0 - b) <=? Z.to_nat (y - b))%nat) with true by (symmetry; apply Nat.leb_le; lia).
      replace ((Z.to_nat (y - b) <? Z.to_nat (a0 - b) + length vs)%nat) with true
        by (symmetry; apply Nat.ltb_lt; unfold zlen in *; lia).
      cbn [andb]. f_equal. lia.
    - replace ((Z.to_nat (y - b) <? Z.to_nat (a0 - b) + length vs)%nat) with false
        by (symmetry; apply Nat.ltb_ge; unfold zlen in *; lia).
      rewrite andb_false_r. reflexivity.
    - replace ((Z.to_nat (a0 - b) <=? Z.to_nat (y - b))%nat) with false by (symmetry; apply Nat.leb_gt; lia).
      reflexivity.
    - replace ((Z.to_nat (a0 - b) <=? Z.to_nat (y - b))%nat) with false by (symmetry; apply Nat.leb_gt; lia).
      reflexivity. }
  destruct (view sc x) as [w|] eqn:E.
  - apply view_some in E. destruct E as (b' & Hin & Hc & ->).
    rewrite (view_in_S sc2 x b' Hs2); [| exact Hin | apply covers_spec; exact Hc].
    unfold sc2. rewrite s_data_write. destruct (Z.eqb_spec b b') as [<-|Hne].
    + apply covers_spec in Hc. rewrite Hspl by exact Hc.
      destruct ((a0 <=? x) && (x <? a0 + zlen vs)); reflexivity.
    + destruct (Z.leb_spec a0 x), (Z.ltb_spec x (a0 + zlen vs)); cbn [andb]; try reflexivity.
      exfalso. apply Hne. apply (sep_cover_unique (s_len sc) (s_rec sc) x); auto; [lia|].
      apply covers_spec. lia.
  - assert (Hn : view sc2 x = None).
    { apply view_none_intro. intros r Hr. apply (view_none sc x E r Hr). }
    rewrite Hn. destruct (Z.leb_spec a0 x), (Z.ltb_spec x (a0 + zlen vs)); cbn [andb]; try reflexivity.
    exfalso. pose proof (view_none sc x E b Hbin) as Hc.
    assert (covers (s_len sc) x b = true) by (apply covers_spec; lia). congruence.
Qed.

(* the memory as seen through the cache *)
Definition lm (sc : scache) (m : list Z) (x : Z) : Z :=
  match view sc x with Some v => v | None => mget m x end.

(* ------------------------------------------------------------------ *)
(* the L1D: invariant and operations                                    *)

Record DInv (c : cache) (sc : scache) : Prop := mkD {
  d_I : Inv c;
  d_R : R c sc;
  d_cap : s_cap sc = 16;
  d_len : s_len sc = 64;
  d_al : forall b, In b (s_rec sc) -> b mod 64 = 0 /\ 0 <= b;     (* aligned lines *)
  d_cnt : zlen (s_rec sc) <= 16                                   (* no eviction pending *)
}.

Lemma DInv_S c sc : DInv c sc -> SInv sc.
Proof. intros H. eapply R_SInv; apply H. Qed.

(* the recency list of the L1D as a function of the accessed addresses only
   (no data): what decides hits, misses and evictions - and so the cycles *)
Definition a_get (r : list Z) (a : Z) : list Z * bool :=
  match find (covers 64 a) r with
  | Some b => (b :: remove_first b r, true)
  | None => (r, false)
  end.

Fixpoint a_get_all (r : list Z) (addrs : list Z) : list Z * bool :=
  match addrs with
  | [] => (r, true)
  | a :: t => if snd (a_get r a) then a_get_all (fst (a_get r a)) t else (fst (a_get r a), false)
  end.

Definition a_fill (r : list Z) (a0 : Z) : list Z :=
  let r1 := (a0 - a0 mod 64) :: r in
  if zlen r1 >? 16 then remove_first (last r1 0) r1 else r1.

Definition is_some {A} (o : option A) : bool := match o with Some _ => true | None => false end.

Lemma get_ok c sc a : DInv c sc ->
  exists c' sc', get c a = Ok (c', view sc a) /\ DInv c' sc' /\ (forall x, view sc' x = view sc x) /\
    s_rec sc' = fst (a_get (s_rec sc) a) /\ is_some (view sc a) = snd (a_get (s_rec sc) a).
Proof.
  intros HD. pose proof (DInv_S _ _ HD) as Hs. destruct HD as [Hi Hr Hcap Hlen Hal Hcnt].
  destruct (step_get c sc a Hi Hr) as (c' & E & Hi' & Hr').
  cbn [Cache.step] in E. destruct (get c a) as [[c1 r]| |]; cbn [bind] in E; try discriminate.
  rewrite get_out_view in E. injection E as -> ->.
  exists c', (fst (s_step sc (OGet a))). split; [reflexivity|].
  pose proof (R_SInv _ _ Hi' Hr') as Hs'.
  assert (Hag : s_rec (fst (s_step sc (OGet a))) = fst (a_get (s_rec sc) a) /\
                is_some (view sc a) = snd (a_get (s_rec sc) a)).
  { cbn [s_step]. unfold view, s_cover, a_get. rewrite Hlen.
    destruct (find (covers 64 a) (s_rec sc)); split; reflexivity. }
  split; [|split; [intros x; apply view_get; auto | exact Hag]].
  destruct (s_step_geom sc (OGet a)) as [G1 G2].
  constructor; auto; try congruence.
  - cbn [s_step]. destruct (s_cover sc a) as [b|] eqn:Ec; cbn [fst]; auto.
    apply s_cover_some in Ec. destruct Ec as [Hin _].
    cbn [touch with_rec s_rec]. intros b' [<-|H]; [auto|]. apply Hal. eapply in_remove_first; eauto.
  - cbn [s_step]. destruct (s_cover sc a) as [b|] eqn:Ec; cbn [fst]; auto.
    apply s_cover_some in Ec. destruct Ec as [Hin _].
    cbn [touch with_rec s_rec]. rewrite zlen_cons, length_remove_first by auto. lia.
Qed.

Definition vget (sc : scache) (a : Z) : Z := match view sc a with Some v => v | None => 0 end.

Lemma get_all_ok sc0 addrs : forall c sc acc, DInv c sc -> (forall x, view sc x = view sc0 x) ->
  exists c' sc', get_all c addrs acc =
      Ok (c', if forallb (fun a => is_some (view sc0 a)) addrs
              then Some (rev acc ++ map (vget sc0) addrs) else None) /\
    DInv c' sc' /\ (forall x, view sc' x = view sc0 x) /\
    s_rec sc' = fst (a_get_all (s_rec sc) addrs) /\
    forallb (fun a => is_some (view sc0 a)) addrs = snd (a_get_all (s_rec sc) addrs).
Proof.
  induction addrs as [|a t IH]; intros c sc acc HD Hv; cbn [get_all forallb map a_get_all].
  - exists c, sc. rewrite app_nil_r. auto.
  - destruct (get_ok c sc a HD) as (c1 & sc1 & E & HD1 & Hv1 & Hr1 & Hh1). rewrite E. cbn [bind].
    rewrite <- Hh1. rewrite Hv.
    destruct (view sc0 a) as [v|] eqn:Ea; cbn [is_some andb].
    + destruct (IH c1 sc1 (v :: acc) HD1) as (c' & sc' & E' & HD' & Hv' & Hr' & Hh').
      { intros x. rewrite Hv1. apply Hv. }
      exists c', sc'. rewrite <- Hr1. split; [|auto]. rewrite E'. cbn [rev]. rewrite <- app_assoc. cbn [app].
      replace (vget sc0 a) with v by (unfold vget; rewrite Ea; reflexivity). reflexivity.
    + exists c1, sc1. split; [reflexivity|]. split; auto. split; [intros x; rewrite Hv1; apply Hv|]. auto.
Qed.

(* aligned lines: which line covers an address *)
Lemma aligned_covers b x : b mod 64 = 0 -> (covers 64 x b = true <-> b = x - x mod 64).
Proof. intros Hb. rewrite covers_spec. split; intros H; lia. Qed.

Lemma same_line_view c sc a a' : DInv c sc -> a / 64 = a' / 64 -> view sc a <> None -> view sc a' <> None.
Proof.
  intros HD Heq Hv. pose proof (DInv_S _ _ HD) as Hs. destruct (view sc a) as [v|] eqn:E; [|congruence].
  apply view_some in E. destruct E as (b & Hin & Hc & _). rewrite (d_len _ _ HD) in Hc.
  destruct (d_al _ _ HD b Hin) as [Hal _]. apply aligned_covers in Hc; auto.
  rewrite (view_in_S sc a' b Hs Hin); [discriminate|]. rewrite (d_len _ _ HD). lia.
Qed.

(* a miss: fetch the aligned line, insert it, write the victim back and drop it *)
Lemma fill_ok c sc m a0 : DInv c sc -> 0 <= a0 < zlen m -> zlen m <= 2147483584 -> view sc a0 = None ->
  exists ln c2 sc2 m2, fetch_cache_line m a0 = Ok ln /\ push_line_to_l1d c m a0 ln = Ok (c2, m2) /\
    DInv c2 sc2 /\ length m2 = length m /\
    (forall x, 0 <= x < zlen m -> lm sc2 m2 x = lm sc m x) /\
    (forall x, a0 - a0 mod 64 <= x < a0 - a0 mod 64 + 64 -> view sc2 x <> None) /\
    s_rec sc2 = a_fill (s_rec sc) a0.
Proof.
  intros HD Ha Hm Hmiss. pose proof (DInv_S _ _ HD) as Hs. destruct HD as [Hi Hr Hcap Hlen Hal Hcnt].
  assert (Ha' : 0 <= a0 < 2147483584) by lia.
  destruct (fetch_cache_line_ok m a0 Ha') as (ln & Ef & Hzl & Hln).
  set (base := a0 - a0 mod 64) in *.
  assert (Hb1 : base mod 64 = 0) by (unfold base; lia).
  assert (Hb2 : base <= a0 < base + 64) by (unfold base; lia).
  assert (Hdis : forall r, In r (s_rec sc) -> base + 64 <= r \/ r + 64 <= base).
  { intros r Hr0. destruct (Hal r Hr0) as [Hr1 _]. pose proof (view_none sc a0 Hmiss r Hr0) as Hc.
    rewrite Hlen in Hc. destruct (Z.eq_dec r base) as [->|Hne].
    - assert (covers 64 a0 base = true) by (apply covers_spec; lia). congruence.
    - lia. }
  assert (Hpush : push_ok sc base ln = true).
  { unfold push_ok, over. rewrite Hlen, Hcap.
    apply andb_true_intro; split; [apply andb_true_intro; split; [apply andb_true_intro; split;
      [apply andb_true_intro; split|]|]|].
    - apply Z.eqb_eq. exact Hzl.
    - apply Z.leb_le. unfold i32_min. lia.
    - apply Z.leb_le. unfold i32_max. lia.
    - apply forallb_forall. intros r Hr0. apply orb_true_intro.
      destruct (Hdis r Hr0); [left | right]; apply Z.leb_le; lia.
    - apply negb_true_iff. apply gtb_false. exact Hcnt. }
  pose proof (SInv_insert _ _ _ Hs Hpush) as Hs1.
  destruct (step_pushw c sc base ln Hi Hr Hpush) as (c1 & E1 & Hi1 & Hr1).
  cbn [Cache.step] in E1. destruct (push_line_warn c base ln) as [[c1' r]| |] eqn:Epw; cbn [bind] in E1; try discriminate.
  injection E1 as -> Er. cbn [s_step] in Er, Hr1.
  set (sc1 := s_insert sc base ln) in *.
  assert (Hv1 : forall x, view sc1 x = if covers 64 x base then Some (byte_at ln (x - base)) else view sc x).
  { intros x. unfold sc1. rewrite view_insert by auto. rewrite Hlen. reflexivity. }
  exists ln. unfold push_line_to_l1d. cbv zeta. rewrite (line_base a0 Ha'). fold base. rewrite Epw. cbn [bind].
  assert (Hfill : a_fill (s_rec sc) a0 = if over sc1 then remove_first (lru_base sc1) (s_rec sc1) else s_rec sc1).
  { unfold a_fill, over, lru_base, sc1. cbn [s_insert s_rec s_cap]. cbv zeta. fold base. rewrite Hcap. reflexivity. }
  destruct (over sc1) eqn:Hover; cbn [fst snd] in Er, Hr1; injection Er as ->.
  - (* a victim: the least recently used line *)
    set (v := lru_base sc1) in *.
    assert (Hvin : In v (s_rec sc)).
    { unfold v, lru_base, sc1. cbn [s_insert s_rec]. unfold over, sc1 in Hover. cbn [s_insert s_rec s_cap] in Hover.
      destruct (s_rec sc) as [|z l] eqn:El.
      - rewrite Hcap in Hover. discriminate.
      - change (last (base :: z :: l) 0) with (last (z :: l) 0). apply last_in. discriminate. }
    destruct (Hal v Hvin) as [Hv_al Hv0].
    assert (Hvb : v <> base) by (intros ->; destruct (Hdis base Hvin); lia).
    assert (Hvin1 : In v (s_rec sc1)) by (right; exact Hvin).
    assert (Hdv : s_data sc1 v = s_data sc v).
    { unfold sc1. rewrite s_data_insert. destruct (Z.eqb_spec base v); [congruence | reflexivity]. }
    cbn [lo data].
    destruct (write_to_memory_ok (s_data sc1 v) m v Hv0) as (m' & Ew & Hl' & Hm'). rewrite Ew. cbn [bind].
    destruct (step_evict c1 sc1 v Hi1 Hr1) as (c2 & E2 & Hi2 & Hr2).
    cbn [Cache.step] in E2. destruct (evict_cache_line c1 v) as [[c2' r2]| |]; cbn [bind] in E2; try discriminate.
    injection E2 as -> _. cbn [s_step] in Hr2.
    assert (Hcv : s_cover sc1 v = Some v).
    { apply s_cover_in; auto; try apply Hs1. apply covers_spec. destruct Hs1. lia. }
    rewrite Hcv in Hr2. cbn [fst] in Hr2.
    pose proof (R_SInv _ _ Hi2 Hr2) as Hs2.
    assert (Hv2 : forall x, view (s_drop sc1 v) x = if covers 64 x v then None else view sc1 x).
    { intros x. rewrite view_drop by auto. unfold sc1. cbn [s_insert s_len]. rewrite Hlen. reflexivity. }
    cbn [bind fst]. exists c2, (s_drop sc1 v), m'. split; [exact Ef|]. split; [reflexivity|].
    split; [|split; [exact Hl'|split; [|split; [|symmetry; exact Hfill]]]].
    + constructor; [exact Hi2 | exact Hr2 | exact Hcap | exact Hlen | |].
      * cbn [s_drop s_rec]. intros b Hb. apply in_remove_first in Hb. destruct Hb as [<-|Hb]; [split; lia | auto].
      * cbn [s_drop s_rec]. rewrite length_remove_first by exact Hvin1. unfold sc1. cbn [s_insert s_rec].
        rewrite zlen_cons. lia.
    + intros x Hx. unfold lm. rewrite Hv2, Hv1. rewrite Hm' by exact Hx.
      rewrite (si_data _ Hs1 v Hvin1). unfold sc1 at 1. cbn [s_insert s_len]. rewrite Hlen.
      destruct (covers 64 x v) eqn:Ecv.
      * apply covers_spec in Ecv. rewrite (view_in_S sc x v Hs Hvin) by (rewrite Hlen; exact Ecv).
        destruct (Z.leb_spec v x), (Z.ltb_spec x (v + 64)); try lia. cbn [andb]. rewrite Hdv. reflexivity.
      * assert (Hnc : (v <=? x) && (x <? v + 64) = false) by exact Ecv. rewrite Hnc.
        destruct (covers 64 x base) eqn:Ecb.
        -- apply covers_spec in Ecb. rewrite Hln by lia.
           assert (Hn : view sc x = None).
           { apply view_none_intro. intros r Hr0. rewrite Hlen. destruct (Hdis r Hr0);
               destruct (covers 64 x r) eqn:Ecr; auto; apply covers_spec in Ecr; lia. }
           rewrite Hn. f_equal. lia.
        -- reflexivity.
    + intros x Hx. rewrite Hv2, Hv1.
      assert (Hcb : covers 64 x base = true) by (apply covers_spec; exact Hx).
      destruct (covers 64 x v) eqn:Ecv; [|rewrite Hcb; discriminate].
      exfalso. apply covers_spec in Ecv. destruct (Hdis v Hvin); lia.
  - (* room left *)
    exists c1, sc1, m. split; [exact Ef|]. split; [reflexivity|].
    split; [|split; [reflexivity|split; [|split; [|symmetry; exact Hfill]]]].
    + constructor; [exact Hi1 | exact Hr1 | exact Hcap | exact Hlen | |].
      * intros b [<-|Hb]; [split; lia | auto].
      * unfold over in Hover. rewrite (Z.gtb_ltb) in Hover. apply Z.ltb_ge in Hover.
        unfold sc1 in Hover |- *. cbn [s_insert s_cap] in Hover. lia.
    + intros x Hx. unfold lm. rewrite Hv1.
      destruct (covers 64 x base) eqn:Ecb; [|reflexivity].
      apply covers_spec in Ecb. rewrite Hln by lia.
      assert (Hn : view sc x = None).
      { apply view_none_intro. intros r Hr0. rewrite Hlen. destruct (Hdis r Hr0);
          destruct (covers 64 x r) eqn:Ecr; auto; apply covers_spec in Ecr; lia. }
      rewrite Hn. f_equal. lia.
    + intros x Hx. rewrite Hv1.
      assert (Hcb : covers 64 x base = true) by (apply covers_spec; exact Hx). rewrite Hcb. discriminate.
Qed.

(* ------------------------------------------------------------------ *)
(* the hypothesis on the accesses of the SEQUENTIAL run                 *)

(* all the bytes of one access lie in the same 64-byte line *)
Definition same_line (l : list Z) : bool :=
  match l with
  | [] => true
  | a0 :: _ => forallb (fun a => a / 64 =? a0 / 64) l
  end.

Lemma same_line_spec a0 t a : same_line (a0 :: t) = true -> In a (a0 :: t) -> a / 64 = a0 / 64.
Proof.
  unfold same_line. intros H Hin. rewrite forallb_forall in H. apply Z.eqb_eq. apply H. exact Hin.
Qed.

(* the structure of the memory phase of one iteration, named *)
Definition load_block (d : cache) (m : list Z) (addrs : list Z) : outcome (cache * list Z * list Z * Z) :=
  match addrs with
  | [] => Ok (d, m, [], 0)
  | a0 :: _ =>
      r <- get_all d addrs [] ;;
      match r with
      | (d1, Some bytes) => Ok (d1, m, bytes, L1Access)
      | (d1, None) =>
          ln <- fetch_cache_line m a0 ;;
          r2 <- push_line_to_l1d d1 m a0 ln ;;
          r3 <- get_all (fst r2) addrs [] ;;
          match r3 with
          | (d3, Some bytes) => Ok (d3, snd r2, bytes, L1Access + MemoryAccess)
          | (_, None) => Panic
          end
      end
  end.

(* the invariant tying the model's memory + L1D to the sequential memory *)
Record VInv (c : cache) (sc : scache) (m ms : list Z) : Prop := mkV {
  v_D : DInv c sc;
  v_len : length m = length ms;
  v_small : zlen ms <= 2147483584;
  v_eq : forall x, 0 <= x < zlen ms -> lm sc m x = mget ms x
}.

Lemma in_mem_range m a : in_mem m a = true -> 0 <= a < zlen m.
Proof. unfold in_mem, zlen. rewrite andb_true_iff, Z.leb_le, Z.ltb_lt. tauto. Qed.

Lemma all_hit_or_first_miss c sc a0 t : DInv c sc -> same_line (a0 :: t) = true ->
  forallb (fun a => is_some (view sc a)) (a0 :: t) = false -> forall a, In a (a0 :: t) -> view sc a = None.
Proof.
  intros HD Hsl Hf.
  assert (H0 : view sc a0 = None).
  { destruct (view sc a0) as [v|] eqn:E0; [|reflexivity]. exfalso.
    assert (forallb (fun a => is_some (view sc a)) (a0 :: t) = true); [|congruence].
    apply forallb_forall. intros a Ha. pose proof (same_line_spec _ _ _ Hsl Ha) as Hq.
    assert (view sc a <> None) by (apply (same_line_view c sc a0 a HD); [lia | congruence]).
    destruct (view sc a); [reflexivity | congruence]. }
  intros a Ha. pose proof (same_line_spec _ _ _ Hsl Ha) as Hq.
  destruct (view sc a) as [v|] eqn:E; [|reflexivity]. exfalso.
  apply (same_line_view c sc a a0 HD Hq); congruence.
Qed.

(* recency list and cycles of the memory phase of a load, from the addresses *)
Definition a_load (r : list Z) (addrs : list Z) : list Z * Z :=
  match addrs with
  | [] => (r, 0)
  | a0 :: _ =>
      if snd (a_get_all r addrs) then (fst (a_get_all r addrs), L1Access)
      else (fst (a_get_all (a_fill (fst (a_get_all r addrs)) a0) addrs), L1Access + MemoryAccess)
  end.

Lemma load_block_ok c sc m ms addrs : VInv c sc m ms ->
  forallb (in_mem ms) addrs = true -> same_line addrs = true ->
  exists c' sc' m', load_block c m addrs = Ok (c', m', map (mget ms) addrs, snd (a_load (s_rec sc) addrs)) /\
    0 <= snd (a_load (s_rec sc) addrs) /\
    VInv c' sc' m' ms /\ s_rec sc' = fst (a_load (s_rec sc) addrs).
Proof.
  intros [HD Hl Hsm Heq] Hin Hsl. destruct addrs as [|a0 t]; cbn [load_block a_load].
  - exists c, sc, m. split; [reflexivity|]. split; [cbn [snd]; lia|]. split; [constructor; auto | reflexivity].
  - set (addrs := a0 :: t) in *.
    assert (Hr : forall a, In a addrs -> 0 <= a < zlen ms).
    { intros a Ha. apply in_mem_range. rewrite forallb_forall in Hin. auto. }
    destruct (get_all_ok sc addrs c sc [] HD ltac:(auto)) as (c1 & sc1 & E1 & HD1 & Hv1 & Hr1 & Hh1). rewrite E1. cbn [bind].
    assert (Hlm1 : forall x, lm sc1 m x = lm sc m x) by (intros x; unfold lm; rewrite Hv1; reflexivity).
    rewrite <- Hh1, <- Hr1.
    destruct (forallb (fun a => is_some (view sc a)) addrs) eqn:Eall; cbn [fst snd].
    + (* every byte is resident *)
      exists c1, sc1, m. cbn [rev app]. split; [|split; [unfold L1Access; lia|split; [|reflexivity]]].
      * do 3 f_equal. apply map_ext_in. intros a Ha. rewrite <- (Heq a (Hr a Ha)). unfold lm, vget.
        rewrite forallb_forall in Eall. specialize (Eall a Ha). destruct (view sc a); [reflexivity | discriminate].
      * constructor; auto. intros x Hx. rewrite Hlm1. auto.
    + (* the line is absent: fetch, insert, possibly evict *)
      pose proof (all_hit_or_first_miss c sc a0 t HD Hsl Eall) as Hnone.
      assert (Ha0 : 0 <= a0 < zlen m).
      { unfold zlen. rewrite Hl. apply Hr. left; reflexivity. }
      assert (Hm0 : view sc1 a0 = None) by (rewrite Hv1; apply Hnone; left; reflexivity).
      destruct (fill_ok c1 sc1 m a0 HD1 Ha0 ltac:(unfold zlen in *; rewrite Hl; exact Hsm) Hm0)
        as (ln & c2 & sc2 & m2 & Ef & Ep & HD2 & Hl2 & Hlm2 & Hres & Hr2).
      rewrite Ef. cbn [bind]. rewrite Ep. cbn [bind fst snd].
      destruct (get_all_ok sc2 addrs c2 sc2 [] HD2 ltac:(auto)) as (c3 & sc3 & E3 & HD3 & Hv3 & Hr3 & Hh3). rewrite E3. cbn [bind].
      assert (Hall : forallb (fun a => is_some (view sc2 a)) addrs = true).
      { apply forallb_forall. intros a Ha. pose proof (same_line_spec _ _ _ Hsl Ha) as Hq.
        specialize (Hres a ltac:(lia)). destruct (view sc2 a); [reflexivity | congruence]. }
      rewrite Hall. cbn [rev app].
      assert (Hlm3 : forall x, 0 <= x < zlen ms -> lm sc3 m2 x = mget ms x).
      { intros x Hx. unfold lm. rewrite Hv3. fold (lm sc2 m2 x). rewrite Hlm2 by (unfold zlen in *; rewrite Hl; exact Hx).
        rewrite Hlm1. auto. }
      exists c3, sc3, m2. split; [|split; [unfold L1Access, MemoryAccess; lia|split]].
      * do 3 f_equal. apply map_ext_in. intros a Ha. rewrite <- (Hlm3 a (Hr a Ha)). unfold lm, vget. rewrite Hv3.
        rewrite forallb_forall in Hall. specialize (Hall a Ha). destruct (view sc2 a); [reflexivity | discriminate].
      * constructor; auto. congruence.
      * rewrite Hr3, Hr2. reflexivity.
Qed.

(* ---- stores ---- *)
Lemma sort_changes_consec bs : forall a, map fst bs = consec a (length bs) -> sort_changes bs = bs.
Proof.
  induction bs as [|x t IH]; intros a H; [reflexivity|].
  cbn [length] in H. rewrite consec_S in H. cbn [map] in H. injection H as Hx Ht.
  cbn [sort_changes]. rewrite (IH (a + 1) Ht).
  destruct t as [|y t']; [reflexivity|].
  cbn [length] in Ht. rewrite consec_S in Ht. cbn [map] in Ht. injection Ht as Hy _.
  replace (fst x <=? fst y) with true by (symmetry; apply Z.leb_le; lia). reflexivity.
Qed.

(* the store hits: Write into the resident line *)
Lemma store_hit_ok c sc m ms bs a0 : VInv c sc m ms -> bs <> [] ->
  map fst bs = consec a0 (length bs) ->
  forallb (in_mem ms) (map fst bs) = true -> same_line (map fst bs) = true ->
  view sc a0 <> None ->
  exists c' sc', write c a0 (map snd bs) = Ok c' /\ VInv c' sc' m (mset_all ms bs) /\ s_rec sc' = s_rec sc.
Proof.
  intros [HD Hl Hsm Heq] Hne Hcs Hin Hsl Hhit. pose proof (DInv_S _ _ HD) as Hs.
  pose proof HD as [Hi Hr Hcap Hlen Hal Hcnt].
  destruct bs as [|[a0' v0] t]; [congruence|]. clear Hne.
  assert (Ea : a0' = a0) by (cbn [length] in Hcs; rewrite consec_S in Hcs; cbn [map fst] in Hcs; congruence). subst a0'.
  set (bs := (a0, v0) :: t) in *. set (vs := map snd bs).
  assert (Hzvs : zlen vs = zlen bs) by (unfold vs, zlen; rewrite map_length; reflexivity).
  assert (Hn1 : 1 <= zlen bs) by (unfold bs, zlen; cbn [length]; lia).
  destruct (s_cover sc a0) as [b|] eqn:Ecov; [|unfold view in Hhit; rewrite Ecov in Hhit; congruence].
  pose proof (s_cover_some _ _ _ Ecov) as [Hbin Hbc]. rewrite Hlen in Hbc.
  destruct (Hal b Hbin) as [Hb_al Hb0]. apply aligned_covers in Hbc; [|exact Hb_al].
  (* the last byte is in the same line *)
  assert (Hlast : In (a0 + zlen bs - 1) (map fst bs)).
  { rewrite Hcs. apply in_consec. unfold zlen in *. lia. }
  assert (Hq : (a0 + zlen bs - 1) / 64 = a0 / 64).
  { unfold bs in Hsl, Hlast. cbn [map fst] in Hsl, Hlast. apply (same_line_spec _ _ _ Hsl Hlast). }
  assert (Hfit : a0 + zlen vs <= b + s_len sc) by (rewrite Hlen, Hzvs; lia).
  assert (Hok : op_ok sc (OWrite a0 vs) = true).
  { cbn [op_ok]. rewrite Ecov. apply Z.leb_le. exact Hfit. }
  destruct (step_write c sc a0 vs Hi Hr Hok) as (c' & E & Hi' & Hr').
  cbn [Cache.step] in E. destruct (write c a0 vs) as [c1| |]; cbn [bind] in E; try discriminate.
  injection E as ->. cbn [s_step] in Hr'. rewrite Ecov in Hr'. cbn [fst] in Hr'.
  pose proof (R_SInv _ _ Hi' Hr') as Hs'.
  exists c', (with_map sc (m_set b (splice (s_data sc b) (Z.to_nat (a0 - b)) vs) (s_map sc))).
  split; [reflexivity|]. split; [|reflexivity]. constructor.
  - constructor; [exact Hi' | exact Hr' | exact Hcap | exact Hlen | exact Hal | exact Hcnt].
  - rewrite mset_all_length. exact Hl.
  - unfold zlen. rewrite mset_all_length. exact Hsm.
  - intros x Hx. unfold zlen in Hx. rewrite mset_all_length in Hx.
    unfold lm. rewrite (view_write sc a0 vs b x Hs Hs' Ecov Hfit).
    rewrite mget_mset_all by (lia || exact Hin).
    rewrite (apply_changes_consec bs a0 _ x Hcs). fold vs. rewrite Hzvs.
    destruct ((a0 <=? x) && (x <? a0 + zlen bs)); [reflexivity|]. apply (Heq x Hx).
Qed.

(* the store misses: WriteMemory *)
Lemma store_miss_ok c sc m ms bs : VInv c sc m ms ->
  forallb (in_mem ms) (map fst bs) = true ->
  (forall a, In a (map fst bs) -> view sc a = None) ->
  forallb (in_mem m) (map fst bs) = true /\ VInv c sc (mset_all m bs) (mset_all ms bs).
Proof.
  intros [HD Hl Hsm Heq] Hin Hnone.
  assert (Hin' : forallb (in_mem m) (map fst bs) = true).
  { rewrite forallb_forall in *. intros a Ha. specialize (Hin a Ha). unfold in_mem in *. rewrite Hl. exact Hin. }
  split; [exact Hin'|]. constructor; auto.
  - rewrite !mset_all_length. exact Hl.
  - unfold zlen. rewrite mset_all_length. exact Hsm.
  - intros x Hx. unfold zlen in Hx. rewrite mset_all_length in Hx. unfold lm.
    rewrite (mget_mset_all bs ms x) by (lia || exact Hin).
    destruct (in_dec Z.eq_dec x (map fst bs)) as [Hxin|Hxn].
    + rewrite (Hnone x Hxin). rewrite mget_mset_all by (lia || exact Hin'). apply apply_changes_in. exact Hxin.
    + rewrite (apply_changes_notin bs _ x Hxn). rewrite <- (Heq x Hx). unfold lm.
      destruct (view sc x); [reflexivity|]. rewrite mget_mset_all by (lia || exact Hin').
      apply apply_changes_notin. exact Hxn.
Qed.

(* ---- the final flush ---- *)
Lemma flush_ok c sc m ms : VInv c sc m ms ->
  flush_lines (lines c) m 0 = Ok (ms, MemoryAccess * zlen (s_rec sc)).
Proof.
  intros [HD Hl Hsm Heq]. pose proof (DInv_S _ _ HD) as Hs. pose proof HD as [Hi Hr Hcap Hlen Hal Hcnt].
  assert (Hlo : Forall (fun l => 0 <= lo l) (lines c)).
  { apply Forall_forall. intros l Hin. apply (Hal (lo l)). rewrite (r_rec _ _ Hr). apply in_map. exact Hin. }
  destruct (flush_lines_ok (lines c) m 0 Hlo) as (m' & E & Hl' & Hv).
  assert (Em : m' = ms).
  { apply (nth_ext m' ms 0 0); [congruence|]. intros n Hn.
    assert (Hx : 0 <= Z.of_nat n < zlen ms) by (unfold zlen; lia).
    pose proof (Heq _ Hx) as He. unfold mget in He. rewrite Nat2Z.id in He. rewrite <- He.
    assert (Hx' : 0 <= Z.of_nat n < zlen m) by (unfold zlen in *; lia).
    destruct (Hv _ Hx') as [(l & Hin & Hc & Hg)|[Hn' Hg]]; unfold mget in Hg; rewrite Nat2Z.id in Hg; rewrite Hg.
    - pose proof (inv_ok _ Hi) as Hok. rewrite Forall_forall in Hok. destruct (Hok l Hin) as (_ & Hd & _ & _).
      unfold lcovers in Hc. rewrite Hd in Hc. rewrite <- (r_len _ _ Hr) in Hc.
      unfold lm. rewrite (view_in_S sc (Z.of_nat n) (lo l) Hs); [| rewrite (r_rec _ _ Hr); apply in_map; exact Hin | exact Hc].
      rewrite (s_data_in c sc l Hi Hr Hin). reflexivity.
    - unfold lm. rewrite view_none_intro; [unfold mget; rewrite Nat2Z.id; reflexivity|].
      intros b Hb. rewrite (r_rec _ _ Hr) in Hb. apply in_map_iff in Hb. destruct Hb as (l & <- & Hin).
      destruct (covers (s_len sc) (Z.of_nat n) (lo l)) eqn:Ec; [|reflexivity]. exfalso.
      apply covers_spec in Ec. apply (Hn' l Hin). unfold lcovers.
      pose proof (inv_ok _ Hi) as Hok. rewrite Forall_forall in Hok. destruct (Hok l Hin) as (_ & Hd & _ & _).
      rewrite Hd, <- (r_len _ _ Hr). exact Ec. }
  subst m'. rewrite E. rewrite (r_rec _ _ Hr), zlen_map. reflexivity.
Qed.

(* ------------------------------------------------------------------ *)
(* the L1I: keyed by unaligned pc values (lines may overlap, so the C13 contract
   does not hold); its contents never matter, it only must not panic        *)

Definition iline_ok (l : line) : Prop := zlen (data l) = 64 /\ 0 <= lo l /\ hi l = addS 32 (lo l) 64.
Definition IInv (c : cache) : Prop := nlines c = 16 /\ llen c = 64 /\ Forall iline_ok (lines c).

Lemma wrapS32_le x : 0 <= x -> wrapS 32 x <= x.
Proof.
  intros H. unfold wrapS. change (2 ^ (32 - 1)) with 2147483648. change (2 ^ 32) with 4294967296.
  pose proof (Z.mod_le (x + 2147483648) 4294967296 ltac:(lia) ltac:(lia)). lia.
Qed.

(* the L1I as a list of line starts: hit test, move to front, insertion *)
Definition i_hit (pc lo_ : Z) : bool := (lo_ <=? pc) && (pc <? addS 32 lo_ 64).

Fixpoint i_find (r : list Z) (pc : Z) : option (Z * list Z) :=
  match r with
  | [] => None
  | x :: t =>
      if i_hit pc x then Some (x, t)
      else match i_find t pc with Some (y, t') => Some (y, x :: t') | None => None end
  end.

Definition a_fetch (r : list Z) (pc : Z) : list Z * Z :=
  match i_find r pc with
  | Some (x, rest) => (x :: rest, L1Access)
  | None => (firstn 16 (pc :: r), MemoryAccess)
  end.

Lemma find_line_i ls a : Forall iline_ok ls ->
  exists r, find_line ls a = Ok r /\
    match r with
    | Some (_, l, rest) => iline_ok l /\ Forall iline_ok rest /\ i_find (map lo ls) a = Some (lo l, map lo rest)
    | None => i_find (map lo ls) a = None
    end.
Proof.
  induction 1 as [|l t [Hd [Hl0 Hh]] Ht IH]; cbn [find_line map i_find].
  - exists None. auto.
  - unfold line_get, i_hit. rewrite Hh.
    destruct ((lo l <=? a) && (a <? addS 32 (lo l) 64)) eqn:Ehit; cbn [bind].
    + apply andb_prop in Ehit. destruct Ehit as [E1 E2]. apply Z.leb_le in E1. apply Z.ltb_lt in E2.
      assert (addS 32 (lo l) 64 <= lo l + 64) by (unfold addS; apply wrapS32_le; lia).
      unfold subS. rewrite wrapS_id by (lia || (apply int32_bounds; lia)).
      unfold idx_get. rewrite Hd.
      destruct (Z.leb_spec 0 (a - lo l)), (Z.ltb_spec (a - lo l) 64); try lia. cbn [andb bind].
      eexists. split; [reflexivity|]. repeat split; assumption.
    + destruct IH as (r & -> & Hr). cbn [bind]. destruct r as [[[v l'] t']|].
      * eexists. split; [reflexivity|]. destruct Hr as (A & B & ->). split; [assumption|].
        split; [constructor; [repeat split|]; assumption | reflexivity].
      * exists None. rewrite Hr. auto.
Qed.

Definition fetch_tail (l1i1 : cache) (hit : option (list Z)) (pc : Z) : outcome (cache * Z) :=
  match hit with
  | Some _ => Ok (l1i1, L1Access)
  | None => r <- push_line l1i1 pc (repeat 0 (Z.to_nat l1LineSize)) ;; Ok (fst r, MemoryAccess)
  end.

Lemma Forall_firstn {A} (P : A -> Prop) n l : Forall P l -> Forall P (firstn n l).
Proof. intros H. rewrite Forall_forall in *. intros x Hx. apply H. eapply in_firstn; eauto. Qed.

Lemma fetch_ok c pc : IInv c -> 0 <= pc ->
  exists c1 hit, get_all c [pc] [] = Ok (c1, hit) /\
    exists c2, fetch_tail c1 hit pc = Ok (c2, snd (a_fetch (map lo (lines c)) pc)) /\ IInv c2 /\
      0 < snd (a_fetch (map lo (lines c)) pc) /\ map lo (lines c2) = fst (a_fetch (map lo (lines c)) pc).
Proof.
  intros (HN & HL & Hf) Hpc. cbn [get_all]. unfold get, a_fetch.
  destruct (find_line_i (lines c) pc Hf) as (r & -> & Hr). cbn [bind].
  destruct r as [[[v l] rest]|].
  - destruct Hr as (Hl & Hrest & ->). do 2 eexists. split; [reflexivity|]. cbn [fetch_tail fst snd].
    eexists. split; [reflexivity|]. split; [|split; [unfold L1Access; lia | reflexivity]].
    repeat split; cbn [set_lines nlines llen lines]; auto; try apply Hl.
  - rewrite Hr. do 2 eexists. split; [reflexivity|]. cbn [fetch_tail fst snd]. unfold push_line.
    set (nl := new_line c pc (repeat 0 (Z.to_nat l1LineSize))).
    assert (Hnl : iline_ok nl).
    { unfold nl, new_line, iline_ok. cbn [data hi lo]. split; [|split; [exact Hpc|]].
      - unfold zlen. rewrite repeat_length. reflexivity.
      - rewrite HL. reflexivity. }
    assert (Hlo : lo nl = pc) by reflexivity.
    rewrite HN. destruct (Z.gtb_spec (zlen (nl :: lines c)) 16) as [Hgt|Hle].
    + change (16 <? 0) with false. cbn [bind fst]. eexists. split; [reflexivity|].
      split; [|split; [unfold MemoryAccess; lia|]].
      * repeat split; cbn [set_lines nlines llen lines]; auto. apply Forall_firstn. constructor; auto.
      * cbn [set_lines lines]. rewrite <- firstn_map. cbn [map]. rewrite Hlo. reflexivity.
    + cbn [bind fst]. eexists. split; [reflexivity|]. split; [|split; [unfold MemoryAccess; lia|]].
      * repeat split; cbn [set_lines nlines llen lines]; auto.
      * cbn [set_lines lines map]. rewrite Hlo. symmetry. apply firstn_all2.
        unfold zlen in Hle. cbn [length] in *. rewrite map_length. lia.
Qed.

(* ------------------------------------------------------------------ *)
(* one iteration of the Run loop, with its phases named                  *)

Definition store_block (rec : m3state -> Z -> mres) (regs mem1 : list Z) (cycle' : Z) (l1i2 l1d1 : cache)
           (pc' : Z) (bs : list (Z * Z)) : mres :=
  match get_all l1d1 (map fst bs) [] with
  | Ok (d2, Some _) =>
      let ch := sort_changes bs in
      match ch with
      | [] => MPanic
      | (a0, _) :: _ =>
          match write d2 a0 (map snd ch) with
          | Ok d3 => rec (mk_m3 regs mem1 (cycle' + L1Access) l1i2 d3) pc'
          | _ => MPanic
          end
      end
  | Ok (d2, None) =>
      if negb (forallb (in_mem mem1) (map fst bs)) then MPanic
      else rec (mk_m3 regs (mset_all mem1 bs) (cycle' + MemoryAccess) l1i2 d2) pc'
  | _ => MPanic
  end.

Definition writeback (rec : m3state -> Z -> mres) (regs mem1 : list Z) (cycle' : Z) (l1i2 l1d1 : cache)
           (pc : Z) (exe : execution) : mres :=
  if Return exe then finish3 (mk_m3 regs mem1 cycle' l1i2 l1d1) else
  let pc' := if PcChange exe then NextPc exe else addS 32 pc 4 in
  if RegisterChange exe then
    rec (mk_m3 (rset regs (Register exe) (RegisterValue exe)) mem1 (cycle' + RegisterAccess) l1i2 l1d1) pc'
  else if MemoryChange exe then store_block rec regs mem1 cycle' l1i2 l1d1 pc' (MemoryChanges exe)
  else rec (mk_m3 regs mem1 cycle' l1i2 l1d1) pc'.

Lemma m3run_S f app labels s pc :
  m3run (S f) app labels s pc =
  if Z.quot pc 4 <? Z.of_nat (length app) then
    match get_all (m3_l1i s) [pc] [] with
    | Ok (l1i1, hit) =>
        match fetch_tail l1i1 hit pc with
        | Ok (l1i2, c1) =>
            if Z.quot pc 4 <? 0 then MPanic else
            match nth_error app (Z.to_nat (Z.quot pc 4)) with
            | None => MPanic
            | Some i =>
                let rr := rget (m3_regs s) in
                match load_block (m3_l1d s) (m3_mem s) (instr_MemoryRead i rr 0) with
                | Ok (l1d1, mem1, bytes, c2) =>
                    match instr_Run i rr labels pc bytes 0 with
                    | Panic => MPanic
                    | Err e => MErr e
                    | Ok exe =>
                        match InstructionType_Cycles (instr_InstructionType i) with
                        | Ok c3 => writeback (m3run f app labels) (m3_regs s) mem1
                                             (m3_cycle s + c1 + cyclesDecode + c2 + c3) l1i2 l1d1 pc exe
                        | _ => MPanic
                        end
                    end
                | _ => MPanic
                end
            end
        | _ => MPanic
        end
    | _ => MPanic
    end
  else finish3 s.
Proof. reflexivity. Qed.

Definition a_store (r : list Z) (addrs : list Z) : list Z * Z :=
  (fst (a_get_all r addrs), if snd (a_get_all r addrs) then L1Access else MemoryAccess).

Lemma store_block_ok rec regs m cyc l1i c sc ms pc' bs a0 : VInv c sc m ms -> bs <> [] ->
  map fst bs = consec a0 (length bs) ->
  forallb (in_mem ms) (map fst bs) = true -> same_line (map fst bs) = true ->
  exists c' sc' m', store_block rec regs m cyc l1i c pc' bs =
      rec (mk_m3 regs m' (cyc + snd (a_store (s_rec sc) (map fst bs))) l1i c') pc' /\
    0 < snd (a_store (s_rec sc) (map fst bs)) /\ VInv c' sc' m' (mset_all ms bs) /\
    s_rec sc' = fst (a_store (s_rec sc) (map fst bs)).
Proof.
  intros HV Hne Hcs Hin Hsl. pose proof HV as [HD Hl Hsm Heq]. unfold store_block, a_store. cbn [fst snd].
  destruct (get_all_ok sc (map fst bs) c sc [] HD ltac:(auto)) as (c1 & sc1 & E1 & HD1 & Hv1 & Hr1 & Hh1). rewrite E1.
  rewrite <- Hh1, <- Hr1.
  assert (HV1 : VInv c1 sc1 m ms).
  { constructor; auto. intros x Hx. unfold lm. rewrite Hv1. apply (Heq x Hx). }
  assert (Hhd : exists v0 t, bs = (a0, v0) :: t).
  { destruct bs as [|[a0' v0] t]; [congruence|]. cbn [length] in Hcs. rewrite consec_S in Hcs.
    cbn [map fst] in Hcs. injection Hcs as -> _. eauto. }
  destruct Hhd as (v0 & t & Ebs).
  destruct (forallb (fun a => is_some (view sc a)) (map fst bs)) eqn:Eall.
  - (* every byte of the store is resident *)
    cbv zeta. rewrite (sort_changes_consec bs a0 Hcs).
    assert (Hhit : view sc1 a0 <> None).
    { rewrite Hv1. rewrite forallb_forall in Eall. specialize (Eall a0).
      rewrite Ebs in Eall. cbn [map fst] in Eall. specialize (Eall (or_introl eq_refl)).
      destruct (view sc a0); discriminate. }
    destruct (store_hit_ok c1 sc1 m ms bs a0 HV1 Hne Hcs Hin Hsl Hhit) as (c' & sc' & Ew & HV' & Hr').
    exists c', sc', m. split; [|split; [unfold L1Access; lia | split; [exact HV' | exact Hr']]].
    rewrite Ebs in Ew |- *. cbv beta iota. rewrite Ew. reflexivity.
  - (* the line is not resident *)
    assert (Hnone : forall a, In a (map fst bs) -> view sc1 a = None).
    { intros a Ha. rewrite Hv1. revert a Ha. rewrite Ebs in Hsl, Eall |- *. cbn [map fst] in Hsl, Eall |- *.
      apply (all_hit_or_first_miss c sc a0 (map fst t) HD Hsl Eall). }
    destruct (store_miss_ok c1 sc1 m ms bs HV1 Hin Hnone) as [Hin' HV'].
    rewrite Hin'. cbn [negb]. exists c1, sc1, (mset_all m bs).
    split; [reflexivity|]. split; [unfold MemoryAccess; lia | split; [exact HV' | reflexivity]].
Qed.

Lemma estore_nonempty si rr labels pc mem bs : exec si rr labels pc mem = Ok (EStore bs) -> bs <> [].
Proof.
  destruct si; cbn [exec]; unfold branch; intros H;
    repeat match type of H with
           | context [if ?c then _ else _] => destruct c
           | context [match ?c with Some _ => _ | None => _ end] => destruct c
           end; try discriminate; injection H as <-; discriminate.
Qed.

Lemma store_addrs_consec si rr ms : forallb (in_mem ms) (store_addrs si rr) = true -> zlen ms <= 2147483584 ->
  store_addrs si rr = consec (hd 0 (store_addrs si rr)) (length (store_addrs si rr)).
Proof.
  intros Hin Hsm. destruct si; cbn [store_addrs] in *; try reflexivity;
    cbv zeta in *; set (x := s (u (rr base) + u off)) in *; cbn [forallb] in Hin;
    apply andb_prop in Hin; destruct Hin as [Hin _]; apply in_mem_range in Hin;
    cbn [hd length]; rewrite ?consec_S; unfold consec; cbn [seq map];
    rewrite ?s_id by (apply int32_bounds; lia); repeat (f_equal; try lia).
Qed.

(* the hypothesis of the theorems: every load and store of the SEQUENTIAL run
   stays inside one 64-byte line (natural alignment implies it, see
   natural_alignment_same_line) *)
Fixpoint accesses_ok (fuel : nat) (p : list sinstr) (labels : Z -> option Z) (st : arch) (pc : Z) : Prop :=
  match fuel with
  | O => True
  | S f =>
      match nth_error p (Z.to_nat (pc / 4)) with
      | Some i => same_line (load_addrs i (rget (regs st))) = true /\
                  same_line (store_addrs i (rget (regs st))) = true
      | None => True
      end /\
      match Seq.step p labels st pc with
      | Next st' pc' => accesses_ok f p labels st' pc'
      | _ => True
      end
  end.

Lemma natural_alignment_same_line a n : (n = 1 \/ n = 2 \/ n = 4)%nat -> a mod Z.of_nat n = 0 ->
  same_line (consec a n) = true.
Proof.
  intros Hn Ha. destruct n as [|n]; [reflexivity|]. rewrite consec_S. unfold same_line.
  apply forallb_forall. intros x Hx. rewrite <- consec_S in Hx. apply in_consec in Hx. apply Z.eqb_eq.
  destruct Hn as [E|[E|E]]; rewrite E in *; cbn [Z.of_nat Pos.of_succ_nat Pos.succ] in *; lia.
Qed.

(* ------------------------------------------------------------------ *)
(* the cycle count as a function of the program and of the sequence of
   (pc, loaded addresses, stored addresses) of the sequential run only     *)

Definition event : Type := (Z * list Z * list Z)%type.

Fixpoint events (fuel : nat) (p : list sinstr) (labels : Z -> option Z) (st : arch) (pc : Z) : list event :=
  match fuel with
  | O => []
  | S f =>
      if pc <? 0 then [] else
      match nth_error p (Z.to_nat (pc / 4)) with
      | None => []
      | Some i =>
          (pc, load_addrs i (rget (regs st)), store_addrs i (rget (regs st))) ::
          match Seq.step p labels st pc with
          | Next st' pc' => events f p labels st' pc'
          | _ => []
          end
      end
  end.

(* line starts of the L1I and recency list of the L1D *)
Record tags := mkT { t_i : list Z; t_d : list Z }.

Definition ev_cost (app : list instr) (tg : tags) (ev : event) : tags * Z :=
  match nth_error app (Z.to_nat (fst (fst ev) / 4)) with
  | None => (tg, 0)
  | Some i =>
      let fi := a_fetch (t_i tg) (fst (fst ev)) in
      let ld := a_load (t_d tg) (snd (fst ev)) in
      let c3 := match InstructionType_Cycles (instr_InstructionType i) with Ok c => c | _ => 0 end in
      let wb := match writes (sinstr_of i) with
                | _ :: _ => (fst ld, RegisterAccess)
                | [] => match snd ev with [] => (fst ld, 0) | _ :: _ => a_store (fst ld) (snd ev) end
                end in
      (mkT (fst fi) (fst wb), snd fi + cyclesDecode + snd ld + c3 + snd wb)
  end.

(* the final flush writes every resident L1D line back *)
Fixpoint cost3 (app : list instr) (tg : tags) (evs : list event) : Z :=
  match evs with
  | [] => MemoryAccess * zlen (t_d tg)
  | ev :: t => snd (ev_cost app tg ev) + cost3 app (fst (ev_cost app tg ev)) t
  end.

Lemma store_addrs_effect si rr labels pc mem e : exec si rr labels pc mem = Ok e ->
  match e with EStore _ => True | _ => store_addrs si rr = [] end.
Proof.
  destruct si; cbn [exec store_addrs]; unfold branch; intros H;
    repeat match type of H with
           | context [if ?c then _ else _] => destruct c
           | context [match ?c with Some _ => _ | None => _ end] => destruct c
           end; try discriminate; injection H as <-; reflexivity || exact I.
Qed.

(* ------------------------------------------------------------------ *)
(* the induction: one model iteration against one specification step     *)

Section Refine3.
  Variables (app : list instr) (labels : Z -> option Z).
  Hypothesis Happ : wf_app app.
  Hypothesis Hlab : wf_labels labels.
  Let sp := map sinstr_of app.

  Theorem m3run_refines : forall fuel rg m cyc l1i l1d sc ms pc tr st' tr',
    IInv l1i -> VInv l1d sc m ms -> inv rg ms -> int32 pc ->
    accesses_ok fuel sp labels (mk_arch rg ms) pc ->
    Seq.run fuel sp labels (mk_arch rg ms) pc tr = Done st' tr' ->
    exists c, m3run fuel app labels (mk_m3 rg m cyc l1i l1d) pc = MDone c st' /\
              c = cyc + cost3 app (mkT (map lo (lines l1i)) (s_rec sc)) (events fuel sp labels (mk_arch rg ms) pc) /\
              cyc + Z.of_nat (length tr') - Z.of_nat (length tr) <= c.
  Proof.
    induction fuel as [|f IH]; intros rg m cyc l1i l1d sc ms pc tr st' tr' HI HV [Hr Hm] Hpc Hacc Hrun; [discriminate|].
    cbn [Seq.run] in Hrun. cbn [accesses_ok] in Hacc. cbn [events]. unfold Seq.step in Hrun, Hacc |- *.
    cbn [Seq.regs Seq.mem] in Hrun, Hacc |- *.
    destruct (pc <? 0) eqn:Epc; [discriminate|]. apply Z.ltb_ge in Epc.
    rewrite m3run_S. cbn [m3_l1i m3_l1d m3_mem m3_regs m3_cycle]. rewrite (quot_div pc Epc).
    destruct (nth_error sp (Z.to_nat (pc / 4))) as [si|] eqn:Enth.
    2:{ (* the pc left the text: flush *)
      unfold fetch in Hrun. rewrite Enth in Hrun.
      replace (pc <? 0) with false in Hrun by (symmetry; apply Z.ltb_ge; lia).
      injection Hrun as <- <-.
      assert (Hge : (length app <= Z.to_nat (pc / 4))%nat).
      { apply nth_error_None in Enth. unfold sp in Enth. rewrite map_length in Enth. exact Enth. }
      replace (pc / 4 <? Z.of_nat (length app)) with false
        by (symmetry; apply Z.ltb_ge; pose proof (Z.div_pos pc 4 Epc ltac:(lia)); lia).
      unfold finish3. cbn [m3_l1d m3_mem m3_regs m3_cycle].
      rewrite (flush_ok l1d sc m ms HV).
      eexists. split; [reflexivity|]. cbn [cost3 t_d]. split; [reflexivity|].
      pose proof (zlen_nonneg (s_rec sc)). unfold MemoryAccess. lia. }
    destruct (nth_app _ _ _ Enth) as (i & Ei & ->).
    assert (Hlt : pc / 4 < Z.of_nat (length app)).
    { assert ((Z.to_nat (pc / 4) < length app)%nat) by (apply nth_error_Some; congruence).
      pose proof (Z.div_pos pc 4 Epc ltac:(lia)). lia. }
    replace (pc / 4 <? Z.of_nat (length app)) with true by (symmetry; apply Z.ltb_lt; exact Hlt).
    destruct (fetch_ok l1i pc HI Epc) as (l1i1 & hit & Eg & l1i2 & Et & HI2 & Hc1 & Hti). rewrite Eg, Et.
    replace (pc / 4 <? 0) with false by (symmetry; apply Z.ltb_ge; apply Z.div_pos; lia).
    rewrite Ei. cbv zeta. rewrite memory_read_exact.
    set (rr := rget rg) in *.
    assert (Hrr : forall r, int32 (rr r)) by (intros r; apply rget_int32; exact Hr).
    destruct Hacc as [[Hsl_l Hsl_s] Hacc].
    destruct (negb (forallb (in_mem ms) (load_addrs (sinstr_of i) rr))) eqn:Eb; [discriminate|].
    apply negb_false_iff in Eb.
    destruct (load_block_ok l1d sc m ms _ HV Eb Hsl_l) as (l1d1 & sc1 & m1 & El & Hc2 & HV1 & Htd). rewrite El.
    rewrite (run_refines_spec rr labels pc _ 0 Hrr i (imm_ok _ Happ _ _ Ei) (load_addrs_mem_ok _ rr ms Hm)).
    destruct (exec (sinstr_of i) rr labels pc (map (mget ms) (load_addrs (sinstr_of i) rr))) as [e|err|] eqn:Eex;
      [|discriminate|discriminate].
    cbn [omap].
    destruct (cycles_total i) as (c3 & Ec3 & Hc3). rewrite Ec3.
    pose proof (exec_ranges _ _ _ _ _ _ Hlab Eex) as Hrange.
    pose proof (spec_writes_sound _ _ _ _ _ _ Eex) as Hwr.
    pose proof (store_addrs_effect _ _ _ _ _ _ Eex) as Hsae.
    destruct (pc_next _ Happ pc i Epc Ei) as [Hpc4 Hpc4r].
    (* the cost of this event *)
    cbn [cost3]. unfold ev_cost at 1 2. cbn [fst snd]. rewrite Ei. cbv zeta. cbn [t_i t_d]. rewrite Ec3.
    set (c1 := snd (a_fetch (map lo (lines l1i)) pc)) in *.
    set (c2 := snd (a_load (s_rec sc) (load_addrs (sinstr_of i) rr))) in *.
    rewrite <- Hti, <- Htd.
    unfold writeback.
    destruct e as [rd val|bs| |a|rd val a|]; cbn [embed] in *.
    - (* register write *)
      destruct (reg_pair rd val) as [r x] eqn:Erp. cbn [Return PcChange RegisterChange Register RegisterValue].
      cbv zeta. rewrite Hpc4. rewrite Hwr. cbn [fst snd].
      assert (Ers : rset rg r x = rset rg rd val).
      { rewrite <- (rset_reg_pair rg rd val), Erp. reflexivity. }
      rewrite Ers.
      edestruct (IH (rset rg rd val) m1 (cyc + c1 + cyclesDecode + c2 + c3 + RegisterAccess) l1i2 l1d1 sc1 ms (pc + 4) (pc :: tr) st' tr')
        as (c & Hc & Hceq & Hle); try eassumption.
      { split; [apply rset_int32; assumption | assumption]. }
      exists c. split; [exact Hc|]. split; [rewrite Hceq; lia|].
      cbn [length] in Hle. unfold cyclesDecode, RegisterAccess in Hle. lia.
    - (* store *)
      cbn [Return PcChange RegisterChange MemoryChange MemoryChanges]. cbv zeta. rewrite Hpc4. rewrite Hwr.
      destruct (negb (forallb (in_mem ms) (map fst bs))) eqn:Eb2; [discriminate|]. apply negb_false_iff in Eb2.
      pose proof (spec_store_addrs _ _ _ _ _ _ Eex) as Hsa.
      pose proof (v_small _ _ _ _ HV1) as Hsm.
      assert (Hcs : map fst bs = consec (hd 0 (map fst bs)) (length bs)).
      { rewrite <- (map_length fst bs). rewrite Hsa. apply (store_addrs_consec _ _ ms); [rewrite <- Hsa; exact Eb2 | exact Hsm]. }
      destruct (store_block_ok (m3run f app labels) rg m1 (cyc + c1 + cyclesDecode + c2 + c3) l1i2 l1d1 sc1 ms (pc + 4) bs _
                  HV1 (estore_nonempty _ _ _ _ _ _ Eex) Hcs Eb2 ltac:(rewrite Hsa; exact Hsl_s))
        as (l1d2 & sc2 & m2 & Esb & Hk & HV2 & Htd2).
      rewrite Esb. rewrite Hsa in Hk, Htd2 |- *.
      assert (Hne : store_addrs (sinstr_of i) rr <> []).
      { rewrite <- Hsa. intros E. apply map_eq_nil in E. revert E. apply (estore_nonempty _ _ _ _ _ _ Eex). }
      destruct (store_addrs (sinstr_of i) rr) as [|sa0 sat] eqn:Esa; [congruence|].
      set (k := snd (a_store (s_rec sc1) (sa0 :: sat))) in *.
      edestruct (IH rg m2 (cyc + c1 + cyclesDecode + c2 + c3 + k) l1i2 l1d2 sc2 (mset_all ms bs) (pc + 4) (pc :: tr) st' tr')
        as (c & Hc & Hceq & Hle); try eassumption.
      { split; [assumption | apply mset_all_int8; assumption]. }
      exists c. split; [exact Hc|]. split; [cbn [fst snd]; rewrite Hceq, Htd2; lia|].
      cbn [length] in Hle. unfold cyclesDecode in Hle. lia.
    - (* fall through *)
      cbn [Return PcChange RegisterChange MemoryChange]. cbv zeta. rewrite Hpc4. rewrite Hwr, Hsae. cbn [fst snd].
      edestruct (IH rg m1 (cyc + c1 + cyclesDecode + c2 + c3) l1i2 l1d1 sc1 ms (pc + 4) (pc :: tr) st' tr')
        as (c & Hc & Hceq & Hle); try eassumption.
      { split; assumption. }
      exists c. split; [exact Hc|]. split; [rewrite Hceq; lia|].
      cbn [length] in Hle. unfold cyclesDecode in Hle. lia.
    - (* taken branch / jump *)
      cbn [Return PcChange RegisterChange MemoryChange NextPc]. cbv zeta. rewrite Hwr, Hsae. cbn [fst snd].
      edestruct (IH rg m1 (cyc + c1 + cyclesDecode + c2 + c3) l1i2 l1d1 sc1 ms a (pc :: tr) st' tr')
        as (c & Hc & Hceq & Hle); try eassumption.
      { split; assumption. }
      exists c. split; [exact Hc|]. split; [rewrite Hceq; lia|].
      cbn [length] in Hle. unfold cyclesDecode in Hle. lia.
    - (* jump and link *)
      destruct (reg_pair rd val) as [r x] eqn:Erp. cbn [Return PcChange RegisterChange Register RegisterValue NextPc].
      cbv zeta. rewrite Hwr. cbn [fst snd].
      assert (Ers : rset rg r x = rset rg rd val).
      { rewrite <- (rset_reg_pair rg rd val), Erp. reflexivity. }
      rewrite Ers. destruct Hrange as [Hv1 Ha].
      edestruct (IH (rset rg rd val) m1 (cyc + c1 + cyclesDecode + c2 + c3 + RegisterAccess) l1i2 l1d1 sc1 ms a (pc :: tr) st' tr')
        as (c & Hc & Hceq & Hle); try eassumption.
      { split; [apply rset_int32; assumption | assumption]. }
      exists c. split; [exact Hc|]. split; [rewrite Hceq; lia|].
      cbn [length] in Hle. unfold cyclesDecode, RegisterAccess in Hle. lia.
    - (* ret: flush *)
      cbn [Return]. unfold fetch in Hrun. rewrite Enth in Hrun.
      replace (pc <? 0) with false in Hrun by (symmetry; apply Z.ltb_ge; lia).
      injection Hrun as <- <-. rewrite Hwr, Hsae. cbn [fst snd cost3 t_d].
      unfold finish3. cbn [m3_l1d m3_mem m3_regs m3_cycle].
      rewrite (flush_ok l1d1 sc1 m1 ms HV1).
      eexists. split; [reflexivity|]. split; [lia|].
      pose proof (zlen_nonneg (s_rec sc1)). cbn [length]. unfold cyclesDecode, MemoryAccess. lia.
  Qed.
End Refine3.

(* ------------------------------------------------------------------ *)
(* the initial state                                                    *)

Lemma init_caches : exists c0, new_cache l1LineSize l1Size = Ok c0 /\ IInv c0 /\ DInv c0 (s_new 64 1024) /\ lines c0 = [].
Proof.
  destruct (new_refines 64 1024 eq_refl) as (c0 & E & Hi & Hr).
  exists c0. split; [exact E|]. unfold new_cache in E. cbn in E. injection E as <-. split; [|split; [|reflexivity]].
  - repeat split. constructor.
  - constructor; auto; cbn [s_new s_rec s_cap s_len]; try reflexivity.
    + intros b [].
    + unfold zlen. cbn [length]. lia.
Qed.

Definition mem_small (st : arch) : Prop := Z.of_nat (length (mem st)) <= 2147483584.   (* 2^31 - 64 *)

Lemma init_VInv c0 m : DInv c0 (s_new 64 1024) -> Z.of_nat (length m) <= 2147483584 -> VInv c0 (s_new 64 1024) m m.
Proof. intros HD Hm. constructor; auto. Qed.

Section Top3.
  Variables (app : list instr) (labels : Z -> option Z).
  Hypothesis Happ : wf_app app.
  Hypothesis Hlab : wf_labels labels.
  Let sp := map sinstr_of app.

  (* errors the ISA defines (division by zero, undefined label) are returned as
     error values, never as a panic or a hang - also with the caches in between *)
  Theorem m3run_errors : forall fuel rg m cyc l1i l1d sc ms pc tr e tr',
    IInv l1i -> VInv l1d sc m ms -> inv rg ms -> int32 pc ->
    accesses_ok fuel sp labels (mk_arch rg ms) pc ->
    Seq.run fuel sp labels (mk_arch rg ms) pc tr = Failed e tr' ->
    e = EDivZero \/ e = ELabel ->
    m3run fuel app labels (mk_m3 rg m cyc l1i l1d) pc = MErr e.
  Proof.
    induction fuel as [|f IH]; intros rg m cyc l1i l1d sc ms pc tr e0 tr' HI HV [Hr Hm] Hpc Hacc Hrun He; [discriminate|].
    cbn [Seq.run] in Hrun. cbn [accesses_ok] in Hacc. unfold Seq.step in Hrun, Hacc.
    cbn [Seq.regs Seq.mem] in Hrun, Hacc.
    destruct (pc <? 0) eqn:Epc.
    { injection Hrun as <- _. destruct He; discriminate. }
    apply Z.ltb_ge in Epc.
    rewrite m3run_S. cbn [m3_l1i m3_l1d m3_mem m3_regs m3_cycle]. rewrite (quot_div pc Epc).
    destruct (nth_error sp (Z.to_nat (pc / 4))) as [si|] eqn:Enth.
    2:{ unfold fetch in Hrun. rewrite Enth in Hrun. destruct (pc <? 0); discriminate. }
    destruct (nth_app _ _ _ Enth) as (i & Ei & ->).
    assert (Hlt : pc / 4 < Z.of_nat (length app)).
    { assert ((Z.to_nat (pc / 4) < length app)%nat) by (apply nth_error_Some; congruence).
      pose proof (Z.div_pos pc 4 Epc ltac:(lia)). lia. }
    replace (pc / 4 <? Z.of_nat (length app)) with true by (symmetry; apply Z.ltb_lt; exact Hlt).
    destruct (fetch_ok l1i pc HI Epc) as (l1i1 & hit & Eg & l1i2 & Et & HI2 & Hc1 & Hti). rewrite Eg, Et.
    replace (pc / 4 <? 0) with false by (symmetry; apply Z.ltb_ge; apply Z.div_pos; lia).
    rewrite Ei. cbv zeta. rewrite memory_read_exact.
    set (rr := rget rg) in *.
    assert (Hrr : forall r, int32 (rr r)) by (intros r; apply rget_int32; exact Hr).
    destruct Hacc as [[Hsl_l Hsl_s] Hacc].
    destruct (negb (forallb (in_mem ms) (load_addrs (sinstr_of i) rr))) eqn:Eb.
    { injection Hrun as <- _. destruct He; discriminate. }
    apply negb_false_iff in Eb.
    destruct (load_block_ok l1d sc m ms _ HV Eb Hsl_l) as (l1d1 & sc1 & m1 & El & Hc2 & HV1 & Htd). rewrite El.
    rewrite (run_refines_spec rr labels pc _ 0 Hrr i (imm_ok _ Happ _ _ Ei) (load_addrs_mem_ok _ rr ms Hm)).
    destruct (exec (sinstr_of i) rr labels pc (map (mget ms) (load_addrs (sinstr_of i) rr))) as [e|err|] eqn:Eex.
    2:{ injection Hrun as <- _. reflexivity. }
    2:{ injection Hrun as <- _. destruct He; discriminate. }
    cbn [omap].
    destruct (cycles_total i) as (c3 & Ec3 & Hc3). rewrite Ec3.
    pose proof (exec_ranges _ _ _ _ _ _ Hlab Eex) as Hrange.
    destruct (pc_next _ Happ pc i Epc Ei) as [Hpc4 Hpc4r].
    unfold writeback.
    destruct e as [rd val|bs| |a|rd val a|]; cbn [embed] in *.
    - destruct (reg_pair rd val) as [r x] eqn:Erp. cbn [Return PcChange RegisterChange Register RegisterValue].
      cbv zeta. rewrite Hpc4.
      assert (Ers : rset rg r x = rset rg rd val).
      { rewrite <- (rset_reg_pair rg rd val), Erp. reflexivity. }
      rewrite Ers. eapply IH; try eassumption. split; [apply rset_int32; assumption | assumption].
    - cbn [Return PcChange RegisterChange MemoryChange MemoryChanges]. cbv zeta. rewrite Hpc4.
      destruct (negb (forallb (in_mem ms) (map fst bs))) eqn:Eb2.
      { injection Hrun as <- _. destruct He; discriminate. }
      apply negb_false_iff in Eb2.
      pose proof (spec_store_addrs _ _ _ _ _ _ Eex) as Hsa.
      pose proof (v_small _ _ _ _ HV1) as Hsm.
      assert (Hcs : map fst bs = consec (hd 0 (map fst bs)) (length bs)).
      { rewrite <- (map_length fst bs). rewrite Hsa. apply (store_addrs_consec _ _ ms); [rewrite <- Hsa; exact Eb2 | exact Hsm]. }
      destruct (store_block_ok (m3run f app labels) rg m1
                  (cyc + snd (a_fetch (map lo (lines l1i)) pc) + cyclesDecode +
                   snd (a_load (s_rec sc) (load_addrs (sinstr_of i) rr)) + c3) l1i2 l1d1 sc1 ms (pc + 4) bs _
                  HV1 (estore_nonempty _ _ _ _ _ _ Eex) Hcs Eb2 ltac:(rewrite Hsa; exact Hsl_s))
        as (l1d2 & sc2 & m2 & Esb & Hk & HV2 & Htd2).
      rewrite Esb. eapply IH; try eassumption. split; [assumption | apply mset_all_int8; assumption].
    - cbn [Return PcChange RegisterChange MemoryChange]. cbv zeta. rewrite Hpc4.
      eapply IH; try eassumption. split; assumption.
    - cbn [Return PcChange RegisterChange MemoryChange NextPc]. cbv zeta.
      eapply IH; try eassumption. split; assumption.
    - destruct (reg_pair rd val) as [r x] eqn:Erp. cbn [Return PcChange RegisterChange Register RegisterValue NextPc].
      cbv zeta.
      assert (Ers : rset rg r x = rset rg rd val).
      { rewrite <- (rset_reg_pair rg rd val), Erp. reflexivity. }
      rewrite Ers. destruct Hrange as [Hv1 Ha].
      eapply IH; try eassumption. split; [apply rset_int32; assumption | assumption].
    - unfold fetch in Hrun. rewrite Enth in Hrun. destruct (pc <? 0); discriminate.
  Qed.

  (* C01/C05 (MVP-3): for every well-formed program on which the sequential
     machine terminates, with accesses that do not straddle a cache line, the
     run returns - no error, no panic, within the same fuel - exactly the
     sequential registers AND memory: every load saw the most recent store and
     after the final flush every store is in main memory, for any access
     pattern, working-set size and eviction sequence. *)
  Theorem mvp3_refines_seq : forall fuel st st' tr,
    inv (regs st) (mem st) -> mem_small st ->
    accesses_ok fuel sp labels st 0 ->
    seq_run fuel sp labels st = Done st' tr ->
    mvp3_run fuel app labels st = MDone (cost3 app (mkT [] []) (events fuel sp labels st 0)) st' /\
    Z.of_nat (length tr) <= cost3 app (mkT [] []) (events fuel sp labels st 0).
  Proof.
    intros fuel [rg mm] st' tr Hinv Hsm Hacc Hrun. unfold seq_run in Hrun. cbn [regs mem] in *.
    destruct init_caches as (c0 & E0 & HI0 & HD0 & Hl0). unfold mvp3_run. rewrite E0. cbn [regs mem].
    destruct (m3run_refines app labels Happ Hlab fuel rg mm 0 c0 c0 (s_new 64 1024) mm 0 [] st' tr
                HI0 (init_VInv c0 mm HD0 Hsm) Hinv ltac:(unf_rng; lia) Hacc Hrun) as (c & Hc & Hceq & Hle).
    rewrite Hl0 in Hceq. cbn [map s_new s_rec] in Hceq. rewrite Z.add_0_l in Hceq. subst c.
    split; [exact Hc|]. cbn [length] in Hle. unfold sp. lia.
  Qed.

  Theorem mvp3_errors_are_values : forall fuel st e tr,
    inv (regs st) (mem st) -> mem_small st ->
    accesses_ok fuel sp labels st 0 ->
    seq_run fuel sp labels st = Failed e tr -> e = EDivZero \/ e = ELabel ->
    mvp3_run fuel app labels st = MErr e.
  Proof.
    intros fuel [rg mm] e tr Hinv Hsm Hacc Hrun He. unfold seq_run in Hrun. cbn [regs mem] in *.
    destruct init_caches as (c0 & E0 & HI0 & HD0 & Hl0). unfold mvp3_run. rewrite E0. cbn [regs mem].
    eapply (m3run_errors fuel rg mm 0 c0 c0 (s_new 64 1024) mm 0 [] e tr); try eassumption.
    - apply init_VInv; assumption.
    - unf_rng; lia.
  Qed.

  (* C07 (MVP-3): no panic, no divergence *)
  Corollary mvp3_no_panic : forall fuel st st' tr,
    inv (regs st) (mem st) -> mem_small st ->
    accesses_ok fuel sp labels st 0 ->
    seq_run fuel sp labels st = Done st' tr ->
    mvp3_run fuel app labels st <> MPanic /\ mvp3_run fuel app labels st <> MOutOfFuel.
  Proof.
    intros fuel st st' tr Hinv Hsm Hacc Hrun.
    destruct (mvp3_refines_seq fuel st st' tr Hinv Hsm Hacc Hrun) as (-> & _). split; discriminate.
  Qed.

  (* C05: after the final flush main memory holds every store of the run, byte
     for byte - nothing is left behind in the L1D *)
  Corollary mvp3_flush_complete : forall fuel st st' tr,
    inv (regs st) (mem st) -> mem_small st ->
    accesses_ok fuel sp labels st 0 ->
    seq_run fuel sp labels st = Done st' tr ->
    exists c st3, mvp3_run fuel app labels st = MDone c st3 /\ mem st3 = mem st' /\ regs st3 = regs st'.
  Proof.
    intros fuel st st' tr Hinv Hsm Hacc Hrun.
    destruct (mvp3_refines_seq fuel st st' tr Hinv Hsm Hacc Hrun) as (Hc & _). eexists _, st'. eauto.
  Qed.
  (* C12 (MVP-3): the cycle count is a function of the program and of the sequence of
     (pc, loaded addresses, stored addresses) only - it does not depend on the
     values in registers and memory *)
  Theorem mvp3_value_independent : forall fuel st1 st2 st1' st2' tr1 tr2,
    inv (regs st1) (mem st1) -> mem_small st1 -> accesses_ok fuel sp labels st1 0 ->
    inv (regs st2) (mem st2) -> mem_small st2 -> accesses_ok fuel sp labels st2 0 ->
    seq_run fuel sp labels st1 = Done st1' tr1 ->
    seq_run fuel sp labels st2 = Done st2' tr2 ->
    events fuel sp labels st1 0 = events fuel sp labels st2 0 ->
    exists c, mvp3_run fuel app labels st1 = MDone c st1' /\ mvp3_run fuel app labels st2 = MDone c st2'.
  Proof.
    intros fuel st1 st2 st1' st2' tr1 tr2 I1 S1 A1 I2 S2 A2 R1 R2 Hev.
    destruct (mvp3_refines_seq fuel st1 st1' tr1 I1 S1 A1 R1) as [H1 _].
    destruct (mvp3_refines_seq fuel st2 st2' tr2 I2 S2 A2 R2) as [H2 _].
    eexists. split; [exact H1|]. rewrite Hev. exact H2.
  Qed.
End Top3.

(* C05: every load through the L1D returns the most recently stored bytes: in
   a state related to the sequential memory ms (the memory after all earlier
   stores), the bytes handed to the instruction are ms's, whether the line was
   resident, had to be fetched, or another line had to be evicted for it *)
Theorem mvp3_loads_see_last_store c sc m ms addrs : VInv c sc m ms ->
  forallb (in_mem ms) addrs = true -> same_line addrs = true ->
  exists c' sc' m' c2, load_block c m addrs = Ok (c', m', map (mget ms) addrs, c2) /\ 0 <= c2 /\
    VInv c' sc' m' ms.
Proof.
  intros HV Hin Hsl. destruct (load_block_ok c sc m ms addrs HV Hin Hsl) as (c' & sc' & m' & E & Hc & HV' & _).
  exists c', sc', m', (snd (a_load (s_rec sc) addrs)). auto.
Qed.

(* ------------------------------------------------------------------ *)
(* non-vacuity: a program that touches 20 different lines (the L1D holds 16):
   it stores a word to 0, 64, ..., 1216, reads all of them back (the first
   lines have been evicted and written back by then), and stores the sum *)

Definition ex_prog : list sinstr :=
  [ SLi 5 0; SLi 6 1280;
    (* 8: loop1 *) SSw 5 0 5; SSb 6 3 5; SAddi 5 5 64; SBlt 5 6 1;
    SLi 5 0; SLi 7 0;
    (* 32: loop2 *) SLw 28 0 5; SAdd 7 7 28; SLh 28 2 5; SAdd 7 7 28; SAddi 5 5 64; SBlt 5 6 2;
    SSw 7 2000 0; SRet ].
Definition ex_labels : Z -> option Z := lookup [(1, 8); (2, 32)].
Definition ex_state : arch := mk_arch (repeat 0 32) (repeat 0 2048).

Fixpoint accesses_okb (fuel : nat) (p : list sinstr) (labels : Z -> option Z) (st : arch) (pc : Z) : bool :=
  match fuel with
  | O => true
  | S f =>
      match nth_error p (Z.to_nat (pc / 4)) with
      | Some i => same_line (load_addrs i (rget (regs st))) && same_line (store_addrs i (rget (regs st)))
      | None => true
      end &&
      match Seq.step p labels st pc with
      | Next st' pc' => accesses_okb f p labels st' pc'
      | _ => true
      end
  end.

Lemma accesses_okb_spec fuel p labels : forall st pc,
  accesses_okb fuel p labels st pc = true -> accesses_ok fuel p labels st pc.
Proof.
  induction fuel as [|f IH]; intros st pc H; cbn [accesses_okb accesses_ok] in *; [exact I|].
  apply andb_prop in H. destruct H as [H1 H2]. split.
  - destruct (nth_error p (Z.to_nat (pc / 4))); [|exact I]. apply andb_prop in H1. exact H1.
  - destruct (Seq.step p labels st pc); auto.
Qed.

Example mvp3_example :
  let app := map instr_of ex_prog in
  wf_app app /\ wf_labels ex_labels /\ inv (regs ex_state) (mem ex_state) /\ mem_small ex_state /\
  accesses_ok 300 (map sinstr_of app) ex_labels ex_state 0 /\
  exists st' tr c,
    seq_run 300 (map sinstr_of app) ex_labels ex_state = Done st' tr /\
    mvp3_run 300 app ex_labels ex_state = MDone c st' /\
    length tr = 206%nat /\ c = 27333 /\ mget (mem st') 1216 = -64 /\ mget (mem st') 2000 = -128 /\ mget (mem st') 2001 = 47.
Proof.
  cbv zeta. split; [|split; [|split; [|split; [|split]]]].
  - split; [|vm_compute; reflexivity]. cbn [map ex_prog instr_of]. repeat constructor; vm_compute; discriminate.
  - intros l a H. unfold ex_labels in H. cbn [lookup] in H.
    destruct (l =? 1); [injection H as <-; apply int32_bounds; lia|].
    destruct (l =? 2); [injection H as <-; apply int32_bounds; lia|]. discriminate.
  - split; apply Forall_forall; intros x Hx; apply repeat_spec in Hx; subst x; [apply int32_0 | apply int8_0].
  - vm_compute. discriminate.
  - apply accesses_okb_spec. vm_compute. reflexivity.
  - do 3 eexists. split; [vm_compute; reflexivity|]. split; [vm_compute; reflexivity|].
    vm_compute. repeat split; reflexivity.
Qed.

(* ------------------------------------------------------------------ *)
(* why accesses_ok is a hypothesis: accesses that straddle a 64-byte line *)

Definition no_labels : Z -> option Z := fun _ => None.
Definition ex_state128 : arch := mk_arch (repeat 0 32) (repeat 0 128).

(* a word load at 62 covers bytes 62..65: the miss on 62 fetches line 0, the
   retry misses on 64: panic("cache line doesn't exist"), where the sequential
   machine (and MVP-1) simply load the word *)
Theorem mvp3_straddling_load_panics_refuted :
  let p := [SLw 5 62 0; SRet] in
  (exists st' tr, seq_run 10 p no_labels ex_state128 = Done st' tr) /\
  mvp3_run 10 (map instr_of p) no_labels ex_state128 = MPanic.
Proof. cbv zeta. split; [do 2 eexists|]; vm_compute; reflexivity. Qed.

(* a word store at 62 with line 0 resident and line 64 absent goes to memory
   only (getFromL1D fails on byte 64), the resident line keeps the old bytes
   62 and 63: the next load returns the stale byte, and the final flush writes
   the stale line over the stored bytes *)
Theorem mvp3_straddling_store_lost_refuted :
  let p := [SLb 6 0 0; SLi 5 16909060; SSw 5 62 0; SLb 7 62 0; SRet] in
  exists st' tr c st3,
    seq_run 10 p no_labels ex_state128 = Done st' tr /\
    mvp3_run 10 (map instr_of p) no_labels ex_state128 = MDone c st3 /\
    rget (regs st') 7 = 4 /\ mget (mem st') 62 = 4 /\ mget (mem st') 63 = 3 /\
    rget (regs st3) 7 = 0 /\ mget (mem st3) 62 = 0 /\ mget (mem st3) 63 = 0.
Proof. cbv zeta. do 4 eexists. split; [vm_compute; reflexivity|]. split; [vm_compute; reflexivity|]. vm_compute. repeat split; reflexivity. Qed.

(* observed while proving (no hypothesis needed, the sequential run excludes it):
   the store path through the L1D has no bounds check.  With 100 bytes of memory
   the line 64..127 is zero-padded; a store to 110 is an error for the sequential
   machine (EBounds) and a panic in MVP-1, but MVP-3 writes it into the padding,
   a later load reads it back, and the flush drops it *)
Theorem mvp3_store_past_end_in_resident_line_accepted :
  let p := [SLb 6 64 0; SLi 5 7; SSb 5 110 0; SLb 7 110 0; SRet] in
  let st := mk_arch (repeat 0 32) (repeat 0 100) in
  seq_run 10 p no_labels st = Failed EBounds [8; 4; 0] /\
  mvp12_run V1 10 (map instr_of p) no_labels st = MPanic /\
  exists c st3, mvp3_run 10 (map instr_of p) no_labels st = MDone c st3 /\ rget (regs st3) 7 = 7 /\
                length (mem st3) = 100%nat.
Proof. cbv zeta. split; [vm_compute; reflexivity|]. split; [vm_compute; reflexivity|]. do 2 eexists. split; [vm_compute; reflexivity|]. vm_compute. split; reflexivity. Qed.
