(* Theorems about the MVP-4 model (Mvp4.v, the five-stage in-order pipeline) on
   register-only programs: it computes the sequential result (C01), in a number
   of cycles that depends on the program and the path only (C12), at least one
   cycle per executed instruction, and terminates within a bound that is linear
   in the number of executed instructions, without panic (C07).

   Structure: Mvp4Skel.v (skeleton = control state without values, driven by the
   path), Mvp4Inv.v/Mvp4Units.v/Mvp4Front.v (the skeleton keeps its invariant and
   makes progress), Mvp4Sim.v (model = skeleton + sequential values, cycle for
   cycle).  Here the pieces are put together. *)
From Coq Require Import ZArith List Bool Lia.
From Maj Require Import Base.Outcome Base.GoInt Base.GoTypes Isa.Spec Isa.Embed Isa.Seq Isa.Refine.
From Maj Require Import Gen.Latency Gen.RiscTables Gen.Opcodes Comp.Cache Comp.CacheProofs.
From Maj Require Import Mvp.Mvp12 Mvp.Mvp12Proofs Mvp.Mvp3 Mvp.Mvp3Proofs Mvp.Mvp4 Mvp.Mvp4Skel Mvp.Mvp4Inv Mvp.Mvp4Units
     Mvp.Mvp4Front Mvp.Mvp4Sim.
Import ListNotations.
Open Scope Z_scope.

(* ------------------------------------------------------------------ *)
(* unconditional: a finished run counted at least one cycle             *)

Lemma flush_lines_ge ls : forall mem c0 mem' c, flush_lines ls mem c0 = Ok (mem', c) -> c0 <= c.
Proof.
  induction ls as [|l t IH]; intros mem c0 mem' c H; cbn [flush_lines] in H.
  - injection H as _ <-. lia.
  - apply bind_ok in H as (m1 & _ & H). apply IH in H. unfold MemoryAccess in H. lia.
Qed.

Lemma finish_ge s cyc c st : m4_finish s cyc = MDone c st -> cyc <= c.
Proof.
  unfold m4_finish. destruct (flush_lines (lines (s_l1d s)) (s_mem s) 0) as [[mem' c0]| |] eqn:E; try discriminate.
  intros H. injection H as <- _. apply flush_lines_ge in E. lia.
Qed.

Lemma drain_ge fuel : forall regs mem pw w wbus cyc tick regs' mem' pw' w' wbus' cyc',
  m4_drain fuel regs mem pw w wbus cyc tick = Ok (regs', mem', pw', w', wbus', cyc') -> cyc <= cyc'.
Proof.
  induction fuel as [|f IH]; intros regs mem pw w wbus cyc tick regs' mem' pw' w' wbus' cyc' H; cbn [m4_drain] in H; [discriminate|].
  destruct (negb (wu_pending w) && sbus_is_empty wbus).
  - injection H as _ _ _ _ _ <-. lia.
  - apply bind_ok in H as ([[[[r1 m1] p1] w1] b1] & _ & H). apply IH in H. destruct tick; lia.
Qed.

Theorem m4run_cycles_ge app labels : forall fuel s cyc c st,
  m4run fuel app labels s cyc = MDone c st -> cyc + 1 <= c.
Proof.
  induction fuel as [|f IH]; intros s cyc c st H; [discriminate|]. cbn [m4run] in H.
  destruct (fu_cycle app (s_fu s) (s_l1i s) (s_dbus s)) as [[[fu1 l1i1] dbus1]| |]; try discriminate.
  destruct (du_cycle app dbus1 (s_ebus s)) as [[dbus2 ebus1]| |]; try discriminate.
  destruct (eu_cycle labels _ ebus1) as [[[[env1 ebus2] o]| |]|]; try discriminate.
  destruct (wu_cycle _ _ _ _ _) as [[[[[regs2 mem2] pw2] wu2] wbus2]| |]; try discriminate.
  destruct (eo_ret o).
  { destruct (m4_drain _ _ _ _ _ _ _ _) as [[[[[[regs3 mem3] pw3] wu3] wbus3] cycle3]| |] eqn:Ed; try discriminate.
    apply drain_ge in Ed. apply finish_ge in H. lia. }
  destruct (eo_flush o).
  { destruct (m4_drain _ _ _ _ _ _ _ _) as [[[[[[regs3 mem3] pw3] wu3] wbus3] cycle3]| |] eqn:Ed; try discriminate.
    apply drain_ge in Ed. apply IH in H. lia. }
  destruct (m4_is_complete _).
  - apply finish_ge in H. lia.
  - apply IH in H. lia.
Qed.

Theorem mvp4_cycles_at_least_one fuel app labels st c st' :
  mvp4_run fuel app labels st = MDone c st' -> 1 <= c.
Proof.
  unfold mvp4_run. destruct (new_cache l1LineSize l1Size) as [ci| |]; try discriminate.
  intros H. apply m4run_cycles_ge in H. lia.
Qed.

(* ------------------------------------------------------------------ *)
(* skeleton runs and fuel                                               *)

Lemma sk_run_more app : forall fuel k a path cyc c,
  sk_run fuel app a path cyc = Some c -> sk_run (fuel + k) app a path cyc = Some c.
Proof.
  induction fuel as [|f IH]; intros k a path cyc c H; [discriminate|]. cbn [sk_run Nat.add] in *.
  destruct (sk_cycle app a path) as [a' path' dc|dc|]; auto.
Qed.

Lemma m4run_more app labels : forall fuel k s cyc c st,
  m4run fuel app labels s cyc = MDone c st -> m4run (fuel + k) app labels s cyc = MDone c st.
Proof.
  induction fuel as [|f IH]; intros k s cyc c st H; [discriminate|]. cbn [m4run Nat.add] in *.
  destruct (fu_cycle app (s_fu s) (s_l1i s) (s_dbus s)) as [[[fu1 l1i1] dbus1]| |]; try discriminate.
  destruct (du_cycle app dbus1 (s_ebus s)) as [[dbus2 ebus1]| |]; try discriminate.
  destruct (eu_cycle labels _ ebus1) as [[[[env1 ebus2] o]| |]|]; try discriminate.
  destruct (wu_cycle _ _ _ _ _) as [[[[[regs2 mem2] pw2] wu2] wbus2]| |]; try discriminate.
  destruct (eo_ret o); [exact H|].
  destruct (eo_flush o).
  { destruct (m4_drain _ _ _ _ _ _ _ _) as [[[[[[regs3 mem3] pw3] wu3] wbus3] cycle3]| |]; try discriminate.
    apply IH. exact H. }
  destruct (m4_is_complete _); [exact H|]. apply IH. exact H.
Qed.

Lemma mvp4_run_more app labels fuel k st c st' :
  mvp4_run fuel app labels st = MDone c st' -> mvp4_run (fuel + k) app labels st = MDone c st'.
Proof.
  unfold mvp4_run. destruct (new_cache l1LineSize l1Size) as [ci| |]; try discriminate. apply m4run_more.
Qed.

Section Top4.
  Variables (app : list instr) (labels : Z -> option Z).
  Hypothesis Happ : wf_app app.
  Hypothesis Hlab : wf_labels labels.
  Hypothesis Hreg : reg_only app = true.
  Let sp := map sinstr_of app.

  (* the sequential run, as a path *)
  Lemma run_sexec : forall fuel st pc tr st' tr',
    Seq.run fuel sp labels st pc tr = Done st' tr' ->
    exists rest, seq_path fuel sp labels st pc = pc :: rest /\
      sexec app labels st (pc :: rest) st' /\
      (length tr + length rest <= length tr' <= length tr + length rest + 1)%nat.
  Proof.
    induction fuel as [|f IH]; intros st pc tr st' tr' H; [discriminate|].
    cbn [Seq.run seq_path] in *. destruct (Seq.step sp labels st pc) as [st1 pc1|st1|e] eqn:Es; [| |discriminate].
    - destruct (IH _ _ _ _ _ H) as (rest & Hp & Hs & Hl). rewrite Hp.
      exists (pc1 :: rest). split; [reflexivity|]. split; [eapply SE_next; eassumption|].
      cbn [length] in *. lia.
    - destruct (fetch sp pc) as [si|] eqn:Ef; injection H as <- <-; exists []; (split; [reflexivity|]);
        (split; [apply SE_halt; exact Es|]); cbn [length]; lia.
  Qed.

  Lemma step_class st pc : 0 <= pc ->
    match Seq.step sp labels st pc with
    | Halt _ => match nth_error app (Z.to_nat (pc / 4)) with Some i => is_ret i = true | None => True end
    | Next _ _ => exists i, nth_error app (Z.to_nat (pc / 4)) = Some i /\ is_ret i = false
    | Fail _ => True
    end.
  Proof.
    intros Hpc. unfold sp. destruct (nth_error app (Z.to_nat (pc / 4))) as [i|] eqn:Hi.
    - rewrite (step_nomem app labels Hreg st pc i Hpc Hi).
      destruct (exec (sinstr_of i) (rget (regs st)) labels pc []) as [e|err|] eqn:Ee; try exact I.
      pose proof (exec_return_is_ret _ _ _ _ _ _ Ee) as Hret.
      assert (Hnr : e <> EReturn -> exists i0, Some i = Some i0 /\ is_ret i0 = false).
      { intros Hne. exists i. split; [reflexivity|]. destruct (is_ret i); [|reflexivity]. exfalso. apply Hne, Hret. reflexivity. }
      destruct e; try (apply Hnr; discriminate).
      + destruct (negb _); [exact I | apply Hnr; discriminate].
      + apply Hret. reflexivity.
    - assert (Hout : nlen app <= pc / 4).
      { apply nth_error_None in Hi. unfold nlen. pose proof (Z.div_pos pc 4 Hpc ltac:(lia)). lia. }
      rewrite (step_out app labels st pc Hpc Hout). exact I.
  Qed.

  Lemma sexec_path_wf st path stf : sexec app labels st path stf -> path_below path = true -> path_wf app path.
  Proof.
    induction 1 as [st pc st' Hs | st pc st' pc' rest stf Hs HS IH]; intros Hb;
      cbn [path_below forallb] in Hb; apply andb_prop in Hb as [Hb1 Hb2]; apply Z.ltb_lt in Hb1.
    - assert (Hpc : 0 <= pc) by (eapply sexec_head_nonneg; eapply SE_halt; eassumption).
      pose proof (step_class st pc Hpc) as Hc. unfold sp in Hc. rewrite Hs in Hc. cbn [path_wf]. split; [lia | exact Hc].
    - assert (Hpc : 0 <= pc) by (eapply sexec_head_nonneg; eapply SE_next; eassumption).
      pose proof (step_class st pc Hpc) as Hc. unfold sp in Hc. rewrite Hs in Hc. cbn [path_wf]. split; [lia|]. split; [exact Hc|].
      apply IH. exact Hb2.
  Qed.

  (* the model follows the skeleton for a whole run *)
  Lemma sim_run : forall fuel a head rest cyc s st stf c,
    R s a st -> FInv app head a -> path_wf app (head :: rest) -> sexec app labels st (head :: rest) stf ->
    sk_run fuel app a (head :: rest) cyc = Some c ->
    m4run fuel app labels s cyc = MDone c stf.
  Proof.
    induction fuel as [|f IH]; intros a head rest cyc s st stf c HR HF Hwf HS H; [discriminate|].
    cbn [sk_run] in H.
    pose proof (sim_step app labels Happ Hlab Hreg f a head rest cyc s st stf HR HF HS) as Hsim.
    destruct (sk_cycle app a (head :: rest)) as [a' path' dc|dc|] eqn:Ec; [| |discriminate].
    - destruct Hsim as (s' & st1 & -> & HR' & HS').
      destruct (finv_step app Happ head rest a a' path' dc HF Hwf Ec) as (head' & rest' & -> & HF' & Hwf' & _).
      eapply IH; eassumption.
    - injection H as <-. exact Hsim.
  Qed.

  Lemma init_finv c0 : IInv c0 -> FInv app 0 (sk_init c0).
  Proof.
    intros HI. constructor; cbn [sk_init k_fu k_l1i k_dbus k_ebus k_eu k_pw k_wb fu_processing eu_processing eu_pending_read];
      auto; try discriminate; try lia.
    - exists O. constructor; cbn [fu_complete fu_pc]; try discriminate; try lia; reflexivity.
    - constructor.
  Qed.

  Definition fuel_bound (n : nat) : nat := ((n + 1) * Kstep)%nat.

  (* the run of the model as a function of the path *)
  Theorem mvp4_run_path fuel st st' tr :
    inv (regs st) (mem st) -> (length (regs st) <= 32)%nat ->
    seq_run fuel sp labels st = Done st' tr ->
    path_below (seq_path fuel sp labels st 0) = true ->
    exists c, (forall fuel', (fuel_bound (length tr) <= fuel')%nat ->
                 mvp4_run fuel' app labels st = MDone c st' /\
                 mvp4_cost fuel' app (seq_path fuel sp labels st 0) = Some c) /\
              Z.of_nat (length tr) <= c <= 2 * Z.of_nat (fuel_bound (length tr)).
  Proof.
    intros [Hri _] Hlen Hrun Hb. unfold seq_run in Hrun.
    destruct (run_sexec fuel st 0 [] st' tr Hrun) as (rest & Hp & HS & Hl).
    rewrite Hp in *. pose proof (sexec_path_wf _ _ _ HS Hb) as Hwf.
    destruct init_caches as (c0 & E0 & HI0 & _ & Hl0).
    pose proof (init_finv c0 HI0) as HF0.
    cbn [length] in Hl.
    assert (Hrest : (length rest <= length tr)%nat) by lia.
    set (m := (Z.to_nat (phi (sk_init c0)) + length rest * Kstep)%nat).
    pose proof (phi_bounds app 0 _ HF0) as Hphi.
    assert (Hm : (m < fuel_bound (length tr))%nat).
    { unfold m, fuel_bound, Kstep in *.
      assert ((length rest * S (Z.to_nat phi_max) <= length tr * S (Z.to_nat phi_max))%nat) by (apply Nat.mul_le_mono_r; exact Hrest).
      lia. }
    destruct (sk_run_term app Happ m rest (sk_init c0) 0 0 (fuel_bound (length tr)) HF0 Hwf ltac:(lia) Hm) as (c & Hc & Hcb).
    exists c. split.
    - intros fuel' Hf'. replace fuel' with (fuel_bound (length tr) + (fuel' - fuel_bound (length tr)))%nat by lia.
      pose proof (sk_run_more app _ (fuel' - fuel_bound (length tr)) _ _ _ _ Hc) as Hc'.
      split.
      + unfold mvp4_run. rewrite E0. eapply sim_run; [| exact HF0 | exact Hwf | exact HS | exact Hc'].
        destruct st as [rg mm]. cbn [regs mem] in *.
        apply (R_intro (sk_init c0) rg c0 0 (mk_bu false 0) None (mk_arch rg mm)); auto; try discriminate.
      + unfold mvp4_cost. rewrite E0. exact Hc'.
    - cbn [length] in Hcb. split; [lia|]. lia.
  Qed.

  (* 1. C01: the pipeline computes the sequential result (registers AND memory),
     no error, no panic; explicit fuel *)
  Theorem mvp4_refines_seq_regonly fuel st st' tr :
    inv (regs st) (mem st) -> (length (regs st) <= 32)%nat ->
    seq_run fuel sp labels st = Done st' tr ->
    path_below (seq_path fuel sp labels st 0) = true ->
    exists c, forall fuel', (fuel_bound (length tr) <= fuel')%nat -> mvp4_run fuel' app labels st = MDone c st'.
  Proof.
    intros Hinv Hlen Hrun Hb. destruct (mvp4_run_path fuel st st' tr Hinv Hlen Hrun Hb) as (c & Hc & _).
    exists c. intros fuel' Hf. apply Hc. exact Hf.
  Qed.

  (* 2. whenever the model finishes (with whatever fuel), the result is the sequential
     one and at least one cycle per executed instruction was counted *)
  Theorem mvp4_cycles_lower_bound fuel st st' tr fuel' c st'' :
    inv (regs st) (mem st) -> (length (regs st) <= 32)%nat ->
    seq_run fuel sp labels st = Done st' tr ->
    path_below (seq_path fuel sp labels st 0) = true ->
    mvp4_run fuel' app labels st = MDone c st'' ->
    st'' = st' /\ 1 <= c /\ Z.of_nat (length tr) <= c.
  Proof.
    intros Hinv Hlen Hrun Hb H. destruct (mvp4_run_path fuel st st' tr Hinv Hlen Hrun Hb) as (c0 & Hc & Hlb).
    destruct (Hc (fuel' + fuel_bound (length tr))%nat ltac:(lia)) as [H0 _].
    rewrite (mvp4_run_more _ _ _ _ _ _ _ H) in H0. injection H0 as -> ->.
    split; [reflexivity|]. split; [|lia]. eapply mvp4_cycles_at_least_one. exact H.
  Qed.

  (* 3. C12: the cycle count is a function of the program and the path *)
  Theorem mvp4_cycles_function_of_path fuel st st' tr :
    inv (regs st) (mem st) -> (length (regs st) <= 32)%nat ->
    seq_run fuel sp labels st = Done st' tr ->
    path_below (seq_path fuel sp labels st 0) = true ->
    forall fuel', (fuel_bound (length tr) <= fuel')%nat ->
    exists c, mvp4_cost fuel' app (seq_path fuel sp labels st 0) = Some c /\
              mvp4_run fuel' app labels st = MDone c st'.
  Proof.
    intros Hinv Hlen Hrun Hb fuel' Hf. destruct (mvp4_run_path fuel st st' tr Hinv Hlen Hrun Hb) as (c & Hc & _).
    exists c. destruct (Hc fuel' Hf). auto.
  Qed.

  Theorem mvp4_value_independent fuel st1 st2 st1' st2' tr1 tr2 :
    inv (regs st1) (mem st1) -> (length (regs st1) <= 32)%nat ->
    inv (regs st2) (mem st2) -> (length (regs st2) <= 32)%nat ->
    seq_run fuel sp labels st1 = Done st1' tr1 ->
    seq_run fuel sp labels st2 = Done st2' tr2 ->
    seq_path fuel sp labels st1 0 = seq_path fuel sp labels st2 0 ->
    path_below (seq_path fuel sp labels st1 0) = true ->
    exists c, forall fuel', (fuel_bound (Nat.max (length tr1) (length tr2)) <= fuel')%nat ->
      mvp4_run fuel' app labels st1 = MDone c st1' /\ mvp4_run fuel' app labels st2 = MDone c st2'.
  Proof.
    intros I1 L1 I2 L2 R1 R2 Hp Hb.
    destruct (mvp4_run_path fuel st1 st1' tr1 I1 L1 R1 Hb) as (c1 & Hc1 & _).
    rewrite Hp in Hb. destruct (mvp4_run_path fuel st2 st2' tr2 I2 L2 R2 Hb) as (c2 & Hc2 & _).
    exists c1. intros fuel' Hf.
    assert (Hf1 : (fuel_bound (length tr1) <= fuel')%nat).
    { unfold fuel_bound in *. pose proof (Nat.le_max_l (length tr1) (length tr2)).
      assert (((length tr1 + 1) * Kstep <= (Nat.max (length tr1) (length tr2) + 1) * Kstep)%nat) by (apply Nat.mul_le_mono_r; lia). lia. }
    assert (Hf2 : (fuel_bound (length tr2) <= fuel')%nat).
    { unfold fuel_bound in *. pose proof (Nat.le_max_r (length tr1) (length tr2)).
      assert (((length tr2 + 1) * Kstep <= (Nat.max (length tr1) (length tr2) + 1) * Kstep)%nat) by (apply Nat.mul_le_mono_r; lia). lia. }
    destruct (Hc1 fuel' Hf1) as [H1 K1]. destruct (Hc2 fuel' Hf2) as [H2 K2].
    rewrite Hp in K1. rewrite K1 in K2. injection K2 as <-. auto.
  Qed.

  (* 4. C07: termination within a bound linear in the number of executed instructions,
     no panic, no error; the cycle count is bounded as well *)
  Theorem mvp4_terminates fuel st st' tr :
    inv (regs st) (mem st) -> (length (regs st) <= 32)%nat ->
    seq_run fuel sp labels st = Done st' tr ->
    path_below (seq_path fuel sp labels st 0) = true ->
    exists c, mvp4_run (fuel_bound (length tr)) app labels st = MDone c st' /\
              Z.of_nat (length tr) <= c <= 2 * Z.of_nat (fuel_bound (length tr)).
  Proof.
    intros Hinv Hlen Hrun Hb. destruct (mvp4_run_path fuel st st' tr Hinv Hlen Hrun Hb) as (c & Hc & Hcb).
    exists c. split; [apply Hc; lia | exact Hcb].
  Qed.

  Corollary mvp4_no_panic fuel st st' tr fuel' :
    inv (regs st) (mem st) -> (length (regs st) <= 32)%nat ->
    seq_run fuel sp labels st = Done st' tr ->
    path_below (seq_path fuel sp labels st 0) = true ->
    (fuel_bound (length tr) <= fuel')%nat ->
    mvp4_run fuel' app labels st <> MPanic /\ mvp4_run fuel' app labels st <> MOutOfFuel /\
    (forall e, mvp4_run fuel' app labels st <> MErr e).
  Proof.
    intros Hinv Hlen Hrun Hb Hf. destruct (mvp4_refines_seq_regonly fuel st st' tr Hinv Hlen Hrun Hb) as (c & Hc).
    rewrite (Hc fuel' Hf). repeat split; try discriminate.
  Qed.
End Top4.

Lemma fuel_bound_value n : fuel_bound n = ((n + 1) * 415)%nat.
Proof. reflexivity. Qed.

(* ------------------------------------------------------------------ *)
(* why the hypotheses are there                                         *)

Definition no_lab : Z -> option Z := fun _ => None.
Definition zero_state : arch := mk_arch (repeat 0 32) (repeat 0 64).
Definition state_x5 (v : Z) : arch := mk_arch (Seq.upd (repeat 0 32) 5 v) (repeat 0 64).

(* path_below: a jump to an address in the last four bytes of the int32 range
   ends the sequential run (the pc is outside the text), but the fetch unit of
   MVP-4 fetches the target, its next pc wraps around to -2^31 + 2, and the
   decode unit indexes the program with a negative number: panic *)
Theorem mvp4_exit_near_int32_max_panics_refuted :
  let p := [SJalr 0 0 2147483646] in
  wf_app (map instr_of p) /\ reg_only (map instr_of p) = true /\
  (exists st' tr, seq_run 10 (map sinstr_of (map instr_of p)) no_lab zero_state = Done st' tr) /\
  path_below (seq_path 10 (map sinstr_of (map instr_of p)) no_lab zero_state 0) = false /\
  mvp4_run 2000 (map instr_of p) no_lab zero_state = MPanic.
Proof.
  cbv zeta. split; [|split; [|split; [|split]]].
  - split; [|vm_compute; reflexivity]. repeat constructor; vm_compute; discriminate.
  - vm_compute. reflexivity.
  - (* lazy, not vm_compute: Z.to_nat (pc / 4) is a unary number of 2^29 successors *)
    do 2 eexists. lazy. reflexivity.
  - lazy. reflexivity.
  - vm_compute. reflexivity.
Qed.

(* the cycle count is a function of the PATH, not of the trace of executed pcs:
   the pc at which the run leaves the text is fetched (speculatively), and
   whether it hits in the L1I depends on its value *)
Theorem mvp4_same_trace_different_cycles_refuted :
  let p := [SJalr 0 5 0] in
  exists st1' st2' tr,
    seq_run 10 (map sinstr_of (map instr_of p)) no_lab (state_x5 4) = Done st1' tr /\
    seq_run 10 (map sinstr_of (map instr_of p)) no_lab (state_x5 1000) = Done st2' tr /\
    mvp4_run 2000 (map instr_of p) no_lab (state_x5 4) = MDone 314 st1' /\
    mvp4_run 2000 (map instr_of p) no_lab (state_x5 1000) = MDone 622 st2'.
Proof. cbv zeta. do 3 eexists. repeat split; vm_compute; reflexivity. Qed.

(* programs WITH loads and stores: the statement of C01 is false for the faithful
   model.  Three stores to lines that are not in the L1D queue up behind the write
   unit (each memory write keeps it busy for MemoryAccess cycles); the load of the
   third line misses in the L1D while that store is still in the write bus, fetches
   the stale line from memory, and the final flush writes the stale line over the
   stored word ("cold-store-then-load") *)
Theorem mvp4_cold_store_then_load_refuted :
  let p := [SLi 5 7; SSw 5 0 0; SSw 5 128 0; SSw 5 64 0; SLw 6 64 0; SRet] in
  let st := mk_arch (repeat 0 32) (repeat 0 256) in
  exists st' tr c st4,
    seq_run 20 p no_lab st = Done st' tr /\
    mvp4_run 5000 (map instr_of p) no_lab st = MDone c st4 /\
    rget (regs st') 6 = 7 /\ mget (mem st') 64 = 7 /\
    rget (regs st4) 6 = 0 /\ mget (mem st4) 64 = 0.
Proof. cbv zeta. do 4 eexists. split; [vm_compute; reflexivity|]. split; [vm_compute; reflexivity|]. vm_compute. repeat split; reflexivity. Qed.

(* why (length (regs st) <= 32) is a hypothesis: the scoreboard has 32 entries, a write
   to a register number above 31 is not tracked and the next instruction reads the old
   value (the Go code uses a [32]int32 array, where such a register number cannot occur;
   the list-based model and the sequential machine accept any length) *)
Theorem mvp4_more_than_32_registers_refuted :
  let p := [SLi 35 7; SAddi 36 35 1; SRet] in
  let st := mk_arch (repeat 0 40) (repeat 0 64) in
  exists st' tr c st4,
    seq_run 10 p no_lab st = Done st' tr /\
    mvp4_run 2000 (map instr_of p) no_lab st = MDone c st4 /\
    nth 36 (regs st') 0 = 8 /\ nth 36 (regs st4) 0 = 1.
Proof. cbv zeta. do 4 eexists. split; [vm_compute; reflexivity|]. split; [vm_compute; reflexivity|]. vm_compute. split; reflexivity. Qed.
